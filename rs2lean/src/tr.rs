//! Core of the translator: tables, pass 1 (collection), module emission.
use std::collections::{BTreeMap, BTreeSet, HashMap};
use syn::spanned::Spanned;

#[path = "expr.rs"]
mod expr;
#[path = "emit.rs"]
mod emit;

pub struct SrcFile {
    pub stem: String,
    pub path: String,
    pub ast: syn::File,
}

#[derive(Clone, Debug)]
pub struct Reject {
    pub file: String,
    pub line: usize,
    pub item: String,
    pub reason: String,
    /// generated module the rejection belongs to ("" = crate-wide purity gate)
    pub module: String,
    /// "function" | "codec" | "gate"
    pub kind: String,
}

pub struct RunResult {
    pub modules: BTreeMap<String, String>,
    pub rejects: Vec<Reject>,
}

#[derive(Clone, Debug, PartialEq)]
pub enum Ty {
    Usize,
    F64,
    Bool,
    Unit,
    Str,
    Opt(Box<Ty>),
    Arr,   // Box<[f64]>
    Slice, // &[f64] (a list in the model)
    Struct(String),
    Bar,
    Res(Box<Ty>),
    Tuple(Vec<Ty>),
    Err,
    Unknown,
}

impl Ty {
    pub fn lean(&self) -> String {
        match self {
            Ty::Usize => "Nat".into(),
            Ty::F64 => "F".into(),
            Ty::Bool => "Bool".into(),
            Ty::Unit => "Unit".into(),
            Ty::Str => "String".into(),
            Ty::Opt(t) => format!("(Option {})", t.lean()),
            Ty::Arr => "(Array F)".into(),
            Ty::Slice => "(List F)".into(),
            Ty::Struct(n) => format!("({} F)", n),
            Ty::Bar => "(Bar F)".into(),
            Ty::Res(t) => format!("(Res {})", t.lean()),
            Ty::Tuple(ts) => {
                let v: Vec<String> = ts.iter().map(|t| t.lean()).collect();
                format!("({})", v.join(" × "))
            }
            Ty::Err => "TaError".into(),
            Ty::Unknown => "_".into(),
        }
    }
}

#[derive(Clone, Debug)]
pub struct Field {
    pub name: String,
    pub lean: String,
    pub ty: Ty,
    pub rust_ty: String,
    pub serde_skip: bool,
    pub public: bool,
}

#[derive(Clone, Debug)]
pub struct StructInfo {
    pub name: String,
    pub fields: Vec<Field>,
    pub derives: Vec<String>,
    pub serde: bool,
    pub stem: String,
    pub line: usize,
    /// false when a serde attribute the codec model does not understand is present
    pub codec_ok: bool,
    pub codec_why: String,
}

#[derive(Clone, Copy, Debug, PartialEq)]
pub enum Recv {
    None,
    Ref,
    RefMut,
    Value,
}

#[derive(Clone, Copy, Debug, PartialEq)]
pub enum Monad {
    Pure,
    Opt,
    Res,
}

#[derive(Clone, Debug)]
pub struct FnSig {
    pub owner: String,
    pub rust_name: String,
    pub lean_name: String,
    pub recv: Recv,
    pub params: Vec<(String, Ty)>,
    pub ret: Ty,
    pub monad: Monad,
}

#[derive(Clone, Debug)]
pub struct ImplRow {
    pub ty: String,
    pub trait_: String,
    pub generics: Vec<(String, Vec<String>)>, // T : bounds
    pub arg: String,                          // e.g. "f64" or "&T" for Next
    pub stem: String,
}

pub struct Translator {
    pub structs: BTreeMap<String, StructInfo>,
    pub struct_order: Vec<String>,
    pub sigs: HashMap<(String, String), FnSig>, // (owner, lean_name)
    pub impls: Vec<ImplRow>,
    pub rejects: Vec<Reject>,
    pub aliases: HashMap<String, HashMap<String, String>>, // stem -> alias -> struct
    pub free_fns: HashMap<String, String>, // top-level fn name -> stem of the file defining it
    pub indicators: Vec<String>, // structs with impl Reset, in order
    pub gate: Vec<Reject>,
}

pub const LEAN_KEYWORDS: &[&str] = &[
    "open", "end", "at", "from", "in", "then", "else", "fun", "do", "let", "have", "show", "match",
    "with", "if", "for", "where", "instance", "structure", "class", "def", "theorem", "by", "macro",
    "syntax", "prefix", "export", "import", "namespace", "section", "variable", "universe",
    "deriving", "mutual", "local", "private", "protected", "return", "try", "catch", "finally",
    "unless", "mut", "calc", "nomatch", "Type", "Prop", "Sort", "pure", "some", "none", "decide",
    "F", "Scalar", "Rs", "Res", "fmt", "using", "this", "suffices", "obtain", "extends", "abbrev",
    "example", "axiom", "inductive", "attribute", "notation", "infix", "infixl", "infixr", "postfix",
    "set_option", "noncomputable", "partial", "unsafe", "opaque", "termination_by", "decreasing_by",
];

pub fn sanitize(s: &str) -> String {
    if LEAN_KEYWORDS.contains(&s) {
        format!("{}_", s)
    } else {
        s.to_string()
    }
}

impl Translator {
    pub fn new() -> Self {
        Translator {
            structs: BTreeMap::new(),
            struct_order: vec![],
            sigs: HashMap::new(),
            impls: vec![],
            rejects: vec![],
            aliases: HashMap::new(),
            free_fns: HashMap::new(),
            indicators: vec![],
            gate: vec![],
        }
    }

    pub fn reject_k(&mut self, file: &str, line: usize, item: &str, reason: &str, module: &str, kind: &str) {
        self.rejects.push(Reject {
            file: file.to_string(),
            line,
            item: item.to_string(),
            reason: reason.to_string(),
            module: module.to_string(),
            kind: kind.to_string(),
        });
    }

    pub fn rust_ty(&self, t: &syn::Type, generics: &[String]) -> Ty {
        match t {
            syn::Type::Path(p) => {
                let seg = p.path.segments.last().unwrap();
                let name = seg.ident.to_string();
                match name.as_str() {
                    "usize" => Ty::Usize,
                    "f64" => Ty::F64,
                    "bool" => Ty::Bool,
                    "Self" => Ty::Struct("Self".into()),
                    "Option" => {
                        if let syn::PathArguments::AngleBracketed(a) = &seg.arguments {
                            if let Some(syn::GenericArgument::Type(inner)) = a.args.first() {
                                return Ty::Opt(Box::new(self.rust_ty(inner, generics)));
                            }
                        }
                        Ty::Unknown
                    }
                    "Result" => {
                        if let syn::PathArguments::AngleBracketed(a) = &seg.arguments {
                            if let Some(syn::GenericArgument::Type(inner)) = a.args.first() {
                                return Ty::Res(Box::new(self.rust_ty(inner, generics)));
                            }
                        }
                        Ty::Unknown
                    }
                    "Box" => {
                        if let syn::PathArguments::AngleBracketed(a) = &seg.arguments {
                            if let Some(syn::GenericArgument::Type(syn::Type::Slice(s))) = a.args.first() {
                                if self.rust_ty(&s.elem, generics) == Ty::F64 {
                                    return Ty::Arr;
                                }
                            }
                        }
                        Ty::Unknown
                    }
                    "Output" => Ty::Struct("Self::Output".into()),
                    _ => {
                        if generics.contains(&name) {
                            Ty::Bar
                        } else {
                            Ty::Struct(name)
                        }
                    }
                }
            }
            syn::Type::Reference(r) => self.rust_ty(&r.elem, generics),
            // `&[f64]` (parameters only; as a struct field it is outside the plain-data grammar, see `collect`)
            syn::Type::Slice(sl) if self.rust_ty(&sl.elem, generics) == Ty::F64 => Ty::Slice,
            syn::Type::Tuple(t) => {
                if t.elems.is_empty() {
                    Ty::Unit
                } else {
                    Ty::Tuple(t.elems.iter().map(|e| self.rust_ty(e, generics)).collect())
                }
            }
            _ => Ty::Unknown,
        }
    }

    /// Pass 1: struct definitions, use-aliases, impl rows, purity gate.
    fn collect(&mut self, files: &[SrcFile], extra: &[SrcFile]) {
        for f in files.iter().chain(extra.iter()) {
            let mut al = HashMap::new();
            for item in &f.ast.items {
                self.gate_item(f, item);
                match item {
                    syn::Item::Use(u) => collect_alias(&u.tree, &mut al),
                    syn::Item::Struct(s) => {
                        let name = s.ident.to_string();
                        let (derives, serde, bad) = parse_attrs(&s.attrs);
                        let mut codec_ok = true;
                        let mut codec_why = String::new();
                        for b in bad {
                            if b.contains("serde") {
                                // container-level serde attributes (from/into/try_from/…) change the wire format: codec only
                                codec_ok = false;
                                codec_why = format!("unsupported container serde attribute {}", b);
                                continue;
                            }
                            self.gate.push(Reject {
                                file: f.path.clone(),
                                line: s.span().start().line,
                                item: name.clone(),
                                reason: format!("unsupported attribute on struct: {}", b), module: String::new(), kind: "gate".into() });
                        }
                        let mut fields = vec![];
                        if let syn::Fields::Named(nf) = &s.fields {
                            for fld in &nf.named {
                                let fname = fld.ident.as_ref().unwrap().to_string();
                                let ty = match self.rust_ty(&fld.ty, &[]) {
                                    Ty::Slice => Ty::Unknown,
                                    t => t,
                                };
                                let rust_ty = quote::ToTokens::to_token_stream(&fld.ty).to_string().replace(' ', "");
                                let mut skip = false;
                                for a in &fld.attrs {
                                    let txt = quote::ToTokens::to_token_stream(a).to_string().replace(' ', "");
                                    if txt.contains("serde") {
                                        if txt.contains("skip") {
                                            skip = true;
                                        } else if txt.contains("(default)") || txt.contains("rename") {
                                            // no effect on bincode's positional format
                                        } else {
                                            codec_ok = false;
                                            codec_why = format!("unsupported serde attribute on field {}: {}", fname, txt);
                                        }
                                    }
                                }
                                fields.push(Field {
                                    lean: sanitize(&fname),
                                    name: fname,
                                    ty,
                                    rust_ty,
                                    serde_skip: skip,
                                    public: matches!(fld.vis, syn::Visibility::Public(_)),
                                });
                            }
                        } else if !matches!(s.fields, syn::Fields::Unit) {
                            self.gate.push(Reject {
                                file: f.path.clone(),
                                line: s.span().start().line,
                                item: name.clone(),
                                reason: "tuple struct not supported".into(), module: String::new(), kind: "gate".into() });
                        }
                        self.struct_order.push(name.clone());
                        self.structs.insert(
                            name.clone(),
                            StructInfo { name, fields, derives, serde, stem: f.stem.clone(), line: s.span().start().line, codec_ok, codec_why },
                        );
                    }
                    syn::Item::Enum(e) => {
                        let name = e.ident.to_string();
                        let (derives, serde, _) = parse_attrs(&e.attrs);
                        self.struct_order.push(name.clone());
                        self.structs.insert(
                            name.clone(),
                            StructInfo { name, fields: vec![], derives, serde, stem: f.stem.clone(), line: e.span().start().line, codec_ok: true, codec_why: String::new() },
                        );
                    }
                    syn::Item::Impl(im) => {
                        let tyname = quote::ToTokens::to_token_stream(&im.self_ty).to_string().replace(' ', "");
                        let (tr, arg) = match &im.trait_ {
                            Some((_, path, _)) => {
                                let seg = path.segments.last().unwrap();
                                let mut arg = String::new();
                                if let syn::PathArguments::AngleBracketed(a) = &seg.arguments {
                                    arg = quote::ToTokens::to_token_stream(&a.args).to_string().replace(' ', "");
                                }
                                (seg.ident.to_string(), arg)
                            }
                            None => ("".to_string(), String::new()),
                        };
                        let mut gens = vec![];
                        for g in &im.generics.params {
                            if let syn::GenericParam::Type(tp) = g {
                                let bounds: Vec<String> = tp
                                    .bounds
                                    .iter()
                                    .map(|b| quote::ToTokens::to_token_stream(b).to_string().replace(' ', ""))
                                    .collect();
                                gens.push((tp.ident.to_string(), bounds));
                            }
                        }
                        if tr == "Reset" && !self.indicators.contains(&tyname) {
                            self.indicators.push(tyname.clone());
                        }
                        if tr == "Clone" || tr == "Drop" || tr == "Serialize" || tr == "Deserialize" || tr == "Send" || tr == "Sync" {
                            self.gate.push(Reject {
                                file: f.path.clone(),
                                line: im.span().start().line,
                                item: tyname.clone(),
                                reason: format!("hand-written impl {} (purity gate)", tr), module: String::new(), kind: "gate".into() });
                        }
                        self.impls.push(ImplRow { ty: tyname, trait_: tr, generics: gens, arg, stem: f.stem.clone() });
                    }
                    _ => {}
                }
            }
            // resolve `use … as Alias` in the field types of this file's structs
            for si in self.structs.values_mut() {
                if si.stem == f.stem {
                    for fld in si.fields.iter_mut() {
                        if let Ty::Struct(n) = &fld.ty {
                            if let Some(r) = al.get(n) {
                                if fld.rust_ty == *n {
                                    fld.rust_ty = r.clone();
                                }
                                fld.ty = Ty::Struct(r.clone());
                            }
                        }
                    }
                }
            }
            self.aliases.insert(f.stem.clone(), al);
        }
    }

    fn gate_item(&mut self, f: &SrcFile, item: &syn::Item) {
        // test modules are not part of the model
        if let syn::Item::Mod(m) = item {
            let is_test = m.attrs.iter().any(|a| quote::ToTokens::to_token_stream(a).to_string().contains("test"));
            if is_test || m.content.is_none() {
                return;
            }
        }
        if let syn::Item::Macro(m) = item {
            // macro_rules in lib.rs / test helpers
            let txt = quote::ToTokens::to_token_stream(&m.mac.path).to_string();
            if txt.contains("thread_local") || txt.contains("lazy_static") {
                self.gate.push(Reject { file: f.path.clone(), line: m.span().start().line, item: txt.clone(), reason: "global/thread-local state (purity gate)".into(), module: String::new(), kind: "gate".into() });
            }
            return;
        }
        if let syn::Item::Static(s) = item {
            self.gate.push(Reject { file: f.path.clone(), line: s.span().start().line, item: s.ident.to_string(), reason: "static item (purity gate)".into(), module: String::new(), kind: "gate".into() });
            return;
        }
        // token-level scan of non-test items for forbidden identifiers
        if let syn::Item::Mod(_) = item {
            return;
        }
        let toks = quote::ToTokens::to_token_stream(item);
        scan_tokens(toks, &mut |id, line| {
            const BAD: &[&str] = &[
                "unsafe", "Rc", "Arc", "Cell", "RefCell", "Mutex", "RwLock", "AtomicUsize", "AtomicU64", "AtomicBool",
                "AtomicIsize", "AtomicI64", "OnceCell", "OnceLock", "LazyLock", "thread_local", "static", "HashMap", "HashSet",
                "BTreeMap", "BTreeSet", "VecDeque", "Vec", "Instant", "SystemTime", "rand", "thread_rng", "File",
                "stdin", "stdout", "env", "UnsafeCell", "PhantomData", "dyn", "transmute", "MaybeUninit", "ManuallyDrop", "Weak",
                "LinkedList", "BinaryHeap", "String",
            ];
            if BAD.contains(&id) {
                // `dyn` is used by errors.rs Error::source signature: allowed there
                if f.stem == "Errors" && (id == "dyn" || id == "static") {
                    return;
                }
                self.gate.push(Reject { file: f.path.clone(), line, item: id.to_string(), reason: format!("`{}` is outside the plain-data subset (purity gate)", id), module: String::new(), kind: "gate".into() });
            }
        });
    }

    pub fn run(&mut self, files: &[SrcFile], extra: &[SrcFile]) -> RunResult {
        self.collect(files, extra);
        // a field whose type names no struct of the crate (u32, u8, i64, f32, a foreign type …) is outside the plain-data
        // grammar: make it `Unknown` so that the structure still elaborates (opaque `Unit` slot, see emit_struct)
        {
            fn names_known(t: &Ty, known: &dyn Fn(&str) -> bool) -> bool {
                match t {
                    Ty::Struct(n) => known(n),
                    Ty::Opt(x) | Ty::Res(x) => names_known(x, known),
                    Ty::Tuple(v) => v.iter().all(|x| names_known(x, known)),
                    _ => true,
                }
            }
            let names: std::collections::HashSet<String> = self.structs.keys().cloned().collect();
            let aliases = self.aliases.clone();
            for si in self.structs.values_mut() {
                let al = aliases.get(&si.stem).cloned().unwrap_or_default();
                for f in si.fields.iter_mut() {
                    let known = |n: &str| names.contains(n) || al.get(n).map(|r| names.contains(r)).unwrap_or(false);
                    if !names_known(&f.ty, &known) {
                        f.ty = Ty::Unknown;
                    }
                }
            }
        }
        for f in files {
            for it in &f.ast.items {
                if let syn::Item::Fn(func) = it {
                    self.free_fns.insert(func.sig.ident.to_string(), f.stem.clone());
                }
            }
        }
        let order = self.topo(files);
        let mut modules = BTreeMap::new();
        let mut done_stems: Vec<String> = vec![];
        for idx in order {
            let f = &files[idx];
            let text = emit::emit_file(self, f, &done_stems);
            done_stems.push(f.stem.clone());
            modules.insert(f.stem.clone(), text);
        }
        modules.insert("All".to_string(), emit::emit_all(self, files));
        modules.insert("Surface".to_string(), crate::surface::emit_surface(self));
        let mut rejects = self.rejects.clone();
        rejects.extend(self.gate.clone());
        RunResult { modules, rejects }
    }

    /// files sorted so that a file comes after the files defining the structs it mentions
    fn topo(&self, files: &[SrcFile]) -> Vec<usize> {
        let mut deps: Vec<BTreeSet<usize>> = vec![BTreeSet::new(); files.len()];
        let stem_idx: HashMap<&str, usize> = files.iter().enumerate().map(|(i, f)| (f.stem.as_str(), i)).collect();
        for (i, f) in files.iter().enumerate() {
            let toks = quote::ToTokens::to_token_stream(&f.ast);
            let al = self.aliases.get(&f.stem).cloned().unwrap_or_default();
            scan_tokens(toks, &mut |id, _| {
                let name = al.get(id).cloned().unwrap_or(id.to_string());
                if let Some(si) = self.structs.get(&name) {
                    if let Some(&j) = stem_idx.get(si.stem.as_str()) {
                        if j != i {
                            deps[i].insert(j);
                        }
                    }
                }
                if let Some(st) = self.free_fns.get(id) {
                    if let Some(&j) = stem_idx.get(st.as_str()) {
                        if j != i {
                            deps[i].insert(j);
                        }
                    }
                }
            });
        }
        let mut out = vec![];
        let mut state = vec![0u8; files.len()];
        fn visit(i: usize, deps: &Vec<BTreeSet<usize>>, state: &mut Vec<u8>, out: &mut Vec<usize>) {
            if state[i] != 0 {
                return;
            }
            state[i] = 1;
            for &j in &deps[i] {
                visit(j, deps, state, out);
            }
            state[i] = 2;
            out.push(i);
        }
        for i in 0..files.len() {
            visit(i, &deps, &mut state, &mut out);
        }
        out
    }

    pub fn deps_of(&self, f: &SrcFile, done: &[String]) -> Vec<String> {
        let mut v: BTreeSet<String> = BTreeSet::new();
        let toks = quote::ToTokens::to_token_stream(&f.ast);
        let al = self.aliases.get(&f.stem).cloned().unwrap_or_default();
        scan_tokens(toks, &mut |id, _| {
            let name = al.get(id).cloned().unwrap_or(id.to_string());
            if let Some(si) = self.structs.get(&name) {
                if si.stem != f.stem && done.contains(&si.stem) {
                    v.insert(si.stem.clone());
                }
            }
            if let Some(st) = self.free_fns.get(id) {
                if *st != f.stem && done.contains(st) {
                    v.insert(st.clone());
                }
            }
        });
        v.into_iter().collect()
    }
}

fn collect_alias(t: &syn::UseTree, al: &mut HashMap<String, String>) {
    match t {
        syn::UseTree::Path(p) => collect_alias(&p.tree, al),
        syn::UseTree::Group(g) => {
            for i in &g.items {
                collect_alias(i, al);
            }
        }
        syn::UseTree::Rename(r) => {
            al.insert(r.rename.to_string(), r.ident.to_string());
        }
        _ => {}
    }
}

/// returns (derives, has serde cfg_attr derive, unsupported attrs)
fn parse_attrs(attrs: &[syn::Attribute]) -> (Vec<String>, bool, Vec<String>) {
    let mut derives = vec![];
    let mut serde = false;
    let mut bad = vec![];
    for a in attrs {
        let txt = quote::ToTokens::to_token_stream(a).to_string();
        let flat = txt.replace(' ', "");
        if flat.starts_with("#[derive(") {
            let inner = &flat["#[derive(".len()..flat.len() - 2];
            for d in inner.split(',') {
                if !d.is_empty() {
                    derives.push(d.to_string());
                }
            }
        } else if flat.starts_with("#[cfg_attr(feature=\"serde\",derive(") {
            if flat.contains("Serialize") && flat.contains("Deserialize") {
                serde = true;
            } else {
                bad.push(flat);
            }
        } else if flat.starts_with("#[doc") || flat.starts_with("#[allow") || flat.starts_with("#[must_use") || flat.starts_with("#[non_exhaustive") {
        } else {
            bad.push(flat);
        }
    }
    (derives, serde, bad)
}

pub fn scan_tokens(ts: proc_macro2::TokenStream, f: &mut dyn FnMut(&str, usize)) {
    for t in ts {
        match t {
            proc_macro2::TokenTree::Ident(i) => f(&i.to_string(), i.span().start().line),
            proc_macro2::TokenTree::Group(g) => scan_tokens(g.stream(), f),
            _ => {}
        }
    }
}
