//! rs2lean — regenerates the Lean model `TaRs.Gen.*` from the ta-rs sources.
//!
//! usage: rs2lean <repo/src dir> <out dir (…/lean/TaRs/Gen)>
//!
//! The translation is purely syntactic + a tiny type inference (usize / f64 / bool /
//! Option<f64> / Box<[f64]> / nested indicator / bar).  Everything outside the accepted
//! grammar is *rejected* with file:line (purity gate): the function (or the whole file)
//! is then emitted as a stub that does not elaborate, so the theorems depending on it
//! stop checking.  See DESIGN.md §3.2.

mod norm;
mod tr;
mod surface;

use std::collections::BTreeMap;
use std::fs;
use std::path::{Path, PathBuf};

fn main() {
    let args: Vec<String> = std::env::args().collect();
    if args.len() < 3 {
        eprintln!("usage: rs2lean <repo/src> <outdir>");
        std::process::exit(2);
    }
    let src = PathBuf::from(&args[1]);
    let out = PathBuf::from(&args[2]);
    fs::create_dir_all(&out).unwrap();

    // collect files
    let mut files: Vec<(String, PathBuf)> = vec![];
    for f in ["helpers.rs", "data_item.rs"] {
        files.push((stem_of(f), src.join(f)));
    }
    let mut ind: Vec<PathBuf> = fs::read_dir(src.join("indicators"))
        .expect("indicators dir")
        .filter_map(|e| e.ok().map(|e| e.path()))
        .filter(|p| p.extension().map(|e| e == "rs").unwrap_or(false))
        .filter(|p| p.file_name().unwrap() != "mod.rs")
        .collect();
    ind.sort();
    for p in ind {
        let name = p.file_name().unwrap().to_str().unwrap().to_string();
        files.push((stem_of(&name), p));
    }

    let mut parsed: Vec<tr::SrcFile> = vec![];
    for (stem, path) in &files {
        let text = match fs::read_to_string(path) {
            Ok(t) => t,
            Err(e) => {
                eprintln!("cannot read {}: {}", path.display(), e);
                continue;
            }
        };
        match syn::parse_file(&text) {
            Ok(mut ast) => {
                norm::normalise(&mut ast);
                parsed.push(tr::SrcFile {
                stem: stem.clone(),
                path: rel(path, &src),
                ast,
            })
            }
            Err(e) => {
                eprintln!("parse error {}: {}", path.display(), e);
                std::process::exit(3);
            }
        }
    }
    // extra files only scanned by the purity gate and the surface table
    let mut extra: Vec<tr::SrcFile> = vec![];
    for f in ["lib.rs", "traits.rs", "errors.rs", "indicators/mod.rs"] {
        let path = src.join(f);
        if let Ok(text) = fs::read_to_string(&path) {
            if let Ok(ast) = syn::parse_file(&text) {
                extra.push(tr::SrcFile { stem: stem_of(f), path: f.to_string(), ast });
            }
        }
    }

    let mut t = tr::Translator::new();
    let result = t.run(&parsed, &extra);

    let mut written: BTreeMap<String, bool> = BTreeMap::new();
    for (module, text) in &result.modules {
        let p = out.join(format!("{}.lean", module));
        written.insert(module.clone(), write_if_changed(&p, text));
    }
    // remove stale generated files
    if let Ok(rd) = fs::read_dir(&out) {
        for e in rd.flatten() {
            let p = e.path();
            if p.extension().map(|x| x == "lean").unwrap_or(false) {
                let m = p.file_stem().unwrap().to_str().unwrap().to_string();
                if !result.modules.contains_key(&m) {
                    let _ = fs::remove_file(&p);
                }
            }
        }
    }
    // report
    let mut rej = String::from("[");
    for (i, r) in result.rejects.iter().enumerate() {
        if i > 0 {
            rej.push(',');
        }
        rej.push_str(&format!(
            "{{\"file\":{:?},\"line\":{},\"item\":{:?},\"reason\":{:?},\"module\":{:?},\"kind\":{:?}}}",
            r.file, r.line, r.item, r.reason, r.module, r.kind
        ));
    }
    rej.push(']');
    let changed: Vec<&String> = written.iter().filter(|(_, c)| **c).map(|(m, _)| m).collect();
    println!(
        "{{\"modules\":{},\"changed\":{:?},\"rejects\":{}}}",
        result.modules.len(),
        changed,
        rej
    );
    if !result.rejects.is_empty() {
        for r in &result.rejects {
            eprintln!("REJECT {}:{} [{}] {}", r.file, r.line, r.item, r.reason);
        }
    }
}

fn rel(p: &Path, base: &Path) -> String {
    p.strip_prefix(base).unwrap_or(p).to_str().unwrap().to_string()
}

fn stem_of(file: &str) -> String {
    let base = Path::new(file).file_stem().unwrap().to_str().unwrap();
    let parent = Path::new(file).parent().and_then(|p| p.to_str()).unwrap_or("");
    let mut s = String::new();
    if base == "mod" {
        s.push_str(&camel(parent));
        s.push_str("Mod");
        return s;
    }
    camel(base)
}

pub fn camel(s: &str) -> String {
    let mut out = String::new();
    let mut up = true;
    for c in s.chars() {
        if c == '_' || c == '/' {
            up = true;
        } else if up {
            out.extend(c.to_uppercase());
            up = false;
        } else {
            out.push(c);
        }
    }
    out
}

fn write_if_changed(p: &Path, text: &str) -> bool {
    if let Ok(old) = fs::read_to_string(p) {
        if old == text {
            return false;
        }
    }
    fs::write(p, text).unwrap();
    true
}
