//! AST normalisation applied before translation: spellings that are equivalent for EVERY value (no type information
//! and no invariant needed) are brought to one canonical form, so that such a rewrite of the source does not change the
//! generated model at all:
//!   * `x.is_sign_negative()`                →  `!x.is_sign_positive()`      (both only read the sign bit, NaN included)
//!   * `!!c`                                 →  `c`
//!   * `if !c { A } else { B }`              →  `if c { B } else { A }`       (also when `B` is an `else if` chain)
//! Nothing else is touched (in particular no float comparison is negated or flipped: `!(a < b)` is not `a >= b`).
use syn::visit_mut::{self, VisitMut};

pub struct Norm;

fn strip(e: &syn::Expr) -> &syn::Expr {
    match e {
        syn::Expr::Paren(p) => strip(&p.expr),
        syn::Expr::Group(g) => strip(&g.expr),
        o => o,
    }
}

fn negated(e: &syn::Expr) -> Option<syn::Expr> {
    if let syn::Expr::Unary(u) = strip(e) {
        if matches!(u.op, syn::UnOp::Not(_)) {
            return Some(strip(&u.expr).clone());
        }
    }
    None
}

impl VisitMut for Norm {
    fn visit_expr_mut(&mut self, e: &mut syn::Expr) {
        visit_mut::visit_expr_mut(self, e);
        // x.is_sign_negative()  →  !x.is_sign_positive()
        if let syn::Expr::MethodCall(mc) = e {
            if mc.method == "is_sign_negative" && mc.args.is_empty() {
                let mut pos = mc.clone();
                pos.method = syn::Ident::new("is_sign_positive", mc.method.span());
                *e = syn::Expr::Unary(syn::ExprUnary { attrs: vec![], op: syn::UnOp::Not(Default::default()), expr: Box::new(syn::Expr::MethodCall(pos)) });
            }
        }
        // !!c → c
        if let Some(inner) = negated(e) {
            if let Some(inner2) = negated(&inner) {
                *e = inner2;
            }
        }
        // if !c {A} else {B}  →  if c {B} else {A}
        if let syn::Expr::If(ife) = e {
            if matches!(&*ife.cond, syn::Expr::Let(_)) {
                return;
            }
            if let (Some(c), Some((else_tok, eb))) = (negated(&ife.cond), ife.else_branch.clone()) {
                let new_then: syn::Block = match *eb {
                    syn::Expr::Block(b) if b.label.is_none() && b.attrs.is_empty() => b.block,
                    other => syn::Block { brace_token: Default::default(), stmts: vec![syn::Stmt::Expr(other, None)] },
                };
                let old_then = syn::Expr::Block(syn::ExprBlock { attrs: vec![], label: None, block: ife.then_branch.clone() });
                ife.cond = Box::new(c);
                ife.then_branch = new_then;
                ife.else_branch = Some((else_tok, Box::new(old_then)));
            }
        }
    }
}

pub fn normalise(file: &mut syn::File) {
    Norm.visit_file_mut(file);
}
