//! Function-body translation: Rust statements/expressions → Lean (SSA style, Option/Res monad).
use super::*;
use syn::spanned::Spanned;

#[derive(Clone, Debug)]
pub struct Line {
    pub text: String,
    pub monadic: bool,
}

#[derive(Clone, Debug)]
pub struct Tail {
    pub expr: String,
    pub is_comp: bool,
}

#[derive(Clone, Debug)]
pub struct Ex {
    pub val: String,
    pub ty: Ty,
}

#[derive(Clone, Debug)]
pub enum K {
    FnRet,
    Vars { value: bool, vars: Vec<String> },
}

pub type R<T> = Result<T, (usize, String)>;

pub struct FnCx<'a> {
    pub t: &'a Translator,
    pub owner: String,
    pub stem: String,
    pub monad: Monad, // monad used for fallible ops in this fn (Opt or Res)
    pub recv: Recv,
    pub output_ty: Option<Ty>, // Self::Output
    /// name → (type, Lean term standing for the variable, if it is not simply its own sanitised name)
    pub scopes: Vec<HashMap<String, (Ty, Option<String>)>>,
    pub tmp: usize,
    /// (tokens of `arr`, loop variable `i`, Lean term): inside `for i in 0..arr.len()`, `arr[i]` is that term
    pub idx_alias: Option<(String, String, String)>,
    pub idx_alias_binds: usize,
    /// the expression whose value is the function's result (final expression / operand of `return`), by address
    pub fn_tail: Option<*const syn::Expr>,
    pub cur_is_tail: bool,
    pub capture_hit: bool,
    pub generics: Vec<String>,
    pub used_monad: bool,
    pub is_display: bool,
    pub ret_is_res: bool,
    pub ret_unit: bool,
}

fn err<T>(sp: impl Spanned, msg: impl Into<String>) -> R<T> {
    Err((sp.span().start().line, msg.into()))
}

pub fn indent(s: &str, n: usize) -> String {
    let pad = " ".repeat(n);
    s.lines().map(|l| format!("{}{}", pad, l)).collect::<Vec<_>>().join("\n")
}

pub fn has_monadic(lines: &[Line], tail: &Tail) -> bool {
    tail.is_comp || lines.iter().any(|l| l.monadic)
}

/// render a block; `monadic` = emit a `do` block of the ambient monad
pub fn render(lines: &[Line], tail: &Tail, monadic: bool) -> String {
    if monadic {
        let mut s = String::from("(do\n");
        for l in lines {
            s.push_str(&indent(&l.text, 2));
            s.push('\n');
        }
        if tail.is_comp {
            s.push_str(&indent(&tail.expr, 2));
        } else {
            s.push_str(&indent(&format!("pure {}", paren(&tail.expr)), 2));
        }
        s.push(')');
        s
    } else {
        assert!(!has_monadic(lines, tail));
        if lines.is_empty() {
            return tail.expr.clone();
        }
        let mut s = String::from("(");
        let mut first = true;
        for l in lines {
            let t = indent(&l.text, 1);
            if first {
                s.push_str(t.trim_start());
                first = false;
            } else {
                s.push_str(&t);
            }
            s.push('\n');
        }
        s.push_str(&indent(&tail.expr, 1));
        s.push(')');
        s
    }
}

pub fn paren(s: &str) -> String {
    let simple = s.chars().all(|c| c.is_alphanumeric() || c == '_' || c == '.' || c == '\'');
    if simple || (s.starts_with('(') && matching_close(s) == Some(s.len() - 1)) || (s.starts_with('{') && s.ends_with('}')) {
        s.to_string()
    } else {
        format!("({})", s)
    }
}

fn matching_close(s: &str) -> Option<usize> {
    let mut d = 0i32;
    for (i, c) in s.char_indices() {
        if c == '(' {
            d += 1;
        } else if c == ')' {
            d -= 1;
            if d == 0 {
                return Some(i);
            }
        }
    }
    None
}

fn proj(base: &str, i: usize, n: usize) -> String {
    // i-th component of an n-tuple (right-nested pairs)
    if n == 1 {
        return base.to_string();
    }
    let mut s = base.to_string();
    for _ in 0..i {
        s = format!("{}.2", s);
    }
    if i < n - 1 {
        s = format!("{}.1", s);
    }
    s
}

impl<'a> FnCx<'a> {
    pub fn fresh(&mut self) -> String {
        self.tmp += 1;
        format!("t{}", self.tmp)
    }
    pub fn lookup(&self, name: &str) -> Option<Ty> {
        for s in self.scopes.iter().rev() {
            if let Some(t) = s.get(name) {
                return Some(t.0.clone());
            }
        }
        None
    }
    /// Lean term for a variable in scope (closure parameters of unrolled folds are substituted, not let-bound)
    pub fn lookup_val(&self, name: &str) -> String {
        for s in self.scopes.iter().rev() {
            if let Some(t) = s.get(name) {
                return t.1.clone().unwrap_or_else(|| sanitize(name));
            }
        }
        sanitize(name)
    }
    pub fn bind_val(&mut self, name: &str, ty: Ty, val: String) {
        self.scopes.last_mut().unwrap().insert(name.to_string(), (ty, Some(val)));
    }
    /// type of an expression, without emitting anything (the translation is done into a scratch buffer)
    pub fn probe_ty(&mut self, e: &syn::Expr) -> Ty {
        let (tmp, used) = (self.tmp, self.used_monad);
        let r = self.tr_expr(e, &mut vec![]).map(|x| x.ty).unwrap_or(Ty::Unknown);
        self.tmp = tmp;
        self.used_monad = used;
        r
    }
    pub fn bind(&mut self, name: &str, ty: Ty) {
        if matches!(&self.idx_alias, Some((_, iv, _)) if iv == name) {
            self.idx_alias_binds += 1;
        }
        // a new binder that occurs free in a substituted term (see `bind_val`) would capture it
        let ln = sanitize(name);
        let captured = self.scopes.iter().any(|sc| {
            sc.values().any(|(_, v)| match v {
                Some(val) => val.split(|c: char| !(c.is_alphanumeric() || c == '_' || c == '\'')).any(|tok| tok == ln),
                None => false,
            })
        });
        if captured {
            self.capture_hit = true;
        }
        self.scopes.last_mut().unwrap().insert(name.to_string(), (ty, None));
    }
    fn resolve_struct(&self, name: &str) -> String {
        if name == "Self" {
            return self.owner.clone();
        }
        if let Some(al) = self.t.aliases.get(&self.stem) {
            if let Some(x) = al.get(name) {
                return x.clone();
            }
        }
        name.to_string()
    }
    fn norm_ty(&self, t: Ty) -> Ty {
        match t {
            Ty::Struct(n) if n == "Self" => Ty::Struct(self.owner.clone()),
            Ty::Struct(n) if n == "Self::Output" => self.output_ty.clone().unwrap_or(Ty::Unknown),
            Ty::Struct(n) => Ty::Struct(self.resolve_struct(&n)),
            Ty::Opt(t) => Ty::Opt(Box::new(self.norm_ty(*t))),
            Ty::Res(t) => Ty::Res(Box::new(self.norm_ty(*t))),
            Ty::Tuple(ts) => Ty::Tuple(ts.into_iter().map(|t| self.norm_ty(t)).collect()),
            t => t,
        }
    }
    pub fn ty_of(&self, t: &syn::Type) -> Ty {
        let raw = self.t.rust_ty(t, &self.generics);
        self.norm_ty(raw)
    }
    /// lift an Option-valued op into the ambient monad
    fn lift(&self, e: String) -> String {
        match self.monad {
            Monad::Res => format!("Res.ofOption ({})", e),
            _ => e,
        }
    }
    fn mline(&mut self, lines: &mut Vec<Line>, pat: &str, rhs: String) {
        self.used_monad = true;
        lines.push(Line { text: format!("let {} ← {}", pat, rhs), monadic: true });
    }
    fn pline(&mut self, lines: &mut Vec<Line>, pat: &str, rhs: String) {
        lines.push(Line { text: format!("let {} := {}", pat, rhs), monadic: false });
    }

    // ---------------------------------------------------------------- statements

    fn fn_result(&self, v: Option<&Ex>) -> String {
        match self.recv {
            Recv::RefMut => match v {
                Some(e) if e.ty != Ty::Unit => format!("(self, {})", e.val),
                _ => "self".to_string(),
            },
            _ => match v {
                Some(e) => e.val.clone(),
                None => "()".to_string(),
            },
        }
    }

    fn k_tail(&self, k: &K, v: Option<&Ex>) -> R<Tail> {
        let expr = self.k_result(k, v)?;
        let is_comp = matches!(k, K::FnRet) && self.ret_is_res;
        Ok(Tail { expr, is_comp })
    }

    fn k_result(&self, k: &K, v: Option<&Ex>) -> R<String> {
        match k {
            K::FnRet => Ok(self.fn_result(v)),
            K::Vars { value, vars } => {
                let mut parts = vec![];
                if *value {
                    match v {
                        Some(e) => parts.push(e.val.clone()),
                        None => return Err((0, "branch without a value".into())),
                    }
                }
                for x in vars {
                    parts.push(sanitize(x));
                }
                if parts.is_empty() {
                    Ok("()".into())
                } else if parts.len() == 1 {
                    Ok(parts[0].clone())
                } else {
                    Ok(format!("({})", parts.join(", ")))
                }
            }
        }
    }

    pub fn tr_seq(&mut self, stmts: &[syn::Stmt], k: &K, lines: &mut Vec<Line>) -> R<Tail> {
        self.scopes.push(HashMap::new());
        let r = self.tr_seq_inner(stmts, k, lines);
        self.scopes.pop();
        r
    }

    fn tr_seq_inner(&mut self, stmts: &[syn::Stmt], k: &K, lines: &mut Vec<Line>) -> R<Tail> {
        for (i, st) in stmts.iter().enumerate() {
            let last = i + 1 == stmts.len();
            match st {
                syn::Stmt::Local(l) => {
                    let init = match &l.init {
                        Some(i) => i,
                        None => return err(l, "let without initialiser"),
                    };
                    // `let PAT = match … { … => return …, … };` / `let PAT = if … { return … } else { … };`: no merge,
                    // the binding and the rest of the sequence are continued inside every arm
                    if init.diverge.is_none() && contains_return_expr(&init.expr) && matches!(strip_parens(&init.expr), syn::Expr::Match(_) | syn::Expr::If(_)) {
                        return self.tr_branch_nomerge(strip_parens(&init.expr), Some(l), &stmts[i + 1..], k, lines);
                    }
                    // `let (a, b) = e;`
                    let tuple_pat = match &l.pat {
                        syn::Pat::Tuple(_) => Some(&l.pat),
                        syn::Pat::Type(pt) if matches!(&*pt.pat, syn::Pat::Tuple(_)) => Some(&*pt.pat),
                        _ => None,
                    };
                    if let Some(tp) = tuple_pat {
                        if init.diverge.is_some() {
                            return err(l, "let-else");
                        }
                        self.tr_let_tuple(tp, &init.expr, lines)?;
                        continue;
                    }
                    let (name, decl_ty) = match &l.pat {
                        syn::Pat::Ident(pi) => (pi.ident.to_string(), None),
                        syn::Pat::Type(pt) => match &*pt.pat {
                            syn::Pat::Ident(pi) => (pi.ident.to_string(), Some(self.ty_of(&pt.ty))),
                            _ => return err(l, "unsupported let pattern"),
                        },
                        _ => return err(l, "unsupported let pattern"),
                    };
                    let e = self.tr_expr(&init.expr, lines)?;
                    let ty = if e.ty == Ty::Unknown { decl_ty.unwrap_or(Ty::Unknown) } else { e.ty.clone() };
                    let ln = sanitize(&name);
                    if e.val != ln {
                        self.pline(lines, &ln, e.val);
                    }
                    self.bind(&name, ty);
                }
                syn::Stmt::Expr(e, semi) => {
                    let is_tail_value = last && semi.is_none();
                    // return
                    if let syn::Expr::Return(r) = e {
                        // (inside a merged branch / block the continuation is not the function's: cannot be expressed)
                        if !matches!(k, K::FnRet) {
                            return err(e, "early return inside a block whose value is merged");
                        }
                        let v = match &r.expr {
                            Some(x) => {
                                self.fn_tail = Some(strip_parens(x) as *const syn::Expr);
                                let v = self.tr_expr(strip_parens(x), lines);
                                self.fn_tail = None;
                                Some(v?)
                            }
                            None => None,
                        };
                        return Ok(Tail { expr: self.fn_result(v.as_ref()), is_comp: self.ret_is_res });
                    }
                    // `if` statement containing a `return`: no merge, the rest of the
                    // sequence is duplicated into both branches
                    if let syn::Expr::If(ife) = e {
                        if contains_return_expr(e) {
                            return self.tr_if_nomerge(ife, &stmts[i + 1..], k);
                        }
                    }
                    // a `match` statement with a `return` in one of its arms: likewise
                    if let syn::Expr::Match(_) = e {
                        if contains_return_expr(e) && (semi.is_some() || !last) {
                            return self.tr_branch_nomerge(e, None, &stmts[i + 1..], k, lines);
                        }
                    }
                    let wants_value = match k {
                        K::FnRet => !self.ret_unit,
                        K::Vars { value, .. } => *value,
                    };
                    let stmt_like = matches!(e, syn::Expr::ForLoop(_) | syn::Expr::Assign(_)) || matches!(e, syn::Expr::Binary(b) if is_compound(&b.op));
                    if is_tail_value && wants_value && !stmt_like {
                        if matches!(k, K::FnRet) {
                            self.fn_tail = Some(e as *const syn::Expr);
                        }
                        let v = self.tr_expr(e, lines);
                        self.fn_tail = None;
                        let v = v?;
                        return self.k_tail(k, Some(&v)).map_err(|(_, m)| (e.span().start().line, m));
                    }
                    self.tr_stmt_expr(e, lines)?;
                }
                syn::Stmt::Item(it) => return err(it, "nested item"),
                syn::Stmt::Macro(m) => {
                    if last {
                        let v = self.tr_macro(&m.mac, lines)?;
                        return self.k_tail(k, Some(&v)).map_err(|(_, mm)| (m.span().start().line, mm));
                    }
                    return err(m, "macro statement");
                }
            }
        }
        let res = match k {
            K::Vars { value: true, .. } => return Err((0, "block has no value".into())),
            _ => self.k_tail(k, None)?,
        };
        Ok(res)
    }

    /// `let (a, b, _) = init;` — components become projections of the (let-bound) tuple value; a literal tuple on the
    /// right is bound component-wise when no later component mentions an earlier pattern variable.
    fn tr_let_tuple(&mut self, pat: &syn::Pat, init: &syn::Expr, lines: &mut Vec<Line>) -> R<()> {
        let elems = match pat {
            syn::Pat::Tuple(t) => &t.elems,
            _ => return err(pat, "unsupported let pattern"),
        };
        if let syn::Expr::Tuple(te) = strip_parens(init) {
            let flat = elems.iter().all(|p| matches!(p, syn::Pat::Ident(pi) if pi.by_ref.is_none() && pi.subpat.is_none()) || matches!(p, syn::Pat::Wild(_)));
            let mut independent = te.elems.len() == elems.len();
            for (i, p) in elems.iter().enumerate() {
                if let syn::Pat::Ident(pi) = p {
                    let n = pi.ident.to_string();
                    if te.elems.iter().skip(i + 1).any(|v| mentions_ident(v, &n)) {
                        independent = false;
                    }
                }
            }
            if flat && independent {
                let mut vals = vec![];
                for v in &te.elems {
                    vals.push(self.tr_expr(v, lines)?);
                }
                for (p, v) in elems.iter().zip(vals.into_iter()) {
                    if let syn::Pat::Ident(pi) = p {
                        let name = pi.ident.to_string();
                        let ln = sanitize(&name);
                        if v.val != ln {
                            self.pline(lines, &ln, v.val);
                        }
                        self.bind(&name, v.ty);
                    }
                }
                return Ok(());
            }
        }
        let e = self.tr_expr(init, lines)?;
        self.bind_tuple(pat, e, lines)
    }

    fn bind_tuple(&mut self, pat: &syn::Pat, e: Ex, lines: &mut Vec<Line>) -> R<()> {
        let elems = match pat {
            syn::Pat::Tuple(t) => &t.elems,
            _ => return err(pat, "unsupported let pattern"),
        };
        let tys = match &e.ty {
            Ty::Tuple(ts) if ts.len() == elems.len() => ts.clone(),
            other => return err(pat, format!("tuple pattern of {} components against a value of type {:?}", elems.len(), other)),
        };
        // a translator temporary (or a projection of one) can be projected directly; anything else is named first
        let is_tmp = {
            let head = e.val.split('.').next().unwrap_or("");
            head.len() > 1 && head.starts_with('t') && head[1..].chars().all(|c| c.is_ascii_digit()) && e.val.split('.').skip(1).all(|p| p == "1" || p == "2")
        };
        let base = if is_tmp {
            e.val.clone()
        } else {
            let t = self.fresh();
            self.pline(lines, &t, e.val.clone());
            t
        };
        let n = elems.len();
        for (i, p) in elems.iter().enumerate() {
            let pr = proj(&base, i, n);
            match p {
                syn::Pat::Wild(_) => {}
                syn::Pat::Ident(pi) if pi.by_ref.is_none() && pi.subpat.is_none() => {
                    let name = pi.ident.to_string();
                    self.pline(lines, &sanitize(&name), pr);
                    self.bind(&name, tys[i].clone());
                }
                syn::Pat::Tuple(_) => self.bind_tuple(p, Ex { val: pr, ty: tys[i].clone() }, lines)?,
                _ => return err(p, "unsupported let pattern"),
            }
        }
        Ok(())
    }

    /// statements of one arm of a no-merge branching: the arm's own statements, its value bound to the `let` pattern
    /// (unless the arm diverges), then the rest of the enclosing sequence
    fn arm_stmts(&self, body: &syn::Expr, bind: Option<&syn::Local>, arm_binds: &[String], rest: &[syn::Stmt]) -> R<Vec<syn::Stmt>> {
        let mut stmts: Vec<syn::Stmt> = match strip_parens(body) {
            syn::Expr::Block(b) if b.label.is_none() => b.block.stmts.clone(),
            other => vec![syn::Stmt::Expr(other.clone(), None)],
        };
        let mut pat_names: Vec<String> = vec![];
        if let Some(l) = bind {
            crate::tr::scan_tokens(quote::ToTokens::to_token_stream(&l.pat), &mut |id, _| pat_names.push(id.to_string()));
        }
        // names the arm introduces (pattern variables, arm-local lets) that would capture a use in the rest
        let mut introduced: Vec<String> = arm_binds.to_vec();
        let n = stmts.len();
        for st in stmts.iter().take(n.saturating_sub(1)) {
            if let syn::Stmt::Local(l) = st {
                crate::tr::scan_tokens(quote::ToTokens::to_token_stream(&l.pat), &mut |id, _| introduced.push(id.to_string()));
            }
        }
        for name in &introduced {
            if pat_names.contains(name) {
                continue;
            }
            for r in rest {
                let mut hit = false;
                crate::tr::scan_tokens(quote::ToTokens::to_token_stream(r), &mut |id, _| {
                    if id == name {
                        hit = true;
                    }
                });
                if hit {
                    return err(body, format!("arm-local name `{}` would capture a later use (early return in a branch)", name));
                }
            }
        }
        match stmts.pop() {
            None => {
                if bind.is_some() {
                    return err(body, "empty arm used as a value");
                }
            }
            Some(syn::Stmt::Expr(e, None)) => {
                if matches!(e, syn::Expr::Return(_)) {
                    stmts.push(syn::Stmt::Expr(e, Some(Default::default())));
                } else if let Some(l) = bind {
                    let mut l2 = l.clone();
                    l2.init = Some(syn::LocalInit { eq_token: Default::default(), expr: Box::new(e), diverge: None });
                    stmts.push(syn::Stmt::Local(l2));
                } else {
                    stmts.push(syn::Stmt::Expr(e, Some(Default::default())));
                }
            }
            Some(other) => {
                // `…;` as the last statement: the arm has type `()` (statement match) or diverges
                if bind.is_some() && !matches!(&other, syn::Stmt::Expr(syn::Expr::Return(_), _)) {
                    return err(body, "arm used as a value does not end in an expression");
                }
                stmts.push(other);
            }
        }
        stmts.extend_from_slice(rest);
        Ok(stmts)
    }

    /// `match` / `if` with an early `return` in an arm, as a statement or as the initialiser of a `let`
    fn tr_branch_nomerge(&mut self, e: &syn::Expr, bind: Option<&syn::Local>, rest: &[syn::Stmt], k: &K, lines: &mut Vec<Line>) -> R<Tail> {
        let wrap = |b: String| -> String {
            if b.starts_with("match ") || b.starts_with("if ") || (b.contains('\n') && !b.starts_with('(')) {
                format!("({})", b)
            } else {
                b
            }
        };
        match e {
            syn::Expr::Match(m) => {
                let scrut = self.tr_expr(&m.expr, lines)?;
                let mut arms: Vec<(String, Vec<Line>, Tail)> = vec![];
                for arm in &m.arms {
                    if arm.guard.is_some() {
                        return err(arm, "match guard");
                    }
                    let mut binds = vec![];
                    let pat = self.tr_pat(&arm.pat, &scrut.ty, &mut binds)?;
                    let names: Vec<String> = binds.iter().map(|(n, _)| n.clone()).collect();
                    let stmts = self.arm_stmts(&arm.body, bind, &names, rest)?;
                    self.scopes.push(HashMap::new());
                    for (n, t) in &binds {
                        self.bind(n, t.clone());
                    }
                    let mut l = vec![];
                    let t = self.tr_seq(&stmts, k, &mut l);
                    self.scopes.pop();
                    arms.push((format!("| {} =>", pat), l, t?));
                }
                let mon = arms.iter().any(|(_, l, t)| has_monadic(l, t));
                let mut text = format!("match {} with\n", scrut.val);
                for (h, l, t) in &arms {
                    let b = wrap(render(l, t, mon));
                    text.push_str(&format!("  {}\n{}\n", h, indent(&b, 4)));
                }
                Ok(Tail { expr: text.trim_end().to_string(), is_comp: mon })
            }
            syn::Expr::If(ife) => {
                if matches!(&*ife.cond, syn::Expr::Let(_)) {
                    return err(ife, "if-let with an early return used as a value");
                }
                let c = self.tr_cond(&ife.cond, lines)?;
                let then_e = syn::Expr::Block(syn::ExprBlock { attrs: vec![], label: None, block: ife.then_branch.clone() });
                let s1 = self.arm_stmts(&then_e, bind, &[], rest)?;
                let s2 = match &ife.else_branch {
                    Some((_, eb)) => self.arm_stmts(eb, bind, &[], rest)?,
                    None => {
                        if bind.is_some() {
                            return err(ife, "if without else used as value");
                        }
                        rest.to_vec()
                    }
                };
                let mut l1 = vec![];
                let t1 = self.tr_seq(&s1, k, &mut l1)?;
                let mut l2 = vec![];
                let t2 = self.tr_seq(&s2, k, &mut l2)?;
                let mon = has_monadic(&l1, &t1) || has_monadic(&l2, &t2);
                let b1 = wrap(render(&l1, &t1, mon));
                let b2 = wrap(render(&l2, &t2, mon));
                Ok(Tail { expr: format!("if {} then {}\nelse {}", c, b1, b2), is_comp: mon })
            }
            _ => err(e, "not a branching expression"),
        }
    }

    fn tr_if_nomerge(&mut self, ife: &syn::ExprIf, rest: &[syn::Stmt], k: &K) -> R<Tail> {
        let mut pre = vec![];
        // canonical form: `if !c {A}; rest` is emitted as `if c then rest else A; rest` (see norm.rs, which does the
        // same for an `if` that has an `else`)
        let (cond_e, swap): (&syn::Expr, bool) = match strip_parens(&ife.cond) {
            syn::Expr::Unary(u) if matches!(u.op, syn::UnOp::Not(_)) => (&*u.expr, true),
            o => (o, false),
        };
        let c = self.tr_cond(cond_e, &mut pre)?;
        if !pre.is_empty() {
            return err(&ife.cond, "fallible condition in early-return if");
        }
        // then branch + rest
        let mut then_stmts: Vec<syn::Stmt> = ife.then_branch.stmts.clone();
        then_stmts.extend_from_slice(rest);
        let mut l1 = vec![];
        let t1 = self.tr_seq(&then_stmts, k, &mut l1)?;
        let mut else_stmts: Vec<syn::Stmt> = vec![];
        if let Some((_, eb)) = &ife.else_branch {
            match &**eb {
                syn::Expr::Block(b) => else_stmts.extend(b.block.stmts.clone()),
                other => else_stmts.push(syn::Stmt::Expr(other.clone(), Some(Default::default()))),
            }
        }
        else_stmts.extend_from_slice(rest);
        let mut l2 = vec![];
        let t2 = self.tr_seq(&else_stmts, k, &mut l2)?;
        let m = has_monadic(&l1, &t1) || has_monadic(&l2, &t2);
        let b1 = render(&l1, &t1, m);
        let b2 = render(&l2, &t2, m);
        let (b1, b2) = if swap { (b2, b1) } else { (b1, b2) };
        Ok(Tail { expr: format!("if {} then {}\nelse {}", c, b1, b2), is_comp: m })
    }

    fn tr_cond(&mut self, c: &syn::Expr, lines: &mut Vec<Line>) -> R<String> {
        let e = self.tr_expr(c, lines)?;
        if e.ty != Ty::Bool {
            return err(c, format!("condition is not bool: {:?}", e.ty));
        }
        Ok(e.val)
    }

    /// expression used as a statement (value discarded)
    fn tr_stmt_expr(&mut self, e: &syn::Expr, lines: &mut Vec<Line>) -> R<()> {
        match e {
            syn::Expr::Assign(a) => {
                let rhs = self.tr_expr(&a.right, lines)?;
                self.assign(&a.left, rhs, lines)
            }
            syn::Expr::Binary(b) if is_compound(&b.op) => {
                let cur = self.tr_expr(&b.left, lines)?;
                let rhs = self.tr_expr(&b.right, lines)?;
                let op = compound_base(&b.op);
                let v = self.arith(op, cur, rhs, b.span().start().line, lines)?;
                self.assign(&b.left, v, lines)
            }
            syn::Expr::If(_) | syn::Expr::Match(_) | syn::Expr::Block(_) => {
                self.tr_branching(e, false, lines)?;
                Ok(())
            }
            syn::Expr::ForLoop(f) => self.tr_for(f, lines),
            // `arr[a..b].fill(c)`: the same `Rs.fill` as the index loop
            syn::Expr::MethodCall(mc) if mc.method == "fill" && mc.args.len() == 1 && is_range_index(&mc.receiver) => {
                let tgt = match self.fill_target(&mc.receiver, lines)? {
                    Some(t) => t,
                    None => return err(mc, "fill on something other than (a sub-slice of) a boxed-slice field"),
                };
                let mark = lines.len();
                let c = self.tr_expr(&mc.args[0], lines)?;
                if lines.len() != mark && !tgt.guard {
                    return err(mc, "fallible fill value");
                }
                self.emit_fill(tgt, c, mc.span().start().line, lines)
            }
            // `arr.iter_mut().for_each(|x| *x = c)` / `arr[a..b].iter_mut().for_each(|x| *x = c)`: idem
            syn::Expr::MethodCall(mc) if mc.method == "for_each" && mc.args.len() == 1 && matches!(strip_parens(&mc.receiver), syn::Expr::MethodCall(i) if i.method == "iter_mut") => {
                let cl = match &mc.args[0] {
                    syn::Expr::Closure(c) if c.inputs.len() == 1 && c.capture.is_none() => c,
                    _ => return err(mc, "for_each argument is not a one-parameter closure"),
                };
                let var = match &cl.inputs[0] {
                    syn::Pat::Ident(pi) if pi.by_ref.is_none() => pi.ident.to_string(),
                    _ => return err(mc, "for_each closure parameter pattern"),
                };
                let value = match deref_store(&cl.body, &var) {
                    Some(v) => v,
                    None => return err(mc, "iter_mut().for_each body is not `*x = value`"),
                };
                let tgt = match self.fill_target(&mc.receiver, lines)? {
                    Some(t) => t,
                    None => return err(mc, "iter_mut() on something other than (a sub-slice of) a boxed-slice field"),
                };
                let mark = lines.len();
                let c = self.tr_expr(value, lines)?;
                if lines.len() != mark {
                    return err(mc, "fallible fill value");
                }
                self.emit_fill(tgt, c, mc.span().start().line, lines)
            }
            syn::Expr::MethodCall(mc) if mc.method == "fill" && mc.args.len() == 1 => {
                let (root, path) = self.field_path(&mc.receiver)?;
                let base = self.tr_expr(&mc.receiver, lines)?;
                if base.ty != Ty::Arr {
                    return err(mc, "fill on a non-array");
                }
                let c = self.tr_expr(&mc.args[0], lines)?;
                if c.ty != Ty::F64 {
                    return err(mc, "fill with a non-f64");
                }
                let t = self.fresh();
                let call = self.lift(format!("Rs.fill {} 0 {}.size {}", paren(&base.val), paren(&base.val), paren(&c.val)));
                self.mline(lines, &t, call);
                let upd = self.nested_update(&root, &path, &t);
                self.pline(lines, &root, upd);
                Ok(())
            }
            syn::Expr::MethodCall(_) | syn::Expr::Call(_) => {
                self.tr_expr(e, lines)?;
                Ok(())
            }
            syn::Expr::Paren(p) => self.tr_stmt_expr(&p.expr, lines),
            _ => err(e, "unsupported statement"),
        }
    }

    /// A mutable view of (a sub-range of) a boxed-slice place: `A`, `A[a..b]`, `&mut …`, `….iter_mut()`.
    /// Emits the evaluation of the bounds. `guard` = the slice expression itself can panic in a way `Rs.fill` would
    /// not reproduce (`a > b`, or `a = b > len`): only possible when the range has a non-zero start.
    fn fill_target(&mut self, e: &syn::Expr, lines: &mut Vec<Line>) -> R<Option<FillTarget>> {
        let mut e = strip_parens(e);
        loop {
            match e {
                syn::Expr::Reference(r) if r.mutability.is_some() => e = strip_parens(&r.expr),
                syn::Expr::MethodCall(m) if m.method == "iter_mut" && m.args.is_empty() => e = strip_parens(&m.receiver),
                syn::Expr::Unary(u) if matches!(u.op, syn::UnOp::Deref(_)) => e = strip_parens(&u.expr),
                _ => break,
            }
        }
        let (arr, range) = match e {
            syn::Expr::Index(ix) => match &*ix.index {
                syn::Expr::Range(r) => (strip_parens(&ix.expr), Some(r)),
                _ => return Ok(None),
            },
            o => (o, None),
        };
        let (root, path) = match self.field_path(arr) {
            Ok(x) => x,
            Err(_) => return Ok(None),
        };
        if self.probe_ty(arr) != Ty::Arr {
            return Ok(None);
        }
        let base = self.tr_expr(arr, lines)?;
        let size = Ex { val: format!("{}.size", paren(&base.val)), ty: Ty::Usize };
        let zero = Ex { val: "0".into(), ty: Ty::Usize };
        let (a, b, guard) = match range {
            None => (zero, size, false),
            Some(r) => {
                if !matches!(r.limits, syn::RangeLimits::HalfOpen(_)) {
                    return err(r, "inclusive range");
                }
                let (a, guard) = match &r.start {
                    None => (zero, false),
                    Some(s) => {
                        let lit0 = matches!(strip_parens(s), syn::Expr::Lit(l) if matches!(&l.lit, syn::Lit::Int(i) if i.base10_digits() == "0"));
                        (self.tr_expr(s, lines)?, !lit0)
                    }
                };
                let b = match &r.end {
                    None => size,
                    Some(x) => self.tr_expr(x, lines)?,
                };
                if a.ty != Ty::Usize || b.ty != Ty::Usize {
                    return err(r, "range bounds");
                }
                (a, b, guard)
            }
        };
        if guard {
            let t = self.fresh();
            let call = self.lift(format!("Rs.slice {} {} {}", paren(&base.val), paren(&a.val), paren(&b.val)));
            self.mline(lines, &format!("{} : List F", t), call);
        }
        Ok(Some(FillTarget { root, path, base, a, b, guard }))
    }

    fn emit_fill(&mut self, tgt: FillTarget, c: Ex, line: usize, lines: &mut Vec<Line>) -> R<()> {
        if c.ty != Ty::F64 {
            return Err((line, "fill with a non-f64".into()));
        }
        let t = self.fresh();
        let call = self.lift(format!("Rs.fill {} {} {} {}", paren(&tgt.base.val), paren(&tgt.a.val), paren(&tgt.b.val), paren(&c.val)));
        self.mline(lines, &t, call);
        let upd = self.nested_update(&tgt.root, &tgt.path, &t);
        self.pline(lines, &tgt.root, upd);
        Ok(())
    }

    fn assign(&mut self, place: &syn::Expr, v: Ex, lines: &mut Vec<Line>) -> R<()> {
        match place {
            syn::Expr::Path(p) => {
                let name = p.path.get_ident().map(|i| i.to_string()).ok_or((p.span().start().line, "bad place".to_string()))?;
                if self.lookup(&name).is_none() {
                    return err(p, format!("assignment to unknown variable {}", name));
                }
                self.pline(lines, &sanitize(&name), v.val);
                Ok(())
            }
            syn::Expr::Field(f) => {
                // the field's own type must be inside the grammar (a `Unit` slot cannot be assigned)
                if let Ok(cur) = self.tr_expr(&syn::Expr::Field(f.clone()), &mut vec![]) {
                    if cur.ty == Ty::Unknown || cur.ty == Ty::Unit {
                        return err(f, "assignment to a field whose type is outside the grammar");
                    }
                }
                let (root, path) = self.field_path(&syn::Expr::Field(f.clone()))?;
                let upd = self.nested_update(&root, &path, &v.val);
                self.pline(lines, &root, upd);
                Ok(())
            }
            syn::Expr::Index(ix) => {
                let (root, path) = self.field_path(&ix.expr)?;
                let base = self.tr_expr(&ix.expr, lines)?;
                if base.ty != Ty::Arr {
                    return err(ix, "indexed assignment to a non-array");
                }
                let i = self.tr_expr(&ix.index, lines)?;
                if i.ty != Ty::Usize {
                    return err(ix, "index is not usize");
                }
                let t = self.fresh();
                let call = self.lift(format!("Rs.setIndex {} {} {}", paren(&base.val), paren(&i.val), paren(&v.val)));
                self.mline(lines, &t, call);
                let upd = self.nested_update(&root, &path, &t);
                self.pline(lines, &root, upd);
                Ok(())
            }
            syn::Expr::Paren(p) => self.assign(&p.expr, v, lines),
            // `*self = v` (and `*(place) = v` after the substitution of a `&mut` loop variable): a whole-value store
            syn::Expr::Unary(u) if matches!(u.op, syn::UnOp::Deref(_)) => {
                let inner = strip_parens(&u.expr);
                let pt = self.probe_ty(inner);
                if pt == Ty::Unknown || !(v.ty == pt || matches!((&v.ty, &pt), (Ty::Opt(_), Ty::Opt(_)))) {
                    return err(place, format!("store of {:?} through a reference to {:?}", v.ty, pt));
                }
                match inner {
                    syn::Expr::Path(_) | syn::Expr::Field(_) => self.assign(inner, v, lines),
                    _ => err(place, "unsupported assignment target"),
                }
            }
            _ => err(place, "unsupported assignment target"),
        }
    }

    /// `self.a.b` → ("self", ["a","b"])
    fn field_path(&self, e: &syn::Expr) -> R<(String, Vec<String>)> {
        match e {
            syn::Expr::Path(p) => {
                let name = p.path.get_ident().map(|i| i.to_string()).ok_or((p.span().start().line, "bad place".to_string()))?;
                Ok((sanitize(&name), vec![]))
            }
            syn::Expr::Field(f) => {
                let (r, mut p) = self.field_path(&f.base)?;
                match &f.member {
                    syn::Member::Named(n) => p.push(sanitize(&n.to_string())),
                    _ => return err(f, "tuple field place"),
                }
                Ok((r, p))
            }
            syn::Expr::Paren(p) => self.field_path(&p.expr),
            _ => err(e, "unsupported place expression"),
        }
    }

    fn nested_update(&self, root: &str, path: &[String], v: &str) -> String {
        if path.is_empty() {
            return v.to_string();
        }
        let inner_root = format!("{}.{}", root, path[0]);
        let inner = self.nested_update(&inner_root, &path[1..], v);
        format!("{{ {} with {} := {} }}", root, path[0], inner)
    }

    // ---------------------------------------------------------------- branching

    fn outer_assigned(&self, e: &syn::Expr) -> Vec<String> {
        let mut v = vec![];
        // methods known (from already translated signatures) never to take `&mut self`
        let mut known_pure: Vec<String> = vec![];
        let mut known_mut: Vec<String> = vec![];
        for sig in self.t.sigs.values() {
            if sig.recv == Recv::RefMut {
                known_mut.push(sig.rust_name.clone());
            } else {
                known_pure.push(sig.rust_name.clone());
            }
        }
        known_pure.retain(|n| !known_mut.contains(n));
        assigned_in_expr_with(e, &mut v, &known_pure);
        v.retain(|x| self.lookup(x).is_some());
        let mut out: Vec<String> = vec![];
        for x in v {
            if !out.contains(&x) {
                out.push(x);
            }
        }
        out
    }

    /// if / match / block as expression (want_value) or statement
    fn tr_branching(&mut self, e: &syn::Expr, want_value: bool, lines: &mut Vec<Line>) -> R<Ex> {
        let vars = self.outer_assigned(e);
        let k = K::Vars { value: want_value, vars: vars.clone() };
        let mut val_ty = Ty::Unit;
        // (header, branch blocks)
        let mut arms: Vec<(String, Vec<Line>, Tail)> = vec![];
        let shape: String;
        match e {
            syn::Expr::Block(b) => {
                let mut l = vec![];
                let t = self.tr_block_k(&b.block, &k, &mut l, want_value, &mut val_ty)?;
                arms.push((String::new(), l, t));
                shape = "block".into();
            }
            syn::Expr::If(ife) => {
                // if let → match
                if let syn::Expr::Let(le) = &*ife.cond {
                    let scrut = self.tr_expr(&le.expr, lines)?;
                    let mut binds = vec![];
                    let pat = self.tr_pat(&le.pat, &scrut.ty, &mut binds)?;
                    self.scopes.push(HashMap::new());
                    for (n, t) in &binds {
                        self.bind(n, t.clone());
                    }
                    let mut l = vec![];
                    let t = self.tr_block_k(&ife.then_branch, &k, &mut l, want_value, &mut val_ty);
                    self.scopes.pop();
                    let t = t?;
                    arms.push((format!("| {} =>", pat), l, t));
                    let mut l2 = vec![];
                    let t2 = match &ife.else_branch {
                        Some((_, eb)) => self.tr_else(eb, &k, &mut l2, want_value, &mut val_ty)?,
                        None => {
                            if want_value {
                                return err(ife, "if-let without else used as value");
                            }
                            Tail { expr: self.k_result(&k, None)?, is_comp: false }
                        }
                    };
                    // `if let Some(x) = o {A} else {B}` is `match o { Some(x) => A, None => B }`: same arms
                    let some_of_ident = is_some_of_ident(&le.pat);
                    let else_pat = if some_of_ident && matches!(scrut.ty, Ty::Opt(_)) { "| none =>" } else { "| _ =>" };
                    arms.push((else_pat.into(), l2, t2));
                    shape = format!("match {} with", scrut.val);
                } else {
                    let c = self.tr_cond(&ife.cond, lines)?;
                    let mut l = vec![];
                    let t = self.tr_block_k(&ife.then_branch, &k, &mut l, want_value, &mut val_ty)?;
                    arms.push((format!("if {} then", c), l, t));
                    let mut l2 = vec![];
                    let t2 = match &ife.else_branch {
                        Some((_, eb)) => self.tr_else(eb, &k, &mut l2, want_value, &mut val_ty)?,
                        None => {
                            if want_value {
                                return err(ife, "if without else used as value");
                            }
                            Tail { expr: self.k_result(&k, None)?, is_comp: false }
                        }
                    };
                    arms.push(("else".into(), l2, t2));
                    shape = "if".into();
                }
            }
            syn::Expr::Match(m) => {
                let scrut = self.tr_expr(&m.expr, lines)?;
                for arm in &m.arms {
                    if arm.guard.is_some() {
                        return err(arm, "match guard");
                    }
                    let mut binds = vec![];
                    let pat = self.tr_pat(&arm.pat, &scrut.ty, &mut binds)?;
                    self.scopes.push(HashMap::new());
                    for (n, t) in &binds {
                        self.bind(n, t.clone());
                    }
                    let mut l = vec![];
                    let body_block: syn::Block = match &*arm.body {
                        syn::Expr::Block(b) => b.block.clone(),
                        other => syn::Block { brace_token: Default::default(), stmts: vec![syn::Stmt::Expr(other.clone(), None)] },
                    };
                    let t = self.tr_block_k(&body_block, &k, &mut l, want_value, &mut val_ty);
                    self.scopes.pop();
                    arms.push((format!("| {} =>", pat), l, t?));
                }
                shape = format!("match {} with", scrut.val);
            }
            _ => return err(e, "not a branching expression"),
        }
        let m = arms.iter().any(|(_, l, t)| has_monadic(l, t));
        let mut text = String::new();
        if shape == "block" {
            text = render(&arms[0].1, &arms[0].2, m);
        } else if shape == "if" {
            let b1 = render(&arms[0].1, &arms[0].2, m);
            let b2 = render(&arms[1].1, &arms[1].2, m);
            let multi = b1.contains('\n') || b2.contains('\n');
            if multi {
                text.push_str(&format!("({}\n{}\n  else\n{})", arms[0].0, indent(&b1, 4), indent(&b2, 4)));
            } else {
                text.push_str(&format!("({} {} else {})", arms[0].0, b1, b2));
            }
        } else {
            text.push_str(&format!("({}\n", shape));
            for (h, l, t) in &arms {
                let b = render(l, t, m);
                text.push_str(&format!("  {}\n{}\n", h, indent(&b, 4)));
            }
            text = text.trim_end().to_string();
            text.push(')');
        }
        // bind result
        let n = vars.len() + if want_value { 1 } else { 0 };
        if n == 0 {
            if m {
                let t = self.fresh();
                self.mline(lines, &format!("{} : Unit", t), text);
            }
            return Ok(Ex { val: "()".into(), ty: Ty::Unit });
        }
        if n == 1 && !want_value {
            let v = sanitize(&vars[0]);
            if m {
                self.mline(lines, &v, text);
            } else {
                self.pline(lines, &v, text);
            }
            return Ok(Ex { val: "()".into(), ty: Ty::Unit });
        }
        if n == 1 && want_value && !m && !text.contains('\n') {
            return Ok(Ex { val: text, ty: val_ty });
        }
        let t = self.fresh();
        if m {
            self.mline(lines, &t, text);
        } else {
            self.pline(lines, &t, text);
        }
        let off = if want_value { 1 } else { 0 };
        for (i, v) in vars.iter().enumerate() {
            let p = proj(&t, i + off, n);
            self.pline(lines, &sanitize(v), p);
        }
        if want_value {
            Ok(Ex { val: proj(&t, 0, n), ty: val_ty })
        } else {
            Ok(Ex { val: "()".into(), ty: Ty::Unit })
        }
    }

    fn tr_else(&mut self, eb: &syn::Expr, k: &K, l: &mut Vec<Line>, want_value: bool, val_ty: &mut Ty) -> R<Tail> {
        match eb {
            syn::Expr::Block(b) => self.tr_block_k(&b.block, k, l, want_value, val_ty),
            other => {
                // else if …
                let blk = syn::Block {
                    brace_token: Default::default(),
                    stmts: vec![syn::Stmt::Expr(other.clone(), if want_value { None } else { Some(Default::default()) })],
                };
                self.tr_block_k(&blk, k, l, want_value, val_ty)
            }
        }
    }

    fn tr_block_k(&mut self, b: &syn::Block, k: &K, l: &mut Vec<Line>, want_value: bool, val_ty: &mut Ty) -> R<Tail> {
        if want_value {
            // determine the value type by translating the tail separately
            self.scopes.push(HashMap::new());
            let r = (|| -> R<Tail> {
                let n = b.stmts.len();
                if n == 0 {
                    return err(b, "empty block used as value");
                }
                for (i, st) in b.stmts.iter().enumerate() {
                    if i + 1 < n {
                        let _ = self.tr_seq_inner_one(st, l)?;
                    }
                }
                match &b.stmts[n - 1] {
                    syn::Stmt::Expr(e, None) => {
                        let v = self.tr_expr(e, l)?;
                        if *val_ty == Ty::Unit || *val_ty == Ty::Unknown {
                            *val_ty = v.ty.clone();
                        }
                        let res = self.k_result(k, Some(&v)).map_err(|(_, m)| (e.span().start().line, m))?;
                        Ok(Tail { expr: res, is_comp: false })
                    }
                    syn::Stmt::Macro(m) => {
                        let v = self.tr_macro(&m.mac, l)?;
                        *val_ty = v.ty.clone();
                        let res = self.k_result(k, Some(&v)).map_err(|(_, mm)| (m.span().start().line, mm))?;
                        Ok(Tail { expr: res, is_comp: false })
                    }
                    other => err(other, "block used as value does not end in an expression"),
                }
            })();
            self.scopes.pop();
            r
        } else {
            self.tr_seq(&b.stmts, k, l)
        }
    }

    fn tr_seq_inner_one(&mut self, st: &syn::Stmt, lines: &mut Vec<Line>) -> R<()> {
        let k = K::Vars { value: false, vars: vec![] };
        let one = [st.clone()];
        // reuse tr_seq_inner without opening a scope: statements only
        match st {
            syn::Stmt::Expr(e, _) if matches!(e, syn::Expr::Return(_)) || contains_return_expr(e) => err(e, "return inside a value block"),
            _ => {
                let _ = self.tr_seq_inner(&one_with_semi(&one), &k, lines)?;
                Ok(())
            }
        }
    }

    fn tr_pat(&mut self, p: &syn::Pat, ty: &Ty, binds: &mut Vec<(String, Ty)>) -> R<String> {
        match p {
            syn::Pat::Wild(_) => Ok("_".into()),
            syn::Pat::Lit(l) => Ok(quote::ToTokens::to_token_stream(l).to_string()),
            syn::Pat::Ident(i) => {
                let n = i.ident.to_string();
                if n == "None" {
                    return Ok("none".into());
                }
                binds.push((n.clone(), ty.clone()));
                Ok(sanitize(&n))
            }
            syn::Pat::Path(pp) => {
                let s = pp.path.segments.last().unwrap().ident.to_string();
                if s == "None" {
                    Ok("none".into())
                } else {
                    err(p, "unsupported path pattern")
                }
            }
            syn::Pat::TupleStruct(ts) => {
                let s = ts.path.segments.last().unwrap().ident.to_string();
                if s == "Some" && ts.elems.len() == 1 {
                    let inner_ty = match ty {
                        Ty::Opt(t) => (**t).clone(),
                        _ => Ty::Unknown,
                    };
                    let inner = self.tr_pat(&ts.elems[0], &inner_ty, binds)?;
                    Ok(format!("some {}", inner))
                } else {
                    err(p, "unsupported tuple-struct pattern")
                }
            }
            syn::Pat::Tuple(t) => {
                let tys: Vec<Ty> = match ty {
                    Ty::Tuple(ts) => ts.clone(),
                    _ => vec![Ty::Unknown; t.elems.len()],
                };
                let mut parts = vec![];
                for (i, e) in t.elems.iter().enumerate() {
                    parts.push(self.tr_pat(e, tys.get(i).unwrap_or(&Ty::Unknown), binds)?);
                }
                Ok(format!("({})", parts.join(", ")))
            }
            syn::Pat::Reference(r) => self.tr_pat(&r.pat, ty, binds),
            _ => err(p, "unsupported pattern"),
        }
    }

    // ---------------------------------------------------------------- loops

    fn tr_for(&mut self, f: &syn::ExprForLoop, lines: &mut Vec<Line>) -> R<()> {
        // shape (a): for i in a..b { self.f[i] = c; }
        if let syn::Expr::Range(r) = &*f.expr {
            if let (Some(a), Some(b), syn::RangeLimits::HalfOpen(_)) = (&r.start, &r.end, &r.limits) {
                if let syn::Pat::Ident(pi) = &*f.pat {
                    let iv = pi.ident.to_string();
                    if f.body.stmts.len() == 1 {
                        if let syn::Stmt::Expr(syn::Expr::Assign(asg), _) = &f.body.stmts[0] {
                            if let syn::Expr::Index(ix) = &*asg.left {
                                let idx_is_i = matches!(&*ix.index, syn::Expr::Path(p) if p.path.is_ident(&iv));
                                let mut mentions = false;
                                crate::tr::scan_tokens(quote::ToTokens::to_token_stream(&asg.right), &mut |id, _| {
                                    if id == iv || id == "self" {
                                        mentions = true;
                                    }
                                });
                                if idx_is_i && !mentions {
                                    let ea = self.tr_expr(a, lines)?;
                                    let eb = self.tr_expr(b, lines)?;
                                    let (root, path) = self.field_path(&ix.expr)?;
                                    let base = self.tr_expr(&ix.expr, lines)?;
                                    if base.ty != Ty::Arr || ea.ty != Ty::Usize || eb.ty != Ty::Usize {
                                        return err(f, "fill loop over a non-array");
                                    }
                                    let c = self.tr_expr(&asg.right, lines)?;
                                    let t = self.fresh();
                                    let call = self.lift(format!("Rs.fill {} {} {} {}", paren(&base.val), paren(&ea.val), paren(&eb.val), paren(&c.val)));
                                    self.mline(lines, &t, call);
                                    let upd = self.nested_update(&root, &path, &t);
                                    self.pline(lines, &root, upd);
                                    return Ok(());
                                }
                            }
                        }
                    }
                }
            }
            return self.tr_range_loop(f, r, lines);
        }
        // shape (a'): `for x in arr[a..b].iter_mut() { *x = c; }` / `for x in &mut arr[a..b] { *x = c; }`: the same `Rs.fill`
        let src = strip_parens(&f.expr);
        let is_mut_view = matches!(src, syn::Expr::Reference(r) if r.mutability.is_some()) || matches!(src, syn::Expr::MethodCall(m) if m.method == "iter_mut" && m.args.is_empty());
        if is_mut_view {
            let var = match &*f.pat {
                syn::Pat::Ident(pi) if pi.by_ref.is_none() => pi.ident.to_string(),
                _ => return err(f, "loop pattern"),
            };
            let body = syn::Expr::Block(syn::ExprBlock { attrs: vec![], label: None, block: f.body.clone() });
            let value = match deref_store(&body, &var) {
                Some(v) => v,
                None => return err(f, "unsupported loop over a mutable view (only `{ *x = value; }`)"),
            };
            let tgt = match self.fill_target(src, lines)? {
                Some(t) => t,
                None => return err(f, "mutable loop over something other than (a sub-slice of) a boxed-slice field"),
            };
            let mark = lines.len();
            let c = self.tr_expr(value, lines)?;
            if lines.len() != mark {
                return err(f, "fallible fill value");
            }
            return self.emit_fill(tgt, c, f.span().start().line, lines);
        }
        // shape (d): `for x in [e1, …, en] { body }` — unrolled: `body[x := e1]; …; body[x := en]`
        if let syn::Expr::Array(arr) = src {
            return self.tr_array_loop(f, arr, lines);
        }
        // element source
        // `slice.iter()`, `slice.iter().copied()`, `slice.iter().cloned()` and `&slice` are the same sequence of elements
        let mut src = strip_parens(&f.expr);
        let is_enumerate = matches!(src, syn::Expr::MethodCall(mc) if mc.method == "enumerate");
        if !is_enumerate {
            let mut saw_iter = false;
            loop {
                match src {
                    syn::Expr::MethodCall(mc) if !saw_iter && mc.args.is_empty() && (mc.method == "copied" || mc.method == "cloned") && matches!(strip_parens(&mc.receiver), syn::Expr::MethodCall(i) if i.method == "iter") => {
                        src = strip_parens(&mc.receiver)
                    }
                    syn::Expr::MethodCall(mc) if !saw_iter && mc.args.is_empty() && mc.method == "iter" => {
                        saw_iter = true;
                        src = strip_parens(&mc.receiver)
                    }
                    _ => break,
                }
            }
        }
        let (list, elem_binds): (String, Vec<(String, String, Ty)>) = match src {
            // for v in &slice
            syn::Expr::Reference(_) | syn::Expr::Index(_) | syn::Expr::Path(_) | syn::Expr::Field(_) => {
                let e = self.tr_expr(src, lines)?;
                let e = match e.ty {
                    Ty::Slice => e,
                    Ty::Arr => Ex { val: format!("{}.toList", paren(&e.val)), ty: Ty::Slice },
                    _ => return err(f, "for over a non-slice"),
                };
                let name = match &*f.pat {
                    syn::Pat::Ident(pi) => pi.ident.to_string(),
                    syn::Pat::Reference(r) => match &*r.pat {
                        syn::Pat::Ident(pi) => pi.ident.to_string(),
                        _ => return err(f, "loop pattern"),
                    },
                    _ => return err(f, "loop pattern"),
                };
                (e.val, vec![(name, "x".into(), Ty::F64)])
            }
            syn::Expr::MethodCall(mc) if mc.method == "enumerate" => {
                let inner = match &*mc.receiver {
                    syn::Expr::MethodCall(i2) if i2.method == "iter" => &i2.receiver,
                    _ => return err(f, "enumerate() on something other than .iter()"),
                };
                let base = self.tr_expr(inner, lines)?;
                if base.ty != Ty::Arr {
                    return err(f, "iter().enumerate() over a non-array");
                }
                let (i, v) = match &*f.pat {
                    syn::Pat::Tuple(t) if t.elems.len() == 2 => {
                        let gi = |p: &syn::Pat| -> Option<String> {
                            match p {
                                syn::Pat::Ident(pi) => Some(pi.ident.to_string()),
                                syn::Pat::Reference(r) => match &*r.pat {
                                    syn::Pat::Ident(pi) => Some(pi.ident.to_string()),
                                    _ => None,
                                },
                                _ => None,
                            }
                        };
                        match (gi(&t.elems[0]), gi(&t.elems[1])) {
                            (Some(a), Some(b)) => (a, b),
                            _ => return err(f, "loop pattern"),
                        }
                    }
                    _ => return err(f, "loop pattern"),
                };
                (
                    format!("(Rs.enumerate {})", paren(&base.val)),
                    vec![(i, "x.1".into(), Ty::Usize), (v, "x.2".into(), Ty::F64)],
                )
            }
            _ => return err(f, "unsupported loop source"),
        };
        self.tr_fold(f, list, elem_binds, false, lines)
    }

    /// `for x in [&mut p1, …, &mut pn] { body }` (also `&p`, and plain values, which are evaluated up front): the body is
    /// instantiated once per element, the loop variable replaced by the place (resp. by the name of the evaluated value).
    fn tr_array_loop(&mut self, f: &syn::ExprForLoop, arr: &syn::ExprArray, lines: &mut Vec<Line>) -> R<()> {
        let var = match &*f.pat {
            syn::Pat::Ident(pi) if pi.by_ref.is_none() && pi.subpat.is_none() => pi.ident.to_string(),
            _ => return err(f, "loop pattern"),
        };
        let body_expr = syn::Expr::Block(syn::ExprBlock { attrs: vec![], label: None, block: f.body.clone() });
        if contains_return_expr(&body_expr) {
            return err(f, "return inside a loop");
        }
        // what the loop variable stands for in each round
        let mut reps: Vec<proc_macro2::TokenStream> = vec![];
        self.scopes.push(HashMap::new());
        let r = (|| -> R<()> {
            for e in &arr.elems {
                match strip_parens(e) {
                    syn::Expr::Reference(r) => {
                        let place = strip_parens(&r.expr);
                        if self.field_path(place).is_err() {
                            return err(e, "array-loop element is a reference to something other than a variable or field");
                        }
                        let toks = quote::ToTokens::to_token_stream(place);
                        reps.push(quote::quote!((#toks)));
                    }
                    other => {
                        // by-value element: evaluated before the first round
                        let v = self.tr_expr(other, lines)?;
                        let t = self.fresh();
                        self.pline(lines, &t, v.val);
                        self.bind(&t, v.ty);
                        let id = syn::Ident::new(&t, e.span());
                        reps.push(quote::quote!(#id));
                    }
                }
            }
            let body_toks = quote::ToTokens::to_token_stream(&f.body);
            let flat = !f.body.stmts.iter().any(|st| matches!(st, syn::Stmt::Local(_)));
            for rep in &reps {
                let inst = subst_ident(body_toks.clone(), &var, rep);
                let block: syn::Block = match syn::parse2(inst) {
                    Ok(b) => b,
                    Err(_) => return err(f, "loop variable used in a position where it cannot be replaced by the element"),
                };
                if flat {
                    // no top-level `let` in the body: the statements are simply laid out one round after the other
                    let stmts = one_with_semi(&block.stmts);
                    let k = K::Vars { value: false, vars: vec![] };
                    self.tr_seq(&stmts, &k, lines)?;
                } else {
                    let be = syn::Expr::Block(syn::ExprBlock { attrs: vec![], label: None, block });
                    self.tr_branching(&be, false, lines)?;
                }
            }
            Ok(())
        })();
        self.scopes.pop();
        r.map_err(|(l, m)| (if l <= 1 { f.span().start().line } else { l }, m))
    }

    /// general index loop `for i in a..b { body }`.
    /// * `for i in 0..arr.len()` whose body is total once `arr[i]` is known to be in bounds becomes the SAME
    ///   `List.foldl … (Rs.enumerate arr)` as `for (i, &v) in arr.iter().enumerate()` (with `arr[i]` for `v`);
    /// * anything else becomes `List.foldlM` (in the panic monad) over `List.range' a (b - a)`, the state being the tuple
    ///   of assigned variables (`self` included). `a..b` with `a > b` is empty in Rust and in `List.range'`.
    fn tr_range_loop(&mut self, f: &syn::ExprForLoop, r: &syn::ExprRange, lines: &mut Vec<Line>) -> R<()> {
        let (a, b) = match (&r.start, &r.end, &r.limits) {
            (Some(a), Some(b), syn::RangeLimits::HalfOpen(_)) => (a, b),
            _ => return err(f, "unsupported range loop (only half-open `a..b`)"),
        };
        let iv = match &*f.pat {
            syn::Pat::Ident(pi) if pi.by_ref.is_none() && pi.subpat.is_none() => pi.ident.to_string(),
            _ => return err(f, "loop pattern"),
        };
        let body_expr = syn::Expr::Block(syn::ExprBlock { attrs: vec![], label: None, block: f.body.clone() });
        // enumerate shape
        let lit0 = matches!(strip_parens(a), syn::Expr::Lit(l) if matches!(&l.lit, syn::Lit::Int(i) if i.base10_digits() == "0"));
        if lit0 {
            if let syn::Expr::MethodCall(mc) = strip_parens(b) {
                let arr = strip_parens(&mc.receiver);
                if mc.method == "len" && mc.args.is_empty() && self.field_path(arr).is_ok() && self.probe_ty(arr) == Ty::Arr {
                    let (root, _) = self.field_path(arr)?;
                    let vars = self.outer_assigned(&body_expr);
                    if !vars.iter().any(|v| sanitize(v) == root || *v == iv) {
                        let (tmp, used, mark) = (self.tmp, self.used_monad, lines.len());
                        let base = self.tr_expr(arr, lines)?;
                        let key = quote::ToTokens::to_token_stream(arr).to_string();
                        let xn = lambda_name("x", &body_expr);
                        let saved = self.idx_alias.replace((key, iv.clone(), format!("{}.2", xn)));
                        let saved_binds = std::mem::replace(&mut self.idx_alias_binds, 0);
                        let res = self.tr_fold(f, format!("(Rs.enumerate {})", paren(&base.val)), vec![(iv.clone(), "x.1".into(), Ty::Usize)], false, lines);
                        self.idx_alias = saved;
                        self.idx_alias_binds = saved_binds;
                        match res {
                            Ok(()) => return Ok(()),
                            Err(_) => {
                                self.tmp = tmp;
                                self.used_monad = used;
                                lines.truncate(mark);
                            }
                        }
                    }
                }
            }
        }
        let ea = self.tr_expr(a, lines)?;
        let eb = self.tr_expr(b, lines)?;
        if ea.ty != Ty::Usize || eb.ty != Ty::Usize {
            return err(f, "range bounds are not usize");
        }
        let list = format!("(List.range' {} ({} - {}))", paren(&ea.val), paren(&eb.val), paren(&ea.val));
        self.tr_fold(f, list, vec![(iv, "x".into(), Ty::Usize)], true, lines)
    }

    /// a loop as a left fold over `list`; the accumulator is the tuple of variables the body assigns
    fn tr_fold(&mut self, f: &syn::ExprForLoop, list: String, elem_binds: Vec<(String, String, Ty)>, monadic_ok: bool, lines: &mut Vec<Line>) -> R<()> {
        let body_expr = syn::Expr::Block(syn::ExprBlock { attrs: vec![], label: None, block: f.body.clone() });
        if contains_return_expr(&body_expr) {
            return err(f, "return inside a loop");
        }
        let vars = self.outer_assigned(&body_expr);
        if vars.is_empty() {
            return err(f, "loop without effect");
        }
        if !monadic_ok && vars.iter().any(|v| v == "self") {
            return err(f, "loop body mutates self (only accumulator locals supported)");
        }
        if elem_binds.iter().any(|(n, _, _)| vars.contains(n)) {
            return err(f, "loop variable assigned in the loop body");
        }
        let n = vars.len();
        // names of the fold's λ-parameters: `acc` / `x` unless the body already uses such a name
        let xn = lambda_name("x", &body_expr);
        let an = lambda_name("acc", &body_expr);
        let elem_binds: Vec<(String, String, Ty)> = elem_binds.into_iter().map(|(n, src, ty)| (n, format!("{}{}", xn, &src[1..]), ty)).collect();
        self.scopes.push(HashMap::new());
        let mut bl: Vec<Line> = vec![];
        for (i, v) in vars.iter().enumerate() {
            if n > 1 {
                bl.push(Line { text: format!("let {} := {}", sanitize(v), proj(&an, i, n)), monadic: false });
            }
        }
        for (name, src, ty) in &elem_binds {
            bl.push(Line { text: format!("let {} := {}", sanitize(name), src), monadic: false });
            self.bind(name, ty.clone());
        }
        let k = K::Vars { value: false, vars: vars.clone() };
        let tail = self.tr_seq(&f.body.stmts, &k, &mut bl);
        self.scopes.pop();
        let tail = tail?;
        let mon = has_monadic(&bl, &tail);
        if mon && !monadic_ok {
            return err(f, "fallible operation inside loop body");
        }
        let body = render(&bl, &tail, mon);
        let accname = if n > 1 { an.clone() } else { sanitize(&vars[0]) };
        let init = if n > 1 { format!("({})", vars.iter().map(|v| sanitize(v)).collect::<Vec<_>>().join(", ")) } else { sanitize(&vars[0]) };
        let fold = format!("List.{} (fun {} {} =>\n{}) {} {}", if mon { "foldlM" } else { "foldl" }, accname, xn, indent(&body, 4), init, paren(&list));
        if n == 1 {
            if mon {
                self.mline(lines, &sanitize(&vars[0]), fold);
            } else {
                self.pline(lines, &sanitize(&vars[0]), fold);
            }
        } else {
            let t = self.fresh();
            if mon {
                self.mline(lines, &t, fold);
            } else {
                self.pline(lines, &t, fold);
            }
            for (i, v) in vars.iter().enumerate() {
                let p = proj(&t, i, n);
                self.pline(lines, &sanitize(v), p);
            }
        }
        Ok(())
    }

    // ---------------------------------------------------------------- expressions

    fn arith(&mut self, op: &str, a: Ex, b: Ex, line: usize, lines: &mut Vec<Line>) -> R<Ex> {
        let (ta, tb) = (a.ty.clone(), b.ty.clone());
        if ta == Ty::F64 && tb == Ty::F64 {
            let f = match op {
                "+" => "Scalar.add",
                "-" => "Scalar.sub",
                "*" => "Scalar.mul",
                "/" => "Scalar.div",
                _ => return Err((line, format!("float operator {}", op))),
            };
            return Ok(Ex { val: format!("{} {} {}", f, paren(&a.val), paren(&b.val)), ty: Ty::F64 });
        }
        if ta == Ty::Usize && tb == Ty::Usize {
            let f = match op {
                "+" => "Rs.uadd",
                "-" => "Rs.usub",
                "*" => "Rs.umul",
                "/" => "Rs.udiv",
                "%" => "Rs.umod",
                _ => return Err((line, format!("usize operator {}", op))),
            };
            let t = self.fresh();
            let call = self.lift(format!("{} {} {}", f, paren(&a.val), paren(&b.val)));
            self.mline(lines, &t, call);
            return Ok(Ex { val: t, ty: Ty::Usize });
        }
        Err((line, format!("operator {} on {:?} and {:?}", op, ta, tb)))
    }

    pub fn tr_expr(&mut self, e: &syn::Expr, lines: &mut Vec<Line>) -> R<Ex> {
        match e {
            syn::Expr::Lit(l) => match &l.lit {
                syn::Lit::Float(f) => {
                    let (m, ex) = parse_decimal(f.base10_digits()).ok_or((l.span().start().line, "float literal".to_string()))?;
                    Ok(Ex { val: format!("(Scalar.lit {} {} : F)", m, ex), ty: Ty::F64 })
                }
                syn::Lit::Int(i) => {
                    if i.suffix() == "f64" {
                        Ok(Ex { val: format!("(Scalar.lit {} 0 : F)", i.base10_digits()), ty: Ty::F64 })
                    } else if i.suffix().is_empty() || i.suffix() == "usize" {
                        Ok(Ex { val: i.base10_digits().to_string(), ty: Ty::Usize })
                    } else {
                        err(l, "integer literal suffix")
                    }
                }
                syn::Lit::Bool(b) => Ok(Ex { val: if b.value { "true".into() } else { "false".into() }, ty: Ty::Bool }),
                _ => err(l, "literal"),
            },
            syn::Expr::Paren(p) => self.tr_expr(&p.expr, lines),
            syn::Expr::Group(g) => self.tr_expr(&g.expr, lines),
            syn::Expr::Reference(r) => self.tr_expr(&r.expr, lines),
            syn::Expr::Unary(u) => {
                let x = self.tr_expr(&u.expr, lines)?;
                match u.op {
                    syn::UnOp::Deref(_) => Ok(x),
                    syn::UnOp::Neg(_) if x.ty == Ty::F64 => Ok(Ex { val: format!("Scalar.neg {}", paren(&x.val)), ty: Ty::F64 }),
                    syn::UnOp::Not(_) if x.ty == Ty::Bool => Ok(Ex { val: format!("!{}", paren(&x.val)), ty: Ty::Bool }),
                    _ => err(u, "unary operator"),
                }
            }
            syn::Expr::Path(p) => {
                let segs: Vec<String> = p.path.segments.iter().map(|s| s.ident.to_string()).collect();
                if segs.len() == 1 {
                    let n = &segs[0];
                    if n == "None" {
                        return Ok(Ex { val: "none".into(), ty: Ty::Opt(Box::new(Ty::Unknown)) });
                    }
                    if let Some(t) = self.lookup(n) {
                        return Ok(Ex { val: self.lookup_val(n), ty: t });
                    }
                    return err(p, format!("unknown identifier {}", n));
                }
                if segs.len() == 2 && segs[0] == "f64" {
                    return match segs[1].as_str() {
                        "INFINITY" => Ok(Ex { val: "(Scalar.posInf : F)".into(), ty: Ty::F64 }),
                        "NEG_INFINITY" => Ok(Ex { val: "(Scalar.negInf : F)".into(), ty: Ty::F64 }),
                        "NAN" => Ok(Ex { val: "(Scalar.nan : F)".into(), ty: Ty::F64 }),
                        "EPSILON" => Ok(Ex { val: "(Scalar.lit (5 ^ 52) 52 : F)".into(), ty: Ty::F64 }),
                        "MAX" => Ok(Ex { val: "(Scalar.lit ((2 ^ 53 - 1) * 2 ^ 971) 0 : F)".into(), ty: Ty::F64 }),
                        "MIN" => Ok(Ex { val: "(Scalar.neg (Scalar.lit ((2 ^ 53 - 1) * 2 ^ 971) 0) : F)".into(), ty: Ty::F64 }),
                        "MIN_POSITIVE" => Ok(Ex { val: "(Scalar.lit (5 ^ 1022) 1022 : F)".into(), ty: Ty::F64 }),
                        _ => err(p, "f64 constant"),
                    };
                }
                if segs.len() == 2 && segs[0] == "usize" && segs[1] == "MAX" {
                    return Ok(Ex { val: "Rs.usizeMax".into(), ty: Ty::Usize });
                }
                if segs.len() == 2 && segs[0] == "TaError" {
                    return Ok(Ex { val: format!("TaError.{}", segs[1]), ty: Ty::Err });
                }
                err(p, "unsupported path")
            }
            syn::Expr::Field(f) => {
                let b = self.tr_expr(&f.base, lines)?;
                let name = match &f.member {
                    syn::Member::Named(n) => n.to_string(),
                    _ => return err(f, "tuple field"),
                };
                match &b.ty {
                    Ty::Struct(s) => {
                        let si = self.t.structs.get(s).ok_or((f.span().start().line, format!("unknown struct {}", s)))?;
                        let fld = si.fields.iter().find(|x| x.name == name).ok_or((f.span().start().line, format!("no field {}.{}", s, name)))?;
                        let ty = self.norm_ty(fld.ty.clone());
                        Ok(Ex { val: format!("{}.{}", paren(&b.val), fld.lean), ty })
                    }
                    _ => err(f, format!("field access on {:?}", b.ty)),
                }
            }
            syn::Expr::Index(ix) => {
                // inside `for i in 0..arr.len()`: `arr[i]` is the element the fold is looking at (always in bounds)
                if let Some((key, iv, val)) = &self.idx_alias {
                    // (`idx_alias_binds` > 1: the loop variable has been shadowed somewhere in the body — give up the alias)
                    if self.idx_alias_binds == 1 && matches!(strip_parens(&ix.index), syn::Expr::Path(p) if p.path.is_ident(iv.as_str())) && quote::ToTokens::to_token_stream(strip_parens(&ix.expr)).to_string() == *key {
                        return Ok(Ex { val: val.clone(), ty: Ty::F64 });
                    }
                }
                let b = self.tr_expr(&ix.expr, lines)?;
                if b.ty != Ty::Arr {
                    return err(ix, "indexing a non-array");
                }
                if let syn::Expr::Range(r) = &*ix.index {
                    if !matches!(r.limits, syn::RangeLimits::HalfOpen(_)) {
                        return err(r, "inclusive range");
                    }
                    let a = match &r.start {
                        Some(s) => self.tr_expr(s, lines)?,
                        None => Ex { val: "0".into(), ty: Ty::Usize },
                    };
                    let bb = match &r.end {
                        Some(s) => self.tr_expr(s, lines)?,
                        None => Ex { val: format!("{}.size", paren(&b.val)), ty: Ty::Usize },
                    };
                    if a.ty != Ty::Usize || bb.ty != Ty::Usize {
                        return err(r, "range bounds");
                    }
                    let t = self.fresh();
                    let call = self.lift(format!("Rs.slice {} {} {}", paren(&b.val), paren(&a.val), paren(&bb.val)));
                    self.mline(lines, &t, call);
                    return Ok(Ex { val: t, ty: Ty::Slice });
                }
                let i = self.tr_expr(&ix.index, lines)?;
                if i.ty != Ty::Usize {
                    return err(ix, "index is not usize");
                }
                let t = self.fresh();
                let call = self.lift(format!("Rs.index {} {}", paren(&b.val), paren(&i.val)));
                self.mline(lines, &t, call);
                Ok(Ex { val: t, ty: Ty::F64 })
            }
            syn::Expr::Cast(c) => {
                let x = self.tr_expr(&c.expr, lines)?;
                let target = self.ty_of(&c.ty);
                match (&x.ty, &target) {
                    (Ty::Usize, Ty::F64) => Ok(Ex { val: format!("(Scalar.ofNat {} : F)", paren(&x.val)), ty: Ty::F64 }),
                    (Ty::F64, Ty::F64) | (Ty::Usize, Ty::Usize) => Ok(x),
                    _ => err(c, "unsupported cast"),
                }
            }
            syn::Expr::Binary(b) => {
                if is_compound(&b.op) {
                    return err(b, "compound assignment used as a value");
                }
                let x = self.tr_expr(&b.left, lines)?;
                let mut rl = vec![];
                let y = self.tr_expr(&b.right, &mut rl)?;
                let line = b.span().start().line;
                use syn::BinOp::*;
                match b.op {
                    And(_) | Or(_) => {
                        if !rl.is_empty() {
                            return err(b, "side effects on the right of a short-circuit operator");
                        }
                        if x.ty != Ty::Bool || y.ty != Ty::Bool {
                            return err(b, "boolean operator on non-bool");
                        }
                        let op = if matches!(b.op, And(_)) { "&&" } else { "||" };
                        Ok(Ex { val: format!("({} {} {})", paren(&x.val), op, paren(&y.val)), ty: Ty::Bool })
                    }
                    Add(_) | Sub(_) | Mul(_) | Div(_) | Rem(_) => {
                        lines.extend(rl);
                        let op = match b.op {
                            Add(_) => "+",
                            Sub(_) => "-",
                            Mul(_) => "*",
                            Rem(_) => "%",
                            _ => "/",
                        };
                        self.arith(op, x, y, line, lines)
                    }
                    Lt(_) | Le(_) | Gt(_) | Ge(_) | Eq(_) | Ne(_) => {
                        lines.extend(rl);
                        let (a, c) = (paren(&x.val), paren(&y.val));
                        if x.ty == Ty::F64 && y.ty == Ty::F64 {
                            let v = match b.op {
                                Lt(_) => format!("Scalar.lt {} {}", a, c),
                                Le(_) => format!("Scalar.le {} {}", a, c),
                                Gt(_) => format!("Scalar.lt {} {}", c, a),
                                Ge(_) => format!("Scalar.le {} {}", c, a),
                                Eq(_) => format!("Scalar.beq {} {}", a, c),
                                _ => format!("!(Scalar.beq {} {})", a, c),
                            };
                            Ok(Ex { val: v, ty: Ty::Bool })
                        } else if x.ty == Ty::Usize && y.ty == Ty::Usize {
                            let v = match b.op {
                                Lt(_) => format!("decide ({} < {})", a, c),
                                Le(_) => format!("decide ({} ≤ {})", a, c),
                                Gt(_) => format!("decide ({} < {})", c, a),
                                Ge(_) => format!("decide ({} ≤ {})", c, a),
                                Eq(_) => format!("decide ({} = {})", a, c),
                                _ => format!("decide ({} ≠ {})", a, c),
                            };
                            Ok(Ex { val: v, ty: Ty::Bool })
                        } else {
                            err(b, format!("comparison of {:?} and {:?}", x.ty, y.ty))
                        }
                    }
                    _ => err(b, "binary operator"),
                }
            }
            syn::Expr::If(_) | syn::Expr::Match(_) | syn::Expr::Block(_) => {
                if contains_return_expr(e) {
                    return err(e, "return inside a value expression");
                }
                self.tr_branching(e, true, lines)
            }
            syn::Expr::Tuple(t) => {
                let mut vs = vec![];
                let mut tys = vec![];
                for x in &t.elems {
                    let v = self.tr_expr(x, lines)?;
                    vs.push(v.val);
                    tys.push(v.ty);
                }
                Ok(Ex { val: format!("({})", vs.join(", ")), ty: Ty::Tuple(tys) })
            }
            syn::Expr::Struct(s) => {
                let last = s.path.segments.last().unwrap().ident.to_string();
                let sname = if s.path.segments.len() == 2 && s.path.segments[0].ident == "Self" && last == "Output" {
                    match &self.output_ty {
                        Some(Ty::Struct(n)) => n.clone(),
                        _ => return err(s, "Self::Output is not a struct"),
                    }
                } else {
                    self.resolve_struct(&last)
                };
                let si = self.t.structs.get(&sname).ok_or((s.span().start().line, format!("unknown struct {}", sname)))?.clone();
                let mut parts = vec![];
                for fv in &s.fields {
                    let fname = match &fv.member {
                        syn::Member::Named(n) => n.to_string(),
                        _ => return err(fv, "tuple member"),
                    };
                    let fld = si.fields.iter().find(|x| x.name == fname).ok_or((fv.span().start().line, format!("no field {}", fname)))?;
                    if fld.ty == Ty::Unknown {
                        return err(fv, format!("struct literal sets field {} whose type {} is outside the grammar", fname, fld.rust_ty));
                    }
                    let v = self.tr_expr(&fv.expr, lines)?;
                    parts.push(format!("{} := {}", fld.lean, v.val));
                }
                // struct update syntax `S { f: v, ..base }` (the base is evaluated after the fields)
                if let Some(rest) = &s.rest {
                    let base = self.tr_expr(rest, lines)?;
                    if base.ty != Ty::Struct(sname.clone()) {
                        return err(s, format!("struct update from a value of type {:?}", base.ty));
                    }
                    if parts.is_empty() {
                        return Ok(base);
                    }
                    return Ok(Ex { val: format!("{{ {} with {} }}", paren(&base.val), parts.join(", ")), ty: Ty::Struct(sname) });
                }
                if parts.len() != si.fields.len() {
                    return err(s, "struct literal does not set every field");
                }
                Ok(Ex { val: format!("({{ {} }} : {} F)", parts.join(", "), sname), ty: Ty::Struct(sname) })
            }
            syn::Expr::Try(t) => {
                if self.monad != Monad::Res {
                    return err(t, "`?` outside a Result-returning function");
                }
                let x = self.tr_expr(&t.expr, lines)?;
                match x.ty {
                    Ty::Res(inner) => {
                        let v = self.fresh();
                        self.mline(lines, &v, x.val);
                        Ok(Ex { val: v, ty: *inner })
                    }
                    _ => err(t, "`?` on a non-Result"),
                }
            }
            syn::Expr::Call(c) => self.tr_call(c, lines),
            syn::Expr::MethodCall(m) => {
                self.cur_is_tail = self.fn_tail == Some(e as *const syn::Expr);
                self.tr_method(m, lines)
            }
            syn::Expr::Macro(m) => self.tr_macro(&m.mac, lines),
            syn::Expr::Assign(_) => err(e, "assignment used as a value"),
            _ => err(e, "unsupported expression"),
        }
    }

    fn tr_call(&mut self, c: &syn::ExprCall, lines: &mut Vec<Line>) -> R<Ex> {
        let path = match &*c.func {
            syn::Expr::Path(p) => p.path.segments.iter().map(|s| s.ident.to_string()).collect::<Vec<_>>(),
            _ => return err(c, "call of a non-path"),
        };
        // `std::mem::replace(&mut place, v)` ≡ `{ let old = place; place = v; old }` (the place is evaluated —
        // bounds-checked — first, then `v`; `v` cannot touch the place, which is mutably borrowed)
        let n = path.len();
        if n >= 2 && path[n - 2] == "mem" && path[n - 1] == "replace" && c.args.len() == 2 && (n == 2 || (n == 3 && (path[0] == "std" || path[0] == "core"))) {
            let place = match &c.args[0] {
                syn::Expr::Reference(r) if r.mutability.is_some() => strip_parens(&r.expr),
                _ => return err(c, "mem::replace: first argument is not `&mut place`"),
            };
            let old = self.tr_expr(place, lines)?;
            // the old value must not be an expression that mentions the (about to be shadowed) root
            let old = if matches!(place, syn::Expr::Index(_)) {
                old
            } else {
                let t = self.fresh();
                self.pline(lines, &t, old.val);
                Ex { val: t, ty: old.ty }
            };
            let v = self.tr_expr(&c.args[1], lines)?;
            if !(v.ty == old.ty || v.ty == Ty::Unknown || matches!((&v.ty, &old.ty), (Ty::Opt(_), Ty::Opt(_)))) {
                return err(c, format!("mem::replace: value type {:?} differs from the place type {:?}", v.ty, old.ty));
            }
            self.assign(place, v, lines)?;
            return Ok(old);
        }
        // UFCS: `Trait::method(recv, args…)` / `Trait::<A>::method(recv, args…)` / `Type::method(recv, args…)` ≡ `recv.method(args…)`
        if n == 2 && !c.args.is_empty() {
            let head = self.resolve_struct(&path[0]);
            const TRAITS: &[&str] = &["Next", "Reset", "Period", "Clone", "Open", "High", "Low", "Close", "Volume"];
            let is_trait = TRAITS.contains(&path[0].as_str()) && !self.t.structs.contains_key(&head);
            let is_method_of_type = !is_trait
                && self.t.structs.contains_key(&head)
                && self.t.sigs.values().any(|s| s.owner == head && s.rust_name == path[1] && s.recv != Recv::None && s.params.len() + 1 == c.args.len());
            if is_trait || is_method_of_type {
                let recv = match &c.args[0] {
                    syn::Expr::Reference(r) => strip_parens(&r.expr).clone(),
                    o => strip_parens(o).clone(),
                };
                let mc = syn::ExprMethodCall {
                    attrs: vec![],
                    receiver: Box::new(recv),
                    dot_token: Default::default(),
                    method: syn::Ident::new(&path[1], c.span()),
                    turbofish: None,
                    paren_token: Default::default(),
                    args: c.args.iter().skip(1).cloned().collect(),
                };
                if is_method_of_type {
                    // `Type::method(recv, …)`: the receiver must really be of that type
                    let rt = self.probe_ty(&mc.receiver);
                    if rt != Ty::Struct(head.clone()) {
                        return err(c, format!("{}::{} called on a receiver of type {:?}", head, path[1], rt));
                    }
                }
                return self.tr_method(&mc, lines);
            }
        }
        let mut args = vec![];
        for a in &c.args {
            args.push(self.tr_expr(a, lines)?);
        }
        if path.len() == 1 {
            match path[0].as_str() {
                "Ok" if args.len() == 1 => {
                    return Ok(Ex { val: format!("(Res.ok {})", paren(&args[0].val)), ty: Ty::Res(Box::new(args[0].ty.clone())) });
                }
                "Err" if args.len() == 1 => {
                    return Ok(Ex { val: format!("(Res.err {})", paren(&args[0].val)), ty: Ty::Res(Box::new(Ty::Unknown)) });
                }
                "Some" if args.len() == 1 => {
                    return Ok(Ex { val: format!("(some {})", paren(&args[0].val)), ty: Ty::Opt(Box::new(args[0].ty.clone())) });
                }
                _ => {}
            }
            // free function
            if let Some(sig) = self.t.sigs.get(&("".to_string(), path[0].clone())).cloned() {
                return self.apply(&sig, None, args, c.span().start().line, lines);
            }
            return err(c, format!("unknown function {}", path[0]));
        }
        if path.len() == 2 {
            let owner = self.resolve_struct(&path[0]);
            let lname = lean_fn_name(self.t, &owner, &path[1], None);
            if let Some(sig) = self.t.sigs.get(&(owner.clone(), lname.clone())).cloned() {
                return self.apply(&sig, None, args, c.span().start().line, lines);
            }
            return err(c, format!("unknown associated function {}::{}", owner, path[1]));
        }
        err(c, "unsupported call path")
    }

    /// apply a translated function; `recv` = (root, path, value expr) for methods
    fn apply(&mut self, sig: &FnSig, recv: Option<(Option<(String, Vec<String>)>, Ex)>, args: Vec<Ex>, line: usize, lines: &mut Vec<Line>) -> R<Ex> {
        if args.len() != sig.params.len() {
            return Err((line, format!("arity mismatch calling {}", sig.lean_name)));
        }
        let mut args = args;
        for (a, (_, pt)) in args.iter_mut().zip(sig.params.iter()) {
            // `&boxed_slice` where a `&[f64]` is expected (deref coercion)
            if *pt == Ty::Slice && a.ty == Ty::Arr {
                *a = Ex { val: format!("{}.toList", paren(&a.val)), ty: Ty::Slice };
            }
        }
        for (a, (_, pt)) in args.iter().zip(sig.params.iter()) {
            let ok = a.ty == *pt || a.ty == Ty::Unknown || matches!((&a.ty, pt), (Ty::Opt(_), Ty::Opt(_)));
            if !ok {
                return Err((line, format!("argument type mismatch calling {}.{}: {:?} vs {:?}", sig.owner, sig.lean_name, a.ty, pt)));
            }
        }
        let fname = if sig.owner.is_empty() { sig.lean_name.clone() } else { format!("{}.{}", sig.owner, sig.lean_name) };
        let mut call = fname;
        if sig.lean_name == "display" {
            call.push_str(" fmt");
        }
        if let Some((_, r)) = &recv {
            call.push(' ');
            call.push_str(&paren(&r.val));
        }
        for a in &args {
            call.push(' ');
            call.push_str(&paren(&a.val));
        }
        let ret = sig.ret.clone();
        match sig.recv {
            Recv::RefMut => {
                let (place, _) = recv.ok_or((line, "missing receiver".to_string()))?;
                let (root, path) = place.ok_or((line, "mutating call on a non-place receiver".to_string()))?;
                let t = self.fresh();
                let call = match (sig.monad, self.monad) {
                    (Monad::Opt, Monad::Res) => format!("Res.ofOption ({})", call),
                    _ => call,
                };
                self.mline(lines, &t, call);
                if ret == Ty::Unit {
                    let upd = self.nested_update(&root, &path, &t);
                    self.pline(lines, &root, upd);
                    Ok(Ex { val: "()".into(), ty: Ty::Unit })
                } else {
                    let upd = self.nested_update(&root, &path, &format!("{}.1", t));
                    self.pline(lines, &root, upd);
                    Ok(Ex { val: format!("{}.2", t), ty: ret })
                }
            }
            _ => match sig.monad {
                Monad::Pure => Ok(Ex { val: call, ty: ret }),
                Monad::Opt => {
                    let t = self.fresh();
                    let call = self.lift(call);
                    self.mline(lines, &t, call);
                    Ok(Ex { val: t, ty: ret })
                }
                Monad::Res => Ok(Ex { val: call, ty: Ty::Res(Box::new(ret)) }),
            },
        }
    }

    fn tr_method(&mut self, m: &syn::ExprMethodCall, lines: &mut Vec<Line>) -> R<Ex> {
        let name = m.method.to_string();
        let line = m.span().start().line;
        // vec![..].into_boxed_slice()
        if name == "into_boxed_slice" {
            let r = self.tr_expr(&m.receiver, lines)?;
            if r.ty == Ty::Arr {
                return Ok(r);
            }
            return err(m, "into_boxed_slice on a non-vec");
        }
        // `.clone()` of plain data / of a struct that derives Clone (a hand-written Clone is a purity-gate reject): identity
        if name == "clone" && m.args.is_empty() {
            let r = self.tr_expr(&m.receiver, lines)?;
            let ok = match &r.ty {
                Ty::F64 | Ty::Usize | Ty::Bool | Ty::Arr => true,
                Ty::Opt(t) => matches!(**t, Ty::F64 | Ty::Usize | Ty::Bool),
                Ty::Struct(s) => self.t.structs.get(s).map(|si| si.derives.iter().any(|d| d == "Clone")).unwrap_or(false) && !self.t.impls.iter().any(|i| i.ty == *s && i.trait_ == "Clone"),
                _ => false,
            };
            if !ok {
                return err(m, format!("clone of {:?} (not plain data with a derived Clone)", r.ty));
            }
            return Ok(r);
        }
        let is_tail = std::mem::replace(&mut self.cur_is_tail, false);
        // `xs.iter().fold(init, |acc, &x| body)` (also `.iter().copied().fold`, `.into_iter().fold`)
        if name == "fold" && m.args.len() == 2 {
            return self.tr_iter_fold(m, lines);
        }
        // `r.map(|x| body)` / `r.and_then(|x| body)` on a `Result`, inside a `Result`-returning function: the bind of the
        // three-valued `Res` monad (an `Err` and a panic both pass through). As the function's final value it is written
        // exactly like `Ok(body[x := r?])`; elsewhere it is a nested `do` block of type `Res _`.
        if (name == "map" || name == "and_then") && m.args.len() == 1 && self.monad == Monad::Res {
            if let Ty::Res(inner) = self.probe_ty(&m.receiver) {
                let cl = match strip_parens(&m.args[0]) {
                    syn::Expr::Closure(c) if c.inputs.len() == 1 && c.capture.is_none() => c,
                    _ => return err(m, format!("{}: argument is not a one-parameter closure", name)),
                };
                let pname = match &cl.inputs[0] {
                    syn::Pat::Ident(pi) if pi.by_ref.is_none() && pi.subpat.is_none() => pi.ident.to_string(),
                    syn::Pat::Type(pt) => match &*pt.pat {
                        syn::Pat::Ident(pi) if pi.by_ref.is_none() && pi.subpat.is_none() => pi.ident.to_string(),
                        _ => return err(m, "closure parameter pattern"),
                    },
                    _ => return err(m, "closure parameter pattern"),
                };
                let r = self.tr_expr(&m.receiver, lines)?;
                let wrap = |name: &str, b: Ex| -> R<Ex> {
                    if name == "map" {
                        Ok(Ex { val: format!("(Res.ok {})", paren(&b.val)), ty: Ty::Res(Box::new(b.ty)) })
                    } else if matches!(b.ty, Ty::Res(_)) {
                        Ok(b)
                    } else {
                        Err((line, "and_then: the closure does not return a Result".to_string()))
                    }
                };
                self.scopes.push(HashMap::new());
                let res = if is_tail {
                    self.mline(lines, &sanitize(&pname), r.val);
                    self.bind(&pname, *inner);
                    self.tr_expr(&cl.body, lines).and_then(|b| wrap(&name, b))
                } else {
                    let mut l2 = vec![];
                    self.mline(&mut l2, &sanitize(&pname), r.val);
                    self.bind(&pname, *inner);
                    self.tr_expr(&cl.body, &mut l2).and_then(|b| wrap(&name, b)).map(|b| {
                        let text = render(&l2, &Tail { expr: b.val, is_comp: true }, true);
                        Ex { val: text, ty: b.ty }
                    })
                };
                self.scopes.pop();
                return res;
            }
        }
        const OPTION_METHODS: &[&str] = &["map_or", "map_or_else", "unwrap_or", "unwrap_or_else", "map", "is_some", "is_none", "unwrap", "expect"];
        if OPTION_METHODS.contains(&name.as_str()) {
            if let Ty::Opt(_) = self.probe_ty(&m.receiver) {
                return self.tr_option_method(m, lines);
            }
        }
        let r = self.tr_expr(&m.receiver, lines)?;
        let mut args = vec![];
        for a in &m.args {
            args.push(self.tr_expr(a, lines)?);
        }
        match &r.ty {
            Ty::F64 => {
                let v = paren(&r.val);
                match (name.as_str(), args.len()) {
                    ("abs", 0) => Ok(Ex { val: format!("Scalar.abs {}", v), ty: Ty::F64 }),
                    ("sqrt", 0) => Ok(Ex { val: format!("Scalar.sqrt {}", v), ty: Ty::F64 }),
                    ("max", 1) if args[0].ty == Ty::F64 => Ok(Ex { val: format!("Scalar.max {} {}", v, paren(&args[0].val)), ty: Ty::F64 }),
                    ("is_sign_positive", 0) => Ok(Ex { val: format!("Scalar.isSignPositive {}", v), ty: Ty::Bool }),
                    ("is_sign_negative", 0) => Ok(Ex { val: format!("!(Scalar.isSignPositive {})", v), ty: Ty::Bool }),
                    ("min", 1) if args[0].ty == Ty::F64 => Ok(Ex { val: format!("Scalar.min {} {}", v, paren(&args[0].val)), ty: Ty::F64 }),
                    ("is_nan", 0) => Ok(Ex { val: format!("!(Scalar.beq {} {})", v, v), ty: Ty::Bool }),
                    ("is_finite", 0) => Ok(Ex { val: format!("Scalar.beq (Scalar.sub {} {}) (Scalar.lit 0 0)", v, v), ty: Ty::Bool }),
                    ("clamp", 2) if args[0].ty == Ty::F64 && args[1].ty == Ty::F64 => {
                        let t = self.fresh();
                        let call = self.lift(format!("Rs.fclamp {} {} {}", v, paren(&args[0].val), paren(&args[1].val)));
                        self.mline(lines, &t, call);
                        Ok(Ex { val: t, ty: Ty::F64 })
                    }
                    _ => err(m, format!("unsupported f64 method {}", name)),
                }
            }
            Ty::Usize => {
                let v = paren(&r.val);
                match (name.as_str(), args.len()) {
                    ("min", 1) if args[0].ty == Ty::Usize => Ok(Ex { val: format!("(Nat.min {} {})", v, paren(&args[0].val)), ty: Ty::Usize }),
                    ("max", 1) if args[0].ty == Ty::Usize => Ok(Ex { val: format!("(Nat.max {} {})", v, paren(&args[0].val)), ty: Ty::Usize }),
                    ("saturating_sub", 1) if args[0].ty == Ty::Usize => Ok(Ex { val: format!("({} - {})", v, paren(&args[0].val)), ty: Ty::Usize }),
                    _ => err(m, format!("unsupported usize method {}", name)),
                }
            }
            Ty::Arr => match (name.as_str(), args.len()) {
                ("len", 0) => Ok(Ex { val: format!("{}.size", paren(&r.val)), ty: Ty::Usize }),
                _ => err(m, format!("unsupported method {} on a boxed slice", name)),
            },
            Ty::Slice => match (name.as_str(), args.len()) {
                ("len", 0) => Ok(Ex { val: format!("{}.length", paren(&r.val)), ty: Ty::Usize }),
                _ => err(m, format!("unsupported method {} on a slice", name)),
            },
            Ty::Bar => match (name.as_str(), args.len()) {
                ("open", 0) => Ok(Ex { val: format!("{}.open_", paren(&r.val)), ty: Ty::F64 }),
                ("high", 0) | ("low", 0) | ("close", 0) | ("volume", 0) => Ok(Ex { val: format!("{}.{}", paren(&r.val), name), ty: Ty::F64 }),
                _ => err(m, format!("unsupported method {} on a bar", name)),
            },
            Ty::Res(inner) => {
                if name == "unwrap" && args.is_empty() {
                    let t = self.fresh();
                    let call = self.lift(format!("Rs.unwrap {}", paren(&r.val)));
                    self.mline(lines, &t, call);
                    return Ok(Ex { val: t, ty: (**inner).clone() });
                }
                err(m, format!("unsupported method {} on Result", name))
            }
            Ty::Struct(s) => {
                let s = s.clone();
                let arg_ty = args.first().map(|a| a.ty.clone());
                let lname = lean_fn_name(self.t, &s, &name, arg_ty.as_ref());
                let sig = match self.t.sigs.get(&(s.clone(), lname.clone())) {
                    Some(x) => x.clone(),
                    None => return err(m, format!("unknown method {}.{} (as {})", s, name, lname)),
                };
                let place = self.field_path(&m.receiver).ok();
                self.apply(&sig, Some((place, r)), args, line, lines)
            }
            _ => err(m, format!("method {} on {:?}", name, r.ty)),
        }
    }

    /// `Option` combinators, by desugaring into the `match` they abbreviate (so that `o.map_or(B, |x| A)`,
    /// `if let Some(x) = o { A } else { B }` and `match o { Some(x) => A, None => B }` are ONE Lean term).
    fn tr_option_method(&mut self, m: &syn::ExprMethodCall, lines: &mut Vec<Line>) -> R<Ex> {
        let name = m.method.to_string();
        let recv = &m.receiver;
        // |p| body   (one parameter, no `move`)
        fn closure1(e: &syn::Expr) -> Option<(syn::Pat, &syn::Expr)> {
            match strip_parens(e) {
                syn::Expr::Closure(c) if c.inputs.len() == 1 && c.capture.is_none() => {
                    let p = match &c.inputs[0] {
                        syn::Pat::Type(pt) => (*pt.pat).clone(),
                        o => o.clone(),
                    };
                    Some((p, &c.body))
                }
                _ => None,
            }
        }
        // || body
        fn closure0(e: &syn::Expr) -> Option<&syn::Expr> {
            match strip_parens(e) {
                syn::Expr::Closure(c) if c.inputs.is_empty() && c.capture.is_none() => Some(&c.body),
                _ => None,
            }
        }
        // an eagerly evaluated argument (`map_or`'s / `unwrap_or`'s default): Rust evaluates it BEFORE looking at the
        // option. If it is a total expression this cannot be observed and it is put into the `None` arm; otherwise it
        // is evaluated in front of the match and the arm refers to the result.
        let eager = |cx: &mut Self, e: &syn::Expr, lines: &mut Vec<Line>| -> R<syn::Expr> {
            let (tmp, used) = (cx.tmp, cx.used_monad);
            let mut scratch = vec![];
            let probe = cx.tr_expr(e, &mut scratch);
            cx.tmp = tmp;
            cx.used_monad = used;
            if probe.is_ok() && scratch.is_empty() {
                return Ok(e.clone());
            }
            let v = cx.tr_expr(e, lines)?;
            let t = cx.fresh();
            cx.pline(lines, &t, v.val);
            cx.bind(&t, v.ty);
            let id = syn::Ident::new(&t, e.span());
            Ok(syn::parse_quote!(#id))
        };
        let desugared: syn::Expr = match (name.as_str(), m.args.len()) {
            ("map_or", 2) => {
                let (p, a) = closure1(&m.args[1]).ok_or((m.span().start().line, "map_or: second argument is not a one-parameter closure".to_string()))?;
                let b = eager(self, &m.args[0], lines)?;
                syn::parse_quote!(match #recv { Some(#p) => #a, None => #b })
            }
            ("map_or_else", 2) => {
                let b = closure0(&m.args[0]).ok_or((m.span().start().line, "map_or_else: first argument is not a closure without parameters".to_string()))?;
                let (p, a) = closure1(&m.args[1]).ok_or((m.span().start().line, "map_or_else: second argument is not a one-parameter closure".to_string()))?;
                syn::parse_quote!(match #recv { Some(#p) => #a, None => #b })
            }
            ("unwrap_or", 1) => {
                let b = eager(self, &m.args[0], lines)?;
                syn::parse_quote!(match #recv { Some(opt_val) => opt_val, None => #b })
            }
            ("unwrap_or_else", 1) => {
                let b = closure0(&m.args[0]).ok_or((m.span().start().line, "unwrap_or_else: argument is not a closure without parameters".to_string()))?;
                syn::parse_quote!(match #recv { Some(opt_val) => opt_val, None => #b })
            }
            ("map", 1) => {
                let (p, a) = closure1(&m.args[0]).ok_or((m.span().start().line, "map: argument is not a one-parameter closure".to_string()))?;
                syn::parse_quote!(match #recv { Some(#p) => Some(#a), None => None })
            }
            ("is_some", 0) | ("is_none", 0) => {
                let r = self.tr_expr(recv, lines)?;
                return Ok(Ex { val: format!("{}.{}", paren(&r.val), if name == "is_some" { "isSome" } else { "isNone" }), ty: Ty::Bool });
            }
            ("unwrap", 0) | ("expect", 1) => {
                // `None` panics: the data-level option IS the panic monad's option
                let r = self.tr_expr(recv, lines)?;
                let inner = match &r.ty {
                    Ty::Opt(t) if **t != Ty::Unknown => (**t).clone(),
                    _ => return err(m, "unwrap on an option of unknown type"),
                };
                let t = self.fresh();
                let call = self.lift(r.val);
                self.mline(lines, &t, call);
                return Ok(Ex { val: t, ty: inner });
            }
            _ => return err(m, format!("unsupported method {} on Option", name)),
        };
        let line = m.span().start().line;
        self.tr_expr(&desugared, lines).map_err(|(l, msg)| (if l <= 1 { line } else { l }, msg))
    }

    /// `[e1, …, en].iter().fold(init, |acc, &x| body)` is unrolled into `body[acc := … body[acc := init, x := e1] …, x := en]`
    /// (so `[b, c].iter().fold(a, |m, &x| m.max(x))` IS `a.max(b).max(c)`); over a slice / boxed slice it is `List.foldl`.
    fn tr_iter_fold(&mut self, m: &syn::ExprMethodCall, lines: &mut Vec<Line>) -> R<Ex> {
        let mut src = strip_parens(&m.receiver);
        let mut saw_iter = false;
        loop {
            match src {
                syn::Expr::MethodCall(mc) if mc.args.is_empty() && !saw_iter && (mc.method == "copied" || mc.method == "cloned") => src = strip_parens(&mc.receiver),
                syn::Expr::MethodCall(mc) if mc.args.is_empty() && !saw_iter && (mc.method == "iter" || mc.method == "into_iter") => {
                    saw_iter = true;
                    src = strip_parens(&mc.receiver)
                }
                _ => break,
            }
        }
        if !saw_iter {
            return err(m, "fold on something other than `.iter()`");
        }
        let cl = match strip_parens(&m.args[1]) {
            syn::Expr::Closure(c) if c.inputs.len() == 2 && c.capture.is_none() => c,
            _ => return err(m, "fold: second argument is not a two-parameter closure"),
        };
        let pname = |p: &syn::Pat| -> Option<String> {
            let mut p = p;
            loop {
                match p {
                    syn::Pat::Type(pt) => p = &pt.pat,
                    syn::Pat::Reference(r) => p = &r.pat,
                    syn::Pat::Ident(pi) if pi.by_ref.is_none() && pi.subpat.is_none() => return Some(pi.ident.to_string()),
                    _ => return None,
                }
            }
        };
        let (accn, xn) = match (pname(&cl.inputs[0]), pname(&cl.inputs[1])) {
            (Some(a), Some(b)) if a != b => (a, b),
            _ => return err(m, "fold: closure parameter pattern"),
        };
        if !self.outer_assigned(&cl.body).is_empty() {
            return err(m, "fold closure with side effects");
        }
        if let syn::Expr::Array(arr) = src {
            // Rust's order: the array elements, then `init`, then the closure calls
            let mut elems = vec![];
            for e in &arr.elems {
                elems.push(self.tr_expr(e, lines)?);
            }
            let mut acc = self.tr_expr(&m.args[0], lines)?;
            for x in elems {
                self.scopes.push(HashMap::new());
                self.bind_val(&accn, acc.ty.clone(), paren(&acc.val));
                self.bind_val(&xn, x.ty.clone(), paren(&x.val));
                let outer_hit = std::mem::replace(&mut self.capture_hit, false);
                let r = self.tr_expr(&cl.body, lines);
                self.scopes.pop();
                let hit = std::mem::replace(&mut self.capture_hit, outer_hit) ;
                self.capture_hit |= hit;
                let r = r?;
                if hit {
                    return err(m, "fold closure rebinds a name that occurs in the accumulator or in an element");
                }
                if r.ty != acc.ty && acc.ty != Ty::Unknown {
                    return err(m, format!("fold: accumulator type changes from {:?} to {:?}", acc.ty, r.ty));
                }
                acc = r;
            }
            return Ok(acc);
        }
        let list = self.tr_expr(src, lines)?;
        let list = match list.ty {
            Ty::Slice => list.val,
            Ty::Arr => format!("{}.toList", paren(&list.val)),
            _ => return err(m, "fold over something other than an array literal, a slice or a boxed slice"),
        };
        let init = self.tr_expr(&m.args[0], lines)?;
        self.scopes.push(HashMap::new());
        self.bind(&accn, init.ty.clone());
        self.bind(&xn, Ty::F64);
        let mut bl = vec![];
        let r = self.tr_expr(&cl.body, &mut bl);
        self.scopes.pop();
        let r = r?;
        let tail = Tail { expr: r.val, is_comp: false };
        if has_monadic(&bl, &tail) {
            return err(m, "fallible operation inside a fold closure");
        }
        if r.ty != init.ty {
            return err(m, format!("fold: accumulator type changes from {:?} to {:?}", init.ty, r.ty));
        }
        let body = render(&bl, &tail, false);
        Ok(Ex { val: format!("List.foldl (fun {} {} => {}) {} {}", sanitize(&accn), sanitize(&xn), body, paren(&init.val), paren(&list)), ty: r.ty })
    }

    fn tr_macro(&mut self, mac: &syn::Macro, lines: &mut Vec<Line>) -> R<Ex> {
        let name = mac.path.segments.last().unwrap().ident.to_string();
        if name == "vec" {
            // vec![c; n]
            let parsed: syn::Result<VecRepeat> = mac.parse_body();
            match parsed {
                Ok(v) => {
                    let c = self.tr_expr(&v.elem, lines)?;
                    let n = self.tr_expr(&v.len, lines)?;
                    if c.ty != Ty::F64 || n.ty != Ty::Usize {
                        return err(mac, "vec![c; n] with unexpected types");
                    }
                    let t = self.fresh();
                    let call = self.lift(format!("Rs.vecNew {} {}", paren(&c.val), paren(&n.val)));
                    self.mline(lines, &t, call);
                    Ok(Ex { val: t, ty: Ty::Arr })
                }
                Err(_) => err(mac, "unsupported vec! form"),
            }
        } else if name == "write" {
            if !self.is_display {
                return err(mac, "write! outside Display");
            }
            let parsed: syn::Result<WriteArgs> = mac.parse_body();
            match parsed {
                Ok(w) => {
                    let fmt = w.fmt.value();
                    let pieces: Vec<&str> = fmt.split("{}").collect();
                    if pieces.len() != w.args.len() + 1 || fmt.contains('{') && fmt.replace("{}", "").contains('{') {
                        return err(mac, "unsupported format string");
                    }
                    let mut parts: Vec<String> = vec![];
                    for (i, p) in pieces.iter().enumerate() {
                        if !p.is_empty() {
                            parts.push(format!("{:?}", p));
                        }
                        if i < w.args.len() {
                            let a = self.tr_expr(&w.args[i], lines)?;
                            match a.ty {
                                Ty::Usize => parts.push(format!("toString {}", paren(&a.val))),
                                Ty::F64 => parts.push(format!("fmt {}", paren(&a.val))),
                                _ => return err(mac, "unsupported Display argument"),
                            }
                        }
                    }
                    if parts.is_empty() {
                        parts.push("\"\"".into());
                    }
                    Ok(Ex { val: parts.join(" ++ "), ty: Ty::Str })
                }
                Err(_) => err(mac, "unsupported write! form"),
            }
        } else {
            err(mac, format!("macro {}! is outside the translated subset", name))
        }
    }
}

struct VecRepeat {
    elem: syn::Expr,
    len: syn::Expr,
}
impl syn::parse::Parse for VecRepeat {
    fn parse(input: syn::parse::ParseStream) -> syn::Result<Self> {
        let elem: syn::Expr = input.parse()?;
        let _: syn::Token![;] = input.parse()?;
        let len: syn::Expr = input.parse()?;
        Ok(VecRepeat { elem, len })
    }
}
struct WriteArgs {
    fmt: syn::LitStr,
    args: Vec<syn::Expr>,
}
impl syn::parse::Parse for WriteArgs {
    fn parse(input: syn::parse::ParseStream) -> syn::Result<Self> {
        let _f: syn::Expr = input.parse()?;
        let _: syn::Token![,] = input.parse()?;
        let fmt: syn::LitStr = input.parse()?;
        let mut args = vec![];
        while !input.is_empty() {
            let _: syn::Token![,] = input.parse()?;
            if input.is_empty() {
                break;
            }
            args.push(input.parse()?);
        }
        Ok(WriteArgs { fmt, args })
    }
}

/// Lean name of a method. `next` with a bar argument is `nextBar`; names clashing with a
/// field of the owner (or `period`) get the suffix `_fn`.
pub fn lean_fn_name(t: &Translator, owner: &str, rust: &str, arg: Option<&Ty>) -> String {
    if rust == "next" {
        if let Some(Ty::Bar) = arg {
            return "nextBar".into();
        }
        return "next".into();
    }
    if rust == "fmt" {
        return "display".into();
    }
    if rust == "default" {
        return "default_".into();
    }
    let clash = t.structs.get(owner).map(|s| s.fields.iter().any(|f| f.name == rust)).unwrap_or(false);
    if clash || rust == "period" {
        return format!("{}_fn", rust);
    }
    sanitize(rust)
}

pub struct FillTarget {
    root: String,
    path: Vec<String>,
    base: Ex,
    a: Ex,
    b: Ex,
    guard: bool,
}

/// `Some(x)` / `Some(_)`
fn is_some_of_ident(p: &syn::Pat) -> bool {
    if let syn::Pat::TupleStruct(ts) = p {
        if ts.path.is_ident("Some") && ts.elems.len() == 1 {
            return match &ts.elems[0] {
                syn::Pat::Ident(pi) => pi.subpat.is_none() && pi.ident != "None",
                syn::Pat::Wild(_) => true,
                _ => false,
            };
        }
    }
    false
}

/// replace every identifier `name` in a token stream
fn subst_ident(ts: proc_macro2::TokenStream, name: &str, with: &proc_macro2::TokenStream) -> proc_macro2::TokenStream {
    let mut out = proc_macro2::TokenStream::new();
    for t in ts {
        match t {
            proc_macro2::TokenTree::Ident(ref i) if i == name => out.extend(with.clone()),
            proc_macro2::TokenTree::Group(g) => {
                let mut ng = proc_macro2::Group::new(g.delimiter(), subst_ident(g.stream(), name, with));
                ng.set_span(g.span());
                out.extend(std::iter::once(proc_macro2::TokenTree::Group(ng)));
            }
            other => out.extend(std::iter::once(other)),
        }
    }
    out
}

/// `base`, or `base_1`, `base_2`, … — the first that does not occur as an identifier in `body`
fn lambda_name(base: &str, body: &syn::Expr) -> String {
    let mut cand = base.to_string();
    let mut k = 0;
    while mentions_ident(body, &cand) {
        k += 1;
        cand = format!("{}_{}", base, k);
    }
    cand
}

fn is_range_index(e: &syn::Expr) -> bool {
    matches!(strip_parens(e), syn::Expr::Index(ix) if matches!(&*ix.index, syn::Expr::Range(_)))
}

fn mentions_ident(e: &syn::Expr, name: &str) -> bool {
    let mut found = false;
    crate::tr::scan_tokens(quote::ToTokens::to_token_stream(e), &mut |id, _| {
        if id == name {
            found = true;
        }
    });
    found
}

/// `*x = value` / `{ *x = value; }` / `{ *x = value }` with `value` not mentioning `x` → `value`
fn deref_store<'e>(body: &'e syn::Expr, var: &str) -> Option<&'e syn::Expr> {
    let mut e = strip_parens(body);
    if let syn::Expr::Block(b) = e {
        if b.block.stmts.len() != 1 {
            return None;
        }
        match &b.block.stmts[0] {
            syn::Stmt::Expr(x, _) => e = strip_parens(x),
            _ => return None,
        }
    }
    if let syn::Expr::Assign(a) = e {
        if let syn::Expr::Unary(u) = strip_parens(&a.left) {
            if matches!(u.op, syn::UnOp::Deref(_)) && matches!(strip_parens(&u.expr), syn::Expr::Path(p) if p.path.is_ident(var)) && !mentions_ident(&a.right, var) {
                return Some(&a.right);
            }
        }
    }
    None
}

pub fn strip_parens(e: &syn::Expr) -> &syn::Expr {
    match e {
        syn::Expr::Paren(p) => strip_parens(&p.expr),
        syn::Expr::Group(g) => strip_parens(&g.expr),
        o => o,
    }
}

fn one_with_semi(s: &[syn::Stmt]) -> Vec<syn::Stmt> {
    s.iter()
        .map(|st| match st {
            syn::Stmt::Expr(e, None) => syn::Stmt::Expr(e.clone(), Some(Default::default())),
            o => o.clone(),
        })
        .collect()
}

fn is_compound(op: &syn::BinOp) -> bool {
    matches!(op, syn::BinOp::AddAssign(_) | syn::BinOp::SubAssign(_) | syn::BinOp::MulAssign(_) | syn::BinOp::DivAssign(_))
}
fn compound_base(op: &syn::BinOp) -> &'static str {
    match op {
        syn::BinOp::AddAssign(_) => "+",
        syn::BinOp::SubAssign(_) => "-",
        syn::BinOp::MulAssign(_) => "*",
        _ => "/",
    }
}

pub fn parse_decimal(s: &str) -> Option<(String, u32)> {
    // "0.015" → (15, 3); "3.0" → (3, 0); "100" → (100,0); exponents unsupported
    let s = s.replace('_', "");
    if s.contains('e') || s.contains('E') {
        return None;
    }
    let (ip, fp) = match s.split_once('.') {
        Some((a, b)) => (a.to_string(), b.trim_end_matches('0').to_string()),
        None => (s.clone(), String::new()),
    };
    let digits = format!("{}{}", ip, fp);
    let digits = digits.trim_start_matches('0');
    let m = if digits.is_empty() { "0".to_string() } else { digits.to_string() };
    Some((m, fp.len() as u32))
}

pub fn contains_return_expr(e: &syn::Expr) -> bool {
    let mut found = false;
    crate::tr::scan_tokens(quote::ToTokens::to_token_stream(e), &mut |id, _| {
        if id == "return" {
            found = true;
        }
    });
    found
}

/// root variables assigned (or mutated through a `&mut self` call) inside an expression
pub fn assigned_in_expr_with(e: &syn::Expr, out: &mut Vec<String>, pure_methods: &[String]) {
    let mut tmp = vec![];
    assigned_in_expr(e, &mut tmp);
    // `assigned_in_expr` marks receivers of unknown methods as mutated by pushing "<root>\u{1}<method>"
    for x in tmp {
        if let Some((root, m)) = x.split_once('\u{1}') {
            if !pure_methods.iter().any(|p| p == m) {
                out.push(root.to_string());
            }
        } else {
            out.push(x);
        }
    }
}

pub fn assigned_in_expr(e: &syn::Expr, out: &mut Vec<String>) {
    fn root(e: &syn::Expr) -> Option<String> {
        match e {
            syn::Expr::Path(p) => p.path.get_ident().map(|i| i.to_string()),
            syn::Expr::Field(f) => root(&f.base),
            syn::Expr::Index(i) => root(&i.expr),
            syn::Expr::Paren(p) => root(&p.expr),
            syn::Expr::Unary(u) => root(&u.expr),
            _ => None,
        }
    }
    fn block(b: &syn::Block, out: &mut Vec<String>) {
        for st in &b.stmts {
            match st {
                syn::Stmt::Local(l) => {
                    if let Some(i) = &l.init {
                        assigned_in_expr(&i.expr, out);
                    }
                }
                syn::Stmt::Expr(e, _) => assigned_in_expr(e, out),
                _ => {}
            }
        }
    }
    match e {
        syn::Expr::Assign(a) => {
            assigned_in_expr(&a.right, out);
            if let Some(r) = root(&a.left) {
                out.push(r);
            }
        }
        syn::Expr::Binary(b) => {
            assigned_in_expr(&b.left, out);
            assigned_in_expr(&b.right, out);
            if is_compound(&b.op) {
                if let Some(r) = root(&b.left) {
                    out.push(r);
                }
            }
        }
        syn::Expr::If(i) => {
            assigned_in_expr(&i.cond, out);
            block(&i.then_branch, out);
            if let Some((_, eb)) = &i.else_branch {
                assigned_in_expr(eb, out);
            }
        }
        syn::Expr::Match(m) => {
            assigned_in_expr(&m.expr, out);
            for a in &m.arms {
                assigned_in_expr(&a.body, out);
            }
        }
        syn::Expr::Block(b) => block(&b.block, out),
        syn::Expr::ForLoop(f) => {
            assigned_in_expr(&f.expr, out);
            block(&f.body, out)
        }
        syn::Expr::Closure(c) => assigned_in_expr(&c.body, out),
        syn::Expr::Array(a) => {
            for x in &a.elems {
                assigned_in_expr(x, out);
            }
        }
        syn::Expr::MethodCall(m) => {
            assigned_in_expr(&m.receiver, out);
            for a in &m.args {
                assigned_in_expr(a, out);
            }
            // conservatively: methods that may mutate their receiver
            let n = m.method.to_string();
            const PURE: &[&str] = &["period", "multiplier", "mean", "abs", "sqrt", "max", "min", "clamp", "is_nan", "is_finite", "is_sign_positive", "is_sign_negative", "saturating_sub", "len", "open", "high", "low", "close", "volume", "iter", "enumerate", "unwrap", "into_boxed_slice", "clone", "map_or", "map_or_else", "unwrap_or", "unwrap_or_else", "map", "is_some", "is_none", "expect", "copied", "cloned", "fold"];
            if n == "fill" {
                if let Some(r) = root(&m.receiver) {
                    out.push(r);
                }
            } else if !PURE.contains(&n.as_str()) {
                if let Some(r) = root(&m.receiver) {
                    out.push(format!("{}\u{1}{}", r, n));
                }
            }
        }
        syn::Expr::Call(c) => {
            for a in &c.args {
                assigned_in_expr(a, out);
                // UFCS `Trait::method(self, …)` inside a `&mut self` method: `self` is passed on as `&mut Self`
                if let syn::Expr::Path(p) = strip_parens(a) {
                    if p.path.is_ident("self") {
                        if let syn::Expr::Path(fp) = &*c.func {
                            out.push(format!("self\u{1}{}", fp.path.segments.last().map(|s| s.ident.to_string()).unwrap_or_default()));
                        }
                    }
                }
            }
        }
        syn::Expr::Paren(p) => assigned_in_expr(&p.expr, out),
        syn::Expr::Unary(u) => assigned_in_expr(&u.expr, out),
        syn::Expr::Cast(c) => assigned_in_expr(&c.expr, out),
        syn::Expr::Reference(r) => {
            assigned_in_expr(&r.expr, out);
            // `&mut place` handed to a callee / used as a loop source: the place counts as written
            if r.mutability.is_some() {
                if let Some(x) = root(&r.expr) {
                    out.push(x);
                }
            }
        }
        syn::Expr::Index(i) => {
            assigned_in_expr(&i.expr, out);
            assigned_in_expr(&i.index, out);
        }
        syn::Expr::Field(f) => assigned_in_expr(&f.base, out),
        syn::Expr::Let(l) => assigned_in_expr(&l.expr, out),
        syn::Expr::Return(r) => {
            if let Some(x) = &r.expr {
                assigned_in_expr(x, out);
            }
        }
        syn::Expr::Struct(s) => {
            for f in &s.fields {
                assigned_in_expr(&f.expr, out);
            }
        }
        syn::Expr::Tuple(t) => {
            for x in &t.elems {
                assigned_in_expr(x, out);
            }
        }
        syn::Expr::Try(t) => assigned_in_expr(&t.expr, out),
        _ => {}
    }
}
