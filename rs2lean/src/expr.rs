//! Function-body translation: Rust statements/expressions → Lean (SSA style, Option/Res monad).
use super::*;
use syn::spanned::Spanned;

#[derive(Clone, Debug)]
pub struct Line {
    pub text: String,
    pub monadic: bool,
}

#[derive(Clone, Debug)]
pub struct Tail {
    pub expr: String,
    pub is_comp: bool,
}

#[derive(Clone, Debug)]
pub struct Ex {
    pub val: String,
    pub ty: Ty,
}

#[derive(Clone, Debug)]
pub enum K {
    FnRet,
    Vars { value: bool, vars: Vec<String> },
}

pub type R<T> = Result<T, (usize, String)>;

pub struct FnCx<'a> {
    pub t: &'a Translator,
    pub owner: String,
    pub stem: String,
    pub monad: Monad, // monad used for fallible ops in this fn (Opt or Res)
    pub recv: Recv,
    pub output_ty: Option<Ty>, // Self::Output
    pub scopes: Vec<HashMap<String, Ty>>,
    pub tmp: usize,
    pub generics: Vec<String>,
    pub used_monad: bool,
    pub is_display: bool,
    pub ret_is_res: bool,
    pub ret_unit: bool,
}

fn err<T>(sp: impl Spanned, msg: impl Into<String>) -> R<T> {
    Err((sp.span().start().line, msg.into()))
}

pub fn indent(s: &str, n: usize) -> String {
    let pad = " ".repeat(n);
    s.lines().map(|l| format!("{}{}", pad, l)).collect::<Vec<_>>().join("\n")
}

pub fn has_monadic(lines: &[Line], tail: &Tail) -> bool {
    tail.is_comp || lines.iter().any(|l| l.monadic)
}

/// render a block; `monadic` = emit a `do` block of the ambient monad
pub fn render(lines: &[Line], tail: &Tail, monadic: bool) -> String {
    if monadic {
        let mut s = String::from("(do\n");
        for l in lines {
            s.push_str(&indent(&l.text, 2));
            s.push('\n');
        }
        if tail.is_comp {
            s.push_str(&indent(&tail.expr, 2));
        } else {
            s.push_str(&indent(&format!("pure {}", paren(&tail.expr)), 2));
        }
        s.push(')');
        s
    } else {
        assert!(!has_monadic(lines, tail));
        if lines.is_empty() {
            return tail.expr.clone();
        }
        let mut s = String::from("(");
        let mut first = true;
        for l in lines {
            let t = indent(&l.text, 1);
            if first {
                s.push_str(t.trim_start());
                first = false;
            } else {
                s.push_str(&t);
            }
            s.push('\n');
        }
        s.push_str(&indent(&tail.expr, 1));
        s.push(')');
        s
    }
}

pub fn paren(s: &str) -> String {
    let simple = s.chars().all(|c| c.is_alphanumeric() || c == '_' || c == '.' || c == '\'');
    if simple || (s.starts_with('(') && matching_close(s) == Some(s.len() - 1)) || (s.starts_with('{') && s.ends_with('}')) {
        s.to_string()
    } else {
        format!("({})", s)
    }
}

fn matching_close(s: &str) -> Option<usize> {
    let mut d = 0i32;
    for (i, c) in s.char_indices() {
        if c == '(' {
            d += 1;
        } else if c == ')' {
            d -= 1;
            if d == 0 {
                return Some(i);
            }
        }
    }
    None
}

fn proj(base: &str, i: usize, n: usize) -> String {
    // i-th component of an n-tuple (right-nested pairs)
    if n == 1 {
        return base.to_string();
    }
    let mut s = base.to_string();
    for _ in 0..i {
        s = format!("{}.2", s);
    }
    if i < n - 1 {
        s = format!("{}.1", s);
    }
    s
}

impl<'a> FnCx<'a> {
    pub fn fresh(&mut self) -> String {
        self.tmp += 1;
        format!("t{}", self.tmp)
    }
    pub fn lookup(&self, name: &str) -> Option<Ty> {
        for s in self.scopes.iter().rev() {
            if let Some(t) = s.get(name) {
                return Some(t.clone());
            }
        }
        None
    }
    pub fn bind(&mut self, name: &str, ty: Ty) {
        self.scopes.last_mut().unwrap().insert(name.to_string(), ty);
    }
    fn resolve_struct(&self, name: &str) -> String {
        if name == "Self" {
            return self.owner.clone();
        }
        if let Some(al) = self.t.aliases.get(&self.stem) {
            if let Some(x) = al.get(name) {
                return x.clone();
            }
        }
        name.to_string()
    }
    fn norm_ty(&self, t: Ty) -> Ty {
        match t {
            Ty::Struct(n) if n == "Self" => Ty::Struct(self.owner.clone()),
            Ty::Struct(n) if n == "Self::Output" => self.output_ty.clone().unwrap_or(Ty::Unknown),
            Ty::Struct(n) => Ty::Struct(self.resolve_struct(&n)),
            Ty::Opt(t) => Ty::Opt(Box::new(self.norm_ty(*t))),
            Ty::Res(t) => Ty::Res(Box::new(self.norm_ty(*t))),
            Ty::Tuple(ts) => Ty::Tuple(ts.into_iter().map(|t| self.norm_ty(t)).collect()),
            t => t,
        }
    }
    pub fn ty_of(&self, t: &syn::Type) -> Ty {
        let raw = self.t.rust_ty(t, &self.generics);
        self.norm_ty(raw)
    }
    /// lift an Option-valued op into the ambient monad
    fn lift(&self, e: String) -> String {
        match self.monad {
            Monad::Res => format!("Res.ofOption ({})", e),
            _ => e,
        }
    }
    fn mline(&mut self, lines: &mut Vec<Line>, pat: &str, rhs: String) {
        self.used_monad = true;
        lines.push(Line { text: format!("let {} ← {}", pat, rhs), monadic: true });
    }
    fn pline(&mut self, lines: &mut Vec<Line>, pat: &str, rhs: String) {
        lines.push(Line { text: format!("let {} := {}", pat, rhs), monadic: false });
    }

    // ---------------------------------------------------------------- statements

    fn fn_result(&self, v: Option<&Ex>) -> String {
        match self.recv {
            Recv::RefMut => match v {
                Some(e) if e.ty != Ty::Unit => format!("(self, {})", e.val),
                _ => "self".to_string(),
            },
            _ => match v {
                Some(e) => e.val.clone(),
                None => "()".to_string(),
            },
        }
    }

    fn k_tail(&self, k: &K, v: Option<&Ex>) -> R<Tail> {
        let expr = self.k_result(k, v)?;
        let is_comp = matches!(k, K::FnRet) && self.ret_is_res;
        Ok(Tail { expr, is_comp })
    }

    fn k_result(&self, k: &K, v: Option<&Ex>) -> R<String> {
        match k {
            K::FnRet => Ok(self.fn_result(v)),
            K::Vars { value, vars } => {
                let mut parts = vec![];
                if *value {
                    match v {
                        Some(e) => parts.push(e.val.clone()),
                        None => return Err((0, "branch without a value".into())),
                    }
                }
                for x in vars {
                    parts.push(sanitize(x));
                }
                if parts.is_empty() {
                    Ok("()".into())
                } else if parts.len() == 1 {
                    Ok(parts[0].clone())
                } else {
                    Ok(format!("({})", parts.join(", ")))
                }
            }
        }
    }

    pub fn tr_seq(&mut self, stmts: &[syn::Stmt], k: &K, lines: &mut Vec<Line>) -> R<Tail> {
        self.scopes.push(HashMap::new());
        let r = self.tr_seq_inner(stmts, k, lines);
        self.scopes.pop();
        r
    }

    fn tr_seq_inner(&mut self, stmts: &[syn::Stmt], k: &K, lines: &mut Vec<Line>) -> R<Tail> {
        for (i, st) in stmts.iter().enumerate() {
            let last = i + 1 == stmts.len();
            match st {
                syn::Stmt::Local(l) => {
                    let init = match &l.init {
                        Some(i) => i,
                        None => return err(l, "let without initialiser"),
                    };
                    let (name, decl_ty) = match &l.pat {
                        syn::Pat::Ident(pi) => (pi.ident.to_string(), None),
                        syn::Pat::Type(pt) => match &*pt.pat {
                            syn::Pat::Ident(pi) => (pi.ident.to_string(), Some(self.ty_of(&pt.ty))),
                            _ => return err(l, "unsupported let pattern"),
                        },
                        _ => return err(l, "unsupported let pattern"),
                    };
                    let e = self.tr_expr(&init.expr, lines)?;
                    let ty = if e.ty == Ty::Unknown { decl_ty.unwrap_or(Ty::Unknown) } else { e.ty.clone() };
                    let ln = sanitize(&name);
                    if e.val != ln {
                        self.pline(lines, &ln, e.val);
                    }
                    self.bind(&name, ty);
                }
                syn::Stmt::Expr(e, semi) => {
                    let is_tail_value = last && semi.is_none();
                    // return
                    if let syn::Expr::Return(r) = e {
                        let v = match &r.expr {
                            Some(x) => Some(self.tr_expr(x, lines)?),
                            None => None,
                        };
                        return Ok(Tail { expr: self.fn_result(v.as_ref()), is_comp: self.ret_is_res });
                    }
                    // `if` statement containing a `return`: no merge, the rest of the
                    // sequence is duplicated into both branches
                    if let syn::Expr::If(ife) = e {
                        if contains_return_expr(e) {
                            return self.tr_if_nomerge(ife, &stmts[i + 1..], k);
                        }
                    }
                    let wants_value = match k {
                        K::FnRet => !self.ret_unit,
                        K::Vars { value, .. } => *value,
                    };
                    let stmt_like = matches!(e, syn::Expr::ForLoop(_) | syn::Expr::Assign(_)) || matches!(e, syn::Expr::Binary(b) if is_compound(&b.op));
                    if is_tail_value && wants_value && !stmt_like {
                        let v = self.tr_expr(e, lines)?;
                        return self.k_tail(k, Some(&v)).map_err(|(_, m)| (e.span().start().line, m));
                    }
                    self.tr_stmt_expr(e, lines)?;
                }
                syn::Stmt::Item(it) => return err(it, "nested item"),
                syn::Stmt::Macro(m) => {
                    if last {
                        let v = self.tr_macro(&m.mac, lines)?;
                        return self.k_tail(k, Some(&v)).map_err(|(_, mm)| (m.span().start().line, mm));
                    }
                    return err(m, "macro statement");
                }
            }
        }
        let res = match k {
            K::Vars { value: true, .. } => return Err((0, "block has no value".into())),
            _ => self.k_tail(k, None)?,
        };
        Ok(res)
    }

    fn tr_if_nomerge(&mut self, ife: &syn::ExprIf, rest: &[syn::Stmt], k: &K) -> R<Tail> {
        let mut pre = vec![];
        let c = self.tr_cond(&ife.cond, &mut pre)?;
        if !pre.is_empty() {
            return err(&ife.cond, "fallible condition in early-return if");
        }
        // then branch + rest
        let mut then_stmts: Vec<syn::Stmt> = ife.then_branch.stmts.clone();
        then_stmts.extend_from_slice(rest);
        let mut l1 = vec![];
        let t1 = self.tr_seq(&then_stmts, k, &mut l1)?;
        let mut else_stmts: Vec<syn::Stmt> = vec![];
        if let Some((_, eb)) = &ife.else_branch {
            match &**eb {
                syn::Expr::Block(b) => else_stmts.extend(b.block.stmts.clone()),
                other => else_stmts.push(syn::Stmt::Expr(other.clone(), Some(Default::default()))),
            }
        }
        else_stmts.extend_from_slice(rest);
        let mut l2 = vec![];
        let t2 = self.tr_seq(&else_stmts, k, &mut l2)?;
        let m = has_monadic(&l1, &t1) || has_monadic(&l2, &t2);
        let b1 = render(&l1, &t1, m);
        let b2 = render(&l2, &t2, m);
        Ok(Tail { expr: format!("if {} then {}\nelse {}", c, b1, b2), is_comp: m })
    }

    fn tr_cond(&mut self, c: &syn::Expr, lines: &mut Vec<Line>) -> R<String> {
        let e = self.tr_expr(c, lines)?;
        if e.ty != Ty::Bool {
            return err(c, format!("condition is not bool: {:?}", e.ty));
        }
        Ok(e.val)
    }

    /// expression used as a statement (value discarded)
    fn tr_stmt_expr(&mut self, e: &syn::Expr, lines: &mut Vec<Line>) -> R<()> {
        match e {
            syn::Expr::Assign(a) => {
                let rhs = self.tr_expr(&a.right, lines)?;
                self.assign(&a.left, rhs, lines)
            }
            syn::Expr::Binary(b) if is_compound(&b.op) => {
                let cur = self.tr_expr(&b.left, lines)?;
                let rhs = self.tr_expr(&b.right, lines)?;
                let op = compound_base(&b.op);
                let v = self.arith(op, cur, rhs, b.span().start().line, lines)?;
                self.assign(&b.left, v, lines)
            }
            syn::Expr::If(_) | syn::Expr::Match(_) | syn::Expr::Block(_) => {
                self.tr_branching(e, false, lines)?;
                Ok(())
            }
            syn::Expr::ForLoop(f) => self.tr_for(f, lines),
            syn::Expr::MethodCall(mc) if mc.method == "fill" && mc.args.len() == 1 => {
                let (root, path) = self.field_path(&mc.receiver)?;
                let base = self.tr_expr(&mc.receiver, lines)?;
                if base.ty != Ty::Arr {
                    return err(mc, "fill on a non-array");
                }
                let c = self.tr_expr(&mc.args[0], lines)?;
                if c.ty != Ty::F64 {
                    return err(mc, "fill with a non-f64");
                }
                let t = self.fresh();
                let call = self.lift(format!("Rs.fill {} 0 {}.size {}", paren(&base.val), paren(&base.val), paren(&c.val)));
                self.mline(lines, &t, call);
                let upd = self.nested_update(&root, &path, &t);
                self.pline(lines, &root, upd);
                Ok(())
            }
            syn::Expr::MethodCall(_) | syn::Expr::Call(_) => {
                self.tr_expr(e, lines)?;
                Ok(())
            }
            syn::Expr::Paren(p) => self.tr_stmt_expr(&p.expr, lines),
            _ => err(e, "unsupported statement"),
        }
    }

    fn assign(&mut self, place: &syn::Expr, v: Ex, lines: &mut Vec<Line>) -> R<()> {
        match place {
            syn::Expr::Path(p) => {
                let name = p.path.get_ident().map(|i| i.to_string()).ok_or((p.span().start().line, "bad place".to_string()))?;
                if self.lookup(&name).is_none() {
                    return err(p, format!("assignment to unknown variable {}", name));
                }
                self.pline(lines, &sanitize(&name), v.val);
                Ok(())
            }
            syn::Expr::Field(f) => {
                let (root, path) = self.field_path(&syn::Expr::Field(f.clone()))?;
                let upd = self.nested_update(&root, &path, &v.val);
                self.pline(lines, &root, upd);
                Ok(())
            }
            syn::Expr::Index(ix) => {
                let (root, path) = self.field_path(&ix.expr)?;
                let base = self.tr_expr(&ix.expr, lines)?;
                if base.ty != Ty::Arr {
                    return err(ix, "indexed assignment to a non-array");
                }
                let i = self.tr_expr(&ix.index, lines)?;
                if i.ty != Ty::Usize {
                    return err(ix, "index is not usize");
                }
                let t = self.fresh();
                let call = self.lift(format!("Rs.setIndex {} {} {}", paren(&base.val), paren(&i.val), paren(&v.val)));
                self.mline(lines, &t, call);
                let upd = self.nested_update(&root, &path, &t);
                self.pline(lines, &root, upd);
                Ok(())
            }
            syn::Expr::Paren(p) => self.assign(&p.expr, v, lines),
            _ => err(place, "unsupported assignment target"),
        }
    }

    /// `self.a.b` → ("self", ["a","b"])
    fn field_path(&self, e: &syn::Expr) -> R<(String, Vec<String>)> {
        match e {
            syn::Expr::Path(p) => {
                let name = p.path.get_ident().map(|i| i.to_string()).ok_or((p.span().start().line, "bad place".to_string()))?;
                Ok((sanitize(&name), vec![]))
            }
            syn::Expr::Field(f) => {
                let (r, mut p) = self.field_path(&f.base)?;
                match &f.member {
                    syn::Member::Named(n) => p.push(sanitize(&n.to_string())),
                    _ => return err(f, "tuple field place"),
                }
                Ok((r, p))
            }
            syn::Expr::Paren(p) => self.field_path(&p.expr),
            _ => err(e, "unsupported place expression"),
        }
    }

    fn nested_update(&self, root: &str, path: &[String], v: &str) -> String {
        if path.is_empty() {
            return v.to_string();
        }
        let inner_root = format!("{}.{}", root, path[0]);
        let inner = self.nested_update(&inner_root, &path[1..], v);
        format!("{{ {} with {} := {} }}", root, path[0], inner)
    }

    // ---------------------------------------------------------------- branching

    fn outer_assigned(&self, e: &syn::Expr) -> Vec<String> {
        let mut v = vec![];
        // methods known (from already translated signatures) never to take `&mut self`
        let mut known_pure: Vec<String> = vec![];
        let mut known_mut: Vec<String> = vec![];
        for sig in self.t.sigs.values() {
            if sig.recv == Recv::RefMut {
                known_mut.push(sig.rust_name.clone());
            } else {
                known_pure.push(sig.rust_name.clone());
            }
        }
        known_pure.retain(|n| !known_mut.contains(n));
        assigned_in_expr_with(e, &mut v, &known_pure);
        v.retain(|x| self.lookup(x).is_some());
        let mut out: Vec<String> = vec![];
        for x in v {
            if !out.contains(&x) {
                out.push(x);
            }
        }
        out
    }

    /// if / match / block as expression (want_value) or statement
    fn tr_branching(&mut self, e: &syn::Expr, want_value: bool, lines: &mut Vec<Line>) -> R<Ex> {
        let vars = self.outer_assigned(e);
        let k = K::Vars { value: want_value, vars: vars.clone() };
        let mut val_ty = Ty::Unit;
        // (header, branch blocks)
        let mut arms: Vec<(String, Vec<Line>, Tail)> = vec![];
        let shape: String;
        match e {
            syn::Expr::Block(b) => {
                let mut l = vec![];
                let t = self.tr_block_k(&b.block, &k, &mut l, want_value, &mut val_ty)?;
                arms.push((String::new(), l, t));
                shape = "block".into();
            }
            syn::Expr::If(ife) => {
                // if let → match
                if let syn::Expr::Let(le) = &*ife.cond {
                    let scrut = self.tr_expr(&le.expr, lines)?;
                    let mut binds = vec![];
                    let pat = self.tr_pat(&le.pat, &scrut.ty, &mut binds)?;
                    self.scopes.push(HashMap::new());
                    for (n, t) in &binds {
                        self.bind(n, t.clone());
                    }
                    let mut l = vec![];
                    let t = self.tr_block_k(&ife.then_branch, &k, &mut l, want_value, &mut val_ty);
                    self.scopes.pop();
                    let t = t?;
                    arms.push((format!("| {} =>", pat), l, t));
                    let mut l2 = vec![];
                    let t2 = match &ife.else_branch {
                        Some((_, eb)) => self.tr_else(eb, &k, &mut l2, want_value, &mut val_ty)?,
                        None => {
                            if want_value {
                                return err(ife, "if-let without else used as value");
                            }
                            Tail { expr: self.k_result(&k, None)?, is_comp: false }
                        }
                    };
                    arms.push(("| _ =>".into(), l2, t2));
                    shape = format!("match {} with", scrut.val);
                } else {
                    let c = self.tr_cond(&ife.cond, lines)?;
                    let mut l = vec![];
                    let t = self.tr_block_k(&ife.then_branch, &k, &mut l, want_value, &mut val_ty)?;
                    arms.push((format!("if {} then", c), l, t));
                    let mut l2 = vec![];
                    let t2 = match &ife.else_branch {
                        Some((_, eb)) => self.tr_else(eb, &k, &mut l2, want_value, &mut val_ty)?,
                        None => {
                            if want_value {
                                return err(ife, "if without else used as value");
                            }
                            Tail { expr: self.k_result(&k, None)?, is_comp: false }
                        }
                    };
                    arms.push(("else".into(), l2, t2));
                    shape = "if".into();
                }
            }
            syn::Expr::Match(m) => {
                let scrut = self.tr_expr(&m.expr, lines)?;
                for arm in &m.arms {
                    if arm.guard.is_some() {
                        return err(arm, "match guard");
                    }
                    let mut binds = vec![];
                    let pat = self.tr_pat(&arm.pat, &scrut.ty, &mut binds)?;
                    self.scopes.push(HashMap::new());
                    for (n, t) in &binds {
                        self.bind(n, t.clone());
                    }
                    let mut l = vec![];
                    let body_block: syn::Block = match &*arm.body {
                        syn::Expr::Block(b) => b.block.clone(),
                        other => syn::Block { brace_token: Default::default(), stmts: vec![syn::Stmt::Expr(other.clone(), None)] },
                    };
                    let t = self.tr_block_k(&body_block, &k, &mut l, want_value, &mut val_ty);
                    self.scopes.pop();
                    arms.push((format!("| {} =>", pat), l, t?));
                }
                shape = format!("match {} with", scrut.val);
            }
            _ => return err(e, "not a branching expression"),
        }
        let m = arms.iter().any(|(_, l, t)| has_monadic(l, t));
        let mut text = String::new();
        if shape == "block" {
            text = render(&arms[0].1, &arms[0].2, m);
        } else if shape == "if" {
            let b1 = render(&arms[0].1, &arms[0].2, m);
            let b2 = render(&arms[1].1, &arms[1].2, m);
            let multi = b1.contains('\n') || b2.contains('\n');
            if multi {
                text.push_str(&format!("({}\n{}\n  else\n{})", arms[0].0, indent(&b1, 4), indent(&b2, 4)));
            } else {
                text.push_str(&format!("({} {} else {})", arms[0].0, b1, b2));
            }
        } else {
            text.push_str(&format!("({}\n", shape));
            for (h, l, t) in &arms {
                let b = render(l, t, m);
                text.push_str(&format!("  {}\n{}\n", h, indent(&b, 4)));
            }
            text = text.trim_end().to_string();
            text.push(')');
        }
        // bind result
        let n = vars.len() + if want_value { 1 } else { 0 };
        if n == 0 {
            if m {
                let t = self.fresh();
                self.mline(lines, &format!("{} : Unit", t), text);
            }
            return Ok(Ex { val: "()".into(), ty: Ty::Unit });
        }
        if n == 1 && !want_value {
            let v = sanitize(&vars[0]);
            if m {
                self.mline(lines, &v, text);
            } else {
                self.pline(lines, &v, text);
            }
            return Ok(Ex { val: "()".into(), ty: Ty::Unit });
        }
        if n == 1 && want_value && !m && !text.contains('\n') {
            return Ok(Ex { val: text, ty: val_ty });
        }
        let t = self.fresh();
        if m {
            self.mline(lines, &t, text);
        } else {
            self.pline(lines, &t, text);
        }
        let off = if want_value { 1 } else { 0 };
        for (i, v) in vars.iter().enumerate() {
            let p = proj(&t, i + off, n);
            self.pline(lines, &sanitize(v), p);
        }
        if want_value {
            Ok(Ex { val: proj(&t, 0, n), ty: val_ty })
        } else {
            Ok(Ex { val: "()".into(), ty: Ty::Unit })
        }
    }

    fn tr_else(&mut self, eb: &syn::Expr, k: &K, l: &mut Vec<Line>, want_value: bool, val_ty: &mut Ty) -> R<Tail> {
        match eb {
            syn::Expr::Block(b) => self.tr_block_k(&b.block, k, l, want_value, val_ty),
            other => {
                // else if …
                let blk = syn::Block {
                    brace_token: Default::default(),
                    stmts: vec![syn::Stmt::Expr(other.clone(), if want_value { None } else { Some(Default::default()) })],
                };
                self.tr_block_k(&blk, k, l, want_value, val_ty)
            }
        }
    }

    fn tr_block_k(&mut self, b: &syn::Block, k: &K, l: &mut Vec<Line>, want_value: bool, val_ty: &mut Ty) -> R<Tail> {
        if want_value {
            // determine the value type by translating the tail separately
            self.scopes.push(HashMap::new());
            let r = (|| -> R<Tail> {
                let n = b.stmts.len();
                if n == 0 {
                    return err(b, "empty block used as value");
                }
                for (i, st) in b.stmts.iter().enumerate() {
                    if i + 1 < n {
                        let _ = self.tr_seq_inner_one(st, l)?;
                    }
                }
                match &b.stmts[n - 1] {
                    syn::Stmt::Expr(e, None) => {
                        let v = self.tr_expr(e, l)?;
                        if *val_ty == Ty::Unit || *val_ty == Ty::Unknown {
                            *val_ty = v.ty.clone();
                        }
                        let res = self.k_result(k, Some(&v)).map_err(|(_, m)| (e.span().start().line, m))?;
                        Ok(Tail { expr: res, is_comp: false })
                    }
                    syn::Stmt::Macro(m) => {
                        let v = self.tr_macro(&m.mac, l)?;
                        *val_ty = v.ty.clone();
                        let res = self.k_result(k, Some(&v)).map_err(|(_, mm)| (m.span().start().line, mm))?;
                        Ok(Tail { expr: res, is_comp: false })
                    }
                    other => err(other, "block used as value does not end in an expression"),
                }
            })();
            self.scopes.pop();
            r
        } else {
            self.tr_seq(&b.stmts, k, l)
        }
    }

    fn tr_seq_inner_one(&mut self, st: &syn::Stmt, lines: &mut Vec<Line>) -> R<()> {
        let k = K::Vars { value: false, vars: vec![] };
        let one = [st.clone()];
        // reuse tr_seq_inner without opening a scope: statements only
        match st {
            syn::Stmt::Expr(e, _) if matches!(e, syn::Expr::Return(_)) || contains_return_expr(e) => err(e, "return inside a value block"),
            _ => {
                let _ = self.tr_seq_inner(&one_with_semi(&one), &k, lines)?;
                Ok(())
            }
        }
    }

    fn tr_pat(&mut self, p: &syn::Pat, ty: &Ty, binds: &mut Vec<(String, Ty)>) -> R<String> {
        match p {
            syn::Pat::Wild(_) => Ok("_".into()),
            syn::Pat::Lit(l) => Ok(quote::ToTokens::to_token_stream(l).to_string()),
            syn::Pat::Ident(i) => {
                let n = i.ident.to_string();
                if n == "None" {
                    return Ok("none".into());
                }
                binds.push((n.clone(), ty.clone()));
                Ok(sanitize(&n))
            }
            syn::Pat::Path(pp) => {
                let s = pp.path.segments.last().unwrap().ident.to_string();
                if s == "None" {
                    Ok("none".into())
                } else {
                    err(p, "unsupported path pattern")
                }
            }
            syn::Pat::TupleStruct(ts) => {
                let s = ts.path.segments.last().unwrap().ident.to_string();
                if s == "Some" && ts.elems.len() == 1 {
                    let inner_ty = match ty {
                        Ty::Opt(t) => (**t).clone(),
                        _ => Ty::Unknown,
                    };
                    let inner = self.tr_pat(&ts.elems[0], &inner_ty, binds)?;
                    Ok(format!("some {}", inner))
                } else {
                    err(p, "unsupported tuple-struct pattern")
                }
            }
            syn::Pat::Tuple(t) => {
                let tys: Vec<Ty> = match ty {
                    Ty::Tuple(ts) => ts.clone(),
                    _ => vec![Ty::Unknown; t.elems.len()],
                };
                let mut parts = vec![];
                for (i, e) in t.elems.iter().enumerate() {
                    parts.push(self.tr_pat(e, tys.get(i).unwrap_or(&Ty::Unknown), binds)?);
                }
                Ok(format!("({})", parts.join(", ")))
            }
            syn::Pat::Reference(r) => self.tr_pat(&r.pat, ty, binds),
            _ => err(p, "unsupported pattern"),
        }
    }

    // ---------------------------------------------------------------- loops

    fn tr_for(&mut self, f: &syn::ExprForLoop, lines: &mut Vec<Line>) -> R<()> {
        // shape (a): for i in a..b { self.f[i] = c; }
        if let syn::Expr::Range(r) = &*f.expr {
            if let (Some(a), Some(b), syn::RangeLimits::HalfOpen(_)) = (&r.start, &r.end, &r.limits) {
                if let syn::Pat::Ident(pi) = &*f.pat {
                    let iv = pi.ident.to_string();
                    if f.body.stmts.len() == 1 {
                        if let syn::Stmt::Expr(syn::Expr::Assign(asg), _) = &f.body.stmts[0] {
                            if let syn::Expr::Index(ix) = &*asg.left {
                                let idx_is_i = matches!(&*ix.index, syn::Expr::Path(p) if p.path.is_ident(&iv));
                                let mut mentions = false;
                                crate::tr::scan_tokens(quote::ToTokens::to_token_stream(&asg.right), &mut |id, _| {
                                    if id == iv || id == "self" {
                                        mentions = true;
                                    }
                                });
                                if idx_is_i && !mentions {
                                    let ea = self.tr_expr(a, lines)?;
                                    let eb = self.tr_expr(b, lines)?;
                                    let (root, path) = self.field_path(&ix.expr)?;
                                    let base = self.tr_expr(&ix.expr, lines)?;
                                    if base.ty != Ty::Arr || ea.ty != Ty::Usize || eb.ty != Ty::Usize {
                                        return err(f, "fill loop over a non-array");
                                    }
                                    let c = self.tr_expr(&asg.right, lines)?;
                                    let t = self.fresh();
                                    let call = self.lift(format!("Rs.fill {} {} {} {}", paren(&base.val), paren(&ea.val), paren(&eb.val), paren(&c.val)));
                                    self.mline(lines, &t, call);
                                    let upd = self.nested_update(&root, &path, &t);
                                    self.pline(lines, &root, upd);
                                    return Ok(());
                                }
                            }
                        }
                    }
                }
            }
            return err(f, "unsupported range loop (only `for i in a..b { arr[i] = const; }`)");
        }
        // element source
        let (list, elem_binds): (String, Vec<(String, String, Ty)>) = match &*f.expr {
            // for v in &slice
            syn::Expr::Reference(_) | syn::Expr::Index(_) => {
                let e = self.tr_expr(&f.expr, lines)?;
                if e.ty != Ty::Slice {
                    return err(f, "for over a non-slice");
                }
                let name = match &*f.pat {
                    syn::Pat::Ident(pi) => pi.ident.to_string(),
                    syn::Pat::Reference(r) => match &*r.pat {
                        syn::Pat::Ident(pi) => pi.ident.to_string(),
                        _ => return err(f, "loop pattern"),
                    },
                    _ => return err(f, "loop pattern"),
                };
                (e.val, vec![(name, "x".into(), Ty::F64)])
            }
            syn::Expr::MethodCall(mc) if mc.method == "enumerate" => {
                let inner = match &*mc.receiver {
                    syn::Expr::MethodCall(i2) if i2.method == "iter" => &i2.receiver,
                    _ => return err(f, "enumerate() on something other than .iter()"),
                };
                let base = self.tr_expr(inner, lines)?;
                if base.ty != Ty::Arr {
                    return err(f, "iter().enumerate() over a non-array");
                }
                let (i, v) = match &*f.pat {
                    syn::Pat::Tuple(t) if t.elems.len() == 2 => {
                        let gi = |p: &syn::Pat| -> Option<String> {
                            match p {
                                syn::Pat::Ident(pi) => Some(pi.ident.to_string()),
                                syn::Pat::Reference(r) => match &*r.pat {
                                    syn::Pat::Ident(pi) => Some(pi.ident.to_string()),
                                    _ => None,
                                },
                                _ => None,
                            }
                        };
                        match (gi(&t.elems[0]), gi(&t.elems[1])) {
                            (Some(a), Some(b)) => (a, b),
                            _ => return err(f, "loop pattern"),
                        }
                    }
                    _ => return err(f, "loop pattern"),
                };
                (
                    format!("(Rs.enumerate {})", paren(&base.val)),
                    vec![(i, "x.1".into(), Ty::Usize), (v, "x.2".into(), Ty::F64)],
                )
            }
            _ => return err(f, "unsupported loop source"),
        };
        let body_expr = syn::Expr::Block(syn::ExprBlock { attrs: vec![], label: None, block: f.body.clone() });
        let vars = self.outer_assigned(&body_expr);
        if vars.is_empty() {
            return err(f, "loop without effect");
        }
        if vars.iter().any(|v| v == "self") {
            return err(f, "loop body mutates self (only accumulator locals supported)");
        }
        let n = vars.len();
        self.scopes.push(HashMap::new());
        let mut bl: Vec<Line> = vec![];
        for (i, v) in vars.iter().enumerate() {
            if n > 1 {
                bl.push(Line { text: format!("let {} := {}", sanitize(v), proj("acc", i, n)), monadic: false });
            }
        }
        for (name, src, ty) in &elem_binds {
            bl.push(Line { text: format!("let {} := {}", sanitize(name), src), monadic: false });
            self.bind(name, ty.clone());
        }
        let k = K::Vars { value: false, vars: vars.clone() };
        let tail = self.tr_seq(&f.body.stmts, &k, &mut bl);
        self.scopes.pop();
        let tail = tail?;
        if has_monadic(&bl, &tail) {
            return err(f, "fallible operation inside loop body");
        }
        let body = render(&bl, &tail, false);
        let accname = if n > 1 { "acc".to_string() } else { sanitize(&vars[0]) };
        let init = if n > 1 { format!("({})", vars.iter().map(|v| sanitize(v)).collect::<Vec<_>>().join(", ")) } else { sanitize(&vars[0]) };
        let fold = format!("List.foldl (fun {} x =>\n{}) {} {}", accname, indent(&body, 4), init, paren(&list));
        if n == 1 {
            self.pline(lines, &sanitize(&vars[0]), fold);
        } else {
            let t = self.fresh();
            self.pline(lines, &t, fold);
            for (i, v) in vars.iter().enumerate() {
                let p = proj(&t, i, n);
                self.pline(lines, &sanitize(v), p);
            }
        }
        Ok(())
    }

    // ---------------------------------------------------------------- expressions

    fn arith(&mut self, op: &str, a: Ex, b: Ex, line: usize, lines: &mut Vec<Line>) -> R<Ex> {
        let (ta, tb) = (a.ty.clone(), b.ty.clone());
        if ta == Ty::F64 && tb == Ty::F64 {
            let f = match op {
                "+" => "Scalar.add",
                "-" => "Scalar.sub",
                "*" => "Scalar.mul",
                "/" => "Scalar.div",
                _ => return Err((line, format!("float operator {}", op))),
            };
            return Ok(Ex { val: format!("{} {} {}", f, paren(&a.val), paren(&b.val)), ty: Ty::F64 });
        }
        if ta == Ty::Usize && tb == Ty::Usize {
            let f = match op {
                "+" => "Rs.uadd",
                "-" => "Rs.usub",
                "*" => "Rs.umul",
                "/" => "Rs.udiv",
                "%" => "Rs.umod",
                _ => return Err((line, format!("usize operator {}", op))),
            };
            let t = self.fresh();
            let call = self.lift(format!("{} {} {}", f, paren(&a.val), paren(&b.val)));
            self.mline(lines, &t, call);
            return Ok(Ex { val: t, ty: Ty::Usize });
        }
        Err((line, format!("operator {} on {:?} and {:?}", op, ta, tb)))
    }

    pub fn tr_expr(&mut self, e: &syn::Expr, lines: &mut Vec<Line>) -> R<Ex> {
        match e {
            syn::Expr::Lit(l) => match &l.lit {
                syn::Lit::Float(f) => {
                    let (m, ex) = parse_decimal(f.base10_digits()).ok_or((l.span().start().line, "float literal".to_string()))?;
                    Ok(Ex { val: format!("(Scalar.lit {} {} : F)", m, ex), ty: Ty::F64 })
                }
                syn::Lit::Int(i) => {
                    if i.suffix() == "f64" {
                        Ok(Ex { val: format!("(Scalar.lit {} 0 : F)", i.base10_digits()), ty: Ty::F64 })
                    } else if i.suffix().is_empty() || i.suffix() == "usize" {
                        Ok(Ex { val: i.base10_digits().to_string(), ty: Ty::Usize })
                    } else {
                        err(l, "integer literal suffix")
                    }
                }
                syn::Lit::Bool(b) => Ok(Ex { val: if b.value { "true".into() } else { "false".into() }, ty: Ty::Bool }),
                _ => err(l, "literal"),
            },
            syn::Expr::Paren(p) => self.tr_expr(&p.expr, lines),
            syn::Expr::Group(g) => self.tr_expr(&g.expr, lines),
            syn::Expr::Reference(r) => self.tr_expr(&r.expr, lines),
            syn::Expr::Unary(u) => {
                let x = self.tr_expr(&u.expr, lines)?;
                match u.op {
                    syn::UnOp::Deref(_) => Ok(x),
                    syn::UnOp::Neg(_) if x.ty == Ty::F64 => Ok(Ex { val: format!("Scalar.neg {}", paren(&x.val)), ty: Ty::F64 }),
                    syn::UnOp::Not(_) if x.ty == Ty::Bool => Ok(Ex { val: format!("!{}", paren(&x.val)), ty: Ty::Bool }),
                    _ => err(u, "unary operator"),
                }
            }
            syn::Expr::Path(p) => {
                let segs: Vec<String> = p.path.segments.iter().map(|s| s.ident.to_string()).collect();
                if segs.len() == 1 {
                    let n = &segs[0];
                    if n == "None" {
                        return Ok(Ex { val: "none".into(), ty: Ty::Opt(Box::new(Ty::Unknown)) });
                    }
                    if let Some(t) = self.lookup(n) {
                        return Ok(Ex { val: sanitize(n), ty: t });
                    }
                    return err(p, format!("unknown identifier {}", n));
                }
                if segs.len() == 2 && segs[0] == "f64" {
                    return match segs[1].as_str() {
                        "INFINITY" => Ok(Ex { val: "(Scalar.posInf : F)".into(), ty: Ty::F64 }),
                        "NEG_INFINITY" => Ok(Ex { val: "(Scalar.negInf : F)".into(), ty: Ty::F64 }),
                        "NAN" => Ok(Ex { val: "(Scalar.nan : F)".into(), ty: Ty::F64 }),
                        "EPSILON" => Ok(Ex { val: "(Scalar.lit (5 ^ 52) 52 : F)".into(), ty: Ty::F64 }),
                        "MAX" => Ok(Ex { val: "(Scalar.lit ((2 ^ 53 - 1) * 2 ^ 971) 0 : F)".into(), ty: Ty::F64 }),
                        "MIN" => Ok(Ex { val: "(Scalar.neg (Scalar.lit ((2 ^ 53 - 1) * 2 ^ 971) 0) : F)".into(), ty: Ty::F64 }),
                        "MIN_POSITIVE" => Ok(Ex { val: "(Scalar.lit (5 ^ 1022) 1022 : F)".into(), ty: Ty::F64 }),
                        _ => err(p, "f64 constant"),
                    };
                }
                if segs.len() == 2 && segs[0] == "usize" && segs[1] == "MAX" {
                    return Ok(Ex { val: "Rs.usizeMax".into(), ty: Ty::Usize });
                }
                if segs.len() == 2 && segs[0] == "TaError" {
                    return Ok(Ex { val: format!("TaError.{}", segs[1]), ty: Ty::Err });
                }
                err(p, "unsupported path")
            }
            syn::Expr::Field(f) => {
                let b = self.tr_expr(&f.base, lines)?;
                let name = match &f.member {
                    syn::Member::Named(n) => n.to_string(),
                    _ => return err(f, "tuple field"),
                };
                match &b.ty {
                    Ty::Struct(s) => {
                        let si = self.t.structs.get(s).ok_or((f.span().start().line, format!("unknown struct {}", s)))?;
                        let fld = si.fields.iter().find(|x| x.name == name).ok_or((f.span().start().line, format!("no field {}.{}", s, name)))?;
                        let ty = self.norm_ty(fld.ty.clone());
                        Ok(Ex { val: format!("{}.{}", paren(&b.val), fld.lean), ty })
                    }
                    _ => err(f, format!("field access on {:?}", b.ty)),
                }
            }
            syn::Expr::Index(ix) => {
                let b = self.tr_expr(&ix.expr, lines)?;
                if b.ty != Ty::Arr {
                    return err(ix, "indexing a non-array");
                }
                if let syn::Expr::Range(r) = &*ix.index {
                    if !matches!(r.limits, syn::RangeLimits::HalfOpen(_)) {
                        return err(r, "inclusive range");
                    }
                    let a = match &r.start {
                        Some(s) => self.tr_expr(s, lines)?,
                        None => Ex { val: "0".into(), ty: Ty::Usize },
                    };
                    let bb = match &r.end {
                        Some(s) => self.tr_expr(s, lines)?,
                        None => Ex { val: format!("{}.size", paren(&b.val)), ty: Ty::Usize },
                    };
                    if a.ty != Ty::Usize || bb.ty != Ty::Usize {
                        return err(r, "range bounds");
                    }
                    let t = self.fresh();
                    let call = self.lift(format!("Rs.slice {} {} {}", paren(&b.val), paren(&a.val), paren(&bb.val)));
                    self.mline(lines, &t, call);
                    return Ok(Ex { val: t, ty: Ty::Slice });
                }
                let i = self.tr_expr(&ix.index, lines)?;
                if i.ty != Ty::Usize {
                    return err(ix, "index is not usize");
                }
                let t = self.fresh();
                let call = self.lift(format!("Rs.index {} {}", paren(&b.val), paren(&i.val)));
                self.mline(lines, &t, call);
                Ok(Ex { val: t, ty: Ty::F64 })
            }
            syn::Expr::Cast(c) => {
                let x = self.tr_expr(&c.expr, lines)?;
                let target = self.ty_of(&c.ty);
                match (&x.ty, &target) {
                    (Ty::Usize, Ty::F64) => Ok(Ex { val: format!("(Scalar.ofNat {} : F)", paren(&x.val)), ty: Ty::F64 }),
                    (Ty::F64, Ty::F64) | (Ty::Usize, Ty::Usize) => Ok(x),
                    _ => err(c, "unsupported cast"),
                }
            }
            syn::Expr::Binary(b) => {
                if is_compound(&b.op) {
                    return err(b, "compound assignment used as a value");
                }
                let x = self.tr_expr(&b.left, lines)?;
                let mut rl = vec![];
                let y = self.tr_expr(&b.right, &mut rl)?;
                let line = b.span().start().line;
                use syn::BinOp::*;
                match b.op {
                    And(_) | Or(_) => {
                        if !rl.is_empty() {
                            return err(b, "side effects on the right of a short-circuit operator");
                        }
                        if x.ty != Ty::Bool || y.ty != Ty::Bool {
                            return err(b, "boolean operator on non-bool");
                        }
                        let op = if matches!(b.op, And(_)) { "&&" } else { "||" };
                        Ok(Ex { val: format!("({} {} {})", paren(&x.val), op, paren(&y.val)), ty: Ty::Bool })
                    }
                    Add(_) | Sub(_) | Mul(_) | Div(_) | Rem(_) => {
                        lines.extend(rl);
                        let op = match b.op {
                            Add(_) => "+",
                            Sub(_) => "-",
                            Mul(_) => "*",
                            Rem(_) => "%",
                            _ => "/",
                        };
                        self.arith(op, x, y, line, lines)
                    }
                    Lt(_) | Le(_) | Gt(_) | Ge(_) | Eq(_) | Ne(_) => {
                        lines.extend(rl);
                        let (a, c) = (paren(&x.val), paren(&y.val));
                        if x.ty == Ty::F64 && y.ty == Ty::F64 {
                            let v = match b.op {
                                Lt(_) => format!("Scalar.lt {} {}", a, c),
                                Le(_) => format!("Scalar.le {} {}", a, c),
                                Gt(_) => format!("Scalar.lt {} {}", c, a),
                                Ge(_) => format!("Scalar.le {} {}", c, a),
                                Eq(_) => format!("Scalar.beq {} {}", a, c),
                                _ => format!("!(Scalar.beq {} {})", a, c),
                            };
                            Ok(Ex { val: v, ty: Ty::Bool })
                        } else if x.ty == Ty::Usize && y.ty == Ty::Usize {
                            let v = match b.op {
                                Lt(_) => format!("decide ({} < {})", a, c),
                                Le(_) => format!("decide ({} ≤ {})", a, c),
                                Gt(_) => format!("decide ({} < {})", c, a),
                                Ge(_) => format!("decide ({} ≤ {})", c, a),
                                Eq(_) => format!("decide ({} = {})", a, c),
                                _ => format!("decide ({} ≠ {})", a, c),
                            };
                            Ok(Ex { val: v, ty: Ty::Bool })
                        } else {
                            err(b, format!("comparison of {:?} and {:?}", x.ty, y.ty))
                        }
                    }
                    _ => err(b, "binary operator"),
                }
            }
            syn::Expr::If(_) | syn::Expr::Match(_) | syn::Expr::Block(_) => {
                if contains_return_expr(e) {
                    return err(e, "return inside a value expression");
                }
                self.tr_branching(e, true, lines)
            }
            syn::Expr::Tuple(t) => {
                let mut vs = vec![];
                let mut tys = vec![];
                for x in &t.elems {
                    let v = self.tr_expr(x, lines)?;
                    vs.push(v.val);
                    tys.push(v.ty);
                }
                Ok(Ex { val: format!("({})", vs.join(", ")), ty: Ty::Tuple(tys) })
            }
            syn::Expr::Struct(s) => {
                let last = s.path.segments.last().unwrap().ident.to_string();
                let sname = if s.path.segments.len() == 2 && s.path.segments[0].ident == "Self" && last == "Output" {
                    match &self.output_ty {
                        Some(Ty::Struct(n)) => n.clone(),
                        _ => return err(s, "Self::Output is not a struct"),
                    }
                } else {
                    self.resolve_struct(&last)
                };
                let si = self.t.structs.get(&sname).ok_or((s.span().start().line, format!("unknown struct {}", sname)))?.clone();
                if s.rest.is_some() {
                    return err(s, "struct update syntax");
                }
                let mut parts = vec![];
                for fv in &s.fields {
                    let fname = match &fv.member {
                        syn::Member::Named(n) => n.to_string(),
                        _ => return err(fv, "tuple member"),
                    };
                    let fld = si.fields.iter().find(|x| x.name == fname).ok_or((fv.span().start().line, format!("no field {}", fname)))?;
                    let v = self.tr_expr(&fv.expr, lines)?;
                    parts.push(format!("{} := {}", fld.lean, v.val));
                }
                if parts.len() != si.fields.len() {
                    return err(s, "struct literal does not set every field");
                }
                Ok(Ex { val: format!("({{ {} }} : {} F)", parts.join(", "), sname), ty: Ty::Struct(sname) })
            }
            syn::Expr::Try(t) => {
                if self.monad != Monad::Res {
                    return err(t, "`?` outside a Result-returning function");
                }
                let x = self.tr_expr(&t.expr, lines)?;
                match x.ty {
                    Ty::Res(inner) => {
                        let v = self.fresh();
                        self.mline(lines, &v, x.val);
                        Ok(Ex { val: v, ty: *inner })
                    }
                    _ => err(t, "`?` on a non-Result"),
                }
            }
            syn::Expr::Call(c) => self.tr_call(c, lines),
            syn::Expr::MethodCall(m) => self.tr_method(m, lines),
            syn::Expr::Macro(m) => self.tr_macro(&m.mac, lines),
            syn::Expr::Assign(_) => err(e, "assignment used as a value"),
            _ => err(e, "unsupported expression"),
        }
    }

    fn tr_call(&mut self, c: &syn::ExprCall, lines: &mut Vec<Line>) -> R<Ex> {
        let path = match &*c.func {
            syn::Expr::Path(p) => p.path.segments.iter().map(|s| s.ident.to_string()).collect::<Vec<_>>(),
            _ => return err(c, "call of a non-path"),
        };
        let mut args = vec![];
        for a in &c.args {
            args.push(self.tr_expr(a, lines)?);
        }
        if path.len() == 1 {
            match path[0].as_str() {
                "Ok" if args.len() == 1 => {
                    return Ok(Ex { val: format!("(Res.ok {})", paren(&args[0].val)), ty: Ty::Res(Box::new(args[0].ty.clone())) });
                }
                "Err" if args.len() == 1 => {
                    return Ok(Ex { val: format!("(Res.err {})", paren(&args[0].val)), ty: Ty::Res(Box::new(Ty::Unknown)) });
                }
                "Some" if args.len() == 1 => {
                    return Ok(Ex { val: format!("(some {})", paren(&args[0].val)), ty: Ty::Opt(Box::new(args[0].ty.clone())) });
                }
                _ => {}
            }
            // free function
            if let Some(sig) = self.t.sigs.get(&("".to_string(), path[0].clone())).cloned() {
                return self.apply(&sig, None, args, c.span().start().line, lines);
            }
            return err(c, format!("unknown function {}", path[0]));
        }
        if path.len() == 2 {
            let owner = self.resolve_struct(&path[0]);
            let lname = lean_fn_name(self.t, &owner, &path[1], None);
            if let Some(sig) = self.t.sigs.get(&(owner.clone(), lname.clone())).cloned() {
                return self.apply(&sig, None, args, c.span().start().line, lines);
            }
            return err(c, format!("unknown associated function {}::{}", owner, path[1]));
        }
        err(c, "unsupported call path")
    }

    /// apply a translated function; `recv` = (root, path, value expr) for methods
    fn apply(&mut self, sig: &FnSig, recv: Option<(Option<(String, Vec<String>)>, Ex)>, args: Vec<Ex>, line: usize, lines: &mut Vec<Line>) -> R<Ex> {
        if args.len() != sig.params.len() {
            return Err((line, format!("arity mismatch calling {}", sig.lean_name)));
        }
        for (a, (_, pt)) in args.iter().zip(sig.params.iter()) {
            let ok = a.ty == *pt || a.ty == Ty::Unknown || matches!((&a.ty, pt), (Ty::Opt(_), Ty::Opt(_)));
            if !ok {
                return Err((line, format!("argument type mismatch calling {}.{}: {:?} vs {:?}", sig.owner, sig.lean_name, a.ty, pt)));
            }
        }
        let fname = if sig.owner.is_empty() { sig.lean_name.clone() } else { format!("{}.{}", sig.owner, sig.lean_name) };
        let mut call = fname;
        if sig.lean_name == "display" {
            call.push_str(" fmt");
        }
        if let Some((_, r)) = &recv {
            call.push(' ');
            call.push_str(&paren(&r.val));
        }
        for a in &args {
            call.push(' ');
            call.push_str(&paren(&a.val));
        }
        let ret = sig.ret.clone();
        match sig.recv {
            Recv::RefMut => {
                let (place, _) = recv.ok_or((line, "missing receiver".to_string()))?;
                let (root, path) = place.ok_or((line, "mutating call on a non-place receiver".to_string()))?;
                let t = self.fresh();
                let call = match (sig.monad, self.monad) {
                    (Monad::Opt, Monad::Res) => format!("Res.ofOption ({})", call),
                    _ => call,
                };
                self.mline(lines, &t, call);
                if ret == Ty::Unit {
                    let upd = self.nested_update(&root, &path, &t);
                    self.pline(lines, &root, upd);
                    Ok(Ex { val: "()".into(), ty: Ty::Unit })
                } else {
                    let upd = self.nested_update(&root, &path, &format!("{}.1", t));
                    self.pline(lines, &root, upd);
                    Ok(Ex { val: format!("{}.2", t), ty: ret })
                }
            }
            _ => match sig.monad {
                Monad::Pure => Ok(Ex { val: call, ty: ret }),
                Monad::Opt => {
                    let t = self.fresh();
                    let call = self.lift(call);
                    self.mline(lines, &t, call);
                    Ok(Ex { val: t, ty: ret })
                }
                Monad::Res => Ok(Ex { val: call, ty: Ty::Res(Box::new(ret)) }),
            },
        }
    }

    fn tr_method(&mut self, m: &syn::ExprMethodCall, lines: &mut Vec<Line>) -> R<Ex> {
        let name = m.method.to_string();
        let line = m.span().start().line;
        // vec![..].into_boxed_slice()
        if name == "into_boxed_slice" {
            let r = self.tr_expr(&m.receiver, lines)?;
            if r.ty == Ty::Arr {
                return Ok(r);
            }
            return err(m, "into_boxed_slice on a non-vec");
        }
        let r = self.tr_expr(&m.receiver, lines)?;
        let mut args = vec![];
        for a in &m.args {
            args.push(self.tr_expr(a, lines)?);
        }
        match &r.ty {
            Ty::F64 => {
                let v = paren(&r.val);
                match (name.as_str(), args.len()) {
                    ("abs", 0) => Ok(Ex { val: format!("Scalar.abs {}", v), ty: Ty::F64 }),
                    ("sqrt", 0) => Ok(Ex { val: format!("Scalar.sqrt {}", v), ty: Ty::F64 }),
                    ("max", 1) if args[0].ty == Ty::F64 => Ok(Ex { val: format!("Scalar.max {} {}", v, paren(&args[0].val)), ty: Ty::F64 }),
                    ("is_sign_positive", 0) => Ok(Ex { val: format!("Scalar.isSignPositive {}", v), ty: Ty::Bool }),
                    ("is_sign_negative", 0) => Ok(Ex { val: format!("!(Scalar.isSignPositive {})", v), ty: Ty::Bool }),
                    ("min", 1) if args[0].ty == Ty::F64 => Ok(Ex { val: format!("Scalar.min {} {}", v, paren(&args[0].val)), ty: Ty::F64 }),
                    ("is_nan", 0) => Ok(Ex { val: format!("!(Scalar.beq {} {})", v, v), ty: Ty::Bool }),
                    ("is_finite", 0) => Ok(Ex { val: format!("Scalar.beq (Scalar.sub {} {}) (Scalar.lit 0 0)", v, v), ty: Ty::Bool }),
                    ("clamp", 2) if args[0].ty == Ty::F64 && args[1].ty == Ty::F64 => {
                        let t = self.fresh();
                        let call = self.lift(format!("Rs.fclamp {} {} {}", v, paren(&args[0].val), paren(&args[1].val)));
                        self.mline(lines, &t, call);
                        Ok(Ex { val: t, ty: Ty::F64 })
                    }
                    _ => err(m, format!("unsupported f64 method {}", name)),
                }
            }
            Ty::Usize => {
                let v = paren(&r.val);
                match (name.as_str(), args.len()) {
                    ("min", 1) if args[0].ty == Ty::Usize => Ok(Ex { val: format!("(Nat.min {} {})", v, paren(&args[0].val)), ty: Ty::Usize }),
                    ("max", 1) if args[0].ty == Ty::Usize => Ok(Ex { val: format!("(Nat.max {} {})", v, paren(&args[0].val)), ty: Ty::Usize }),
                    ("saturating_sub", 1) if args[0].ty == Ty::Usize => Ok(Ex { val: format!("({} - {})", v, paren(&args[0].val)), ty: Ty::Usize }),
                    _ => err(m, format!("unsupported usize method {}", name)),
                }
            }
            Ty::Arr => match (name.as_str(), args.len()) {
                ("len", 0) => Ok(Ex { val: format!("{}.size", paren(&r.val)), ty: Ty::Usize }),
                _ => err(m, format!("unsupported method {} on a boxed slice", name)),
            },
            Ty::Bar => match (name.as_str(), args.len()) {
                ("open", 0) => Ok(Ex { val: format!("{}.open_", paren(&r.val)), ty: Ty::F64 }),
                ("high", 0) | ("low", 0) | ("close", 0) | ("volume", 0) => Ok(Ex { val: format!("{}.{}", paren(&r.val), name), ty: Ty::F64 }),
                _ => err(m, format!("unsupported method {} on a bar", name)),
            },
            Ty::Res(inner) => {
                if name == "unwrap" && args.is_empty() {
                    let t = self.fresh();
                    let call = self.lift(format!("Rs.unwrap {}", paren(&r.val)));
                    self.mline(lines, &t, call);
                    return Ok(Ex { val: t, ty: (**inner).clone() });
                }
                err(m, format!("unsupported method {} on Result", name))
            }
            Ty::Struct(s) => {
                let s = s.clone();
                let arg_ty = args.first().map(|a| a.ty.clone());
                let lname = lean_fn_name(self.t, &s, &name, arg_ty.as_ref());
                let sig = match self.t.sigs.get(&(s.clone(), lname.clone())) {
                    Some(x) => x.clone(),
                    None => return err(m, format!("unknown method {}.{} (as {})", s, name, lname)),
                };
                let place = self.field_path(&m.receiver).ok();
                self.apply(&sig, Some((place, r)), args, line, lines)
            }
            _ => err(m, format!("method {} on {:?}", name, r.ty)),
        }
    }

    fn tr_macro(&mut self, mac: &syn::Macro, lines: &mut Vec<Line>) -> R<Ex> {
        let name = mac.path.segments.last().unwrap().ident.to_string();
        if name == "vec" {
            // vec![c; n]
            let parsed: syn::Result<VecRepeat> = mac.parse_body();
            match parsed {
                Ok(v) => {
                    let c = self.tr_expr(&v.elem, lines)?;
                    let n = self.tr_expr(&v.len, lines)?;
                    if c.ty != Ty::F64 || n.ty != Ty::Usize {
                        return err(mac, "vec![c; n] with unexpected types");
                    }
                    let t = self.fresh();
                    let call = self.lift(format!("Rs.vecNew {} {}", paren(&c.val), paren(&n.val)));
                    self.mline(lines, &t, call);
                    Ok(Ex { val: t, ty: Ty::Arr })
                }
                Err(_) => err(mac, "unsupported vec! form"),
            }
        } else if name == "write" {
            if !self.is_display {
                return err(mac, "write! outside Display");
            }
            let parsed: syn::Result<WriteArgs> = mac.parse_body();
            match parsed {
                Ok(w) => {
                    let fmt = w.fmt.value();
                    let pieces: Vec<&str> = fmt.split("{}").collect();
                    if pieces.len() != w.args.len() + 1 || fmt.contains('{') && fmt.replace("{}", "").contains('{') {
                        return err(mac, "unsupported format string");
                    }
                    let mut parts: Vec<String> = vec![];
                    for (i, p) in pieces.iter().enumerate() {
                        if !p.is_empty() {
                            parts.push(format!("{:?}", p));
                        }
                        if i < w.args.len() {
                            let a = self.tr_expr(&w.args[i], lines)?;
                            match a.ty {
                                Ty::Usize => parts.push(format!("toString {}", paren(&a.val))),
                                Ty::F64 => parts.push(format!("fmt {}", paren(&a.val))),
                                _ => return err(mac, "unsupported Display argument"),
                            }
                        }
                    }
                    if parts.is_empty() {
                        parts.push("\"\"".into());
                    }
                    Ok(Ex { val: parts.join(" ++ "), ty: Ty::Str })
                }
                Err(_) => err(mac, "unsupported write! form"),
            }
        } else {
            err(mac, format!("macro {}! is outside the translated subset", name))
        }
    }
}

struct VecRepeat {
    elem: syn::Expr,
    len: syn::Expr,
}
impl syn::parse::Parse for VecRepeat {
    fn parse(input: syn::parse::ParseStream) -> syn::Result<Self> {
        let elem: syn::Expr = input.parse()?;
        let _: syn::Token![;] = input.parse()?;
        let len: syn::Expr = input.parse()?;
        Ok(VecRepeat { elem, len })
    }
}
struct WriteArgs {
    fmt: syn::LitStr,
    args: Vec<syn::Expr>,
}
impl syn::parse::Parse for WriteArgs {
    fn parse(input: syn::parse::ParseStream) -> syn::Result<Self> {
        let _f: syn::Expr = input.parse()?;
        let _: syn::Token![,] = input.parse()?;
        let fmt: syn::LitStr = input.parse()?;
        let mut args = vec![];
        while !input.is_empty() {
            let _: syn::Token![,] = input.parse()?;
            if input.is_empty() {
                break;
            }
            args.push(input.parse()?);
        }
        Ok(WriteArgs { fmt, args })
    }
}

/// Lean name of a method. `next` with a bar argument is `nextBar`; names clashing with a
/// field of the owner (or `period`) get the suffix `_fn`.
pub fn lean_fn_name(t: &Translator, owner: &str, rust: &str, arg: Option<&Ty>) -> String {
    if rust == "next" {
        if let Some(Ty::Bar) = arg {
            return "nextBar".into();
        }
        return "next".into();
    }
    if rust == "fmt" {
        return "display".into();
    }
    if rust == "default" {
        return "default_".into();
    }
    let clash = t.structs.get(owner).map(|s| s.fields.iter().any(|f| f.name == rust)).unwrap_or(false);
    if clash || rust == "period" {
        return format!("{}_fn", rust);
    }
    sanitize(rust)
}

fn one_with_semi(s: &[syn::Stmt]) -> Vec<syn::Stmt> {
    s.iter()
        .map(|st| match st {
            syn::Stmt::Expr(e, None) => syn::Stmt::Expr(e.clone(), Some(Default::default())),
            o => o.clone(),
        })
        .collect()
}

fn is_compound(op: &syn::BinOp) -> bool {
    matches!(op, syn::BinOp::AddAssign(_) | syn::BinOp::SubAssign(_) | syn::BinOp::MulAssign(_) | syn::BinOp::DivAssign(_))
}
fn compound_base(op: &syn::BinOp) -> &'static str {
    match op {
        syn::BinOp::AddAssign(_) => "+",
        syn::BinOp::SubAssign(_) => "-",
        syn::BinOp::MulAssign(_) => "*",
        _ => "/",
    }
}

pub fn parse_decimal(s: &str) -> Option<(String, u32)> {
    // "0.015" → (15, 3); "3.0" → (3, 0); "100" → (100,0); exponents unsupported
    let s = s.replace('_', "");
    if s.contains('e') || s.contains('E') {
        return None;
    }
    let (ip, fp) = match s.split_once('.') {
        Some((a, b)) => (a.to_string(), b.trim_end_matches('0').to_string()),
        None => (s.clone(), String::new()),
    };
    let digits = format!("{}{}", ip, fp);
    let digits = digits.trim_start_matches('0');
    let m = if digits.is_empty() { "0".to_string() } else { digits.to_string() };
    Some((m, fp.len() as u32))
}

pub fn contains_return_expr(e: &syn::Expr) -> bool {
    let mut found = false;
    crate::tr::scan_tokens(quote::ToTokens::to_token_stream(e), &mut |id, _| {
        if id == "return" {
            found = true;
        }
    });
    found
}

/// root variables assigned (or mutated through a `&mut self` call) inside an expression
pub fn assigned_in_expr_with(e: &syn::Expr, out: &mut Vec<String>, pure_methods: &[String]) {
    let mut tmp = vec![];
    assigned_in_expr(e, &mut tmp);
    // `assigned_in_expr` marks receivers of unknown methods as mutated by pushing "<root>\u{1}<method>"
    for x in tmp {
        if let Some((root, m)) = x.split_once('\u{1}') {
            if !pure_methods.iter().any(|p| p == m) {
                out.push(root.to_string());
            }
        } else {
            out.push(x);
        }
    }
}

pub fn assigned_in_expr(e: &syn::Expr, out: &mut Vec<String>) {
    fn root(e: &syn::Expr) -> Option<String> {
        match e {
            syn::Expr::Path(p) => p.path.get_ident().map(|i| i.to_string()),
            syn::Expr::Field(f) => root(&f.base),
            syn::Expr::Index(i) => root(&i.expr),
            syn::Expr::Paren(p) => root(&p.expr),
            syn::Expr::Unary(u) => root(&u.expr),
            _ => None,
        }
    }
    fn block(b: &syn::Block, out: &mut Vec<String>) {
        for st in &b.stmts {
            match st {
                syn::Stmt::Local(l) => {
                    if let Some(i) = &l.init {
                        assigned_in_expr(&i.expr, out);
                    }
                }
                syn::Stmt::Expr(e, _) => assigned_in_expr(e, out),
                _ => {}
            }
        }
    }
    match e {
        syn::Expr::Assign(a) => {
            assigned_in_expr(&a.right, out);
            if let Some(r) = root(&a.left) {
                out.push(r);
            }
        }
        syn::Expr::Binary(b) => {
            assigned_in_expr(&b.left, out);
            assigned_in_expr(&b.right, out);
            if is_compound(&b.op) {
                if let Some(r) = root(&b.left) {
                    out.push(r);
                }
            }
        }
        syn::Expr::If(i) => {
            assigned_in_expr(&i.cond, out);
            block(&i.then_branch, out);
            if let Some((_, eb)) = &i.else_branch {
                assigned_in_expr(eb, out);
            }
        }
        syn::Expr::Match(m) => {
            assigned_in_expr(&m.expr, out);
            for a in &m.arms {
                assigned_in_expr(&a.body, out);
            }
        }
        syn::Expr::Block(b) => block(&b.block, out),
        syn::Expr::ForLoop(f) => block(&f.body, out),
        syn::Expr::MethodCall(m) => {
            assigned_in_expr(&m.receiver, out);
            for a in &m.args {
                assigned_in_expr(a, out);
            }
            // conservatively: methods that may mutate their receiver
            let n = m.method.to_string();
            const PURE: &[&str] = &["period", "multiplier", "mean", "abs", "sqrt", "max", "min", "clamp", "is_nan", "is_finite", "is_sign_positive", "is_sign_negative", "saturating_sub", "len", "open", "high", "low", "close", "volume", "iter", "enumerate", "unwrap", "into_boxed_slice"];
            if n == "fill" {
                if let Some(r) = root(&m.receiver) {
                    out.push(r);
                }
            } else if !PURE.contains(&n.as_str()) {
                if let Some(r) = root(&m.receiver) {
                    out.push(format!("{}\u{1}{}", r, n));
                }
            }
        }
        syn::Expr::Call(c) => {
            for a in &c.args {
                assigned_in_expr(a, out);
            }
        }
        syn::Expr::Paren(p) => assigned_in_expr(&p.expr, out),
        syn::Expr::Unary(u) => assigned_in_expr(&u.expr, out),
        syn::Expr::Cast(c) => assigned_in_expr(&c.expr, out),
        syn::Expr::Reference(r) => assigned_in_expr(&r.expr, out),
        syn::Expr::Index(i) => {
            assigned_in_expr(&i.expr, out);
            assigned_in_expr(&i.index, out);
        }
        syn::Expr::Field(f) => assigned_in_expr(&f.base, out),
        syn::Expr::Let(l) => assigned_in_expr(&l.expr, out),
        syn::Expr::Return(r) => {
            if let Some(x) = &r.expr {
                assigned_in_expr(x, out);
            }
        }
        syn::Expr::Struct(s) => {
            for f in &s.fields {
                assigned_in_expr(&f.expr, out);
            }
        }
        syn::Expr::Tuple(t) => {
            for x in &t.elems {
                assigned_in_expr(x, out);
            }
        }
        syn::Expr::Try(t) => assigned_in_expr(&t.expr, out),
        _ => {}
    }
}
