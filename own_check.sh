#!/bin/bash
# own_check.sh <id>… : for each seeded/<id> run only the check of the property it breaks (quick tier)
cd /verif
for id in "$@"; do
  p=${id%%-*}
  out=$(./mutest.sh seeded/$id/patch.diff $p 2>&1)
  echo "### $id: $(echo "$out" | grep -E '^== |CAUGHT-BY|patch does not' | head -3 | cut -c1-260 | tr '\n' '|')"
  echo "$out" | grep -m3 "failing input\|broken:" | cut -c1-400
done
