#!/usr/bin/env python3
"""seed_mutant.py <prop> <n> [checks…]: confirm /tmp/mut_<prop>/out/mutant<n>.diff in its scratch worktree, store it
under /verif/seeded/<prop>-<n>/, run the registered quick checks against it (mutest.sh) and record the verdicts."""
import json, os, re, shutil, subprocess, sys
args = [a for a in sys.argv[1:] if not a.startswith("--")]
store_only = "--store-only" in sys.argv
prop, n = args[0], args[1]
checks = args[2:]
rnd = int(os.environ.get("MUT_ROUND", "1"))          # round r mutants live in /tmp/mut<r>_<prop>, stored as <prop>-<2(r-1)+n>
wt = f"/tmp/mut_{prop}" if rnd == 1 else f"/tmp/mut{rnd}_{prop}"
patch, demo = f"{wt}/out/mutant{n}.diff", f"{wt}/out/demo{n}.rs"
src_n = n
n = str(2 * (rnd - 1) + int(n))
out = subprocess.run(["/verif/confirm_mutant.sh", wt, patch, demo], stdout=subprocess.PIPE, stderr=subprocess.STDOUT, text=True).stdout
print(out)
ok = ("136 passed; 0 failed" in out) and ("DEMO with change: test result: FAILED" in out or "DEMO with change: error" in out) and re.search(r"DEMO without change: test result: ok", out)
d = f"/verif/seeded/{prop}-{n}"
if not ok:
    print("NOT CONFIRMED"); sys.exit(1)
os.makedirs(d, exist_ok=True)
shutil.copy(patch, f"{d}/patch.diff"); shutil.copy(demo, f"{d}/demo.rs")
readme = open(f"{wt}/out/README.md").read() if os.path.exists(f"{wt}/out/README.md") else ""
if store_only:
    tm = re.findall(r"^#+\s*Mutant\s*%s\s*[-—:–]*\s*(.*)$" % src_n, readme, re.M)
    meta = {"breaks_property": prop, "mutant": int(n), "round": rnd, "title": (tm[0] if tm else ""),
            "what_it_needs_to_manifest": "see README excerpt", "readme_excerpt": readme[:6000],
            "confirmed": {"how": "confirm_mutant.sh in scratch worktree " + wt + ": cargo test --offline --lib with the change; cargo build --features serde; demo test with and without the change", "output": out}}
    json.dump(meta, open(f"{d}/meta.json", "w"), indent=1)
    print("stored", d); sys.exit(0)
m = subprocess.run(["/verif/mutest.sh", f"{d}/patch.diff"] + checks, stdout=subprocess.PIPE, stderr=subprocess.STDOUT, text=True).stdout
print(m)
caught = re.search(r"CAUGHT-BY:(.*)", m).group(1).split() if "CAUGHT-BY:" in m else []
silent = re.search(r"SILENT:(.*)", m).group(1).split() if "SILENT:" in m else []
details = [l for l in m.splitlines() if l.startswith("== ") or "failing input" in l or "broken:" in l]
verdicts = {l.split(":")[0].replace("== ", ""): ("no-failing-input-found" if "no-failing-input-found" in l else "concrete") for l in m.splitlines() if l.startswith("== ")}
meta = {"breaks_property": prop, "mutant": int(n),
        "what_it_needs_to_manifest": "see README excerpt", "readme_excerpt": readme[:6000],
        "confirmed": {"how": "confirm_mutant.sh in scratch worktree " + wt + ": cargo test --offline --lib with the change; cargo build --features serde; demo test with and without the change", "output": out},
        "checks_run": "mutest.sh (quick tier, VERIF_SEED=1) over " + (" ".join(checks) if checks else "all registered checks"),
        "caught_by": caught, "silent": silent, "verdicts": verdicts, "details": details[:120]}
json.dump(meta, open(f"{d}/meta.json", "w"), indent=1)
print("caught by", caught)
