/-
  C04 — reset() returns every indicator to a state indistinguishable from a fresh one.
  L0: state equality, no arithmetic used, hence valid for histories containing NaN/±inf/anything.

  For every indicator `X` (22 of them), for EVERY state `s` with `X.WF s` — `WF` is the structural
  invariant that holds in every state reachable from `new` by any sequence of
  `next`/`next(&bar)`/`reset` calls (C12: `TaRs.Props.C12.x_total`); nothing is assumed about the
  values stored in `s`, nor about the `[Scalar F]` arithmetic —

    * `x_reset_is_new`      `reset` returns normally and yields EXACTLY the state `new` builds for the
                            parameters read off `s` (equality of states, field by field, window
                            contents included): `∃ f, X.new <params of s> = .ok f ∧ s.reset = some f`;
    * `x_reset_then_run`    hence whatever is fed afterwards (scalars `xs`, bars `bs`), the reset
                            indicator and a newly constructed one produce literally the same
                            outputs and end in the same state (`runOut` = feed a list, collect outputs);
    * `x_reset_idempotent`  a second `reset` changes nothing;
    * `x_reset_params`      `reset` keeps `period()` / `multiplier()` / the `Display` string.

  TrueRange and OnBalanceVolume have no parameters, an infallible `new()` and no invariant: their
  statements hold for every state `s`.  CommodityChannelIndex, ChandelierExit, MoneyFlowIndex and
  OnBalanceVolume only implement `Next<&Bar>`, so their `x_reset_then_run` only has the bar clause.
-/
import TaRs.Lemmas.Machine
import TaRs.Lemmas.Core.SimpleMovingAverage
import TaRs.Lemmas.Core.ExponentialMovingAverage
import TaRs.Lemmas.Core.WeightedMovingAverage
import TaRs.Lemmas.Core.StandardDeviation
import TaRs.Lemmas.Core.MeanAbsoluteDeviation
import TaRs.Lemmas.Core.RelativeStrengthIndex
import TaRs.Lemmas.Core.Minimum
import TaRs.Lemmas.Core.Maximum
import TaRs.Lemmas.Core.FastStochastic
import TaRs.Lemmas.Core.SlowStochastic
import TaRs.Lemmas.Core.TrueRange
import TaRs.Lemmas.Core.AverageTrueRange
import TaRs.Lemmas.Core.MovingAverageConvergenceDivergence
import TaRs.Lemmas.Core.PercentagePriceOscillator
import TaRs.Lemmas.Core.CommodityChannelIndex
import TaRs.Lemmas.Core.EfficiencyRatio
import TaRs.Lemmas.Core.BollingerBands
import TaRs.Lemmas.Core.ChandelierExit
import TaRs.Lemmas.Core.KeltnerChannel
import TaRs.Lemmas.Core.RateOfChange
import TaRs.Lemmas.Core.MoneyFlowIndex
import TaRs.Lemmas.Core.OnBalanceVolume
import TaRs.Lemmas.Reset.SlowStochastic
import TaRs.Lemmas.Reset.RateOfChange
import TaRs.Lemmas.Reset.RelativeStrengthIndex
import TaRs.Lemmas.Reset.StandardDeviation
import TaRs.Lemmas.Reset.EfficiencyRatio
import TaRs.Lemmas.Reset.PercentagePriceOscillator
import TaRs.Lemmas.Reset.OnBalanceVolume
import TaRs.Lemmas.Reset.ExponentialMovingAverage
import TaRs.Lemmas.Reset.MovingAverageConvergenceDivergence
import TaRs.Lemmas.Reset.ChandelierExit
import TaRs.Lemmas.Reset.CommodityChannelIndex
import TaRs.Lemmas.Reset.BollingerBands
import TaRs.Lemmas.Reset.AverageTrueRange
import TaRs.Lemmas.Reset.Maximum
import TaRs.Lemmas.Reset.WeightedMovingAverage
import TaRs.Lemmas.Reset.SimpleMovingAverage
import TaRs.Lemmas.Reset.MoneyFlowIndex
import TaRs.Lemmas.Reset.FastStochastic
import TaRs.Lemmas.Reset.KeltnerChannel
import TaRs.Lemmas.Reset.Minimum
import TaRs.Lemmas.Reset.MeanAbsoluteDeviation
import TaRs.Lemmas.Reset.TrueRange

namespace TaRs.Props.C04
open TaRs TaRs.Gen TaRs.Rs

/-! ### Generic part (proved once, for any `next`-like function) -/

/-- If `reset s` returns `f`, then resetting and feeding ANY continuation `xs` is the same
    computation as feeding `xs` to `f`: same outputs, same final state, same panic behaviour.
    With `f` the state `new` builds (`x_reset_is_new`) this reads: after `reset()` an indicator
    cannot be told apart from a newly constructed one by any sequence of calls. -/
theorem outputs_after_reset_eq_fresh {S I O : Type} (next : S → I → Option (S × O))
    (reset : S → Option S) (s f : S) (hr : reset s = some f) (xs : List I) :
    ((reset s).bind fun r => runOut next r xs) = runOut next f xs := by
  rw [hr]; rfl

variable {F : Type} [Scalar F]

/-! ### SimpleMovingAverage -/
section SimpleMovingAverage

private theorem sma_new_fresh (s : SimpleMovingAverage F) (h : SimpleMovingAverage.WF s) :
    (SimpleMovingAverage.new s.period : Res (SimpleMovingAverage F)) =
        .ok (SimpleMovingAverage.fresh s.period) ∧
      SimpleMovingAverage.WF (SimpleMovingAverage.fresh s.period : SimpleMovingAverage F) := by
  exact ⟨by rw [SimpleMovingAverage.new_eq]; simp [Nat.ne_of_gt h.pos, h.small],
    SimpleMovingAverage.fresh_wf _ h.pos h.small⟩

theorem sma_reset_is_new (s : SimpleMovingAverage F) (h : SimpleMovingAverage.WF s) :
    ∃ f, (SimpleMovingAverage.new s.period : Res (SimpleMovingAverage F)) = .ok f ∧
      s.reset = some f :=
  ⟨_, (sma_new_fresh s h).1, SimpleMovingAverage.reset_eq s h⟩

theorem sma_reset_then_run (s : SimpleMovingAverage F) (h : SimpleMovingAverage.WF s) :
    ∃ f, (SimpleMovingAverage.new s.period : Res (SimpleMovingAverage F)) = .ok f ∧
      (∀ xs : List F,
        (s.reset.bind fun r => runOut SimpleMovingAverage.next r xs) =
          runOut SimpleMovingAverage.next f xs) ∧
      (∀ bs : List (Bar F),
        (s.reset.bind fun r => runOut SimpleMovingAverage.nextBar r bs) =
          runOut SimpleMovingAverage.nextBar f bs) := by
  obtain ⟨f, hn, hr⟩ := sma_reset_is_new s h
  exact ⟨f, hn, fun xs => outputs_after_reset_eq_fresh _ _ s f hr xs,
    fun bs => outputs_after_reset_eq_fresh _ _ s f hr bs⟩

theorem sma_reset_idempotent (s : SimpleMovingAverage F) (h : SimpleMovingAverage.WF s) :
    ∃ r, s.reset = some r ∧ r.reset = some r :=
  ⟨_, SimpleMovingAverage.reset_eq s h, SimpleMovingAverage.reset_eq _ (sma_new_fresh s h).2⟩

theorem sma_reset_params (fmt : F → String) (s : SimpleMovingAverage F)
    (h : SimpleMovingAverage.WF s) :
    ∃ r, s.reset = some r ∧ r.period_fn = s.period_fn ∧
      SimpleMovingAverage.display fmt r = SimpleMovingAverage.display fmt s :=
  ⟨_, SimpleMovingAverage.reset_eq s h, rfl, rfl⟩

end SimpleMovingAverage

/-! ### ExponentialMovingAverage -/
section ExponentialMovingAverage

private theorem ema_new_fresh (s : ExponentialMovingAverage F) (h : ExponentialMovingAverage.WF s) :
    (ExponentialMovingAverage.new s.period : Res (ExponentialMovingAverage F)) =
        .ok (ExponentialMovingAverage.fresh s.period) ∧
      ExponentialMovingAverage.WF (ExponentialMovingAverage.fresh s.period : ExponentialMovingAverage F) := by
  exact ⟨by rw [ExponentialMovingAverage.new_eq]; simp [Nat.ne_of_gt h.pos],
    ExponentialMovingAverage.fresh_wf _ h.pos⟩

theorem ema_reset_is_new (s : ExponentialMovingAverage F) (h : ExponentialMovingAverage.WF s) :
    ∃ f, (ExponentialMovingAverage.new s.period : Res (ExponentialMovingAverage F)) = .ok f ∧
      s.reset = some f :=
  ⟨_, (ema_new_fresh s h).1, ExponentialMovingAverage.reset_eq s h⟩

theorem ema_reset_then_run (s : ExponentialMovingAverage F) (h : ExponentialMovingAverage.WF s) :
    ∃ f, (ExponentialMovingAverage.new s.period : Res (ExponentialMovingAverage F)) = .ok f ∧
      (∀ xs : List F,
        (s.reset.bind fun r => runOut ExponentialMovingAverage.next r xs) =
          runOut ExponentialMovingAverage.next f xs) ∧
      (∀ bs : List (Bar F),
        (s.reset.bind fun r => runOut ExponentialMovingAverage.nextBar r bs) =
          runOut ExponentialMovingAverage.nextBar f bs) := by
  obtain ⟨f, hn, hr⟩ := ema_reset_is_new s h
  exact ⟨f, hn, fun xs => outputs_after_reset_eq_fresh _ _ s f hr xs,
    fun bs => outputs_after_reset_eq_fresh _ _ s f hr bs⟩

theorem ema_reset_idempotent (s : ExponentialMovingAverage F) (h : ExponentialMovingAverage.WF s) :
    ∃ r, s.reset = some r ∧ r.reset = some r :=
  ⟨_, ExponentialMovingAverage.reset_eq s h, ExponentialMovingAverage.reset_eq _ (ema_new_fresh s h).2⟩

theorem ema_reset_params (fmt : F → String) (s : ExponentialMovingAverage F)
    (h : ExponentialMovingAverage.WF s) :
    ∃ r, s.reset = some r ∧ r.period_fn = s.period_fn ∧
      ExponentialMovingAverage.display fmt r = ExponentialMovingAverage.display fmt s :=
  ⟨_, ExponentialMovingAverage.reset_eq s h, rfl, rfl⟩

end ExponentialMovingAverage

/-! ### WeightedMovingAverage -/
section WeightedMovingAverage

private theorem wma_new_fresh (s : WeightedMovingAverage F) (h : WeightedMovingAverage.WF s) :
    (WeightedMovingAverage.new s.period : Res (WeightedMovingAverage F)) =
        .ok (WeightedMovingAverage.fresh s.period) ∧
      WeightedMovingAverage.WF (WeightedMovingAverage.fresh s.period : WeightedMovingAverage F) := by
  exact ⟨by rw [WeightedMovingAverage.new_eq]; simp [Nat.ne_of_gt h.pos, h.small],
    WeightedMovingAverage.fresh_wf _ h.pos h.small⟩

theorem wma_reset_is_new (s : WeightedMovingAverage F) (h : WeightedMovingAverage.WF s) :
    ∃ f, (WeightedMovingAverage.new s.period : Res (WeightedMovingAverage F)) = .ok f ∧
      s.reset = some f :=
  ⟨_, (wma_new_fresh s h).1, WeightedMovingAverage.reset_eq s h⟩

theorem wma_reset_then_run (s : WeightedMovingAverage F) (h : WeightedMovingAverage.WF s) :
    ∃ f, (WeightedMovingAverage.new s.period : Res (WeightedMovingAverage F)) = .ok f ∧
      (∀ xs : List F,
        (s.reset.bind fun r => runOut WeightedMovingAverage.next r xs) =
          runOut WeightedMovingAverage.next f xs) ∧
      (∀ bs : List (Bar F),
        (s.reset.bind fun r => runOut WeightedMovingAverage.nextBar r bs) =
          runOut WeightedMovingAverage.nextBar f bs) := by
  obtain ⟨f, hn, hr⟩ := wma_reset_is_new s h
  exact ⟨f, hn, fun xs => outputs_after_reset_eq_fresh _ _ s f hr xs,
    fun bs => outputs_after_reset_eq_fresh _ _ s f hr bs⟩

theorem wma_reset_idempotent (s : WeightedMovingAverage F) (h : WeightedMovingAverage.WF s) :
    ∃ r, s.reset = some r ∧ r.reset = some r :=
  ⟨_, WeightedMovingAverage.reset_eq s h, WeightedMovingAverage.reset_eq _ (wma_new_fresh s h).2⟩

theorem wma_reset_params (fmt : F → String) (s : WeightedMovingAverage F)
    (h : WeightedMovingAverage.WF s) :
    ∃ r, s.reset = some r ∧ r.period_fn = s.period_fn ∧
      WeightedMovingAverage.display fmt r = WeightedMovingAverage.display fmt s :=
  ⟨_, WeightedMovingAverage.reset_eq s h, rfl, rfl⟩

end WeightedMovingAverage

/-! ### StandardDeviation -/
section StandardDeviation

private theorem sd_new_fresh (s : StandardDeviation F) (h : StandardDeviation.WF s) :
    (StandardDeviation.new s.period : Res (StandardDeviation F)) =
        .ok (StandardDeviation.fresh s.period) ∧
      StandardDeviation.WF (StandardDeviation.fresh s.period : StandardDeviation F) := by
  exact ⟨by rw [StandardDeviation.new_eq]; simp [Nat.ne_of_gt h.pos, h.small],
    StandardDeviation.fresh_wf _ h.pos h.small⟩

theorem sd_reset_is_new (s : StandardDeviation F) (h : StandardDeviation.WF s) :
    ∃ f, (StandardDeviation.new s.period : Res (StandardDeviation F)) = .ok f ∧
      s.reset = some f :=
  ⟨_, (sd_new_fresh s h).1, StandardDeviation.reset_eq s h⟩

theorem sd_reset_then_run (s : StandardDeviation F) (h : StandardDeviation.WF s) :
    ∃ f, (StandardDeviation.new s.period : Res (StandardDeviation F)) = .ok f ∧
      (∀ xs : List F,
        (s.reset.bind fun r => runOut StandardDeviation.next r xs) =
          runOut StandardDeviation.next f xs) ∧
      (∀ bs : List (Bar F),
        (s.reset.bind fun r => runOut StandardDeviation.nextBar r bs) =
          runOut StandardDeviation.nextBar f bs) := by
  obtain ⟨f, hn, hr⟩ := sd_reset_is_new s h
  exact ⟨f, hn, fun xs => outputs_after_reset_eq_fresh _ _ s f hr xs,
    fun bs => outputs_after_reset_eq_fresh _ _ s f hr bs⟩

theorem sd_reset_idempotent (s : StandardDeviation F) (h : StandardDeviation.WF s) :
    ∃ r, s.reset = some r ∧ r.reset = some r :=
  ⟨_, StandardDeviation.reset_eq s h, StandardDeviation.reset_eq _ (sd_new_fresh s h).2⟩

theorem sd_reset_params (fmt : F → String) (s : StandardDeviation F)
    (h : StandardDeviation.WF s) :
    ∃ r, s.reset = some r ∧ r.period_fn = s.period_fn ∧
      StandardDeviation.display fmt r = StandardDeviation.display fmt s :=
  ⟨_, StandardDeviation.reset_eq s h, rfl, rfl⟩

end StandardDeviation

/-! ### MeanAbsoluteDeviation -/
section MeanAbsoluteDeviation

private theorem mad_new_fresh (s : MeanAbsoluteDeviation F) (h : MeanAbsoluteDeviation.WF s) :
    (MeanAbsoluteDeviation.new s.period : Res (MeanAbsoluteDeviation F)) =
        .ok (MeanAbsoluteDeviation.fresh s.period) ∧
      MeanAbsoluteDeviation.WF (MeanAbsoluteDeviation.fresh s.period : MeanAbsoluteDeviation F) := by
  exact ⟨by rw [MeanAbsoluteDeviation.new_eq]; simp [Nat.ne_of_gt h.pos, h.small],
    MeanAbsoluteDeviation.fresh_wf _ h.pos h.small⟩

theorem mad_reset_is_new (s : MeanAbsoluteDeviation F) (h : MeanAbsoluteDeviation.WF s) :
    ∃ f, (MeanAbsoluteDeviation.new s.period : Res (MeanAbsoluteDeviation F)) = .ok f ∧
      s.reset = some f :=
  ⟨_, (mad_new_fresh s h).1, MeanAbsoluteDeviation.reset_eq s h⟩

theorem mad_reset_then_run (s : MeanAbsoluteDeviation F) (h : MeanAbsoluteDeviation.WF s) :
    ∃ f, (MeanAbsoluteDeviation.new s.period : Res (MeanAbsoluteDeviation F)) = .ok f ∧
      (∀ xs : List F,
        (s.reset.bind fun r => runOut MeanAbsoluteDeviation.next r xs) =
          runOut MeanAbsoluteDeviation.next f xs) ∧
      (∀ bs : List (Bar F),
        (s.reset.bind fun r => runOut MeanAbsoluteDeviation.nextBar r bs) =
          runOut MeanAbsoluteDeviation.nextBar f bs) := by
  obtain ⟨f, hn, hr⟩ := mad_reset_is_new s h
  exact ⟨f, hn, fun xs => outputs_after_reset_eq_fresh _ _ s f hr xs,
    fun bs => outputs_after_reset_eq_fresh _ _ s f hr bs⟩

theorem mad_reset_idempotent (s : MeanAbsoluteDeviation F) (h : MeanAbsoluteDeviation.WF s) :
    ∃ r, s.reset = some r ∧ r.reset = some r :=
  ⟨_, MeanAbsoluteDeviation.reset_eq s h, MeanAbsoluteDeviation.reset_eq _ (mad_new_fresh s h).2⟩

theorem mad_reset_params (fmt : F → String) (s : MeanAbsoluteDeviation F)
    (h : MeanAbsoluteDeviation.WF s) :
    ∃ r, s.reset = some r ∧ r.period_fn = s.period_fn ∧
      MeanAbsoluteDeviation.display fmt r = MeanAbsoluteDeviation.display fmt s :=
  ⟨_, MeanAbsoluteDeviation.reset_eq s h, rfl, rfl⟩

end MeanAbsoluteDeviation

/-! ### RelativeStrengthIndex -/
section RelativeStrengthIndex

private theorem rsi_new_fresh (s : RelativeStrengthIndex F) (h : RelativeStrengthIndex.WF s) :
    (RelativeStrengthIndex.new s.period : Res (RelativeStrengthIndex F)) =
        .ok (RelativeStrengthIndex.fresh s.period) ∧
      RelativeStrengthIndex.WF (RelativeStrengthIndex.fresh s.period : RelativeStrengthIndex F) := by
  have hp : 0 < s.period := by have := h.up.pos; have := h.up_period; omega
  exact ⟨by rw [RelativeStrengthIndex.new_eq]; simp [Nat.ne_of_gt hp],
    RelativeStrengthIndex.fresh_wf _ hp⟩

theorem rsi_reset_is_new (s : RelativeStrengthIndex F) (h : RelativeStrengthIndex.WF s) :
    ∃ f, (RelativeStrengthIndex.new s.period : Res (RelativeStrengthIndex F)) = .ok f ∧
      s.reset = some f :=
  ⟨_, (rsi_new_fresh s h).1, RelativeStrengthIndex.reset_eq s h⟩

theorem rsi_reset_then_run (s : RelativeStrengthIndex F) (h : RelativeStrengthIndex.WF s) :
    ∃ f, (RelativeStrengthIndex.new s.period : Res (RelativeStrengthIndex F)) = .ok f ∧
      (∀ xs : List F,
        (s.reset.bind fun r => runOut RelativeStrengthIndex.next r xs) =
          runOut RelativeStrengthIndex.next f xs) ∧
      (∀ bs : List (Bar F),
        (s.reset.bind fun r => runOut RelativeStrengthIndex.nextBar r bs) =
          runOut RelativeStrengthIndex.nextBar f bs) := by
  obtain ⟨f, hn, hr⟩ := rsi_reset_is_new s h
  exact ⟨f, hn, fun xs => outputs_after_reset_eq_fresh _ _ s f hr xs,
    fun bs => outputs_after_reset_eq_fresh _ _ s f hr bs⟩

theorem rsi_reset_idempotent (s : RelativeStrengthIndex F) (h : RelativeStrengthIndex.WF s) :
    ∃ r, s.reset = some r ∧ r.reset = some r :=
  ⟨_, RelativeStrengthIndex.reset_eq s h, RelativeStrengthIndex.reset_eq _ (rsi_new_fresh s h).2⟩

theorem rsi_reset_params (fmt : F → String) (s : RelativeStrengthIndex F)
    (h : RelativeStrengthIndex.WF s) :
    ∃ r, s.reset = some r ∧ r.period_fn = s.period_fn ∧
      RelativeStrengthIndex.display fmt r = RelativeStrengthIndex.display fmt s :=
  ⟨_, RelativeStrengthIndex.reset_eq s h, rfl, rfl⟩

end RelativeStrengthIndex

/-! ### Minimum -/
section Minimum

private theorem minimum_new_fresh (s : Minimum F) (h : Minimum.WF s) :
    (Minimum.new s.period : Res (Minimum F)) =
        .ok (Minimum.fresh s.period) ∧
      Minimum.WF (Minimum.fresh s.period : Minimum F) := by
  exact ⟨by rw [Minimum.new_eq]; simp [Nat.ne_of_gt h.pos, h.small],
    Minimum.fresh_wf _ h.pos h.small⟩

theorem minimum_reset_is_new (s : Minimum F) (h : Minimum.WF s) :
    ∃ f, (Minimum.new s.period : Res (Minimum F)) = .ok f ∧
      s.reset = some f :=
  ⟨_, (minimum_new_fresh s h).1, Minimum.reset_eq s h⟩

theorem minimum_reset_then_run (s : Minimum F) (h : Minimum.WF s) :
    ∃ f, (Minimum.new s.period : Res (Minimum F)) = .ok f ∧
      (∀ xs : List F,
        (s.reset.bind fun r => runOut Minimum.next r xs) =
          runOut Minimum.next f xs) ∧
      (∀ bs : List (Bar F),
        (s.reset.bind fun r => runOut Minimum.nextBar r bs) =
          runOut Minimum.nextBar f bs) := by
  obtain ⟨f, hn, hr⟩ := minimum_reset_is_new s h
  exact ⟨f, hn, fun xs => outputs_after_reset_eq_fresh _ _ s f hr xs,
    fun bs => outputs_after_reset_eq_fresh _ _ s f hr bs⟩

theorem minimum_reset_idempotent (s : Minimum F) (h : Minimum.WF s) :
    ∃ r, s.reset = some r ∧ r.reset = some r :=
  ⟨_, Minimum.reset_eq s h, Minimum.reset_eq _ (minimum_new_fresh s h).2⟩

theorem minimum_reset_params (fmt : F → String) (s : Minimum F)
    (h : Minimum.WF s) :
    ∃ r, s.reset = some r ∧ r.period_fn = s.period_fn ∧
      Minimum.display fmt r = Minimum.display fmt s :=
  ⟨_, Minimum.reset_eq s h, rfl, rfl⟩

end Minimum

/-! ### Maximum -/
section Maximum

private theorem maximum_new_fresh (s : Maximum F) (h : Maximum.WF s) :
    (Maximum.new s.period : Res (Maximum F)) =
        .ok (Maximum.fresh s.period) ∧
      Maximum.WF (Maximum.fresh s.period : Maximum F) := by
  exact ⟨by rw [Maximum.new_eq]; simp [Nat.ne_of_gt h.pos, h.small],
    Maximum.fresh_wf _ h.pos h.small⟩

theorem maximum_reset_is_new (s : Maximum F) (h : Maximum.WF s) :
    ∃ f, (Maximum.new s.period : Res (Maximum F)) = .ok f ∧
      s.reset = some f :=
  ⟨_, (maximum_new_fresh s h).1, Maximum.reset_eq s h⟩

theorem maximum_reset_then_run (s : Maximum F) (h : Maximum.WF s) :
    ∃ f, (Maximum.new s.period : Res (Maximum F)) = .ok f ∧
      (∀ xs : List F,
        (s.reset.bind fun r => runOut Maximum.next r xs) =
          runOut Maximum.next f xs) ∧
      (∀ bs : List (Bar F),
        (s.reset.bind fun r => runOut Maximum.nextBar r bs) =
          runOut Maximum.nextBar f bs) := by
  obtain ⟨f, hn, hr⟩ := maximum_reset_is_new s h
  exact ⟨f, hn, fun xs => outputs_after_reset_eq_fresh _ _ s f hr xs,
    fun bs => outputs_after_reset_eq_fresh _ _ s f hr bs⟩

theorem maximum_reset_idempotent (s : Maximum F) (h : Maximum.WF s) :
    ∃ r, s.reset = some r ∧ r.reset = some r :=
  ⟨_, Maximum.reset_eq s h, Maximum.reset_eq _ (maximum_new_fresh s h).2⟩

theorem maximum_reset_params (fmt : F → String) (s : Maximum F)
    (h : Maximum.WF s) :
    ∃ r, s.reset = some r ∧ r.period_fn = s.period_fn ∧
      Maximum.display fmt r = Maximum.display fmt s :=
  ⟨_, Maximum.reset_eq s h, rfl, rfl⟩

end Maximum

/-! ### FastStochastic -/
section FastStochastic

private theorem fastStoch_new_fresh (s : FastStochastic F) (h : FastStochastic.WF s) :
    (FastStochastic.new s.period : Res (FastStochastic F)) =
        .ok (FastStochastic.fresh s.period) ∧
      FastStochastic.WF (FastStochastic.fresh s.period : FastStochastic F) := by
  have hp : 0 < s.period := h.pos
  have h8 : s.period * 8 ≤ isizeMax := by have := h.min.small; have := h.pmin; omega
  exact ⟨by rw [FastStochastic.new_eq]; simp [Nat.ne_of_gt hp, h8],
    FastStochastic.fresh_wf _ hp h8⟩

theorem fastStoch_reset_is_new (s : FastStochastic F) (h : FastStochastic.WF s) :
    ∃ f, (FastStochastic.new s.period : Res (FastStochastic F)) = .ok f ∧
      s.reset = some f :=
  ⟨_, (fastStoch_new_fresh s h).1, FastStochastic.reset_eq s h⟩

theorem fastStoch_reset_then_run (s : FastStochastic F) (h : FastStochastic.WF s) :
    ∃ f, (FastStochastic.new s.period : Res (FastStochastic F)) = .ok f ∧
      (∀ xs : List F,
        (s.reset.bind fun r => runOut FastStochastic.next r xs) =
          runOut FastStochastic.next f xs) ∧
      (∀ bs : List (Bar F),
        (s.reset.bind fun r => runOut FastStochastic.nextBar r bs) =
          runOut FastStochastic.nextBar f bs) := by
  obtain ⟨f, hn, hr⟩ := fastStoch_reset_is_new s h
  exact ⟨f, hn, fun xs => outputs_after_reset_eq_fresh _ _ s f hr xs,
    fun bs => outputs_after_reset_eq_fresh _ _ s f hr bs⟩

theorem fastStoch_reset_idempotent (s : FastStochastic F) (h : FastStochastic.WF s) :
    ∃ r, s.reset = some r ∧ r.reset = some r :=
  ⟨_, FastStochastic.reset_eq s h, FastStochastic.reset_eq _ (fastStoch_new_fresh s h).2⟩

theorem fastStoch_reset_params (fmt : F → String) (s : FastStochastic F)
    (h : FastStochastic.WF s) :
    ∃ r, s.reset = some r ∧ r.period_fn = s.period_fn ∧
      FastStochastic.display fmt r = FastStochastic.display fmt s :=
  ⟨_, FastStochastic.reset_eq s h, rfl, rfl⟩

end FastStochastic

/-! ### SlowStochastic -/
section SlowStochastic

private theorem slowStoch_new_fresh (s : SlowStochastic F) (h : SlowStochastic.WF s) :
    (SlowStochastic.new s.fast_stochastic.period s.ema.period : Res (SlowStochastic F)) =
        .ok (SlowStochastic.fresh s.fast_stochastic.period s.ema.period) ∧
      SlowStochastic.WF (SlowStochastic.fresh s.fast_stochastic.period s.ema.period : SlowStochastic F) := by
  have hs : 0 < s.fast_stochastic.period := h.fast.pos
  have h8 : s.fast_stochastic.period * 8 ≤ isizeMax := by
    have := h.fast.min.small; have := h.fast.pmin; omega
  have he : 0 < s.ema.period := h.ema.pos
  exact ⟨by rw [SlowStochastic.new_eq]; simp [Nat.ne_of_gt hs, Nat.ne_of_gt he, h8],
    SlowStochastic.fresh_wf _ _ hs h8 he⟩

theorem slowStoch_reset_is_new (s : SlowStochastic F) (h : SlowStochastic.WF s) :
    ∃ f, (SlowStochastic.new s.fast_stochastic.period s.ema.period : Res (SlowStochastic F)) = .ok f ∧
      s.reset = some f :=
  ⟨_, (slowStoch_new_fresh s h).1, SlowStochastic.reset_eq s h⟩

theorem slowStoch_reset_then_run (s : SlowStochastic F) (h : SlowStochastic.WF s) :
    ∃ f, (SlowStochastic.new s.fast_stochastic.period s.ema.period : Res (SlowStochastic F)) = .ok f ∧
      (∀ xs : List F,
        (s.reset.bind fun r => runOut SlowStochastic.next r xs) =
          runOut SlowStochastic.next f xs) ∧
      (∀ bs : List (Bar F),
        (s.reset.bind fun r => runOut SlowStochastic.nextBar r bs) =
          runOut SlowStochastic.nextBar f bs) := by
  obtain ⟨f, hn, hr⟩ := slowStoch_reset_is_new s h
  exact ⟨f, hn, fun xs => outputs_after_reset_eq_fresh _ _ s f hr xs,
    fun bs => outputs_after_reset_eq_fresh _ _ s f hr bs⟩

theorem slowStoch_reset_idempotent (s : SlowStochastic F) (h : SlowStochastic.WF s) :
    ∃ r, s.reset = some r ∧ r.reset = some r :=
  ⟨_, SlowStochastic.reset_eq s h, SlowStochastic.reset_eq _ (slowStoch_new_fresh s h).2⟩

theorem slowStoch_reset_params (fmt : F → String) (s : SlowStochastic F)
    (h : SlowStochastic.WF s) :
    ∃ r, s.reset = some r ∧ r.fast_stochastic.period = s.fast_stochastic.period ∧ r.ema.period = s.ema.period ∧
      SlowStochastic.display fmt r = SlowStochastic.display fmt s :=
  ⟨_, SlowStochastic.reset_eq s h, rfl, rfl, rfl⟩

end SlowStochastic

/-! ### TrueRange (no parameters, infallible `new()`, no invariant) -/
section TrueRange

theorem tr_reset_is_new (s : TrueRange F) : s.reset = some (TrueRange.new : TrueRange F) :=
  TrueRange.reset_eq s

theorem tr_reset_then_run (s : TrueRange F) :
    (∀ xs : List F, (s.reset.bind fun r => runOut TrueRange.next r xs) =
        runOut TrueRange.next (TrueRange.new : TrueRange F) xs) ∧
    (∀ bs : List (Bar F), (s.reset.bind fun r => runOut TrueRange.nextBar r bs) =
        runOut TrueRange.nextBar (TrueRange.new : TrueRange F) bs) :=
  ⟨fun xs => outputs_after_reset_eq_fresh _ _ s _ (tr_reset_is_new s) xs,
   fun bs => outputs_after_reset_eq_fresh _ _ s _ (tr_reset_is_new s) bs⟩

theorem tr_reset_idempotent (s : TrueRange F) : ∃ r, s.reset = some r ∧ r.reset = some r :=
  ⟨_, TrueRange.reset_eq s, TrueRange.reset_eq _⟩

theorem tr_reset_params (fmt : F → String) (s : TrueRange F) :
    ∃ r, s.reset = some r ∧ TrueRange.display fmt r = TrueRange.display fmt s :=
  ⟨_, TrueRange.reset_eq s, rfl⟩

end TrueRange

/-! ### AverageTrueRange -/
section AverageTrueRange

private theorem atr_new_fresh (s : AverageTrueRange F) (h : AverageTrueRange.WF s) :
    (AverageTrueRange.new s.period_fn : Res (AverageTrueRange F)) =
        .ok (AverageTrueRange.fresh s.period_fn) ∧
      AverageTrueRange.WF (AverageTrueRange.fresh s.period_fn : AverageTrueRange F) := by
  have hp : 0 < s.period_fn := h.ema.pos
  exact ⟨by rw [AverageTrueRange.new_eq]; simp [Nat.ne_of_gt hp],
    AverageTrueRange.fresh_wf _ hp⟩

theorem atr_reset_is_new (s : AverageTrueRange F) (h : AverageTrueRange.WF s) :
    ∃ f, (AverageTrueRange.new s.period_fn : Res (AverageTrueRange F)) = .ok f ∧
      s.reset = some f :=
  ⟨_, (atr_new_fresh s h).1, AverageTrueRange.reset_eq s h⟩

theorem atr_reset_then_run (s : AverageTrueRange F) (h : AverageTrueRange.WF s) :
    ∃ f, (AverageTrueRange.new s.period_fn : Res (AverageTrueRange F)) = .ok f ∧
      (∀ xs : List F,
        (s.reset.bind fun r => runOut AverageTrueRange.next r xs) =
          runOut AverageTrueRange.next f xs) ∧
      (∀ bs : List (Bar F),
        (s.reset.bind fun r => runOut AverageTrueRange.nextBar r bs) =
          runOut AverageTrueRange.nextBar f bs) := by
  obtain ⟨f, hn, hr⟩ := atr_reset_is_new s h
  exact ⟨f, hn, fun xs => outputs_after_reset_eq_fresh _ _ s f hr xs,
    fun bs => outputs_after_reset_eq_fresh _ _ s f hr bs⟩

theorem atr_reset_idempotent (s : AverageTrueRange F) (h : AverageTrueRange.WF s) :
    ∃ r, s.reset = some r ∧ r.reset = some r :=
  ⟨_, AverageTrueRange.reset_eq s h, AverageTrueRange.reset_eq _ (atr_new_fresh s h).2⟩

theorem atr_reset_params (fmt : F → String) (s : AverageTrueRange F)
    (h : AverageTrueRange.WF s) :
    ∃ r, s.reset = some r ∧ r.period_fn = s.period_fn ∧
      AverageTrueRange.display fmt r = AverageTrueRange.display fmt s :=
  ⟨_, AverageTrueRange.reset_eq s h, rfl, rfl⟩

end AverageTrueRange

/-! ### MovingAverageConvergenceDivergence -/
section MovingAverageConvergenceDivergence

private theorem macd_new_fresh (s : MovingAverageConvergenceDivergence F) (h : MovingAverageConvergenceDivergence.WF s) :
    (MovingAverageConvergenceDivergence.new s.fast_ema.period s.slow_ema.period s.signal_ema.period : Res (MovingAverageConvergenceDivergence F)) =
        .ok (MovingAverageConvergenceDivergence.fresh s.fast_ema.period s.slow_ema.period s.signal_ema.period) ∧
      MovingAverageConvergenceDivergence.WF (MovingAverageConvergenceDivergence.fresh s.fast_ema.period s.slow_ema.period s.signal_ema.period : MovingAverageConvergenceDivergence F) := by
  exact ⟨by rw [MovingAverageConvergenceDivergence.new_eq]; simp [Nat.ne_of_gt h.fast.pos, Nat.ne_of_gt h.slow.pos, Nat.ne_of_gt h.signal.pos],
    MovingAverageConvergenceDivergence.fresh_wf _ _ _ h.fast.pos h.slow.pos h.signal.pos⟩

theorem macd_reset_is_new (s : MovingAverageConvergenceDivergence F) (h : MovingAverageConvergenceDivergence.WF s) :
    ∃ f, (MovingAverageConvergenceDivergence.new s.fast_ema.period s.slow_ema.period s.signal_ema.period : Res (MovingAverageConvergenceDivergence F)) = .ok f ∧
      s.reset = some f :=
  ⟨_, (macd_new_fresh s h).1, MovingAverageConvergenceDivergence.reset_eq s h⟩

theorem macd_reset_then_run (s : MovingAverageConvergenceDivergence F) (h : MovingAverageConvergenceDivergence.WF s) :
    ∃ f, (MovingAverageConvergenceDivergence.new s.fast_ema.period s.slow_ema.period s.signal_ema.period : Res (MovingAverageConvergenceDivergence F)) = .ok f ∧
      (∀ xs : List F,
        (s.reset.bind fun r => runOut MovingAverageConvergenceDivergence.next r xs) =
          runOut MovingAverageConvergenceDivergence.next f xs) ∧
      (∀ bs : List (Bar F),
        (s.reset.bind fun r => runOut MovingAverageConvergenceDivergence.nextBar r bs) =
          runOut MovingAverageConvergenceDivergence.nextBar f bs) := by
  obtain ⟨f, hn, hr⟩ := macd_reset_is_new s h
  exact ⟨f, hn, fun xs => outputs_after_reset_eq_fresh _ _ s f hr xs,
    fun bs => outputs_after_reset_eq_fresh _ _ s f hr bs⟩

theorem macd_reset_idempotent (s : MovingAverageConvergenceDivergence F) (h : MovingAverageConvergenceDivergence.WF s) :
    ∃ r, s.reset = some r ∧ r.reset = some r :=
  ⟨_, MovingAverageConvergenceDivergence.reset_eq s h, MovingAverageConvergenceDivergence.reset_eq _ (macd_new_fresh s h).2⟩

theorem macd_reset_params (fmt : F → String) (s : MovingAverageConvergenceDivergence F)
    (h : MovingAverageConvergenceDivergence.WF s) :
    ∃ r, s.reset = some r ∧ r.fast_ema.period = s.fast_ema.period ∧ r.slow_ema.period = s.slow_ema.period ∧ r.signal_ema.period = s.signal_ema.period ∧
      MovingAverageConvergenceDivergence.display fmt r = MovingAverageConvergenceDivergence.display fmt s :=
  ⟨_, MovingAverageConvergenceDivergence.reset_eq s h, rfl, rfl, rfl, rfl⟩

end MovingAverageConvergenceDivergence

/-! ### PercentagePriceOscillator -/
section PercentagePriceOscillator

private theorem ppo_new_fresh (s : PercentagePriceOscillator F) (h : PercentagePriceOscillator.WF s) :
    (PercentagePriceOscillator.new s.fast_ema.period s.slow_ema.period s.signal_ema.period : Res (PercentagePriceOscillator F)) =
        .ok (PercentagePriceOscillator.fresh s.fast_ema.period s.slow_ema.period s.signal_ema.period) ∧
      PercentagePriceOscillator.WF (PercentagePriceOscillator.fresh s.fast_ema.period s.slow_ema.period s.signal_ema.period : PercentagePriceOscillator F) := by
  exact ⟨by rw [PercentagePriceOscillator.new_eq]; simp [Nat.ne_of_gt h.fast.pos, Nat.ne_of_gt h.slow.pos, Nat.ne_of_gt h.signal.pos],
    PercentagePriceOscillator.fresh_wf _ _ _ h.fast.pos h.slow.pos h.signal.pos⟩

theorem ppo_reset_is_new (s : PercentagePriceOscillator F) (h : PercentagePriceOscillator.WF s) :
    ∃ f, (PercentagePriceOscillator.new s.fast_ema.period s.slow_ema.period s.signal_ema.period : Res (PercentagePriceOscillator F)) = .ok f ∧
      s.reset = some f :=
  ⟨_, (ppo_new_fresh s h).1, PercentagePriceOscillator.reset_eq s h⟩

theorem ppo_reset_then_run (s : PercentagePriceOscillator F) (h : PercentagePriceOscillator.WF s) :
    ∃ f, (PercentagePriceOscillator.new s.fast_ema.period s.slow_ema.period s.signal_ema.period : Res (PercentagePriceOscillator F)) = .ok f ∧
      (∀ xs : List F,
        (s.reset.bind fun r => runOut PercentagePriceOscillator.next r xs) =
          runOut PercentagePriceOscillator.next f xs) ∧
      (∀ bs : List (Bar F),
        (s.reset.bind fun r => runOut PercentagePriceOscillator.nextBar r bs) =
          runOut PercentagePriceOscillator.nextBar f bs) := by
  obtain ⟨f, hn, hr⟩ := ppo_reset_is_new s h
  exact ⟨f, hn, fun xs => outputs_after_reset_eq_fresh _ _ s f hr xs,
    fun bs => outputs_after_reset_eq_fresh _ _ s f hr bs⟩

theorem ppo_reset_idempotent (s : PercentagePriceOscillator F) (h : PercentagePriceOscillator.WF s) :
    ∃ r, s.reset = some r ∧ r.reset = some r :=
  ⟨_, PercentagePriceOscillator.reset_eq s h, PercentagePriceOscillator.reset_eq _ (ppo_new_fresh s h).2⟩

theorem ppo_reset_params (fmt : F → String) (s : PercentagePriceOscillator F)
    (h : PercentagePriceOscillator.WF s) :
    ∃ r, s.reset = some r ∧ r.fast_ema.period = s.fast_ema.period ∧ r.slow_ema.period = s.slow_ema.period ∧ r.signal_ema.period = s.signal_ema.period ∧
      PercentagePriceOscillator.display fmt r = PercentagePriceOscillator.display fmt s :=
  ⟨_, PercentagePriceOscillator.reset_eq s h, rfl, rfl, rfl, rfl⟩

end PercentagePriceOscillator

/-! ### CommodityChannelIndex -/
section CommodityChannelIndex

private theorem cci_new_fresh (s : CommodityChannelIndex F) (h : CommodityChannelIndex.WF s) :
    (CommodityChannelIndex.new s.period_fn : Res (CommodityChannelIndex F)) =
        .ok (CommodityChannelIndex.fresh s.period_fn) ∧
      CommodityChannelIndex.WF (CommodityChannelIndex.fresh s.period_fn : CommodityChannelIndex F) := by
  have hp : 0 < s.period_fn := h.sma.pos
  have h8 : s.period_fn * 8 ≤ isizeMax := h.sma.small
  exact ⟨by rw [CommodityChannelIndex.new_eq]; simp [Nat.ne_of_gt hp, h8],
    CommodityChannelIndex.fresh_wf _ hp h8⟩

theorem cci_reset_is_new (s : CommodityChannelIndex F) (h : CommodityChannelIndex.WF s) :
    ∃ f, (CommodityChannelIndex.new s.period_fn : Res (CommodityChannelIndex F)) = .ok f ∧
      s.reset = some f :=
  ⟨_, (cci_new_fresh s h).1, CommodityChannelIndex.reset_eq s h⟩

theorem cci_reset_then_run (s : CommodityChannelIndex F) (h : CommodityChannelIndex.WF s) :
    ∃ f, (CommodityChannelIndex.new s.period_fn : Res (CommodityChannelIndex F)) = .ok f ∧
      (∀ bs : List (Bar F),
        (s.reset.bind fun r => runOut CommodityChannelIndex.nextBar r bs) =
          runOut CommodityChannelIndex.nextBar f bs) := by
  obtain ⟨f, hn, hr⟩ := cci_reset_is_new s h
  exact ⟨f, hn, fun bs => outputs_after_reset_eq_fresh _ _ s f hr bs⟩

theorem cci_reset_idempotent (s : CommodityChannelIndex F) (h : CommodityChannelIndex.WF s) :
    ∃ r, s.reset = some r ∧ r.reset = some r :=
  ⟨_, CommodityChannelIndex.reset_eq s h, CommodityChannelIndex.reset_eq _ (cci_new_fresh s h).2⟩

theorem cci_reset_params (fmt : F → String) (s : CommodityChannelIndex F)
    (h : CommodityChannelIndex.WF s) :
    ∃ r, s.reset = some r ∧ r.period_fn = s.period_fn ∧
      CommodityChannelIndex.display fmt r = CommodityChannelIndex.display fmt s :=
  ⟨_, CommodityChannelIndex.reset_eq s h, rfl, rfl⟩

end CommodityChannelIndex

/-! ### EfficiencyRatio -/
section EfficiencyRatio

private theorem er_new_fresh (s : EfficiencyRatio F) (h : EfficiencyRatio.WF s) :
    (EfficiencyRatio.new s.period : Res (EfficiencyRatio F)) =
        .ok (EfficiencyRatio.fresh s.period) ∧
      EfficiencyRatio.WF (EfficiencyRatio.fresh s.period : EfficiencyRatio F) := by
  exact ⟨by rw [EfficiencyRatio.new_eq]; simp [Nat.ne_of_gt h.pos, h.small],
    EfficiencyRatio.fresh_wf _ h.pos h.small⟩

theorem er_reset_is_new (s : EfficiencyRatio F) (h : EfficiencyRatio.WF s) :
    ∃ f, (EfficiencyRatio.new s.period : Res (EfficiencyRatio F)) = .ok f ∧
      s.reset = some f :=
  ⟨_, (er_new_fresh s h).1, EfficiencyRatio.reset_eq s h⟩

theorem er_reset_then_run (s : EfficiencyRatio F) (h : EfficiencyRatio.WF s) :
    ∃ f, (EfficiencyRatio.new s.period : Res (EfficiencyRatio F)) = .ok f ∧
      (∀ xs : List F,
        (s.reset.bind fun r => runOut EfficiencyRatio.next r xs) =
          runOut EfficiencyRatio.next f xs) ∧
      (∀ bs : List (Bar F),
        (s.reset.bind fun r => runOut EfficiencyRatio.nextBar r bs) =
          runOut EfficiencyRatio.nextBar f bs) := by
  obtain ⟨f, hn, hr⟩ := er_reset_is_new s h
  exact ⟨f, hn, fun xs => outputs_after_reset_eq_fresh _ _ s f hr xs,
    fun bs => outputs_after_reset_eq_fresh _ _ s f hr bs⟩

theorem er_reset_idempotent (s : EfficiencyRatio F) (h : EfficiencyRatio.WF s) :
    ∃ r, s.reset = some r ∧ r.reset = some r :=
  ⟨_, EfficiencyRatio.reset_eq s h, EfficiencyRatio.reset_eq _ (er_new_fresh s h).2⟩

theorem er_reset_params (fmt : F → String) (s : EfficiencyRatio F)
    (h : EfficiencyRatio.WF s) :
    ∃ r, s.reset = some r ∧ r.period_fn = s.period_fn ∧
      EfficiencyRatio.display fmt r = EfficiencyRatio.display fmt s :=
  ⟨_, EfficiencyRatio.reset_eq s h, rfl, rfl⟩

end EfficiencyRatio

/-! ### BollingerBands -/
section BollingerBands

private theorem bb_new_fresh (s : BollingerBands F) (h : BollingerBands.WF s) :
    (BollingerBands.new s.period s.multiplier : Res (BollingerBands F)) =
        .ok (BollingerBands.fresh s.period s.multiplier) ∧
      BollingerBands.WF (BollingerBands.fresh s.period s.multiplier : BollingerBands F) := by
  have hp : 0 < s.period := by have := h.sd.pos; have := h.per; omega
  have h8 : s.period * 8 ≤ isizeMax := by have := h.sd.small; have := h.per; omega
  exact ⟨by rw [BollingerBands.new_eq]; simp [Nat.ne_of_gt hp, h8],
    BollingerBands.fresh_wf _ _ hp h8⟩

theorem bb_reset_is_new (s : BollingerBands F) (h : BollingerBands.WF s) :
    ∃ f, (BollingerBands.new s.period s.multiplier : Res (BollingerBands F)) = .ok f ∧
      s.reset = some f :=
  ⟨_, (bb_new_fresh s h).1, BollingerBands.reset_eq s h⟩

theorem bb_reset_then_run (s : BollingerBands F) (h : BollingerBands.WF s) :
    ∃ f, (BollingerBands.new s.period s.multiplier : Res (BollingerBands F)) = .ok f ∧
      (∀ xs : List F,
        (s.reset.bind fun r => runOut BollingerBands.next r xs) =
          runOut BollingerBands.next f xs) ∧
      (∀ bs : List (Bar F),
        (s.reset.bind fun r => runOut BollingerBands.nextBar r bs) =
          runOut BollingerBands.nextBar f bs) := by
  obtain ⟨f, hn, hr⟩ := bb_reset_is_new s h
  exact ⟨f, hn, fun xs => outputs_after_reset_eq_fresh _ _ s f hr xs,
    fun bs => outputs_after_reset_eq_fresh _ _ s f hr bs⟩

theorem bb_reset_idempotent (s : BollingerBands F) (h : BollingerBands.WF s) :
    ∃ r, s.reset = some r ∧ r.reset = some r :=
  ⟨_, BollingerBands.reset_eq s h, BollingerBands.reset_eq _ (bb_new_fresh s h).2⟩

theorem bb_reset_params (fmt : F → String) (s : BollingerBands F)
    (h : BollingerBands.WF s) :
    ∃ r, s.reset = some r ∧ r.period_fn = s.period_fn ∧ r.multiplier_fn = s.multiplier_fn ∧
      BollingerBands.display fmt r = BollingerBands.display fmt s :=
  ⟨_, BollingerBands.reset_eq s h, rfl, rfl, rfl⟩

end BollingerBands

/-! ### ChandelierExit -/
section ChandelierExit

private theorem ce_new_fresh (s : ChandelierExit F) (h : ChandelierExit.WF s) :
    (ChandelierExit.new s.period_fn s.multiplier : Res (ChandelierExit F)) =
        .ok (ChandelierExit.fresh s.period_fn s.multiplier) ∧
      ChandelierExit.WF (ChandelierExit.fresh s.period_fn s.multiplier : ChandelierExit F) := by
  have hp : 0 < s.period_fn := h.atr.ema.pos
  have h8 : s.period_fn * 8 ≤ isizeMax := by
    have := h.min.small; have := h.pmin; have e : s.period_fn = s.atr.period_fn := rfl; omega
  exact ⟨by rw [ChandelierExit.new_eq]; simp [Nat.ne_of_gt hp, h8],
    ChandelierExit.fresh_wf _ _ hp h8⟩

theorem ce_reset_is_new (s : ChandelierExit F) (h : ChandelierExit.WF s) :
    ∃ f, (ChandelierExit.new s.period_fn s.multiplier : Res (ChandelierExit F)) = .ok f ∧
      s.reset = some f :=
  ⟨_, (ce_new_fresh s h).1, ChandelierExit.reset_eq s h⟩

theorem ce_reset_then_run (s : ChandelierExit F) (h : ChandelierExit.WF s) :
    ∃ f, (ChandelierExit.new s.period_fn s.multiplier : Res (ChandelierExit F)) = .ok f ∧
      (∀ bs : List (Bar F),
        (s.reset.bind fun r => runOut ChandelierExit.nextBar r bs) =
          runOut ChandelierExit.nextBar f bs) := by
  obtain ⟨f, hn, hr⟩ := ce_reset_is_new s h
  exact ⟨f, hn, fun bs => outputs_after_reset_eq_fresh _ _ s f hr bs⟩

theorem ce_reset_idempotent (s : ChandelierExit F) (h : ChandelierExit.WF s) :
    ∃ r, s.reset = some r ∧ r.reset = some r :=
  ⟨_, ChandelierExit.reset_eq s h, ChandelierExit.reset_eq _ (ce_new_fresh s h).2⟩

theorem ce_reset_params (fmt : F → String) (s : ChandelierExit F)
    (h : ChandelierExit.WF s) :
    ∃ r, s.reset = some r ∧ r.period_fn = s.period_fn ∧ r.multiplier_fn = s.multiplier_fn ∧
      ChandelierExit.display fmt r = ChandelierExit.display fmt s :=
  ⟨_, ChandelierExit.reset_eq s h, rfl, rfl, rfl⟩

end ChandelierExit

/-! ### KeltnerChannel -/
section KeltnerChannel

private theorem kc_new_fresh (s : KeltnerChannel F) (h : KeltnerChannel.WF s) :
    (KeltnerChannel.new s.period s.multiplier : Res (KeltnerChannel F)) =
        .ok (KeltnerChannel.fresh s.period s.multiplier) ∧
      KeltnerChannel.WF (KeltnerChannel.fresh s.period s.multiplier : KeltnerChannel F) := by
  have hp : 0 < s.period := by have := h.ema.pos; have := h.ema_period; omega
  exact ⟨by rw [KeltnerChannel.new_eq]; simp [Nat.ne_of_gt hp],
    KeltnerChannel.fresh_wf _ _ hp⟩

theorem kc_reset_is_new (s : KeltnerChannel F) (h : KeltnerChannel.WF s) :
    ∃ f, (KeltnerChannel.new s.period s.multiplier : Res (KeltnerChannel F)) = .ok f ∧
      s.reset = some f :=
  ⟨_, (kc_new_fresh s h).1, KeltnerChannel.reset_eq s h⟩

theorem kc_reset_then_run (s : KeltnerChannel F) (h : KeltnerChannel.WF s) :
    ∃ f, (KeltnerChannel.new s.period s.multiplier : Res (KeltnerChannel F)) = .ok f ∧
      (∀ xs : List F,
        (s.reset.bind fun r => runOut KeltnerChannel.next r xs) =
          runOut KeltnerChannel.next f xs) ∧
      (∀ bs : List (Bar F),
        (s.reset.bind fun r => runOut KeltnerChannel.nextBar r bs) =
          runOut KeltnerChannel.nextBar f bs) := by
  obtain ⟨f, hn, hr⟩ := kc_reset_is_new s h
  exact ⟨f, hn, fun xs => outputs_after_reset_eq_fresh _ _ s f hr xs,
    fun bs => outputs_after_reset_eq_fresh _ _ s f hr bs⟩

theorem kc_reset_idempotent (s : KeltnerChannel F) (h : KeltnerChannel.WF s) :
    ∃ r, s.reset = some r ∧ r.reset = some r :=
  ⟨_, KeltnerChannel.reset_eq s h, KeltnerChannel.reset_eq _ (kc_new_fresh s h).2⟩

theorem kc_reset_params (fmt : F → String) (s : KeltnerChannel F)
    (h : KeltnerChannel.WF s) :
    ∃ r, s.reset = some r ∧ r.period_fn = s.period_fn ∧ r.multiplier_fn = s.multiplier_fn ∧
      KeltnerChannel.display fmt r = KeltnerChannel.display fmt s :=
  ⟨_, KeltnerChannel.reset_eq s h, rfl, rfl, rfl⟩

end KeltnerChannel

/-! ### RateOfChange -/
section RateOfChange

private theorem roc_new_fresh (s : RateOfChange F) (h : RateOfChange.WF s) :
    (RateOfChange.new s.period : Res (RateOfChange F)) =
        .ok (RateOfChange.fresh s.period) ∧
      RateOfChange.WF (RateOfChange.fresh s.period : RateOfChange F) := by
  exact ⟨by rw [RateOfChange.new_eq]; simp [Nat.ne_of_gt h.pos, h.small],
    RateOfChange.fresh_wf _ h.pos h.small⟩

theorem roc_reset_is_new (s : RateOfChange F) (h : RateOfChange.WF s) :
    ∃ f, (RateOfChange.new s.period : Res (RateOfChange F)) = .ok f ∧
      s.reset = some f :=
  ⟨_, (roc_new_fresh s h).1, RateOfChange.reset_eq s h⟩

theorem roc_reset_then_run (s : RateOfChange F) (h : RateOfChange.WF s) :
    ∃ f, (RateOfChange.new s.period : Res (RateOfChange F)) = .ok f ∧
      (∀ xs : List F,
        (s.reset.bind fun r => runOut RateOfChange.next r xs) =
          runOut RateOfChange.next f xs) ∧
      (∀ bs : List (Bar F),
        (s.reset.bind fun r => runOut RateOfChange.nextBar r bs) =
          runOut RateOfChange.nextBar f bs) := by
  obtain ⟨f, hn, hr⟩ := roc_reset_is_new s h
  exact ⟨f, hn, fun xs => outputs_after_reset_eq_fresh _ _ s f hr xs,
    fun bs => outputs_after_reset_eq_fresh _ _ s f hr bs⟩

theorem roc_reset_idempotent (s : RateOfChange F) (h : RateOfChange.WF s) :
    ∃ r, s.reset = some r ∧ r.reset = some r :=
  ⟨_, RateOfChange.reset_eq s h, RateOfChange.reset_eq _ (roc_new_fresh s h).2⟩

theorem roc_reset_params (fmt : F → String) (s : RateOfChange F)
    (h : RateOfChange.WF s) :
    ∃ r, s.reset = some r ∧ r.period_fn = s.period_fn ∧
      RateOfChange.display fmt r = RateOfChange.display fmt s :=
  ⟨_, RateOfChange.reset_eq s h, rfl, rfl⟩

end RateOfChange

/-! ### MoneyFlowIndex -/
section MoneyFlowIndex

private theorem mfi_new_fresh (s : MoneyFlowIndex F) (h : MoneyFlowIndex.WF s) :
    (MoneyFlowIndex.new s.period : Res (MoneyFlowIndex F)) =
        .ok (MoneyFlowIndex.fresh s.period) ∧
      MoneyFlowIndex.WF (MoneyFlowIndex.fresh s.period : MoneyFlowIndex F) := by
  exact ⟨by rw [MoneyFlowIndex.new_eq]; simp [Nat.ne_of_gt h.pos, h.small],
    MoneyFlowIndex.fresh_wf _ h.pos h.small⟩

theorem mfi_reset_is_new (s : MoneyFlowIndex F) (h : MoneyFlowIndex.WF s) :
    ∃ f, (MoneyFlowIndex.new s.period : Res (MoneyFlowIndex F)) = .ok f ∧
      s.reset = some f :=
  ⟨_, (mfi_new_fresh s h).1, MoneyFlowIndex.reset_eq s h⟩

theorem mfi_reset_then_run (s : MoneyFlowIndex F) (h : MoneyFlowIndex.WF s) :
    ∃ f, (MoneyFlowIndex.new s.period : Res (MoneyFlowIndex F)) = .ok f ∧
      (∀ bs : List (Bar F),
        (s.reset.bind fun r => runOut MoneyFlowIndex.nextBar r bs) =
          runOut MoneyFlowIndex.nextBar f bs) := by
  obtain ⟨f, hn, hr⟩ := mfi_reset_is_new s h
  exact ⟨f, hn, fun bs => outputs_after_reset_eq_fresh _ _ s f hr bs⟩

theorem mfi_reset_idempotent (s : MoneyFlowIndex F) (h : MoneyFlowIndex.WF s) :
    ∃ r, s.reset = some r ∧ r.reset = some r :=
  ⟨_, MoneyFlowIndex.reset_eq s h, MoneyFlowIndex.reset_eq _ (mfi_new_fresh s h).2⟩

theorem mfi_reset_params (fmt : F → String) (s : MoneyFlowIndex F)
    (h : MoneyFlowIndex.WF s) :
    ∃ r, s.reset = some r ∧ r.period_fn = s.period_fn ∧
      MoneyFlowIndex.display fmt r = MoneyFlowIndex.display fmt s :=
  ⟨_, MoneyFlowIndex.reset_eq s h, rfl, rfl⟩

end MoneyFlowIndex

/-! ### OnBalanceVolume (no parameters, infallible `new()`, no invariant) -/
section OnBalanceVolume

theorem obv_reset_is_new (s : OnBalanceVolume F) : s.reset = some (OnBalanceVolume.new : OnBalanceVolume F) :=
  OnBalanceVolume.reset_eq s

theorem obv_reset_then_run (s : OnBalanceVolume F) :
    ∀ bs : List (Bar F), (s.reset.bind fun r => runOut OnBalanceVolume.nextBar r bs) =
        runOut OnBalanceVolume.nextBar (OnBalanceVolume.new : OnBalanceVolume F) bs :=
  fun bs => outputs_after_reset_eq_fresh _ _ s _ (obv_reset_is_new s) bs

theorem obv_reset_idempotent (s : OnBalanceVolume F) : ∃ r, s.reset = some r ∧ r.reset = some r :=
  ⟨_, OnBalanceVolume.reset_eq s, OnBalanceVolume.reset_eq _⟩

theorem obv_reset_params (fmt : F → String) (s : OnBalanceVolume F) :
    ∃ r, s.reset = some r ∧ OnBalanceVolume.display fmt r = OnBalanceVolume.display fmt s :=
  ⟨_, OnBalanceVolume.reset_eq s, rfl⟩

end OnBalanceVolume

end TaRs.Props.C04
