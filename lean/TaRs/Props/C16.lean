/-
  C16 — DataItem builder accepts exactly the consistent bars and returns what was set.

  L0 (+ one IEEE-true hypothesis for NaN): about the GENERATED `DataItemBuilder`, for every
  `[Scalar F]`, every setter sequence (any subset, any order, with repetitions) and every
  values.  The comparisons are the scalar's own `Scalar.le` (`a >= b` is `le b a`), so the
  statements are exactly the six f64 comparisons of the source.
-/
import TaRs.Lemmas.DataItem
set_option linter.unusedSectionVars false
namespace TaRs.Props.C16
open TaRs TaRs.Gen TaRs.Gen.DataItemBuilder

variable {F : Type} [Scalar F]

/-- the six comparisons, as the property words them -/
def consistent (o h l c v : F) : Bool :=
  Scalar.le l o && Scalar.le l c && Scalar.le l h && Scalar.le o h && Scalar.le c h && Scalar.le (Scalar.lit 0 0) v

/-- Err(DataItemIncomplete) iff some setter was never called — whatever the values that were set -/
theorem incomplete_iff (l : List (Setter F)) :
    (applyAll l).build = .err .DataItemIncomplete ↔
      (lastOpen l = none ∨ lastHigh l = none ∨ lastLow l = none ∨ lastClose l = none ∨ lastVolume l = none) := by
  rw [build_incomplete_iff, applyAll_open, applyAll_high, applyAll_low, applyAll_close, applyAll_volume]

/-- all five set (last values o h l c v): Ok with exactly those values iff the six comparisons hold,
    Err(DataItemInvalid) otherwise; never a panic -/
theorem complete_verdict (l : List (Setter F)) (o h lo c v : F)
    (ho : lastOpen l = some o) (hh : lastHigh l = some h) (hl : lastLow l = some lo)
    (hc : lastClose l = some c) (hv : lastVolume l = some v) :
    (applyAll l).build =
      if consistent o h lo c v then .ok { open_ := o, high := h, low := lo, close := c, volume := v }
      else .err .DataItemInvalid := by
  rw [applyAll_eq, ho, hh, hl, hc, hv]
  exact build_complete o h lo c v

theorem never_panics (l : List (Setter F)) : (applyAll l).build ≠ .panic := build_ne_panic _

/-- the built item's getters return the last value passed to the corresponding setter -/
theorem getters_return_last (l : List (Setter F)) (d : DataItem F) (hb : (applyAll l).build = .ok d) :
    lastOpen l = some d.open_fn ∧ lastHigh l = some d.high_fn ∧ lastLow l = some d.low_fn ∧
      lastClose l = some d.close_fn ∧ lastVolume l = some d.volume_fn := by
  rw [build_ok_iff, applyAll_open, applyAll_high, applyAll_low, applyAll_close, applyAll_volume] at hb
  exact ⟨hb.1, hb.2.1, hb.2.2.1, hb.2.2.2.1, hb.2.2.2.2.1⟩

/-- setter order (and repetition) is irrelevant: only the last value per field matters -/
theorem order_irrelevant (l₁ l₂ : List (Setter F))
    (ho : lastOpen l₁ = lastOpen l₂) (hh : lastHigh l₁ = lastHigh l₂) (hl : lastLow l₁ = lastLow l₂)
    (hc : lastClose l₁ = lastClose l₂) (hv : lastVolume l₁ = lastVolume l₂) :
    (applyAll l₁).build = (applyAll l₂).build := by
  rw [applyAll_congr l₁ l₂ ho hh hl hc hv]

/-- any NaN field is rejected: a value for which every `<=` is false, last-set in ANY of the five
    fields, prevents `Ok` (hypothesis = IEEE semantics of NaN comparisons) -/
theorem nan_rejected (l : List (Setter F)) (x : F)
    (hnan : ∀ y : F, Scalar.le x y = false ∧ Scalar.le y x = false)
    (hx : lastOpen l = some x ∨ lastHigh l = some x ∨ lastLow l = some x ∨ lastClose l = some x ∨ lastVolume l = some x)
    (d : DataItem F) : (applyAll l).build ≠ .ok d := by
  apply build_rejects_nan _ x hnan
  rw [applyAll_open, applyAll_high, applyAll_low, applyAll_close, applyAll_volume]
  exact hx

/-- a clone is the same value (derived Clone on five f64 fields = identity on the model), so it
    compares equal whenever `==` is reflexive on its fields, i.e. when no field is NaN -/
theorem clone_eq (d : DataItem F) : (fun x : DataItem F => x) d = d := rfl

/-- non-vacuity: a complete, consistent chain of setters in scrambled order with a repeated call -/
example (o h lo c v junk : F) (hcons : consistent o h lo c v = true) :
    (applyAll [.volume v, .high junk, .close c, .low lo, .high h, .open_ o]).build
      = .ok { open_ := o, high := h, low := lo, close := c, volume := v } := by
  rw [complete_verdict _ o h lo c v rfl rfl rfl rfl rfl, hcons]; rfl

end TaRs.Props.C16
