/-
  C10 — `Next<&T>` for bars: delegation, one-price bars, field independence, DataItem.

  "For any type implementing the price traits, Next<&T> of SMA, EMA, WMA, StandardDeviation,
   MeanAbsoluteDeviation, RSI, MACD, PPO, EfficiencyRatio, BollingerBands and RateOfChange equals
   Next<f64> on close, Minimum on low and Maximum on high; FastStochastic, SlowStochastic,
   TrueRange, ATR and KeltnerChannel fed a one-price bar (open = high = low = close = x) equal
   their scalar path on x.  Changing fields an indicator is not documented to read (open always;
   volume except for MFI and OBV; high/low for close-only indicators) never changes its output,
   and DataItem behaves exactly like any other implementor carrying the same numbers."

  Model.  `impl<T: Close> Next<&T>` is translated to `X.nextBar : X F → Bar F → Option (X F × Out)`,
  where `Bar F` is "the five numbers the getters return": the generated code can only reach the
  argument through the five projections, which is the formal content of "any type implementing
  the price traits".  `none` is a panic.  Everything is for an arbitrary `[Scalar F]`; the
  sections 1, 2 and 4 use NO law about the arithmetic (they hold for f64 with NaN, ±∞, …) and NO
  well-formedness of the state: they are equalities of `Option (state × output)`, so they cover
  the successor state, the output, and panicking alike.

  1. Delegation (13 indicators):  `x_bar_is_close : s.nextBar b = s.next b.close`
     (`minimum_bar_is_low`, `maximum_bar_is_high`).
  2. Field independence (all 22):  `x_bar_reads` — two bars agreeing on the documented read set
     give the same result.  `open_` is in no read set.
        close                      SMA EMA WMA SD MAD RSI MACD PPO ER BB ROC
        low / high                 Minimum / Maximum
        high, low, close           FastStochastic SlowStochastic TrueRange ATR KeltnerChannel
                                   ChandelierExit CommodityChannelIndex
        high, low, close, volume   MoneyFlowIndex
        close, volume              OnBalanceVolume
  3. One-price bars (L1: under stated laws that are true of IEEE arithmetic in the stated cases):
     `truerange_one_price_state`, `faststochastic_one_price_state` (no law: successor STATES agree),
     `truerange_one_price_of_laws`, `atr_one_price_of_laws`, `faststochastic_one_price_of_laws`,
     `slowstochastic_one_price_of_laws`, `keltnerchannel_one_price_of_laws`.
     The two paths are syntactically different computations, so an arbitrary `Scalar` does not make
     them equal; each theorem lists exactly the arithmetic facts it needs.
     NOTE (TrueRange / ATR / KeltnerChannel): the needed fact `max (max 0 a) a = a` for
     `a = |x − prev_close|` is true of f64 only when `a` is not NaN.  `f64::max` ignores NaN, so for
     a NaN distance (previous close NaN, or x and previous close the same infinity) the bar path
     returns `max3(x − x, NaN, NaN) = x − x` where the scalar path returns NaN: the property as
     worded holds for finite data only, and that is why the law is asked for that `a` and not `∀ a`.
  4. DataItem:  `dataitem_getters`, `dataitem_same_numbers`.
-/
import TaRs.Lemmas.Bar.SimpleMovingAverage
import TaRs.Lemmas.Bar.ExponentialMovingAverage
import TaRs.Lemmas.Bar.WeightedMovingAverage
import TaRs.Lemmas.Bar.StandardDeviation
import TaRs.Lemmas.Bar.MeanAbsoluteDeviation
import TaRs.Lemmas.Bar.RateOfChange
import TaRs.Lemmas.Bar.EfficiencyRatio
import TaRs.Lemmas.Bar.Minimum
import TaRs.Lemmas.Bar.Maximum
import TaRs.Lemmas.Bar.RelativeStrengthIndex
import TaRs.Lemmas.Bar.MovingAverageConvergenceDivergence
import TaRs.Lemmas.Bar.PercentagePriceOscillator
import TaRs.Lemmas.Bar.BollingerBands
import TaRs.Lemmas.TrueRange
import TaRs.Gen.AverageTrueRange
import TaRs.Gen.FastStochastic
import TaRs.Gen.SlowStochastic
import TaRs.Gen.KeltnerChannel
import TaRs.Gen.ChandelierExit
import TaRs.Gen.CommodityChannelIndex
import TaRs.Gen.MoneyFlowIndex
import TaRs.Gen.OnBalanceVolume
import TaRs.Lemmas.DataItem

namespace TaRs.Props.C10
open TaRs TaRs.Gen TaRs.Rs

variable {F : Type} [Scalar F]

/-! ## 1. Delegation: `next(&bar)` IS `next(bar.close())` (resp. `low`, `high`) — every state, no law -/

theorem sma_bar_is_close (s : SimpleMovingAverage F) (b : Bar F) : s.nextBar b = s.next b.close :=
  SimpleMovingAverage.nextBar_eq s b

theorem ema_bar_is_close (s : ExponentialMovingAverage F) (b : Bar F) : s.nextBar b = s.next b.close :=
  ExponentialMovingAverage.nextBar_eq s b

theorem wma_bar_is_close (s : WeightedMovingAverage F) (b : Bar F) : s.nextBar b = s.next b.close :=
  WeightedMovingAverage.nextBar_eq s b

theorem sd_bar_is_close (s : StandardDeviation F) (b : Bar F) : s.nextBar b = s.next b.close :=
  StandardDeviation.nextBar_eq s b

theorem mad_bar_is_close (s : MeanAbsoluteDeviation F) (b : Bar F) : s.nextBar b = s.next b.close :=
  MeanAbsoluteDeviation.nextBar_eq s b

theorem rsi_bar_is_close (s : RelativeStrengthIndex F) (b : Bar F) : s.nextBar b = s.next b.close :=
  RelativeStrengthIndex.nextBar_eq s b

theorem macd_bar_is_close (s : MovingAverageConvergenceDivergence F) (b : Bar F) : s.nextBar b = s.next b.close :=
  MovingAverageConvergenceDivergence.nextBar_eq s b

theorem ppo_bar_is_close (s : PercentagePriceOscillator F) (b : Bar F) : s.nextBar b = s.next b.close :=
  PercentagePriceOscillator.nextBar_eq s b

theorem er_bar_is_close (s : EfficiencyRatio F) (b : Bar F) : s.nextBar b = s.next b.close :=
  EfficiencyRatio.nextBar_eq s b

theorem bb_bar_is_close (s : BollingerBands F) (b : Bar F) : s.nextBar b = s.next b.close :=
  BollingerBands.nextBar_eq s b

theorem roc_bar_is_close (s : RateOfChange F) (b : Bar F) : s.nextBar b = s.next b.close :=
  RateOfChange.nextBar_eq s b

theorem minimum_bar_is_low (s : Minimum F) (b : Bar F) : s.nextBar b = s.next b.low :=
  Minimum.nextBar_eq s b

theorem maximum_bar_is_high (s : Maximum F) (b : Bar F) : s.nextBar b = s.next b.high :=
  Maximum.nextBar_eq s b


/-! ## 2. Field independence: only the documented fields are read — every state, no law

Each theorem: two bars that agree on the read set give the same `Option (state × output)`.
Whatever `open_` holds (and `volume`, `high`, `low` where not listed) — NaN included — is irrelevant. -/

/-! ### read set: `close` -/

theorem sma_bar_reads (s : SimpleMovingAverage F) (b b' : Bar F) (hc : b.close = b'.close) :
    s.nextBar b = s.nextBar b' := by
  rw [sma_bar_is_close, sma_bar_is_close, hc]

theorem ema_bar_reads (s : ExponentialMovingAverage F) (b b' : Bar F) (hc : b.close = b'.close) :
    s.nextBar b = s.nextBar b' := by
  rw [ema_bar_is_close, ema_bar_is_close, hc]

theorem wma_bar_reads (s : WeightedMovingAverage F) (b b' : Bar F) (hc : b.close = b'.close) :
    s.nextBar b = s.nextBar b' := by
  rw [wma_bar_is_close, wma_bar_is_close, hc]

theorem sd_bar_reads (s : StandardDeviation F) (b b' : Bar F) (hc : b.close = b'.close) :
    s.nextBar b = s.nextBar b' := by
  rw [sd_bar_is_close, sd_bar_is_close, hc]

theorem mad_bar_reads (s : MeanAbsoluteDeviation F) (b b' : Bar F) (hc : b.close = b'.close) :
    s.nextBar b = s.nextBar b' := by
  rw [mad_bar_is_close, mad_bar_is_close, hc]

theorem rsi_bar_reads (s : RelativeStrengthIndex F) (b b' : Bar F) (hc : b.close = b'.close) :
    s.nextBar b = s.nextBar b' := by
  rw [rsi_bar_is_close, rsi_bar_is_close, hc]

theorem macd_bar_reads (s : MovingAverageConvergenceDivergence F) (b b' : Bar F) (hc : b.close = b'.close) :
    s.nextBar b = s.nextBar b' := by
  rw [macd_bar_is_close, macd_bar_is_close, hc]

theorem ppo_bar_reads (s : PercentagePriceOscillator F) (b b' : Bar F) (hc : b.close = b'.close) :
    s.nextBar b = s.nextBar b' := by
  rw [ppo_bar_is_close, ppo_bar_is_close, hc]

theorem er_bar_reads (s : EfficiencyRatio F) (b b' : Bar F) (hc : b.close = b'.close) :
    s.nextBar b = s.nextBar b' := by
  rw [er_bar_is_close, er_bar_is_close, hc]

theorem bb_bar_reads (s : BollingerBands F) (b b' : Bar F) (hc : b.close = b'.close) :
    s.nextBar b = s.nextBar b' := by
  rw [bb_bar_is_close, bb_bar_is_close, hc]

theorem roc_bar_reads (s : RateOfChange F) (b b' : Bar F) (hc : b.close = b'.close) :
    s.nextBar b = s.nextBar b' := by
  rw [roc_bar_is_close, roc_bar_is_close, hc]

/-! ### read set: `low` (Minimum), `high` (Maximum) -/

theorem minimum_bar_reads (s : Minimum F) (b b' : Bar F) (hl : b.low = b'.low) :
    s.nextBar b = s.nextBar b' := by
  rw [minimum_bar_is_low, minimum_bar_is_low, hl]

theorem maximum_bar_reads (s : Maximum F) (b b' : Bar F) (hh : b.high = b'.high) :
    s.nextBar b = s.nextBar b' := by
  rw [maximum_bar_is_high, maximum_bar_is_high, hh]

/-! ### read set: `high`, `low`, `close` -/

theorem truerange_bar_reads (s : TrueRange F) (b b' : Bar F)
    (hh : b.high = b'.high) (hl : b.low = b'.low) (hc : b.close = b'.close) :
    s.nextBar b = s.nextBar b' := by
  simp only [gen_helper, TrueRange.nextBar, hh, hl, hc]

theorem atr_bar_reads (s : AverageTrueRange F) (b b' : Bar F)
    (hh : b.high = b'.high) (hl : b.low = b'.low) (hc : b.close = b'.close) :
    s.nextBar b = s.nextBar b' := by
  simp only [gen_helper, AverageTrueRange.nextBar, truerange_bar_reads _ b b' hh hl hc]

theorem faststochastic_bar_reads (s : FastStochastic F) (b b' : Bar F)
    (hh : b.high = b'.high) (hl : b.low = b'.low) (hc : b.close = b'.close) :
    s.nextBar b = s.nextBar b' := by
  simp only [gen_helper, FastStochastic.nextBar, hh, hl, hc]

theorem slowstochastic_bar_reads (s : SlowStochastic F) (b b' : Bar F)
    (hh : b.high = b'.high) (hl : b.low = b'.low) (hc : b.close = b'.close) :
    s.nextBar b = s.nextBar b' := by
  simp only [gen_helper, SlowStochastic.nextBar, faststochastic_bar_reads _ b b' hh hl hc]

theorem keltnerchannel_bar_reads (s : KeltnerChannel F) (b b' : Bar F)
    (hh : b.high = b'.high) (hl : b.low = b'.low) (hc : b.close = b'.close) :
    s.nextBar b = s.nextBar b' := by
  simp only [gen_helper, KeltnerChannel.nextBar, hh, hl, hc, atr_bar_reads _ b b' hh hl hc]

theorem chandelierexit_bar_reads (s : ChandelierExit F) (b b' : Bar F)
    (hh : b.high = b'.high) (hl : b.low = b'.low) (hc : b.close = b'.close) :
    s.nextBar b = s.nextBar b' := by
  simp only [gen_helper, ChandelierExit.nextBar, atr_bar_reads _ b b' hh hl hc, minimum_bar_reads _ b b' hl,
    maximum_bar_reads _ b b' hh]

theorem cci_bar_reads (s : CommodityChannelIndex F) (b b' : Bar F)
    (hh : b.high = b'.high) (hl : b.low = b'.low) (hc : b.close = b'.close) :
    s.nextBar b = s.nextBar b' := by
  simp only [gen_helper, CommodityChannelIndex.nextBar, hh, hl, hc]

/-! ### read set: `high`, `low`, `close`, `volume` (MoneyFlowIndex) -/

theorem mfi_bar_reads (s : MoneyFlowIndex F) (b b' : Bar F)
    (hh : b.high = b'.high) (hl : b.low = b'.low) (hc : b.close = b'.close)
    (hv : b.volume = b'.volume) :
    s.nextBar b = s.nextBar b' := by
  simp only [gen_helper, MoneyFlowIndex.nextBar, hh, hl, hc, hv]

/-! ### read set: `close`, `volume` (OnBalanceVolume) -/

theorem obv_bar_reads (s : OnBalanceVolume F) (b b' : Bar F)
    (hc : b.close = b'.close) (hv : b.volume = b'.volume) :
    s.nextBar b = s.nextBar b' := by
  simp only [gen_helper, OnBalanceVolume.nextBar, hc, hv]

/-- the worded form, once: overwriting `open_` (all 22), and `volume` / `high` / `low` where they
    are not in the read set, is a special case of `x_bar_reads`; e.g. for SMA every field but
    `close` can be replaced by anything. -/
example (s : SimpleMovingAverage F) (o h l c v o' h' l' v' : F) :
    s.nextBar ⟨o, h, l, c, v⟩ = s.nextBar ⟨o', h', l', c, v'⟩ := sma_bar_reads s _ _ rfl
example (s : MoneyFlowIndex F) (o h l c v o' : F) :
    s.nextBar ⟨o, h, l, c, v⟩ = s.nextBar ⟨o', h, l, c, v⟩ := mfi_bar_reads s _ _ rfl rfl rfl rfl
example (s : ChandelierExit F) (o h l c v o' v' : F) :
    s.nextBar ⟨o, h, l, c, v⟩ = s.nextBar ⟨o', h, l, c, v'⟩ := chandelierexit_bar_reads s _ _ rfl rfl rfl


/-! ## 3. One-price bars (L1: under stated IEEE-true laws) -/

/-- the bar a single price `x` stands for: open = high = low = close = `x` (any volume) -/
def onePrice (x v : F) : Bar F := ⟨x, x, x, x, v⟩

/-! ### no law needed: the successor STATES of the two paths agree -/

/-- TrueRange remembers `x` as the previous close on both paths -/
theorem truerange_one_price_state (s : TrueRange F) (x v : F) :
    (s.nextBar (onePrice x v)).map (·.1) = (s.next x).map (·.1) := by
  rw [TrueRange.nextBar_eq, TrueRange.next_eq]; rfl

/-- FastStochastic pushes `x` into both windows on both paths (in the opposite order, which is not
    observable: each window only sees its own input), and panics on one path iff on the other -/
theorem faststochastic_one_price_state (s : FastStochastic F) (x v : F) :
    (s.nextBar (onePrice x v)).map (·.1) = (s.next x).map (·.1) := by
  unfold FastStochastic.nextBar FastStochastic.next onePrice
  try simp only [gen_helper]
  cases h1 : Minimum.next s.minimum x <;> cases h2 : Maximum.next s.maximum x <;> simp [h1, h2]

/-! ### TrueRange, ATR: outputs `max3 (x − x) |x − p| |x − p|` vs `|x − p|` (`x − x` vs `0.0` first) -/

/-- the two TrueRange output formulas agree on a one-price bar, given
    * `hsub`: `x − x = 0.0` (f64: every finite `x`), used on the first bar;
    * `hmax`: `max (max 0.0 a) a = a` for the distance `a = |x − prev_close|` actually computed
      (f64: every `a` that is not NaN — `a` is an absolute value, so `a ≥ +0.0` or `a = +∞`). -/
private theorem tr_out_one_price (s : TrueRange F) (x v : F)
    (hsub : Scalar.sub x x = Scalar.lit 0 0)
    (hmax : ∀ pc, s.prev_close = some pc →
      Scalar.max (Scalar.max (Scalar.lit 0 0) (Scalar.abs (Scalar.sub x pc)))
        (Scalar.abs (Scalar.sub x pc)) = Scalar.abs (Scalar.sub x pc)) :
    TrueRange.outBar s (onePrice x v) = TrueRange.out s x := by
  unfold TrueRange.outBar TrueRange.out onePrice
  cases hp : s.prev_close with
  | none => simp only [hsub]
  | some pc => simp only [hsub, hmax pc hp]

theorem truerange_one_price_of_laws (s : TrueRange F) (x v : F)
    (hsub : Scalar.sub x x = Scalar.lit 0 0)
    (hmax : ∀ pc, s.prev_close = some pc →
      Scalar.max (Scalar.max (Scalar.lit 0 0) (Scalar.abs (Scalar.sub x pc)))
        (Scalar.abs (Scalar.sub x pc)) = Scalar.abs (Scalar.sub x pc)) :
    s.nextBar (onePrice x v) = s.next x := by
  rw [TrueRange.nextBar_eq, TrueRange.next_eq, tr_out_one_price s x v hsub hmax]; rfl

/-- ATR = EMA of TrueRange on both paths, so it inherits TrueRange's statement (laws about the
    inner TrueRange's previous close) -/
theorem atr_one_price_of_laws (s : AverageTrueRange F) (x v : F)
    (hsub : Scalar.sub x x = Scalar.lit 0 0)
    (hmax : ∀ pc, s.true_range.prev_close = some pc →
      Scalar.max (Scalar.max (Scalar.lit 0 0) (Scalar.abs (Scalar.sub x pc)))
        (Scalar.abs (Scalar.sub x pc)) = Scalar.abs (Scalar.sub x pc)) :
    s.nextBar (onePrice x v) = s.next x := by
  -- the two paths differ only in the TrueRange call; the EMA stays opaque
  unfold AverageTrueRange.nextBar AverageTrueRange.next
  try simp only [gen_helper]
  rw [truerange_one_price_of_laws s.true_range x v hsub hmax]

/-! ### FastStochastic, SlowStochastic: the guard is `highest == lowest` vs `min == max` -/

/-- needs only that `==` is symmetric (f64: always, NaN included — both sides are `false`) -/
theorem faststochastic_one_price_of_laws (s : FastStochastic F) (x v : F)
    (hsymm : ∀ a b : F, Scalar.beq a b = Scalar.beq b a) :
    s.nextBar (onePrice x v) = s.next x := by
  unfold FastStochastic.nextBar FastStochastic.next onePrice
  try simp only [gen_helper]
  cases h1 : Minimum.next s.minimum x with
  | none => cases h2 : Maximum.next s.maximum x <;> simp [h1, h2]
  | some r1 =>
    cases h2 : Maximum.next s.maximum x with
    | none => simp [h1, h2]
    | some r2 => simp [h1, h2, hsymm r2.2 r1.2]

theorem slowstochastic_one_price_of_laws (s : SlowStochastic F) (x v : F)
    (hsymm : ∀ a b : F, Scalar.beq a b = Scalar.beq b a) :
    s.nextBar (onePrice x v) = s.next x := by
  unfold SlowStochastic.nextBar SlowStochastic.next
  try simp only [gen_helper]
  rw [faststochastic_one_price_of_laws s.fast_stochastic x v hsymm]

/-! ### KeltnerChannel: the EMA is fed the typical price `(x + x + x) / 3.0` vs `x`; the ATR as above -/

/-- needs `htp`: `(x + x + x) / 3.0 = x` (f64: every finite `x` whose triple neither overflows nor
    is subnormal — `3 = 2 + 1`), plus the two TrueRange laws for the inner ATR -/
theorem keltnerchannel_one_price_of_laws (s : KeltnerChannel F) (x v : F)
    (htp : Scalar.div (Scalar.add (Scalar.add x x) x) (Scalar.lit 3 0) = x)
    (hsub : Scalar.sub x x = Scalar.lit 0 0)
    (hmax : ∀ pc, s.atr.true_range.prev_close = some pc →
      Scalar.max (Scalar.max (Scalar.lit 0 0) (Scalar.abs (Scalar.sub x pc)))
        (Scalar.abs (Scalar.sub x pc)) = Scalar.abs (Scalar.sub x pc)) :
    s.nextBar (onePrice x v) = s.next x := by
  -- the bar path runs the EMA (on the typical price) before the ATR, the scalar path after it:
  -- each component only sees its own input, so the order is not observable; both stay opaque
  have ht : Scalar.div (Scalar.add (Scalar.add (onePrice x v).close (onePrice x v).high)
      (onePrice x v).low) (Scalar.lit 3 0) = x := htp
  unfold KeltnerChannel.nextBar KeltnerChannel.next
  try simp only [gen_helper]
  rw [ht, atr_one_price_of_laws s.atr x v hsub hmax]
  -- (if both paths call the components in the same order the `rw` has already closed the goal)
  all_goals (cases h1 : ExponentialMovingAverage.next s.ema x <;>
    cases h2 : AverageTrueRange.next s.atr x <;> simp [h1, h2])

/-- the one-price theorems extend to every bar whose high, low and close are `x` (open and volume
    arbitrary) through field independence; stated once, for TrueRange -/
example (s : TrueRange F) (b : Bar F) (x : F) (hh : b.high = x) (hl : b.low = x) (hc : b.close = x)
    (hsub : Scalar.sub x x = Scalar.lit 0 0)
    (hmax : ∀ pc, s.prev_close = some pc →
      Scalar.max (Scalar.max (Scalar.lit 0 0) (Scalar.abs (Scalar.sub x pc)))
        (Scalar.abs (Scalar.sub x pc)) = Scalar.abs (Scalar.sub x pc)) :
    s.nextBar b = s.next x :=
  (truerange_bar_reads s b (onePrice x b.volume) hh hl hc).trans
    (truerange_one_price_of_laws s x _ hsub hmax)

/-! ## 4. DataItem is just one more implementor -/

/-- what the indicators see of a `DataItem`: the values its five trait getters return -/
def DataItem.toBar (d : DataItem F) : Bar F :=
  ⟨d.open_fn, d.high_fn, d.low_fn, d.close_fn, d.volume_fn⟩

/-- the getters of the generated `DataItem` return the stored fields, so the bar an indicator sees
    carries exactly the five stored numbers -/
theorem dataitem_getters (d : DataItem F) :
    (DataItem.toBar d).open_ = d.open_ ∧ (DataItem.toBar d).high = d.high ∧
    (DataItem.toBar d).low = d.low ∧ (DataItem.toBar d).close = d.close ∧
    (DataItem.toBar d).volume = d.volume :=
  ⟨DataItem.open_fn_eq d, DataItem.high_fn_eq d, DataItem.low_fn_eq d, DataItem.close_fn_eq d,
   DataItem.volume_fn_eq d⟩

omit [Scalar F] in
/-- any other implementor whose getters return the same five numbers is THE SAME bar, hence
    indistinguishable to every `nextBar` of the model (all 22 indicators, every state) -/
theorem dataitem_same_numbers (d : DataItem F) (b : Bar F)
    (ho : b.open_ = d.open_) (hh : b.high = d.high) (hl : b.low = d.low) (hc : b.close = d.close)
    (hv : b.volume = d.volume) : DataItem.toBar d = b := by
  cases b; cases d; simp_all [DataItem.toBar, DataItem.open_fn, DataItem.high_fn, DataItem.low_fn,
    DataItem.close_fn, DataItem.volume_fn]

/-- e.g.: an SMA fed a `DataItem` does what the scalar path does on its stored close -/
example (s : SimpleMovingAverage F) (d : DataItem F) :
    s.nextBar (DataItem.toBar d) = s.next d.close := sma_bar_is_close s _

/-! ### non-vacuity of the one-price laws

The hypotheses of section 3 are jointly satisfiable by a non-degenerate arithmetic: in the integers
(`lit m _ = m`, truncating division) they hold for EVERY `x` and every previous close, so there the
one-price equalities hold unconditionally. -/

section NonVacuity
@[instance_reducible] private def intScalar : Scalar Int where
  lit m _ := m
  ofNat n := n
  add := (· + ·)
  sub := (· - ·)
  mul := (· * ·)
  div := (· / ·)
  neg := (- ·)
  abs a := if a < 0 then -a else a
  sqrt a := a
  max a b := if a < b then b else a
  lt a b := decide (a < b)
  le a b := decide (a ≤ b)
  beq a b := decide (a = b)
  isSignPositive a := decide (0 ≤ a)
  posInf := 0
  negInf := 0

attribute [local instance] intScalar

example (s : KeltnerChannel Int) (x v : Int) : s.nextBar (onePrice x v) = s.next x :=
  keltnerchannel_one_price_of_laws s x v
    (by show (x + x + x) / 3 = x; omega)
    (by show x - x = 0; omega)
    (by intro pc _
        show (if (if (0:Int) < (if x - pc < 0 then -(x - pc) else x - pc)
                  then (if x - pc < 0 then -(x - pc) else x - pc) else 0)
                 < (if x - pc < 0 then -(x - pc) else x - pc)
              then (if x - pc < 0 then -(x - pc) else x - pc)
              else (if (0:Int) < (if x - pc < 0 then -(x - pc) else x - pc)
                    then (if x - pc < 0 then -(x - pc) else x - pc) else 0))
             = (if x - pc < 0 then -(x - pc) else x - pc)
        split <;> split <;> omega)

example (s : SlowStochastic Int) (x v : Int) : s.nextBar (onePrice x v) = s.next x :=
  slowstochastic_one_price_of_laws s x v
    (by intro a b; show decide (a = b) = decide (b = a); simp [eq_comm])
end NonVacuity

end TaRs.Props.C10
