/-
  C17 (continued) — the remaining windowed indicators forget.

  Same shape as `Props/C17`: after ANY history `p ++ h` the last output equals the last output
  of a fresh indicator fed only `h`, as soon as `h` covers the memory of the indicator:
    RateOfChange       n + 1 inputs (the new price and the one `n` steps earlier)
    EfficiencyRatio    n + 1 inputs (the window of `n` and the reference price before it)
    FastStochastic     n inputs (bar path: n bars)
    CCI                n bars (typical prices)
    MoneyFlowIndex     n + 1 bars (the last `n` signed flows are differences of `n + 1` bars)
  All are corollaries of the exact `stream` theorems (`Lemmas/Exact/*`) plus the look-back
  lemmas of the specs (`rocSpec_lookback`, `er_lookback`, `lastN_append`, `flows_suffix`).
  For FastStochastic the stream theorem is in membership form (least / greatest element of the
  window); the least element of a list is unique, so equality of the outputs follows
  (`faststoch_forgets_eq`).
-/
import TaRs.Props.C17
import TaRs.Lemmas.Exact.RateOfChange
import TaRs.Lemmas.Exact.EfficiencyRatio
import TaRs.Lemmas.Exact.FastStochastic
import TaRs.Lemmas.Exact.CommodityChannelIndex
import TaRs.Lemmas.Exact.MoneyFlowIndex
set_option linter.unusedSectionVars false
namespace TaRs.Props.C17
open TaRs TaRs.Gen TaRs.Rs TaRs.Spec

variable {K : Type} [Field K] [LinearOrder K] [IsStrictOrderedRing K] [HasSqrt K]

private theorem prefixes_getLast_b {α β : Type} (f : List α → β) (xs : List α) (hne : xs ≠ []) :
    ((prefixes xs).map f).getLast? = some (f xs) := by
  have hl : 0 < xs.length := List.length_pos_iff.mpr hne
  simp only [prefixes, List.map_map]
  rw [List.getLast?_eq_getElem?]
  simp only [List.length_map, List.length_range]
  rw [List.getElem?_map, List.getElem?_range (by omega)]
  simp only [Option.map_some, Function.comp]
  congr 2
  rw [show xs.length - 1 + 1 = xs.length by omega, List.take_length]

private theorem exists_snoc {α : Type} (h : List α) (hl : 0 < h.length) : ∃ h' x, h = h' ++ [x] := by
  rcases List.eq_nil_or_concat h with e | ⟨h', x, e⟩
  · subst e; simp at hl
  · exact ⟨h', x, by simpa using e⟩

/-! ## RateOfChange: memory n + 1 -/

/-- ROC after `p ++ h` = ROC of a fresh instance fed only `h`, once `h` has `n + 1` prices -/
theorem roc_forgets (n : Nat) (hn : 0 < n) (h8 : n * 8 ≤ isizeMax) (p h : List K)
    (hnz : ∀ x ∈ p ++ h, x ≠ 0) (hl : n + 1 ≤ h.length) :
    lastOut (runOut RateOfChange.next (RateOfChange.fresh n : RateOfChange (X K)) ((p ++ h).map X.fin))
      = lastOut (runOut RateOfChange.next (RateOfChange.fresh n : RateOfChange (X K)) (h.map X.fin)) := by
  obtain ⟨s1, e1⟩ := RateOfChange.stream (K := K) n hn h8 (p ++ h) hnz
  obtain ⟨s2, e2⟩ := RateOfChange.stream (K := K) n hn h8 h (fun x hx => hnz x (by simp [hx]))
  have hne : h ≠ [] := by intro e; simp [e] at hl
  have hne2 : p ++ h ≠ [] := by simp [hne]
  rw [e1, e2]
  simp only [lastOut, Option.bind_some]
  rw [prefixes_getLast_b _ _ hne2, prefixes_getLast_b _ _ hne]
  obtain ⟨h', x, rfl⟩ := exists_snoc h (by omega)
  rw [RateOfChange.rocSpec_lookback n p h' x (by simp at hl; omega)]

/-! ## EfficiencyRatio: memory n + 1 -/

theorem erSpec_lookback (n : Nat) (p h : List K) (x : K) (hl : n ≤ h.length) :
    EfficiencyRatio.erSpec n (p ++ (h ++ [x])) = EfficiencyRatio.erSpec n (h ++ [x]) := by
  rw [← List.append_assoc, EfficiencyRatio.erSpec_snoc, EfficiencyRatio.erSpec_snoc,
    EfficiencyRatio.er_lookback n p h x hl]

/-- ER after `p ++ h` = ER of a fresh instance fed only `h`, once `h` has `n + 1` prices (then
    the initial buffer content 0, which the very first output reads, is out of reach too) -/
theorem er_forgets (n : Nat) (hn : 0 < n) (h8 : n * 8 ≤ isizeMax) (p h : List K)
    (hl : n + 1 ≤ h.length) :
    lastOut (runOut EfficiencyRatio.next (EfficiencyRatio.fresh n : EfficiencyRatio (X K)) ((p ++ h).map X.fin))
      = lastOut (runOut EfficiencyRatio.next (EfficiencyRatio.fresh n : EfficiencyRatio (X K)) (h.map X.fin)) := by
  obtain ⟨s1, e1⟩ := EfficiencyRatio.stream (K := K) n hn h8 (p ++ h)
  obtain ⟨s2, e2⟩ := EfficiencyRatio.stream (K := K) n hn h8 h
  have hne : h ≠ [] := by intro e; simp [e] at hl
  have hne2 : p ++ h ≠ [] := by simp [hne]
  rw [e1, e2]
  simp only [lastOut, Option.bind_some]
  rw [prefixes_getLast_b _ _ hne2, prefixes_getLast_b _ _ hne]
  obtain ⟨h', x, rfl⟩ := exists_snoc h (by omega)
  rw [erSpec_lookback n p h' x (by simp at hl; omega)]

/-! ## FastStochastic: memory n -/

/-- scalar path, membership form: after any history the last output is `pct x lo hi`
    (`50` if `lo = hi`, else `(x − lo)/(hi − lo)·100`) with `x` the last input and `lo` / `hi`
    the least / greatest of the last `n` inputs of the common suffix — `p` does not occur -/
theorem faststoch_forgets (n : Nat) (hn : 0 < n) (h8 : n * 8 ≤ isizeMax) (p h : List K) (hl : n ≤ h.length) :
    ∃ s' outs x lo hi,
      runOut FastStochastic.next (FastStochastic.fresh n : FastStochastic (X K)) ((p ++ h).map X.fin)
        = some (s', outs) ∧
      outs.getLast? = some (X.fin (FastStochastic.pct x lo hi)) ∧ h.getLast? = some x ∧
      (lo ∈ lastN n h ∧ ∀ y ∈ lastN n h, lo ≤ y) ∧ (hi ∈ lastN n h ∧ ∀ y ∈ lastN n h, y ≤ hi) := by
  obtain ⟨s', outs, e, hlen, hall⟩ := FastStochastic.stream (K := K) n hn h8 (p ++ h)
  have hpos : 0 < (p ++ h).length := by simp; omega
  obtain ⟨x, lo, hi, hx, hlo, hhi, ho⟩ := hall ((p ++ h).length - 1) (by omega)
  rw [show (p ++ h).length - 1 + 1 = (p ++ h).length by omega, List.take_length,
    lastN_append n p h hl] at hlo hhi
  refine ⟨s', outs, x, lo, hi, e, ?_, ?_, hlo, hhi⟩
  · rw [List.getLast?_eq_getElem?, hlen, ho, FastStochastic.ite_fin_pct]
  · have e1 : (p ++ h)[(p ++ h).length - 1]? = h[h.length - 1]? := by
      rw [List.getElem?_append_right (by simp; omega)]
      congr 1
      simp; omega
    rw [List.getLast?_eq_getElem?, ← e1]
    exact hx

/-- … hence (the least / greatest element of a list is unique) the same `lastOut` equality as for
    the accumulating indicators -/
theorem faststoch_forgets_eq (n : Nat) (hn : 0 < n) (h8 : n * 8 ≤ isizeMax) (p h : List K) (hl : n ≤ h.length) :
    lastOut (runOut FastStochastic.next (FastStochastic.fresh n : FastStochastic (X K)) ((p ++ h).map X.fin))
      = lastOut (runOut FastStochastic.next (FastStochastic.fresh n : FastStochastic (X K)) (h.map X.fin)) := by
  obtain ⟨s1, o1, x1, lo1, hi1, e1, g1, hx1, ⟨a1, a2⟩, ⟨a3, a4⟩⟩ := faststoch_forgets (K := K) n hn h8 p h hl
  obtain ⟨s2, o2, x2, lo2, hi2, e2, g2, hx2, ⟨b1, b2⟩, ⟨b3, b4⟩⟩ := faststoch_forgets (K := K) n hn h8 [] h hl
  rw [List.nil_append] at e2
  rw [e1, e2]
  simp only [lastOut, Option.bind_some]
  rw [g1, g2]
  have ex : x1 = x2 := Option.some.inj (hx1.symm.trans hx2)
  have elo : lo1 = lo2 := le_antisymm (a2 _ b1) (b2 _ a1)
  have ehi : hi1 = hi2 := le_antisymm (b4 _ a3) (a4 _ b3)
  rw [ex, elo, ehi]

/-- bar path, membership form: `lo` the least of the last `n` lows, `hi` the greatest of the last
    `n` highs, `b` the last bar of the common suffix -/
theorem faststoch_bar_forgets (n : Nat) (hn : 0 < n) (h8 : n * 8 ≤ isizeMax) (p h : List (Bar K))
    (hl : n ≤ h.length) :
    ∃ s' outs b lo hi,
      runOut FastStochastic.nextBar (FastStochastic.fresh n : FastStochastic (X K))
        ((p ++ h).map FastStochastic.finBar) = some (s', outs) ∧
      outs.getLast? = some (X.fin (FastStochastic.pct b.close lo hi)) ∧ h.getLast? = some b ∧
      (lo ∈ lastN n (h.map Bar.low) ∧ ∀ y ∈ lastN n (h.map Bar.low), lo ≤ y) ∧
      (hi ∈ lastN n (h.map Bar.high) ∧ ∀ y ∈ lastN n (h.map Bar.high), y ≤ hi) := by
  obtain ⟨s', outs, e, hlen, hall⟩ := FastStochastic.stream_bar (K := K) n hn h8 (p ++ h)
  have hpos : 0 < (p ++ h).length := by simp; omega
  obtain ⟨b, lo, hi, hx, hlo, hhi, ho⟩ := hall ((p ++ h).length - 1) (by omega)
  rw [show (p ++ h).length - 1 + 1 = (p ++ h).length by omega, List.take_length, List.map_append,
    lastN_append n _ _ (by simpa using hl)] at hlo hhi
  refine ⟨s', outs, b, lo, hi, e, ?_, ?_, hlo, hhi⟩
  · rw [List.getLast?_eq_getElem?, hlen, ho, FastStochastic.ite_fin_pct]
  · have e1 : (p ++ h)[(p ++ h).length - 1]? = h[h.length - 1]? := by
      rw [List.getElem?_append_right (by simp; omega)]
      congr 1
      simp; omega
    rw [List.getLast?_eq_getElem?, ← e1]
    exact hx

/-! ## CommodityChannelIndex: memory n bars -/

theorem cci_forgets (n : Nat) (hn : 0 < n) (h8 : n * 8 ≤ isizeMax) (p h : List (Bar K)) (hl : n ≤ h.length) :
    lastOut (runOut CommodityChannelIndex.nextBar (CommodityChannelIndex.fresh n : CommodityChannelIndex (X K))
        ((p ++ h).map CommodityChannelIndex.finBar))
      = lastOut (runOut CommodityChannelIndex.nextBar (CommodityChannelIndex.fresh n : CommodityChannelIndex (X K))
        (h.map CommodityChannelIndex.finBar)) := by
  obtain ⟨s1, e1⟩ := CommodityChannelIndex.stream (K := K) n hn h8 (p ++ h)
  obtain ⟨s2, e2⟩ := CommodityChannelIndex.stream (K := K) n hn h8 h
  have hne0 : h ≠ [] := by intro e; simp [e] at hl; omega
  have hne : h.map CommodityChannelIndex.tpBar ≠ [] := by simpa using hne0
  have hne2 : p.map CommodityChannelIndex.tpBar ++ h.map CommodityChannelIndex.tpBar ≠ [] := by simp [hne0]
  rw [e1, e2]
  simp only [lastOut, Option.bind_some]
  rw [List.map_append, prefixes_getLast_b _ _ hne2, prefixes_getLast_b _ _ hne,
    List.getLast?_append_of_ne_nil _ hne, lastN_append n _ _ (by simpa using hl)]

/-! ## MoneyFlowIndex: memory n + 1 bars -/

/-- the signed flows of a run continue, after any earlier bars, with the flows of the suffix -/
theorem flowsFrom_suffix (q : K) (p : List (Bar K)) (b0 : Bar K) (bs : List (Bar K)) :
    ∃ pre, MoneyFlowIndex.flowsFrom q (p ++ b0 :: bs)
      = pre ++ MoneyFlowIndex.flowsFrom (CommodityChannelIndex.tpBar b0) bs := by
  induction p generalizing q with
  | nil => exact ⟨[MoneyFlowIndex.flowK q (CommodityChannelIndex.tpBar b0) b0.volume], rfl⟩
  | cons a t ih =>
    obtain ⟨pre, e⟩ := ih (CommodityChannelIndex.tpBar a)
    exact ⟨MoneyFlowIndex.flowK q (CommodityChannelIndex.tpBar a) a.volume :: pre, by
      simp only [List.cons_append, MoneyFlowIndex.flowsFrom, e]⟩

/-- `flows (p ++ h)` ends with `flows h`: the flows of a suffix do not depend on earlier bars -/
theorem flows_suffix (p h : List (Bar K)) (hne : h ≠ []) :
    ∃ pre, MoneyFlowIndex.flows (p ++ h) = pre ++ MoneyFlowIndex.flows h := by
  cases h with
  | nil => exact absurd rfl hne
  | cons b0 bs =>
    cases p with
    | nil => exact ⟨[], rfl⟩
    | cons a t =>
      obtain ⟨pre, e⟩ := flowsFrom_suffix (CommodityChannelIndex.tpBar a) t b0 bs
      exact ⟨pre, by simp only [List.cons_append, MoneyFlowIndex.flows, e]⟩

theorem flows_length (h : List (Bar K)) : (MoneyFlowIndex.flows h).length = h.length - 1 := by
  cases h with
  | nil => rfl
  | cons b bs => simp [MoneyFlowIndex.flows, MoneyFlowIndex.flowsFrom_length]

/-- spec level: the window of the last `n` signed flows only depends on the last `n + 1` bars -/
theorem flows_window_suffix (n : Nat) (p h : List (Bar K)) (hl : n + 1 ≤ h.length) :
    lastN n (MoneyFlowIndex.flows (p ++ h)) = lastN n (MoneyFlowIndex.flows h) := by
  have hne : h ≠ [] := by intro e; simp [e] at hl
  obtain ⟨pre, e⟩ := flows_suffix p h hne
  rw [e, lastN_append n _ _ (by rw [flows_length]; omega)]

/-- MFI after `p ++ h` = MFI of a fresh instance fed only `h`, once `h` has `n + 1` bars
    (non-negative raw flows `tp · volume`, the hypothesis of the exact stream theorem) -/
theorem mfi_forgets (n : Nat) (hn : 0 < n) (h8 : n * 8 ≤ isizeMax) (p h : List (Bar K))
    (hv : ∀ b ∈ p ++ h, 0 ≤ CommodityChannelIndex.tpBar b * b.volume) (hl : n + 1 ≤ h.length) :
    lastOut (runOut MoneyFlowIndex.nextBar (MoneyFlowIndex.fresh n : MoneyFlowIndex (X K))
        ((p ++ h).map CommodityChannelIndex.finBar))
      = lastOut (runOut MoneyFlowIndex.nextBar (MoneyFlowIndex.fresh n : MoneyFlowIndex (X K))
        (h.map CommodityChannelIndex.finBar)) := by
  -- last output of a run over at least two bars, in terms of the flows
  have key : ∀ l : List (Bar K), (∀ b ∈ l, 0 ≤ CommodityChannelIndex.tpBar b * b.volume) → 2 ≤ l.length →
      lastOut (runOut MoneyFlowIndex.nextBar (MoneyFlowIndex.fresh n : MoneyFlowIndex (X K))
        (l.map CommodityChannelIndex.finBar)) = some (MoneyFlowIndex.mfiW (lastN n (MoneyFlowIndex.flows l))) := by
    intro l hvl hll
    cases l with
    | nil => simp at hll
    | cons b0 bs =>
      obtain ⟨s1, e1⟩ := MoneyFlowIndex.stream (K := K) n hn h8 b0 bs (fun b hb => hvl b (by simp [hb]))
      have hfl : MoneyFlowIndex.flows (b0 :: bs) ≠ [] := by
        intro e
        have h3 := congrArg List.length e
        rw [flows_length] at h3
        simp only [List.length_cons, List.length_nil] at h3 hll
        omega
      rw [e1]
      simp only [lastOut, Option.bind_some]
      have hne' : (prefixes (MoneyFlowIndex.flows (b0 :: bs))).map
          (fun q => MoneyFlowIndex.mfiW (lastN n q)) ≠ [] := by
        intro e
        have := congrArg List.length e
        rw [List.length_map, prefixes_length] at this
        exact hfl (List.length_eq_zero_iff.mp this)
      rw [List.getLast?_cons_of_ne_nil hne', prefixes_getLast_b _ _ hfl]
  have h2 : 2 ≤ h.length := by omega
  rw [key (p ++ h) hv (by simp; omega), key h (fun b hb => hv b (by simp [hb])) h2,
    flows_window_suffix n p h hl]

/-- non-vacuity at ℚ: ROC(2) with a 10^6 spike in the prefix; both runs end in 100·(6 − 1)/1 -/
example :
    lastOut (runOut RateOfChange.next (RateOfChange.fresh 2 : RateOfChange (X Rat)) ([1000000, 7, 1, 3, 6].map X.fin))
      = some (X.fin 500) := by decide +kernel

example :
    lastOut (runOut RateOfChange.next (RateOfChange.fresh 2 : RateOfChange (X Rat)) ([1, 3, 6].map X.fin))
      = some (X.fin 500) := by decide +kernel

end TaRs.Props.C17
