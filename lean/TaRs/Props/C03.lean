/-
  C03 — oscillators equal their documented formulas wherever these are well-conditioned.

  Aggregator: the theorems live in
    * Props/C03a.lean          — L0 whole-stream formulas (RSI, PPO, OBV, SlowStochastic): the
                                  oscillator IS its documented recursion over the whole history,
                                  for any scalar semantics (hence for f64);
    * Lemmas/Exact/*.lean      — L2 exact window/lookback theorems (FastStochastic, RateOfChange,
                                  EfficiencyRatio, CommodityChannelIndex, MoneyFlowIndex).
  This file restates the per-step wiring facts that hold for every state and scalar (L0); the
  stream-level modules are imported as they are completed (see MANIFEST/checkcfg: modules).
-/
import TaRs.Lemmas.FastStochastic
import TaRs.Lemmas.CommodityChannelIndex
import TaRs.Lemmas.RelativeStrengthIndex
import TaRs.Lemmas.Core.PercentagePriceOscillator
import TaRs.Lemmas.Core.OnBalanceVolume
namespace TaRs.Props.C03
open TaRs TaRs.Gen

variable {F : Type} [Scalar F]

/-- CCI consumes the TYPICAL PRICE in both of its parts (the defect repaired by the fix: commit:
    the deviation term used to be fed the bar's close) and combines them as documented -/
theorem cci_step_formula (s : CommodityChannelIndex F) (b : Bar F)
    (sma' : SimpleMovingAverage F) (a : F) (mad' : MeanAbsoluteDeviation F) (d : F)
    (h1 : s.sma.next (CommodityChannelIndex.tp b) = some (sma', a))
    (h2 : s.mad.next (CommodityChannelIndex.tp b) = some (mad', d)) :
    s.nextBar b = some ({ sma := sma', mad := mad' },
      if Scalar.beq d (Scalar.lit 0 0) then Scalar.lit 0 0
      else Scalar.div (Scalar.sub (CommodityChannelIndex.tp b) a) (Scalar.mul d (Scalar.lit 15 3))) :=
  CommodityChannelIndex.nextBar_wiring s b sma' a mad' d h1 h2

/-- typical price is (close + high + low) / 3 -/
theorem cci_tp (b : Bar F) :
    CommodityChannelIndex.tp b = Scalar.div (Scalar.add (Scalar.add b.close b.high) b.low) (Scalar.lit 3 0) := rfl

/-- FastStochastic: 100·(x − low_n)/(high_n − low_n), 50 when high_n = low_n, with low_n / high_n
    the outputs of its Minimum / Maximum on the same input -/
theorem faststochastic_step_formula (s : FastStochastic F) (x : F) (mn' : Minimum F) (lo : F) (mx' : Maximum F) (hi : F)
    (h1 : s.minimum.next x = some (mn', lo)) (h2 : s.maximum.next x = some (mx', hi)) :
    s.next x = some ({ s with minimum := mn', maximum := mx' },
      if Scalar.beq lo hi then Scalar.lit 50 0
      else Scalar.mul (Scalar.div (Scalar.sub x lo) (Scalar.sub hi lo)) (Scalar.lit 100 0)) :=
  FastStochastic.next_wiring s x mn' lo mx' hi h1 h2

/-- RSI: both averages are seeded 0.1 on the first input, so the first output is
    100·0.1/(0.1+0.1) (= 50) whatever the first price is -/
theorem rsi_first_output (p : Nat) (x : F)
    (hne : Scalar.beq (Scalar.add (Scalar.lit 1 1) (Scalar.lit 1 1)) (Scalar.lit 0 0 : F) = false) :
    ∃ r, (RelativeStrengthIndex.fresh p : RelativeStrengthIndex F).next x = some r ∧
      r.2 = Scalar.div (Scalar.mul (Scalar.lit 100 0) (Scalar.lit 1 1)) (Scalar.add (Scalar.lit 1 1) (Scalar.lit 1 1)) :=
  RelativeStrengthIndex.next_first_of_ne _ x rfl rfl rfl hne

end TaRs.Props.C03
