/-
  C03 (part a) — the oscillators compute their documented formulas, over WHOLE streams.

  "RelativeStrengthIndex(n) is 100·U/(U+D) (50 when U+D == 0) where U, D are the EMA(n) of the
   gains / losses of consecutive inputs (both seeded with 0.1 on the first input);
   PercentagePriceOscillator is (EMA_fast − EMA_slow)/EMA_slow·100 with signal = EMA(PPO) and
   histogram = PPO − signal; OnBalanceVolume is the running total of ±volume by the sign of the
   close-to-close change; SlowStochastic is the EMA of FastStochastic."

  Same shape as `TaRs/Props/C02.lean`: the SPEC (section `Spec`) is a hand-written recursive
  function over the input history; every theorem says that feeding ANY input list to the state
  `new` builds never panics and produces exactly the spec's output list.  Everything is stated
  for an arbitrary `[Scalar F]` with NO laws, the spec uses the code's operations in the code's
  order, so the statements hold verbatim for the f64 semantics (NaN, ±∞, −0 included).
-/
import TaRs.Props.C02
import TaRs.Lemmas.RelativeStrengthIndex
import TaRs.Lemmas.PercentagePriceOscillator
import TaRs.Lemmas.OnBalanceVolume
import TaRs.Lemmas.FastStochastic
import TaRs.Lemmas.SlowStochastic

namespace TaRs.Props.C03
open TaRs TaRs.Gen TaRs.Rs
open TaRs.Props.C02 (alpha emaSeq emaFrom emaOuts emaOuts_fresh emaSeq_length runOut_step)
open TaRs.Gen.RelativeStrengthIndex (rsiVal)
open TaRs.Gen.PercentagePriceOscillator (ppoVal)

variable {F : Type} [Scalar F]

/-! ## The specification -/
section Spec

/-- gains continued after the input `p`: `x − p` when `p < x`, else `0`
    (so `0` for equal inputs and for every comparison involving NaN) -/
def gainsFrom (p : F) : List F → List F
  | [] => []
  | x :: xs => (if Scalar.lt p x then Scalar.sub x p else Scalar.lit 0 0) :: gainsFrom x xs

/-- losses continued after the input `p`: `0` when `p < x`, else `p − x`
    (so `p − x` — which is `0`, resp. NaN — for equal inputs, resp. NaN comparisons) -/
def lossesFrom (p : F) : List F → List F
  | [] => []
  | x :: xs => (if Scalar.lt p x then Scalar.lit 0 0 else Scalar.sub p x) :: lossesFrom x xs

/-- the values fed to the "up" EMA over a whole history: `0.1` first -/
def gains : List F → List F
  | [] => []
  | x :: xs => Scalar.lit 1 1 :: gainsFrom x xs

/-- the values fed to the "down" EMA over a whole history: `0.1` first -/
def losses : List F → List F
  | [] => []
  | x :: xs => Scalar.lit 1 1 :: lossesFrom x xs

/-- RSI(n) of a whole history: `rsiVal` (= `50` if `U + D == 0` else `100·U / (U + D)`) of the
    EMA(n) of the gains and the EMA(n) of the losses -/
def rsiSeq (n : Nat) (xs : List F) : List F :=
  List.zipWith rsiVal (emaSeq (alpha n) (gains xs)) (emaSeq (alpha n) (losses xs))

/-- OBV continued from running total `v` and previous close `pc` (the code's order of the two
    tests: first `pc < close`, then `close < pc`) -/
def obvFrom (v pc : F) : List (Bar F) → List F
  | [] => []
  | b :: bs =>
    let v' := if Scalar.lt pc b.close then Scalar.add v b.volume
              else if Scalar.lt b.close pc then Scalar.sub v b.volume
              else v
    v' :: obvFrom v' b.close bs

/-- OBV of a whole history: running total and previous close both start at `0.0` -/
def obvSeq (bs : List (Bar F)) : List F := obvFrom (Scalar.lit 0 0) (Scalar.lit 0 0) bs

theorem gainsFrom_length (p : F) (xs : List F) : (gainsFrom p xs).length = xs.length := by
  induction xs generalizing p with
  | nil => rfl
  | cons x xs ih => simp [gainsFrom, ih]

theorem lossesFrom_length (p : F) (xs : List F) : (lossesFrom p xs).length = xs.length := by
  induction xs generalizing p with
  | nil => rfl
  | cons x xs ih => simp [lossesFrom, ih]

theorem gains_length (xs : List F) : (gains xs).length = xs.length := by
  cases xs <;> simp [gains, gainsFrom_length]

theorem losses_length (xs : List F) : (losses xs).length = xs.length := by
  cases xs <;> simp [losses, lossesFrom_length]

/-- one RSI value per input (the `zipWith` never truncates) -/
theorem rsiSeq_length (n : Nat) (xs : List F) : (rsiSeq n xs).length = xs.length := by
  simp [rsiSeq, emaSeq_length, gains_length, losses_length]

theorem obvFrom_length (v pc : F) (bs : List (Bar F)) : (obvFrom v pc bs).length = bs.length := by
  induction bs generalizing v pc with
  | nil => rfl
  | cons b bs ih => simp [obvFrom, ih]

theorem obvSeq_length (bs : List (Bar F)) : (obvSeq bs).length = bs.length := obvFrom_length _ _ bs

end Spec

/-! ## Auxiliary: outputs from an ARBITRARY state -/
section Aux

/-- the values RSI feeds to its up-EMA from a state with flag `nw` and previous input `p` -/
def gainOuts (nw : Bool) (p : F) : List F → List F
  | [] => []
  | x :: xs =>
    (if nw then Scalar.lit 1 1
     else if Scalar.lt p x then Scalar.sub x p else Scalar.lit 0 0) :: gainOuts false x xs

/-- the values RSI feeds to its down-EMA from a state with flag `nw` and previous input `p` -/
def lossOuts (nw : Bool) (p : F) : List F → List F
  | [] => []
  | x :: xs =>
    (if nw then Scalar.lit 1 1
     else if Scalar.lt p x then Scalar.lit 0 0 else Scalar.sub p x) :: lossOuts false x xs

theorem gainOuts_old (p : F) (xs : List F) : gainOuts false p xs = gainsFrom p xs := by
  induction xs generalizing p with
  | nil => rfl
  | cons x xs ih => simp [gainOuts, gainsFrom, ih]

theorem lossOuts_old (p : F) (xs : List F) : lossOuts false p xs = lossesFrom p xs := by
  induction xs generalizing p with
  | nil => rfl
  | cons x xs ih => simp [lossOuts, lossesFrom, ih]

theorem gainOuts_new (p : F) (xs : List F) : gainOuts true p xs = gains xs := by
  cases xs with
  | nil => rfl
  | cons x xs => simp [gainOuts, gains, gainOuts_old]

theorem lossOuts_new (p : F) (xs : List F) : lossOuts true p xs = losses xs := by
  cases xs with
  | nil => rfl
  | cons x xs => simp [lossOuts, losses, lossOuts_old]

/-- RSI from an arbitrary state -/
theorem rsi_run (s : RelativeStrengthIndex F) (xs : List F) :
    ∃ s', runOut RelativeStrengthIndex.next s xs =
      some (s', List.zipWith rsiVal
        (emaOuts s.up_ema_indicator (gainOuts s.is_new s.prev_val xs))
        (emaOuts s.down_ema_indicator (lossOuts s.is_new s.prev_val xs))) := by
  induction xs generalizing s with
  | nil => exact ⟨s, rfl⟩
  | cons x xs ih => exact runOut_step (RelativeStrengthIndex.next_eq s x) (ih _)

/-- the PPO output triple built from the line value and the signal value -/
def ppoOut (p g : F) : PercentagePriceOscillatorOutput F :=
  { ppo := p, signal := g, histogram := Scalar.sub p g }

/-- PPO from an arbitrary state -/
theorem ppo_run (s : PercentagePriceOscillator F) (xs : List F) :
    ∃ s', runOut PercentagePriceOscillator.next s xs =
      some (s', List.zipWith ppoOut
        (List.zipWith ppoVal (emaOuts s.fast_ema xs) (emaOuts s.slow_ema xs))
        (emaOuts s.signal_ema
          (List.zipWith ppoVal (emaOuts s.fast_ema xs) (emaOuts s.slow_ema xs)))) := by
  induction xs generalizing s with
  | nil => exact ⟨s, rfl⟩
  | cons x xs ih => exact runOut_step (PercentagePriceOscillator.next_eq s x) (ih _)

/-- OBV from an arbitrary state -/
theorem obv_run (s : OnBalanceVolume F) (bs : List (Bar F)) :
    ∃ s', runOut OnBalanceVolume.nextBar s bs = some (s', obvFrom s.obv s.prev_close bs) := by
  induction bs generalizing s with
  | nil => exact ⟨s, rfl⟩
  | cons b bs ih => exact runOut_step (OnBalanceVolume.nextBar_eq s b) (ih _)

/-- SlowStochastic from an arbitrary state, relative to ANY successful run of its
    FastStochastic component on the same inputs: the outputs are the EMA of the `%K` values -/
theorem slowstoch_run_of (s : SlowStochastic F) (xs : List F) (sf : FastStochastic F) (ks : List F)
    (h : runOut FastStochastic.next s.fast_stochastic xs = some (sf, ks)) :
    ∃ s', runOut SlowStochastic.next s xs = some (s', emaOuts s.ema ks) := by
  induction xs generalizing s ks with
  | nil => cases h; exact ⟨s, rfl⟩
  | cons x xs ih =>
    cases h1 : s.fast_stochastic.next x with
    | none => simp [runOut, h1] at h
    | some r =>
      obtain ⟨fs', k⟩ := r
      rw [runOut_cons _ _ _ _ _ _ h1] at h
      cases h2 : runOut FastStochastic.next fs' xs with
      | none => simp [h2] at h
      | some r2 =>
        obtain ⟨sf2, ks2⟩ := r2
        rw [h2] at h
        cases h
        exact runOut_step (SlowStochastic.next_wiring s x fs' k h1)
          (ih { fast_stochastic := fs', ema := ExponentialMovingAverage.step s.ema k } ks2 h2)

/-- the same on the bar path (`high` → maximum, `low` → minimum, `close` in the numerator) -/
theorem slowstoch_bar_run_of (s : SlowStochastic F) (bs : List (Bar F)) (sf : FastStochastic F)
    (ks : List F) (h : runOut FastStochastic.nextBar s.fast_stochastic bs = some (sf, ks)) :
    ∃ s', runOut SlowStochastic.nextBar s bs = some (s', emaOuts s.ema ks) := by
  induction bs generalizing s ks with
  | nil => cases h; exact ⟨s, rfl⟩
  | cons b bs ih =>
    cases h1 : s.fast_stochastic.nextBar b with
    | none => simp [runOut, h1] at h
    | some r =>
      obtain ⟨fs', k⟩ := r
      rw [runOut_cons _ _ _ _ _ _ h1] at h
      cases h2 : runOut FastStochastic.nextBar fs' bs with
      | none => simp [h2] at h
      | some r2 =>
        obtain ⟨sf2, ks2⟩ := r2
        rw [h2] at h
        cases h
        exact runOut_step (SlowStochastic.nextBar_wiring s b fs' k h1)
          (ih { fast_stochastic := fs', ema := ExponentialMovingAverage.step s.ema k } ks2 h2)

/-- a well-formed FastStochastic never panics on a stream -/
theorem faststoch_total (s : FastStochastic F) (h : FastStochastic.WF s) (xs : List F) :
    ∃ sf ks, runOut FastStochastic.next s xs = some (sf, ks) ∧ ks.length = xs.length := by
  obtain ⟨⟨sf, ks⟩, hr, _, hl⟩ := runOut_invariant FastStochastic.next FastStochastic.WF
    (fun s x hs => by
      obtain ⟨r, hr, hw, _⟩ := FastStochastic.next_total s x hs
      exact ⟨r, hr, hw⟩) s h xs
  exact ⟨sf, ks, hr, hl⟩

theorem faststoch_bar_total (s : FastStochastic F) (h : FastStochastic.WF s) (bs : List (Bar F)) :
    ∃ sf ks, runOut FastStochastic.nextBar s bs = some (sf, ks) ∧ ks.length = bs.length := by
  obtain ⟨⟨sf, ks⟩, hr, _, hl⟩ := runOut_invariant FastStochastic.nextBar FastStochastic.WF
    (fun s x hs => by
      obtain ⟨r, hr, hw, _⟩ := FastStochastic.nextBar_total s x hs
      exact ⟨r, hr, hw⟩) s h bs
  exact ⟨sf, ks, hr, hl⟩

end Aux

/-! ## The property theorems -/

/-- RSI(n) over any stream: `rsiVal (EMA_n gains) (EMA_n losses)`, first gain = first loss = 0.1. -/
theorem rsi_stream (n : Nat) (xs : List F) :
    ∃ s', runOut RelativeStrengthIndex.next (RelativeStrengthIndex.fresh n) xs =
      some (s', rsiSeq n xs) := by
  obtain ⟨s', h⟩ := rsi_run (RelativeStrengthIndex.fresh n) xs
  refine ⟨s', ?_⟩
  rw [h]
  simp only [RelativeStrengthIndex.fresh, emaOuts_fresh, gainOuts_new, lossOuts_new]
  rfl

/-- the first output does not depend on the first input: it is `rsiVal 0.1 0.1` computed in `F` -/
theorem rsi_first (n : Nat) (x : F) (xs : List F) :
    ∃ s' ys, runOut RelativeStrengthIndex.next (RelativeStrengthIndex.fresh n) (x :: xs) =
      some (s', rsiVal (Scalar.lit 1 1) (Scalar.lit 1 1) :: ys) := by
  obtain ⟨s', h⟩ := rsi_stream (F := F) n (x :: xs)
  exact ⟨s', _, h⟩

/-- … which is `50` at every scalar where `100·0.1 / (0.1 + 0.1)` evaluates to `50`
    (if `0.1 + 0.1 == 0` the guard returns `50` directly, so no hypothesis on the guard is needed) -/
theorem rsi_first_50 (n : Nat) (x : F) (xs : List F)
    (h50 : Scalar.div (Scalar.mul (Scalar.lit 100 0) (Scalar.lit 1 1))
             (Scalar.add (Scalar.lit 1 1) (Scalar.lit 1 1)) = (Scalar.lit 50 0 : F)) :
    ∃ s' ys, runOut RelativeStrengthIndex.next (RelativeStrengthIndex.fresh n) (x :: xs) =
      some (s', Scalar.lit 50 0 :: ys) := by
  obtain ⟨s', ys, h⟩ := rsi_first (F := F) n x xs
  refine ⟨s', ys, ?_⟩
  rw [h]
  unfold rsiVal
  split
  · rfl
  · rw [h50]

/-- the first output is `50` wherever `0.1 + 0.1 ≠ 0` and `100·0.1 / 0.2 = 50` (f64, any exact
    field); here the value is reached through the division branch -/
theorem rsi_first_exact (n : Nat) (x : F) (xs : List F)
    (hne : Scalar.beq (Scalar.add (Scalar.lit 1 1) (Scalar.lit 1 1)) (Scalar.lit 0 0 : F) = false)
    (h50 : Scalar.div (Scalar.mul (Scalar.lit 100 0) (Scalar.lit 1 1))
             (Scalar.add (Scalar.lit 1 1) (Scalar.lit 1 1)) = (Scalar.lit 50 0 : F)) :
    ∃ s' ys, runOut RelativeStrengthIndex.next (RelativeStrengthIndex.fresh n) (x :: xs) =
      some (s', Scalar.lit 50 0 :: ys) ∧
      rsiVal (Scalar.lit 1 1) (Scalar.lit 1 1 : F) =
        Scalar.div (Scalar.mul (Scalar.lit 100 0) (Scalar.lit 1 1))
          (Scalar.add (Scalar.lit 1 1) (Scalar.lit 1 1)) := by
  obtain ⟨s', ys, h⟩ := rsi_first_50 (F := F) n x xs h50
  exact ⟨s', ys, h, RelativeStrengthIndex.rsiVal_nonzero _ _ hne⟩

/-- PPO(fp, sp, gp): line = (EMA_fp − EMA_sp) / EMA_sp · 100, signal = EMA_gp(line),
    histogram = line − signal. -/
theorem ppo_stream (fp sp gp : Nat) (xs : List F) :
    ∃ s', runOut PercentagePriceOscillator.next (PercentagePriceOscillator.fresh fp sp gp) xs =
      some (s',
        let line := List.zipWith ppoVal (emaSeq (alpha fp) xs) (emaSeq (alpha sp) xs)
        let sig := emaSeq (alpha gp) line
        List.zipWith (fun p g => { ppo := p, signal := g, histogram := Scalar.sub p g }) line sig) := by
  obtain ⟨s', h⟩ := ppo_run (PercentagePriceOscillator.fresh fp sp gp) xs
  refine ⟨s', ?_⟩
  rw [h]
  simp only [PercentagePriceOscillator.fresh, emaOuts_fresh]
  rfl

/-- `ppoVal` spelled out: `(fast − slow) / slow * 100` in this operation order -/
theorem ppoVal_eq (f s : F) :
    ppoVal f s = Scalar.mul (Scalar.div (Scalar.sub f s) s) (Scalar.lit 100 0) := rfl

/-- OBV over any bar stream: running total of `+volume` / `−volume` / unchanged. -/
theorem obv_stream (bs : List (Bar F)) :
    ∃ s', runOut OnBalanceVolume.nextBar (OnBalanceVolume.fresh : OnBalanceVolume F) bs =
      some (s', obvSeq bs) :=
  obv_run OnBalanceVolume.fresh bs

/-- the first output compares the first close with the INITIAL previous close `0.0` (so a first
    bar with positive close already adds its volume, a negative close subtracts it) -/
theorem obv_first (b : Bar F) (bs : List (Bar F)) :
    ∃ s' ys, runOut OnBalanceVolume.nextBar (OnBalanceVolume.fresh : OnBalanceVolume F) (b :: bs) =
      some (s',
        (if Scalar.lt (Scalar.lit 0 0) b.close then Scalar.add (Scalar.lit 0 0) b.volume
         else if Scalar.lt b.close (Scalar.lit 0 0) then Scalar.sub (Scalar.lit 0 0) b.volume
         else Scalar.lit 0 0) :: ys) := by
  obtain ⟨s', h⟩ := obv_stream (F := F) (b :: bs)
  exact ⟨s', _, h⟩

/-- SlowStochastic(sp, ep), scalar path, hypothesis form (no side condition on `sp`): whenever
    the standalone FastStochastic(sp) produces `ks` on the inputs, SlowStochastic produces
    `EMA_ep ks`. -/
theorem slowstoch_stream_of (sp ep : Nat) (xs : List F) (sf : FastStochastic F) (ks : List F)
    (h : runOut FastStochastic.next (FastStochastic.fresh sp) xs = some (sf, ks)) :
    ∃ s', runOut SlowStochastic.next (SlowStochastic.fresh sp ep) xs =
      some (s', emaSeq (alpha ep) ks) := by
  rw [← emaOuts_fresh]
  exact slowstoch_run_of (SlowStochastic.fresh sp ep) xs sf ks h

/-- SlowStochastic(sp, ep), scalar path: for every accepted `sp` neither indicator panics, and
    the outputs are the EMA(ep) of the outputs `ks` of the standalone FastStochastic(sp) on the
    same inputs (what `ks` is — `(x − lowest)/(highest − lowest)·100` — is the FastStochastic
    property, `TaRs/Lemmas/Exact/FastStochastic.lean`). -/
theorem slowstoch_stream (sp ep : Nat) (hn : 0 < sp) (h8 : sp * 8 ≤ isizeMax) (xs : List F) :
    ∃ s' sf ks,
      runOut FastStochastic.next (FastStochastic.fresh sp : FastStochastic F) xs = some (sf, ks) ∧
      ks.length = xs.length ∧
      runOut SlowStochastic.next (SlowStochastic.fresh sp ep) xs =
        some (s', emaSeq (alpha ep) ks) := by
  obtain ⟨sf, ks, h, hl⟩ := faststoch_total (FastStochastic.fresh sp : FastStochastic F)
    (FastStochastic.fresh_wf sp hn h8) xs
  obtain ⟨s', h'⟩ := slowstoch_stream_of sp ep xs sf ks h
  exact ⟨s', sf, ks, h, hl, h'⟩

/-- bar path, hypothesis form -/
theorem slowstoch_bar_stream_of (sp ep : Nat) (bs : List (Bar F)) (sf : FastStochastic F)
    (ks : List F)
    (h : runOut FastStochastic.nextBar (FastStochastic.fresh sp) bs = some (sf, ks)) :
    ∃ s', runOut SlowStochastic.nextBar (SlowStochastic.fresh sp ep) bs =
      some (s', emaSeq (alpha ep) ks) := by
  rw [← emaOuts_fresh]
  exact slowstoch_bar_run_of (SlowStochastic.fresh sp ep) bs sf ks h

/-- SlowStochastic(sp, ep), bar path = EMA(ep) of the FastStochastic(sp) bar outputs. -/
theorem slowstoch_bar_stream (sp ep : Nat) (hn : 0 < sp) (h8 : sp * 8 ≤ isizeMax)
    (bs : List (Bar F)) :
    ∃ s' sf ks,
      runOut FastStochastic.nextBar (FastStochastic.fresh sp : FastStochastic F) bs = some (sf, ks) ∧
      ks.length = bs.length ∧
      runOut SlowStochastic.nextBar (SlowStochastic.fresh sp ep) bs =
        some (s', emaSeq (alpha ep) ks) := by
  obtain ⟨sf, ks, h, hl⟩ := faststoch_bar_total (FastStochastic.fresh sp : FastStochastic F)
    (FastStochastic.fresh_wf sp hn h8) bs
  obtain ⟨s', h'⟩ := slowstoch_bar_stream_of sp ep bs sf ks h
  exact ⟨s', sf, ks, h, hl, h'⟩

end TaRs.Props.C03
