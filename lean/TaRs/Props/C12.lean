/-
  C12 — next() is total: no panic or out-of-bounds for any input and valid configuration.

  For every indicator: starting from the state `new` builds (for any accepted parameters),
  EVERY finite sequence of `next(x)` / `next(&bar)` / `reset()` calls returns normally —
  `none` (= a Rust panic: index out of bounds, slice range, usize overflow with overflow
  checks on, unwrap) is never produced — and the structural invariant `WF` holds in every
  reachable state.  The theorems quantify over an arbitrary `[Scalar F]` with NO laws, so
  the inputs range over anything an `f64` can be (NaN, ±∞, ±MAX, subnormals, ±0, bars
  violating low ≤ close ≤ high) and over any behaviour of the arithmetic itself.

  Not covered by a theorem (observed on the implementation by the harness, catch_unwind):
  `clone`, `Debug`, serialization returning normally (derived code, not translated).

  Reading guide.  For every indicator `X` there is
    * `def xStep (s : X F) : Op F → Option (X F)` — what one client call does to the state
      (`Op.next x` ↦ `next(x)`, `Op.bar b` ↦ `next(&bar)`, `Op.reset` ↦ `reset()`; the output of
      the call is dropped, `none` = the call panicked);
    * `theorem x_total` — for all accepted constructor arguments and EVERY `ops : List (Op F)`:
      `new` returns `Ok s0`, `runOps xStep s0 ops = some s'` (no call in the sequence panicked)
      and `X.WF s'`.
  "Accepted constructor arguments": every period `> 0`; for the constructors that allocate a
  window (`vec![..; period]`) additionally `period * 8 ≤ isize::MAX`, the modelled capacity
  limit of `vec!` (beyond it the constructor itself panics with "capacity overflow", see the
  `new_eq` lemma of the indicator).  Multipliers are arbitrary `m : F` (NaN, ±∞, 0, negative).
  CommodityChannelIndex, ChandelierExit, MoneyFlowIndex and OnBalanceVolume have no
  `Next<f64>` impl in Rust: `x.next(1.0)` does not type-check, so `Op.next _` is mapped to
  "state unchanged" for them.  TrueRange and OnBalanceVolume have no parameters, an
  infallible `new()` and no structural invariant.

  Dependencies.  Only `Lemmas/Core` (`fresh`, `WF`, `new_eq`, `fresh_wf`) and the VALUE-AGNOSTIC
  `Lemmas/Total` (`next_total` / `nextBar_total` / `reset_total`) are imported — neither the normal
  forms `next_eq` nor `reset_eq` — so a change of the Rust code that only alters an arithmetic value
  leaves this file intact, whereas one that can panic or loses the invariant does not.
-/
import TaRs.Lemmas.Machine
import TaRs.Lemmas.Total.SimpleMovingAverage
import TaRs.Lemmas.Total.ExponentialMovingAverage
import TaRs.Lemmas.Total.WeightedMovingAverage
import TaRs.Lemmas.Total.StandardDeviation
import TaRs.Lemmas.Total.MeanAbsoluteDeviation
import TaRs.Lemmas.Total.RelativeStrengthIndex
import TaRs.Lemmas.Total.Minimum
import TaRs.Lemmas.Total.Maximum
import TaRs.Lemmas.Total.FastStochastic
import TaRs.Lemmas.Total.SlowStochastic
import TaRs.Lemmas.Total.TrueRange
import TaRs.Lemmas.Total.AverageTrueRange
import TaRs.Lemmas.Total.MovingAverageConvergenceDivergence
import TaRs.Lemmas.Total.PercentagePriceOscillator
import TaRs.Lemmas.Total.CommodityChannelIndex
import TaRs.Lemmas.Total.EfficiencyRatio
import TaRs.Lemmas.Total.BollingerBands
import TaRs.Lemmas.Total.ChandelierExit
import TaRs.Lemmas.Total.KeltnerChannel
import TaRs.Lemmas.Total.RateOfChange
import TaRs.Lemmas.Total.MoneyFlowIndex
import TaRs.Lemmas.Total.OnBalanceVolume

namespace TaRs.Props.C12
open TaRs TaRs.Gen TaRs.Rs

/-! ### Helpers (lemma schemas, not property statements) -/
section Helpers

/-- Lift of the per-operation facts to operation sequences: if every single operation on a
    `WF` state returns normally and re-establishes `WF`, so does every sequence. -/
theorem lift {F S : Type} (stepf : S → Op F → Option S) (WF : S → Prop)
    (h : ∀ s op, WF s → ∃ s', stepf s op = some s' ∧ WF s') (s0 : S) (h0 : WF s0) (ops : List (Op F)) :
    ∃ s', runOps stepf s0 ops = some s' ∧ WF s' :=
  runOps_invariant stepf WF h s0 h0 ops

/-- a `next_total`-shaped fact (`∃ r, call = some r ∧ WF r.1 ∧ …`), with the output dropped -/
private theorem fst_some {S O : Type} {P : S → Prop} {Q : S × O → Prop} {o : Option (S × O)}
    (h : ∃ r, o = some r ∧ P r.1 ∧ Q r) : ∃ s', o.map (·.1) = some s' ∧ P s' := by
  obtain ⟨r, hr, hp, _⟩ := h
  exact ⟨r.1, by simp [hr], hp⟩

/-- a `reset_total`-shaped fact with the trailing conjuncts dropped -/
private theorem drop_tail {S : Type} {P Q : S → Prop} {o : Option S}
    (h : ∃ r, o = some r ∧ P r ∧ Q r) : ∃ s', o = some s' ∧ P s' := by
  obtain ⟨r, hr, hp, _⟩ := h
  exact ⟨r, hr, hp⟩

end Helpers

variable {F : Type} [Scalar F]

/-! ### SimpleMovingAverage -/
section SMA
def smaStep (s : SimpleMovingAverage F) : Op F → Option (SimpleMovingAverage F)
  | .next x => (s.next x).map (·.1)
  | .bar b => (s.nextBar b).map (·.1)
  | .reset => s.reset

theorem sma_total (p : Nat) (hp : 0 < p) (h8 : p * 8 ≤ isizeMax) (ops : List (Op F)) :
    ∃ s0 s', (SimpleMovingAverage.new p : Res (SimpleMovingAverage F)) = .ok s0 ∧
      runOps smaStep s0 ops = some s' ∧ SimpleMovingAverage.WF s' := by
  have hnew : (SimpleMovingAverage.new p : Res (SimpleMovingAverage F)) = .ok (SimpleMovingAverage.fresh p) := by
    rw [SimpleMovingAverage.new_eq]; simp [Nat.ne_of_gt hp, h8]
  obtain ⟨s', h1, h2⟩ := lift smaStep SimpleMovingAverage.WF (by
    intro s op hs
    cases op with
    | next x => exact fst_some (SimpleMovingAverage.next_total s x hs)
    | bar b => exact fst_some (SimpleMovingAverage.nextBar_total s b hs)
    | reset => exact drop_tail (SimpleMovingAverage.reset_total s hs))
    (SimpleMovingAverage.fresh p) (SimpleMovingAverage.fresh_wf p hp h8) ops
  exact ⟨_, s', hnew, h1, h2⟩
end SMA

/-! ### ExponentialMovingAverage -/
section EMA
def emaStep (s : ExponentialMovingAverage F) : Op F → Option (ExponentialMovingAverage F)
  | .next x => (s.next x).map (·.1)
  | .bar b => (s.nextBar b).map (·.1)
  | .reset => s.reset

theorem ema_total (p : Nat) (hp : 0 < p) (ops : List (Op F)) :
    ∃ s0 s', (ExponentialMovingAverage.new p : Res (ExponentialMovingAverage F)) = .ok s0 ∧
      runOps emaStep s0 ops = some s' ∧ ExponentialMovingAverage.WF s' := by
  have hnew : (ExponentialMovingAverage.new p : Res (ExponentialMovingAverage F)) =
      .ok (ExponentialMovingAverage.fresh p) := by
    rw [ExponentialMovingAverage.new_eq]; simp [Nat.ne_of_gt hp]
  obtain ⟨s', h1, h2⟩ := lift emaStep ExponentialMovingAverage.WF (by
    intro s op hs
    cases op with
    | next x => exact fst_some (ExponentialMovingAverage.next_total s x hs)
    | bar b => exact fst_some (ExponentialMovingAverage.nextBar_total s b hs)
    | reset => exact drop_tail (ExponentialMovingAverage.reset_total s hs))
    (ExponentialMovingAverage.fresh p) (ExponentialMovingAverage.fresh_wf p hp) ops
  exact ⟨_, s', hnew, h1, h2⟩
end EMA

/-! ### WeightedMovingAverage -/
section WMA
def wmaStep (s : WeightedMovingAverage F) : Op F → Option (WeightedMovingAverage F)
  | .next x => (s.next x).map (·.1)
  | .bar b => (s.nextBar b).map (·.1)
  | .reset => s.reset

theorem wma_total (p : Nat) (hp : 0 < p) (h8 : p * 8 ≤ isizeMax) (ops : List (Op F)) :
    ∃ s0 s', (WeightedMovingAverage.new p : Res (WeightedMovingAverage F)) = .ok s0 ∧
      runOps wmaStep s0 ops = some s' ∧ WeightedMovingAverage.WF s' := by
  have hnew : (WeightedMovingAverage.new p : Res (WeightedMovingAverage F)) = .ok (WeightedMovingAverage.fresh p) := by
    rw [WeightedMovingAverage.new_eq]; simp [Nat.ne_of_gt hp, h8]
  obtain ⟨s', h1, h2⟩ := lift wmaStep WeightedMovingAverage.WF (by
    intro s op hs
    cases op with
    | next x => exact fst_some (WeightedMovingAverage.next_total s x hs)
    | bar b => exact fst_some (WeightedMovingAverage.nextBar_total s b hs)
    | reset => exact drop_tail (WeightedMovingAverage.reset_total s hs))
    (WeightedMovingAverage.fresh p) (WeightedMovingAverage.fresh_wf p hp h8) ops
  exact ⟨_, s', hnew, h1, h2⟩
end WMA

/-! ### StandardDeviation -/
section SD
def sdStep (s : StandardDeviation F) : Op F → Option (StandardDeviation F)
  | .next x => (s.next x).map (·.1)
  | .bar b => (s.nextBar b).map (·.1)
  | .reset => s.reset

theorem sd_total (p : Nat) (hp : 0 < p) (h8 : p * 8 ≤ isizeMax) (ops : List (Op F)) :
    ∃ s0 s', (StandardDeviation.new p : Res (StandardDeviation F)) = .ok s0 ∧
      runOps sdStep s0 ops = some s' ∧ StandardDeviation.WF s' := by
  have hnew : (StandardDeviation.new p : Res (StandardDeviation F)) = .ok (StandardDeviation.fresh p) := by
    rw [StandardDeviation.new_eq]; simp [Nat.ne_of_gt hp, h8]
  obtain ⟨s', h1, h2⟩ := lift sdStep StandardDeviation.WF (by
    intro s op hs
    cases op with
    | next x => exact fst_some (StandardDeviation.next_total s x hs)
    | bar b => exact fst_some (StandardDeviation.nextBar_total s b hs)
    | reset => exact drop_tail (StandardDeviation.reset_total s hs))
    (StandardDeviation.fresh p) (StandardDeviation.fresh_wf p hp h8) ops
  exact ⟨_, s', hnew, h1, h2⟩
end SD

/-! ### MeanAbsoluteDeviation -/
section MAD
def madStep (s : MeanAbsoluteDeviation F) : Op F → Option (MeanAbsoluteDeviation F)
  | .next x => (s.next x).map (·.1)
  | .bar b => (s.nextBar b).map (·.1)
  | .reset => s.reset

theorem mad_total (p : Nat) (hp : 0 < p) (h8 : p * 8 ≤ isizeMax) (ops : List (Op F)) :
    ∃ s0 s', (MeanAbsoluteDeviation.new p : Res (MeanAbsoluteDeviation F)) = .ok s0 ∧
      runOps madStep s0 ops = some s' ∧ MeanAbsoluteDeviation.WF s' := by
  have hnew : (MeanAbsoluteDeviation.new p : Res (MeanAbsoluteDeviation F)) = .ok (MeanAbsoluteDeviation.fresh p) := by
    rw [MeanAbsoluteDeviation.new_eq]; simp [Nat.ne_of_gt hp, h8]
  obtain ⟨s', h1, h2⟩ := lift madStep MeanAbsoluteDeviation.WF (by
    intro s op hs
    cases op with
    | next x => exact fst_some (MeanAbsoluteDeviation.next_total s x hs)
    | bar b => exact fst_some (MeanAbsoluteDeviation.nextBar_total s b hs)
    | reset => exact drop_tail (MeanAbsoluteDeviation.reset_total s hs))
    (MeanAbsoluteDeviation.fresh p) (MeanAbsoluteDeviation.fresh_wf p hp h8) ops
  exact ⟨_, s', hnew, h1, h2⟩
end MAD

/-! ### RelativeStrengthIndex -/
section RSI
def rsiStep (s : RelativeStrengthIndex F) : Op F → Option (RelativeStrengthIndex F)
  | .next x => (s.next x).map (·.1)
  | .bar b => (s.nextBar b).map (·.1)
  | .reset => s.reset

theorem rsi_total (p : Nat) (hp : 0 < p) (ops : List (Op F)) :
    ∃ s0 s', (RelativeStrengthIndex.new p : Res (RelativeStrengthIndex F)) = .ok s0 ∧
      runOps rsiStep s0 ops = some s' ∧ RelativeStrengthIndex.WF s' := by
  have hnew : (RelativeStrengthIndex.new p : Res (RelativeStrengthIndex F)) =
      .ok (RelativeStrengthIndex.fresh p) := by
    rw [RelativeStrengthIndex.new_eq]; simp [Nat.ne_of_gt hp]
  obtain ⟨s', h1, h2⟩ := lift rsiStep RelativeStrengthIndex.WF (by
    intro s op hs
    cases op with
    | next x => exact fst_some (RelativeStrengthIndex.next_total s x hs)
    | bar b => exact fst_some (RelativeStrengthIndex.nextBar_total s b hs)
    | reset => exact drop_tail (RelativeStrengthIndex.reset_total s hs))
    (RelativeStrengthIndex.fresh p) (RelativeStrengthIndex.fresh_wf p hp) ops
  exact ⟨_, s', hnew, h1, h2⟩
end RSI

/-! ### Minimum -/
section Minimum
def minimumStep (s : Minimum F) : Op F → Option (Minimum F)
  | .next x => (s.next x).map (·.1)
  | .bar b => (s.nextBar b).map (·.1)
  | .reset => s.reset

theorem minimum_total (p : Nat) (hp : 0 < p) (h8 : p * 8 ≤ isizeMax) (ops : List (Op F)) :
    ∃ s0 s', (Minimum.new p : Res (Minimum F)) = .ok s0 ∧
      runOps minimumStep s0 ops = some s' ∧ Minimum.WF s' := by
  have hnew : (Minimum.new p : Res (Minimum F)) = .ok (Minimum.fresh p) := by
    rw [Minimum.new_eq]; simp [Nat.ne_of_gt hp, h8]
  obtain ⟨s', h1, h2⟩ := lift minimumStep Minimum.WF (by
    intro s op hs
    cases op with
    | next x => exact fst_some (Minimum.next_total s x hs)
    | bar b => exact fst_some (Minimum.nextBar_total s b hs)
    | reset => exact drop_tail (Minimum.reset_total s hs))
    (Minimum.fresh p) (Minimum.fresh_wf p hp h8) ops
  exact ⟨_, s', hnew, h1, h2⟩
end Minimum

/-! ### Maximum -/
section Maximum
def maximumStep (s : Maximum F) : Op F → Option (Maximum F)
  | .next x => (s.next x).map (·.1)
  | .bar b => (s.nextBar b).map (·.1)
  | .reset => s.reset

theorem maximum_total (p : Nat) (hp : 0 < p) (h8 : p * 8 ≤ isizeMax) (ops : List (Op F)) :
    ∃ s0 s', (Maximum.new p : Res (Maximum F)) = .ok s0 ∧
      runOps maximumStep s0 ops = some s' ∧ Maximum.WF s' := by
  have hnew : (Maximum.new p : Res (Maximum F)) = .ok (Maximum.fresh p) := by
    rw [Maximum.new_eq]; simp [Nat.ne_of_gt hp, h8]
  obtain ⟨s', h1, h2⟩ := lift maximumStep Maximum.WF (by
    intro s op hs
    cases op with
    | next x => exact fst_some (Maximum.next_total s x hs)
    | bar b => exact fst_some (Maximum.nextBar_total s b hs)
    | reset => exact drop_tail (Maximum.reset_total s hs))
    (Maximum.fresh p) (Maximum.fresh_wf p hp h8) ops
  exact ⟨_, s', hnew, h1, h2⟩
end Maximum

/-! ### FastStochastic -/
section FastStochastic
def fastStochStep (s : FastStochastic F) : Op F → Option (FastStochastic F)
  | .next x => (s.next x).map (·.1)
  | .bar b => (s.nextBar b).map (·.1)
  | .reset => s.reset

theorem fastStoch_total (p : Nat) (hp : 0 < p) (h8 : p * 8 ≤ isizeMax) (ops : List (Op F)) :
    ∃ s0 s', (FastStochastic.new p : Res (FastStochastic F)) = .ok s0 ∧
      runOps fastStochStep s0 ops = some s' ∧ FastStochastic.WF s' := by
  have hnew : (FastStochastic.new p : Res (FastStochastic F)) = .ok (FastStochastic.fresh p) := by
    rw [FastStochastic.new_eq]; simp [Nat.ne_of_gt hp, h8]
  obtain ⟨s', h1, h2⟩ := lift fastStochStep FastStochastic.WF (by
    intro s op hs
    cases op with
    | next x => exact fst_some (FastStochastic.next_total s x hs)
    | bar b => exact fst_some (FastStochastic.nextBar_total s b hs)
    | reset => exact drop_tail (FastStochastic.reset_wf s hs))
    (FastStochastic.fresh p) (FastStochastic.fresh_wf p hp h8) ops
  exact ⟨_, s', hnew, h1, h2⟩
end FastStochastic

/-! ### SlowStochastic -/
section SlowStochastic
def slowStochStep (s : SlowStochastic F) : Op F → Option (SlowStochastic F)
  | .next x => (s.next x).map (·.1)
  | .bar b => (s.nextBar b).map (·.1)
  | .reset => s.reset

/-- only the stochastic window is allocated, so only `sp` has a capacity side condition -/
theorem slowStoch_total (sp ep : Nat) (hs : 0 < sp) (h8 : sp * 8 ≤ isizeMax) (he : 0 < ep)
    (ops : List (Op F)) :
    ∃ s0 s', (SlowStochastic.new sp ep : Res (SlowStochastic F)) = .ok s0 ∧
      runOps slowStochStep s0 ops = some s' ∧ SlowStochastic.WF s' := by
  have hnew : (SlowStochastic.new sp ep : Res (SlowStochastic F)) = .ok (SlowStochastic.fresh sp ep) := by
    rw [SlowStochastic.new_eq]; simp [Nat.ne_of_gt hs, Nat.ne_of_gt he, h8]
  obtain ⟨s', h1, h2⟩ := lift slowStochStep SlowStochastic.WF (by
    intro s op hw
    cases op with
    | next x => exact fst_some (SlowStochastic.next_total s x hw)
    | bar b => exact fst_some (SlowStochastic.nextBar_total s b hw)
    | reset => exact drop_tail (SlowStochastic.reset_wf s hw))
    (SlowStochastic.fresh sp ep) (SlowStochastic.fresh_wf sp ep hs h8 he) ops
  exact ⟨_, s', hnew, h1, h2⟩
end SlowStochastic

/-! ### TrueRange (no parameters, infallible `new()`, no invariant) -/
section TrueRange
def trStep (s : TrueRange F) : Op F → Option (TrueRange F)
  | .next x => (s.next x).map (·.1)
  | .bar b => (s.nextBar b).map (·.1)
  | .reset => s.reset

theorem tr_total (ops : List (Op F)) :
    ∃ s', runOps trStep (TrueRange.new : TrueRange F) ops = some s' := by
  obtain ⟨s', h1, _⟩ := lift trStep (fun _ => True) (by
    intro s op _
    cases op with
    | next x =>
      obtain ⟨r, hr, _⟩ := TrueRange.next_total s x
      exact fst_some (P := fun _ => True) (Q := fun _ => True) ⟨r, hr, trivial, trivial⟩
    | bar b =>
      obtain ⟨r, hr, _⟩ := TrueRange.nextBar_total s b
      exact fst_some (P := fun _ => True) (Q := fun _ => True) ⟨r, hr, trivial, trivial⟩
    | reset =>
      obtain ⟨r, hr⟩ := TrueRange.reset_total s
      exact ⟨r, hr, trivial⟩)
    (TrueRange.new : TrueRange F) trivial ops
  exact ⟨s', h1⟩
end TrueRange

/-! ### AverageTrueRange -/
section ATR
def atrStep (s : AverageTrueRange F) : Op F → Option (AverageTrueRange F)
  | .next x => (s.next x).map (·.1)
  | .bar b => (s.nextBar b).map (·.1)
  | .reset => s.reset

theorem atr_total (p : Nat) (hp : 0 < p) (ops : List (Op F)) :
    ∃ s0 s', (AverageTrueRange.new p : Res (AverageTrueRange F)) = .ok s0 ∧
      runOps atrStep s0 ops = some s' ∧ AverageTrueRange.WF s' := by
  have hnew : (AverageTrueRange.new p : Res (AverageTrueRange F)) = .ok (AverageTrueRange.fresh p) := by
    rw [AverageTrueRange.new_eq]; simp [Nat.ne_of_gt hp]
  obtain ⟨s', h1, h2⟩ := lift atrStep AverageTrueRange.WF (by
    intro s op hs
    cases op with
    | next x => exact fst_some (AverageTrueRange.next_total s x hs)
    | bar b => exact fst_some (AverageTrueRange.nextBar_total s b hs)
    | reset => exact drop_tail (AverageTrueRange.reset_total s hs))
    (AverageTrueRange.fresh p) (AverageTrueRange.fresh_wf p hp) ops
  exact ⟨_, s', hnew, h1, h2⟩
end ATR

/-! ### MovingAverageConvergenceDivergence -/
section MACD
def macdStep (s : MovingAverageConvergenceDivergence F) :
    Op F → Option (MovingAverageConvergenceDivergence F)
  | .next x => (s.next x).map (·.1)
  | .bar b => (s.nextBar b).map (·.1)
  | .reset => s.reset

theorem macd_total (fp sp gp : Nat) (hf : 0 < fp) (hs : 0 < sp) (hg : 0 < gp) (ops : List (Op F)) :
    ∃ s0 s', (MovingAverageConvergenceDivergence.new fp sp gp :
        Res (MovingAverageConvergenceDivergence F)) = .ok s0 ∧
      runOps macdStep s0 ops = some s' ∧ MovingAverageConvergenceDivergence.WF s' := by
  have hnew : (MovingAverageConvergenceDivergence.new fp sp gp :
      Res (MovingAverageConvergenceDivergence F)) =
      .ok (MovingAverageConvergenceDivergence.fresh fp sp gp) := by
    rw [MovingAverageConvergenceDivergence.new_eq]
    simp [Nat.ne_of_gt hf, Nat.ne_of_gt hs, Nat.ne_of_gt hg]
  obtain ⟨s', h1, h2⟩ := lift macdStep MovingAverageConvergenceDivergence.WF (by
    intro s op hw
    cases op with
    | next x => exact fst_some (MovingAverageConvergenceDivergence.next_total s x hw)
    | bar b => exact fst_some (MovingAverageConvergenceDivergence.nextBar_total s b hw)
    | reset => exact drop_tail (MovingAverageConvergenceDivergence.reset_total s hw))
    (MovingAverageConvergenceDivergence.fresh fp sp gp)
    (MovingAverageConvergenceDivergence.fresh_wf fp sp gp hf hs hg) ops
  exact ⟨_, s', hnew, h1, h2⟩
end MACD

/-! ### PercentagePriceOscillator -/
section PPO
def ppoStep (s : PercentagePriceOscillator F) : Op F → Option (PercentagePriceOscillator F)
  | .next x => (s.next x).map (·.1)
  | .bar b => (s.nextBar b).map (·.1)
  | .reset => s.reset

theorem ppo_total (fp sp gp : Nat) (hf : 0 < fp) (hs : 0 < sp) (hg : 0 < gp) (ops : List (Op F)) :
    ∃ s0 s', (PercentagePriceOscillator.new fp sp gp : Res (PercentagePriceOscillator F)) = .ok s0 ∧
      runOps ppoStep s0 ops = some s' ∧ PercentagePriceOscillator.WF s' := by
  have hnew : (PercentagePriceOscillator.new fp sp gp : Res (PercentagePriceOscillator F)) =
      .ok (PercentagePriceOscillator.fresh fp sp gp) := by
    rw [PercentagePriceOscillator.new_eq]
    simp [Nat.ne_of_gt hf, Nat.ne_of_gt hs, Nat.ne_of_gt hg]
  obtain ⟨s', h1, h2⟩ := lift ppoStep PercentagePriceOscillator.WF (by
    intro s op hw
    cases op with
    | next x => exact fst_some (PercentagePriceOscillator.next_total s x hw)
    | bar b => exact fst_some (PercentagePriceOscillator.nextBar_total s b hw)
    | reset => exact drop_tail (PercentagePriceOscillator.reset_total s hw))
    (PercentagePriceOscillator.fresh fp sp gp)
    (PercentagePriceOscillator.fresh_wf fp sp gp hf hs hg) ops
  exact ⟨_, s', hnew, h1, h2⟩
end PPO

/-! ### CommodityChannelIndex -/
section CCI
def cciStep (s : CommodityChannelIndex F) : Op F → Option (CommodityChannelIndex F)
  -- the Rust type has no `Next<f64>` impl: `cci.next(x)` cannot be written
  | .next _ => some s
  | .bar b => (s.nextBar b).map (·.1)
  | .reset => s.reset

theorem cci_total (p : Nat) (hp : 0 < p) (h8 : p * 8 ≤ isizeMax) (ops : List (Op F)) :
    ∃ s0 s', (CommodityChannelIndex.new p : Res (CommodityChannelIndex F)) = .ok s0 ∧
      runOps cciStep s0 ops = some s' ∧ CommodityChannelIndex.WF s' := by
  have hnew : (CommodityChannelIndex.new p : Res (CommodityChannelIndex F)) = .ok (CommodityChannelIndex.fresh p) := by
    rw [CommodityChannelIndex.new_eq]; simp [Nat.ne_of_gt hp, h8]
  obtain ⟨s', h1, h2⟩ := lift cciStep CommodityChannelIndex.WF (by
    intro s op hs
    cases op with
    | next x => exact ⟨s, rfl, hs⟩
    | bar b => exact fst_some (CommodityChannelIndex.nextBar_total s b hs)
    | reset => exact drop_tail (CommodityChannelIndex.reset_total s hs))
    (CommodityChannelIndex.fresh p) (CommodityChannelIndex.fresh_wf p hp h8) ops
  exact ⟨_, s', hnew, h1, h2⟩
end CCI

/-! ### EfficiencyRatio -/
section ER
def erStep (s : EfficiencyRatio F) : Op F → Option (EfficiencyRatio F)
  | .next x => (s.next x).map (·.1)
  | .bar b => (s.nextBar b).map (·.1)
  | .reset => s.reset

theorem er_total (p : Nat) (hp : 0 < p) (h8 : p * 8 ≤ isizeMax) (ops : List (Op F)) :
    ∃ s0 s', (EfficiencyRatio.new p : Res (EfficiencyRatio F)) = .ok s0 ∧
      runOps erStep s0 ops = some s' ∧ EfficiencyRatio.WF s' := by
  have hnew : (EfficiencyRatio.new p : Res (EfficiencyRatio F)) = .ok (EfficiencyRatio.fresh p) := by
    rw [EfficiencyRatio.new_eq]; simp [Nat.ne_of_gt hp, h8]
  obtain ⟨s', h1, h2⟩ := lift erStep EfficiencyRatio.WF (by
    intro s op hs
    cases op with
    | next x => exact fst_some (EfficiencyRatio.next_total s x hs)
    | bar b => exact fst_some (EfficiencyRatio.nextBar_total s b hs)
    | reset => exact drop_tail (EfficiencyRatio.reset_total s hs))
    (EfficiencyRatio.fresh p) (EfficiencyRatio.fresh_wf p hp h8) ops
  exact ⟨_, s', hnew, h1, h2⟩
end ER

/-! ### BollingerBands -/
section BB
def bbStep (s : BollingerBands F) : Op F → Option (BollingerBands F)
  | .next x => (s.next x).map (·.1)
  | .bar b => (s.nextBar b).map (·.1)
  | .reset => s.reset

theorem bb_total (p : Nat) (m : F) (hp : 0 < p) (h8 : p * 8 ≤ isizeMax) (ops : List (Op F)) :
    ∃ s0 s', (BollingerBands.new p m : Res (BollingerBands F)) = .ok s0 ∧
      runOps bbStep s0 ops = some s' ∧ BollingerBands.WF s' := by
  have hnew : (BollingerBands.new p m : Res (BollingerBands F)) = .ok (BollingerBands.fresh p m) := by
    rw [BollingerBands.new_eq]; simp [Nat.ne_of_gt hp, h8]
  obtain ⟨s', h1, h2⟩ := lift bbStep BollingerBands.WF (by
    intro s op hs
    cases op with
    | next x => exact fst_some (BollingerBands.next_total s x hs)
    | bar b => exact fst_some (BollingerBands.nextBar_total s b hs)
    | reset => exact drop_tail (BollingerBands.reset_total s hs))
    (BollingerBands.fresh p m) (BollingerBands.fresh_wf p m hp h8) ops
  exact ⟨_, s', hnew, h1, h2⟩
end BB

/-! ### ChandelierExit -/
section CE
def ceStep (s : ChandelierExit F) : Op F → Option (ChandelierExit F)
  -- the Rust type has no `Next<f64>` impl: `ce.next(x)` cannot be written
  | .next _ => some s
  | .bar b => (s.nextBar b).map (·.1)
  | .reset => s.reset

theorem ce_total (p : Nat) (m : F) (hp : 0 < p) (h8 : p * 8 ≤ isizeMax) (ops : List (Op F)) :
    ∃ s0 s', (ChandelierExit.new p m : Res (ChandelierExit F)) = .ok s0 ∧
      runOps ceStep s0 ops = some s' ∧ ChandelierExit.WF s' := by
  have hnew : (ChandelierExit.new p m : Res (ChandelierExit F)) = .ok (ChandelierExit.fresh p m) := by
    rw [ChandelierExit.new_eq]; simp [Nat.ne_of_gt hp, h8]
  obtain ⟨s', h1, h2⟩ := lift ceStep ChandelierExit.WF (by
    intro s op hs
    cases op with
    | next x => exact ⟨s, rfl, hs⟩
    | bar b => exact fst_some (ChandelierExit.nextBar_total s b hs)
    | reset => exact drop_tail (ChandelierExit.reset_wf s hs))
    (ChandelierExit.fresh p m) (ChandelierExit.fresh_wf p m hp h8) ops
  exact ⟨_, s', hnew, h1, h2⟩
end CE

/-! ### KeltnerChannel -/
section KC
def kcStep (s : KeltnerChannel F) : Op F → Option (KeltnerChannel F)
  | .next x => (s.next x).map (·.1)
  | .bar b => (s.nextBar b).map (·.1)
  | .reset => s.reset

theorem kc_total (p : Nat) (m : F) (hp : 0 < p) (ops : List (Op F)) :
    ∃ s0 s', (KeltnerChannel.new p m : Res (KeltnerChannel F)) = .ok s0 ∧
      runOps kcStep s0 ops = some s' ∧ KeltnerChannel.WF s' := by
  have hnew : (KeltnerChannel.new p m : Res (KeltnerChannel F)) = .ok (KeltnerChannel.fresh p m) := by
    rw [KeltnerChannel.new_eq]; simp [Nat.ne_of_gt hp]
  obtain ⟨s', h1, h2⟩ := lift kcStep KeltnerChannel.WF (by
    intro s op hs
    cases op with
    | next x => exact fst_some (KeltnerChannel.next_total s x hs)
    | bar b => exact fst_some (KeltnerChannel.nextBar_total s b hs)
    | reset => exact drop_tail (KeltnerChannel.reset_total s hs))
    (KeltnerChannel.fresh p m) (KeltnerChannel.fresh_wf p m hp) ops
  exact ⟨_, s', hnew, h1, h2⟩
end KC

/-! ### RateOfChange -/
section ROC
def rocStep (s : RateOfChange F) : Op F → Option (RateOfChange F)
  | .next x => (s.next x).map (·.1)
  | .bar b => (s.nextBar b).map (·.1)
  | .reset => s.reset

theorem roc_total (p : Nat) (hp : 0 < p) (h8 : p * 8 ≤ isizeMax) (ops : List (Op F)) :
    ∃ s0 s', (RateOfChange.new p : Res (RateOfChange F)) = .ok s0 ∧
      runOps rocStep s0 ops = some s' ∧ RateOfChange.WF s' := by
  have hnew : (RateOfChange.new p : Res (RateOfChange F)) = .ok (RateOfChange.fresh p) := by
    rw [RateOfChange.new_eq]; simp [Nat.ne_of_gt hp, h8]
  obtain ⟨s', h1, h2⟩ := lift rocStep RateOfChange.WF (by
    intro s op hs
    cases op with
    | next x => exact fst_some (RateOfChange.next_total s x hs)
    | bar b => exact fst_some (RateOfChange.nextBar_total s b hs)
    | reset => exact drop_tail (RateOfChange.reset_total s hs))
    (RateOfChange.fresh p) (RateOfChange.fresh_wf p hp h8) ops
  exact ⟨_, s', hnew, h1, h2⟩
end ROC

/-! ### MoneyFlowIndex -/
section MFI
def mfiStep (s : MoneyFlowIndex F) : Op F → Option (MoneyFlowIndex F)
  -- the Rust type has no `Next<f64>` impl: `mfi.next(x)` cannot be written
  | .next _ => some s
  | .bar b => (s.nextBar b).map (·.1)
  | .reset => s.reset

theorem mfi_total (p : Nat) (hp : 0 < p) (h8 : p * 8 ≤ isizeMax) (ops : List (Op F)) :
    ∃ s0 s', (MoneyFlowIndex.new p : Res (MoneyFlowIndex F)) = .ok s0 ∧
      runOps mfiStep s0 ops = some s' ∧ MoneyFlowIndex.WF s' := by
  have hnew : (MoneyFlowIndex.new p : Res (MoneyFlowIndex F)) = .ok (MoneyFlowIndex.fresh p) := by
    rw [MoneyFlowIndex.new_eq]; simp [Nat.ne_of_gt hp, h8]
  obtain ⟨s', h1, h2⟩ := lift mfiStep MoneyFlowIndex.WF (by
    intro s op hs
    cases op with
    | next x => exact ⟨s, rfl, hs⟩
    | bar b => exact fst_some (MoneyFlowIndex.nextBar_total s b hs)
    | reset => exact drop_tail (MoneyFlowIndex.reset_total s hs))
    (MoneyFlowIndex.fresh p) (MoneyFlowIndex.fresh_wf p hp h8) ops
  exact ⟨_, s', hnew, h1, h2⟩
end MFI

/-! ### OnBalanceVolume (no parameters, infallible `new()`, no invariant) -/
section OBV
def obvStep (s : OnBalanceVolume F) : Op F → Option (OnBalanceVolume F)
  -- the Rust type has no `Next<f64>` impl: `obv.next(x)` cannot be written
  | .next _ => some s
  | .bar b => (s.nextBar b).map (·.1)
  | .reset => s.reset

theorem obv_total (ops : List (Op F)) :
    ∃ s', runOps obvStep (OnBalanceVolume.new : OnBalanceVolume F) ops = some s' := by
  obtain ⟨s', h1, _⟩ := lift obvStep (fun _ => True) (by
    intro s op _
    cases op with
    | next x => exact ⟨s, rfl, trivial⟩
    | bar b =>
      obtain ⟨r, hr⟩ := OnBalanceVolume.nextBar_some s b
      exact fst_some (P := fun _ => True) (Q := fun _ => True) ⟨r, hr, trivial, trivial⟩
    | reset =>
      obtain ⟨r, hr⟩ := OnBalanceVolume.reset_total s
      exact ⟨r, hr, trivial⟩)
    (OnBalanceVolume.new : OnBalanceVolume F) trivial ops
  exact ⟨s', h1⟩
end OBV

end TaRs.Props.C12
