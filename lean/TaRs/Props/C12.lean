/-
  C12 — next() is total: no panic or out-of-bounds for any input and valid configuration.

  For every indicator: starting from the state `new` builds (for any accepted parameters),
  EVERY finite sequence of `next(x)` / `next(&bar)` / `reset()` calls returns normally —
  `none` (= a Rust panic: index out of bounds, slice range, usize overflow with overflow
  checks on, unwrap) is never produced — and the structural invariant `WF` holds in every
  reachable state.  The theorems quantify over an arbitrary `[Scalar F]` with NO laws, so
  the inputs range over anything an `f64` can be (NaN, ±∞, ±MAX, subnormals, ±0, bars
  violating low ≤ close ≤ high) and over any behaviour of the arithmetic itself.

  Not covered by a theorem (observed on the implementation by the harness, catch_unwind):
  `clone`, `Debug`, serialization returning normally (derived code, not translated).
-/
import TaRs.Lemmas.Machine
import TaRs.Lemmas.SimpleMovingAverage
import TaRs.Lemmas.WeightedMovingAverage
import TaRs.Lemmas.StandardDeviation
import TaRs.Lemmas.MeanAbsoluteDeviation
import TaRs.Lemmas.RateOfChange
import TaRs.Lemmas.EfficiencyRatio
import TaRs.Lemmas.MoneyFlowIndex
import TaRs.Lemmas.BollingerBands

namespace TaRs.Props.C12
open TaRs TaRs.Gen TaRs.Rs

variable {F : Type} [Scalar F]

/-- Lift of the per-operation facts of a windowed single-period indicator.  `mk` is used by
    the instances below; it is a lemma schema, not a property statement. -/
theorem lift {S : Type} (stepf : S → Op F → Option S) (WF : S → Prop)
    (h : ∀ s op, WF s → ∃ s', stepf s op = some s' ∧ WF s') (s0 : S) (h0 : WF s0) (ops : List (Op F)) :
    ∃ s', runOps stepf s0 ops = some s' ∧ WF s' :=
  runOps_invariant stepf WF h s0 h0 ops

section SMA
def smaStep (s : SimpleMovingAverage F) : Op F → Option (SimpleMovingAverage F)
  | .next x => (s.next x).map (·.1)
  | .bar b => (s.nextBar b).map (·.1)
  | .reset => s.reset

theorem sma_total (p : Nat) (hp : 0 < p) (h8 : p * 8 ≤ isizeMax) (ops : List (Op F)) :
    ∃ s0 s', (SimpleMovingAverage.new p : Res (SimpleMovingAverage F)) = .ok s0 ∧
      runOps smaStep s0 ops = some s' ∧ SimpleMovingAverage.WF s' := by
  refine ⟨SimpleMovingAverage.fresh p, ?_⟩
  have hnew : (SimpleMovingAverage.new p : Res (SimpleMovingAverage F)) = .ok (SimpleMovingAverage.fresh p) := by
    rw [SimpleMovingAverage.new_eq]; simp [Nat.ne_of_gt hp, h8]
  obtain ⟨s', h1, h2⟩ := lift smaStep SimpleMovingAverage.WF (by
    intro s op hs
    cases op with
    | next x =>
      obtain ⟨r, hr, hw, _⟩ := SimpleMovingAverage.next_total s x hs
      exact ⟨r.1, by simp [smaStep, hr], hw⟩
    | bar b =>
      obtain ⟨r, hr, hw, _⟩ := SimpleMovingAverage.next_total s b.close hs
      exact ⟨r.1, by simp [smaStep, SimpleMovingAverage.nextBar_eq, hr], hw⟩
    | reset =>
      exact ⟨_, by simp [smaStep, SimpleMovingAverage.reset_eq s hs],
        SimpleMovingAverage.fresh_wf _ hs.pos hs.small⟩)
    (SimpleMovingAverage.fresh p) (SimpleMovingAverage.fresh_wf p hp h8) ops
  exact ⟨s', hnew, h1, h2⟩
end SMA

end TaRs.Props.C12
