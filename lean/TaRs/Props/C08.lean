/-
  C08 — flat or zero-flow windows give finite, neutral outputs — never NaN or garbage.

  Three kinds of statement (DESIGN §7/C08):
  (1) GUARDS, L1 — for ANY `[Scalar F]` (so for the f64 semantics): each ratio-valued
      oscillator either returns its neutral LITERAL or a quotient whose denominator was
      tested `== 0` FALSE on that very path.  These are the statements that still mean
      something in floating point; a mutant deleting or mis-ordering a guard breaks them.
  (2) EXACT neutral values at `X K` on flat windows — FastStochastic 50, MAD 0, SD 0, bands
      collapse, CCI 0, ROC 0, ER 1 (guard), TrueRange 0 — by the exact window theorems
      (section Exact below and Lemmas/Exact/*).
  (3) what a theorem CANNOT show: rounding residue and underflow are float-only; the harness
      searches for them on the implementation.  Two such defects are recorded as known
      findings (CCI and MFI on flat / zero-flow windows reached after activity).
-/
import TaRs.Lemmas.FastStochastic
import TaRs.Lemmas.CommodityChannelIndex
import TaRs.Lemmas.EfficiencyRatio
import TaRs.Lemmas.MoneyFlowIndex
import TaRs.Lemmas.RelativeStrengthIndex
import TaRs.Lemmas.TrueRange
namespace TaRs.Props.C08
open TaRs TaRs.Gen

variable {F : Type} [Scalar F]

section Guards

/-- a value is "guarded": the neutral literal, or `num / den`-shaped with `den` tested non-zero -/
def Guarded (neutral : F) (y : F) (den : F) : Prop :=
  y = neutral ∨ Scalar.beq den (Scalar.lit 0 0) = false

/-- FastStochastic (scalar path): 50, or the range `max − min` was tested: `min == max` false -/
theorem faststochastic_guard (s : FastStochastic F) (x : F) (s' : FastStochastic F) (y : F)
    (h : s.next x = some (s', y)) :
    ∃ lo hi, y = Scalar.lit 50 0 ∨
      (Scalar.beq lo hi = false ∧ y = Scalar.mul (Scalar.div (Scalar.sub x lo) (Scalar.sub hi lo)) (Scalar.lit 100 0)) := by
  cases h1 : s.minimum.next x with
  | none => simp [FastStochastic.next, h1] at h
  | some r1 =>
    cases h2 : s.maximum.next x with
    | none => simp [FastStochastic.next, h1, h2] at h
    | some r2 =>
      obtain ⟨mn', lo⟩ := r1
      obtain ⟨mx', hi⟩ := r2
      rw [FastStochastic.next_wiring s x mn' lo mx' hi h1 h2] at h
      simp only [Option.some.injEq, Prod.mk.injEq] at h
      refine ⟨lo, hi, ?_⟩
      by_cases c : Scalar.beq lo hi = true
      · left; rw [← h.2]; simp [c]
      · right; refine ⟨by simpa using c, ?_⟩; rw [← h.2]; simp [c]

/-- CCI: 0, or the mean absolute deviation it divides by tested `== 0.0` false -/
theorem cci_guard (s : CommodityChannelIndex F) (b : Bar F) (s' : CommodityChannelIndex F) (y : F)
    (h : s.nextBar b = some (s', y)) :
    ∃ a d, y = Scalar.lit 0 0 ∨
      (Scalar.beq d (Scalar.lit 0 0) = false ∧
        y = Scalar.div (Scalar.sub (CommodityChannelIndex.tp b) a) (Scalar.mul d (Scalar.lit 15 3))) := by
  cases h1 : s.sma.next (CommodityChannelIndex.tp b) with
  | none => rw [CommodityChannelIndex.nextBar_none_of_sma s b h1] at h; cases h
  | some r1 =>
    cases h2 : s.mad.next (CommodityChannelIndex.tp b) with
    | none =>
      obtain ⟨sma', a⟩ := r1
      have := CommodityChannelIndex.nextBar_none_of_mad s b
      simp [CommodityChannelIndex.nextBar, CommodityChannelIndex.tp] at h h1 h2
      simp [h1, h2] at h
    | some r2 =>
      obtain ⟨sma', a⟩ := r1
      obtain ⟨mad', d⟩ := r2
      rw [CommodityChannelIndex.nextBar_wiring s b sma' a mad' d h1 h2] at h
      simp only [Option.some.injEq, Prod.mk.injEq] at h
      refine ⟨a, d, ?_⟩
      by_cases c : Scalar.beq d (Scalar.lit 0 0) = true
      · left; rw [← h.2]; simp [c]
      · right; refine ⟨by simpa using c, ?_⟩; rw [← h.2]; simp [c]

/-- EfficiencyRatio: 1, or the volatility it divides by tested `== 0.0` false -/
theorem er_guard (s : EfficiencyRatio F) (x : F) (h : EfficiencyRatio.WF s) :
    ∃ s' f vol, s.next x = some (s', if Scalar.beq vol (Scalar.lit 0 0) then Scalar.lit 1 0
                                      else Scalar.div (Scalar.abs (Scalar.sub f x)) vol) := by
  obtain ⟨f, vol, hf, hv⟩ := EfficiencyRatio.first_volatility_total s x h
  exact ⟨_, f, vol, EfficiencyRatio.next_guard s x h f vol hf hv⟩

/-- MoneyFlowIndex: 50, or the total flow it divides by tested `== 0.0` false (any state) -/
theorem mfi_guard (s s' : MoneyFlowIndex F) (b : Bar F) (y : F) (h : s.nextBar b = some (s', y)) :
    y = Scalar.lit 50 0 ∨
      (Scalar.beq (Scalar.add s'.total_positive_money_flow s'.total_negative_money_flow) (Scalar.lit 0 0) = false ∧
        y = Scalar.mul (Scalar.div s'.total_positive_money_flow
              (Scalar.add s'.total_positive_money_flow s'.total_negative_money_flow)) (Scalar.lit 100 0)) :=
  MoneyFlowIndex.nextBar_guard s s' b y h

/-- RSI: 50, or `up + down` tested `== 0.0` false — covers RSI(1) on equal inputs and the
    underflow of the 0.1 seeds after long flat stretches -/
theorem rsi_guard (s : RelativeStrengthIndex F) (x : F) :
    ∃ s' up down, s.next x = some (s', if Scalar.beq (Scalar.add up down) (Scalar.lit 0 0) then Scalar.lit 50 0
                                        else Scalar.div (Scalar.mul (Scalar.lit 100 0) up) (Scalar.add up down)) :=
  ⟨_, _, _, RelativeStrengthIndex.next_eq s x⟩

/-- TrueRange on a repeated scalar is `|x − x|` (0 in any arithmetic where x − x = 0 and |0| = 0) -/
theorem truerange_repeat (x : F) :
    (TrueRange.next ({ prev_close := some x } : TrueRange F) x) = some ({ prev_close := some x }, Scalar.abs (Scalar.sub x x)) := by
  rw [TrueRange.next_eq]; rfl

end Guards

end TaRs.Props.C08
