/-
  C17 — windowed indicators forget: only the last n inputs matter.

  L2 corollaries of the C01 window theorems: after ANY history `p ++ h` whose last `n` inputs
  are those of `h` (|h| ≥ n), the output equals the output of a fresh indicator fed only `h` —
  in exact arithmetic literally the same value, so an outlier stops influencing results n steps
  after it was fed.  For Minimum/Maximum only order is used, so for finite f64 inputs "exactly"
  carries over.  The accumulating ones differ in f64 by rounding only (τ(t)·M, sampled by the
  harness with 10^6× spikes in the prefix).  RateOfChange / EfficiencyRatio / MoneyFlowIndex /
  FastStochastic / CCI (n+1 resp. composite windows) are covered by the harness oracle and, as
  their exact specs land, by Props/C03.
-/
import TaRs.Props.C01
set_option linter.unusedSectionVars false
namespace TaRs.Props.C17
open TaRs TaRs.Gen TaRs.Rs TaRs.Spec

variable {K : Type} [Field K] [LinearOrder K] [IsStrictOrderedRing K] [HasSqrt K]

private theorem prefixes_getLast {α β : Type} (f : List α → β) (xs : List α) (hne : xs ≠ []) :
    ((prefixes xs).map f).getLast? = some (f xs) := by
  have hl : 0 < xs.length := List.length_pos_iff.mpr hne
  simp only [prefixes, List.map_map]
  rw [List.getLast?_eq_getElem?]
  simp only [List.length_map, List.length_range]
  rw [List.getElem?_map, List.getElem?_range (by omega)]
  simp only [Option.map_some, Function.comp]
  congr 2
  rw [show xs.length - 1 + 1 = xs.length by omega, List.take_length]

/-- last output of a run, if any -/
def lastOut {S O : Type} (r : Option (S × List O)) : Option O := r.bind (fun p => p.2.getLast?)

/-- SMA: history vs bare suffix — same final output -/
theorem sma_forgets (n : Nat) (hn : 0 < n) (h8 : n * 8 ≤ isizeMax) (p h : List K) (hl : n ≤ h.length) :
    lastOut (runOut SimpleMovingAverage.next (SimpleMovingAverage.fresh n : SimpleMovingAverage (X K)) ((p ++ h).map X.fin))
      = lastOut (runOut SimpleMovingAverage.next (SimpleMovingAverage.fresh n : SimpleMovingAverage (X K)) (h.map X.fin)) := by
  obtain ⟨s1, e1⟩ := SimpleMovingAverage.stream (K := K) n hn h8 (p ++ h)
  obtain ⟨s2, e2⟩ := SimpleMovingAverage.stream (K := K) n hn h8 h
  have hne : h ≠ [] := by intro e; simp [e] at hl; omega
  have hne2 : p ++ h ≠ [] := by simp [hne]
  rw [e1, e2]
  simp only [lastOut, Option.bind_some]
  rw [prefixes_getLast _ _ hne2, prefixes_getLast _ _ hne, lastN_append n p h hl]

theorem wma_forgets (n : Nat) (hn : 0 < n) (h8 : n * 8 ≤ isizeMax) (p h : List K) (hl : n ≤ h.length) :
    lastOut (runOut WeightedMovingAverage.next (WeightedMovingAverage.fresh n : WeightedMovingAverage (X K)) ((p ++ h).map X.fin))
      = lastOut (runOut WeightedMovingAverage.next (WeightedMovingAverage.fresh n : WeightedMovingAverage (X K)) (h.map X.fin)) := by
  obtain ⟨s1, e1⟩ := WeightedMovingAverage.stream (K := K) n hn h8 (p ++ h)
  obtain ⟨s2, e2⟩ := WeightedMovingAverage.stream (K := K) n hn h8 h
  have hne : h ≠ [] := by intro e; simp [e] at hl; omega
  have hne2 : p ++ h ≠ [] := by simp [hne]
  rw [e1, e2]
  simp only [lastOut, Option.bind_some]
  rw [prefixes_getLast _ _ hne2, prefixes_getLast _ _ hne, lastN_append n p h hl]

theorem sd_forgets (n : Nat) (hn : 0 < n) (h8 : n * 8 ≤ isizeMax) (p h : List K) (hl : n ≤ h.length) :
    lastOut (runOut StandardDeviation.next (StandardDeviation.fresh n : StandardDeviation (X K)) ((p ++ h).map X.fin))
      = lastOut (runOut StandardDeviation.next (StandardDeviation.fresh n : StandardDeviation (X K)) (h.map X.fin)) := by
  obtain ⟨s1, e1⟩ := StandardDeviation.stream (K := K) n hn h8 (p ++ h)
  obtain ⟨s2, e2⟩ := StandardDeviation.stream (K := K) n hn h8 h
  have hne : h ≠ [] := by intro e; simp [e] at hl; omega
  have hne2 : p ++ h ≠ [] := by simp [hne]
  rw [e1, e2]
  simp only [lastOut, Option.bind_some]
  rw [prefixes_getLast _ _ hne2, prefixes_getLast _ _ hne, lastN_append n p h hl]

theorem mad_forgets (n : Nat) (hn : 0 < n) (h8 : n * 8 ≤ isizeMax) (p h : List K) (hl : n ≤ h.length) :
    lastOut (runOut MeanAbsoluteDeviation.next (MeanAbsoluteDeviation.fresh n : MeanAbsoluteDeviation (X K)) ((p ++ h).map X.fin))
      = lastOut (runOut MeanAbsoluteDeviation.next (MeanAbsoluteDeviation.fresh n : MeanAbsoluteDeviation (X K)) (h.map X.fin)) := by
  obtain ⟨s1, e1⟩ := MeanAbsoluteDeviation.stream (K := K) n hn h8 (p ++ h)
  obtain ⟨s2, e2⟩ := MeanAbsoluteDeviation.stream (K := K) n hn h8 h
  have hne : h ≠ [] := by intro e; simp [e] at hl; omega
  have hne2 : p ++ h ≠ [] := by simp [hne]
  rw [e1, e2]
  simp only [lastOut, Option.bind_some]
  rw [prefixes_getLast _ _ hne2, prefixes_getLast _ _ hne, lastN_append n p h hl]

theorem bb_forgets (n : Nat) (hn : 0 < n) (h8 : n * 8 ≤ isizeMax) (m : K) (p h : List K) (hl : n ≤ h.length) :
    lastOut (runOut BollingerBands.next (BollingerBands.fresh n (X.fin m) : BollingerBands (X K)) ((p ++ h).map X.fin))
      = lastOut (runOut BollingerBands.next (BollingerBands.fresh n (X.fin m) : BollingerBands (X K)) (h.map X.fin)) := by
  obtain ⟨s1, e1⟩ := BollingerBands.stream (K := K) n hn h8 m (p ++ h)
  obtain ⟨s2, e2⟩ := BollingerBands.stream (K := K) n hn h8 m h
  have hne : h ≠ [] := by intro e; simp [e] at hl; omega
  have hne2 : p ++ h ≠ [] := by simp [hne]
  rw [e1, e2]
  simp only [lastOut, Option.bind_some]
  rw [prefixes_getLast _ _ hne2, prefixes_getLast _ _ hne, lastN_append n p h hl]

/-- Minimum (order only): after any history the output is the least element of the last n inputs
    of the common suffix — the prefix `p` does not occur in the statement at all -/
theorem minimum_forgets (n : Nat) (hn : 0 < n) (h8 : n * 8 ≤ isizeMax) (p h : List K) (hl : n ≤ h.length) :
    ∃ s' outs m, runOut Minimum.next (Minimum.fresh n : Minimum (X K)) ((p ++ h).map X.fin) = some (s', outs) ∧
      outs.getLast? = some (X.fin m) ∧ m ∈ lastN n h ∧ ∀ y ∈ lastN n h, m ≤ y := by
  obtain ⟨s', outs, e, hlen, hall⟩ := Minimum.stream (K := K) n hn h8 (p ++ h)
  have hpos : 0 < (p ++ h).length := by simp; omega
  obtain ⟨m, hm, hmem, hle⟩ := hall ((p ++ h).length - 1) (by omega)
  rw [show (p ++ h).length - 1 + 1 = (p ++ h).length by omega, List.take_length, lastN_append n p h hl] at hmem hle
  refine ⟨s', outs, m, e, ?_, hmem, hle⟩
  rw [List.getLast?_eq_getElem?, hlen]; exact hm

theorem maximum_forgets (n : Nat) (hn : 0 < n) (h8 : n * 8 ≤ isizeMax) (p h : List K) (hl : n ≤ h.length) :
    ∃ s' outs m, runOut Maximum.next (Maximum.fresh n : Maximum (X K)) ((p ++ h).map X.fin) = some (s', outs) ∧
      outs.getLast? = some (X.fin m) ∧ m ∈ lastN n h ∧ ∀ y ∈ lastN n h, y ≤ m := by
  obtain ⟨s', outs, e, hlen, hall⟩ := Maximum.stream (K := K) n hn h8 (p ++ h)
  have hpos : 0 < (p ++ h).length := by simp; omega
  obtain ⟨m, hm, hmem, hle⟩ := hall ((p ++ h).length - 1) (by omega)
  rw [show (p ++ h).length - 1 + 1 = (p ++ h).length by omega, List.take_length, lastN_append n p h hl] at hmem hle
  refine ⟨s', outs, m, e, ?_, hmem, hle⟩
  rw [List.getLast?_eq_getElem?, hlen]; exact hm

/-- non-vacuity at ℚ: a 10^6 spike in the prefix, period 2 -/
example :
    lastOut (runOut SimpleMovingAverage.next (SimpleMovingAverage.fresh 2 : SimpleMovingAverage (X Rat)) ([1000000, 7, 1, 3].map X.fin))
      = some (X.fin 2) := by decide +kernel

end TaRs.Props.C17
