/-
  C15, exact part: BollingerBands.average equals SimpleMovingAverage of the same period.
  The two are DIFFERENT computations (Welford running mean vs running sum / count), equal in
  exact arithmetic: both are the mean of exactly the last min(t, n) inputs (C01).  In f64 they
  agree within τ(t)·M (sampled by the harness).  The half-width/SD clause and all other
  composites are L0 simulation identities in Props/C15.lean.
-/
import TaRs.Props.C01
set_option linter.unusedSectionVars false
namespace TaRs.Props.C15
open TaRs TaRs.Gen TaRs.Rs TaRs.Spec

variable {K : Type} [Field K] [LinearOrder K] [IsStrictOrderedRing K] [HasSqrt K]

/-- on every finite stream, at every prefix: BB.average = SMA (same period) -/
theorem bb_average_is_sma (n : Nat) (hn : 0 < n) (h8 : n * 8 ≤ isizeMax) (m : K) (xs : List K) :
    ∃ sb ss bbs smas,
      runOut BollingerBands.next (BollingerBands.fresh n (X.fin m) : BollingerBands (X K)) (xs.map X.fin) = some (sb, bbs) ∧
      runOut SimpleMovingAverage.next (SimpleMovingAverage.fresh n : SimpleMovingAverage (X K)) (xs.map X.fin) = some (ss, smas) ∧
      bbs.map (·.average) = smas := by
  obtain ⟨sb, eb⟩ := BollingerBands.stream (K := K) n hn h8 m xs
  obtain ⟨ss, es⟩ := SimpleMovingAverage.stream (K := K) n hn h8 xs
  refine ⟨sb, ss, _, _, eb, es, ?_⟩
  simp [List.map_map, Function.comp_def]

end TaRs.Props.C15
