/-
  C14 (continued) — unit covariance of the dimensionless oscillators and of the remaining
  price-valued indicators, at `X K`, through their exact specs (`Lemmas/Exact/*`).

    RateOfChange      rocSpec(c·p) = rocSpec(p)                       (c ≠ 0)
    EfficiencyRatio   erSpec(c·p)  = erSpec(p)                        (c ≠ 0; the initial buffer
                      content 0 the first outputs refer to is scale-invariant — it is NOT
                      shift-invariant, so there is no shift law for the warm-up outputs)
    FastStochastic    pct(f x, f lo, f hi) = pct(x, lo, hi) for f = (c·) with c > 0 and f = (· + d);
                      the window extremes commute with monotone maps (`least_map_mono`)
    CCI               cciK(c·t, c·W) = cciK(t, W) (c > 0), cciK(t + d, W + d) = cciK(t, W)
    MoneyFlowIndex    scaling PRICES by c > 0 (volumes unchanged) multiplies every signed flow
                      by c and leaves `mfiW` unchanged
    TrueRange         scalar and bar path: TR(c·x) = c·TR(x) (c ≥ 0), TR(x + d) = TR(x)

  Shape of the stream corollaries as in `Props/C14`: ONE initial state `s0 = new(n)`, two runs —
  over the stream and over the transformed stream — with the SAME output list (dimensionless
  outputs) resp. the pointwise scaled one (TrueRange).
-/
import TaRs.Props.C14
import TaRs.Lemmas.Exact.RateOfChange
import TaRs.Lemmas.Exact.EfficiencyRatio
import TaRs.Lemmas.Exact.FastStochastic
import TaRs.Lemmas.Exact.CommodityChannelIndex
import TaRs.Lemmas.Exact.MoneyFlowIndex
set_option linter.unusedSectionVars false
namespace TaRs.Props.C14
open TaRs TaRs.Gen TaRs.Rs TaRs.Spec

variable {K : Type} [Field K] [LinearOrder K] [IsStrictOrderedRing K] [HasSqrt K]

private theorem mem_prefixes_ne_nil_b {α : Type} {xs h : List α} (hh : h ∈ prefixes xs) : h ≠ [] := by
  simp only [prefixes, List.mem_map, List.mem_range] at hh
  obtain ⟨i, hi, rfl⟩ := hh
  intro e
  have := congrArg List.length e
  rw [List.length_take, List.length_nil] at this
  omega

private theorem snoc_cases {α : Type} (p : List α) : p = [] ∨ ∃ h x, p = h ++ [x] := by
  rcases List.eq_nil_or_concat p with e | ⟨h, x, e⟩
  · exact Or.inl e
  · exact Or.inr ⟨h, x, by simpa using e⟩

private theorem map_snoc (f : K → K) (h : List K) (x : K) : (h ++ [x]).map f = h.map f ++ [f x] := by
  simp

/-! ## RateOfChange -/

theorem base_scale (c : K) (n : Nat) (h : List K) (x : K) :
    RateOfChange.base n (h.map (fun x => c * x)) (c * x) = c * RateOfChange.base n h x := by
  unfold RateOfChange.base
  simp only [List.length_map, List.getElem?_map, List.head?_map]
  split
  · cases h[h.length - n]? <;> simp
  · cases h.head? <;> simp

/-- ROC is dimensionless: `100·(c·x − c·b)/(c·b) = 100·(x − b)/b` for every `c ≠ 0` -/
theorem rocSpec_scale (c : K) (hc : c ≠ 0) (n : Nat) (p : List K) :
    RateOfChange.rocSpec n (p.map (fun x => c * x)) = RateOfChange.rocSpec n p := by
  rcases snoc_cases p with rfl | ⟨h, x, rfl⟩
  · rfl
  · rw [map_snoc, RateOfChange.rocSpec_snoc, RateOfChange.rocSpec_snoc, base_scale, ← mul_sub,
      mul_div_mul_left _ _ hc]

/-- the generated ROC on a stream of non-zero prices and on the same stream in another unit:
    identical outputs -/
theorem roc_scale (c : K) (hc : c ≠ 0) (n : Nat) (hn : 0 < n) (h8 : n * 8 ≤ isizeMax) (xs : List K)
    (hxs : ∀ x ∈ xs, x ≠ 0) :
    ∃ s0 s1 s2, (RateOfChange.new n : Res (RateOfChange (X K))) = .ok s0 ∧
      runOut RateOfChange.next s0 (xs.map X.fin)
        = some (s1, (prefixes xs).map (fun p => X.fin (RateOfChange.rocSpec n p))) ∧
      runOut RateOfChange.next s0 ((xs.map (fun x => c * x)).map X.fin)
        = some (s2, (prefixes xs).map (fun p => X.fin (RateOfChange.rocSpec n p))) := by
  obtain ⟨s1, e1⟩ := RateOfChange.stream (K := K) n hn h8 xs hxs
  obtain ⟨s2, e2⟩ := RateOfChange.stream (K := K) n hn h8 (xs.map (fun x => c * x)) (by
    intro y hy
    obtain ⟨x, hx, rfl⟩ := List.mem_map.mp hy
    exact mul_ne_zero hc (hxs x hx))
  refine ⟨_, s1, s2, by rw [RateOfChange.new_eq]; simp [Nat.ne_of_gt hn, h8], e1, ?_⟩
  rw [e2, prefixes_map, List.map_map]
  congr 2
  apply List.map_congr_left
  intro p _
  simp only [Function.comp, rocSpec_scale c hc]

/-! ## EfficiencyRatio -/

theorem pathLen_scale (c : K) (l : List K) :
    EfficiencyRatio.pathLen (l.map (fun x => c * x)) = |c| * EfficiencyRatio.pathLen l := by
  induction l with
  | nil => simp
  | cons a t ih =>
    cases t with
    | nil => simp
    | cons b t' =>
      simp only [List.map_cons, EfficiencyRatio.pathLen_cons_cons] at ih ⊢
      rw [ih, ← mul_sub, abs_mul]
      ring

theorem erFirst_scale (c : K) (n : Nat) (h : List K) :
    EfficiencyRatio.erFirst n (h.map (fun x => c * x)) = c * EfficiencyRatio.erFirst n h := by
  unfold EfficiencyRatio.erFirst
  simp only [List.length_map, List.getElem?_map, List.head?_map]
  split
  · cases h[h.length - n]? <;> simp
  · cases h.head? <;> simp

/-- ER is dimensionless, the first output included (its reference is the initial buffer
    content 0 = c·0) -/
theorem erOut_scale (c : K) (hc : c ≠ 0) (n : Nat) (h : List K) (x : K) :
    EfficiencyRatio.erOut n (h.map (fun x => c * x)) (c * x) = EfficiencyRatio.erOut n h x := by
  have hac : |c| ≠ 0 := abs_ne_zero.mpr hc
  unfold EfficiencyRatio.erOut
  simp only
  rw [erFirst_scale, ← map_snoc (fun x => c * x) h x, lastN_map, ← List.map_cons (f := fun x => c * x),
    pathLen_scale]
  by_cases hv : EfficiencyRatio.pathLen (EfficiencyRatio.erFirst n h :: lastN n (h ++ [x])) = 0
  · simp [hv]
  · rw [if_neg (mul_ne_zero hac hv), if_neg hv, ← mul_sub, abs_mul, mul_div_mul_left _ _ hac]

theorem erSpec_scale (c : K) (hc : c ≠ 0) (n : Nat) (p : List K) :
    EfficiencyRatio.erSpec n (p.map (fun x => c * x)) = EfficiencyRatio.erSpec n p := by
  rcases snoc_cases p with rfl | ⟨h, x, rfl⟩
  · rfl
  · rw [map_snoc, EfficiencyRatio.erSpec_snoc, EfficiencyRatio.erSpec_snoc, erOut_scale c hc]

theorem er_scale (c : K) (hc : c ≠ 0) (n : Nat) (hn : 0 < n) (h8 : n * 8 ≤ isizeMax) (xs : List K) :
    ∃ s0 s1 s2, (EfficiencyRatio.new n : Res (EfficiencyRatio (X K))) = .ok s0 ∧
      runOut EfficiencyRatio.next s0 (xs.map X.fin)
        = some (s1, (prefixes xs).map (fun p => X.fin (EfficiencyRatio.erSpec n p))) ∧
      runOut EfficiencyRatio.next s0 ((xs.map (fun x => c * x)).map X.fin)
        = some (s2, (prefixes xs).map (fun p => X.fin (EfficiencyRatio.erSpec n p))) := by
  obtain ⟨s1, e1⟩ := EfficiencyRatio.stream (K := K) n hn h8 xs
  obtain ⟨s2, e2⟩ := EfficiencyRatio.stream (K := K) n hn h8 (xs.map (fun x => c * x))
  refine ⟨_, s1, s2, by rw [EfficiencyRatio.new_eq]; simp [Nat.ne_of_gt hn, h8], e1, ?_⟩
  rw [e2, prefixes_map, List.map_map]
  congr 2
  apply List.map_congr_left
  intro p _
  simp only [Function.comp, erSpec_scale c hc]

/-! ## FastStochastic -/

/-- the %K formula is invariant under a change of unit … -/
theorem pct_scale (c : K) (hc : c ≠ 0) (x lo hi : K) :
    FastStochastic.pct (c * x) (c * lo) (c * hi) = FastStochastic.pct x lo hi := by
  unfold FastStochastic.pct
  by_cases e : lo = hi
  · simp [e]
  · have e' : ¬ (c * lo = c * hi) := fun h => e (mul_left_cancel₀ hc h)
    rw [if_neg e, if_neg e', ← mul_sub, ← mul_sub, mul_div_mul_left _ _ hc]

/-- … and under a change of origin -/
theorem pct_shift (d : K) (x lo hi : K) :
    FastStochastic.pct (x + d) (lo + d) (hi + d) = FastStochastic.pct x lo hi := by
  unfold FastStochastic.pct
  by_cases e : lo = hi
  · simp [e]
  · have e' : ¬ (lo + d = hi + d) := fun h => e (add_right_cancel h)
    rw [if_neg e, if_neg e', add_sub_add_right_eq_sub, add_sub_add_right_eq_sub]

/-- FastStochastic(f ∘ x) = FastStochastic(x) for every monotone `f` that leaves the %K formula
    invariant: same initial state, two runs, EQUAL output lists; at every index the common
    output is `pct x lo hi` with `lo` / `hi` the least / greatest of the window -/
theorem faststoch_map (f : K → K) (hf : Monotone f)
    (hp : ∀ x lo hi : K, FastStochastic.pct (f x) (f lo) (f hi) = FastStochastic.pct x lo hi)
    (n : Nat) (hn : 0 < n) (h8 : n * 8 ≤ isizeMax) (xs : List K) :
    ∃ s0 s1 s2 outs, (FastStochastic.new n : Res (FastStochastic (X K))) = .ok s0 ∧
      runOut FastStochastic.next s0 (xs.map X.fin) = some (s1, outs) ∧
      runOut FastStochastic.next s0 ((xs.map f).map X.fin) = some (s2, outs) ∧
      outs.length = xs.length ∧
      ∀ i, i < xs.length → ∃ x lo hi, xs[i]? = some x ∧
        (lo ∈ lastN n (xs.take (i + 1)) ∧ ∀ y ∈ lastN n (xs.take (i + 1)), lo ≤ y) ∧
        (hi ∈ lastN n (xs.take (i + 1)) ∧ ∀ y ∈ lastN n (xs.take (i + 1)), y ≤ hi) ∧
        outs[i]? = some (X.fin (FastStochastic.pct x lo hi)) := by
  obtain ⟨s1, outs, e1, l1, h1⟩ := FastStochastic.stream (K := K) n hn h8 xs
  obtain ⟨s2, outs', e2, l2, h2⟩ := FastStochastic.stream (K := K) n hn h8 (xs.map f)
  rw [List.length_map] at l2
  have key : ∀ i, i < xs.length → ∃ x lo hi, xs[i]? = some x ∧
      (lo ∈ lastN n (xs.take (i + 1)) ∧ ∀ y ∈ lastN n (xs.take (i + 1)), lo ≤ y) ∧
      (hi ∈ lastN n (xs.take (i + 1)) ∧ ∀ y ∈ lastN n (xs.take (i + 1)), y ≤ hi) ∧
      outs[i]? = some (X.fin (FastStochastic.pct x lo hi)) ∧
      outs'[i]? = some (X.fin (FastStochastic.pct x lo hi)) := by
    intro i hi
    obtain ⟨x, lo, hi_, ex, ⟨a1, a2⟩, ⟨a3, a4⟩, eo⟩ := h1 i hi
    obtain ⟨x', lo', hi', ex', ⟨b1, b2⟩, ⟨b3, b4⟩, eo'⟩ := h2 i (by rw [List.length_map]; exact hi)
    rw [← List.map_take, lastN_map] at b1 b2 b3 b4
    have hx : x' = f x := by
      rw [List.getElem?_map, ex] at ex'
      exact (Option.some.inj ex').symm
    have hlo := least_map_mono f hf _ lo lo' a1 a2 b1 b2
    have hhi := greatest_map_mono f hf _ hi_ hi' a3 a4 b3 b4
    subst hx hlo hhi
    refine ⟨x, lo, hi_, ex, ⟨a1, a2⟩, ⟨a3, a4⟩, ?_, ?_⟩
    · rw [eo, FastStochastic.ite_fin_pct]
    · rw [eo', FastStochastic.ite_fin_pct, hp]
  have heq : outs' = outs := by
    apply List.ext_getElem?
    intro i
    by_cases hi : i < xs.length
    · obtain ⟨x, lo, hi_, _, _, _, o1, o2⟩ := key i hi
      rw [o1, o2]
    · rw [List.getElem?_eq_none (by omega), List.getElem?_eq_none (by omega)]
  subst heq
  refine ⟨_, s1, s2, outs', by rw [FastStochastic.new_eq]; simp [Nat.ne_of_gt hn, h8], e1, e2, l1, ?_⟩
  intro i hi
  obtain ⟨x, lo, hi_, ex, hlo, hhi, o1, _⟩ := key i hi
  exact ⟨x, lo, hi_, ex, hlo, hhi, o1⟩

/-- %K(c·x) = %K(x) for `c > 0` -/
theorem faststoch_scale (c : K) (hc : 0 < c) (n : Nat) (hn : 0 < n) (h8 : n * 8 ≤ isizeMax) (xs : List K) :
    ∃ s0 s1 s2 outs, (FastStochastic.new n : Res (FastStochastic (X K))) = .ok s0 ∧
      runOut FastStochastic.next s0 (xs.map X.fin) = some (s1, outs) ∧
      runOut FastStochastic.next s0 ((xs.map (fun x => c * x)).map X.fin) = some (s2, outs) ∧
      outs.length = xs.length ∧
      ∀ i, i < xs.length → ∃ x lo hi, xs[i]? = some x ∧
        (lo ∈ lastN n (xs.take (i + 1)) ∧ ∀ y ∈ lastN n (xs.take (i + 1)), lo ≤ y) ∧
        (hi ∈ lastN n (xs.take (i + 1)) ∧ ∀ y ∈ lastN n (xs.take (i + 1)), y ≤ hi) ∧
        outs[i]? = some (X.fin (FastStochastic.pct x lo hi)) :=
  faststoch_map (fun x => c * x) (fun _ _ h => mul_le_mul_of_nonneg_left h (le_of_lt hc))
    (pct_scale c (ne_of_gt hc)) n hn h8 xs

/-- %K(x + d) = %K(x) -/
theorem faststoch_shift (d : K) (n : Nat) (hn : 0 < n) (h8 : n * 8 ≤ isizeMax) (xs : List K) :
    ∃ s0 s1 s2 outs, (FastStochastic.new n : Res (FastStochastic (X K))) = .ok s0 ∧
      runOut FastStochastic.next s0 (xs.map X.fin) = some (s1, outs) ∧
      runOut FastStochastic.next s0 ((xs.map (fun x => x + d)).map X.fin) = some (s2, outs) ∧
      outs.length = xs.length ∧
      ∀ i, i < xs.length → ∃ x lo hi, xs[i]? = some x ∧
        (lo ∈ lastN n (xs.take (i + 1)) ∧ ∀ y ∈ lastN n (xs.take (i + 1)), lo ≤ y) ∧
        (hi ∈ lastN n (xs.take (i + 1)) ∧ ∀ y ∈ lastN n (xs.take (i + 1)), y ≤ hi) ∧
        outs[i]? = some (X.fin (FastStochastic.pct x lo hi)) :=
  faststoch_map (fun x => x + d) (fun _ _ h => by dsimp only; linarith)
    (pct_shift d) n hn h8 xs

/-! ## bars in another unit / with another origin (prices only; the volume is not a price) -/

/-- all four prices of a bar multiplied by `c`; volume unchanged -/
def scaleBar (c : K) (b : Bar K) : Bar K :=
  ⟨c * b.open_, c * b.high, c * b.low, c * b.close, b.volume⟩

/-- all four prices of a bar shifted by `d`; volume unchanged -/
def shiftBar (d : K) (b : Bar K) : Bar K :=
  ⟨b.open_ + d, b.high + d, b.low + d, b.close + d, b.volume⟩

theorem tpBar_scale (c : K) (b : Bar K) :
    CommodityChannelIndex.tpBar (scaleBar c b) = c * CommodityChannelIndex.tpBar b := by
  simp only [CommodityChannelIndex.tpBar, CommodityChannelIndex.tpK, scaleBar]
  ring

theorem tpBar_shift (d : K) (b : Bar K) :
    CommodityChannelIndex.tpBar (shiftBar d b) = CommodityChannelIndex.tpBar b + d := by
  simp only [CommodityChannelIndex.tpBar, CommodityChannelIndex.tpK, shiftBar]
  ring

theorem map_tpBar_scale (c : K) (bs : List (Bar K)) :
    (bs.map (scaleBar c)).map CommodityChannelIndex.tpBar
      = (bs.map CommodityChannelIndex.tpBar).map (fun x => c * x) := by
  simp only [List.map_map]
  apply List.map_congr_left
  intro b _
  simp only [Function.comp, tpBar_scale]

theorem map_tpBar_shift (d : K) (bs : List (Bar K)) :
    (bs.map (shiftBar d)).map CommodityChannelIndex.tpBar
      = (bs.map CommodityChannelIndex.tpBar).map (fun x => x + d) := by
  simp only [List.map_map]
  apply List.map_congr_left
  intro b _
  simp only [Function.comp, tpBar_shift]

/-! ## CommodityChannelIndex -/

/-- CCI is dimensionless: `(c·t − c·mean)/(c·mad·0.015) = (t − mean)/(mad·0.015)` for `c > 0` -/
theorem cciK_scale (c : K) (hc : 0 < c) (t : K) (W : List K) :
    CommodityChannelIndex.cciK (c * t) (W.map (fun x => c * x)) = CommodityChannelIndex.cciK t W := by
  have hc0 : c ≠ 0 := ne_of_gt hc
  unfold CommodityChannelIndex.cciK
  rw [mad_scale c (le_of_lt hc), mean_scale]
  by_cases hz : mad W = 0
  · simp [hz]
  · rw [if_neg (mul_ne_zero hc0 hz), if_neg hz, ← mul_sub, mul_assoc, mul_div_mul_left _ _ hc0]

/-- CCI does not depend on the origin of the price scale (every window, the empty one included) -/
theorem cciK_shift (d : K) (t : K) (W : List K) :
    CommodityChannelIndex.cciK (t + d) (W.map (fun x => x + d)) = CommodityChannelIndex.cciK t W := by
  unfold CommodityChannelIndex.cciK
  rw [mad_shift]
  by_cases hW : W = []
  · subst hW; simp [mad]
  · rw [mean_shift d W hW, add_sub_add_right_eq_sub]

private theorem getLast_getD_map (f : K → K) (p : List K) (hp : p ≠ []) :
    (p.map f).getLast?.getD 0 = f (p.getLast?.getD 0) := by
  rcases snoc_cases p with rfl | ⟨h, x, rfl⟩
  · exact absurd rfl hp
  · simp

/-- CCI on bars and on the same bars with all prices in another unit: identical outputs -/
theorem cci_scale (c : K) (hc : 0 < c) (n : Nat) (hn : 0 < n) (h8 : n * 8 ≤ isizeMax) (bs : List (Bar K)) :
    ∃ s0 s1 s2 outs, (CommodityChannelIndex.new n : Res (CommodityChannelIndex (X K))) = .ok s0 ∧
      runOut CommodityChannelIndex.nextBar s0 (bs.map CommodityChannelIndex.finBar) = some (s1, outs) ∧
      runOut CommodityChannelIndex.nextBar s0 ((bs.map (scaleBar c)).map CommodityChannelIndex.finBar)
        = some (s2, outs) ∧
      outs = (prefixes (bs.map CommodityChannelIndex.tpBar)).map
        (fun p => X.fin (CommodityChannelIndex.cciK (p.getLast?.getD 0) (lastN n p))) := by
  obtain ⟨s1, e1⟩ := CommodityChannelIndex.stream (K := K) n hn h8 bs
  obtain ⟨s2, e2⟩ := CommodityChannelIndex.stream (K := K) n hn h8 (bs.map (scaleBar c))
  refine ⟨_, s1, s2, _, by rw [CommodityChannelIndex.new_eq]; simp [Nat.ne_of_gt hn, h8], e1, ?_, rfl⟩
  rw [e2, map_tpBar_scale, prefixes_map, List.map_map]
  congr 2
  apply List.map_congr_left
  intro p hp
  simp only [Function.comp]
  rw [getLast_getD_map _ p (mem_prefixes_ne_nil_b hp), lastN_map, cciK_scale c hc]

/-- CCI on bars and on the same bars with all prices shifted by `d`: identical outputs -/
theorem cci_shift (d : K) (n : Nat) (hn : 0 < n) (h8 : n * 8 ≤ isizeMax) (bs : List (Bar K)) :
    ∃ s0 s1 s2 outs, (CommodityChannelIndex.new n : Res (CommodityChannelIndex (X K))) = .ok s0 ∧
      runOut CommodityChannelIndex.nextBar s0 (bs.map CommodityChannelIndex.finBar) = some (s1, outs) ∧
      runOut CommodityChannelIndex.nextBar s0 ((bs.map (shiftBar d)).map CommodityChannelIndex.finBar)
        = some (s2, outs) ∧
      outs = (prefixes (bs.map CommodityChannelIndex.tpBar)).map
        (fun p => X.fin (CommodityChannelIndex.cciK (p.getLast?.getD 0) (lastN n p))) := by
  obtain ⟨s1, e1⟩ := CommodityChannelIndex.stream (K := K) n hn h8 bs
  obtain ⟨s2, e2⟩ := CommodityChannelIndex.stream (K := K) n hn h8 (bs.map (shiftBar d))
  refine ⟨_, s1, s2, _, by rw [CommodityChannelIndex.new_eq]; simp [Nat.ne_of_gt hn, h8], e1, ?_, rfl⟩
  rw [e2, map_tpBar_shift, prefixes_map, List.map_map]
  congr 2
  apply List.map_congr_left
  intro p hp
  simp only [Function.comp]
  rw [getLast_getD_map _ p (mem_prefixes_ne_nil_b hp), lastN_map, cciK_shift d]

/-! ## MoneyFlowIndex: prices in another unit, volumes unchanged -/

theorem flowK_scale (c : K) (hc : 0 < c) (p t v : K) :
    MoneyFlowIndex.flowK (c * p) (c * t) v = c * MoneyFlowIndex.flowK p t v := by
  have h1 : ∀ a b : K, c * a < c * b ↔ a < b := fun a b =>
    ⟨fun h => lt_of_mul_lt_mul_left h (le_of_lt hc), fun h => mul_lt_mul_of_pos_left h hc⟩
  unfold MoneyFlowIndex.flowK
  simp only [h1]
  by_cases c4 : p < t
  · simp only [c4, if_true]; ring
  · by_cases c5 : t < p
    · simp only [c4, c5, if_true, if_false]; ring
    · simp [c4, c5]

theorem flowsFrom_scale (c : K) (hc : 0 < c) (q : K) (bs : List (Bar K)) :
    MoneyFlowIndex.flowsFrom (c * q) (bs.map (scaleBar c))
      = (MoneyFlowIndex.flowsFrom q bs).map (fun x => c * x) := by
  induction bs generalizing q with
  | nil => rfl
  | cons b t ih =>
    have hv : (scaleBar c b).volume = b.volume := rfl
    simp only [List.map_cons, MoneyFlowIndex.flowsFrom, tpBar_scale, hv, flowK_scale c hc, ih]

/-- every signed flow is multiplied by `c` -/
theorem flows_scale (c : K) (hc : 0 < c) (bs : List (Bar K)) :
    MoneyFlowIndex.flows (bs.map (scaleBar c)) = (MoneyFlowIndex.flows bs).map (fun x => c * x) := by
  cases bs with
  | nil => rfl
  | cons b t => simp only [List.map_cons, MoneyFlowIndex.flows, tpBar_scale, flowsFrom_scale c hc]

theorem posFlow_scale (c : K) (hc : 0 ≤ c) (w : List K) :
    MoneyFlowIndex.posFlow (w.map (fun x => c * x)) = c * MoneyFlowIndex.posFlow w := by
  unfold MoneyFlowIndex.posFlow
  induction w with
  | nil => simp
  | cons a t ih =>
    have : MoneyFlowIndex.pp (c * a) = c * MoneyFlowIndex.pp a := by
      unfold MoneyFlowIndex.pp
      rw [mul_max_of_nonneg _ _ hc, mul_zero]
    simp only [List.map_cons, List.sum_cons] at ih ⊢
    rw [ih, this]; ring

theorem negFlow_scale (c : K) (hc : 0 ≤ c) (w : List K) :
    MoneyFlowIndex.negFlow (w.map (fun x => c * x)) = c * MoneyFlowIndex.negFlow w := by
  unfold MoneyFlowIndex.negFlow
  induction w with
  | nil => simp
  | cons a t ih =>
    have : MoneyFlowIndex.np (c * a) = c * MoneyFlowIndex.np a := by
      unfold MoneyFlowIndex.np
      rw [mul_max_of_nonneg _ _ hc, mul_zero, mul_neg]
    simp only [List.map_cons, List.sum_cons] at ih ⊢
    rw [ih, this]; ring

theorem mfiOut_scale (c : K) (hc : c ≠ 0) (P N : K) :
    (MoneyFlowIndex.mfiOut (c * P) (c * N) : X K) = MoneyFlowIndex.mfiOut P N := by
  unfold MoneyFlowIndex.mfiOut
  rw [← mul_add]
  by_cases hz : P + N = 0
  · simp [hz]
  · rw [if_neg (mul_ne_zero hc hz), if_neg hz, mul_div_mul_left _ _ hc]

/-- MFI of a window of signed flows does not change when every flow is multiplied by `c > 0` -/
theorem mfiW_scale (c : K) (hc : 0 < c) (w : List K) :
    (MoneyFlowIndex.mfiW (w.map (fun x => c * x)) : X K) = MoneyFlowIndex.mfiW w := by
  unfold MoneyFlowIndex.mfiW
  rw [posFlow_scale c (le_of_lt hc), negFlow_scale c (le_of_lt hc), mfiOut_scale c (ne_of_gt hc)]

/-- MFI on a bar stream (non-negative raw flows) and on the same bars with all PRICES in another
    unit (volumes unchanged): identical outputs -/
theorem mfi_scale (c : K) (hc : 0 < c) (n : Nat) (hn : 0 < n) (h8 : n * 8 ≤ isizeMax)
    (b0 : Bar K) (bs : List (Bar K))
    (hv : ∀ b ∈ bs, 0 ≤ CommodityChannelIndex.tpBar b * b.volume) :
    ∃ s0 s1 s2 outs, (MoneyFlowIndex.new n : Res (MoneyFlowIndex (X K))) = .ok s0 ∧
      runOut MoneyFlowIndex.nextBar s0 ((b0 :: bs).map CommodityChannelIndex.finBar) = some (s1, outs) ∧
      runOut MoneyFlowIndex.nextBar s0 (((b0 :: bs).map (scaleBar c)).map CommodityChannelIndex.finBar)
        = some (s2, outs) ∧
      outs = X.fin 50 :: (prefixes (MoneyFlowIndex.flows (b0 :: bs))).map
        (fun q => MoneyFlowIndex.mfiW (lastN n q)) := by
  obtain ⟨s1, e1⟩ := MoneyFlowIndex.stream (K := K) n hn h8 b0 bs hv
  obtain ⟨s2, e2⟩ := MoneyFlowIndex.stream (K := K) n hn h8 (scaleBar c b0) (bs.map (scaleBar c)) (by
    intro b hb
    obtain ⟨b', hb', rfl⟩ := List.mem_map.mp hb
    have hvol : (scaleBar c b').volume = b'.volume := rfl
    rw [tpBar_scale, hvol, mul_assoc]
    exact mul_nonneg (le_of_lt hc) (hv b' hb'))
  refine ⟨_, s1, s2, _, by rw [MoneyFlowIndex.new_eq]; simp [Nat.ne_of_gt hn, h8], e1, ?_, rfl⟩
  rw [List.map_cons, e2, ← List.map_cons (f := scaleBar c), flows_scale c hc, prefixes_map, List.map_map]
  congr 3
  apply List.map_congr_left
  intro q _
  simp only [Function.comp]
  rw [lastN_map, mfiW_scale c hc]

/-! ## TrueRange at `X K` -/

/-- scalar true range on the exact field, continued after `prev` -/
def trFromK (prev : K) : List K → List K
  | [] => []
  | x :: xs => |x - prev| :: trFromK x xs

/-- scalar true range of a whole history on the exact field: `0`, then `|x − previous x|` -/
def trSeqK : List K → List K
  | [] => []
  | x :: xs => 0 :: trFromK x xs

theorem trFrom_fin (prev : K) (xs : List K) :
    C02.trFrom (X.fin prev) (xs.map X.fin) = (trFromK prev xs).map X.fin := by
  induction xs generalizing prev with
  | nil => rfl
  | cons x t ih => simp only [List.map_cons, C02.trFrom, trFromK, ih, X.sub_fin, X.abs_fin]

/-- the spec of C02 evaluated at `X K` on finite data is the exact-field recursion -/
theorem trSeq_fin (xs : List K) : C02.trSeq (xs.map X.fin) = (trSeqK xs).map X.fin := by
  cases xs with
  | nil => rfl
  | cons x t => simp only [List.map_cons, C02.trSeq, trSeqK, trFrom_fin, X.lit_zero]

theorem trFromK_scale (c : K) (hc : 0 ≤ c) (prev : K) (xs : List K) :
    trFromK (c * prev) (xs.map (fun x => c * x)) = (trFromK prev xs).map (fun x => c * x) := by
  induction xs generalizing prev with
  | nil => rfl
  | cons x t ih =>
    have e : |c * x - c * prev| = c * |x - prev| := by rw [← mul_sub, abs_mul, abs_of_nonneg hc]
    simp only [List.map_cons, trFromK, e, ih]

theorem trFromK_shift (d : K) (prev : K) (xs : List K) :
    trFromK (prev + d) (xs.map (fun x => x + d)) = trFromK prev xs := by
  induction xs generalizing prev with
  | nil => rfl
  | cons x t ih =>
    simp only [List.map_cons, trFromK, add_sub_add_right_eq_sub, ih]

/-- TR(c·x) = c·TR(x) for `c ≥ 0` -/
theorem trSeqK_scale (c : K) (hc : 0 ≤ c) (xs : List K) :
    trSeqK (xs.map (fun x => c * x)) = (trSeqK xs).map (fun x => c * x) := by
  cases xs with
  | nil => rfl
  | cons x t => simp only [List.map_cons, trSeqK, trFromK_scale c hc, mul_zero]

/-- TR(x + d) = TR(x) -/
theorem trSeqK_shift (d : K) (xs : List K) : trSeqK (xs.map (fun x => x + d)) = trSeqK xs := by
  cases xs with
  | nil => rfl
  | cons x t => simp only [List.map_cons, trSeqK, trFromK_shift]

/-- the generated scalar TrueRange in another unit: outputs multiplied by `c` -/
theorem tr_scale (c : K) (hc : 0 ≤ c) (xs : List K) :
    ∃ s1 s2, ∃ outs : List K,
      runOut TrueRange.next (TrueRange.new : TrueRange (X K)) (xs.map X.fin) = some (s1, outs.map X.fin) ∧
      runOut TrueRange.next (TrueRange.new : TrueRange (X K)) ((xs.map (fun x => c * x)).map X.fin)
        = some (s2, (outs.map (fun v => c * v)).map X.fin) := by
  obtain ⟨s1, e1⟩ := C02.tr_stream (F := X K) (xs.map X.fin)
  obtain ⟨s2, e2⟩ := C02.tr_stream (F := X K) ((xs.map (fun x => c * x)).map X.fin)
  rw [TrueRange.new_eq]
  exact ⟨s1, s2, trSeqK xs, by rw [e1, trSeq_fin], by rw [e2, trSeq_fin, trSeqK_scale c hc]⟩

/-- the generated scalar TrueRange with another origin: identical outputs -/
theorem tr_shift (d : K) (xs : List K) :
    ∃ s1 s2 outs,
      runOut TrueRange.next (TrueRange.new : TrueRange (X K)) (xs.map X.fin) = some (s1, outs) ∧
      runOut TrueRange.next (TrueRange.new : TrueRange (X K)) ((xs.map (fun x => x + d)).map X.fin)
        = some (s2, outs) := by
  obtain ⟨s1, e1⟩ := C02.tr_stream (F := X K) (xs.map X.fin)
  obtain ⟨s2, e2⟩ := C02.tr_stream (F := X K) ((xs.map (fun x => x + d)).map X.fin)
  rw [TrueRange.new_eq]
  exact ⟨s1, s2, _, e1, by rw [e2, trSeq_fin, trSeqK_shift, trSeq_fin]⟩

/-- bar true range on the exact field, continued after a bar that closed at `pc` -/
def trBarFromK (pc : K) : List (Bar K) → List K
  | [] => []
  | b :: bs => max (max (b.high - b.low) |b.high - pc|) |b.low - pc| :: trBarFromK b.close bs

/-- bar true range of a whole history on the exact field: `high − low` on the first bar -/
def trBarSeqK : List (Bar K) → List K
  | [] => []
  | b :: bs => (b.high - b.low) :: trBarFromK b.close bs

theorem trBarFrom_fin (pc : K) (bs : List (Bar K)) :
    C02.trBarFrom (X.fin pc) (bs.map CommodityChannelIndex.finBar) = (trBarFromK pc bs).map X.fin := by
  induction bs generalizing pc with
  | nil => rfl
  | cons b t ih =>
    simp only [List.map_cons, C02.trBarFrom, trBarFromK, CommodityChannelIndex.finBar, ih, X.sub_fin,
      X.abs_fin, X.max_fin]

theorem trBarSeq_fin (bs : List (Bar K)) :
    C02.trBarSeq (bs.map CommodityChannelIndex.finBar) = (trBarSeqK bs).map X.fin := by
  cases bs with
  | nil => rfl
  | cons b t =>
    simp only [List.map_cons, C02.trBarSeq, trBarSeqK, CommodityChannelIndex.finBar, trBarFrom_fin,
      X.sub_fin]

theorem trBarFromK_scale (c : K) (hc : 0 ≤ c) (pc : K) (bs : List (Bar K)) :
    trBarFromK (c * pc) (bs.map (scaleBar c)) = (trBarFromK pc bs).map (fun x => c * x) := by
  induction bs generalizing pc with
  | nil => rfl
  | cons b t ih =>
    have e : ∀ a : K, |c * a| = c * |a| := fun a => by rw [abs_mul, abs_of_nonneg hc]
    simp only [List.map_cons, trBarFromK, scaleBar, ih, ← mul_sub, e]
    rw [mul_max_of_nonneg _ _ hc, mul_max_of_nonneg _ _ hc]

theorem trBarFromK_shift (d : K) (pc : K) (bs : List (Bar K)) :
    trBarFromK (pc + d) (bs.map (shiftBar d)) = trBarFromK pc bs := by
  induction bs generalizing pc with
  | nil => rfl
  | cons b t ih =>
    simp only [List.map_cons, trBarFromK, shiftBar, add_sub_add_right_eq_sub, ih]

/-- bar TR in another unit: multiplied by `c` (`c ≥ 0`) -/
theorem trBarSeqK_scale (c : K) (hc : 0 ≤ c) (bs : List (Bar K)) :
    trBarSeqK (bs.map (scaleBar c)) = (trBarSeqK bs).map (fun x => c * x) := by
  cases bs with
  | nil => rfl
  | cons b t =>
    have h := trBarFromK_scale c hc b.close t
    simp only [List.map_cons, trBarSeqK, scaleBar, ← mul_sub] at h ⊢
    rw [h]

/-- bar TR with another origin: unchanged -/
theorem trBarSeqK_shift (d : K) (bs : List (Bar K)) : trBarSeqK (bs.map (shiftBar d)) = trBarSeqK bs := by
  cases bs with
  | nil => rfl
  | cons b t =>
    have h := trBarFromK_shift d b.close t
    simp only [List.map_cons, trBarSeqK, shiftBar, add_sub_add_right_eq_sub] at h ⊢
    rw [h]

theorem tr_bar_scale (c : K) (hc : 0 ≤ c) (bs : List (Bar K)) :
    ∃ s1 s2, ∃ outs : List K,
      runOut TrueRange.nextBar (TrueRange.new : TrueRange (X K)) (bs.map CommodityChannelIndex.finBar)
        = some (s1, outs.map X.fin) ∧
      runOut TrueRange.nextBar (TrueRange.new : TrueRange (X K))
          ((bs.map (scaleBar c)).map CommodityChannelIndex.finBar)
        = some (s2, (outs.map (fun v => c * v)).map X.fin) := by
  obtain ⟨s1, e1⟩ := C02.tr_bar_stream (F := X K) (bs.map CommodityChannelIndex.finBar)
  obtain ⟨s2, e2⟩ := C02.tr_bar_stream (F := X K) ((bs.map (scaleBar c)).map CommodityChannelIndex.finBar)
  rw [TrueRange.new_eq]
  exact ⟨s1, s2, trBarSeqK bs, by rw [e1, trBarSeq_fin], by rw [e2, trBarSeq_fin, trBarSeqK_scale c hc]⟩

theorem tr_bar_shift (d : K) (bs : List (Bar K)) :
    ∃ s1 s2 outs,
      runOut TrueRange.nextBar (TrueRange.new : TrueRange (X K)) (bs.map CommodityChannelIndex.finBar)
        = some (s1, outs) ∧
      runOut TrueRange.nextBar (TrueRange.new : TrueRange (X K))
          ((bs.map (shiftBar d)).map CommodityChannelIndex.finBar) = some (s2, outs) := by
  obtain ⟨s1, e1⟩ := C02.tr_bar_stream (F := X K) (bs.map CommodityChannelIndex.finBar)
  obtain ⟨s2, e2⟩ := C02.tr_bar_stream (F := X K) ((bs.map (shiftBar d)).map CommodityChannelIndex.finBar)
  rw [TrueRange.new_eq]
  exact ⟨s1, s2, _, e1, by rw [e2, trBarSeq_fin, trBarSeqK_shift, trBarSeq_fin]⟩

end TaRs.Props.C14
