/-
  C05 — clones and separate instances are independent and deterministic.

  In the model `next : S → I → Option (S × O)` is a FUNCTION of (state, input) and a clone is
  the same value (`derive(Clone)` on a tree of owned plain data).  The theorems below are the
  consequences the property names: determinism, clone equivalence and — the non-trivial one —
  independence under ANY interleaving of operations on any number of instances (product of
  pure machines).  They are "true by construction" of a pure functional model, which is why
  the CONTENT of C05 sits in (a) the translator's purity gate + plain-data table
  (`Props/C19.purity_gate_clean`, `every_indicator_plain_data`: no static / thread_local /
  Rc / RefCell / hand-written Clone anywhere, else the model does not even regenerate) and
  (b) the bit-for-bit replay of recorded implementation runs on the model.  Actual threads
  are outside any pure model: exercised on the implementation by the harness (16 threads).
-/
import TaRs.Lemmas.Machine
namespace TaRs.Props.C05
open TaRs

variable {S I O : Type}

/-- two instances built with the same parameters and fed the same history return the same
    outputs (there is nothing else the outputs could depend on) -/
theorem deterministic (next : S → I → Option (S × O)) (s₁ s₂ : S) (h : s₁ = s₂) (xs : List I) :
    runOut next s₁ xs = runOut next s₂ xs := by rw [h]

/-- a clone taken after ANY history produces, for EVERY continuation, the outputs of the original -/
theorem clone_same_outputs (next : S → I → Option (S × O)) (clone : S → S) (hclone : ∀ s, clone s = s)
    (s0 : S) (hist cont : List I) :
    ((runOut next s0 hist).bind fun r => runOut next (clone r.1) cont)
      = ((runOut next s0 hist).bind fun r => runOut next r.1 cont) := by
  cases runOut next s0 hist with
  | none => rfl
  | some r => simp [hclone]

/-- pointwise update of a family of instances -/
def upd {n : Nat} (f : Fin n → S) (k : Fin n) (v : S) : Fin n → S := fun j => if j = k then v else f j
theorem upd_self {n : Nat} (f : Fin n → S) (k : Fin n) (v : S) : upd f k v k = v := by simp [upd]
theorem upd_ne {n : Nat} (f : Fin n → S) (k j : Fin n) (v : S) (h : j ≠ k) : upd f k v j = f j := by simp [upd, h]

/-- A system of `n` live instances: operation `(k, x)` feeds input `x` to instance `k`.
    `none` = that call panicked (the run stops). -/
def stepSys {n : Nat} (next : S → I → Option (S × O)) (sys : Fin n → S) (op : Fin n × I) :
    Option ((Fin n → S) × (Fin n × O)) :=
  match next (sys op.1) op.2 with
  | none => none
  | some (s', y) => some (upd sys op.1 s', (op.1, y))

/-- the sub-sequence of inputs addressed to instance `k` -/
def proj {n : Nat} (k : Fin n) (ops : List (Fin n × I)) : List I :=
  (ops.filter (fun op => op.1 = k)).map (·.2)

/-- Independence: run ANY interleaving of operations on n instances; the final state of
    instance k and the outputs it produced are exactly those of running k ALONE on its own
    inputs — feeding the others (clones or unrelated instances) never changes them. -/
theorem interleaving_independent {n : Nat} (next : S → I → Option (S × O)) (k : Fin n) :
    ∀ (ops : List (Fin n × I)) (sys : Fin n → S) (sys' : Fin n → S) (outs : List (Fin n × O)),
      runOut (stepSys next) sys ops = some (sys', outs) →
      runOut next (sys k) (proj k ops)
        = some (sys' k, (outs.filter (fun o => o.1 = k)).map (·.2)) := by
  intro ops
  induction ops with
  | nil =>
    intro sys sys' outs h
    simp [runOut] at h
    obtain ⟨rfl, rfl⟩ := h
    simp [proj, runOut]
  | cons op ops ih =>
    intro sys sys' outs h
    cases hn : next (sys op.1) op.2 with
    | none => simp [runOut, stepSys, hn] at h
    | some r =>
      obtain ⟨s1, y⟩ := r
      have hs : stepSys next sys op = some (upd sys op.1 s1, (op.1, y)) := by
        simp [stepSys, hn]
      rw [runOut_cons (stepSys next) sys op ops _ _ hs] at h
      cases hr : runOut (stepSys next) (upd sys op.1 s1) ops with
      | none => simp [hr] at h
      | some r2 =>
        obtain ⟨sys2, outs2⟩ := r2
        simp [hr] at h
        obtain ⟨rfl, rfl⟩ := h
        have := ih (upd sys op.1 s1) sys2 outs2 hr
        by_cases hk : op.1 = k
        · subst hk
          simp only [upd_self] at this
          simp only [proj, List.filter_cons, if_true, List.map_cons, decide_true]
          rw [runOut_cons next (sys op.1) op.2 _ s1 y hn]
          simp only [proj] at this
          rw [this]; rfl
        · have hne : (upd sys op.1 s1) k = sys k := upd_ne _ _ _ _ (Ne.symm hk)
          rw [hne] at this
          simp only [proj, List.filter_cons, hk, decide_false, if_false] at this ⊢
          simpa [hk] using this

/-- corollary for the situation the property describes: original and clone, interleaved
    arbitrarily with each other — each sees exactly its own inputs -/
theorem original_unaffected_by_clone (next : S → I → Option (S × O)) (s : S)
    (ops : List (Fin 2 × I)) (sys' : Fin 2 → S) (outs : List (Fin 2 × O))
    (h : runOut (stepSys next) (fun _ => s) ops = some (sys', outs)) :
    runOut next s (proj 0 ops) = some (sys' 0, (outs.filter (fun o => o.1 = 0)).map (·.2)) :=
  interleaving_independent next 0 ops (fun _ => s) sys' outs h

end TaRs.Props.C05
