/-
  C07 — bounded oscillators stay inside their documented range.

  L2 (exact arithmetic at `X K`).  The range of each bounded oscillator follows from two
  algebraic facts proved here once — a ratio of a non-negative part to a non-negative whole
  lies in [0, 1], and an EMA step with 0 < α ≤ 1 is a convex combination — plus the exact
  window/recursion theorems of the indicators (Lemmas/Exact/*: FastStochastic `fs_range`,
  EfficiencyRatio `er_range`, MoneyFlowIndex `mfi_range`).  The 1e-9 rounding slack at the
  0/100 boundary and MFI's 100·τ·c slack are float-only and sampled by the harness.
-/
import TaRs.Lemmas.XLemmas
import TaRs.Lemmas.ExponentialMovingAverage
import TaRs.Lemmas.RelativeStrengthIndex
set_option linter.unusedSectionVars false
namespace TaRs.Props.C07
open TaRs TaRs.Gen

variable {K : Type} [Field K] [LinearOrder K] [IsStrictOrderedRing K] [HasSqrt K]

/-- ratio of a non-negative part to a non-negative, non-zero whole, in percent -/
theorem pct_range (u d : K) (hu : 0 ≤ u) (hd : 0 ≤ d) (hne : u + d ≠ 0) :
    0 ≤ 100 * u / (u + d) ∧ 100 * u / (u + d) ≤ 100 := by
  have hpos : 0 < u + d := lt_of_le_of_ne (add_nonneg hu hd) (Ne.symm hne)
  constructor
  · exact div_nonneg (mul_nonneg (by norm_num) hu) hpos.le
  · rw [div_le_iff₀ hpos]; nlinarith

/-- the smoothing factor α = 2/(n+1) of every EMA in the crate lies in (0, 1] for n ≥ 1 -/
theorem alpha_fin (n : Nat) : (ExponentialMovingAverage.alpha n : X K) = X.fin (2 / ((n : K) + 1)) := by
  unfold ExponentialMovingAverage.alpha
  have h : ((n : K) + 1) ≠ 0 := by positivity
  simp [X.div_fin _ _ h]

theorem alpha_range (n : Nat) (hn : 0 < n) : 0 < (2 : K) / ((n : K) + 1) ∧ (2 : K) / ((n : K) + 1) ≤ 1 := by
  have h1 : (1 : K) ≤ (n : K) := by exact_mod_cast hn
  constructor
  · positivity
  · rw [div_le_one (by positivity)]; linarith

/-- one EMA step is a convex combination: it stays inside any interval containing the input and
    the previous value (SlowStochastic ⊆ [0,100]; RSI's U and D stay ≥ 0; C09's EMA hull) -/
theorem ema_step_hull (k x c lo hi : K) (hk0 : 0 ≤ k) (hk1 : k ≤ 1)
    (hx : lo ≤ x ∧ x ≤ hi) (hc : lo ≤ c ∧ c ≤ hi) :
    lo ≤ k * x + (1 - k) * c ∧ k * x + (1 - k) * c ≤ hi := by
  constructor <;> nlinarith [hx.1, hx.2, hc.1, hc.2]

/-- the generated EMA step at `X K` on finite data, with the state's `k` = α(n) -/
theorem ema_step_fin (s : ExponentialMovingAverage (X K)) (k c x : K)
    (hk : s.k = X.fin k) (hc : s.current = X.fin c) (hnew : s.is_new = false) :
    (ExponentialMovingAverage.step s (X.fin x)).current = X.fin (k * x + (1 - k) * c) := by
  unfold ExponentialMovingAverage.step
  simp [hnew, hk, hc]

/-- RSI output at `X K`: 50 by the guard, or 100·U/(U+D) ∈ [0, 100] for non-negative U, D -/
theorem rsi_value_range (u d : K) (hu : 0 ≤ u) (hd : 0 ≤ d) :
    ∃ v, RelativeStrengthIndex.rsiVal (X.fin u) (X.fin d) = X.fin v ∧ 0 ≤ v ∧ v ≤ 100 := by
  unfold RelativeStrengthIndex.rsiVal
  by_cases h : u + d = 0
  · refine ⟨50, ?_, by norm_num, by norm_num⟩
    simp [h]
  · refine ⟨100 * u / (u + d), ?_, (pct_range u d hu hd h).1, (pct_range u d hu hd h).2⟩
    simp [h, X.div_fin _ _ h]

end TaRs.Props.C07
