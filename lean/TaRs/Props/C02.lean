/-
  C02 — the exponential family computes the documented formulas, over WHOLE streams.

  "ExponentialMovingAverage(n) returns its first input unchanged and thereafter
   α·x + (1−α)·previous with α = 2/(n+1).  TrueRange is max(high−low, |high−previous close|,
   |low−previous close|) (high−low on the first bar; |x−previous x| for scalar input, 0 first),
   AverageTrueRange is the EMA of TrueRange, MACD is EMA_fast − EMA_slow with
   signal = EMA(MACD) and histogram = MACD − signal, KeltnerChannel is EMA(price, or typical
   price (high+low+close)/3 for bars) ± multiplier·ATR, and ChandelierExit is
   (Maximum(high) − multiplier·ATR, Minimum(low) + multiplier·ATR)."

  Shape of every theorem: the SPEC (section `Spec`) is a hand-written recursive function over
  the input history; the theorem says that feeding ANY input list (any length) to the state
  `new` builds (`X.fresh …`; `X.new_eq` in `TaRs/Lemmas/X.lean` shows `new` returns exactly
  that state for accepted parameters) never panics and produces exactly the spec's output list.

  The theorems quantify over an arbitrary `[Scalar F]` with NO laws.  The spec is written with
  the same operations in the same order as the code, so nothing about `+ − · / |·| max` is
  needed, and the statements hold verbatim for the f64 semantics (NaN, ±∞, −0 included).
-/
import TaRs.Lemmas.Machine
import TaRs.Lemmas.ExponentialMovingAverage
import TaRs.Lemmas.TrueRange
import TaRs.Lemmas.AverageTrueRange
import TaRs.Lemmas.MovingAverageConvergenceDivergence
import TaRs.Lemmas.KeltnerChannel
import TaRs.Lemmas.ChandelierExit

namespace TaRs.Props.C02
open TaRs TaRs.Gen TaRs.Rs

variable {F : Type} [Scalar F]

/-! ## The specification: the documented formulas as functions of the history -/
section Spec

/-- `α = 2 / (n + 1)` (the same term as `ExponentialMovingAverage.alpha`) -/
def alpha (n : Nat) : F :=
  Scalar.div (Scalar.lit 2 0) (Scalar.add (Scalar.ofNat n) (Scalar.lit 1 0))

theorem alpha_eq (n : Nat) : (alpha n : F) = ExponentialMovingAverage.alpha n := rfl

/-- the EMA recursion continued from a previous output: `k·x + (1 − k)·prev` -/
def emaFrom (k : F) (prev : F) : List F → List F
  | [] => []
  | x :: xs =>
    let y := Scalar.add (Scalar.mul k x) (Scalar.mul (Scalar.sub (Scalar.lit 1 0) k) prev)
    y :: emaFrom k y xs

/-- EMA with smoothing factor `k` of a whole history: the first output is the first input,
    every later one is `k·x + (1 − k)·previous output` -/
def emaSeq (k : F) : List F → List F
  | [] => []
  | x :: xs => x :: emaFrom k x xs

/-- scalar true range continued after the input `prev`: `|x − prev|` -/
def trFrom (prev : F) : List F → List F
  | [] => []
  | x :: xs => Scalar.abs (Scalar.sub x prev) :: trFrom x xs

/-- scalar true range of a whole history: `0` first, then `|x − previous x|` -/
def trSeq : List F → List F
  | [] => []
  | x :: xs => Scalar.lit 0 0 :: trFrom x xs

/-- bar true range continued after a bar that closed at `pc`:
    `max(high − low, |high − pc|, |low − pc|)` -/
def trBarFrom (pc : F) : List (Bar F) → List F
  | [] => []
  | b :: bs =>
    Scalar.max (Scalar.max (Scalar.sub b.high b.low) (Scalar.abs (Scalar.sub b.high pc)))
      (Scalar.abs (Scalar.sub b.low pc)) :: trBarFrom b.close bs

/-- bar true range of a whole history: `high − low` on the first bar -/
def trBarSeq : List (Bar F) → List F
  | [] => []
  | b :: bs => Scalar.sub b.high b.low :: trBarFrom b.close bs

/-- typical price, in the code's operation order: `(close + high + low) / 3` -/
def typical (b : Bar F) : F :=
  Scalar.div (Scalar.add (Scalar.add b.close b.high) b.low) (Scalar.lit 3 0)

/-- pointwise combination of three lists (stops at the shortest; in every use below the
    three lists have the length of the input) -/
def zipWith3 {α β γ δ : Type} (f : α → β → γ → δ) : List α → List β → List γ → List δ
  | a :: as, b :: bs, c :: cs => f a b c :: zipWith3 f as bs cs
  | _, _, _ => []

/-- the spec lists have one entry per input (so the `zipWith`s below never truncate) -/
theorem emaFrom_length (k prev : F) (xs : List F) : (emaFrom k prev xs).length = xs.length := by
  induction xs generalizing prev with
  | nil => rfl
  | cons x xs ih => simp [emaFrom, ih]

theorem emaSeq_length (k : F) (xs : List F) : (emaSeq k xs).length = xs.length := by
  cases xs <;> simp [emaSeq, emaFrom_length]

theorem trSeq_length (xs : List F) : (trSeq xs).length = xs.length := by
  have h : ∀ (ys : List F) (p : F), (trFrom p ys).length = ys.length := by
    intro ys; induction ys with
    | nil => intro _; rfl
    | cons y ys ih => intro p; simp [trFrom, ih]
  cases xs <;> simp [trSeq, h]

theorem trBarSeq_length (bs : List (Bar F)) : (trBarSeq bs).length = bs.length := by
  have h : ∀ (ys : List (Bar F)) (p : F), (trBarFrom p ys).length = ys.length := by
    intro ys; induction ys with
    | nil => intro _; rfl
    | cons y ys ih => intro p; simp [trBarFrom, ih]
  cases bs <;> simp [trBarSeq, h]

end Spec

/-! ## Auxiliary: outputs from an ARBITRARY state (the simulation invariants)

`emaOuts e ys` / `trOuts t xs` / `trBarOuts t bs` are the outputs the components produce when
started in an arbitrary state; the composite lemmas (`*_run`) are proved for arbitrary states by
induction over the stream, and the spec functions are recovered at the `fresh` states. -/
section Aux

theorem runOut_step {S I O : Type} {next : S → I → Option (S × O)} {s s1 : S} {x : I} {xs : List I}
    {y : O} {ys : List O} (h : next s x = some (s1, y))
    (ih : ∃ s', runOut next s1 xs = some (s', ys)) :
    ∃ s', runOut next s (x :: xs) = some (s', y :: ys) := by
  obtain ⟨s', h'⟩ := ih
  exact ⟨s', by rw [runOut_cons next s x xs s1 y h, h']; rfl⟩

/-- EMA outputs from state `e` -/
def emaOuts (e : ExponentialMovingAverage F) : List F → List F
  | [] => []
  | y :: ys => (ExponentialMovingAverage.step e y).current :: emaOuts (ExponentialMovingAverage.step e y) ys

/-- TrueRange outputs (scalar path) from state `t` -/
def trOuts (t : TrueRange F) : List F → List F
  | [] => []
  | x :: xs => TrueRange.out t x :: trOuts { prev_close := some x } xs

/-- TrueRange outputs (bar path) from state `t` -/
def trBarOuts (t : TrueRange F) : List (Bar F) → List F
  | [] => []
  | b :: bs => TrueRange.outBar t b :: trBarOuts { prev_close := some b.close } bs

/-- invariant "already fed, last output `e.current`": the recursion continues from it -/
theorem emaOuts_old (e : ExponentialMovingAverage F) (h : e.is_new = false) (ys : List F) :
    emaOuts e ys = emaFrom e.k e.current ys := by
  induction ys generalizing e with
  | nil => rfl
  | cons y ys ih =>
    have hs : ExponentialMovingAverage.step e y =
        { e with current := Scalar.add (Scalar.mul e.k y)
                  (Scalar.mul (Scalar.sub (Scalar.lit 1 0) e.k) e.current) } := by
      simp [ExponentialMovingAverage.step, h]
    simp only [emaOuts, emaFrom]
    rw [ih _ (by rw [hs]; exact h), hs]

/-- invariant "never fed": the first output is the first input -/
theorem emaOuts_new (e : ExponentialMovingAverage F) (h : e.is_new = true) (ys : List F) :
    emaOuts e ys = emaSeq e.k ys := by
  cases ys with
  | nil => rfl
  | cons y ys =>
    have hs : ExponentialMovingAverage.step e y = { e with is_new := false, current := y } := by
      simp [ExponentialMovingAverage.step, h]
    simp only [emaOuts, emaSeq]
    rw [emaOuts_old _ (by rw [hs]), hs]

theorem emaOuts_fresh (n : Nat) (ys : List F) :
    emaOuts (ExponentialMovingAverage.fresh n) ys = emaSeq (alpha n) ys :=
  emaOuts_new _ rfl ys

theorem trOuts_some (p : F) (xs : List F) : trOuts { prev_close := some p } xs = trFrom p xs := by
  induction xs generalizing p with
  | nil => rfl
  | cons x xs ih => simp only [trOuts, trFrom, ih, TrueRange.out]

theorem trOuts_fresh (xs : List F) : trOuts TrueRange.fresh xs = trSeq xs := by
  cases xs with
  | nil => rfl
  | cons x xs => simp only [trOuts, trSeq, trOuts_some, TrueRange.out, TrueRange.fresh]

theorem trBarOuts_some (p : F) (bs : List (Bar F)) :
    trBarOuts { prev_close := some p } bs = trBarFrom p bs := by
  induction bs generalizing p with
  | nil => rfl
  | cons b bs ih => simp only [trBarOuts, trBarFrom, ih, TrueRange.outBar]

theorem trBarOuts_fresh (bs : List (Bar F)) : trBarOuts TrueRange.fresh bs = trBarSeq bs := by
  cases bs with
  | nil => rfl
  | cons b bs => simp only [trBarOuts, trBarSeq, trBarOuts_some, TrueRange.outBar, TrueRange.fresh]

theorem ema_run (e : ExponentialMovingAverage F) (ys : List F) :
    ∃ s', runOut ExponentialMovingAverage.next e ys = some (s', emaOuts e ys) := by
  induction ys generalizing e with
  | nil => exact ⟨e, rfl⟩
  | cons y ys ih => exact runOut_step (ExponentialMovingAverage.next_eq e y) (ih _)

theorem tr_run (t : TrueRange F) (xs : List F) :
    ∃ s', runOut TrueRange.next t xs = some (s', trOuts t xs) := by
  induction xs generalizing t with
  | nil => exact ⟨t, rfl⟩
  | cons x xs ih => exact runOut_step (TrueRange.next_eq t x) (ih _)

theorem tr_bar_run (t : TrueRange F) (bs : List (Bar F)) :
    ∃ s', runOut TrueRange.nextBar t bs = some (s', trBarOuts t bs) := by
  induction bs generalizing t with
  | nil => exact ⟨t, rfl⟩
  | cons b bs ih => exact runOut_step (TrueRange.nextBar_eq t b) (ih _)

theorem atr_run (s : AverageTrueRange F) (xs : List F) :
    ∃ s', runOut AverageTrueRange.next s xs = some (s', emaOuts s.ema (trOuts s.true_range xs)) := by
  induction xs generalizing s with
  | nil => exact ⟨s, rfl⟩
  | cons x xs ih => exact runOut_step (AverageTrueRange.next_eq s x) (ih _)

theorem atr_bar_run (s : AverageTrueRange F) (bs : List (Bar F)) :
    ∃ s', runOut AverageTrueRange.nextBar s bs =
      some (s', emaOuts s.ema (trBarOuts s.true_range bs)) := by
  induction bs generalizing s with
  | nil => exact ⟨s, rfl⟩
  | cons b bs ih => exact runOut_step (AverageTrueRange.nextBar_eq s b) (ih _)

/-- the MACD output triple built from the line value and the signal value -/
def macdOut (m g : F) : MovingAverageConvergenceDivergenceOutput F :=
  { macd := m, signal := g, histogram := Scalar.sub m g }

theorem macd_run (s : MovingAverageConvergenceDivergence F) (xs : List F) :
    ∃ s', runOut MovingAverageConvergenceDivergence.next s xs =
      some (s', List.zipWith macdOut
        (List.zipWith Scalar.sub (emaOuts s.fast_ema xs) (emaOuts s.slow_ema xs))
        (emaOuts s.signal_ema
          (List.zipWith Scalar.sub (emaOuts s.fast_ema xs) (emaOuts s.slow_ema xs)))) := by
  induction xs generalizing s with
  | nil => exact ⟨s, rfl⟩
  | cons x xs ih =>
    exact runOut_step (MovingAverageConvergenceDivergence.next_eq s x) (ih _)

theorem kc_run (s : KeltnerChannel F) (xs : List F) :
    ∃ s', runOut KeltnerChannel.next s xs =
      some (s', List.zipWith (fun a r => KeltnerChannel.mkOut a r s.multiplier)
        (emaOuts s.ema xs) (emaOuts s.atr.ema (trOuts s.atr.true_range xs))) := by
  induction xs generalizing s with
  | nil => exact ⟨s, rfl⟩
  | cons x xs ih => exact runOut_step (KeltnerChannel.next_eq s x) (ih _)

theorem kc_bar_run (s : KeltnerChannel F) (bs : List (Bar F)) :
    ∃ s', runOut KeltnerChannel.nextBar s bs =
      some (s', List.zipWith (fun a r => KeltnerChannel.mkOut a r s.multiplier)
        (emaOuts s.ema (bs.map typical)) (emaOuts s.atr.ema (trBarOuts s.atr.true_range bs))) := by
  induction bs generalizing s with
  | nil => exact ⟨s, rfl⟩
  | cons b bs ih => exact runOut_step (KeltnerChannel.nextBar_eq s b) (ih _)

/-- the ChandelierExit output pair from the ATR value, the window maximum and the window minimum -/
def ceOut (m : F) (atr mx mn : F) : ChandelierExitOutput F :=
  { long := Scalar.sub mx (Scalar.mul atr m), short := Scalar.add mn (Scalar.mul atr m) }

theorem ce_bar_run (s : ChandelierExit F) (hmin : Minimum.WF s.min) (hmax : Maximum.WF s.max)
    (bs : List (Bar F)) :
    ∃ s' smx mxs smn mns,
      runOut Maximum.nextBar s.max bs = some (smx, mxs) ∧
      runOut Minimum.nextBar s.min bs = some (smn, mns) ∧
      runOut ChandelierExit.nextBar s bs =
        some (s', zipWith3 (ceOut s.multiplier)
          (emaOuts s.atr.ema (trBarOuts s.atr.true_range bs)) mxs mns) := by
  induction bs generalizing s with
  | nil => exact ⟨s, s.max, [], s.min, [], rfl, rfl, rfl⟩
  | cons b bs ih =>
    obtain ⟨⟨mn', lo⟩, e2, w2, _⟩ := Minimum.nextBar_total s.min b hmin
    obtain ⟨⟨mx', hi⟩, e3, w3, _⟩ := Maximum.nextBar_total s.max b hmax
    have e := ChandelierExit.nextBar_wiring s b _ _ mn' lo mx' hi
      (AverageTrueRange.nextBar_eq s.atr b) e2 e3
    obtain ⟨s', smx, mxs, smn, mns, r1, r2, r3⟩ :=
      ih { atr := _, min := mn', max := mx', multiplier := s.multiplier } w2 w3
    refine ⟨s', smx, hi :: mxs, smn, lo :: mns, ?_, ?_, ?_⟩
    · rw [runOut_cons _ _ _ _ _ _ e3, r1]; rfl
    · rw [runOut_cons _ _ _ _ _ _ e2, r2]; rfl
    · rw [runOut_cons _ _ _ _ _ _ e, r3]; rfl

end Aux

/-! ## The property theorems -/

/-- EMA(n) over any stream: first output = first input, then `α·x + (1−α)·previous`. -/
theorem ema_stream (n : Nat) (xs : List F) :
    ∃ s', runOut ExponentialMovingAverage.next (ExponentialMovingAverage.fresh n) xs =
      some (s', emaSeq (alpha n) xs) := by
  rw [← emaOuts_fresh]; exact ema_run _ xs

/-- the first output is literally the first input (no arithmetic is applied to it) -/
theorem ema_first (n : Nat) (x : F) (xs : List F) :
    ∃ s' ys, runOut ExponentialMovingAverage.next (ExponentialMovingAverage.fresh n) (x :: xs) =
      some (s', x :: ys) := by
  obtain ⟨s', h⟩ := ema_stream (F := F) n (x :: xs)
  exact ⟨s', _, h⟩

/-- TrueRange over scalars: `0`, then `|x − previous x|`. -/
theorem tr_stream (xs : List F) :
    ∃ s', runOut TrueRange.next (TrueRange.fresh : TrueRange F) xs = some (s', trSeq xs) := by
  rw [← trOuts_fresh]; exact tr_run _ xs

/-- TrueRange over bars: `high − low`, then `max(high−low, |high−pc|, |low−pc|)`. -/
theorem tr_bar_stream (bs : List (Bar F)) :
    ∃ s', runOut TrueRange.nextBar (TrueRange.fresh : TrueRange F) bs = some (s', trBarSeq bs) := by
  rw [← trBarOuts_fresh]; exact tr_bar_run _ bs

/-- ATR(n) over scalars = EMA(n) of the scalar TrueRange. -/
theorem atr_stream (n : Nat) (xs : List F) :
    ∃ s', runOut AverageTrueRange.next (AverageTrueRange.fresh n) xs =
      some (s', emaSeq (alpha n) (trSeq xs)) := by
  rw [← trOuts_fresh, ← emaOuts_fresh]; exact atr_run _ xs

/-- ATR(n) over bars = EMA(n) of the bar TrueRange. -/
theorem atr_bar_stream (n : Nat) (bs : List (Bar F)) :
    ∃ s', runOut AverageTrueRange.nextBar (AverageTrueRange.fresh n) bs =
      some (s', emaSeq (alpha n) (trBarSeq bs)) := by
  rw [← trBarOuts_fresh, ← emaOuts_fresh]; exact atr_bar_run _ bs

/-- MACD(fp, sp, gp): line = EMA_fp − EMA_sp, signal = EMA_gp(line), histogram = line − signal. -/
theorem macd_stream (fp sp gp : Nat) (xs : List F) :
    ∃ s', runOut MovingAverageConvergenceDivergence.next
        (MovingAverageConvergenceDivergence.fresh fp sp gp) xs =
      some (s',
        let line := List.zipWith Scalar.sub (emaSeq (alpha fp) xs) (emaSeq (alpha sp) xs)
        let sig := emaSeq (alpha gp) line
        List.zipWith (fun m g => { macd := m, signal := g, histogram := Scalar.sub m g }) line sig) := by
  obtain ⟨s', h⟩ := macd_run (MovingAverageConvergenceDivergence.fresh fp sp gp) xs
  refine ⟨s', ?_⟩
  rw [h]
  simp only [MovingAverageConvergenceDivergence.fresh, emaOuts_fresh]
  rfl

/-- KeltnerChannel(n, m), scalar path: average = EMA(n) of the input, bands = average ± ATR·m
    where ATR = EMA(n) of the scalar TrueRange. -/
theorem kc_stream (n : Nat) (m : F) (xs : List F) :
    ∃ s', runOut KeltnerChannel.next (KeltnerChannel.fresh n m) xs =
      some (s', List.zipWith
        (fun a r => { average := a, upper := Scalar.add a (Scalar.mul r m),
                      lower := Scalar.sub a (Scalar.mul r m) })
        (emaSeq (alpha n) xs) (emaSeq (alpha n) (trSeq xs))) := by
  obtain ⟨s', h⟩ := kc_run (KeltnerChannel.fresh n m) xs
  refine ⟨s', ?_⟩
  rw [h]
  simp only [KeltnerChannel.fresh, AverageTrueRange.fresh, emaOuts_fresh, trOuts_fresh]
  rfl

/-- KeltnerChannel(n, m), bar path: average = EMA(n) of the typical price, bands =
    average ± ATR·m where ATR = EMA(n) of the bar TrueRange. -/
theorem kc_bar_stream (n : Nat) (m : F) (bs : List (Bar F)) :
    ∃ s', runOut KeltnerChannel.nextBar (KeltnerChannel.fresh n m) bs =
      some (s', List.zipWith
        (fun a r => { average := a, upper := Scalar.add a (Scalar.mul r m),
                      lower := Scalar.sub a (Scalar.mul r m) })
        (emaSeq (alpha n) (bs.map typical)) (emaSeq (alpha n) (trBarSeq bs))) := by
  obtain ⟨s', h⟩ := kc_bar_run (KeltnerChannel.fresh n m) bs
  refine ⟨s', ?_⟩
  rw [h]
  simp only [KeltnerChannel.fresh, AverageTrueRange.fresh, emaOuts_fresh, trBarOuts_fresh]
  rfl

/-- ChandelierExit(n, m) over bars: `long = Maximum(n)(high) − ATR(n)·m`,
    `short = Minimum(n)(low) + ATR(n)·m`, where the window extremes are the outputs of the
    standalone `Maximum` / `Minimum` on the same bars (that these are the extremes of the last
    `n` highs / lows is property C01) and ATR is the EMA(n) of the bar TrueRange. -/
theorem ce_bar_stream (n : Nat) (m : F) (hn : 0 < n) (h8 : n * 8 ≤ isizeMax) (bs : List (Bar F)) :
    ∃ s' smx mxs smn mns,
      runOut Maximum.nextBar (Maximum.fresh n : Maximum F) bs = some (smx, mxs) ∧
      runOut Minimum.nextBar (Minimum.fresh n : Minimum F) bs = some (smn, mns) ∧
      runOut ChandelierExit.nextBar (ChandelierExit.fresh n m) bs =
        some (s', zipWith3
          (fun atr mx mn => { long := Scalar.sub mx (Scalar.mul atr m),
                              short := Scalar.add mn (Scalar.mul atr m) })
          (emaSeq (alpha n) (trBarSeq bs)) mxs mns) := by
  obtain ⟨s', smx, mxs, smn, mns, r1, r2, r3⟩ :=
    ce_bar_run (ChandelierExit.fresh n m) (Minimum.fresh_wf n hn h8) (Maximum.fresh_wf n hn h8) bs
  refine ⟨s', smx, mxs, smn, mns, r1, r2, ?_⟩
  rw [r3]
  simp only [ChandelierExit.fresh, AverageTrueRange.fresh, emaOuts_fresh, trBarOuts_fresh]
  rfl

end TaRs.Props.C02
