/-
  C01 — sliding-window statistics equal the textbook value of exactly the last n inputs.

  L2 (exact arithmetic): the GENERATED `next` of each windowed indicator, run from the state
  `new(n)` builds over ANY finite stream (`xs : List K`, any length, any signs, ties, zeros)
  produces at EVERY prefix the textbook statistic of exactly `lastN n prefix` = the last
  min(t, n) inputs: no padding while warming up, nothing older than n retained.  `K` is any
  linearly ordered field (ℚ, ℝ, …); inputs are embedded as `X.fin`; a panic would be `none`,
  a NaN/∞ output would not be of the form `X.fin _`.  Period: every `0 < n` with
  `n * 8 ≤ isizeMax` (the modelled `vec!` capacity limit).

  What these theorems do NOT carry (sampled against the implementation by the harness with
  double-double references): the f64 rounding error staying within
  τ(t) = 1e-12 + 1e-15·t^1.5 times the largest magnitude fed so far.
-/
import TaRs.Lemmas.Exact.SimpleMovingAverage
import TaRs.Lemmas.Exact.WeightedMovingAverage
import TaRs.Lemmas.Exact.StandardDeviation
import TaRs.Lemmas.Exact.MeanAbsoluteDeviation
import TaRs.Lemmas.Exact.Minimum
import TaRs.Lemmas.Exact.Maximum
import TaRs.Lemmas.Exact.BollingerBands
set_option linter.unusedSectionVars false
namespace TaRs.Props.C01
open TaRs TaRs.Gen TaRs.Rs TaRs.Spec

variable {K : Type} [Field K] [LinearOrder K] [IsStrictOrderedRing K] [HasSqrt K]

/-- SimpleMovingAverage: mean of exactly the last min(t, n) inputs, at every prefix -/
theorem sma_window (n : Nat) (hn : 0 < n) (h8 : n * 8 ≤ isizeMax) (xs : List K) :
    ∃ s0 s', (SimpleMovingAverage.new n : Res (SimpleMovingAverage (X K))) = .ok s0 ∧
      runOut SimpleMovingAverage.next s0 (xs.map X.fin)
        = some (s', (prefixes xs).map (fun h => X.fin (mean (lastN n h)))) := by
  obtain ⟨s', e⟩ := SimpleMovingAverage.stream n hn h8 xs
  exact ⟨_, s', by rw [SimpleMovingAverage.new_eq]; simp [Nat.ne_of_gt hn, h8], e⟩

/-- WeightedMovingAverage: weights 1..k, newest heaviest, over exactly the last min(t, n) inputs -/
theorem wma_window (n : Nat) (hn : 0 < n) (h8 : n * 8 ≤ isizeMax) (xs : List K) :
    ∃ s0 s', (WeightedMovingAverage.new n : Res (WeightedMovingAverage (X K))) = .ok s0 ∧
      runOut WeightedMovingAverage.next s0 (xs.map X.fin)
        = some (s', (prefixes xs).map (fun h => X.fin (wma (lastN n h)))) := by
  obtain ⟨s', e⟩ := WeightedMovingAverage.stream n hn h8 xs
  exact ⟨_, s', by rw [WeightedMovingAverage.new_eq]; simp [Nat.ne_of_gt hn, h8], e⟩

/-- StandardDeviation: sqrt of the POPULATION variance of exactly the last min(t, n) inputs -/
theorem sd_window (n : Nat) (hn : 0 < n) (h8 : n * 8 ≤ isizeMax) (xs : List K) :
    ∃ s0 s', (StandardDeviation.new n : Res (StandardDeviation (X K))) = .ok s0 ∧
      runOut StandardDeviation.next s0 (xs.map X.fin)
        = some (s', (prefixes xs).map (fun h => X.fin (HasSqrt.sqrtK (var (lastN n h))))) := by
  obtain ⟨s', e⟩ := StandardDeviation.stream_sqrtK n hn h8 xs
  exact ⟨_, s', by rw [StandardDeviation.new_eq]; simp [Nat.ne_of_gt hn, h8], e⟩

/-- MeanAbsoluteDeviation about the window mean of exactly the last min(t, n) inputs -/
theorem mad_window (n : Nat) (hn : 0 < n) (h8 : n * 8 ≤ isizeMax) (xs : List K) :
    ∃ s0 s', (MeanAbsoluteDeviation.new n : Res (MeanAbsoluteDeviation (X K))) = .ok s0 ∧
      runOut MeanAbsoluteDeviation.next s0 (xs.map X.fin)
        = some (s', (prefixes xs).map (fun h => X.fin (mad (lastN n h)))) := by
  obtain ⟨s', e⟩ := MeanAbsoluteDeviation.stream n hn h8 xs
  exact ⟨_, s', by rw [MeanAbsoluteDeviation.new_eq]; simp [Nat.ne_of_gt hn, h8], e⟩

/-- Minimum: EXACTLY the least element of the last min(t, n) inputs (order only, no arithmetic) -/
theorem minimum_window (n : Nat) (hn : 0 < n) (h8 : n * 8 ≤ isizeMax) (xs : List K) :
    ∃ s0 s' outs, (Minimum.new n : Res (Minimum (X K))) = .ok s0 ∧
      runOut Minimum.next s0 (xs.map X.fin) = some (s', outs) ∧ outs.length = xs.length ∧
      ∀ i, i < xs.length → ∃ m, outs[i]? = some (X.fin m) ∧
        m ∈ lastN n (xs.take (i + 1)) ∧ ∀ y ∈ lastN n (xs.take (i + 1)), m ≤ y := by
  obtain ⟨s', outs, e⟩ := Minimum.stream n hn h8 xs
  exact ⟨_, s', outs, by rw [Minimum.new_eq]; simp [Nat.ne_of_gt hn, h8], e⟩

/-- Maximum: EXACTLY the greatest element of the last min(t, n) inputs -/
theorem maximum_window (n : Nat) (hn : 0 < n) (h8 : n * 8 ≤ isizeMax) (xs : List K) :
    ∃ s0 s' outs, (Maximum.new n : Res (Maximum (X K))) = .ok s0 ∧
      runOut Maximum.next s0 (xs.map X.fin) = some (s', outs) ∧ outs.length = xs.length ∧
      ∀ i, i < xs.length → ∃ m, outs[i]? = some (X.fin m) ∧
        m ∈ lastN n (xs.take (i + 1)) ∧ ∀ y ∈ lastN n (xs.take (i + 1)), y ≤ m := by
  obtain ⟨s', outs, e⟩ := Maximum.stream n hn h8 xs
  exact ⟨_, s', outs, by rw [Maximum.new_eq]; simp [Nat.ne_of_gt hn, h8], e⟩

/-- BollingerBands: window mean ± multiplier · population SD of exactly the last min(t, n) inputs -/
theorem bb_window (n : Nat) (hn : 0 < n) (h8 : n * 8 ≤ isizeMax) (m : K) (xs : List K) :
    ∃ s0 s', (BollingerBands.new n (X.fin m) : Res (BollingerBands (X K))) = .ok s0 ∧
      runOut BollingerBands.next s0 (xs.map X.fin)
        = some (s', (prefixes xs).map (fun h =>
            ({ average := X.fin (mean (lastN n h)),
               upper := X.fin (mean (lastN n h) + HasSqrt.sqrtK (var (lastN n h)) * m),
               lower := X.fin (mean (lastN n h) - HasSqrt.sqrtK (var (lastN n h)) * m) }
              : BollingerBandsOutput (X K)))) := by
  obtain ⟨s', e⟩ := BollingerBands.stream_sqrtK n hn h8 m xs
  exact ⟨_, s', by rw [BollingerBands.new_eq]; simp [Nat.ne_of_gt hn, h8], e⟩

/-- the window really is "the last min(t, n)": its length -/
theorem window_length (n : Nat) (h : List K) : (lastN n h).length = min h.length n := lastN_length n h

/-- …and it forgets: a longer history with the same last n inputs has the same window -/
theorem window_suffix (n : Nat) (p h : List K) (hl : n ≤ h.length) : lastN n (p ++ h) = lastN n h :=
  lastN_append n p h hl

/-- non-vacuity: a concrete stream with a tie, a sign change and a zero, period 2, evaluated by
    the kernel on the generated code at `X ℚ` (the stream wraps the ring twice) -/
example :
    (runOut SimpleMovingAverage.next (SimpleMovingAverage.fresh 2 : SimpleMovingAverage (X Rat))
        ([3, 3, -1, 0, 5].map X.fin)).map (·.2)
      = some [X.fin 3, X.fin 3, X.fin 1, X.fin (-1/2), X.fin (5/2)] := by decide +kernel

example :
    (runOut Minimum.next (Minimum.fresh 2 : Minimum (X Rat)) ([3, 3, -1, 0, 5].map X.fin)).map (·.2)
      = some [X.fin 3, X.fin 3, X.fin (-1), X.fin (-1), X.fin 0] := by decide +kernel

end TaRs.Props.C01
