/-
  C15 — composites agree with wiring their PUBLIC building blocks by hand.

  "SlowStochastic equals EMA fed with FastStochastic; AverageTrueRange equals EMA fed with
   TrueRange; MACD and PPO lines equal the corresponding combinations of three standalone EMAs;
   KeltnerChannel and ChandelierExit equal EMA, Minimum, Maximum and ATR combined as
   documented; CCI equals SMA and MeanAbsoluteDeviation of the typical price combined as
   documented; BollingerBands half-width equals multiplier·StandardDeviation of the same
   period."

  Shape of every theorem: run the composite over a whole stream (any length) with `runOut`,
  run the separately constructed public parts over the same (or the derived) streams with
  `runOut`, and the composite's output list equals the documented pointwise combination of the
  parts' output lists.  Both sides are `Option`-valued (`none` = some call panicked), so the
  equalities also say the composite panics exactly when wiring the parts by hand would; no
  assumption on the parameters is needed (for accepted parameters nothing panics: C12).

  Each theorem is first proved from an ARBITRARY composite state `s` (`*_from`: the parts are
  started in the states stored in the composite's component fields — the simulation relation
  "component field = standalone part's state" is preserved by every step), by induction over
  the stream; the requested statement is the instance at `X.fresh …`, whose component fields
  are the parts' `fresh` states by definition.

  Arbitrary `[Scalar F]`, no laws: the combinations are written in the code's operation order,
  so the statements hold verbatim for the f64 semantics (NaN, ±∞ included).

  Not here: BollingerBands.average = SimpleMovingAverage needs exact arithmetic (the SD keeps a
  Welford running mean, the SMA a running sum) and is proved elsewhere.
-/
import TaRs.Lemmas.Machine
import TaRs.Lemmas.ExponentialMovingAverage
import TaRs.Lemmas.TrueRange
import TaRs.Lemmas.AverageTrueRange
import TaRs.Lemmas.MovingAverageConvergenceDivergence
import TaRs.Lemmas.PercentagePriceOscillator
import TaRs.Lemmas.KeltnerChannel
import TaRs.Lemmas.ChandelierExit
import TaRs.Lemmas.Core.FastStochastic
import TaRs.Lemmas.SlowStochastic
import TaRs.Lemmas.BollingerBands
import TaRs.Lemmas.CommodityChannelIndex
import TaRs.Lemmas.Core.SimpleMovingAverage
import TaRs.Lemmas.Core.MeanAbsoluteDeviation
import TaRs.Lemmas.Core.StandardDeviation
import TaRs.Lemmas.Core.Minimum
import TaRs.Lemmas.Core.Maximum

namespace TaRs.Props.C15
open TaRs TaRs.Gen TaRs.Rs

variable {F : Type} [Scalar F]

/-! ## Vocabulary -/
section Spec

/-- the output list of a whole run: `runOut` with the final state dropped
    (`none` = some call panicked) -/
def outputs {S I O : Type} (next : S → I → Option (S × O)) (s : S) (xs : List I) : Option (List O) :=
  (runOut next s xs).map (·.2)

theorem outputs_eq {S I O : Type} (next : S → I → Option (S × O)) (s : S) (xs : List I) :
    outputs next s xs = (runOut next s xs).map (·.2) := rfl

/-- pointwise combination of three lists -/
def zipWith3 {α β γ δ : Type} (f : α → β → γ → δ) : List α → List β → List γ → List δ
  | a :: as, b :: bs, c :: cs => f a b c :: zipWith3 f as bs cs
  | _, _, _ => []

/-- typical price, in the code's operation order: `(close + high + low) / 3` -/
def typical (b : Bar F) : F :=
  Scalar.div (Scalar.add (Scalar.add b.close b.high) b.low) (Scalar.lit 3 0)

/-- MACD output from the line value and the signal value -/
def macdOut (m g : F) : MovingAverageConvergenceDivergenceOutput F :=
  { macd := m, signal := g, histogram := Scalar.sub m g }

/-- the PPO line from the fast and slow EMA values: `(f − s) / s · 100` -/
def ppoLine (f s : F) : F :=
  Scalar.mul (Scalar.div (Scalar.sub f s) s) (Scalar.lit 100 0)

/-- PPO output from the line value and the signal value -/
def ppoOut (p g : F) : PercentagePriceOscillatorOutput F :=
  { ppo := p, signal := g, histogram := Scalar.sub p g }

/-- Keltner output from the EMA value and the ATR value: `average ± atr · m` -/
def kcOut (m : F) (a r : F) : KeltnerChannelOutput F :=
  { average := a, upper := Scalar.add a (Scalar.mul r m), lower := Scalar.sub a (Scalar.mul r m) }

/-- Chandelier output from the ATR value, the window minimum and the window maximum -/
def ceOut (m : F) (atr mn mx : F) : ChandelierExitOutput F :=
  { long := Scalar.sub mx (Scalar.mul atr m), short := Scalar.add mn (Scalar.mul atr m) }

/-- CCI output from the typical price, its SMA and its mean absolute deviation:
    `0` if `mad == 0`, else `(tp − sma) / (mad · 0.015)` -/
def cciOut (t a d : F) : F :=
  if Scalar.beq d (Scalar.lit 0 0) then Scalar.lit 0 0
  else Scalar.div (Scalar.sub t a) (Scalar.mul d (Scalar.lit 15 3))

/-- the public way to observe a StandardDeviation's running mean: `sd.next(x)` followed by
    `sd.mean()`; outputs the pair (standard deviation, mean after the update) -/
def sdNextWithMean (s : StandardDeviation F) (x : F) : Option (StandardDeviation F × (F × F)) :=
  (s.next x).map fun r => (r.1, (r.2, r.1.mean))

/-- Bollinger output from the multiplier and the pair (standard deviation, mean) -/
def bbOut (m : F) (p : F × F) : BollingerBandsOutput F :=
  { average := p.2, upper := Scalar.add p.2 (Scalar.mul p.1 m),
    lower := Scalar.sub p.2 (Scalar.mul p.1 m) }

end Spec

/-! ## Run algebra -/
section Aux

theorem outputs_nil {S I O : Type} (next : S → I → Option (S × O)) (s : S) :
    outputs next s [] = some [] := rfl

/-- unconditional recursion equation of `outputs` -/
theorem outputs_cons {S I O : Type} (next : S → I → Option (S × O)) (s : S) (x : I) (xs : List I) :
    outputs next s (x :: xs) = (next s x).bind fun r => (outputs next r.1 xs).map (r.2 :: ·) := by
  unfold outputs
  cases h : next s x with
  | none => simp [runOut, h]
  | some r =>
    obtain ⟨s', y⟩ := r
    rw [runOut_cons next s x xs s' y h]
    cases hr : runOut next s' xs <;> simp [hr]

/-- a step that succeeds -/
theorem outputs_cons_some {S I O : Type} {next : S → I → Option (S × O)} {s s' : S} {x : I} {y : O}
    (h : next s x = some (s', y)) (xs : List I) :
    outputs next s (x :: xs) = (outputs next s' xs).map (y :: ·) := by
  rw [outputs_cons, h]; rfl

/-- a step that panics -/
theorem outputs_cons_none {S I O : Type} {next : S → I → Option (S × O)} {s : S} {x : I}
    (h : next s x = none) (xs : List I) : outputs next s (x :: xs) = none := by
  rw [outputs_cons, h]; rfl

theorem ema_cons (e : ExponentialMovingAverage F) (y : F) (ys : List F) :
    outputs ExponentialMovingAverage.next e (y :: ys) =
      (outputs ExponentialMovingAverage.next (ExponentialMovingAverage.step e y) ys).map
        ((ExponentialMovingAverage.step e y).current :: ·) :=
  outputs_cons_some (ExponentialMovingAverage.next_eq e y) ys

end Aux

/-! ## AverageTrueRange = EMA fed with TrueRange -/
section ATR

theorem atr_from (s : AverageTrueRange F) (xs : List F) :
    outputs AverageTrueRange.next s xs =
      (outputs TrueRange.next s.true_range xs).bind fun tr =>
        outputs ExponentialMovingAverage.next s.ema tr := by
  induction xs generalizing s with
  | nil => rfl
  | cons x xs ih =>
    rw [outputs_cons_some (AverageTrueRange.next_eq s x), outputs_cons_some (TrueRange.next_eq _ x), ih]
    cases outputs TrueRange.next ({ prev_close := some x } : TrueRange F) xs with
    | none => rfl
    | some l => simp [ema_cons]

theorem atr_bar_from (s : AverageTrueRange F) (bs : List (Bar F)) :
    outputs AverageTrueRange.nextBar s bs =
      (outputs TrueRange.nextBar s.true_range bs).bind fun tr =>
        outputs ExponentialMovingAverage.next s.ema tr := by
  induction bs generalizing s with
  | nil => rfl
  | cons b bs ih =>
    rw [outputs_cons_some (AverageTrueRange.nextBar_eq s b),
      outputs_cons_some (TrueRange.nextBar_eq _ b), ih]
    cases outputs TrueRange.nextBar ({ prev_close := some b.close } : TrueRange F) bs with
    | none => rfl
    | some l => simp [ema_cons]

/-- ATR(n) over scalars = EMA(n) fed with the outputs of a standalone TrueRange -/
theorem atr_is_ema_of_tr_scalar (n : Nat) (xs : List F) :
    (runOut AverageTrueRange.next (AverageTrueRange.fresh n) xs).map (·.2) =
      ((runOut TrueRange.next (TrueRange.fresh : TrueRange F) xs).bind fun r =>
        runOut ExponentialMovingAverage.next (ExponentialMovingAverage.fresh n) r.2).map (·.2) := by
  have h : outputs AverageTrueRange.next (AverageTrueRange.fresh n) xs =
      (outputs TrueRange.next (TrueRange.fresh : TrueRange F) xs).bind fun tr =>
        outputs ExponentialMovingAverage.next (ExponentialMovingAverage.fresh n) tr := atr_from _ xs
  simp only [outputs] at h
  rw [h]
  cases runOut TrueRange.next (TrueRange.fresh : TrueRange F) xs <;> rfl

/-- ATR(n) over bars = EMA(n) fed with the outputs of a standalone TrueRange -/
theorem atr_is_ema_of_tr (n : Nat) (bs : List (Bar F)) :
    (runOut AverageTrueRange.nextBar (AverageTrueRange.fresh n) bs).map (·.2) =
      ((runOut TrueRange.nextBar (TrueRange.fresh : TrueRange F) bs).bind fun r =>
        runOut ExponentialMovingAverage.next (ExponentialMovingAverage.fresh n) r.2).map (·.2) := by
  have h : outputs AverageTrueRange.nextBar (AverageTrueRange.fresh n) bs =
      (outputs TrueRange.nextBar (TrueRange.fresh : TrueRange F) bs).bind fun tr =>
        outputs ExponentialMovingAverage.next (ExponentialMovingAverage.fresh n) tr := atr_bar_from _ bs
  simp only [outputs] at h
  rw [h]
  cases runOut TrueRange.nextBar (TrueRange.fresh : TrueRange F) bs <;> rfl

end ATR

/-! ## SlowStochastic = EMA fed with FastStochastic -/
section SlowStoch

theorem slowstoch_from (s : SlowStochastic F) (xs : List F) :
    outputs SlowStochastic.next s xs =
      (outputs FastStochastic.next s.fast_stochastic xs).bind fun ks =>
        outputs ExponentialMovingAverage.next s.ema ks := by
  induction xs generalizing s with
  | nil => rfl
  | cons x xs ih =>
    cases h : s.fast_stochastic.next x with
    | none =>
      rw [outputs_cons_none ((SlowStochastic.next_none_iff s x).2 h), outputs_cons_none h]; rfl
    | some r =>
      obtain ⟨fs', k⟩ := r
      rw [outputs_cons_some (SlowStochastic.next_wiring s x fs' k h), outputs_cons_some h, ih]
      cases outputs FastStochastic.next fs' xs with
      | none => rfl
      | some l => simp [ema_cons]

theorem slowstoch_bar_from (s : SlowStochastic F) (bs : List (Bar F)) :
    outputs SlowStochastic.nextBar s bs =
      (outputs FastStochastic.nextBar s.fast_stochastic bs).bind fun ks =>
        outputs ExponentialMovingAverage.next s.ema ks := by
  induction bs generalizing s with
  | nil => rfl
  | cons b bs ih =>
    cases h : s.fast_stochastic.nextBar b with
    | none =>
      rw [outputs_cons_none ((SlowStochastic.nextBar_none_iff s b).2 h), outputs_cons_none h]; rfl
    | some r =>
      obtain ⟨fs', k⟩ := r
      rw [outputs_cons_some (SlowStochastic.nextBar_wiring s b fs' k h), outputs_cons_some h, ih]
      cases outputs FastStochastic.nextBar fs' bs with
      | none => rfl
      | some l => simp [ema_cons]

/-- SlowStochastic(sp, ep) over scalars = EMA(ep) fed with a standalone FastStochastic(sp) -/
theorem slowstoch_is_ema_of_faststoch_scalar (sp ep : Nat) (xs : List F) :
    outputs SlowStochastic.next (SlowStochastic.fresh sp ep) xs =
      (outputs FastStochastic.next (FastStochastic.fresh sp) xs).bind fun ks =>
        outputs ExponentialMovingAverage.next (ExponentialMovingAverage.fresh ep) ks :=
  slowstoch_from _ xs

/-- SlowStochastic(sp, ep) over bars = EMA(ep) fed with a standalone FastStochastic(sp) -/
theorem slowstoch_is_ema_of_faststoch (sp ep : Nat) (bs : List (Bar F)) :
    outputs SlowStochastic.nextBar (SlowStochastic.fresh sp ep) bs =
      (outputs FastStochastic.nextBar (FastStochastic.fresh sp) bs).bind fun ks =>
        outputs ExponentialMovingAverage.next (ExponentialMovingAverage.fresh ep) ks :=
  slowstoch_bar_from _ bs

end SlowStoch

/-! ## MACD and PPO = three standalone EMAs -/
section ThreeEmas

theorem macd_from (s : MovingAverageConvergenceDivergence F) (xs : List F) :
    outputs MovingAverageConvergenceDivergence.next s xs =
      (outputs ExponentialMovingAverage.next s.fast_ema xs).bind fun f =>
      (outputs ExponentialMovingAverage.next s.slow_ema xs).bind fun sl =>
      (outputs ExponentialMovingAverage.next s.signal_ema (List.zipWith Scalar.sub f sl)).bind fun sg =>
      some (List.zipWith macdOut (List.zipWith Scalar.sub f sl) sg) := by
  induction xs generalizing s with
  | nil => rfl
  | cons x xs ih =>
    rw [outputs_cons_some (MovingAverageConvergenceDivergence.next_eq s x), ih, ema_cons, ema_cons]
    cases outputs ExponentialMovingAverage.next (ExponentialMovingAverage.step s.fast_ema x) xs with
    | none => rfl
    | some f =>
      cases outputs ExponentialMovingAverage.next (ExponentialMovingAverage.step s.slow_ema x) xs with
      | none => rfl
      | some sl =>
        simp only [Option.bind_some, Option.map_some, List.zipWith_cons_cons, ema_cons]
        cases outputs ExponentialMovingAverage.next _ (List.zipWith Scalar.sub f sl) with
        | none => rfl
        | some sg => rfl

theorem ppo_from (s : PercentagePriceOscillator F) (xs : List F) :
    outputs PercentagePriceOscillator.next s xs =
      (outputs ExponentialMovingAverage.next s.fast_ema xs).bind fun f =>
      (outputs ExponentialMovingAverage.next s.slow_ema xs).bind fun sl =>
      (outputs ExponentialMovingAverage.next s.signal_ema (List.zipWith ppoLine f sl)).bind fun sg =>
      some (List.zipWith ppoOut (List.zipWith ppoLine f sl) sg) := by
  induction xs generalizing s with
  | nil => rfl
  | cons x xs ih =>
    have hp : ∀ a b : F, PercentagePriceOscillator.ppoVal a b = ppoLine a b := fun _ _ => rfl
    rw [outputs_cons_some (PercentagePriceOscillator.next_eq s x), ih, ema_cons, ema_cons]
    simp only [hp]
    cases outputs ExponentialMovingAverage.next (ExponentialMovingAverage.step s.fast_ema x) xs with
    | none => rfl
    | some f =>
      cases outputs ExponentialMovingAverage.next (ExponentialMovingAverage.step s.slow_ema x) xs with
      | none => rfl
      | some sl =>
        simp only [Option.bind_some, Option.map_some, List.zipWith_cons_cons, ema_cons]
        cases outputs ExponentialMovingAverage.next _ (List.zipWith ppoLine f sl) with
        | none => rfl
        | some sg => rfl

/-- MACD(fp, sp, gp): line = EMA(fp) − EMA(sp) of the input, signal = EMA(gp) of the line,
    histogram = line − signal, the three EMAs being standalone instances -/
theorem macd_is_three_emas (fp sp gp : Nat) (xs : List F) :
    outputs MovingAverageConvergenceDivergence.next
        (MovingAverageConvergenceDivergence.fresh fp sp gp) xs =
      (outputs ExponentialMovingAverage.next (ExponentialMovingAverage.fresh fp) xs).bind fun f =>
      (outputs ExponentialMovingAverage.next (ExponentialMovingAverage.fresh sp) xs).bind fun sl =>
      (outputs ExponentialMovingAverage.next (ExponentialMovingAverage.fresh gp)
        (List.zipWith Scalar.sub f sl)).bind fun sg =>
      some (List.zipWith macdOut (List.zipWith Scalar.sub f sl) sg) :=
  macd_from _ xs

/-- PPO(fp, sp, gp): line = (EMA(fp) − EMA(sp)) / EMA(sp) · 100, signal = EMA(gp) of the line,
    histogram = line − signal, the three EMAs being standalone instances -/
theorem ppo_is_three_emas (fp sp gp : Nat) (xs : List F) :
    outputs PercentagePriceOscillator.next (PercentagePriceOscillator.fresh fp sp gp) xs =
      (outputs ExponentialMovingAverage.next (ExponentialMovingAverage.fresh fp) xs).bind fun f =>
      (outputs ExponentialMovingAverage.next (ExponentialMovingAverage.fresh sp) xs).bind fun sl =>
      (outputs ExponentialMovingAverage.next (ExponentialMovingAverage.fresh gp)
        (List.zipWith ppoLine f sl)).bind fun sg =>
      some (List.zipWith ppoOut (List.zipWith ppoLine f sl) sg) :=
  ppo_from _ xs

end ThreeEmas

/-! ## CCI = SMA and MeanAbsoluteDeviation of the typical price -/
section CCI

theorem cci_from (s : CommodityChannelIndex F) (bs : List (Bar F)) :
    outputs CommodityChannelIndex.nextBar s bs =
      (outputs SimpleMovingAverage.next s.sma (bs.map typical)).bind fun a =>
      (outputs MeanAbsoluteDeviation.next s.mad (bs.map typical)).bind fun d =>
      some (zipWith3 cciOut (bs.map typical) a d) := by
  induction bs generalizing s with
  | nil => rfl
  | cons b bs ih =>
    have ht : typical b = CommodityChannelIndex.tp b := rfl
    rw [List.map_cons]
    cases h1 : s.sma.next (typical b) with
    | none =>
      rw [outputs_cons_none (CommodityChannelIndex.nextBar_none_of_sma s b (ht ▸ h1)),
        outputs_cons_none h1]; rfl
    | some r1 =>
      obtain ⟨sma', a⟩ := r1
      cases h2 : s.mad.next (typical b) with
      | none =>
        rw [outputs_cons_none (CommodityChannelIndex.nextBar_none_of_mad s b (ht ▸ h2)),
          outputs_cons_none h2]
        cases outputs SimpleMovingAverage.next s.sma (typical b :: bs.map typical) <;> rfl
      | some r2 =>
        obtain ⟨mad', d⟩ := r2
        rw [outputs_cons_some (CommodityChannelIndex.nextBar_wiring s b sma' a mad' d (ht ▸ h1) (ht ▸ h2)),
          outputs_cons_some h1, outputs_cons_some h2, ih]
        cases outputs SimpleMovingAverage.next sma' (bs.map typical) with
        | none => rfl
        | some as =>
          cases outputs MeanAbsoluteDeviation.next mad' (bs.map typical) with
          | none => rfl
          | some ds => rfl

/-- CCI(n): SMA(n) and MeanAbsoluteDeviation(n), both standalone and both fed the typical
    price, combined as `if mad == 0 then 0 else (tp − sma) / (mad · 0.015)` -/
theorem cci_is_sma_and_mad_of_tp (n : Nat) (bs : List (Bar F)) :
    outputs CommodityChannelIndex.nextBar (CommodityChannelIndex.fresh n) bs =
      (outputs SimpleMovingAverage.next (SimpleMovingAverage.fresh n) (bs.map typical)).bind fun a =>
      (outputs MeanAbsoluteDeviation.next (MeanAbsoluteDeviation.fresh n) (bs.map typical)).bind fun d =>
      some (zipWith3 cciOut (bs.map typical) a d) :=
  cci_from _ bs

end CCI

/-! ## KeltnerChannel = EMA ± multiplier·ATR; ChandelierExit = Maximum/Minimum ∓ multiplier·ATR -/
section Channels

theorem kc_from (s : KeltnerChannel F) (xs : List F) :
    outputs KeltnerChannel.next s xs =
      (outputs ExponentialMovingAverage.next s.ema xs).bind fun a =>
      (outputs AverageTrueRange.next s.atr xs).bind fun r =>
      some (List.zipWith (kcOut s.multiplier) a r) := by
  induction xs generalizing s with
  | nil => rfl
  | cons x xs ih =>
    rw [outputs_cons_some (KeltnerChannel.next_eq s x), ih, ema_cons,
      outputs_cons_some (AverageTrueRange.next_eq s.atr x)]
    cases outputs ExponentialMovingAverage.next (ExponentialMovingAverage.step s.ema x) xs with
    | none => rfl
    | some a =>
      cases outputs AverageTrueRange.next _ xs with
      | none => rfl
      | some r => rfl

theorem kc_bar_from (s : KeltnerChannel F) (bs : List (Bar F)) :
    outputs KeltnerChannel.nextBar s bs =
      (outputs ExponentialMovingAverage.next s.ema (bs.map typical)).bind fun a =>
      (outputs AverageTrueRange.nextBar s.atr bs).bind fun r =>
      some (List.zipWith (kcOut s.multiplier) a r) := by
  induction bs generalizing s with
  | nil => rfl
  | cons b bs ih =>
    have ht : KeltnerChannel.typicalPrice b = typical b := rfl
    rw [outputs_cons_some (KeltnerChannel.nextBar_eq s b), ih, List.map_cons, ema_cons,
      outputs_cons_some (AverageTrueRange.nextBar_eq s.atr b)]
    simp only [ht]
    cases outputs ExponentialMovingAverage.next
        (ExponentialMovingAverage.step s.ema (typical b)) (bs.map typical) with
    | none => rfl
    | some a =>
      cases outputs AverageTrueRange.nextBar _ bs with
      | none => rfl
      | some r => rfl

/-- KeltnerChannel(n, m), scalar path: standalone EMA(n) of the input ± m · standalone ATR(n) -/
theorem kc_is_ema_and_atr_scalar (n : Nat) (m : F) (xs : List F) :
    outputs KeltnerChannel.next (KeltnerChannel.fresh n m) xs =
      (outputs ExponentialMovingAverage.next (ExponentialMovingAverage.fresh n) xs).bind fun a =>
      (outputs AverageTrueRange.next (AverageTrueRange.fresh n) xs).bind fun r =>
      some (List.zipWith (kcOut m) a r) :=
  kc_from _ xs

/-- KeltnerChannel(n, m), bar path: standalone EMA(n) of the typical price ± m · standalone
    ATR(n) of the bars -/
theorem kc_is_ema_and_atr (n : Nat) (m : F) (bs : List (Bar F)) :
    outputs KeltnerChannel.nextBar (KeltnerChannel.fresh n m) bs =
      (outputs ExponentialMovingAverage.next (ExponentialMovingAverage.fresh n) (bs.map typical)).bind fun a =>
      (outputs AverageTrueRange.nextBar (AverageTrueRange.fresh n) bs).bind fun r =>
      some (List.zipWith (kcOut m) a r) :=
  kc_bar_from _ bs

theorem ce_from (s : ChandelierExit F) (bs : List (Bar F)) :
    outputs ChandelierExit.nextBar s bs =
      (outputs AverageTrueRange.nextBar s.atr bs).bind fun a =>
      (outputs Minimum.nextBar s.min bs).bind fun lo =>
      (outputs Maximum.nextBar s.max bs).bind fun hi =>
      some (zipWith3 (ceOut s.multiplier) a lo hi) := by
  induction bs generalizing s with
  | nil => rfl
  | cons b bs ih =>
    rw [outputs_cons_some (AverageTrueRange.nextBar_eq s.atr b)]
    cases h2 : s.min.nextBar b with
    | none =>
      rw [outputs_cons_none ((ChandelierExit.nextBar_none_iff s b).2 (Or.inl h2)), outputs_cons_none h2]
      cases outputs AverageTrueRange.nextBar _ bs <;> rfl
    | some r2 =>
      obtain ⟨mn', lo⟩ := r2
      cases h3 : s.max.nextBar b with
      | none =>
        rw [outputs_cons_none ((ChandelierExit.nextBar_none_iff s b).2 (Or.inr h3)), outputs_cons_none h3]
        cases outputs AverageTrueRange.nextBar _ bs with
        | none => rfl
        | some a => cases outputs Minimum.nextBar s.min (b :: bs) <;> rfl
      | some r3 =>
        obtain ⟨mx', hi⟩ := r3
        rw [outputs_cons_some (ChandelierExit.nextBar_wiring s b _ _ mn' lo mx' hi
            (AverageTrueRange.nextBar_eq s.atr b) h2 h3),
          outputs_cons_some h2, outputs_cons_some h3, ih]
        cases outputs AverageTrueRange.nextBar _ bs with
        | none => rfl
        | some a =>
          cases outputs Minimum.nextBar mn' bs with
          | none => rfl
          | some los =>
            cases outputs Maximum.nextBar mx' bs with
            | none => rfl
            | some his => rfl

/-- ChandelierExit(n, m): `long = Maximum(n) − ATR(n)·m`, `short = Minimum(n) + ATR(n)·m`, the
    three parts being standalone instances fed the same bars -/
theorem ce_is_max_min_atr (n : Nat) (m : F) (bs : List (Bar F)) :
    outputs ChandelierExit.nextBar (ChandelierExit.fresh n m) bs =
      (outputs AverageTrueRange.nextBar (AverageTrueRange.fresh n) bs).bind fun a =>
      (outputs Minimum.nextBar (Minimum.fresh n) bs).bind fun lo =>
      (outputs Maximum.nextBar (Maximum.fresh n) bs).bind fun hi =>
      some (zipWith3 (ceOut m) a lo hi) :=
  ce_from _ bs

end Channels

/-! ## BollingerBands half-width = multiplier · StandardDeviation -/
section BB

/-- the first components of `sdNextWithMean`'s outputs are the standalone SD outputs -/
theorem sdNextWithMean_outputs (s : StandardDeviation F) (xs : List F) :
    (outputs sdNextWithMean s xs).map (List.map (·.1)) = outputs StandardDeviation.next s xs := by
  induction xs generalizing s with
  | nil => rfl
  | cons x xs ih =>
    cases h : s.next x with
    | none =>
      rw [outputs_cons_none h, outputs_cons_none (show sdNextWithMean s x = none by simp [sdNextWithMean, h])]
      rfl
    | some r =>
      obtain ⟨sd', v⟩ := r
      rw [outputs_cons_some h,
        outputs_cons_some (show sdNextWithMean s x = some (sd', (v, sd'.mean)) by simp [sdNextWithMean, h]),
        ← ih]
      cases outputs sdNextWithMean sd' xs <;> rfl

theorem bb_from (s : BollingerBands F) (xs : List F) :
    outputs BollingerBands.next s xs =
      (outputs sdNextWithMean s.sd xs).map (List.map (bbOut s.multiplier)) := by
  induction xs generalizing s with
  | nil => rfl
  | cons x xs ih =>
    cases h : s.sd.next x with
    | none =>
      rw [outputs_cons_none (BollingerBands.next_none_sd s x h),
        outputs_cons_none (show sdNextWithMean s.sd x = none by simp [sdNextWithMean, h])]
      rfl
    | some r =>
      obtain ⟨sd', v⟩ := r
      rw [outputs_cons_some (BollingerBands.next_eq_sd s x sd' v h),
        outputs_cons_some (show sdNextWithMean s.sd x = some (sd', (v, sd'.mean)) by
          simp [sdNextWithMean, h]), ih]
      cases outputs sdNextWithMean sd' xs <;> rfl

/-- BollingerBands(n, m): with `(sdout, mean)` the output of a standalone StandardDeviation(n)
    on the same stream and its `mean()` read after each update,
    `upper = mean + sdout·m`, `lower = mean − sdout·m` (and `average = mean`) -/
theorem bb_halfwidth_is_m_times_sd (n : Nat) (m : F) (xs : List F) :
    outputs BollingerBands.next (BollingerBands.fresh n m) xs =
      (outputs sdNextWithMean (StandardDeviation.fresh n) xs).map (List.map (bbOut m)) :=
  bb_from _ xs

end BB

end TaRs.Props.C15
