/-
  C06 — serialize/deserialize at any point of a stream preserves all future outputs.

  L0: for every indicator and EVERY well-formed state s (fresh, warming up, full, just reset —
  all states), decoding the model's bincode encoding gives back exactly s (hence every
  continuation, the parameters and Display agree, and repeated round-trips are the identity).
  Modelled, not verified: serde_derive + bincode themselves; the model's `enc` is compared
  byte-for-byte with the real bincode output by the differential harness.

  Reading guide.  For every indicator `X` (and `DataItem`) there is
    * `X.Enc64 s` — "every `usize` field of `s` (recursively) is `< 2^64` and every `Vec` has
      fewer than `2^64` elements": exactly what the fixed-width `u64` encoding needs, and the
      weakest hypothesis under which the round trip holds (in the model `usize` fields are
      unbounded `Nat`s; in Rust the bound holds by typing).  TrueRange, OnBalanceVolume and
      DataItem have no `usize`/`Vec` field: no hypothesis at all.
    * `x_enc64_of_wf : X.WF s → X.Enc64 s` — every well-formed state qualifies.  For the nine
      window indicators and their compositions (FastStochastic, CommodityChannelIndex,
      BollingerBands, ChandelierExit) `WF` alone suffices (`period * 8 ≤ isize::MAX`).  `WF` of
      the EMA-based indicators (EMA, RSI, SlowStochastic, ATR, MACD, PPO, KeltnerChannel) puts
      no upper bound on the model's `period : Nat`, so there the lemma takes the typing fact
      `period ≤ usize::MAX` as an explicit extra hypothesis (with `WF` only the statement is
      false in the model: an EMA with `period = 2^64` encodes like `period = 0`).
    * `x_roundtrip : X.Enc64 s → X.dec ob (X.enc tb s ++ r) = some (s, r)` — decoding the
      encoding of `s` (followed by arbitrary further bytes `r`) returns exactly `s` and leaves
      exactly `r`.  `tb`/`ob` are `f64::to_bits`/`from_bits` with `ob (tb x) = x`.
    * `x_roundtrip_wf` — the same from `WF` (plus the typing fact where needed).
    * `x_roundtrip_then_run` — whatever is computed from the decoded state (`k` = any
      continuation: a run of `next`/`next(&bar)`/`reset` calls with all their outputs, the
      parameters, `Display`) is what is computed from `s`.
  Generic corollaries: `roundtrip_twice` (decode∘encode twice = once = identity),
  `roundtrip_then_runOps`, `roundtrip_then_runOut`.
-/
import TaRs.Lemmas.CodecLemmas
import TaRs.Lemmas.Machine
import TaRs.Lemmas.DataItem
import TaRs.Lemmas.Core.TrueRange
import TaRs.Lemmas.Core.OnBalanceVolume
import TaRs.Lemmas.Core.ExponentialMovingAverage
import TaRs.Lemmas.Core.SimpleMovingAverage
import TaRs.Lemmas.Core.WeightedMovingAverage
import TaRs.Lemmas.Core.StandardDeviation
import TaRs.Lemmas.Core.MeanAbsoluteDeviation
import TaRs.Lemmas.Core.Minimum
import TaRs.Lemmas.Core.Maximum
import TaRs.Lemmas.Core.EfficiencyRatio
import TaRs.Lemmas.Core.RateOfChange
import TaRs.Lemmas.Core.MoneyFlowIndex
import TaRs.Lemmas.Core.RelativeStrengthIndex
import TaRs.Lemmas.Core.FastStochastic
import TaRs.Lemmas.Core.SlowStochastic
import TaRs.Lemmas.Core.AverageTrueRange
import TaRs.Lemmas.Core.MovingAverageConvergenceDivergence
import TaRs.Lemmas.Core.PercentagePriceOscillator
import TaRs.Lemmas.Core.CommodityChannelIndex
import TaRs.Lemmas.Core.BollingerBands
import TaRs.Lemmas.Core.ChandelierExit
import TaRs.Lemmas.Core.KeltnerChannel
import TaRs.Lemmas.Misc.AverageTrueRange

/-! ### `Enc64`: the encodability predicate (definitions) -/

/-- every `usize` of a `ExponentialMovingAverage` state fits 64 bits, every `Vec` has `< 2^64` elements -/
structure TaRs.Gen.ExponentialMovingAverage.Enc64 {F : Type} (s : TaRs.Gen.ExponentialMovingAverage F) : Prop where
  period : s.period < 2 ^ 64

/-- every `usize` of a `SimpleMovingAverage` state fits 64 bits, every `Vec` has `< 2^64` elements -/
structure TaRs.Gen.SimpleMovingAverage.Enc64 {F : Type} (s : TaRs.Gen.SimpleMovingAverage F) : Prop where
  period : s.period < 2 ^ 64
  index : s.index < 2 ^ 64
  count : s.count < 2 ^ 64
  deque : s.deque.size < 2 ^ 64

/-- every `usize` of a `WeightedMovingAverage` state fits 64 bits, every `Vec` has `< 2^64` elements -/
structure TaRs.Gen.WeightedMovingAverage.Enc64 {F : Type} (s : TaRs.Gen.WeightedMovingAverage F) : Prop where
  period : s.period < 2 ^ 64
  index : s.index < 2 ^ 64
  count : s.count < 2 ^ 64
  deque : s.deque.size < 2 ^ 64

/-- every `usize` of a `StandardDeviation` state fits 64 bits, every `Vec` has `< 2^64` elements -/
structure TaRs.Gen.StandardDeviation.Enc64 {F : Type} (s : TaRs.Gen.StandardDeviation F) : Prop where
  period : s.period < 2 ^ 64
  index : s.index < 2 ^ 64
  count : s.count < 2 ^ 64
  deque : s.deque.size < 2 ^ 64

/-- every `usize` of a `MeanAbsoluteDeviation` state fits 64 bits, every `Vec` has `< 2^64` elements -/
structure TaRs.Gen.MeanAbsoluteDeviation.Enc64 {F : Type} (s : TaRs.Gen.MeanAbsoluteDeviation F) : Prop where
  period : s.period < 2 ^ 64
  index : s.index < 2 ^ 64
  count : s.count < 2 ^ 64
  deque : s.deque.size < 2 ^ 64

/-- every `usize` of a `Minimum` state fits 64 bits, every `Vec` has `< 2^64` elements -/
structure TaRs.Gen.Minimum.Enc64 {F : Type} (s : TaRs.Gen.Minimum F) : Prop where
  period : s.period < 2 ^ 64
  min_index : s.min_index < 2 ^ 64
  cur_index : s.cur_index < 2 ^ 64
  deque : s.deque.size < 2 ^ 64

/-- every `usize` of a `Maximum` state fits 64 bits, every `Vec` has `< 2^64` elements -/
structure TaRs.Gen.Maximum.Enc64 {F : Type} (s : TaRs.Gen.Maximum F) : Prop where
  period : s.period < 2 ^ 64
  max_index : s.max_index < 2 ^ 64
  cur_index : s.cur_index < 2 ^ 64
  deque : s.deque.size < 2 ^ 64

/-- every `usize` of a `EfficiencyRatio` state fits 64 bits, every `Vec` has `< 2^64` elements -/
structure TaRs.Gen.EfficiencyRatio.Enc64 {F : Type} (s : TaRs.Gen.EfficiencyRatio F) : Prop where
  period : s.period < 2 ^ 64
  index : s.index < 2 ^ 64
  count : s.count < 2 ^ 64
  deque : s.deque.size < 2 ^ 64

/-- every `usize` of a `RateOfChange` state fits 64 bits, every `Vec` has `< 2^64` elements -/
structure TaRs.Gen.RateOfChange.Enc64 {F : Type} (s : TaRs.Gen.RateOfChange F) : Prop where
  period : s.period < 2 ^ 64
  index : s.index < 2 ^ 64
  count : s.count < 2 ^ 64
  deque : s.deque.size < 2 ^ 64

/-- every `usize` of a `MoneyFlowIndex` state fits 64 bits, every `Vec` has `< 2^64` elements -/
structure TaRs.Gen.MoneyFlowIndex.Enc64 {F : Type} (s : TaRs.Gen.MoneyFlowIndex F) : Prop where
  period : s.period < 2 ^ 64
  index : s.index < 2 ^ 64
  count : s.count < 2 ^ 64
  deque : s.deque.size < 2 ^ 64

/-- every `usize` of a `RelativeStrengthIndex` state fits 64 bits, every `Vec` has `< 2^64` elements -/
structure TaRs.Gen.RelativeStrengthIndex.Enc64 {F : Type} (s : TaRs.Gen.RelativeStrengthIndex F) : Prop where
  period : s.period < 2 ^ 64
  up_ema_indicator : TaRs.Gen.ExponentialMovingAverage.Enc64 s.up_ema_indicator
  down_ema_indicator : TaRs.Gen.ExponentialMovingAverage.Enc64 s.down_ema_indicator

/-- every `usize` of a `FastStochastic` state fits 64 bits, every `Vec` has `< 2^64` elements -/
structure TaRs.Gen.FastStochastic.Enc64 {F : Type} (s : TaRs.Gen.FastStochastic F) : Prop where
  period : s.period < 2 ^ 64
  minimum : TaRs.Gen.Minimum.Enc64 s.minimum
  maximum : TaRs.Gen.Maximum.Enc64 s.maximum

/-- every `usize` of a `SlowStochastic` state fits 64 bits, every `Vec` has `< 2^64` elements -/
structure TaRs.Gen.SlowStochastic.Enc64 {F : Type} (s : TaRs.Gen.SlowStochastic F) : Prop where
  fast_stochastic : TaRs.Gen.FastStochastic.Enc64 s.fast_stochastic
  ema : TaRs.Gen.ExponentialMovingAverage.Enc64 s.ema

/-- every `usize` of a `AverageTrueRange` state fits 64 bits, every `Vec` has `< 2^64` elements -/
structure TaRs.Gen.AverageTrueRange.Enc64 {F : Type} (s : TaRs.Gen.AverageTrueRange F) : Prop where
  ema : TaRs.Gen.ExponentialMovingAverage.Enc64 s.ema

/-- every `usize` of a `MovingAverageConvergenceDivergence` state fits 64 bits, every `Vec` has `< 2^64` elements -/
structure TaRs.Gen.MovingAverageConvergenceDivergence.Enc64 {F : Type} (s : TaRs.Gen.MovingAverageConvergenceDivergence F) : Prop where
  fast_ema : TaRs.Gen.ExponentialMovingAverage.Enc64 s.fast_ema
  slow_ema : TaRs.Gen.ExponentialMovingAverage.Enc64 s.slow_ema
  signal_ema : TaRs.Gen.ExponentialMovingAverage.Enc64 s.signal_ema

/-- every `usize` of a `PercentagePriceOscillator` state fits 64 bits, every `Vec` has `< 2^64` elements -/
structure TaRs.Gen.PercentagePriceOscillator.Enc64 {F : Type} (s : TaRs.Gen.PercentagePriceOscillator F) : Prop where
  fast_ema : TaRs.Gen.ExponentialMovingAverage.Enc64 s.fast_ema
  slow_ema : TaRs.Gen.ExponentialMovingAverage.Enc64 s.slow_ema
  signal_ema : TaRs.Gen.ExponentialMovingAverage.Enc64 s.signal_ema

/-- every `usize` of a `CommodityChannelIndex` state fits 64 bits, every `Vec` has `< 2^64` elements -/
structure TaRs.Gen.CommodityChannelIndex.Enc64 {F : Type} (s : TaRs.Gen.CommodityChannelIndex F) : Prop where
  sma : TaRs.Gen.SimpleMovingAverage.Enc64 s.sma
  mad : TaRs.Gen.MeanAbsoluteDeviation.Enc64 s.mad

/-- every `usize` of a `BollingerBands` state fits 64 bits, every `Vec` has `< 2^64` elements -/
structure TaRs.Gen.BollingerBands.Enc64 {F : Type} (s : TaRs.Gen.BollingerBands F) : Prop where
  period : s.period < 2 ^ 64
  sd : TaRs.Gen.StandardDeviation.Enc64 s.sd

/-- every `usize` of a `ChandelierExit` state fits 64 bits, every `Vec` has `< 2^64` elements -/
structure TaRs.Gen.ChandelierExit.Enc64 {F : Type} (s : TaRs.Gen.ChandelierExit F) : Prop where
  atr : TaRs.Gen.AverageTrueRange.Enc64 s.atr
  min : TaRs.Gen.Minimum.Enc64 s.min
  max : TaRs.Gen.Maximum.Enc64 s.max

/-- every `usize` of a `KeltnerChannel` state fits 64 bits, every `Vec` has `< 2^64` elements -/
structure TaRs.Gen.KeltnerChannel.Enc64 {F : Type} (s : TaRs.Gen.KeltnerChannel F) : Prop where
  period : s.period < 2 ^ 64
  atr : TaRs.Gen.AverageTrueRange.Enc64 s.atr
  ema : TaRs.Gen.ExponentialMovingAverage.Enc64 s.ema

namespace TaRs.Props.C06
open TaRs TaRs.Gen TaRs.Rs TaRs.Codec

/-! ### Generic corollaries (lemma schemas) -/
section Generic

/-- decode∘encode twice = decode∘encode once (= the identity): re-encoding the decoded state
    and decoding again changes nothing, for any codec with the round-trip property at `s`. -/
theorem roundtrip_twice {S : Type} (enc : S → List UInt8) (dec : List UInt8 → Option (S × List UInt8))
    (s : S) (h : ∀ r, dec (enc s ++ r) = some (s, r)) (r : List UInt8) :
    ((dec (enc s ++ r)).bind fun p => dec (enc p.1 ++ p.2)) = dec (enc s ++ r) ∧
      dec (enc s ++ r) = some (s, r) := by
  refine ⟨?_, h r⟩
  simp only [h r, Option.bind_some]

/-- `n` successive re-encode/decode round trips of a decoded pair -/
def iterRT {S : Type} (enc : S → List UInt8) (dec : List UInt8 → Option (S × List UInt8)) :
    Nat → S × List UInt8 → Option (S × List UInt8)
  | 0, p => some p
  | n + 1, p => (dec (enc p.1 ++ p.2)).bind (iterRT enc dec n)

/-- any number of encode/decode round trips is the identity -/
theorem roundtrip_iter {S : Type} (enc : S → List UInt8) (dec : List UInt8 → Option (S × List UInt8))
    (s : S) (h : ∀ r, dec (enc s ++ r) = some (s, r)) (r : List UInt8) (n : Nat) :
    iterRT enc dec n (s, r) = some (s, r) := by
  induction n with
  | zero => rfl
  | succ n ih => simp only [iterRT, h r, Option.bind_some, ih]

/-- any continuation computed from the decoded state is the one computed from `s` -/
theorem roundtrip_then {S α : Type} (enc : S → List UInt8) (dec : List UInt8 → Option (S × List UInt8))
    (s : S) (h : ∀ r, dec (enc s ++ r) = some (s, r)) (r : List UInt8) (k : S → α) :
    (dec (enc s ++ r)).map (fun p => k p.1) = some (k s) := by
  rw [h r]; rfl

/-- every sequence of client calls (`next`, `next(&bar)`, `reset`) run on the decoded state
    behaves as on `s` (same success/panic, same final state) -/
theorem roundtrip_then_runOps {S F : Type} (enc : S → List UInt8) (dec : List UInt8 → Option (S × List UInt8))
    (s : S) (h : ∀ r, dec (enc s ++ r) = some (s, r)) (r : List UInt8)
    (step : S → Op F → Option S) (ops : List (Op F)) :
    ((dec (enc s ++ r)).bind fun p => runOps step p.1 ops) = runOps step s ops := by
  rw [h r]; rfl

/-- every input stream fed to the decoded state yields the same outputs (all future outputs)
    and the same final state as on `s` -/
theorem roundtrip_then_runOut {S I O : Type} (enc : S → List UInt8) (dec : List UInt8 → Option (S × List UInt8))
    (s : S) (h : ∀ r, dec (enc s ++ r) = some (s, r)) (r : List UInt8)
    (next : S → I → Option (S × O)) (xs : List I) :
    ((dec (enc s ++ r)).bind fun p => runOut next p.1 xs) = runOut next s xs := by
  rw [h r]; rfl

end Generic

/-! ### Round trips -/
section RoundTrip
variable {F : Type}

theorem tr_roundtrip (tb : F → UInt64) (ob : UInt64 → F) (hob : ∀ x, ob (tb x) = x)
    (s : TrueRange F) (r : List UInt8) :
    TrueRange.dec ob (TrueRange.enc tb s ++ r) = some (s, r) := by
  simp only [TrueRange.enc, TrueRange.dec, List.append_assoc,
    bind_rt (decOptF_encOptF tb ob hob s.prev_close),
    Option.pure_def]

theorem tr_roundtrip_then_run {α : Type} (tb : F → UInt64) (ob : UInt64 → F) (hob : ∀ x, ob (tb x) = x)
    (s : TrueRange F) (r : List UInt8) (k : TrueRange F → α) :
    (TrueRange.dec ob (TrueRange.enc tb s ++ r)).map (fun p => k p.1) = some (k s) := by
  rw [tr_roundtrip tb ob hob s r]; rfl

theorem obv_roundtrip (tb : F → UInt64) (ob : UInt64 → F) (hob : ∀ x, ob (tb x) = x)
    (s : OnBalanceVolume F) (r : List UInt8) :
    OnBalanceVolume.dec ob (OnBalanceVolume.enc tb s ++ r) = some (s, r) := by
  simp only [OnBalanceVolume.enc, OnBalanceVolume.dec, List.append_assoc,
    bind_rt (decF_encF tb ob hob s.obv),
    bind_rt (decF_encF tb ob hob s.prev_close),
    Option.pure_def]

theorem obv_roundtrip_then_run {α : Type} (tb : F → UInt64) (ob : UInt64 → F) (hob : ∀ x, ob (tb x) = x)
    (s : OnBalanceVolume F) (r : List UInt8) (k : OnBalanceVolume F → α) :
    (OnBalanceVolume.dec ob (OnBalanceVolume.enc tb s ++ r)).map (fun p => k p.1) = some (k s) := by
  rw [obv_roundtrip tb ob hob s r]; rfl

theorem dataItem_roundtrip (tb : F → UInt64) (ob : UInt64 → F) (hob : ∀ x, ob (tb x) = x)
    (s : DataItem F) (r : List UInt8) :
    DataItem.dec ob (DataItem.enc tb s ++ r) = some (s, r) := by
  simp only [DataItem.enc, DataItem.dec, List.append_assoc,
    bind_rt (decF_encF tb ob hob s.open_),
    bind_rt (decF_encF tb ob hob s.high),
    bind_rt (decF_encF tb ob hob s.low),
    bind_rt (decF_encF tb ob hob s.close),
    bind_rt (decF_encF tb ob hob s.volume),
    Option.pure_def]

theorem dataItem_roundtrip_then_run {α : Type} (tb : F → UInt64) (ob : UInt64 → F) (hob : ∀ x, ob (tb x) = x)
    (s : DataItem F) (r : List UInt8) (k : DataItem F → α) :
    (DataItem.dec ob (DataItem.enc tb s ++ r)).map (fun p => k p.1) = some (k s) := by
  rw [dataItem_roundtrip tb ob hob s r]; rfl

theorem ema_roundtrip (tb : F → UInt64) (ob : UInt64 → F) (hob : ∀ x, ob (tb x) = x)
    (s : ExponentialMovingAverage F) (h : ExponentialMovingAverage.Enc64 s) (r : List UInt8) :
    ExponentialMovingAverage.dec ob (ExponentialMovingAverage.enc tb s ++ r) = some (s, r) := by
  simp only [ExponentialMovingAverage.enc, ExponentialMovingAverage.dec, List.append_assoc,
    bind_rt (decUsize_encUsize s.period h.period),
    bind_rt (decF_encF tb ob hob s.k),
    bind_rt (decF_encF tb ob hob s.current),
    bind_rt (decBool_encBool s.is_new),
    Option.pure_def]

theorem ema_roundtrip_then_run {α : Type} (tb : F → UInt64) (ob : UInt64 → F) (hob : ∀ x, ob (tb x) = x)
    (s : ExponentialMovingAverage F) (h : ExponentialMovingAverage.Enc64 s) (r : List UInt8) (k : ExponentialMovingAverage F → α) :
    (ExponentialMovingAverage.dec ob (ExponentialMovingAverage.enc tb s ++ r)).map (fun p => k p.1) = some (k s) := by
  rw [ema_roundtrip tb ob hob s h r]; rfl

theorem sma_roundtrip (tb : F → UInt64) (ob : UInt64 → F) (hob : ∀ x, ob (tb x) = x)
    (s : SimpleMovingAverage F) (h : SimpleMovingAverage.Enc64 s) (r : List UInt8) :
    SimpleMovingAverage.dec ob (SimpleMovingAverage.enc tb s ++ r) = some (s, r) := by
  simp only [SimpleMovingAverage.enc, SimpleMovingAverage.dec, List.append_assoc,
    bind_rt (decUsize_encUsize s.period h.period),
    bind_rt (decUsize_encUsize s.index h.index),
    bind_rt (decUsize_encUsize s.count h.count),
    bind_rt (decF_encF tb ob hob s.sum),
    bind_rt (decArr_encArr tb ob hob s.deque h.deque),
    Option.pure_def]

theorem sma_roundtrip_then_run {α : Type} (tb : F → UInt64) (ob : UInt64 → F) (hob : ∀ x, ob (tb x) = x)
    (s : SimpleMovingAverage F) (h : SimpleMovingAverage.Enc64 s) (r : List UInt8) (k : SimpleMovingAverage F → α) :
    (SimpleMovingAverage.dec ob (SimpleMovingAverage.enc tb s ++ r)).map (fun p => k p.1) = some (k s) := by
  rw [sma_roundtrip tb ob hob s h r]; rfl

theorem wma_roundtrip (tb : F → UInt64) (ob : UInt64 → F) (hob : ∀ x, ob (tb x) = x)
    (s : WeightedMovingAverage F) (h : WeightedMovingAverage.Enc64 s) (r : List UInt8) :
    WeightedMovingAverage.dec ob (WeightedMovingAverage.enc tb s ++ r) = some (s, r) := by
  simp only [WeightedMovingAverage.enc, WeightedMovingAverage.dec, List.append_assoc,
    bind_rt (decUsize_encUsize s.period h.period),
    bind_rt (decUsize_encUsize s.index h.index),
    bind_rt (decUsize_encUsize s.count h.count),
    bind_rt (decF_encF tb ob hob s.weight),
    bind_rt (decF_encF tb ob hob s.sum),
    bind_rt (decF_encF tb ob hob s.sum_flat),
    bind_rt (decArr_encArr tb ob hob s.deque h.deque),
    Option.pure_def]

theorem wma_roundtrip_then_run {α : Type} (tb : F → UInt64) (ob : UInt64 → F) (hob : ∀ x, ob (tb x) = x)
    (s : WeightedMovingAverage F) (h : WeightedMovingAverage.Enc64 s) (r : List UInt8) (k : WeightedMovingAverage F → α) :
    (WeightedMovingAverage.dec ob (WeightedMovingAverage.enc tb s ++ r)).map (fun p => k p.1) = some (k s) := by
  rw [wma_roundtrip tb ob hob s h r]; rfl

theorem sd_roundtrip (tb : F → UInt64) (ob : UInt64 → F) (hob : ∀ x, ob (tb x) = x)
    (s : StandardDeviation F) (h : StandardDeviation.Enc64 s) (r : List UInt8) :
    StandardDeviation.dec ob (StandardDeviation.enc tb s ++ r) = some (s, r) := by
  simp only [StandardDeviation.enc, StandardDeviation.dec, List.append_assoc,
    bind_rt (decUsize_encUsize s.period h.period),
    bind_rt (decUsize_encUsize s.index h.index),
    bind_rt (decUsize_encUsize s.count h.count),
    bind_rt (decF_encF tb ob hob s.m),
    bind_rt (decF_encF tb ob hob s.m2),
    bind_rt (decArr_encArr tb ob hob s.deque h.deque),
    Option.pure_def]

theorem sd_roundtrip_then_run {α : Type} (tb : F → UInt64) (ob : UInt64 → F) (hob : ∀ x, ob (tb x) = x)
    (s : StandardDeviation F) (h : StandardDeviation.Enc64 s) (r : List UInt8) (k : StandardDeviation F → α) :
    (StandardDeviation.dec ob (StandardDeviation.enc tb s ++ r)).map (fun p => k p.1) = some (k s) := by
  rw [sd_roundtrip tb ob hob s h r]; rfl

theorem mad_roundtrip (tb : F → UInt64) (ob : UInt64 → F) (hob : ∀ x, ob (tb x) = x)
    (s : MeanAbsoluteDeviation F) (h : MeanAbsoluteDeviation.Enc64 s) (r : List UInt8) :
    MeanAbsoluteDeviation.dec ob (MeanAbsoluteDeviation.enc tb s ++ r) = some (s, r) := by
  simp only [MeanAbsoluteDeviation.enc, MeanAbsoluteDeviation.dec, List.append_assoc,
    bind_rt (decUsize_encUsize s.period h.period),
    bind_rt (decUsize_encUsize s.index h.index),
    bind_rt (decUsize_encUsize s.count h.count),
    bind_rt (decF_encF tb ob hob s.sum),
    bind_rt (decArr_encArr tb ob hob s.deque h.deque),
    Option.pure_def]

theorem mad_roundtrip_then_run {α : Type} (tb : F → UInt64) (ob : UInt64 → F) (hob : ∀ x, ob (tb x) = x)
    (s : MeanAbsoluteDeviation F) (h : MeanAbsoluteDeviation.Enc64 s) (r : List UInt8) (k : MeanAbsoluteDeviation F → α) :
    (MeanAbsoluteDeviation.dec ob (MeanAbsoluteDeviation.enc tb s ++ r)).map (fun p => k p.1) = some (k s) := by
  rw [mad_roundtrip tb ob hob s h r]; rfl

theorem minimum_roundtrip (tb : F → UInt64) (ob : UInt64 → F) (hob : ∀ x, ob (tb x) = x)
    (s : Minimum F) (h : Minimum.Enc64 s) (r : List UInt8) :
    Minimum.dec ob (Minimum.enc tb s ++ r) = some (s, r) := by
  simp only [Minimum.enc, Minimum.dec, List.append_assoc,
    bind_rt (decUsize_encUsize s.period h.period),
    bind_rt (decUsize_encUsize s.min_index h.min_index),
    bind_rt (decUsize_encUsize s.cur_index h.cur_index),
    bind_rt (decArr_encArr tb ob hob s.deque h.deque),
    Option.pure_def]

theorem minimum_roundtrip_then_run {α : Type} (tb : F → UInt64) (ob : UInt64 → F) (hob : ∀ x, ob (tb x) = x)
    (s : Minimum F) (h : Minimum.Enc64 s) (r : List UInt8) (k : Minimum F → α) :
    (Minimum.dec ob (Minimum.enc tb s ++ r)).map (fun p => k p.1) = some (k s) := by
  rw [minimum_roundtrip tb ob hob s h r]; rfl

theorem maximum_roundtrip (tb : F → UInt64) (ob : UInt64 → F) (hob : ∀ x, ob (tb x) = x)
    (s : Maximum F) (h : Maximum.Enc64 s) (r : List UInt8) :
    Maximum.dec ob (Maximum.enc tb s ++ r) = some (s, r) := by
  simp only [Maximum.enc, Maximum.dec, List.append_assoc,
    bind_rt (decUsize_encUsize s.period h.period),
    bind_rt (decUsize_encUsize s.max_index h.max_index),
    bind_rt (decUsize_encUsize s.cur_index h.cur_index),
    bind_rt (decArr_encArr tb ob hob s.deque h.deque),
    Option.pure_def]

theorem maximum_roundtrip_then_run {α : Type} (tb : F → UInt64) (ob : UInt64 → F) (hob : ∀ x, ob (tb x) = x)
    (s : Maximum F) (h : Maximum.Enc64 s) (r : List UInt8) (k : Maximum F → α) :
    (Maximum.dec ob (Maximum.enc tb s ++ r)).map (fun p => k p.1) = some (k s) := by
  rw [maximum_roundtrip tb ob hob s h r]; rfl

theorem er_roundtrip (tb : F → UInt64) (ob : UInt64 → F) (hob : ∀ x, ob (tb x) = x)
    (s : EfficiencyRatio F) (h : EfficiencyRatio.Enc64 s) (r : List UInt8) :
    EfficiencyRatio.dec ob (EfficiencyRatio.enc tb s ++ r) = some (s, r) := by
  simp only [EfficiencyRatio.enc, EfficiencyRatio.dec, List.append_assoc,
    bind_rt (decUsize_encUsize s.period h.period),
    bind_rt (decUsize_encUsize s.index h.index),
    bind_rt (decUsize_encUsize s.count h.count),
    bind_rt (decArr_encArr tb ob hob s.deque h.deque),
    Option.pure_def]

theorem er_roundtrip_then_run {α : Type} (tb : F → UInt64) (ob : UInt64 → F) (hob : ∀ x, ob (tb x) = x)
    (s : EfficiencyRatio F) (h : EfficiencyRatio.Enc64 s) (r : List UInt8) (k : EfficiencyRatio F → α) :
    (EfficiencyRatio.dec ob (EfficiencyRatio.enc tb s ++ r)).map (fun p => k p.1) = some (k s) := by
  rw [er_roundtrip tb ob hob s h r]; rfl

theorem roc_roundtrip (tb : F → UInt64) (ob : UInt64 → F) (hob : ∀ x, ob (tb x) = x)
    (s : RateOfChange F) (h : RateOfChange.Enc64 s) (r : List UInt8) :
    RateOfChange.dec ob (RateOfChange.enc tb s ++ r) = some (s, r) := by
  simp only [RateOfChange.enc, RateOfChange.dec, List.append_assoc,
    bind_rt (decUsize_encUsize s.period h.period),
    bind_rt (decUsize_encUsize s.index h.index),
    bind_rt (decUsize_encUsize s.count h.count),
    bind_rt (decArr_encArr tb ob hob s.deque h.deque),
    Option.pure_def]

theorem roc_roundtrip_then_run {α : Type} (tb : F → UInt64) (ob : UInt64 → F) (hob : ∀ x, ob (tb x) = x)
    (s : RateOfChange F) (h : RateOfChange.Enc64 s) (r : List UInt8) (k : RateOfChange F → α) :
    (RateOfChange.dec ob (RateOfChange.enc tb s ++ r)).map (fun p => k p.1) = some (k s) := by
  rw [roc_roundtrip tb ob hob s h r]; rfl

theorem mfi_roundtrip (tb : F → UInt64) (ob : UInt64 → F) (hob : ∀ x, ob (tb x) = x)
    (s : MoneyFlowIndex F) (h : MoneyFlowIndex.Enc64 s) (r : List UInt8) :
    MoneyFlowIndex.dec ob (MoneyFlowIndex.enc tb s ++ r) = some (s, r) := by
  simp only [MoneyFlowIndex.enc, MoneyFlowIndex.dec, List.append_assoc,
    bind_rt (decUsize_encUsize s.period h.period),
    bind_rt (decUsize_encUsize s.index h.index),
    bind_rt (decUsize_encUsize s.count h.count),
    bind_rt (decF_encF tb ob hob s.previous_typical_price),
    bind_rt (decF_encF tb ob hob s.total_positive_money_flow),
    bind_rt (decF_encF tb ob hob s.total_negative_money_flow),
    bind_rt (decArr_encArr tb ob hob s.deque h.deque),
    Option.pure_def]

theorem mfi_roundtrip_then_run {α : Type} (tb : F → UInt64) (ob : UInt64 → F) (hob : ∀ x, ob (tb x) = x)
    (s : MoneyFlowIndex F) (h : MoneyFlowIndex.Enc64 s) (r : List UInt8) (k : MoneyFlowIndex F → α) :
    (MoneyFlowIndex.dec ob (MoneyFlowIndex.enc tb s ++ r)).map (fun p => k p.1) = some (k s) := by
  rw [mfi_roundtrip tb ob hob s h r]; rfl

theorem rsi_roundtrip (tb : F → UInt64) (ob : UInt64 → F) (hob : ∀ x, ob (tb x) = x)
    (s : RelativeStrengthIndex F) (h : RelativeStrengthIndex.Enc64 s) (r : List UInt8) :
    RelativeStrengthIndex.dec ob (RelativeStrengthIndex.enc tb s ++ r) = some (s, r) := by
  simp only [RelativeStrengthIndex.enc, RelativeStrengthIndex.dec, List.append_assoc,
    bind_rt (decUsize_encUsize s.period h.period),
    bind_rt (ema_roundtrip tb ob hob s.up_ema_indicator h.up_ema_indicator),
    bind_rt (ema_roundtrip tb ob hob s.down_ema_indicator h.down_ema_indicator),
    bind_rt (decF_encF tb ob hob s.prev_val),
    bind_rt (decBool_encBool s.is_new),
    Option.pure_def]

theorem rsi_roundtrip_then_run {α : Type} (tb : F → UInt64) (ob : UInt64 → F) (hob : ∀ x, ob (tb x) = x)
    (s : RelativeStrengthIndex F) (h : RelativeStrengthIndex.Enc64 s) (r : List UInt8) (k : RelativeStrengthIndex F → α) :
    (RelativeStrengthIndex.dec ob (RelativeStrengthIndex.enc tb s ++ r)).map (fun p => k p.1) = some (k s) := by
  rw [rsi_roundtrip tb ob hob s h r]; rfl

theorem fastStoch_roundtrip (tb : F → UInt64) (ob : UInt64 → F) (hob : ∀ x, ob (tb x) = x)
    (s : FastStochastic F) (h : FastStochastic.Enc64 s) (r : List UInt8) :
    FastStochastic.dec ob (FastStochastic.enc tb s ++ r) = some (s, r) := by
  simp only [FastStochastic.enc, FastStochastic.dec, List.append_assoc,
    bind_rt (decUsize_encUsize s.period h.period),
    bind_rt (minimum_roundtrip tb ob hob s.minimum h.minimum),
    bind_rt (maximum_roundtrip tb ob hob s.maximum h.maximum),
    Option.pure_def]

theorem fastStoch_roundtrip_then_run {α : Type} (tb : F → UInt64) (ob : UInt64 → F) (hob : ∀ x, ob (tb x) = x)
    (s : FastStochastic F) (h : FastStochastic.Enc64 s) (r : List UInt8) (k : FastStochastic F → α) :
    (FastStochastic.dec ob (FastStochastic.enc tb s ++ r)).map (fun p => k p.1) = some (k s) := by
  rw [fastStoch_roundtrip tb ob hob s h r]; rfl

theorem slowStoch_roundtrip (tb : F → UInt64) (ob : UInt64 → F) (hob : ∀ x, ob (tb x) = x)
    (s : SlowStochastic F) (h : SlowStochastic.Enc64 s) (r : List UInt8) :
    SlowStochastic.dec ob (SlowStochastic.enc tb s ++ r) = some (s, r) := by
  simp only [SlowStochastic.enc, SlowStochastic.dec, List.append_assoc,
    bind_rt (fastStoch_roundtrip tb ob hob s.fast_stochastic h.fast_stochastic),
    bind_rt (ema_roundtrip tb ob hob s.ema h.ema),
    Option.pure_def]

theorem slowStoch_roundtrip_then_run {α : Type} (tb : F → UInt64) (ob : UInt64 → F) (hob : ∀ x, ob (tb x) = x)
    (s : SlowStochastic F) (h : SlowStochastic.Enc64 s) (r : List UInt8) (k : SlowStochastic F → α) :
    (SlowStochastic.dec ob (SlowStochastic.enc tb s ++ r)).map (fun p => k p.1) = some (k s) := by
  rw [slowStoch_roundtrip tb ob hob s h r]; rfl

theorem atr_roundtrip (tb : F → UInt64) (ob : UInt64 → F) (hob : ∀ x, ob (tb x) = x)
    (s : AverageTrueRange F) (h : AverageTrueRange.Enc64 s) (r : List UInt8) :
    AverageTrueRange.dec ob (AverageTrueRange.enc tb s ++ r) = some (s, r) := by
  simp only [AverageTrueRange.enc, AverageTrueRange.dec, List.append_assoc,
    bind_rt (tr_roundtrip tb ob hob s.true_range),
    bind_rt (ema_roundtrip tb ob hob s.ema h.ema),
    Option.pure_def]

theorem atr_roundtrip_then_run {α : Type} (tb : F → UInt64) (ob : UInt64 → F) (hob : ∀ x, ob (tb x) = x)
    (s : AverageTrueRange F) (h : AverageTrueRange.Enc64 s) (r : List UInt8) (k : AverageTrueRange F → α) :
    (AverageTrueRange.dec ob (AverageTrueRange.enc tb s ++ r)).map (fun p => k p.1) = some (k s) := by
  rw [atr_roundtrip tb ob hob s h r]; rfl

theorem macd_roundtrip (tb : F → UInt64) (ob : UInt64 → F) (hob : ∀ x, ob (tb x) = x)
    (s : MovingAverageConvergenceDivergence F) (h : MovingAverageConvergenceDivergence.Enc64 s) (r : List UInt8) :
    MovingAverageConvergenceDivergence.dec ob (MovingAverageConvergenceDivergence.enc tb s ++ r) = some (s, r) := by
  simp only [MovingAverageConvergenceDivergence.enc, MovingAverageConvergenceDivergence.dec, List.append_assoc,
    bind_rt (ema_roundtrip tb ob hob s.fast_ema h.fast_ema),
    bind_rt (ema_roundtrip tb ob hob s.slow_ema h.slow_ema),
    bind_rt (ema_roundtrip tb ob hob s.signal_ema h.signal_ema),
    Option.pure_def]

theorem macd_roundtrip_then_run {α : Type} (tb : F → UInt64) (ob : UInt64 → F) (hob : ∀ x, ob (tb x) = x)
    (s : MovingAverageConvergenceDivergence F) (h : MovingAverageConvergenceDivergence.Enc64 s) (r : List UInt8) (k : MovingAverageConvergenceDivergence F → α) :
    (MovingAverageConvergenceDivergence.dec ob (MovingAverageConvergenceDivergence.enc tb s ++ r)).map (fun p => k p.1) = some (k s) := by
  rw [macd_roundtrip tb ob hob s h r]; rfl

theorem ppo_roundtrip (tb : F → UInt64) (ob : UInt64 → F) (hob : ∀ x, ob (tb x) = x)
    (s : PercentagePriceOscillator F) (h : PercentagePriceOscillator.Enc64 s) (r : List UInt8) :
    PercentagePriceOscillator.dec ob (PercentagePriceOscillator.enc tb s ++ r) = some (s, r) := by
  simp only [PercentagePriceOscillator.enc, PercentagePriceOscillator.dec, List.append_assoc,
    bind_rt (ema_roundtrip tb ob hob s.fast_ema h.fast_ema),
    bind_rt (ema_roundtrip tb ob hob s.slow_ema h.slow_ema),
    bind_rt (ema_roundtrip tb ob hob s.signal_ema h.signal_ema),
    Option.pure_def]

theorem ppo_roundtrip_then_run {α : Type} (tb : F → UInt64) (ob : UInt64 → F) (hob : ∀ x, ob (tb x) = x)
    (s : PercentagePriceOscillator F) (h : PercentagePriceOscillator.Enc64 s) (r : List UInt8) (k : PercentagePriceOscillator F → α) :
    (PercentagePriceOscillator.dec ob (PercentagePriceOscillator.enc tb s ++ r)).map (fun p => k p.1) = some (k s) := by
  rw [ppo_roundtrip tb ob hob s h r]; rfl

theorem cci_roundtrip (tb : F → UInt64) (ob : UInt64 → F) (hob : ∀ x, ob (tb x) = x)
    (s : CommodityChannelIndex F) (h : CommodityChannelIndex.Enc64 s) (r : List UInt8) :
    CommodityChannelIndex.dec ob (CommodityChannelIndex.enc tb s ++ r) = some (s, r) := by
  simp only [CommodityChannelIndex.enc, CommodityChannelIndex.dec, List.append_assoc,
    bind_rt (sma_roundtrip tb ob hob s.sma h.sma),
    bind_rt (mad_roundtrip tb ob hob s.mad h.mad),
    Option.pure_def]

theorem cci_roundtrip_then_run {α : Type} (tb : F → UInt64) (ob : UInt64 → F) (hob : ∀ x, ob (tb x) = x)
    (s : CommodityChannelIndex F) (h : CommodityChannelIndex.Enc64 s) (r : List UInt8) (k : CommodityChannelIndex F → α) :
    (CommodityChannelIndex.dec ob (CommodityChannelIndex.enc tb s ++ r)).map (fun p => k p.1) = some (k s) := by
  rw [cci_roundtrip tb ob hob s h r]; rfl

theorem bb_roundtrip (tb : F → UInt64) (ob : UInt64 → F) (hob : ∀ x, ob (tb x) = x)
    (s : BollingerBands F) (h : BollingerBands.Enc64 s) (r : List UInt8) :
    BollingerBands.dec ob (BollingerBands.enc tb s ++ r) = some (s, r) := by
  simp only [BollingerBands.enc, BollingerBands.dec, List.append_assoc,
    bind_rt (decUsize_encUsize s.period h.period),
    bind_rt (decF_encF tb ob hob s.multiplier),
    bind_rt (sd_roundtrip tb ob hob s.sd h.sd),
    Option.pure_def]

theorem bb_roundtrip_then_run {α : Type} (tb : F → UInt64) (ob : UInt64 → F) (hob : ∀ x, ob (tb x) = x)
    (s : BollingerBands F) (h : BollingerBands.Enc64 s) (r : List UInt8) (k : BollingerBands F → α) :
    (BollingerBands.dec ob (BollingerBands.enc tb s ++ r)).map (fun p => k p.1) = some (k s) := by
  rw [bb_roundtrip tb ob hob s h r]; rfl

theorem ce_roundtrip (tb : F → UInt64) (ob : UInt64 → F) (hob : ∀ x, ob (tb x) = x)
    (s : ChandelierExit F) (h : ChandelierExit.Enc64 s) (r : List UInt8) :
    ChandelierExit.dec ob (ChandelierExit.enc tb s ++ r) = some (s, r) := by
  simp only [ChandelierExit.enc, ChandelierExit.dec, List.append_assoc,
    bind_rt (atr_roundtrip tb ob hob s.atr h.atr),
    bind_rt (minimum_roundtrip tb ob hob s.min h.min),
    bind_rt (maximum_roundtrip tb ob hob s.max h.max),
    bind_rt (decF_encF tb ob hob s.multiplier),
    Option.pure_def]

theorem ce_roundtrip_then_run {α : Type} (tb : F → UInt64) (ob : UInt64 → F) (hob : ∀ x, ob (tb x) = x)
    (s : ChandelierExit F) (h : ChandelierExit.Enc64 s) (r : List UInt8) (k : ChandelierExit F → α) :
    (ChandelierExit.dec ob (ChandelierExit.enc tb s ++ r)).map (fun p => k p.1) = some (k s) := by
  rw [ce_roundtrip tb ob hob s h r]; rfl

theorem kc_roundtrip (tb : F → UInt64) (ob : UInt64 → F) (hob : ∀ x, ob (tb x) = x)
    (s : KeltnerChannel F) (h : KeltnerChannel.Enc64 s) (r : List UInt8) :
    KeltnerChannel.dec ob (KeltnerChannel.enc tb s ++ r) = some (s, r) := by
  simp only [KeltnerChannel.enc, KeltnerChannel.dec, List.append_assoc,
    bind_rt (decUsize_encUsize s.period h.period),
    bind_rt (decF_encF tb ob hob s.multiplier),
    bind_rt (atr_roundtrip tb ob hob s.atr h.atr),
    bind_rt (ema_roundtrip tb ob hob s.ema h.ema),
    Option.pure_def]

theorem kc_roundtrip_then_run {α : Type} (tb : F → UInt64) (ob : UInt64 → F) (hob : ∀ x, ob (tb x) = x)
    (s : KeltnerChannel F) (h : KeltnerChannel.Enc64 s) (r : List UInt8) (k : KeltnerChannel F → α) :
    (KeltnerChannel.dec ob (KeltnerChannel.enc tb s ++ r)).map (fun p => k p.1) = some (k s) := by
  rw [kc_roundtrip tb ob hob s h r]; rfl

end RoundTrip

/-! ### Every well-formed state is encodable -/
section WellFormed
variable {F : Type} [Scalar F]

private theorem lt_of_usize {n : Nat} (h : n ≤ usizeMax) : n < 2 ^ 64 := by
  simp only [usizeMax] at h; omega

/-- window indicators: `period * 8 ≤ isize::MAX`, `deque.len() = period`, cursors `< period`,
    counters `≤ period (+1)` put everything below `2^63` -/
local macro "enc64_window" h:ident : tactic =>
  `(tactic| (cases $h:ident; simp only [isizeMax] at *; constructor <;> omega))

theorem sma_enc64_of_wf (s : SimpleMovingAverage F) (h : SimpleMovingAverage.WF s) :
    SimpleMovingAverage.Enc64 s := by enc64_window h
theorem wma_enc64_of_wf (s : WeightedMovingAverage F) (h : WeightedMovingAverage.WF s) :
    WeightedMovingAverage.Enc64 s := by enc64_window h
theorem sd_enc64_of_wf (s : StandardDeviation F) (h : StandardDeviation.WF s) :
    StandardDeviation.Enc64 s := by enc64_window h
theorem mad_enc64_of_wf (s : MeanAbsoluteDeviation F) (h : MeanAbsoluteDeviation.WF s) :
    MeanAbsoluteDeviation.Enc64 s := by enc64_window h
theorem minimum_enc64_of_wf (s : Minimum F) (h : Minimum.WF s) : Minimum.Enc64 s := by enc64_window h
theorem maximum_enc64_of_wf (s : Maximum F) (h : Maximum.WF s) : Maximum.Enc64 s := by enc64_window h
theorem er_enc64_of_wf (s : EfficiencyRatio F) (h : EfficiencyRatio.WF s) :
    EfficiencyRatio.Enc64 s := by enc64_window h
theorem roc_enc64_of_wf (s : RateOfChange F) (h : RateOfChange.WF s) : RateOfChange.Enc64 s := by
  enc64_window h
theorem mfi_enc64_of_wf (s : MoneyFlowIndex F) (h : MoneyFlowIndex.WF s) : MoneyFlowIndex.Enc64 s := by
  enc64_window h

/-- EMA: `Enc64` is just the typing fact `period : usize` (its `WF` has no upper bound) -/
theorem ema_enc64_of_usize (s : ExponentialMovingAverage F) (hp : s.period ≤ usizeMax) :
    ExponentialMovingAverage.Enc64 s := ⟨lt_of_usize hp⟩
theorem ema_enc64_of_wf (s : ExponentialMovingAverage F) (_h : ExponentialMovingAverage.WF s)
    (hp : s.period ≤ usizeMax) : ExponentialMovingAverage.Enc64 s := ema_enc64_of_usize s hp

theorem rsi_enc64_of_wf (s : RelativeStrengthIndex F) (h : RelativeStrengthIndex.WF s)
    (hp : s.period ≤ usizeMax) : RelativeStrengthIndex.Enc64 s :=
  ⟨lt_of_usize hp, ema_enc64_of_usize _ (by rw [h.up_period]; exact hp),
    ema_enc64_of_usize _ (by rw [h.down_period]; exact hp)⟩

theorem fastStoch_enc64_of_wf (s : FastStochastic F) (h : FastStochastic.WF s) :
    FastStochastic.Enc64 s :=
  ⟨by have := (minimum_enc64_of_wf _ h.min).period; rw [h.pmin] at this; exact this,
    minimum_enc64_of_wf _ h.min, maximum_enc64_of_wf _ h.max⟩

theorem slowStoch_enc64_of_wf (s : SlowStochastic F) (h : SlowStochastic.WF s)
    (hp : s.ema.period ≤ usizeMax) : SlowStochastic.Enc64 s :=
  ⟨fastStoch_enc64_of_wf _ h.fast, ema_enc64_of_usize _ hp⟩

theorem atr_enc64_of_wf (s : AverageTrueRange F) (_h : AverageTrueRange.WF s)
    (hp : s.ema.period ≤ usizeMax) : AverageTrueRange.Enc64 s := ⟨ema_enc64_of_usize _ hp⟩

theorem macd_enc64_of_wf (s : MovingAverageConvergenceDivergence F)
    (_h : MovingAverageConvergenceDivergence.WF s) (hf : s.fast_ema.period ≤ usizeMax)
    (hs : s.slow_ema.period ≤ usizeMax) (hg : s.signal_ema.period ≤ usizeMax) :
    MovingAverageConvergenceDivergence.Enc64 s :=
  ⟨ema_enc64_of_usize _ hf, ema_enc64_of_usize _ hs, ema_enc64_of_usize _ hg⟩

theorem ppo_enc64_of_wf (s : PercentagePriceOscillator F)
    (_h : PercentagePriceOscillator.WF s) (hf : s.fast_ema.period ≤ usizeMax)
    (hs : s.slow_ema.period ≤ usizeMax) (hg : s.signal_ema.period ≤ usizeMax) :
    PercentagePriceOscillator.Enc64 s :=
  ⟨ema_enc64_of_usize _ hf, ema_enc64_of_usize _ hs, ema_enc64_of_usize _ hg⟩

theorem cci_enc64_of_wf (s : CommodityChannelIndex F) (h : CommodityChannelIndex.WF s) :
    CommodityChannelIndex.Enc64 s := ⟨sma_enc64_of_wf _ h.sma, mad_enc64_of_wf _ h.mad⟩

theorem bb_enc64_of_wf (s : BollingerBands F) (h : BollingerBands.WF s) : BollingerBands.Enc64 s :=
  ⟨by have := (sd_enc64_of_wf _ h.sd).period; rw [h.per] at this; exact this, sd_enc64_of_wf _ h.sd⟩

/-- ChandelierExit: the ATR's EMA period equals the window period, which `WF` bounds -/
theorem ce_enc64_of_wf (s : ChandelierExit F) (h : ChandelierExit.WF s) : ChandelierExit.Enc64 s :=
  ⟨⟨⟨by have := (minimum_enc64_of_wf _ h.min).period
        rw [h.pmin, AverageTrueRange.period_fn_eq] at this; exact this⟩⟩,
    minimum_enc64_of_wf _ h.min, maximum_enc64_of_wf _ h.max⟩

theorem kc_enc64_of_wf (s : KeltnerChannel F) (h : KeltnerChannel.WF s) (hp : s.period ≤ usizeMax) :
    KeltnerChannel.Enc64 s :=
  ⟨lt_of_usize hp, ⟨ema_enc64_of_usize _ (by rw [h.atr_period]; exact hp)⟩,
    ema_enc64_of_usize _ (by rw [h.ema_period]; exact hp)⟩

/-! #### Round trips stated on `WF` (the form of the property statement) -/
variable (tb : F → UInt64) (ob : UInt64 → F) (hob : ∀ x, ob (tb x) = x)
include hob

theorem sma_roundtrip_wf (s : SimpleMovingAverage F) (h : SimpleMovingAverage.WF s) (r : List UInt8) :
    SimpleMovingAverage.dec ob (SimpleMovingAverage.enc tb s ++ r) = some (s, r) :=
  sma_roundtrip tb ob hob s (sma_enc64_of_wf s h) r
theorem wma_roundtrip_wf (s : WeightedMovingAverage F) (h : WeightedMovingAverage.WF s) (r : List UInt8) :
    WeightedMovingAverage.dec ob (WeightedMovingAverage.enc tb s ++ r) = some (s, r) :=
  wma_roundtrip tb ob hob s (wma_enc64_of_wf s h) r
theorem sd_roundtrip_wf (s : StandardDeviation F) (h : StandardDeviation.WF s) (r : List UInt8) :
    StandardDeviation.dec ob (StandardDeviation.enc tb s ++ r) = some (s, r) :=
  sd_roundtrip tb ob hob s (sd_enc64_of_wf s h) r
theorem mad_roundtrip_wf (s : MeanAbsoluteDeviation F) (h : MeanAbsoluteDeviation.WF s) (r : List UInt8) :
    MeanAbsoluteDeviation.dec ob (MeanAbsoluteDeviation.enc tb s ++ r) = some (s, r) :=
  mad_roundtrip tb ob hob s (mad_enc64_of_wf s h) r
theorem minimum_roundtrip_wf (s : Minimum F) (h : Minimum.WF s) (r : List UInt8) :
    Minimum.dec ob (Minimum.enc tb s ++ r) = some (s, r) :=
  minimum_roundtrip tb ob hob s (minimum_enc64_of_wf s h) r
theorem maximum_roundtrip_wf (s : Maximum F) (h : Maximum.WF s) (r : List UInt8) :
    Maximum.dec ob (Maximum.enc tb s ++ r) = some (s, r) :=
  maximum_roundtrip tb ob hob s (maximum_enc64_of_wf s h) r
theorem er_roundtrip_wf (s : EfficiencyRatio F) (h : EfficiencyRatio.WF s) (r : List UInt8) :
    EfficiencyRatio.dec ob (EfficiencyRatio.enc tb s ++ r) = some (s, r) :=
  er_roundtrip tb ob hob s (er_enc64_of_wf s h) r
theorem roc_roundtrip_wf (s : RateOfChange F) (h : RateOfChange.WF s) (r : List UInt8) :
    RateOfChange.dec ob (RateOfChange.enc tb s ++ r) = some (s, r) :=
  roc_roundtrip tb ob hob s (roc_enc64_of_wf s h) r
theorem mfi_roundtrip_wf (s : MoneyFlowIndex F) (h : MoneyFlowIndex.WF s) (r : List UInt8) :
    MoneyFlowIndex.dec ob (MoneyFlowIndex.enc tb s ++ r) = some (s, r) :=
  mfi_roundtrip tb ob hob s (mfi_enc64_of_wf s h) r
theorem fastStoch_roundtrip_wf (s : FastStochastic F) (h : FastStochastic.WF s) (r : List UInt8) :
    FastStochastic.dec ob (FastStochastic.enc tb s ++ r) = some (s, r) :=
  fastStoch_roundtrip tb ob hob s (fastStoch_enc64_of_wf s h) r
theorem cci_roundtrip_wf (s : CommodityChannelIndex F) (h : CommodityChannelIndex.WF s) (r : List UInt8) :
    CommodityChannelIndex.dec ob (CommodityChannelIndex.enc tb s ++ r) = some (s, r) :=
  cci_roundtrip tb ob hob s (cci_enc64_of_wf s h) r
theorem bb_roundtrip_wf (s : BollingerBands F) (h : BollingerBands.WF s) (r : List UInt8) :
    BollingerBands.dec ob (BollingerBands.enc tb s ++ r) = some (s, r) :=
  bb_roundtrip tb ob hob s (bb_enc64_of_wf s h) r
theorem ce_roundtrip_wf (s : ChandelierExit F) (h : ChandelierExit.WF s) (r : List UInt8) :
    ChandelierExit.dec ob (ChandelierExit.enc tb s ++ r) = some (s, r) :=
  ce_roundtrip tb ob hob s (ce_enc64_of_wf s h) r

/-! EMA-based: `WF` plus the typing fact `period ≤ usize::MAX` -/
theorem ema_roundtrip_wf (s : ExponentialMovingAverage F) (h : ExponentialMovingAverage.WF s)
    (hp : s.period ≤ usizeMax) (r : List UInt8) :
    ExponentialMovingAverage.dec ob (ExponentialMovingAverage.enc tb s ++ r) = some (s, r) :=
  ema_roundtrip tb ob hob s (ema_enc64_of_wf s h hp) r
theorem rsi_roundtrip_wf (s : RelativeStrengthIndex F) (h : RelativeStrengthIndex.WF s)
    (hp : s.period ≤ usizeMax) (r : List UInt8) :
    RelativeStrengthIndex.dec ob (RelativeStrengthIndex.enc tb s ++ r) = some (s, r) :=
  rsi_roundtrip tb ob hob s (rsi_enc64_of_wf s h hp) r
theorem slowStoch_roundtrip_wf (s : SlowStochastic F) (h : SlowStochastic.WF s)
    (hp : s.ema.period ≤ usizeMax) (r : List UInt8) :
    SlowStochastic.dec ob (SlowStochastic.enc tb s ++ r) = some (s, r) :=
  slowStoch_roundtrip tb ob hob s (slowStoch_enc64_of_wf s h hp) r
theorem atr_roundtrip_wf (s : AverageTrueRange F) (h : AverageTrueRange.WF s)
    (hp : s.ema.period ≤ usizeMax) (r : List UInt8) :
    AverageTrueRange.dec ob (AverageTrueRange.enc tb s ++ r) = some (s, r) :=
  atr_roundtrip tb ob hob s (atr_enc64_of_wf s h hp) r
theorem macd_roundtrip_wf (s : MovingAverageConvergenceDivergence F)
    (h : MovingAverageConvergenceDivergence.WF s) (hf : s.fast_ema.period ≤ usizeMax)
    (hs : s.slow_ema.period ≤ usizeMax) (hg : s.signal_ema.period ≤ usizeMax) (r : List UInt8) :
    MovingAverageConvergenceDivergence.dec ob (MovingAverageConvergenceDivergence.enc tb s ++ r) = some (s, r) :=
  macd_roundtrip tb ob hob s (macd_enc64_of_wf s h hf hs hg) r
theorem ppo_roundtrip_wf (s : PercentagePriceOscillator F)
    (h : PercentagePriceOscillator.WF s) (hf : s.fast_ema.period ≤ usizeMax)
    (hs : s.slow_ema.period ≤ usizeMax) (hg : s.signal_ema.period ≤ usizeMax) (r : List UInt8) :
    PercentagePriceOscillator.dec ob (PercentagePriceOscillator.enc tb s ++ r) = some (s, r) :=
  ppo_roundtrip tb ob hob s (ppo_enc64_of_wf s h hf hs hg) r
theorem kc_roundtrip_wf (s : KeltnerChannel F) (h : KeltnerChannel.WF s)
    (hp : s.period ≤ usizeMax) (r : List UInt8) :
    KeltnerChannel.dec ob (KeltnerChannel.enc tb s ++ r) = some (s, r) :=
  kc_roundtrip tb ob hob s (kc_enc64_of_wf s h hp) r

end WellFormed

end TaRs.Props.C06
