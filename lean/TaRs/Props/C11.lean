/-
  C11 — constructors, accessors, Display and Default.

  "Every constructor returns Err(InvalidParameter) if and only if at least one period argument is 0
   and otherwise Ok without panicking — for every positive period up to usize::MAX for indicators
   that allocate no window, and as far as memory allows for windowed ones; multipliers are accepted
   as given.  period() and multiplier() return the constructor arguments for the indicator's whole
   life, and Display renders NAME(params) from them.  Default::default() behaves as new() with the
   documented defaults: EMA/SMA/WMA/SD/MAD/ROC 9; RSI/ATR/ER/MFI/Minimum/Maximum/FastStochastic 14;
   SlowStochastic (14, 3); MACD/PPO (12, 26, 9); CCI 20; BB (9, 2); KC (10, 2); CE (22, 3)."

  All theorems are about the GENERATED model (`TaRs/Gen`), for an arbitrary `[Scalar F]` with no
  laws: nothing here depends on the arithmetic.  Periods are `Nat`; a Rust `usize` is any
  `p ≤ usizeMax`, so a theorem without a bound on `p` covers in particular every `usize`.

  Per indicator `x` (22 of them):
    `x_new_err_iff`        `new args = .err e ↔ e = .InvalidParameter ∧ (some period = 0)`
    `x_new_no_panic`       `new args ≠ .panic`
    `x_new_ok`             all periods `> 0` → `new args = .ok (fresh args)`
    `x_accessors`          the getters of `fresh args` return `args`
    `x_accessors_stable`   on a well-formed state every `next` / `nextBar` / `reset` returns, the
                           result is well-formed again, and the getters are unchanged
                           (one step of the induction "for the indicator's whole life";
                           `accessors_whole_life` is the lift to every operation sequence)
    `x_display`            `display fmt (fresh args) = "NAME(" ++ … ++ ")"`
    `x_default`            `default_ = some (fresh <documented defaults>)`

  Side conditions.
  * Allocation-free constructors (EMA, RSI, ATR, MACD, PPO, KeltnerChannel): NO side condition —
    every `Nat` period, in particular every period up to `usize::MAX`.
  * Window-allocating constructors (`vec![_; period]`): "as far as memory allows" is read as
    `period * 8 ≤ isizeMax`; beyond that `vec!` panics with "capacity overflow" (an allocation
    FAILURE below that bound aborts the process and is outside the model).  The hypothesis is
    needed for `x_new_no_panic` and `x_new_ok` only: `x_new_err_iff` holds for EVERY period (an
    oversized non-zero period gives `.panic`, which is not `.err`), so it is stated without it.
  * SlowStochastic: `FastStochastic::new(stochastic_period)?` runs first, so an oversized
    `stochastic_period` panics even when `ema_period = 0`; `slowstochastic_new_err_iff` states
    exactly this, and `slowstochastic_new_err_iff_of_small` is the plain "some period is 0" form
    under the memory hypothesis.
  * TrueRange and OnBalanceVolume have no parameters and `new()` is not a `Result`.
  * MACD, PPO and SlowStochastic have no `period()` getter: their "accessors" are the `period()`
    getters of their components, which is what their `Display` prints.

  Dependencies.  Only `Lemmas/Core` (`fresh`, `WF`, `new_eq`), `Lemmas/Misc` (`default_eq`, Display) and the
  VALUE-AGNOSTIC `Lemmas/Total` (`next_total` / `nextBar_total` / `reset_total`) are imported: the
  `x_accessors_stable` clauses need "returns, keeps `WF`, keeps the getters" and nothing about the
  values computed, so a change of the Rust code that only alters arithmetic leaves this file intact.
-/
import TaRs.Lemmas.Machine
import TaRs.Lemmas.Total.SimpleMovingAverage
import TaRs.Lemmas.Total.ExponentialMovingAverage
import TaRs.Lemmas.Total.WeightedMovingAverage
import TaRs.Lemmas.Total.StandardDeviation
import TaRs.Lemmas.Total.MeanAbsoluteDeviation
import TaRs.Lemmas.Total.RateOfChange
import TaRs.Lemmas.Total.EfficiencyRatio
import TaRs.Lemmas.Total.Minimum
import TaRs.Lemmas.Total.Maximum
import TaRs.Lemmas.Total.RelativeStrengthIndex
import TaRs.Lemmas.Total.MovingAverageConvergenceDivergence
import TaRs.Lemmas.Total.PercentagePriceOscillator
import TaRs.Lemmas.Total.BollingerBands
import TaRs.Lemmas.Total.AverageTrueRange
import TaRs.Lemmas.Total.FastStochastic
import TaRs.Lemmas.Total.SlowStochastic
import TaRs.Lemmas.Total.KeltnerChannel
import TaRs.Lemmas.Total.ChandelierExit
import TaRs.Lemmas.Total.CommodityChannelIndex
import TaRs.Lemmas.Total.MoneyFlowIndex
import TaRs.Lemmas.Core.TrueRange
import TaRs.Lemmas.Core.OnBalanceVolume
import TaRs.Lemmas.Misc.SimpleMovingAverage
import TaRs.Lemmas.Misc.ExponentialMovingAverage
import TaRs.Lemmas.Misc.WeightedMovingAverage
import TaRs.Lemmas.Misc.StandardDeviation
import TaRs.Lemmas.Misc.MeanAbsoluteDeviation
import TaRs.Lemmas.Misc.RateOfChange
import TaRs.Lemmas.Misc.EfficiencyRatio
import TaRs.Lemmas.Misc.Minimum
import TaRs.Lemmas.Misc.Maximum
import TaRs.Lemmas.Misc.RelativeStrengthIndex
import TaRs.Lemmas.Misc.MovingAverageConvergenceDivergence
import TaRs.Lemmas.Misc.PercentagePriceOscillator
import TaRs.Lemmas.Misc.BollingerBands
import TaRs.Lemmas.Misc.AverageTrueRange
import TaRs.Lemmas.Misc.FastStochastic
import TaRs.Lemmas.Misc.SlowStochastic
import TaRs.Lemmas.Misc.KeltnerChannel
import TaRs.Lemmas.Misc.ChandelierExit
import TaRs.Lemmas.Misc.CommodityChannelIndex
import TaRs.Lemmas.Misc.MoneyFlowIndex
import TaRs.Lemmas.Misc.TrueRange
import TaRs.Lemmas.Misc.OnBalanceVolume

namespace TaRs.Props.C11
open TaRs TaRs.Gen TaRs.Rs

variable {F : Type} [Scalar F]

/-! ### helpers: the two shapes every `new_eq` has -/

private theorem free_err_iff {α : Type} (c : Prop) [Decidable c] (a : α) (e : TaError) :
    (if c then Res.err .InvalidParameter else Res.ok a) = Res.err e ↔ (e = .InvalidParameter ∧ c) := by
  by_cases hc : c
  · simp only [hc, if_true, and_true]
    constructor
    · intro h; cases h; rfl
    · intro h; rw [h]
  · simp only [hc, if_false, and_false]
    constructor
    · intro h; cases h
    · intro h; exact h.elim

private theorem free_no_panic {α : Type} (c : Prop) [Decidable c] (a : α) :
    (if c then Res.err .InvalidParameter else Res.ok a) ≠ Res.panic := by
  by_cases hc : c
  · simp only [hc, if_true]; intro h; cases h
  · simp only [hc, if_false]; intro h; cases h

private theorem free_ok {α : Type} (c : Prop) [Decidable c] (a : α) (hc : ¬ c) :
    (if c then Res.err .InvalidParameter else Res.ok a) = Res.ok a := by
  simp only [hc, if_false]

private theorem win_err_iff {α : Type} (c d : Prop) [Decidable c] [Decidable d] (a : α) (e : TaError) :
    (if c then Res.err .InvalidParameter else if d then Res.ok a else Res.panic) = Res.err e ↔
      (e = .InvalidParameter ∧ c) := by
  by_cases hc : c
  · simp only [hc, if_true, and_true]
    constructor
    · intro h; cases h; rfl
    · intro h; rw [h]
  · simp only [hc, if_false, and_false]
    constructor
    · intro h; by_cases hd : d
      · simp only [hd, if_true] at h; cases h
      · simp only [hd, if_false] at h; cases h
    · intro h; exact h.elim

private theorem win_no_panic {α : Type} (c d : Prop) [Decidable c] [Decidable d] (a : α) (hd : d) :
    (if c then Res.err .InvalidParameter else if d then Res.ok a else Res.panic) ≠ Res.panic := by
  by_cases hc : c
  · simp only [hc, if_true]; intro h; cases h
  · simp only [hc, hd, if_true, if_false]; intro h; cases h

private theorem win_ok {α : Type} (c d : Prop) [Decidable c] [Decidable d] (a : α) (hc : ¬ c) (hd : d) :
    (if c then Res.err .InvalidParameter else if d then Res.ok a else Res.panic) = Res.ok a := by
  simp only [hc, hd, if_true, if_false]

omit [Scalar F] in
/-- Lift of the one-step `x_accessors_stable` facts to the indicator's whole life: if every
    operation on a well-formed state returns, keeps the state well-formed and keeps the getter
    `get`, then after ANY finite sequence of `next` / `next(&bar)` / `reset` calls the getter still
    returns what it returned at the start.  (Lemma schema, instantiated for SMA below.) -/
theorem accessors_whole_life {S α : Type} (step : S → Op F → Option S) (WF : S → Prop) (get : S → α)
    (hstep : ∀ s op, WF s → ∃ s', step s op = some s' ∧ WF s' ∧ get s' = get s)
    (s0 : S) (h0 : WF s0) (ops : List (Op F)) :
    ∃ s', runOps step s0 ops = some s' ∧ WF s' ∧ get s' = get s0 := by
  obtain ⟨s', h1, h2, h3⟩ := runOps_invariant step (fun s => WF s ∧ get s = get s0)
    (fun s op hs => by
      obtain ⟨s', e, w, g⟩ := hstep s op hs.1
      exact ⟨s', e, w, g.trans hs.2⟩) s0 ⟨h0, rfl⟩ ops
  exact ⟨s', h1, h2, h3⟩


/-! ### SimpleMovingAverage — `SMA(period)`, default 9; allocates a window of `period` values -/

theorem sma_new_err_iff (p : Nat) (e : TaError) :
    (SimpleMovingAverage.new p : Res (SimpleMovingAverage F)) = .err e ↔ (e = .InvalidParameter ∧ p = 0) := by
  rw [SimpleMovingAverage.new_eq]; exact win_err_iff _ _ _ _

theorem sma_new_no_panic (p : Nat) (h8 : p * 8 ≤ isizeMax) :
    (SimpleMovingAverage.new p : Res (SimpleMovingAverage F)) ≠ .panic := by
  rw [SimpleMovingAverage.new_eq]; exact win_no_panic _ _ _ h8

theorem sma_new_ok (p : Nat) (hp : 0 < p) (h8 : p * 8 ≤ isizeMax) :
    (SimpleMovingAverage.new p : Res (SimpleMovingAverage F)) = .ok (SimpleMovingAverage.fresh p) := by
  rw [SimpleMovingAverage.new_eq]; exact win_ok _ _ _ (Nat.ne_of_gt hp) h8

theorem sma_accessors (p : Nat) : (SimpleMovingAverage.fresh p : SimpleMovingAverage F).period_fn = p := rfl

theorem sma_accessors_stable (s : SimpleMovingAverage F) (h : SimpleMovingAverage.WF s) :
    (∀ x, ∃ r, s.next x = some r ∧ SimpleMovingAverage.WF r.1 ∧ r.1.period_fn = s.period_fn) ∧
    (∀ b, ∃ r, s.nextBar b = some r ∧ SimpleMovingAverage.WF r.1 ∧ r.1.period_fn = s.period_fn) ∧
    (∃ r, s.reset = some r ∧ SimpleMovingAverage.WF r ∧ r.period_fn = s.period_fn) :=
  ⟨fun x => SimpleMovingAverage.next_total s x h,
   fun b => SimpleMovingAverage.nextBar_total s b h,
   SimpleMovingAverage.reset_total s h⟩

theorem sma_display (fmt : F → String) (p : Nat) :
    SimpleMovingAverage.display fmt (SimpleMovingAverage.fresh p : SimpleMovingAverage F) = "SMA(" ++ toString p ++ ")" := rfl

theorem sma_default : (SimpleMovingAverage.default_ : Option (SimpleMovingAverage F)) = some (SimpleMovingAverage.fresh 9) :=
  SimpleMovingAverage.default_eq


/-! ### WeightedMovingAverage — `WMA(period)`, default 9; allocates a window of `period` values -/

theorem wma_new_err_iff (p : Nat) (e : TaError) :
    (WeightedMovingAverage.new p : Res (WeightedMovingAverage F)) = .err e ↔ (e = .InvalidParameter ∧ p = 0) := by
  rw [WeightedMovingAverage.new_eq]; exact win_err_iff _ _ _ _

theorem wma_new_no_panic (p : Nat) (h8 : p * 8 ≤ isizeMax) :
    (WeightedMovingAverage.new p : Res (WeightedMovingAverage F)) ≠ .panic := by
  rw [WeightedMovingAverage.new_eq]; exact win_no_panic _ _ _ h8

theorem wma_new_ok (p : Nat) (hp : 0 < p) (h8 : p * 8 ≤ isizeMax) :
    (WeightedMovingAverage.new p : Res (WeightedMovingAverage F)) = .ok (WeightedMovingAverage.fresh p) := by
  rw [WeightedMovingAverage.new_eq]; exact win_ok _ _ _ (Nat.ne_of_gt hp) h8

theorem wma_accessors (p : Nat) : (WeightedMovingAverage.fresh p : WeightedMovingAverage F).period_fn = p := rfl

theorem wma_accessors_stable (s : WeightedMovingAverage F) (h : WeightedMovingAverage.WF s) :
    (∀ x, ∃ r, s.next x = some r ∧ WeightedMovingAverage.WF r.1 ∧ r.1.period_fn = s.period_fn) ∧
    (∀ b, ∃ r, s.nextBar b = some r ∧ WeightedMovingAverage.WF r.1 ∧ r.1.period_fn = s.period_fn) ∧
    (∃ r, s.reset = some r ∧ WeightedMovingAverage.WF r ∧ r.period_fn = s.period_fn) :=
  ⟨fun x => WeightedMovingAverage.next_total s x h,
   fun b => WeightedMovingAverage.nextBar_total s b h,
   WeightedMovingAverage.reset_total s h⟩

theorem wma_display (fmt : F → String) (p : Nat) :
    WeightedMovingAverage.display fmt (WeightedMovingAverage.fresh p : WeightedMovingAverage F) = "WMA(" ++ toString p ++ ")" := rfl

theorem wma_default : (WeightedMovingAverage.default_ : Option (WeightedMovingAverage F)) = some (WeightedMovingAverage.fresh 9) :=
  WeightedMovingAverage.default_eq


/-! ### StandardDeviation — `SD(period)`, default 9; allocates a window of `period` values -/

theorem sd_new_err_iff (p : Nat) (e : TaError) :
    (StandardDeviation.new p : Res (StandardDeviation F)) = .err e ↔ (e = .InvalidParameter ∧ p = 0) := by
  rw [StandardDeviation.new_eq]; exact win_err_iff _ _ _ _

theorem sd_new_no_panic (p : Nat) (h8 : p * 8 ≤ isizeMax) :
    (StandardDeviation.new p : Res (StandardDeviation F)) ≠ .panic := by
  rw [StandardDeviation.new_eq]; exact win_no_panic _ _ _ h8

theorem sd_new_ok (p : Nat) (hp : 0 < p) (h8 : p * 8 ≤ isizeMax) :
    (StandardDeviation.new p : Res (StandardDeviation F)) = .ok (StandardDeviation.fresh p) := by
  rw [StandardDeviation.new_eq]; exact win_ok _ _ _ (Nat.ne_of_gt hp) h8

theorem sd_accessors (p : Nat) : (StandardDeviation.fresh p : StandardDeviation F).period_fn = p := rfl

theorem sd_accessors_stable (s : StandardDeviation F) (h : StandardDeviation.WF s) :
    (∀ x, ∃ r, s.next x = some r ∧ StandardDeviation.WF r.1 ∧ r.1.period_fn = s.period_fn) ∧
    (∀ b, ∃ r, s.nextBar b = some r ∧ StandardDeviation.WF r.1 ∧ r.1.period_fn = s.period_fn) ∧
    (∃ r, s.reset = some r ∧ StandardDeviation.WF r ∧ r.period_fn = s.period_fn) :=
  ⟨fun x => StandardDeviation.next_total s x h,
   fun b => StandardDeviation.nextBar_total s b h,
   StandardDeviation.reset_total s h⟩

theorem sd_display (fmt : F → String) (p : Nat) :
    StandardDeviation.display fmt (StandardDeviation.fresh p : StandardDeviation F) = "SD(" ++ toString p ++ ")" := rfl

theorem sd_default : (StandardDeviation.default_ : Option (StandardDeviation F)) = some (StandardDeviation.fresh 9) :=
  StandardDeviation.default_eq


/-! ### MeanAbsoluteDeviation — `MAD(period)`, default 9; allocates a window of `period` values -/

theorem mad_new_err_iff (p : Nat) (e : TaError) :
    (MeanAbsoluteDeviation.new p : Res (MeanAbsoluteDeviation F)) = .err e ↔ (e = .InvalidParameter ∧ p = 0) := by
  rw [MeanAbsoluteDeviation.new_eq]; exact win_err_iff _ _ _ _

theorem mad_new_no_panic (p : Nat) (h8 : p * 8 ≤ isizeMax) :
    (MeanAbsoluteDeviation.new p : Res (MeanAbsoluteDeviation F)) ≠ .panic := by
  rw [MeanAbsoluteDeviation.new_eq]; exact win_no_panic _ _ _ h8

theorem mad_new_ok (p : Nat) (hp : 0 < p) (h8 : p * 8 ≤ isizeMax) :
    (MeanAbsoluteDeviation.new p : Res (MeanAbsoluteDeviation F)) = .ok (MeanAbsoluteDeviation.fresh p) := by
  rw [MeanAbsoluteDeviation.new_eq]; exact win_ok _ _ _ (Nat.ne_of_gt hp) h8

theorem mad_accessors (p : Nat) : (MeanAbsoluteDeviation.fresh p : MeanAbsoluteDeviation F).period_fn = p := rfl

theorem mad_accessors_stable (s : MeanAbsoluteDeviation F) (h : MeanAbsoluteDeviation.WF s) :
    (∀ x, ∃ r, s.next x = some r ∧ MeanAbsoluteDeviation.WF r.1 ∧ r.1.period_fn = s.period_fn) ∧
    (∀ b, ∃ r, s.nextBar b = some r ∧ MeanAbsoluteDeviation.WF r.1 ∧ r.1.period_fn = s.period_fn) ∧
    (∃ r, s.reset = some r ∧ MeanAbsoluteDeviation.WF r ∧ r.period_fn = s.period_fn) :=
  ⟨fun x => MeanAbsoluteDeviation.next_total s x h,
   fun b => MeanAbsoluteDeviation.nextBar_total s b h,
   MeanAbsoluteDeviation.reset_total s h⟩

theorem mad_display (fmt : F → String) (p : Nat) :
    MeanAbsoluteDeviation.display fmt (MeanAbsoluteDeviation.fresh p : MeanAbsoluteDeviation F) = "MAD(" ++ toString p ++ ")" := rfl

theorem mad_default : (MeanAbsoluteDeviation.default_ : Option (MeanAbsoluteDeviation F)) = some (MeanAbsoluteDeviation.fresh 9) :=
  MeanAbsoluteDeviation.default_eq


/-! ### RateOfChange — `ROC(period)`, default 9; allocates a window of `period` values -/

theorem roc_new_err_iff (p : Nat) (e : TaError) :
    (RateOfChange.new p : Res (RateOfChange F)) = .err e ↔ (e = .InvalidParameter ∧ p = 0) := by
  rw [RateOfChange.new_eq]; exact win_err_iff _ _ _ _

theorem roc_new_no_panic (p : Nat) (h8 : p * 8 ≤ isizeMax) :
    (RateOfChange.new p : Res (RateOfChange F)) ≠ .panic := by
  rw [RateOfChange.new_eq]; exact win_no_panic _ _ _ h8

theorem roc_new_ok (p : Nat) (hp : 0 < p) (h8 : p * 8 ≤ isizeMax) :
    (RateOfChange.new p : Res (RateOfChange F)) = .ok (RateOfChange.fresh p) := by
  rw [RateOfChange.new_eq]; exact win_ok _ _ _ (Nat.ne_of_gt hp) h8

theorem roc_accessors (p : Nat) : (RateOfChange.fresh p : RateOfChange F).period_fn = p := rfl

theorem roc_accessors_stable (s : RateOfChange F) (h : RateOfChange.WF s) :
    (∀ x, ∃ r, s.next x = some r ∧ RateOfChange.WF r.1 ∧ r.1.period_fn = s.period_fn) ∧
    (∀ b, ∃ r, s.nextBar b = some r ∧ RateOfChange.WF r.1 ∧ r.1.period_fn = s.period_fn) ∧
    (∃ r, s.reset = some r ∧ RateOfChange.WF r ∧ r.period_fn = s.period_fn) :=
  ⟨fun x => RateOfChange.next_total s x h,
   fun b => RateOfChange.nextBar_total s b h,
   RateOfChange.reset_total s h⟩

theorem roc_display (fmt : F → String) (p : Nat) :
    RateOfChange.display fmt (RateOfChange.fresh p : RateOfChange F) = "ROC(" ++ toString p ++ ")" := rfl

theorem roc_default : (RateOfChange.default_ : Option (RateOfChange F)) = some (RateOfChange.fresh 9) :=
  RateOfChange.default_eq


/-! ### EfficiencyRatio — `ER(period)`, default 14; allocates a window of `period` values -/

theorem er_new_err_iff (p : Nat) (e : TaError) :
    (EfficiencyRatio.new p : Res (EfficiencyRatio F)) = .err e ↔ (e = .InvalidParameter ∧ p = 0) := by
  rw [EfficiencyRatio.new_eq]; exact win_err_iff _ _ _ _

theorem er_new_no_panic (p : Nat) (h8 : p * 8 ≤ isizeMax) :
    (EfficiencyRatio.new p : Res (EfficiencyRatio F)) ≠ .panic := by
  rw [EfficiencyRatio.new_eq]; exact win_no_panic _ _ _ h8

theorem er_new_ok (p : Nat) (hp : 0 < p) (h8 : p * 8 ≤ isizeMax) :
    (EfficiencyRatio.new p : Res (EfficiencyRatio F)) = .ok (EfficiencyRatio.fresh p) := by
  rw [EfficiencyRatio.new_eq]; exact win_ok _ _ _ (Nat.ne_of_gt hp) h8

theorem er_accessors (p : Nat) : (EfficiencyRatio.fresh p : EfficiencyRatio F).period_fn = p := rfl

theorem er_accessors_stable (s : EfficiencyRatio F) (h : EfficiencyRatio.WF s) :
    (∀ x, ∃ r, s.next x = some r ∧ EfficiencyRatio.WF r.1 ∧ r.1.period_fn = s.period_fn) ∧
    (∀ b, ∃ r, s.nextBar b = some r ∧ EfficiencyRatio.WF r.1 ∧ r.1.period_fn = s.period_fn) ∧
    (∃ r, s.reset = some r ∧ EfficiencyRatio.WF r ∧ r.period_fn = s.period_fn) :=
  ⟨fun x => EfficiencyRatio.next_total s x h,
   fun b => EfficiencyRatio.nextBar_total s b h,
   EfficiencyRatio.reset_total s h⟩

theorem er_display (fmt : F → String) (p : Nat) :
    EfficiencyRatio.display fmt (EfficiencyRatio.fresh p : EfficiencyRatio F) = "ER(" ++ toString p ++ ")" := rfl

theorem er_default : (EfficiencyRatio.default_ : Option (EfficiencyRatio F)) = some (EfficiencyRatio.fresh 14) :=
  EfficiencyRatio.default_eq


/-! ### Minimum — `MIN(period)`, default 14; allocates a window of `period` values; `next(&bar)` reads `low` -/

theorem minimum_new_err_iff (p : Nat) (e : TaError) :
    (Minimum.new p : Res (Minimum F)) = .err e ↔ (e = .InvalidParameter ∧ p = 0) := by
  rw [Minimum.new_eq]; exact win_err_iff _ _ _ _

theorem minimum_new_no_panic (p : Nat) (h8 : p * 8 ≤ isizeMax) :
    (Minimum.new p : Res (Minimum F)) ≠ .panic := by
  rw [Minimum.new_eq]; exact win_no_panic _ _ _ h8

theorem minimum_new_ok (p : Nat) (hp : 0 < p) (h8 : p * 8 ≤ isizeMax) :
    (Minimum.new p : Res (Minimum F)) = .ok (Minimum.fresh p) := by
  rw [Minimum.new_eq]; exact win_ok _ _ _ (Nat.ne_of_gt hp) h8

theorem minimum_accessors (p : Nat) : (Minimum.fresh p : Minimum F).period_fn = p := rfl

theorem minimum_accessors_stable (s : Minimum F) (h : Minimum.WF s) :
    (∀ x, ∃ r, s.next x = some r ∧ Minimum.WF r.1 ∧ r.1.period_fn = s.period_fn) ∧
    (∀ b, ∃ r, s.nextBar b = some r ∧ Minimum.WF r.1 ∧ r.1.period_fn = s.period_fn) ∧
    (∃ r, s.reset = some r ∧ Minimum.WF r ∧ r.period_fn = s.period_fn) :=
  ⟨fun x => Minimum.next_total s x h,
   fun b => Minimum.nextBar_total s b h,
   Minimum.reset_total s h⟩

theorem minimum_display (fmt : F → String) (p : Nat) :
    Minimum.display fmt (Minimum.fresh p : Minimum F) = "MIN(" ++ toString p ++ ")" := rfl

theorem minimum_default : (Minimum.default_ : Option (Minimum F)) = some (Minimum.fresh 14) :=
  Minimum.default_eq


/-! ### Maximum — `MAX(period)`, default 14; allocates a window of `period` values; `next(&bar)` reads `high` -/

theorem maximum_new_err_iff (p : Nat) (e : TaError) :
    (Maximum.new p : Res (Maximum F)) = .err e ↔ (e = .InvalidParameter ∧ p = 0) := by
  rw [Maximum.new_eq]; exact win_err_iff _ _ _ _

theorem maximum_new_no_panic (p : Nat) (h8 : p * 8 ≤ isizeMax) :
    (Maximum.new p : Res (Maximum F)) ≠ .panic := by
  rw [Maximum.new_eq]; exact win_no_panic _ _ _ h8

theorem maximum_new_ok (p : Nat) (hp : 0 < p) (h8 : p * 8 ≤ isizeMax) :
    (Maximum.new p : Res (Maximum F)) = .ok (Maximum.fresh p) := by
  rw [Maximum.new_eq]; exact win_ok _ _ _ (Nat.ne_of_gt hp) h8

theorem maximum_accessors (p : Nat) : (Maximum.fresh p : Maximum F).period_fn = p := rfl

theorem maximum_accessors_stable (s : Maximum F) (h : Maximum.WF s) :
    (∀ x, ∃ r, s.next x = some r ∧ Maximum.WF r.1 ∧ r.1.period_fn = s.period_fn) ∧
    (∀ b, ∃ r, s.nextBar b = some r ∧ Maximum.WF r.1 ∧ r.1.period_fn = s.period_fn) ∧
    (∃ r, s.reset = some r ∧ Maximum.WF r ∧ r.period_fn = s.period_fn) :=
  ⟨fun x => Maximum.next_total s x h,
   fun b => Maximum.nextBar_total s b h,
   Maximum.reset_total s h⟩

theorem maximum_display (fmt : F → String) (p : Nat) :
    Maximum.display fmt (Maximum.fresh p : Maximum F) = "MAX(" ++ toString p ++ ")" := rfl

theorem maximum_default : (Maximum.default_ : Option (Maximum F)) = some (Maximum.fresh 14) :=
  Maximum.default_eq


/-! ### ExponentialMovingAverage — `EMA(period)`, default 9; no allocation and no `usize` arithmetic: every period up to `usize::MAX` -/

theorem ema_new_err_iff (p : Nat) (e : TaError) :
    (ExponentialMovingAverage.new p : Res (ExponentialMovingAverage F)) = .err e ↔ (e = .InvalidParameter ∧ p = 0) := by
  rw [ExponentialMovingAverage.new_eq]; exact free_err_iff _ _ _

theorem ema_new_no_panic (p : Nat) : (ExponentialMovingAverage.new p : Res (ExponentialMovingAverage F)) ≠ .panic := by
  rw [ExponentialMovingAverage.new_eq]; exact free_no_panic _ _

theorem ema_new_ok (p : Nat) (hp : 0 < p) :
    (ExponentialMovingAverage.new p : Res (ExponentialMovingAverage F)) = .ok (ExponentialMovingAverage.fresh p) := by
  rw [ExponentialMovingAverage.new_eq]; exact free_ok _ _ (Nat.ne_of_gt hp)

theorem ema_accessors (p : Nat) : (ExponentialMovingAverage.fresh p : ExponentialMovingAverage F).period_fn = p := rfl

theorem ema_accessors_stable (s : ExponentialMovingAverage F) (h : ExponentialMovingAverage.WF s) :
    (∀ x, ∃ r, s.next x = some r ∧ ExponentialMovingAverage.WF r.1 ∧ r.1.period_fn = s.period_fn) ∧
    (∀ b, ∃ r, s.nextBar b = some r ∧ ExponentialMovingAverage.WF r.1 ∧ r.1.period_fn = s.period_fn) ∧
    (∃ r, s.reset = some r ∧ ExponentialMovingAverage.WF r ∧ r.period_fn = s.period_fn) :=
  ⟨fun x => ExponentialMovingAverage.next_total s x h,
   fun b => ExponentialMovingAverage.nextBar_total s b h,
   ExponentialMovingAverage.reset_total s h⟩

theorem ema_display (fmt : F → String) (p : Nat) :
    ExponentialMovingAverage.display fmt (ExponentialMovingAverage.fresh p : ExponentialMovingAverage F) = "EMA(" ++ toString p ++ ")" := rfl

theorem ema_default : (ExponentialMovingAverage.default_ : Option (ExponentialMovingAverage F)) = some (ExponentialMovingAverage.fresh 9) :=
  ExponentialMovingAverage.default_eq


/-! ### RelativeStrengthIndex — `RSI(period)`, default 14; two EMAs, no allocation: every period up to `usize::MAX` -/

theorem rsi_new_err_iff (p : Nat) (e : TaError) :
    (RelativeStrengthIndex.new p : Res (RelativeStrengthIndex F)) = .err e ↔ (e = .InvalidParameter ∧ p = 0) := by
  rw [RelativeStrengthIndex.new_eq]; exact free_err_iff _ _ _

theorem rsi_new_no_panic (p : Nat) : (RelativeStrengthIndex.new p : Res (RelativeStrengthIndex F)) ≠ .panic := by
  rw [RelativeStrengthIndex.new_eq]; exact free_no_panic _ _

theorem rsi_new_ok (p : Nat) (hp : 0 < p) :
    (RelativeStrengthIndex.new p : Res (RelativeStrengthIndex F)) = .ok (RelativeStrengthIndex.fresh p) := by
  rw [RelativeStrengthIndex.new_eq]; exact free_ok _ _ (Nat.ne_of_gt hp)

theorem rsi_accessors (p : Nat) : (RelativeStrengthIndex.fresh p : RelativeStrengthIndex F).period_fn = p := rfl

theorem rsi_accessors_stable (s : RelativeStrengthIndex F) (h : RelativeStrengthIndex.WF s) :
    (∀ x, ∃ r, s.next x = some r ∧ RelativeStrengthIndex.WF r.1 ∧ r.1.period_fn = s.period_fn) ∧
    (∀ b, ∃ r, s.nextBar b = some r ∧ RelativeStrengthIndex.WF r.1 ∧ r.1.period_fn = s.period_fn) ∧
    (∃ r, s.reset = some r ∧ RelativeStrengthIndex.WF r ∧ r.period_fn = s.period_fn) :=
  ⟨fun x => RelativeStrengthIndex.next_total s x h,
   fun b => RelativeStrengthIndex.nextBar_total s b h,
   RelativeStrengthIndex.reset_total s h⟩

theorem rsi_display (fmt : F → String) (p : Nat) :
    RelativeStrengthIndex.display fmt (RelativeStrengthIndex.fresh p : RelativeStrengthIndex F) = "RSI(" ++ toString p ++ ")" := rfl

theorem rsi_default : (RelativeStrengthIndex.default_ : Option (RelativeStrengthIndex F)) = some (RelativeStrengthIndex.fresh 14) :=
  RelativeStrengthIndex.default_eq


/-! ### AverageTrueRange — `ATR(period)`, default 14; TrueRange + EMA, no allocation: every period up to `usize::MAX`; `period()` reads the EMA's -/

theorem atr_new_err_iff (p : Nat) (e : TaError) :
    (AverageTrueRange.new p : Res (AverageTrueRange F)) = .err e ↔ (e = .InvalidParameter ∧ p = 0) := by
  rw [AverageTrueRange.new_eq]; exact free_err_iff _ _ _

theorem atr_new_no_panic (p : Nat) : (AverageTrueRange.new p : Res (AverageTrueRange F)) ≠ .panic := by
  rw [AverageTrueRange.new_eq]; exact free_no_panic _ _

theorem atr_new_ok (p : Nat) (hp : 0 < p) :
    (AverageTrueRange.new p : Res (AverageTrueRange F)) = .ok (AverageTrueRange.fresh p) := by
  rw [AverageTrueRange.new_eq]; exact free_ok _ _ (Nat.ne_of_gt hp)

theorem atr_accessors (p : Nat) : (AverageTrueRange.fresh p : AverageTrueRange F).period_fn = p := rfl

theorem atr_accessors_stable (s : AverageTrueRange F) (h : AverageTrueRange.WF s) :
    (∀ x, ∃ r, s.next x = some r ∧ AverageTrueRange.WF r.1 ∧ r.1.period_fn = s.period_fn) ∧
    (∀ b, ∃ r, s.nextBar b = some r ∧ AverageTrueRange.WF r.1 ∧ r.1.period_fn = s.period_fn) ∧
    (∃ r, s.reset = some r ∧ AverageTrueRange.WF r ∧ r.period_fn = s.period_fn) :=
  ⟨fun x => AverageTrueRange.next_total s x h,
   fun b => AverageTrueRange.nextBar_total s b h,
   AverageTrueRange.reset_total s h⟩

theorem atr_display (fmt : F → String) (p : Nat) :
    AverageTrueRange.display fmt (AverageTrueRange.fresh p : AverageTrueRange F) = "ATR(" ++ toString p ++ ")" := rfl

theorem atr_default : (AverageTrueRange.default_ : Option (AverageTrueRange F)) = some (AverageTrueRange.fresh 14) :=
  AverageTrueRange.default_eq


/-! ### MovingAverageConvergenceDivergence — `MACD(fast, slow, signal)`, default (12, 26, 9); three EMAs, no allocation -/

theorem macd_new_err_iff (fp sp gp : Nat) (e : TaError) :
    (MovingAverageConvergenceDivergence.new fp sp gp : Res (MovingAverageConvergenceDivergence F)) = .err e ↔
      (e = .InvalidParameter ∧ (fp = 0 ∨ sp = 0 ∨ gp = 0)) := by
  rw [MovingAverageConvergenceDivergence.new_eq]; exact free_err_iff _ _ _

theorem macd_new_no_panic (fp sp gp : Nat) : (MovingAverageConvergenceDivergence.new fp sp gp : Res (MovingAverageConvergenceDivergence F)) ≠ .panic := by
  rw [MovingAverageConvergenceDivergence.new_eq]; exact free_no_panic _ _

theorem macd_new_ok (fp sp gp : Nat) (hf : 0 < fp) (hs : 0 < sp) (hg : 0 < gp) :
    (MovingAverageConvergenceDivergence.new fp sp gp : Res (MovingAverageConvergenceDivergence F)) = .ok (MovingAverageConvergenceDivergence.fresh fp sp gp) := by
  rw [MovingAverageConvergenceDivergence.new_eq]; exact free_ok _ _ (by omega)

/-- no `period()` getter on the struct: the parameters live in (and are printed from) the three
    component EMAs -/
theorem macd_accessors (fp sp gp : Nat) :
    (MovingAverageConvergenceDivergence.fresh fp sp gp : MovingAverageConvergenceDivergence F).fast_ema.period_fn = fp ∧
    (MovingAverageConvergenceDivergence.fresh fp sp gp : MovingAverageConvergenceDivergence F).slow_ema.period_fn = sp ∧
    (MovingAverageConvergenceDivergence.fresh fp sp gp : MovingAverageConvergenceDivergence F).signal_ema.period_fn = gp := ⟨rfl, rfl, rfl⟩

theorem macd_accessors_stable (s : MovingAverageConvergenceDivergence F) (h : MovingAverageConvergenceDivergence.WF s) :
    (∀ x, ∃ r, s.next x = some r ∧ MovingAverageConvergenceDivergence.WF r.1 ∧ r.1.fast_ema.period_fn = s.fast_ema.period_fn ∧
      r.1.slow_ema.period_fn = s.slow_ema.period_fn ∧ r.1.signal_ema.period_fn = s.signal_ema.period_fn) ∧
    (∀ b, ∃ r, s.nextBar b = some r ∧ MovingAverageConvergenceDivergence.WF r.1 ∧ r.1.fast_ema.period_fn = s.fast_ema.period_fn ∧
      r.1.slow_ema.period_fn = s.slow_ema.period_fn ∧ r.1.signal_ema.period_fn = s.signal_ema.period_fn) ∧
    (∃ r, s.reset = some r ∧ MovingAverageConvergenceDivergence.WF r ∧ r.fast_ema.period_fn = s.fast_ema.period_fn ∧
      r.slow_ema.period_fn = s.slow_ema.period_fn ∧ r.signal_ema.period_fn = s.signal_ema.period_fn) :=
  ⟨fun x => MovingAverageConvergenceDivergence.next_total s x h,
   fun b => MovingAverageConvergenceDivergence.nextBar_total s b h,
   MovingAverageConvergenceDivergence.reset_total s h⟩

theorem macd_display (fmt : F → String) (fp sp gp : Nat) :
    MovingAverageConvergenceDivergence.display fmt (MovingAverageConvergenceDivergence.fresh fp sp gp : MovingAverageConvergenceDivergence F) =
      "MACD(" ++ toString fp ++ ", " ++ toString sp ++ ", " ++ toString gp ++ ")" := rfl

theorem macd_default : (MovingAverageConvergenceDivergence.default_ : Option (MovingAverageConvergenceDivergence F)) = some (MovingAverageConvergenceDivergence.fresh 12 26 9) :=
  MovingAverageConvergenceDivergence.default_eq


/-! ### PercentagePriceOscillator — `PPO(fast, slow, signal)`, default (12, 26, 9); three EMAs, no allocation -/

theorem ppo_new_err_iff (fp sp gp : Nat) (e : TaError) :
    (PercentagePriceOscillator.new fp sp gp : Res (PercentagePriceOscillator F)) = .err e ↔
      (e = .InvalidParameter ∧ (fp = 0 ∨ sp = 0 ∨ gp = 0)) := by
  rw [PercentagePriceOscillator.new_eq]; exact free_err_iff _ _ _

theorem ppo_new_no_panic (fp sp gp : Nat) : (PercentagePriceOscillator.new fp sp gp : Res (PercentagePriceOscillator F)) ≠ .panic := by
  rw [PercentagePriceOscillator.new_eq]; exact free_no_panic _ _

theorem ppo_new_ok (fp sp gp : Nat) (hf : 0 < fp) (hs : 0 < sp) (hg : 0 < gp) :
    (PercentagePriceOscillator.new fp sp gp : Res (PercentagePriceOscillator F)) = .ok (PercentagePriceOscillator.fresh fp sp gp) := by
  rw [PercentagePriceOscillator.new_eq]; exact free_ok _ _ (by omega)

/-- no `period()` getter on the struct: the parameters live in (and are printed from) the three
    component EMAs -/
theorem ppo_accessors (fp sp gp : Nat) :
    (PercentagePriceOscillator.fresh fp sp gp : PercentagePriceOscillator F).fast_ema.period_fn = fp ∧
    (PercentagePriceOscillator.fresh fp sp gp : PercentagePriceOscillator F).slow_ema.period_fn = sp ∧
    (PercentagePriceOscillator.fresh fp sp gp : PercentagePriceOscillator F).signal_ema.period_fn = gp := ⟨rfl, rfl, rfl⟩

theorem ppo_accessors_stable (s : PercentagePriceOscillator F) (h : PercentagePriceOscillator.WF s) :
    (∀ x, ∃ r, s.next x = some r ∧ PercentagePriceOscillator.WF r.1 ∧ r.1.fast_ema.period_fn = s.fast_ema.period_fn ∧
      r.1.slow_ema.period_fn = s.slow_ema.period_fn ∧ r.1.signal_ema.period_fn = s.signal_ema.period_fn) ∧
    (∀ b, ∃ r, s.nextBar b = some r ∧ PercentagePriceOscillator.WF r.1 ∧ r.1.fast_ema.period_fn = s.fast_ema.period_fn ∧
      r.1.slow_ema.period_fn = s.slow_ema.period_fn ∧ r.1.signal_ema.period_fn = s.signal_ema.period_fn) ∧
    (∃ r, s.reset = some r ∧ PercentagePriceOscillator.WF r ∧ r.fast_ema.period_fn = s.fast_ema.period_fn ∧
      r.slow_ema.period_fn = s.slow_ema.period_fn ∧ r.signal_ema.period_fn = s.signal_ema.period_fn) :=
  ⟨fun x => PercentagePriceOscillator.next_total s x h,
   fun b => PercentagePriceOscillator.nextBar_total s b h,
   PercentagePriceOscillator.reset_total s h⟩

theorem ppo_display (fmt : F → String) (fp sp gp : Nat) :
    PercentagePriceOscillator.display fmt (PercentagePriceOscillator.fresh fp sp gp : PercentagePriceOscillator F) =
      "PPO(" ++ toString fp ++ ", " ++ toString sp ++ ", " ++ toString gp ++ ")" := rfl

theorem ppo_default : (PercentagePriceOscillator.default_ : Option (PercentagePriceOscillator F)) = some (PercentagePriceOscillator.fresh 12 26 9) :=
  PercentagePriceOscillator.default_eq


/-! ### FastStochastic — `FAST_STOCH(period)`, default 14; a Minimum and a Maximum window of `period` values each -/

theorem faststochastic_new_err_iff (p : Nat) (e : TaError) :
    (FastStochastic.new p : Res (FastStochastic F)) = .err e ↔ (e = .InvalidParameter ∧ p = 0) := by
  rw [FastStochastic.new_eq]; exact win_err_iff _ _ _ _

theorem faststochastic_new_no_panic (p : Nat) (h8 : p * 8 ≤ isizeMax) :
    (FastStochastic.new p : Res (FastStochastic F)) ≠ .panic := by
  rw [FastStochastic.new_eq]; exact win_no_panic _ _ _ h8

theorem faststochastic_new_ok (p : Nat) (hp : 0 < p) (h8 : p * 8 ≤ isizeMax) :
    (FastStochastic.new p : Res (FastStochastic F)) = .ok (FastStochastic.fresh p) := by
  rw [FastStochastic.new_eq]; exact win_ok _ _ _ (Nat.ne_of_gt hp) h8

theorem faststochastic_accessors (p : Nat) : (FastStochastic.fresh p : FastStochastic F).period_fn = p := rfl

theorem faststochastic_accessors_stable (s : FastStochastic F) (h : FastStochastic.WF s) :
    (∀ x, ∃ r, s.next x = some r ∧ FastStochastic.WF r.1 ∧ r.1.period_fn = s.period_fn) ∧
    (∀ b, ∃ r, s.nextBar b = some r ∧ FastStochastic.WF r.1 ∧ r.1.period_fn = s.period_fn) ∧
    (∃ r, s.reset = some r ∧ FastStochastic.WF r ∧ r.period_fn = s.period_fn) :=
  ⟨fun x => FastStochastic.next_total s x h,
   fun b => FastStochastic.nextBar_total s b h,
   FastStochastic.reset_total s h⟩

theorem faststochastic_display (fmt : F → String) (p : Nat) :
    FastStochastic.display fmt (FastStochastic.fresh p : FastStochastic F) = "FAST_STOCH(" ++ toString p ++ ")" := rfl

theorem faststochastic_default : (FastStochastic.default_ : Option (FastStochastic F)) = some (FastStochastic.fresh 14) :=
  FastStochastic.default_eq


/-! ### CommodityChannelIndex — `CCI(period)`, default 20; an SMA and a MAD window of `period` values each; bar input only; `period()` reads the SMA's -/

theorem cci_new_err_iff (p : Nat) (e : TaError) :
    (CommodityChannelIndex.new p : Res (CommodityChannelIndex F)) = .err e ↔ (e = .InvalidParameter ∧ p = 0) := by
  rw [CommodityChannelIndex.new_eq]; exact win_err_iff _ _ _ _

theorem cci_new_no_panic (p : Nat) (h8 : p * 8 ≤ isizeMax) :
    (CommodityChannelIndex.new p : Res (CommodityChannelIndex F)) ≠ .panic := by
  rw [CommodityChannelIndex.new_eq]; exact win_no_panic _ _ _ h8

theorem cci_new_ok (p : Nat) (hp : 0 < p) (h8 : p * 8 ≤ isizeMax) :
    (CommodityChannelIndex.new p : Res (CommodityChannelIndex F)) = .ok (CommodityChannelIndex.fresh p) := by
  rw [CommodityChannelIndex.new_eq]; exact win_ok _ _ _ (Nat.ne_of_gt hp) h8

theorem cci_accessors (p : Nat) : (CommodityChannelIndex.fresh p : CommodityChannelIndex F).period_fn = p := rfl

theorem cci_accessors_stable (s : CommodityChannelIndex F) (h : CommodityChannelIndex.WF s) :
    (∀ b, ∃ r, s.nextBar b = some r ∧ CommodityChannelIndex.WF r.1 ∧ r.1.period_fn = s.period_fn) ∧
    (∃ r, s.reset = some r ∧ CommodityChannelIndex.WF r ∧ r.period_fn = s.period_fn) :=
  ⟨fun b => CommodityChannelIndex.nextBar_total s b h,
   CommodityChannelIndex.reset_total s h⟩

theorem cci_display (fmt : F → String) (p : Nat) :
    CommodityChannelIndex.display fmt (CommodityChannelIndex.fresh p : CommodityChannelIndex F) = "CCI(" ++ toString p ++ ")" := rfl

theorem cci_default : (CommodityChannelIndex.default_ : Option (CommodityChannelIndex F)) = some (CommodityChannelIndex.fresh 20) :=
  CommodityChannelIndex.default_eq


/-! ### MoneyFlowIndex — `MFI(period)`, default 14; allocates a window of `period` values; bar input only -/

theorem mfi_new_err_iff (p : Nat) (e : TaError) :
    (MoneyFlowIndex.new p : Res (MoneyFlowIndex F)) = .err e ↔ (e = .InvalidParameter ∧ p = 0) := by
  rw [MoneyFlowIndex.new_eq]; exact win_err_iff _ _ _ _

theorem mfi_new_no_panic (p : Nat) (h8 : p * 8 ≤ isizeMax) :
    (MoneyFlowIndex.new p : Res (MoneyFlowIndex F)) ≠ .panic := by
  rw [MoneyFlowIndex.new_eq]; exact win_no_panic _ _ _ h8

theorem mfi_new_ok (p : Nat) (hp : 0 < p) (h8 : p * 8 ≤ isizeMax) :
    (MoneyFlowIndex.new p : Res (MoneyFlowIndex F)) = .ok (MoneyFlowIndex.fresh p) := by
  rw [MoneyFlowIndex.new_eq]; exact win_ok _ _ _ (Nat.ne_of_gt hp) h8

theorem mfi_accessors (p : Nat) : (MoneyFlowIndex.fresh p : MoneyFlowIndex F).period_fn = p := rfl

theorem mfi_accessors_stable (s : MoneyFlowIndex F) (h : MoneyFlowIndex.WF s) :
    (∀ b, ∃ r, s.nextBar b = some r ∧ MoneyFlowIndex.WF r.1 ∧ r.1.period_fn = s.period_fn) ∧
    (∃ r, s.reset = some r ∧ MoneyFlowIndex.WF r ∧ r.period_fn = s.period_fn) :=
  ⟨fun b => MoneyFlowIndex.nextBar_total s b h,
   MoneyFlowIndex.reset_total s h⟩

theorem mfi_display (fmt : F → String) (p : Nat) :
    MoneyFlowIndex.display fmt (MoneyFlowIndex.fresh p : MoneyFlowIndex F) = "MFI(" ++ toString p ++ ")" := rfl

theorem mfi_default : (MoneyFlowIndex.default_ : Option (MoneyFlowIndex F)) = some (MoneyFlowIndex.fresh 14) :=
  MoneyFlowIndex.default_eq


/-! ### SlowStochastic — `SLOW_STOCH(stochastic_period, ema_period)`, default (14, 3); FastStochastic (windows) + EMA -/

/-- What holds exactly: `FastStochastic::new(stochastic_period)?` is evaluated FIRST, so when the
    stochastic window is too large to allocate the constructor panics before `ema_period` is looked
    at.  `Err` ⇔ `stochastic_period = 0`, or the window is allocatable and `ema_period = 0`. -/
theorem slowstochastic_new_err_iff (sp ep : Nat) (e : TaError) :
    (SlowStochastic.new sp ep : Res (SlowStochastic F)) = .err e ↔
      (e = .InvalidParameter ∧ (sp = 0 ∨ (sp * 8 ≤ isizeMax ∧ ep = 0))) :=
  SlowStochastic.new_err_iff sp ep e

/-- the property as worded ("Err iff some period is 0"), under the memory hypothesis on the only
    period that allocates -/
theorem slowstochastic_new_err_iff_of_small (sp ep : Nat) (e : TaError) (h8 : sp * 8 ≤ isizeMax) :
    (SlowStochastic.new sp ep : Res (SlowStochastic F)) = .err e ↔
      (e = .InvalidParameter ∧ (sp = 0 ∨ ep = 0)) := by
  rw [SlowStochastic.new_err_iff]
  constructor
  · rintro ⟨h1, h2 | ⟨_, h2⟩⟩
    · exact ⟨h1, .inl h2⟩
    · exact ⟨h1, .inr h2⟩
  · rintro ⟨h1, h2 | h2⟩
    · exact ⟨h1, .inl h2⟩
    · exact ⟨h1, .inr ⟨h8, h2⟩⟩

/-- without the memory hypothesis the worded property is FALSE of the code: a non-zero oversized
    `stochastic_period` with `ema_period = 0` panics instead of returning `Err` -/
theorem slowstochastic_new_panic_actual (sp ep : Nat) (h0 : sp ≠ 0) (h8 : ¬ sp * 8 ≤ isizeMax) :
    (SlowStochastic.new sp ep : Res (SlowStochastic F)) = .panic := by
  rw [SlowStochastic.new_eq]; simp only [h0, h8, if_false, not_false_eq_true, if_true]

theorem slowstochastic_new_no_panic (sp ep : Nat) (h8 : sp * 8 ≤ isizeMax) :
    (SlowStochastic.new sp ep : Res (SlowStochastic F)) ≠ .panic := by
  rw [SlowStochastic.new_eq]
  by_cases h0 : sp = 0
  · simp only [h0, if_true]; intro h; cases h
  · by_cases h1 : ep = 0
    · simp only [h0, h8, h1, if_true, if_false, not_true_eq_false]; intro h; cases h
    · simp only [h0, h8, h1, if_false, not_true_eq_false]; intro h; cases h

theorem slowstochastic_new_ok (sp ep : Nat) (hs : 0 < sp) (he : 0 < ep) (h8 : sp * 8 ≤ isizeMax) :
    (SlowStochastic.new sp ep : Res (SlowStochastic F)) = .ok (SlowStochastic.fresh sp ep) := by
  rw [SlowStochastic.new_eq]
  simp only [Nat.ne_of_gt hs, Nat.ne_of_gt he, h8, if_false, not_true_eq_false]

/-- no `period()` getter on the struct: the parameters are the `period()` of the two components,
    which is what `Display` prints -/
theorem slowstochastic_accessors (sp ep : Nat) :
    (SlowStochastic.fresh sp ep : SlowStochastic F).fast_stochastic.period_fn = sp ∧
    (SlowStochastic.fresh sp ep : SlowStochastic F).ema.period_fn = ep := ⟨rfl, rfl⟩

theorem slowstochastic_accessors_stable (s : SlowStochastic F) (h : SlowStochastic.WF s) :
    (∀ x, ∃ r, s.next x = some r ∧ SlowStochastic.WF r.1 ∧
      r.1.fast_stochastic.period_fn = s.fast_stochastic.period_fn ∧ r.1.ema.period_fn = s.ema.period_fn) ∧
    (∀ b, ∃ r, s.nextBar b = some r ∧ SlowStochastic.WF r.1 ∧
      r.1.fast_stochastic.period_fn = s.fast_stochastic.period_fn ∧ r.1.ema.period_fn = s.ema.period_fn) ∧
    (∃ r, s.reset = some r ∧ SlowStochastic.WF r ∧
      r.fast_stochastic.period_fn = s.fast_stochastic.period_fn ∧ r.ema.period_fn = s.ema.period_fn) :=
  ⟨fun x => SlowStochastic.next_total s x h,
   fun b => SlowStochastic.nextBar_total s b h,
   SlowStochastic.reset_total s h⟩

theorem slowstochastic_display (fmt : F → String) (sp ep : Nat) :
    SlowStochastic.display fmt (SlowStochastic.fresh sp ep : SlowStochastic F) =
      "SLOW_STOCH(" ++ toString sp ++ ", " ++ toString ep ++ ")" := rfl

theorem slowstochastic_default :
    (SlowStochastic.default_ : Option (SlowStochastic F)) = some (SlowStochastic.fresh 14 3) :=
  SlowStochastic.default_eq


/-! ### BollingerBands — `BB(period, multiplier)`, default (9, 2); a StandardDeviation window of `period` values -/

/-- the multiplier plays no part in the outcome: any `m` (NaN, ±∞, negative, 0) is accepted -/
theorem bb_new_err_iff (p : Nat) (m : F) (e : TaError) :
    (BollingerBands.new p m : Res (BollingerBands F)) = .err e ↔ (e = .InvalidParameter ∧ p = 0) := by
  rw [BollingerBands.new_eq]; exact win_err_iff _ _ _ _

theorem bb_new_no_panic (p : Nat) (m : F) (h8 : p * 8 ≤ isizeMax) :
    (BollingerBands.new p m : Res (BollingerBands F)) ≠ .panic := by
  rw [BollingerBands.new_eq]; exact win_no_panic _ _ _ h8

theorem bb_new_ok (p : Nat) (m : F) (hp : 0 < p) (h8 : p * 8 ≤ isizeMax) :
    (BollingerBands.new p m : Res (BollingerBands F)) = .ok (BollingerBands.fresh p m) := by
  rw [BollingerBands.new_eq]; exact win_ok _ _ _ (Nat.ne_of_gt hp) h8

theorem bb_accessors (p : Nat) (m : F) :
    (BollingerBands.fresh p m : BollingerBands F).period_fn = p ∧ (BollingerBands.fresh p m : BollingerBands F).multiplier_fn = m := ⟨rfl, rfl⟩

theorem bb_accessors_stable (s : BollingerBands F) (h : BollingerBands.WF s) :
    (∀ x, ∃ r, s.next x = some r ∧ BollingerBands.WF r.1 ∧ r.1.period_fn = s.period_fn ∧ r.1.multiplier_fn = s.multiplier_fn) ∧
    (∀ b, ∃ r, s.nextBar b = some r ∧ BollingerBands.WF r.1 ∧ r.1.period_fn = s.period_fn ∧ r.1.multiplier_fn = s.multiplier_fn) ∧
    (∃ r, s.reset = some r ∧ BollingerBands.WF r ∧ r.period_fn = s.period_fn ∧ r.multiplier_fn = s.multiplier_fn) :=
  ⟨fun x => BollingerBands.next_total s x h,
   fun b => BollingerBands.nextBar_total s b h,
   BollingerBands.reset_total s h⟩

theorem bb_display (fmt : F → String) (p : Nat) (m : F) :
    BollingerBands.display fmt (BollingerBands.fresh p m : BollingerBands F) = "BB(" ++ toString p ++ ", " ++ fmt m ++ ")" := rfl

theorem bb_default :
    (BollingerBands.default_ : Option (BollingerBands F)) = some (BollingerBands.fresh 9 (Scalar.lit 2 0)) :=
  BollingerBands.default_eq


/-! ### KeltnerChannel — `KC(period, multiplier)`, default (10, 2); ATR + EMA, no allocation: every period up to `usize::MAX` -/

/-- the multiplier plays no part in the outcome: any `m` (NaN, ±∞, negative, 0) is accepted -/
theorem kc_new_err_iff (p : Nat) (m : F) (e : TaError) :
    (KeltnerChannel.new p m : Res (KeltnerChannel F)) = .err e ↔ (e = .InvalidParameter ∧ p = 0) := by
  rw [KeltnerChannel.new_eq]; exact free_err_iff _ _ _

theorem kc_new_no_panic (p : Nat) (m : F) :
    (KeltnerChannel.new p m : Res (KeltnerChannel F)) ≠ .panic := by
  rw [KeltnerChannel.new_eq]; exact free_no_panic _ _

theorem kc_new_ok (p : Nat) (m : F) (hp : 0 < p) :
    (KeltnerChannel.new p m : Res (KeltnerChannel F)) = .ok (KeltnerChannel.fresh p m) := by
  rw [KeltnerChannel.new_eq]; exact free_ok _ _ (Nat.ne_of_gt hp)

theorem kc_accessors (p : Nat) (m : F) :
    (KeltnerChannel.fresh p m : KeltnerChannel F).period_fn = p ∧ (KeltnerChannel.fresh p m : KeltnerChannel F).multiplier_fn = m := ⟨rfl, rfl⟩

theorem kc_accessors_stable (s : KeltnerChannel F) (h : KeltnerChannel.WF s) :
    (∀ x, ∃ r, s.next x = some r ∧ KeltnerChannel.WF r.1 ∧ r.1.period_fn = s.period_fn ∧ r.1.multiplier_fn = s.multiplier_fn) ∧
    (∀ b, ∃ r, s.nextBar b = some r ∧ KeltnerChannel.WF r.1 ∧ r.1.period_fn = s.period_fn ∧ r.1.multiplier_fn = s.multiplier_fn) ∧
    (∃ r, s.reset = some r ∧ KeltnerChannel.WF r ∧ r.period_fn = s.period_fn ∧ r.multiplier_fn = s.multiplier_fn) :=
  ⟨fun x => KeltnerChannel.next_total s x h,
   fun b => KeltnerChannel.nextBar_total s b h,
   KeltnerChannel.reset_total s h⟩

theorem kc_display (fmt : F → String) (p : Nat) (m : F) :
    KeltnerChannel.display fmt (KeltnerChannel.fresh p m : KeltnerChannel F) = "KC(" ++ toString p ++ ", " ++ fmt m ++ ")" := rfl

theorem kc_default :
    (KeltnerChannel.default_ : Option (KeltnerChannel F)) = some (KeltnerChannel.fresh 10 (Scalar.lit 2 0)) :=
  KeltnerChannel.default_eq


/-! ### ChandelierExit — `CE(period, multiplier)`, default (22, 3); ATR + a Minimum and a Maximum window of `period` values; bar input only; `period()` reads the ATR's -/

/-- the multiplier plays no part in the outcome: any `m` (NaN, ±∞, negative, 0) is accepted -/
theorem ce_new_err_iff (p : Nat) (m : F) (e : TaError) :
    (ChandelierExit.new p m : Res (ChandelierExit F)) = .err e ↔ (e = .InvalidParameter ∧ p = 0) := by
  rw [ChandelierExit.new_eq]; exact win_err_iff _ _ _ _

theorem ce_new_no_panic (p : Nat) (m : F) (h8 : p * 8 ≤ isizeMax) :
    (ChandelierExit.new p m : Res (ChandelierExit F)) ≠ .panic := by
  rw [ChandelierExit.new_eq]; exact win_no_panic _ _ _ h8

theorem ce_new_ok (p : Nat) (m : F) (hp : 0 < p) (h8 : p * 8 ≤ isizeMax) :
    (ChandelierExit.new p m : Res (ChandelierExit F)) = .ok (ChandelierExit.fresh p m) := by
  rw [ChandelierExit.new_eq]; exact win_ok _ _ _ (Nat.ne_of_gt hp) h8

theorem ce_accessors (p : Nat) (m : F) :
    (ChandelierExit.fresh p m : ChandelierExit F).period_fn = p ∧ (ChandelierExit.fresh p m : ChandelierExit F).multiplier_fn = m := ⟨rfl, rfl⟩

theorem ce_accessors_stable (s : ChandelierExit F) (h : ChandelierExit.WF s) :
    (∀ b, ∃ r, s.nextBar b = some r ∧ ChandelierExit.WF r.1 ∧ r.1.period_fn = s.period_fn ∧ r.1.multiplier_fn = s.multiplier_fn) ∧
    (∃ r, s.reset = some r ∧ ChandelierExit.WF r ∧ r.period_fn = s.period_fn ∧ r.multiplier_fn = s.multiplier_fn) :=
  ⟨fun b => ChandelierExit.nextBar_total s b h,
   ChandelierExit.reset_total s h⟩

theorem ce_display (fmt : F → String) (p : Nat) (m : F) :
    ChandelierExit.display fmt (ChandelierExit.fresh p m : ChandelierExit F) = "CE(" ++ toString p ++ ", " ++ fmt m ++ ")" := rfl

theorem ce_default :
    (ChandelierExit.default_ : Option (ChandelierExit F)) = some (ChandelierExit.fresh 22 (Scalar.lit 3 0)) :=
  ChandelierExit.default_eq


/-! ### TrueRange — `TRUE_RANGE()`; no parameter, `new()` is not a `Result` and cannot fail -/

theorem truerange_new : (TrueRange.new : TrueRange F) = TrueRange.fresh := TrueRange.new_eq

omit [Scalar F] in
theorem truerange_display (fmt : F → String) (s : TrueRange F) :
    TrueRange.display fmt s = "TRUE_RANGE()" := rfl

theorem truerange_default : (TrueRange.default_ : TrueRange F) = TrueRange.fresh := TrueRange.default_eq


/-! ### OnBalanceVolume — `OBV`; no parameter, `new()` is not a `Result` and cannot fail -/

theorem obv_new : (OnBalanceVolume.new : OnBalanceVolume F) = OnBalanceVolume.fresh := OnBalanceVolume.new_eq

omit [Scalar F] in
/-- `Display` prints the bare name: there is no parameter list (the source writes `"OBV"`) -/
theorem obv_display (fmt : F → String) (s : OnBalanceVolume F) :
    OnBalanceVolume.display fmt s = "OBV" := rfl

theorem obv_default : (OnBalanceVolume.default_ : OnBalanceVolume F) = OnBalanceVolume.fresh :=
  OnBalanceVolume.default_eq


/-! ### the whole-life lift, instantiated (SMA), and non-vacuity -/

/-- one client call on a live SMA -/
def smaStep (s : SimpleMovingAverage F) : Op F → Option (SimpleMovingAverage F)
  | .next x => (s.next x).map (·.1)
  | .bar b => (s.nextBar b).map (·.1)
  | .reset => s.reset

/-- `period()` returns the constructor argument after ANY sequence of calls on a constructed SMA -/
theorem sma_period_whole_life (p : Nat) (hp : 0 < p) (h8 : p * 8 ≤ isizeMax) (ops : List (Op F)) :
    ∃ s0 s', (SimpleMovingAverage.new p : Res (SimpleMovingAverage F)) = .ok s0 ∧
      runOps smaStep s0 ops = some s' ∧ s'.period_fn = p := by
  obtain ⟨s', h1, _, h3⟩ := accessors_whole_life smaStep SimpleMovingAverage.WF
    SimpleMovingAverage.period_fn (by
      intro s op hs
      obtain ⟨hn, hb, hr⟩ := sma_accessors_stable s hs
      cases op with
      | next x => obtain ⟨r, e, w, g⟩ := hn x; exact ⟨r.1, by simp [smaStep, e], w, g⟩
      | bar b => obtain ⟨r, e, w, g⟩ := hb b; exact ⟨r.1, by simp [smaStep, e], w, g⟩
      | reset => obtain ⟨r, e, w, g⟩ := hr; exact ⟨r, by simp [smaStep, e], w, g⟩)
    (SimpleMovingAverage.fresh p) (SimpleMovingAverage.fresh_wf p hp h8) ops
  exact ⟨_, s', sma_new_ok p hp h8, h1, h3⟩

/-- non-vacuity: for ANY scalar type `new(3)` is `Ok`, `new(0)` is `Err(InvalidParameter)` -/
example : (SimpleMovingAverage.new 3 : Res (SimpleMovingAverage F)) = .ok (SimpleMovingAverage.fresh 3) :=
  sma_new_ok 3 (by decide) (by decide)
example : (SimpleMovingAverage.new 0 : Res (SimpleMovingAverage F)) = .err .InvalidParameter :=
  (sma_new_err_iff 0 _).mpr ⟨rfl, rfl⟩
/-- an allocation-free constructor accepts `usize::MAX` -/
example : (ExponentialMovingAverage.new usizeMax : Res (ExponentialMovingAverage F)) =
    .ok (ExponentialMovingAverage.fresh usizeMax) := ema_new_ok _ (by decide)
/-- the memory hypothesis is not vacuous at the boundary (`2^60 − 1` slots) and is tight -/
example : (SimpleMovingAverage.new 1152921504606846975 : Res (SimpleMovingAverage F)) ≠ .panic :=
  sma_new_no_panic _ (by decide)
example : (MovingAverageConvergenceDivergence.new 12 0 9 : Res (MovingAverageConvergenceDivergence F)) =
    .err .InvalidParameter := (macd_new_err_iff 12 0 9 _).mpr ⟨rfl, .inr (.inl rfl)⟩
example (m : F) : (BollingerBands.new 20 m : Res (BollingerBands F)) = .ok (BollingerBands.fresh 20 m) :=
  bb_new_ok 20 m (by decide) (by decide)

end TaRs.Props.C11
