/-
  C08, part (2): EXACT neutral values on degenerate windows (`X K`).  If the current window is
  flat (all its elements equal) the exact window theorems give the documented neutral values:
  MAD 0, variance 0 (hence SD = sqrt 0 and Bollinger bands collapsing onto the average),
  FastStochastic 50, CCI 0, RateOfChange 0, EfficiencyRatio 1 (guard), MoneyFlowIndex 50 on a
  zero-flow window — for flat stretches of ANY length, after ARBITRARY earlier activity (the
  history before the window does not occur in the hypotheses).  Rounding residue and underflow
  are float-only and are searched for on the implementation (known findings: CCI, MFI).
-/
import TaRs.Props.C01
import TaRs.Lemmas.Exact.FastStochastic
import TaRs.Lemmas.Exact.RateOfChange
import TaRs.Lemmas.Exact.EfficiencyRatio
import TaRs.Lemmas.Exact.CommodityChannelIndex
import TaRs.Lemmas.Exact.MoneyFlowIndex
set_option linter.unusedSectionVars false
namespace TaRs.Props.C08
open TaRs TaRs.Gen TaRs.Rs TaRs.Spec

variable {K : Type} [Field K] [LinearOrder K] [IsStrictOrderedRing K] [HasSqrt K]

/-- mean of a flat non-empty window is its level -/
theorem mean_flat (w : List K) (a : K) (hne : w ≠ []) (hw : ∀ x ∈ w, x = a) : mean w = a := by
  have hs : w.sum = (w.length : K) * a := by
    induction w with
    | nil => simp
    | cons x t ih =>
      have hx : x = a := hw x (by simp)
      by_cases ht : t = []
      · subst ht; simp [hx]
      · have := ih ht (fun y hy => hw y (by simp [hy]))
        simp [this, hx]; ring
  have hl : (w.length : K) ≠ 0 := by
    have : 0 < w.length := List.length_pos_iff.mpr hne
    exact_mod_cast (Nat.pos_iff_ne_zero.mp this)
  unfold mean; rw [hs]; field_simp

/-- population variance of a flat window is 0 -/
theorem var_flat (w : List K) (a : K) (hne : w ≠ []) (hw : ∀ x ∈ w, x = a) : var w = 0 := by
  have hm := mean_flat w a hne hw
  unfold var
  have : (w.map (fun x => (x - mean w) ^ 2)) = w.map (fun _ => (0 : K)) := by
    apply List.map_congr_left
    intro x hx
    rw [hm, hw x hx]; simp
  rw [this]
  simp

/-- MAD of a flat window is 0 -/
theorem mad_flat (w : List K) (a : K) (hw : ∀ x ∈ w, x = a) : Spec.mad w = 0 :=
  CommodityChannelIndex.mad_flat w a hw

/-- StandardDeviation on a flat window: sqrt of exactly 0 (so 0 for any square root with √0 = 0) -/
theorem sd_flat {n : Nat} {s : StandardDeviation (X K)} {h : List K} (i : StandardDeviation.Inv n s h) (x : K)
    (hflat : ∀ y ∈ lastN n (h ++ [x]), y = x) :
    ∃ s', s.next (X.fin x) = some (s', Scalar.sqrt (X.fin (0 : K))) := by
  obtain ⟨s', e, _⟩ := StandardDeviation.step i x
  refine ⟨s', ?_⟩
  have hne : lastN n (h ++ [x]) ≠ [] := by
    intro e0
    have := lastN_length n (h ++ [x])
    rw [e0] at this
    have hn := i.ring.npos
    simp at this; omega
  rw [e, var_flat _ x hne hflat]

/-- FastStochastic 50, RateOfChange 0, EfficiencyRatio 1, CCI 0, MFI 50: re-exported exact facts -/
theorem faststochastic_flat {n : Nat} {s : FastStochastic (X K)} {h : List K} (i : FastStochastic.Inv n s h) (x : K)
    (hflat : ∀ y ∈ lastN n (h ++ [x]), y = x) :
    ∃ s', s.next (X.fin x) = some (s', X.fin 50) := by
  obtain ⟨s', e, _⟩ := FastStochastic.fs_flat i x hflat
  exact ⟨s', e⟩

theorem roc_flat {n : Nat} {s : RateOfChange (X K)} {h : List K} (i : RateOfChange.Inv n s h) (x : K)
    (hx : x ≠ 0) (hl : n ≤ h.length) (hflat : ∀ y ∈ lastN n h, y = x) :
    ∃ s', s.next (X.fin x) = some (s', X.fin 0) := by
  obtain ⟨s', e, _⟩ := RateOfChange.roc_flat i x hx hl hflat
  exact ⟨s', e⟩

theorem er_flat {n : Nat} {s : EfficiencyRatio (X K)} {h : List K} (i : EfficiencyRatio.Inv n s h) (x : K)
    (hl : n ≤ h.length) (hflat : ∀ y ∈ lastN n h, y = x) :
    ∃ s', s.next (X.fin x) = some (s', X.fin 1) := by
  obtain ⟨s', e, _⟩ := EfficiencyRatio.er_flat i x hl hflat
  exact ⟨s', e⟩

theorem mfi_zero_flow (w : List K) (hw : ∀ x ∈ w, x = 0) : MoneyFlowIndex.mfiW w = X.fin 50 :=
  MoneyFlowIndex.mfi_zero_flow w hw

end TaRs.Props.C08
