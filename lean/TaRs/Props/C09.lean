/-
  C09 — sign, ordering and hull facts.

  "For all finite inputs StandardDeviation and MeanAbsoluteDeviation are >= 0 and never NaN,
   TrueRange and AverageTrueRange are >= 0 for bars with low <= high, and Minimum <= Maximum
   over the same stream.  With multiplier >= 0, lower <= average <= upper for BollingerBands and
   KeltnerChannel, ChandelierExit long <= window maximum and short >= window minimum, and MACD
   and PPO histograms equal line − signal.  SMA and WMA lie within [window min, window max] and
   EMA within [history min, history max]."

  Three levels:
  * L2 (exact arithmetic, `X K`, `K` any linearly ordered field): the GENERATED code, run from the
    state `new` builds over ANY finite stream, produces outputs of the form `X.fin v` (so never
    NaN / ±∞) with the stated inequality on `v`.  Built on the window theorems of C01 and the
    stream theorems of C02.  The only facts about the square root used are
    `0 ≤ a → 0 ≤ sqrtK a` (hypothesis `hsq`).
  * L1 (ANY `[Scalar F]`, no field laws, hence also the f64 semantics): `sd_m2_not_negative` — the
    clamp `if self.m2 < 0.0 { self.m2 = 0.0 }`.  In exact arithmetic `m2` is a sum of squares
    and the clamp never fires (`StandardDeviation.Inv.m2_nonneg`), so every L2 theorem stays
    true if the clamp is deleted; THIS theorem does not.
  * L0 (any `[Scalar F]`): MACD / PPO `histogram = line − signal`, from any state, NaN included.

  Not carried by the L2 theorems (sampled by the harness on f64): the same inequalities under
  rounding, overflow and non-finite inputs.
-/
import TaRs.Props.C01
import TaRs.Props.C02
import TaRs.Lemmas.PercentagePriceOscillator
import TaRs.Lemmas.StandardDeviation
set_option linter.unusedSectionVars false
namespace TaRs.Props.C09
open TaRs TaRs.Gen TaRs.Rs TaRs.Spec

variable {K : Type} [Field K] [LinearOrder K] [IsStrictOrderedRing K] [HasSqrt K]

/-! ## helpers -/

private theorem mem_prefixes {α : Type} {xs h : List α} (hh : h ∈ prefixes xs) :
    h ≠ [] ∧ ∃ i, i < xs.length ∧ h = xs.take (i + 1) := by
  simp only [prefixes, List.mem_map, List.mem_range] at hh
  obtain ⟨i, hi, rfl⟩ := hh
  refine ⟨?_, i, hi, rfl⟩
  intro e
  have := congrArg List.length e
  rw [List.length_take, List.length_nil] at this
  omega

private theorem lastN_ne_nil {α : Type} (n : Nat) (hn : 0 < n) (h : List α) (hh : h ≠ []) :
    lastN n h ≠ [] := by
  intro e
  have h1 := lastN_length n h
  rw [e] at h1
  have := List.length_pos_iff.mpr hh
  simp at h1
  omega

/-- a property of every single `next` output holds for every output of a stream -/
private theorem runOut_forall {S I O : Type} (next : S → I → Option (S × O)) (P : O → Prop)
    (hP : ∀ s x r, next s x = some r → P r.2) :
    ∀ (xs : List I) (s s' : S) (outs : List O), runOut next s xs = some (s', outs) → ∀ o ∈ outs, P o := by
  intro xs
  induction xs with
  | nil =>
    intro s s' outs h o ho
    simp [runOut] at h
    rw [h.2] at ho
    simp at ho
  | cons x xs ih =>
    intro s s' outs h o ho
    cases h1 : next s x with
    | none => simp [runOut, h1] at h
    | some r =>
      obtain ⟨s1, y⟩ := r
      rw [runOut_cons next s x xs s1 y h1] at h
      cases h2 : runOut next s1 xs with
      | none => simp [h2] at h
      | some q =>
        obtain ⟨s2, ys⟩ := q
        simp [h2] at h
        rw [← h.2] at ho
        rcases List.mem_cons.mp ho with rfl | ho'
        · exact hP s x _ h1
        · exact ih s1 s2 ys h2 o ho'

/-! ## (a) StandardDeviation and MeanAbsoluteDeviation: finite and non-negative -/

theorem mad_nonneg_list (w : List K) : 0 ≤ mad w := by
  unfold mad
  refine div_nonneg ?_ (Nat.cast_nonneg _)
  generalize mean w = μ
  induction w with
  | nil => simp
  | cons a t ih =>
    simp only [List.map_cons, List.sum_cons]
    exact add_nonneg (abs_nonneg _) ih

/-- every output of the generated StandardDeviation over a finite stream is a FINITE value
    (not NaN, not ±∞) that is `≥ 0`; the only fact about `sqrt` used is `0 ≤ a → 0 ≤ sqrt a` -/
theorem sd_nonneg (hsq : ∀ a : K, 0 ≤ a → 0 ≤ HasSqrt.sqrtK a)
    (n : Nat) (hn : 0 < n) (h8 : n * 8 ≤ isizeMax) (xs : List K) :
    ∃ s0 s' outs, (StandardDeviation.new n : Res (StandardDeviation (X K))) = .ok s0 ∧
      runOut StandardDeviation.next s0 (xs.map X.fin) = some (s', outs) ∧ outs.length = xs.length ∧
      ∀ o ∈ outs, ∃ v : K, o = X.fin v ∧ 0 ≤ v := by
  obtain ⟨s0, s', e0, e⟩ := C01.sd_window n hn h8 xs
  refine ⟨s0, s', _, e0, e, by simp [prefixes_length], ?_⟩
  intro o ho
  obtain ⟨h, _, rfl⟩ := List.mem_map.mp ho
  exact ⟨_, rfl, hsq _ (StandardDeviation.var_nonneg _)⟩

/-- every output of the generated MeanAbsoluteDeviation over a finite stream is finite and `≥ 0` -/
theorem mad_nonneg (n : Nat) (hn : 0 < n) (h8 : n * 8 ≤ isizeMax) (xs : List K) :
    ∃ s0 s' outs, (MeanAbsoluteDeviation.new n : Res (MeanAbsoluteDeviation (X K))) = .ok s0 ∧
      runOut MeanAbsoluteDeviation.next s0 (xs.map X.fin) = some (s', outs) ∧ outs.length = xs.length ∧
      ∀ o ∈ outs, ∃ v : K, o = X.fin v ∧ 0 ≤ v := by
  obtain ⟨s0, s', e0, e⟩ := C01.mad_window n hn h8 xs
  refine ⟨s0, s', _, e0, e, by simp [prefixes_length], ?_⟩
  intro o ho
  obtain ⟨h, _, rfl⟩ := List.mem_map.mp ho
  exact ⟨_, rfl, mad_nonneg_list _⟩

/-! ## (b) L1: the clamp, for ANY scalar type -/

section clamp
variable {F : Type} [Scalar F]

theorem sd_m2_not_negative (hirr : Scalar.lt (Scalar.lit 0 0 : F) (Scalar.lit 0 0) = false)
    (s : StandardDeviation F) (x : F) (r : StandardDeviation F × F) (h : s.next x = some r) :
    Scalar.lt r.1.m2 (Scalar.lit 0 0 : F) = false :=
  StandardDeviation.next_m2_not_negative hirr s x r h

/-- …and the value returned is computed from that clamped accumulator -/
theorem sd_out_eq (s : StandardDeviation F) (x : F) (r : StandardDeviation F × F) (h : s.next x = some r) :
    r.2 = Scalar.sqrt (Scalar.div r.1.m2 (Scalar.ofNat r.1.count : F)) :=
  StandardDeviation.next_out_eq s x r h

/-- the clamp over whole streams: after ANY sequence of inputs (finite or not, any scalar
    type) from ANY state, if no call panicked then the accumulator is not `< 0` -/
theorem sd_m2_not_negative_stream (hirr : Scalar.lt (Scalar.lit 0 0 : F) (Scalar.lit 0 0) = false)
    (s : StandardDeviation F) (x : F) (xs : List F) (s' : StandardDeviation F) (outs : List F)
    (h : runOut StandardDeviation.next s (x :: xs) = some (s', outs)) :
    Scalar.lt s'.m2 (Scalar.lit 0 0 : F) = false := by
  induction xs generalizing s x outs with
  | nil =>
    cases h1 : s.next x with
    | none => simp [runOut, h1] at h
    | some r =>
      simp [runOut, h1] at h
      rw [← h.1]
      exact sd_m2_not_negative hirr s x r h1
  | cons y ys ih =>
    cases h1 : s.next x with
    | none => simp [runOut, h1] at h
    | some r =>
      obtain ⟨s1, o⟩ := r
      rw [runOut_cons _ s x (y :: ys) s1 o h1] at h
      cases h2 : runOut StandardDeviation.next s1 (y :: ys) with
      | none => simp [h2] at h
      | some q =>
        obtain ⟨s2, os⟩ := q
        simp [h2] at h
        obtain ⟨rfl, -⟩ := h
        exact ih s1 y os h2

/-! ## (c) MACD / PPO: histogram = line − signal (L0, any scalar, any state, NaN included) -/

theorem macd_histogram (s : MovingAverageConvergenceDivergence F) (x : F)
    (r : MovingAverageConvergenceDivergence F × MovingAverageConvergenceDivergenceOutput F)
    (h : s.next x = some r) : r.2.histogram = Scalar.sub r.2.macd r.2.signal := by
  rw [MovingAverageConvergenceDivergence.next_eq] at h
  cases h
  rfl

theorem ppo_histogram (s : PercentagePriceOscillator F) (x : F)
    (r : PercentagePriceOscillator F × PercentagePriceOscillatorOutput F)
    (h : s.next x = some r) : r.2.histogram = Scalar.sub r.2.ppo r.2.signal := by
  rw [PercentagePriceOscillator.next_eq] at h
  cases h
  rfl

/-- over whole streams, from any state -/
theorem macd_histogram_stream (s s' : MovingAverageConvergenceDivergence F) (xs : List F)
    (outs : List (MovingAverageConvergenceDivergenceOutput F))
    (h : runOut MovingAverageConvergenceDivergence.next s xs = some (s', outs)) :
    ∀ o ∈ outs, o.histogram = Scalar.sub o.macd o.signal :=
  runOut_forall _ (fun o => o.histogram = Scalar.sub o.macd o.signal)
    (fun s x r hr => macd_histogram s x r hr) xs s s' outs h

theorem ppo_histogram_stream (s s' : PercentagePriceOscillator F) (xs : List F)
    (outs : List (PercentagePriceOscillatorOutput F))
    (h : runOut PercentagePriceOscillator.next s xs = some (s', outs)) :
    ∀ o ∈ outs, o.histogram = Scalar.sub o.ppo o.signal :=
  runOut_forall _ (fun o => o.histogram = Scalar.sub o.ppo o.signal)
    (fun s x r hr => ppo_histogram s x r hr) xs s s' outs h

end clamp

/-- the hypothesis of the clamp theorems holds at `X K` (and, `0.0 < 0.0` being false, at f64) -/
theorem hirr_X : Scalar.lt (Scalar.lit 0 0 : X K) (Scalar.lit 0 0) = false := by simp

/-! ## (d) BollingerBands: lower ≤ average ≤ upper -/

/-- with a non-negative multiplier every output over a finite stream consists of three FINITE
    values with `lower ≤ average ≤ upper` (only `0 ≤ a → 0 ≤ sqrt a` is used) -/
theorem bb_bands_ordered (hsq : ∀ a : K, 0 ≤ a → 0 ≤ HasSqrt.sqrtK a)
    (n : Nat) (hn : 0 < n) (h8 : n * 8 ≤ isizeMax) (m : K) (hm : 0 ≤ m) (xs : List K) :
    ∃ s0 s' outs, (BollingerBands.new n (X.fin m) : Res (BollingerBands (X K))) = .ok s0 ∧
      runOut BollingerBands.next s0 (xs.map X.fin) = some (s', outs) ∧ outs.length = xs.length ∧
      ∀ o ∈ outs, ∃ a u l : K,
        o = ({ average := X.fin a, upper := X.fin u, lower := X.fin l } : BollingerBandsOutput (X K)) ∧
        l ≤ a ∧ a ≤ u := by
  obtain ⟨s0, s', e0, e⟩ := C01.bb_window n hn h8 m xs
  refine ⟨s0, s', _, e0, e, by simp [prefixes_length], ?_⟩
  intro o ho
  obtain ⟨h, _, rfl⟩ := List.mem_map.mp ho
  have hp : 0 ≤ HasSqrt.sqrtK (var (lastN n h)) * m :=
    mul_nonneg (hsq _ (StandardDeviation.var_nonneg _)) hm
  exact ⟨_, _, _, rfl, by linarith, by linarith⟩

/-! ## (e) SMA and WMA lie in the hull of the window -/

private theorem sum_bounds (w : List K) (lo hi : K) (h : ∀ y ∈ w, lo ≤ y ∧ y ≤ hi) :
    (w.length : K) * lo ≤ w.sum ∧ w.sum ≤ (w.length : K) * hi := by
  induction w with
  | nil => simp
  | cons a t ih =>
    have ha := h a (by simp)
    have ih' := ih (fun y hy => h y (by simp [hy]))
    simp only [List.length_cons, List.sum_cons]
    push_cast
    constructor <;> linarith [ha.1, ha.2, ih'.1, ih'.2]

/-- the mean of a non-empty list lies between any bounds of its elements -/
theorem mean_mem_hull (w : List K) (hw : w ≠ []) (lo hi : K) (h : ∀ y ∈ w, lo ≤ y ∧ y ≤ hi) :
    lo ≤ mean w ∧ mean w ≤ hi := by
  have hk : (0 : K) < (w.length : K) := by exact_mod_cast List.length_pos_iff.mpr hw
  obtain ⟨h1, h2⟩ := sum_bounds w lo hi h
  unfold mean
  exact ⟨by rw [le_div_iff₀ hk]; linarith, by rw [div_le_iff₀ hk]; linarith⟩

private theorem wsum_bounds (w : List K) (lo hi : K) (h : ∀ y ∈ w, lo ≤ y ∧ y ≤ hi) :
    ((w.length : K) * ((w.length : K) + 1) / 2) * lo ≤ wsum w
      ∧ wsum w ≤ ((w.length : K) * ((w.length : K) + 1) / 2) * hi := by
  induction w using List.reverseRecOn with
  | nil => simp [wsum]
  | append_singleton t a ih =>
    have ha := h a (by simp)
    have ih' := ih (fun y hy => h y (by simp [hy]))
    rw [WeightedMovingAverage.wsum_append_one]
    simp only [List.length_append, List.length_singleton]
    push_cast
    have hk : (0 : K) ≤ (t.length : K) + 1 := by positivity
    have p1 := mul_le_mul_of_nonneg_right ha.1 hk
    have p2 := mul_le_mul_of_nonneg_right ha.2 hk
    constructor <;> linarith [p1, p2, ih'.1, ih'.2]

/-- the linearly weighted mean (positive weights 1..k) of a non-empty list lies between any
    bounds of its elements -/
theorem wma_mem_hull (w : List K) (hw : w ≠ []) (lo hi : K) (h : ∀ y ∈ w, lo ≤ y ∧ y ≤ hi) :
    lo ≤ wma w ∧ wma w ≤ hi := by
  have hk : (0 : K) < (w.length : K) := by exact_mod_cast List.length_pos_iff.mpr hw
  have ht : (0 : K) < (w.length : K) * ((w.length : K) + 1) / 2 := by positivity
  obtain ⟨h1, h2⟩ := wsum_bounds w lo hi h
  unfold wma
  exact ⟨by rw [le_div_iff₀ ht]; linarith, by rw [div_le_iff₀ ht]; linarith⟩

/-- SMA: every output over a finite stream is a finite value inside `[lo, hi]` for ANY bounds
    `lo, hi` of the current window `lastN n prefix` (in particular window min and window max) -/
theorem sma_in_hull (n : Nat) (hn : 0 < n) (h8 : n * 8 ≤ isizeMax) (xs : List K) :
    ∃ s0 s' outs, (SimpleMovingAverage.new n : Res (SimpleMovingAverage (X K))) = .ok s0 ∧
      runOut SimpleMovingAverage.next s0 (xs.map X.fin) = some (s', outs) ∧ outs.length = xs.length ∧
      ∀ i, i < xs.length → ∃ v : K, outs[i]? = some (X.fin v) ∧ lastN n (xs.take (i + 1)) ≠ [] ∧
        ∀ lo hi, (∀ y ∈ lastN n (xs.take (i + 1)), lo ≤ y ∧ y ≤ hi) → lo ≤ v ∧ v ≤ hi := by
  obtain ⟨s0, s', e0, e⟩ := C01.sma_window n hn h8 xs
  refine ⟨s0, s', _, e0, e, by simp [prefixes_length], ?_⟩
  intro i hi
  have hne : lastN n (xs.take (i + 1)) ≠ [] := by
    apply lastN_ne_nil n hn
    intro e
    have := congrArg List.length e
    rw [List.length_take, List.length_nil] at this
    omega
  refine ⟨mean (lastN n (xs.take (i + 1))), ?_, hne, fun lo hi' hb => mean_mem_hull _ hne lo hi' hb⟩
  simp [prefixes, hi]

/-- WMA: the same statement -/
theorem wma_in_hull (n : Nat) (hn : 0 < n) (h8 : n * 8 ≤ isizeMax) (xs : List K) :
    ∃ s0 s' outs, (WeightedMovingAverage.new n : Res (WeightedMovingAverage (X K))) = .ok s0 ∧
      runOut WeightedMovingAverage.next s0 (xs.map X.fin) = some (s', outs) ∧ outs.length = xs.length ∧
      ∀ i, i < xs.length → ∃ v : K, outs[i]? = some (X.fin v) ∧ lastN n (xs.take (i + 1)) ≠ [] ∧
        ∀ lo hi, (∀ y ∈ lastN n (xs.take (i + 1)), lo ≤ y ∧ y ≤ hi) → lo ≤ v ∧ v ≤ hi := by
  obtain ⟨s0, s', e0, e⟩ := C01.wma_window n hn h8 xs
  refine ⟨s0, s', _, e0, e, by simp [prefixes_length], ?_⟩
  intro i hi
  have hne : lastN n (xs.take (i + 1)) ≠ [] := by
    apply lastN_ne_nil n hn
    intro e
    have := congrArg List.length e
    rw [List.length_take, List.length_nil] at this
    omega
  refine ⟨wma (lastN n (xs.take (i + 1))), ?_, hne, fun lo hi' hb => wma_mem_hull _ hne lo hi' hb⟩
  simp [prefixes, hi]

/-! ## (f) Minimum ≤ Maximum over the same stream -/

theorem min_le_max (n : Nat) (hn : 0 < n) (h8 : n * 8 ≤ isizeMax) (xs : List K) :
    ∃ a0 a' mins b0 b' maxs,
      (Minimum.new n : Res (Minimum (X K))) = .ok a0 ∧
      (Maximum.new n : Res (Maximum (X K))) = .ok b0 ∧
      runOut Minimum.next a0 (xs.map X.fin) = some (a', mins) ∧
      runOut Maximum.next b0 (xs.map X.fin) = some (b', maxs) ∧
      mins.length = xs.length ∧ maxs.length = xs.length ∧
      ∀ i, i < xs.length → ∃ lo hi : K,
        mins[i]? = some (X.fin lo) ∧ maxs[i]? = some (X.fin hi) ∧ lo ≤ hi := by
  obtain ⟨a0, a', mins, ea0, ea, la, ha⟩ := C01.minimum_window n hn h8 xs
  obtain ⟨b0, b', maxs, eb0, eb, lb, hb⟩ := C01.maximum_window n hn h8 xs
  refine ⟨a0, a', mins, b0, b', maxs, ea0, eb0, ea, eb, la, lb, ?_⟩
  intro i hi
  obtain ⟨lo, e1, m1, _⟩ := ha i hi
  obtain ⟨hi', e2, _, b2⟩ := hb i hi
  exact ⟨lo, hi', e1, e2, b2 lo m1⟩

/-! ## (g) TrueRange, AverageTrueRange, EMA, KeltnerChannel, ChandelierExit -/

/-- a bar whose high, low and close are finite with `low ≤ high` (open and volume are never
    read by the indicators below) -/
def FinBar (b : Bar (X K)) : Prop :=
  ∃ h l c : K, b.high = X.fin h ∧ b.low = X.fin l ∧ b.close = X.fin c ∧ l ≤ h

/-- TrueRange of a bar with finite `low ≤ high` after a finite (or no) previous close is a
    finite value `≥ 0` -/
theorem tr_nonneg (s : TrueRange (X K)) (b : Bar (X K)) (h l : K)
    (hh : b.high = X.fin h) (hl : b.low = X.fin l) (hle : l ≤ h)
    (hs : s.prev_close = none ∨ ∃ pc : K, s.prev_close = some (X.fin pc)) :
    ∃ v : K, TrueRange.outBar s b = X.fin v ∧ 0 ≤ v := by
  rcases hs with e | ⟨pc, e⟩
  · exact ⟨h - l, by simp [TrueRange.outBar, e, hh, hl], sub_nonneg.mpr hle⟩
  · exact ⟨Max.max (Max.max (h - l) |h - pc|) |l - pc|, by simp [TrueRange.outBar, e, hh, hl],
      le_max_of_le_left (le_max_of_le_left (sub_nonneg.mpr hle))⟩

/-- scalar path: `|x − previous x|` (0 first) is finite and `≥ 0` for finite inputs -/
theorem tr_scalar_nonneg (s : TrueRange (X K)) (x : K)
    (hs : s.prev_close = none ∨ ∃ pc : K, s.prev_close = some (X.fin pc)) :
    ∃ v : K, TrueRange.out s (X.fin x) = X.fin v ∧ 0 ≤ v := by
  rcases hs with e | ⟨pc, e⟩
  · exact ⟨0, by simp [TrueRange.out, e], le_refl _⟩
  · exact ⟨|x - pc|, by simp [TrueRange.out, e], abs_nonneg _⟩

/-- the smoothing factor at `X K` is the finite value `2/(n+1)` -/
theorem alpha_fin (n : Nat) : (C02.alpha n : X K) = X.fin (2 / ((n : K) + 1)) := by
  have h1 : ((n : K) + 1) ≠ 0 := by positivity
  unfold C02.alpha
  simp [X.div_fin _ _ h1]

/-- … and lies in `(0, 1]` for every period the constructor accepts -/
theorem alpha_range (n : Nat) (hn : 0 < n) : (0 : K) < 2 / ((n : K) + 1) ∧ 2 / ((n : K) + 1) ≤ 1 := by
  have h1 : (0 : K) < (n : K) + 1 := by positivity
  have h2 : (1 : K) ≤ (n : K) := by exact_mod_cast hn
  exact ⟨by positivity, by rw [div_le_one h1]; linarith⟩

private theorem emaFrom_closed (P : K → Prop) (α : K)
    (hP : ∀ x y, P x → P y → P (α * x + (1 - α) * y)) (L : List (X K))
    (hL : ∀ o ∈ L, ∃ v, o = X.fin v ∧ P v) (prev : K) (hp : P prev) :
    ∀ o ∈ C02.emaFrom (X.fin α) (X.fin prev) L, ∃ v, o = X.fin v ∧ P v := by
  induction L generalizing prev with
  | nil => intro o ho; simp [C02.emaFrom] at ho
  | cons a t ih =>
    obtain ⟨x, rfl, hx⟩ := hL a (by simp)
    have e : Scalar.add (Scalar.mul (X.fin α) (X.fin x))
        (Scalar.mul (Scalar.sub (Scalar.lit 1 0) (X.fin α)) (X.fin prev))
          = X.fin (α * x + (1 - α) * prev) := by simp
    intro o ho
    simp only [C02.emaFrom, e, List.mem_cons] at ho
    rcases ho with rfl | ho
    · exact ⟨_, rfl, hP _ _ hx hp⟩
    · exact ih (fun o ho => hL o (by simp [ho])) _ (hP _ _ hx hp) o ho

/-- a set of finite values closed under `(x, y) ↦ α·x + (1−α)·y` that contains every input
    contains every EMA output -/
private theorem emaSeq_closed (P : K → Prop) (α : K)
    (hP : ∀ x y, P x → P y → P (α * x + (1 - α) * y)) (L : List (X K))
    (hL : ∀ o ∈ L, ∃ v, o = X.fin v ∧ P v) :
    ∀ o ∈ C02.emaSeq (X.fin α) L, ∃ v, o = X.fin v ∧ P v := by
  cases L with
  | nil => intro o ho; simp [C02.emaSeq] at ho
  | cons a t =>
    obtain ⟨x, rfl, hx⟩ := hL a (by simp)
    intro o ho
    simp only [C02.emaSeq, List.mem_cons] at ho
    rcases ho with rfl | ho
    · exact ⟨_, rfl, hx⟩
    · exact emaFrom_closed P α hP t (fun o ho => hL o (by simp [ho])) x hx o ho

private theorem convex_nonneg (α : K) (h0 : 0 ≤ α) (h1 : α ≤ 1) (x y : K) (hx : 0 ≤ x) (hy : 0 ≤ y) :
    0 ≤ α * x + (1 - α) * y :=
  add_nonneg (mul_nonneg h0 hx) (mul_nonneg (by linarith) hy)

private theorem convex_hull (α : K) (h0 : 0 ≤ α) (h1 : α ≤ 1) (lo hi x y : K)
    (hx : lo ≤ x ∧ x ≤ hi) (hy : lo ≤ y ∧ y ≤ hi) :
    lo ≤ α * x + (1 - α) * y ∧ α * x + (1 - α) * y ≤ hi := by
  have h2 : 0 ≤ 1 - α := by linarith
  have a1 := mul_le_mul_of_nonneg_left hx.1 h0
  have a2 := mul_le_mul_of_nonneg_left hx.2 h0
  have b1 := mul_le_mul_of_nonneg_left hy.1 h2
  have b2 := mul_le_mul_of_nonneg_left hy.2 h2
  constructor <;> linarith

private theorem trBarFrom_nonneg (bs : List (Bar (X K))) (hb : ∀ b ∈ bs, FinBar b) (pc : K) :
    ∀ o ∈ C02.trBarFrom (X.fin pc) bs, ∃ v : K, o = X.fin v ∧ 0 ≤ v := by
  induction bs generalizing pc with
  | nil => intro o ho; simp [C02.trBarFrom] at ho
  | cons b t ih =>
    obtain ⟨h, l, c, hh, hl, hc, hle⟩ := hb b (by simp)
    intro o ho
    simp only [C02.trBarFrom, List.mem_cons] at ho
    rcases ho with rfl | ho
    · exact tr_nonneg { prev_close := some (X.fin pc) } b h l hh hl hle (Or.inr ⟨pc, rfl⟩)
    · rw [hc] at ho
      exact ih (fun b hb' => hb b (by simp [hb'])) c o ho

/-- every bar TrueRange over a stream of finite bars with `low ≤ high` is finite and `≥ 0` -/
theorem trBarSeq_nonneg (bs : List (Bar (X K))) (hb : ∀ b ∈ bs, FinBar b) :
    ∀ o ∈ (C02.trBarSeq bs : List (X K)), ∃ v : K, o = X.fin v ∧ 0 ≤ v := by
  cases bs with
  | nil => intro o ho; simp [C02.trBarSeq] at ho
  | cons b t =>
    obtain ⟨h, l, c, hh, hl, hc, hle⟩ := hb b (by simp)
    intro o ho
    simp only [C02.trBarSeq, List.mem_cons] at ho
    rcases ho with rfl | ho
    · exact tr_nonneg { prev_close := none } b h l hh hl hle (Or.inl rfl)
    · rw [hc] at ho
      exact trBarFrom_nonneg t (fun b hb' => hb b (by simp [hb'])) c o ho

/-- TrueRange over a whole stream of bars with finite `low ≤ high`: finite and `≥ 0` -/
theorem tr_stream_nonneg (bs : List (Bar (X K))) (hb : ∀ b ∈ bs, FinBar b) :
    ∃ s' outs, runOut TrueRange.nextBar (TrueRange.new : TrueRange (X K)) bs = some (s', outs) ∧
      outs.length = bs.length ∧ ∀ o ∈ outs, ∃ v : K, o = X.fin v ∧ 0 ≤ v := by
  obtain ⟨s', e⟩ := C02.tr_bar_stream (F := X K) bs
  exact ⟨s', _, e, C02.trBarSeq_length bs, trBarSeq_nonneg bs hb⟩

private theorem trFrom_nonneg (xs : List K) (p : K) :
    ∀ o ∈ C02.trFrom (X.fin p) (xs.map X.fin), ∃ v : K, o = X.fin v ∧ 0 ≤ v := by
  induction xs generalizing p with
  | nil => intro o ho; simp [C02.trFrom] at ho
  | cons x t ih =>
    intro o ho
    simp only [List.map_cons, C02.trFrom, List.mem_cons] at ho
    rcases ho with rfl | ho
    · exact ⟨|x - p|, by simp, abs_nonneg _⟩
    · exact ih x o ho

/-- every scalar TrueRange over a finite stream is finite and `≥ 0` -/
theorem trSeq_nonneg (xs : List K) :
    ∀ o ∈ (C02.trSeq (xs.map X.fin) : List (X K)), ∃ v : K, o = X.fin v ∧ 0 ≤ v := by
  cases xs with
  | nil => intro o ho; simp [C02.trSeq] at ho
  | cons x t =>
    intro o ho
    simp only [List.map_cons, C02.trSeq, List.mem_cons] at ho
    rcases ho with rfl | ho
    · exact ⟨0, by simp, le_refl _⟩
    · exact trFrom_nonneg t x o ho

/-- AverageTrueRange over bars with finite `low ≤ high`: every output is finite and `≥ 0`
    (EMA with `α = 2/(n+1) ∈ (0, 1]` of non-negative values) -/
theorem atr_nonneg (n : Nat) (hn : 0 < n) (bs : List (Bar (X K))) (hb : ∀ b ∈ bs, FinBar b) :
    ∃ s0 s' outs, (AverageTrueRange.new n : Res (AverageTrueRange (X K))) = .ok s0 ∧
      runOut AverageTrueRange.nextBar s0 bs = some (s', outs) ∧ outs.length = bs.length ∧
      ∀ o ∈ outs, ∃ v : K, o = X.fin v ∧ 0 ≤ v := by
  obtain ⟨s', e⟩ := C02.atr_bar_stream (F := X K) n bs
  obtain ⟨a0, a1⟩ := alpha_range (K := K) n hn
  refine ⟨_, s', _, by rw [AverageTrueRange.new_eq]; simp [Nat.ne_of_gt hn], e,
    by rw [C02.emaSeq_length, C02.trBarSeq_length], ?_⟩
  rw [alpha_fin]
  exact emaSeq_closed (fun v => 0 ≤ v) _ (fun x y hx hy => convex_nonneg _ (le_of_lt a0) a1 x y hx hy)
    _ (trBarSeq_nonneg bs hb)

/-- AverageTrueRange over a finite scalar stream: every output is finite and `≥ 0` -/
theorem atr_scalar_nonneg (n : Nat) (hn : 0 < n) (xs : List K) :
    ∃ s0 s' outs, (AverageTrueRange.new n : Res (AverageTrueRange (X K))) = .ok s0 ∧
      runOut AverageTrueRange.next s0 (xs.map X.fin) = some (s', outs) ∧ outs.length = xs.length ∧
      ∀ o ∈ outs, ∃ v : K, o = X.fin v ∧ 0 ≤ v := by
  obtain ⟨s', e⟩ := C02.atr_stream (F := X K) n (xs.map X.fin)
  obtain ⟨a0, a1⟩ := alpha_range (K := K) n hn
  refine ⟨_, s', _, by rw [AverageTrueRange.new_eq]; simp [Nat.ne_of_gt hn], e,
    by rw [C02.emaSeq_length, C02.trSeq_length, List.length_map], ?_⟩
  rw [alpha_fin]
  exact emaSeq_closed (fun v => 0 ≤ v) _ (fun x y hx hy => convex_nonneg _ (le_of_lt a0) a1 x y hx hy)
    _ (trSeq_nonneg xs)

/-! ### EMA lies in the hull of its history -/

private theorem emaFrom_take {F : Type} [Scalar F] (k p : F) (xs : List F) (j : Nat) :
    (C02.emaFrom k p xs).take j = C02.emaFrom k p (xs.take j) := by
  induction xs generalizing p j with
  | nil => simp [C02.emaFrom]
  | cons x t ih =>
    cases j with
    | zero => simp [C02.emaFrom]
    | succ j => simp [C02.emaFrom, ih]

private theorem emaSeq_take {F : Type} [Scalar F] (k : F) (xs : List F) (j : Nat) :
    (C02.emaSeq k xs).take j = C02.emaSeq k (xs.take j) := by
  cases xs with
  | nil => simp [C02.emaSeq]
  | cons x t =>
    cases j with
    | zero => simp [C02.emaSeq]
    | succ j => simp [C02.emaSeq, emaFrom_take]

/-- EMA over a finite stream: every output is a finite value inside `[lo, hi]` for ANY bounds
    `lo, hi` of the inputs seen so far (in particular history min and history max) -/
theorem ema_in_hull (n : Nat) (hn : 0 < n) (xs : List K) :
    ∃ s0 s' outs, (ExponentialMovingAverage.new n : Res (ExponentialMovingAverage (X K))) = .ok s0 ∧
      runOut ExponentialMovingAverage.next s0 (xs.map X.fin) = some (s', outs) ∧ outs.length = xs.length ∧
      ∀ i, i < xs.length → ∃ v : K, outs[i]? = some (X.fin v) ∧
        ∀ lo hi, (∀ y ∈ xs.take (i + 1), lo ≤ y ∧ y ≤ hi) → lo ≤ v ∧ v ≤ hi := by
  obtain ⟨s', e⟩ := C02.ema_stream (F := X K) n (xs.map X.fin)
  obtain ⟨a0, a1⟩ := alpha_range (K := K) n hn
  have hlen : (C02.emaSeq (C02.alpha n) (xs.map X.fin)).length = xs.length := by
    rw [C02.emaSeq_length, List.length_map]
  refine ⟨_, s', _, by rw [ExponentialMovingAverage.new_eq]; simp [Nat.ne_of_gt hn], e, hlen, ?_⟩
  intro i hi
  have hi' : i < (C02.emaSeq (C02.alpha n) (xs.map X.fin)).length := by omega
  have hmem : (C02.emaSeq (C02.alpha n) (xs.map X.fin))[i]
      ∈ C02.emaSeq (X.fin (2 / ((n : K) + 1))) ((xs.take (i + 1)).map X.fin) := by
    rw [← alpha_fin, List.map_take, ← emaSeq_take]
    have hi2 : i < ((C02.emaSeq (C02.alpha n) (xs.map X.fin)).take (i + 1)).length := by
      rw [List.length_take]; omega
    have := List.getElem_mem hi2
    rwa [List.getElem_take] at this
  obtain ⟨v, hv, -⟩ := emaSeq_closed (fun _ => True) _ (fun _ _ _ _ => trivial) _
    (fun o ho => by
      obtain ⟨y, _, rfl⟩ := List.mem_map.mp ho
      exact ⟨y, rfl, trivial⟩) _ hmem
  refine ⟨v, by rw [List.getElem?_eq_getElem hi', hv], ?_⟩
  intro lo hi'' hb
  obtain ⟨v', hv', hP⟩ := emaSeq_closed (fun v => lo ≤ v ∧ v ≤ hi'') _
    (fun x y hx hy => convex_hull _ (le_of_lt a0) a1 lo hi'' x y hx hy) _
    (fun o ho => by
      obtain ⟨y, hy, rfl⟩ := List.mem_map.mp ho
      exact ⟨y, rfl, hb y hy⟩) _ hmem
  rw [hv] at hv'
  cases hv'
  exact hP

/-! ### KeltnerChannel: lower ≤ average ≤ upper -/

private theorem mem_zipWith {α β γ : Type} (f : α → β → γ) (A : List α) (B : List β) (o : γ)
    (h : o ∈ List.zipWith f A B) : ∃ a ∈ A, ∃ b ∈ B, o = f a b := by
  induction A generalizing B with
  | nil => simp at h
  | cons a t ih =>
    cases B with
    | nil => simp at h
    | cons b u =>
      simp only [List.zipWith_cons_cons, List.mem_cons] at h
      rcases h with rfl | h
      · exact ⟨a, by simp, b, by simp, rfl⟩
      · obtain ⟨a', ha, b', hb, e⟩ := ih u h
        exact ⟨a', by simp [ha], b', by simp [hb], e⟩

private theorem kc_out_ordered (m : K) (hm : 0 ≤ m) (a r : K) (hr : 0 ≤ r) :
    ∃ av u l : K,
      ({ average := X.fin a, upper := Scalar.add (X.fin a) (Scalar.mul (X.fin r) (X.fin m)),
         lower := Scalar.sub (X.fin a) (Scalar.mul (X.fin r) (X.fin m)) } : KeltnerChannelOutput (X K))
        = { average := X.fin av, upper := X.fin u, lower := X.fin l } ∧ l ≤ av ∧ av ≤ u := by
  have hp : 0 ≤ r * m := mul_nonneg hr hm
  exact ⟨a, a + r * m, a - r * m, by simp, by linarith, by linarith⟩

/-- KeltnerChannel, scalar path, multiplier `≥ 0`, finite inputs: three finite values with
    `lower ≤ average ≤ upper` -/
theorem kc_bands_ordered (n : Nat) (hn : 0 < n) (m : K) (hm : 0 ≤ m) (xs : List K) :
    ∃ s0 s' outs, (KeltnerChannel.new n (X.fin m) : Res (KeltnerChannel (X K))) = .ok s0 ∧
      runOut KeltnerChannel.next s0 (xs.map X.fin) = some (s', outs) ∧ outs.length = xs.length ∧
      ∀ o ∈ outs, ∃ a u l : K,
        o = ({ average := X.fin a, upper := X.fin u, lower := X.fin l } : KeltnerChannelOutput (X K)) ∧
        l ≤ a ∧ a ≤ u := by
  obtain ⟨s', e⟩ := C02.kc_stream (F := X K) n (X.fin m) (xs.map X.fin)
  obtain ⟨a0, a1⟩ := alpha_range (K := K) n hn
  refine ⟨_, s', _, by rw [KeltnerChannel.new_eq]; simp [Nat.ne_of_gt hn], e,
    by simp [C02.emaSeq_length, C02.trSeq_length], ?_⟩
  intro o ho
  obtain ⟨a, ha, r, hr, rfl⟩ := mem_zipWith _ _ _ _ ho
  rw [alpha_fin] at ha hr
  obtain ⟨av, rfl, -⟩ := emaSeq_closed (fun _ => True) _ (fun _ _ _ _ => trivial) _
    (fun o ho => by
      obtain ⟨y, _, rfl⟩ := List.mem_map.mp ho
      exact ⟨y, rfl, trivial⟩) a ha
  obtain ⟨rv, rfl, hr0⟩ := emaSeq_closed (fun v => 0 ≤ v) _
    (fun x y hx hy => convex_nonneg _ (le_of_lt a0) a1 x y hx hy) _ (trSeq_nonneg xs) r hr
  exact kc_out_ordered m hm av rv hr0

/-- KeltnerChannel, bar path (EMA of the typical price ± ATR·m), bars with finite `low ≤ high` -/
theorem kc_bar_bands_ordered (n : Nat) (hn : 0 < n) (m : K) (hm : 0 ≤ m)
    (bs : List (Bar (X K))) (hb : ∀ b ∈ bs, FinBar b) :
    ∃ s0 s' outs, (KeltnerChannel.new n (X.fin m) : Res (KeltnerChannel (X K))) = .ok s0 ∧
      runOut KeltnerChannel.nextBar s0 bs = some (s', outs) ∧ outs.length = bs.length ∧
      ∀ o ∈ outs, ∃ a u l : K,
        o = ({ average := X.fin a, upper := X.fin u, lower := X.fin l } : KeltnerChannelOutput (X K)) ∧
        l ≤ a ∧ a ≤ u := by
  obtain ⟨s', e⟩ := C02.kc_bar_stream (F := X K) n (X.fin m) bs
  obtain ⟨a0, a1⟩ := alpha_range (K := K) n hn
  refine ⟨_, s', _, by rw [KeltnerChannel.new_eq]; simp [Nat.ne_of_gt hn], e,
    by simp [C02.emaSeq_length, C02.trBarSeq_length], ?_⟩
  intro o ho
  obtain ⟨a, ha, r, hr, rfl⟩ := mem_zipWith _ _ _ _ ho
  rw [alpha_fin] at ha hr
  obtain ⟨av, rfl, -⟩ := emaSeq_closed (fun _ => True) _ (fun _ _ _ _ => trivial) _
    (fun o ho => by
      obtain ⟨b, hbm, rfl⟩ := List.mem_map.mp ho
      obtain ⟨h, l, c, hh, hl, hc, -⟩ := hb b hbm
      have h3 : ((3 : K)) ≠ 0 := by norm_num
      exact ⟨(c + h + l) / 3, by simp [C02.typical, hh, hl, hc, X.div_fin _ _ h3], trivial⟩) a ha
  obtain ⟨rv, rfl, hr0⟩ := emaSeq_closed (fun v => 0 ≤ v) _
    (fun x y hx hy => convex_nonneg _ (le_of_lt a0) a1 x y hx hy) _ (trBarSeq_nonneg bs hb) r hr
  exact kc_out_ordered m hm av rv hr0

/-! ### ChandelierExit: long ≤ window maximum, short ≥ window minimum -/

private theorem zipWith3_getElem? {α β γ δ : Type} (f : α → β → γ → δ) (A : List α) (B : List β)
    (C : List γ) (i : Nat) (a : α) (b : β) (c : γ)
    (ha : A[i]? = some a) (hb : B[i]? = some b) (hc : C[i]? = some c) :
    (C02.zipWith3 f A B C)[i]? = some (f a b c) := by
  induction A generalizing B C i with
  | nil => simp at ha
  | cons a' A ih =>
    cases B with
    | nil => simp at hb
    | cons b' B =>
      cases C with
      | nil => simp at hc
      | cons c' C =>
        cases i with
        | zero =>
          simp only [List.getElem?_cons_zero, Option.some.injEq] at ha hb hc
          subst ha hb hc
          simp [C02.zipWith3]
        | succ i =>
          simp only [List.getElem?_cons_succ] at ha hb hc
          simp only [C02.zipWith3, List.getElem?_cons_succ]
          exact ih B C i ha hb hc

private theorem zipWith3_length {α β γ δ : Type} (f : α → β → γ → δ) (A : List α) (B : List β)
    (C : List γ) (k : Nat) (ha : A.length = k) (hb : B.length = k) (hc : C.length = k) :
    (C02.zipWith3 f A B C).length = k := by
  induction A generalizing B C k with
  | nil => simpa [C02.zipWith3] using ha
  | cons a' A ih =>
    cases B with
    | nil => simp at hb; subst hb; simp at ha
    | cons b' B =>
      cases C with
      | nil => simp at hc; subst hc; simp at ha
      | cons c' C =>
        cases k with
        | zero => simp at ha
        | succ k =>
          simp only [List.length_cons, Nat.add_right_cancel_iff] at ha hb hc
          simp [C02.zipWith3, ih B C k ha hb hc]

private theorem exists_fin_list (L : List (X K)) (h : ∀ o ∈ L, ∃ v : K, o = X.fin v) :
    ∃ vs : List K, L = vs.map X.fin := by
  induction L with
  | nil => exact ⟨[], rfl⟩
  | cons a t ih =>
    obtain ⟨v, rfl⟩ := h a (by simp)
    obtain ⟨vs, rfl⟩ := ih (fun o ho => h o (by simp [ho]))
    exact ⟨v :: vs, rfl⟩

private theorem runOut_comap {S I J O : Type} (nb : S → I → Option (S × O)) (nx : S → J → Option (S × O))
    (g : I → J) (hf : ∀ s b, nb s b = nx s (g b)) (s : S) (bs : List I) :
    runOut nb s bs = runOut nx s (bs.map g) := by
  induction bs generalizing s with
  | nil => rfl
  | cons b t ih =>
    simp only [List.map_cons, runOut, hf]
    cases nx s (g b) with
    | none => rfl
    | some r => simp only [ih]

private theorem getElem?_of_forall {α : Type} (L : List α) (P : α → Prop) (h : ∀ o ∈ L, P o) (i : Nat)
    (hi : i < L.length) : ∃ o, L[i]? = some o ∧ P o :=
  ⟨L[i], List.getElem?_eq_getElem hi, h _ (List.getElem_mem hi)⟩

/-- ChandelierExit over bars with finite `low ≤ high`, multiplier `≥ 0`: both outputs are finite,
    `long ≤ mx` and `mn ≤ short`, where `mx` is the greatest of the last min(t, n) highs and `mn`
    the least of the last min(t, n) lows -/
theorem ce_long_le_max (n : Nat) (hn : 0 < n) (h8 : n * 8 ≤ isizeMax) (m : K) (hm : 0 ≤ m)
    (bs : List (Bar (X K))) (hb : ∀ b ∈ bs, FinBar b) :
    ∃ s0 s' outs, (ChandelierExit.new n (X.fin m) : Res (ChandelierExit (X K))) = .ok s0 ∧
      runOut ChandelierExit.nextBar s0 bs = some (s', outs) ∧ outs.length = bs.length ∧
      ∃ hs ls : List K, bs.map (·.high) = hs.map X.fin ∧ bs.map (·.low) = ls.map X.fin ∧
      ∀ i, i < bs.length → ∃ long short mx mn : K,
        outs[i]? = some ({ long := X.fin long, short := X.fin short } : ChandelierExitOutput (X K)) ∧
        (mx ∈ lastN n (hs.take (i + 1)) ∧ ∀ y ∈ lastN n (hs.take (i + 1)), y ≤ mx) ∧
        (mn ∈ lastN n (ls.take (i + 1)) ∧ ∀ y ∈ lastN n (ls.take (i + 1)), mn ≤ y) ∧
        long ≤ mx ∧ mn ≤ short := by
  obtain ⟨hs, ehs⟩ := exists_fin_list (bs.map (·.high)) (fun o ho => by
    obtain ⟨b, hbm, rfl⟩ := List.mem_map.mp ho
    obtain ⟨h, l, c, hh, -⟩ := hb b hbm
    exact ⟨h, hh⟩)
  obtain ⟨ls, els⟩ := exists_fin_list (bs.map (·.low)) (fun o ho => by
    obtain ⟨b, hbm, rfl⟩ := List.mem_map.mp ho
    obtain ⟨h, l, c, -, hl, -⟩ := hb b hbm
    exact ⟨l, hl⟩)
  have lhs : hs.length = bs.length := by
    have := congrArg List.length ehs; simpa using this.symm
  have lls : ls.length = bs.length := by
    have := congrArg List.length els; simpa using this.symm
  obtain ⟨s', smx, mxs, smn, mns, r1, r2, r3⟩ := C02.ce_bar_stream (F := X K) n (X.fin m) hn h8 bs
  rw [runOut_comap Maximum.nextBar Maximum.next (·.high) Maximum.nextBar_eq, ehs] at r1
  rw [runOut_comap Minimum.nextBar Minimum.next (·.low) Minimum.nextBar_eq, els] at r2
  obtain ⟨b0, b', maxs, eb0, eb, lb, hmax⟩ := C01.maximum_window n hn h8 hs
  obtain ⟨c0, c', mins, ec0, ec, lc, hmin⟩ := C01.minimum_window n hn h8 ls
  rw [Maximum.new_eq] at eb0
  rw [Minimum.new_eq] at ec0
  simp only [Nat.ne_of_gt hn, h8, if_true, if_false, Res.ok.injEq] at eb0 ec0
  subst eb0 ec0
  rw [r1] at eb
  rw [r2] at ec
  simp only [Option.some.injEq, Prod.mk.injEq] at eb ec
  obtain ⟨-, rfl⟩ := eb
  obtain ⟨-, rfl⟩ := ec
  obtain ⟨a0, a1⟩ := alpha_range (K := K) n hn
  have hatr := emaSeq_closed (fun v => 0 ≤ v) _
    (fun x y hx hy => convex_nonneg _ (le_of_lt a0) a1 x y hx hy) _ (trBarSeq_nonneg bs hb)
  rw [← alpha_fin] at hatr
  have latr : (C02.emaSeq (C02.alpha n) (C02.trBarSeq bs) : List (X K)).length = bs.length := by
    rw [C02.emaSeq_length, C02.trBarSeq_length]
  refine ⟨_, s', _, by rw [ChandelierExit.new_eq]; simp [Nat.ne_of_gt hn, h8], r3,
    zipWith3_length _ _ _ _ _ latr (by omega) (by omega), hs, ls, ehs, els, ?_⟩
  intro i hi
  obtain ⟨mx, e1, m1, u1⟩ := hmax i (by omega)
  obtain ⟨mn, e2, m2, u2⟩ := hmin i (by omega)
  obtain ⟨o, e3, r, rfl, hr⟩ := getElem?_of_forall _ _ hatr i (by omega)
  have hp : 0 ≤ r * m := mul_nonneg hr hm
  refine ⟨mx - r * m, mn + r * m, mx, mn, ?_, ⟨m1, u1⟩, ⟨m2, u2⟩, by linarith, by linarith⟩
  rw [zipWith3_getElem? _ _ _ _ i _ _ _ e3 e1 e2]
  simp

end TaRs.Props.C09

