/-
  C18 — state size depends on the parameters only.

  L0: the model's bincode length of every indicator is an explicit function of its parameters
  (and, for TrueRange, of whether the first input has been seen), it is invariant under
  next/nextBar/reset on well-formed states, and it is bounded by 256 + 64·Σperiods.
  Live heap bytes are measured on the implementation by the harness (counting allocator), not
  provable here.

  Reading guide.  Leaf sizes (bincode 1.x, fixed width): `usize`/`f64`/length prefix 8 bytes,
  `bool` 1, `Option<f64>` 1 (`None`) or 9 (`Some`), `Vec<f64>` 8 + 8·len.  For every indicator
  `X` (short name `x`):
    * `x_enc_length` — `(X.enc tb s).length = <closed form in the periods>` for every
      well-formed `s` (for the window indicators `WF` is what ties `deque.len()` to `period`;
      `x_enc_length_raw` is the unconditional form in `deque.size`).  Indicators without a
      window (EMA, RSI, MACD, PPO, OBV, DataItem) have a constant size and need no hypothesis.
      The only state-dependent term anywhere is `trLen` of an embedded TrueRange
      (TrueRange, ATR, KeltnerChannel, ChandelierExit): 1 before the first input, 9 after.
    * `x_enc_bound` — `≤ 256 + 64 * Σperiods`.
    * `x_enc_length_congr` — two well-formed states with the same parameters have the same
      size (up to `trLen`), whatever their contents.
    * `x_enc_length_next` / `_nextBar` / `_reset` — the call returns normally and the size of
      the new state equals the size of the old one (TrueRange-carrying indicators: equals the
      closed form with `trLen = 9` after an input, `= 1` after `reset`).

  Dependencies.  Only `Lemmas/Core` (`WF`) and the VALUE-AGNOSTIC `Lemmas/Total` are imported: the
  invariance theorems use `*_total` (returns, keeps `WF`, keeps the periods) and, for the indicators
  carrying a TrueRange, `*_shape` (`Some` after an input, `None` after `reset`); no `next_eq` /
  `reset_eq`, so a change of the Rust code that only alters an arithmetic value leaves this file intact.
-/
import TaRs.Lemmas.CodecLemmas
import TaRs.Gen.DataItem
import TaRs.Lemmas.Total.TrueRange
import TaRs.Lemmas.Core.OnBalanceVolume
import TaRs.Lemmas.Core.ExponentialMovingAverage
import TaRs.Lemmas.Total.SimpleMovingAverage
import TaRs.Lemmas.Total.WeightedMovingAverage
import TaRs.Lemmas.Total.StandardDeviation
import TaRs.Lemmas.Total.MeanAbsoluteDeviation
import TaRs.Lemmas.Total.Minimum
import TaRs.Lemmas.Total.Maximum
import TaRs.Lemmas.Total.EfficiencyRatio
import TaRs.Lemmas.Total.RateOfChange
import TaRs.Lemmas.Total.MoneyFlowIndex
import TaRs.Lemmas.Core.RelativeStrengthIndex
import TaRs.Lemmas.Total.FastStochastic
import TaRs.Lemmas.Total.SlowStochastic
import TaRs.Lemmas.Total.AverageTrueRange
import TaRs.Lemmas.Core.MovingAverageConvergenceDivergence
import TaRs.Lemmas.Core.PercentagePriceOscillator
import TaRs.Lemmas.Total.CommodityChannelIndex
import TaRs.Lemmas.Total.BollingerBands
import TaRs.Lemmas.Total.ChandelierExit
import TaRs.Lemmas.Total.KeltnerChannel

namespace TaRs.Props.C18
open TaRs TaRs.Gen TaRs.Rs TaRs.Codec

/-- encoded size of a TrueRange state: the `Option<f64>` tag, plus the payload once an input
    has been seen -/
def trLen {F : Type} (s : TrueRange F) : Nat :=
  match s.prev_close with
  | none => 1
  | some _ => 9

theorem trLen_le {F : Type} (s : TrueRange F) : trLen s ≤ 9 := by
  unfold trLen; split <;> omega
theorem trLen_pos {F : Type} (s : TrueRange F) : 1 ≤ trLen s := by
  unfold trLen; split <;> omega
theorem trLen_none {F : Type} : trLen ({ prev_close := none } : TrueRange F) = 1 := rfl
theorem trLen_some {F : Type} (x : F) : trLen ({ prev_close := some x } : TrueRange F) = 9 := rfl
/-- helper: only the SHAPE of the `Option` matters for the size -/
theorem trLen_of_isSome {F : Type} {s : TrueRange F} (h : s.prev_close.isSome = true) : trLen s = 9 := by
  obtain ⟨pc⟩ := s
  cases pc with
  | none => cases h
  | some v => rfl
theorem trLen_of_none {F : Type} {s : TrueRange F} (h : s.prev_close = none) : trLen s = 1 := by
  obtain ⟨pc⟩ := s
  cases h
  rfl

/-! ### Sizes and bounds -/
section Length
variable {F : Type} [Scalar F] (tb : F → UInt64)

/-- TrueRange: 1 byte (`None` tag) before the first input, 9 (`Some` tag + f64) afterwards -/
theorem tr_enc_length (s : TrueRange F) : (TrueRange.enc tb s).length = trLen s := by
  obtain ⟨pc⟩ := s
  cases pc <;> simp [TrueRange.enc, trLen]

theorem tr_enc_bound (s : TrueRange F) : (TrueRange.enc tb s).length ≤ 256 + 64 * 0 := by
  rw [tr_enc_length]; have := trLen_le s; omega

theorem obv_enc_length (s : OnBalanceVolume F) : (OnBalanceVolume.enc tb s).length = 16 := by
  simp only [OnBalanceVolume.enc, List.length_append, encUsize_length, encF_length, encBool_length, encArr_length]
  try omega

theorem obv_enc_bound (s : OnBalanceVolume F) : (OnBalanceVolume.enc tb s).length ≤ 256 + 64 * (0) := by
  rw [obv_enc_length]
  omega

theorem dataItem_enc_length (s : DataItem F) : (DataItem.enc tb s).length = 40 := by
  simp only [DataItem.enc, List.length_append, encUsize_length, encF_length, encBool_length, encArr_length]
  try omega

theorem dataItem_enc_bound (s : DataItem F) : (DataItem.enc tb s).length ≤ 256 + 64 * (0) := by
  rw [dataItem_enc_length]
  omega

theorem ema_enc_length (s : ExponentialMovingAverage F) : (ExponentialMovingAverage.enc tb s).length = 25 := by
  simp only [ExponentialMovingAverage.enc, List.length_append, encUsize_length, encF_length, encBool_length, encArr_length]
  try omega

theorem ema_enc_bound (s : ExponentialMovingAverage F) : (ExponentialMovingAverage.enc tb s).length ≤ 256 + 64 * (s.period) := by
  rw [ema_enc_length]
  omega

/-- unconditional form (in the lengths of the buffers) -/
theorem sma_enc_length_raw (s : SimpleMovingAverage F) : (SimpleMovingAverage.enc tb s).length = 40 + 8 * s.deque.size := by
  simp only [SimpleMovingAverage.enc, List.length_append, encUsize_length, encF_length, encBool_length, encArr_length]
  try omega

theorem sma_enc_length (s : SimpleMovingAverage F) (h : SimpleMovingAverage.WF s) :
    (SimpleMovingAverage.enc tb s).length = 8 * 4 + 8 + 8 * s.period := by
  rw [sma_enc_length_raw]
  have := h.size
  omega

theorem sma_enc_bound (s : SimpleMovingAverage F) (h : SimpleMovingAverage.WF s) :
    (SimpleMovingAverage.enc tb s).length ≤ 256 + 64 * (s.period) := by
  rw [sma_enc_length tb s h]
  omega

/-- unconditional form (in the lengths of the buffers) -/
theorem wma_enc_length_raw (s : WeightedMovingAverage F) : (WeightedMovingAverage.enc tb s).length = 56 + 8 * s.deque.size := by
  simp only [WeightedMovingAverage.enc, List.length_append, encUsize_length, encF_length, encBool_length, encArr_length]
  try omega

theorem wma_enc_length (s : WeightedMovingAverage F) (h : WeightedMovingAverage.WF s) :
    (WeightedMovingAverage.enc tb s).length = 8 * 6 + 8 + 8 * s.period := by
  rw [wma_enc_length_raw]
  have := h.size
  omega

theorem wma_enc_bound (s : WeightedMovingAverage F) (h : WeightedMovingAverage.WF s) :
    (WeightedMovingAverage.enc tb s).length ≤ 256 + 64 * (s.period) := by
  rw [wma_enc_length tb s h]
  omega

/-- unconditional form (in the lengths of the buffers) -/
theorem sd_enc_length_raw (s : StandardDeviation F) : (StandardDeviation.enc tb s).length = 48 + 8 * s.deque.size := by
  simp only [StandardDeviation.enc, List.length_append, encUsize_length, encF_length, encBool_length, encArr_length]
  try omega

theorem sd_enc_length (s : StandardDeviation F) (h : StandardDeviation.WF s) :
    (StandardDeviation.enc tb s).length = 8 * 5 + 8 + 8 * s.period := by
  rw [sd_enc_length_raw]
  have := h.size
  omega

theorem sd_enc_bound (s : StandardDeviation F) (h : StandardDeviation.WF s) :
    (StandardDeviation.enc tb s).length ≤ 256 + 64 * (s.period) := by
  rw [sd_enc_length tb s h]
  omega

/-- unconditional form (in the lengths of the buffers) -/
theorem mad_enc_length_raw (s : MeanAbsoluteDeviation F) : (MeanAbsoluteDeviation.enc tb s).length = 40 + 8 * s.deque.size := by
  simp only [MeanAbsoluteDeviation.enc, List.length_append, encUsize_length, encF_length, encBool_length, encArr_length]
  try omega

theorem mad_enc_length (s : MeanAbsoluteDeviation F) (h : MeanAbsoluteDeviation.WF s) :
    (MeanAbsoluteDeviation.enc tb s).length = 8 * 4 + 8 + 8 * s.period := by
  rw [mad_enc_length_raw]
  have := h.size
  omega

theorem mad_enc_bound (s : MeanAbsoluteDeviation F) (h : MeanAbsoluteDeviation.WF s) :
    (MeanAbsoluteDeviation.enc tb s).length ≤ 256 + 64 * (s.period) := by
  rw [mad_enc_length tb s h]
  omega

/-- unconditional form (in the lengths of the buffers) -/
theorem minimum_enc_length_raw (s : Minimum F) : (Minimum.enc tb s).length = 32 + 8 * s.deque.size := by
  simp only [Minimum.enc, List.length_append, encUsize_length, encF_length, encBool_length, encArr_length]
  try omega

theorem minimum_enc_length (s : Minimum F) (h : Minimum.WF s) :
    (Minimum.enc tb s).length = 8 * 3 + 8 + 8 * s.period := by
  rw [minimum_enc_length_raw]
  have := h.size
  omega

theorem minimum_enc_bound (s : Minimum F) (h : Minimum.WF s) :
    (Minimum.enc tb s).length ≤ 256 + 64 * (s.period) := by
  rw [minimum_enc_length tb s h]
  omega

/-- unconditional form (in the lengths of the buffers) -/
theorem maximum_enc_length_raw (s : Maximum F) : (Maximum.enc tb s).length = 32 + 8 * s.deque.size := by
  simp only [Maximum.enc, List.length_append, encUsize_length, encF_length, encBool_length, encArr_length]
  try omega

theorem maximum_enc_length (s : Maximum F) (h : Maximum.WF s) :
    (Maximum.enc tb s).length = 8 * 3 + 8 + 8 * s.period := by
  rw [maximum_enc_length_raw]
  have := h.size
  omega

theorem maximum_enc_bound (s : Maximum F) (h : Maximum.WF s) :
    (Maximum.enc tb s).length ≤ 256 + 64 * (s.period) := by
  rw [maximum_enc_length tb s h]
  omega

/-- unconditional form (in the lengths of the buffers) -/
theorem er_enc_length_raw (s : EfficiencyRatio F) : (EfficiencyRatio.enc tb s).length = 32 + 8 * s.deque.size := by
  simp only [EfficiencyRatio.enc, List.length_append, encUsize_length, encF_length, encBool_length, encArr_length]
  try omega

theorem er_enc_length (s : EfficiencyRatio F) (h : EfficiencyRatio.WF s) :
    (EfficiencyRatio.enc tb s).length = 8 * 3 + 8 + 8 * s.period := by
  rw [er_enc_length_raw]
  have := h.size
  omega

theorem er_enc_bound (s : EfficiencyRatio F) (h : EfficiencyRatio.WF s) :
    (EfficiencyRatio.enc tb s).length ≤ 256 + 64 * (s.period) := by
  rw [er_enc_length tb s h]
  omega

/-- unconditional form (in the lengths of the buffers) -/
theorem roc_enc_length_raw (s : RateOfChange F) : (RateOfChange.enc tb s).length = 32 + 8 * s.deque.size := by
  simp only [RateOfChange.enc, List.length_append, encUsize_length, encF_length, encBool_length, encArr_length]
  try omega

theorem roc_enc_length (s : RateOfChange F) (h : RateOfChange.WF s) :
    (RateOfChange.enc tb s).length = 8 * 3 + 8 + 8 * s.period := by
  rw [roc_enc_length_raw]
  have := h.size
  omega

theorem roc_enc_bound (s : RateOfChange F) (h : RateOfChange.WF s) :
    (RateOfChange.enc tb s).length ≤ 256 + 64 * (s.period) := by
  rw [roc_enc_length tb s h]
  omega

/-- unconditional form (in the lengths of the buffers) -/
theorem mfi_enc_length_raw (s : MoneyFlowIndex F) : (MoneyFlowIndex.enc tb s).length = 56 + 8 * s.deque.size := by
  simp only [MoneyFlowIndex.enc, List.length_append, encUsize_length, encF_length, encBool_length, encArr_length]
  try omega

theorem mfi_enc_length (s : MoneyFlowIndex F) (h : MoneyFlowIndex.WF s) :
    (MoneyFlowIndex.enc tb s).length = 8 * 6 + 8 + 8 * s.period := by
  rw [mfi_enc_length_raw]
  have := h.size
  omega

theorem mfi_enc_bound (s : MoneyFlowIndex F) (h : MoneyFlowIndex.WF s) :
    (MoneyFlowIndex.enc tb s).length ≤ 256 + 64 * (s.period) := by
  rw [mfi_enc_length tb s h]
  omega

theorem rsi_enc_length (s : RelativeStrengthIndex F) : (RelativeStrengthIndex.enc tb s).length = 67 := by
  simp only [RelativeStrengthIndex.enc, List.length_append, encUsize_length, encF_length, encBool_length, encArr_length, ema_enc_length]
  try omega

theorem rsi_enc_bound (s : RelativeStrengthIndex F) : (RelativeStrengthIndex.enc tb s).length ≤ 256 + 64 * (s.period) := by
  rw [rsi_enc_length]
  omega

/-- unconditional form (in the lengths of the buffers) -/
theorem fastStoch_enc_length_raw (s : FastStochastic F) : (FastStochastic.enc tb s).length = 72 + 8 * s.minimum.deque.size + 8 * s.maximum.deque.size := by
  simp only [FastStochastic.enc, List.length_append, encUsize_length, encF_length, encBool_length, encArr_length, minimum_enc_length_raw, maximum_enc_length_raw]
  try omega

theorem fastStoch_enc_length (s : FastStochastic F) (h : FastStochastic.WF s) :
    (FastStochastic.enc tb s).length = 8 + 2 * (8 * 3 + 8 + 8 * s.period) := by
  rw [fastStoch_enc_length_raw]
  have := h.min.size
  have := h.max.size
  have := h.pmin
  have := h.pmax
  omega

theorem fastStoch_enc_bound (s : FastStochastic F) (h : FastStochastic.WF s) :
    (FastStochastic.enc tb s).length ≤ 256 + 64 * (s.period) := by
  rw [fastStoch_enc_length tb s h]
  omega

/-- unconditional form (in the lengths of the buffers) -/
theorem slowStoch_enc_length_raw (s : SlowStochastic F) : (SlowStochastic.enc tb s).length = 97 + 8 * s.fast_stochastic.minimum.deque.size + 8 * s.fast_stochastic.maximum.deque.size := by
  simp only [SlowStochastic.enc, List.length_append, encUsize_length, encF_length, encBool_length, encArr_length, fastStoch_enc_length_raw, ema_enc_length]
  try omega

theorem slowStoch_enc_length (s : SlowStochastic F) (h : SlowStochastic.WF s) :
    (SlowStochastic.enc tb s).length = 8 + 2 * (8 * 3 + 8 + 8 * s.fast_stochastic.period) + 25 := by
  rw [slowStoch_enc_length_raw]
  have := h.fast.min.size
  have := h.fast.max.size
  have := h.fast.pmin
  have := h.fast.pmax
  omega

theorem slowStoch_enc_bound (s : SlowStochastic F) (h : SlowStochastic.WF s) :
    (SlowStochastic.enc tb s).length ≤ 256 + 64 * (s.fast_stochastic.period + s.ema.period) := by
  rw [slowStoch_enc_length tb s h]
  omega

theorem atr_enc_length (s : AverageTrueRange F) : (AverageTrueRange.enc tb s).length = 25 + trLen s.true_range := by
  simp only [AverageTrueRange.enc, List.length_append, encUsize_length, encF_length, encBool_length, encArr_length, tr_enc_length, ema_enc_length]
  try omega

theorem atr_enc_bound (s : AverageTrueRange F) : (AverageTrueRange.enc tb s).length ≤ 256 + 64 * (s.ema.period) := by
  rw [atr_enc_length]
  have := trLen_le s.true_range
  omega

theorem macd_enc_length (s : MovingAverageConvergenceDivergence F) : (MovingAverageConvergenceDivergence.enc tb s).length = 75 := by
  simp only [MovingAverageConvergenceDivergence.enc, List.length_append, encUsize_length, encF_length, encBool_length, encArr_length, ema_enc_length]
  try omega

theorem macd_enc_bound (s : MovingAverageConvergenceDivergence F) : (MovingAverageConvergenceDivergence.enc tb s).length ≤ 256 + 64 * (s.fast_ema.period + s.slow_ema.period + s.signal_ema.period) := by
  rw [macd_enc_length]
  omega

theorem ppo_enc_length (s : PercentagePriceOscillator F) : (PercentagePriceOscillator.enc tb s).length = 75 := by
  simp only [PercentagePriceOscillator.enc, List.length_append, encUsize_length, encF_length, encBool_length, encArr_length, ema_enc_length]
  try omega

theorem ppo_enc_bound (s : PercentagePriceOscillator F) : (PercentagePriceOscillator.enc tb s).length ≤ 256 + 64 * (s.fast_ema.period + s.slow_ema.period + s.signal_ema.period) := by
  rw [ppo_enc_length]
  omega

/-- unconditional form (in the lengths of the buffers) -/
theorem cci_enc_length_raw (s : CommodityChannelIndex F) : (CommodityChannelIndex.enc tb s).length = 80 + 8 * s.sma.deque.size + 8 * s.mad.deque.size := by
  simp only [CommodityChannelIndex.enc, List.length_append, encUsize_length, encF_length, encBool_length, encArr_length, sma_enc_length_raw, mad_enc_length_raw]
  try omega

theorem cci_enc_length (s : CommodityChannelIndex F) (h : CommodityChannelIndex.WF s) :
    (CommodityChannelIndex.enc tb s).length = 2 * (8 * 4 + 8 + 8 * s.sma.period) := by
  rw [cci_enc_length_raw]
  have := h.sma.size
  have := h.mad.size
  have := h.per
  omega

theorem cci_enc_bound (s : CommodityChannelIndex F) (h : CommodityChannelIndex.WF s) :
    (CommodityChannelIndex.enc tb s).length ≤ 256 + 64 * (s.sma.period) := by
  rw [cci_enc_length tb s h]
  omega

/-- unconditional form (in the lengths of the buffers) -/
theorem bb_enc_length_raw (s : BollingerBands F) : (BollingerBands.enc tb s).length = 64 + 8 * s.sd.deque.size := by
  simp only [BollingerBands.enc, List.length_append, encUsize_length, encF_length, encBool_length, encArr_length, sd_enc_length_raw]
  try omega

theorem bb_enc_length (s : BollingerBands F) (h : BollingerBands.WF s) :
    (BollingerBands.enc tb s).length = 8 + 8 + (8 * 5 + 8 + 8 * s.period) := by
  rw [bb_enc_length_raw]
  have := h.sd.size
  have := h.per
  omega

theorem bb_enc_bound (s : BollingerBands F) (h : BollingerBands.WF s) :
    (BollingerBands.enc tb s).length ≤ 256 + 64 * (s.period) := by
  rw [bb_enc_length tb s h]
  omega

/-- unconditional form (in the lengths of the buffers) -/
theorem ce_enc_length_raw (s : ChandelierExit F) : (ChandelierExit.enc tb s).length = 97 + 8 * s.min.deque.size + 8 * s.max.deque.size + trLen s.atr.true_range := by
  simp only [ChandelierExit.enc, List.length_append, encUsize_length, encF_length, encBool_length, encArr_length, atr_enc_length, minimum_enc_length_raw, maximum_enc_length_raw]
  try omega

theorem ce_enc_length (s : ChandelierExit F) (h : ChandelierExit.WF s) :
    (ChandelierExit.enc tb s).length = trLen s.atr.true_range + 25 + 2 * (8 * 3 + 8 + 8 * s.atr.ema.period) + 8 := by
  rw [ce_enc_length_raw]
  have := h.min.size
  have := h.max.size
  have := h.pmin
  have := h.pmax
  have := AverageTrueRange.period_fn_eq s.atr
  omega

theorem ce_enc_bound (s : ChandelierExit F) (h : ChandelierExit.WF s) :
    (ChandelierExit.enc tb s).length ≤ 256 + 64 * (s.atr.ema.period) := by
  rw [ce_enc_length tb s h]
  have := trLen_le s.atr.true_range
  omega

theorem kc_enc_length (s : KeltnerChannel F) : (KeltnerChannel.enc tb s).length = 66 + trLen s.atr.true_range := by
  simp only [KeltnerChannel.enc, List.length_append, encUsize_length, encF_length, encBool_length, encArr_length, atr_enc_length, ema_enc_length]
  try omega

theorem kc_enc_bound (s : KeltnerChannel F) : (KeltnerChannel.enc tb s).length ≤ 256 + 64 * (s.period) := by
  rw [kc_enc_length]
  have := trLen_le s.atr.true_range
  omega

end Length

/-! ### Invariance under `next` / `next(&bar)` / `reset` -/
section Stable
variable {F : Type} [Scalar F] (tb : F → UInt64)

/-- same parameters ⇒ same size, whatever the contents of the two states -/
theorem sma_enc_length_congr (s s' : SimpleMovingAverage F) (h : SimpleMovingAverage.WF s) (h' : SimpleMovingAverage.WF s')
    (hp : s'.period = s.period) : (SimpleMovingAverage.enc tb s').length = (SimpleMovingAverage.enc tb s).length := by
  rw [sma_enc_length tb s' h', sma_enc_length tb s h, hp]

theorem sma_enc_length_next (s : SimpleMovingAverage F) (h : SimpleMovingAverage.WF s) (x : F) :
    ∃ r, s.next x = some r ∧ (SimpleMovingAverage.enc tb r.1).length = (SimpleMovingAverage.enc tb s).length := by
  obtain ⟨r, hr, hw, hp⟩ := SimpleMovingAverage.next_total s x h
  exact ⟨r, hr, sma_enc_length_congr tb s r.1 h hw hp⟩

theorem sma_enc_length_nextBar (s : SimpleMovingAverage F) (h : SimpleMovingAverage.WF s) (b : Bar F) :
    ∃ r, s.nextBar b = some r ∧ (SimpleMovingAverage.enc tb r.1).length = (SimpleMovingAverage.enc tb s).length := by
  obtain ⟨r, hr, hw, hp⟩ := SimpleMovingAverage.nextBar_total s b h
  exact ⟨r, hr, sma_enc_length_congr tb s r.1 h hw hp⟩

theorem sma_enc_length_reset (s : SimpleMovingAverage F) (h : SimpleMovingAverage.WF s) :
    ∃ r, s.reset = some r ∧ (SimpleMovingAverage.enc tb r).length = (SimpleMovingAverage.enc tb s).length := by
  obtain ⟨r, hr, hw, hp⟩ := SimpleMovingAverage.reset_total s h
  exact ⟨r, hr, sma_enc_length_congr tb s r h hw hp⟩

/-- same parameters ⇒ same size, whatever the contents of the two states -/
theorem wma_enc_length_congr (s s' : WeightedMovingAverage F) (h : WeightedMovingAverage.WF s) (h' : WeightedMovingAverage.WF s')
    (hp : s'.period = s.period) : (WeightedMovingAverage.enc tb s').length = (WeightedMovingAverage.enc tb s).length := by
  rw [wma_enc_length tb s' h', wma_enc_length tb s h, hp]

theorem wma_enc_length_next (s : WeightedMovingAverage F) (h : WeightedMovingAverage.WF s) (x : F) :
    ∃ r, s.next x = some r ∧ (WeightedMovingAverage.enc tb r.1).length = (WeightedMovingAverage.enc tb s).length := by
  obtain ⟨r, hr, hw, hp⟩ := WeightedMovingAverage.next_total s x h
  exact ⟨r, hr, wma_enc_length_congr tb s r.1 h hw hp⟩

theorem wma_enc_length_nextBar (s : WeightedMovingAverage F) (h : WeightedMovingAverage.WF s) (b : Bar F) :
    ∃ r, s.nextBar b = some r ∧ (WeightedMovingAverage.enc tb r.1).length = (WeightedMovingAverage.enc tb s).length := by
  obtain ⟨r, hr, hw, hp⟩ := WeightedMovingAverage.nextBar_total s b h
  exact ⟨r, hr, wma_enc_length_congr tb s r.1 h hw hp⟩

theorem wma_enc_length_reset (s : WeightedMovingAverage F) (h : WeightedMovingAverage.WF s) :
    ∃ r, s.reset = some r ∧ (WeightedMovingAverage.enc tb r).length = (WeightedMovingAverage.enc tb s).length := by
  obtain ⟨r, hr, hw, hp⟩ := WeightedMovingAverage.reset_total s h
  exact ⟨r, hr, wma_enc_length_congr tb s r h hw hp⟩

/-- same parameters ⇒ same size, whatever the contents of the two states -/
theorem sd_enc_length_congr (s s' : StandardDeviation F) (h : StandardDeviation.WF s) (h' : StandardDeviation.WF s')
    (hp : s'.period = s.period) : (StandardDeviation.enc tb s').length = (StandardDeviation.enc tb s).length := by
  rw [sd_enc_length tb s' h', sd_enc_length tb s h, hp]

theorem sd_enc_length_next (s : StandardDeviation F) (h : StandardDeviation.WF s) (x : F) :
    ∃ r, s.next x = some r ∧ (StandardDeviation.enc tb r.1).length = (StandardDeviation.enc tb s).length := by
  obtain ⟨r, hr, hw, hp⟩ := StandardDeviation.next_total s x h
  exact ⟨r, hr, sd_enc_length_congr tb s r.1 h hw hp⟩

theorem sd_enc_length_nextBar (s : StandardDeviation F) (h : StandardDeviation.WF s) (b : Bar F) :
    ∃ r, s.nextBar b = some r ∧ (StandardDeviation.enc tb r.1).length = (StandardDeviation.enc tb s).length := by
  obtain ⟨r, hr, hw, hp⟩ := StandardDeviation.nextBar_total s b h
  exact ⟨r, hr, sd_enc_length_congr tb s r.1 h hw hp⟩

theorem sd_enc_length_reset (s : StandardDeviation F) (h : StandardDeviation.WF s) :
    ∃ r, s.reset = some r ∧ (StandardDeviation.enc tb r).length = (StandardDeviation.enc tb s).length := by
  obtain ⟨r, hr, hw, hp⟩ := StandardDeviation.reset_total s h
  exact ⟨r, hr, sd_enc_length_congr tb s r h hw hp⟩

/-- same parameters ⇒ same size, whatever the contents of the two states -/
theorem mad_enc_length_congr (s s' : MeanAbsoluteDeviation F) (h : MeanAbsoluteDeviation.WF s) (h' : MeanAbsoluteDeviation.WF s')
    (hp : s'.period = s.period) : (MeanAbsoluteDeviation.enc tb s').length = (MeanAbsoluteDeviation.enc tb s).length := by
  rw [mad_enc_length tb s' h', mad_enc_length tb s h, hp]

theorem mad_enc_length_next (s : MeanAbsoluteDeviation F) (h : MeanAbsoluteDeviation.WF s) (x : F) :
    ∃ r, s.next x = some r ∧ (MeanAbsoluteDeviation.enc tb r.1).length = (MeanAbsoluteDeviation.enc tb s).length := by
  obtain ⟨r, hr, hw, hp⟩ := MeanAbsoluteDeviation.next_total s x h
  exact ⟨r, hr, mad_enc_length_congr tb s r.1 h hw hp⟩

theorem mad_enc_length_nextBar (s : MeanAbsoluteDeviation F) (h : MeanAbsoluteDeviation.WF s) (b : Bar F) :
    ∃ r, s.nextBar b = some r ∧ (MeanAbsoluteDeviation.enc tb r.1).length = (MeanAbsoluteDeviation.enc tb s).length := by
  obtain ⟨r, hr, hw, hp⟩ := MeanAbsoluteDeviation.nextBar_total s b h
  exact ⟨r, hr, mad_enc_length_congr tb s r.1 h hw hp⟩

theorem mad_enc_length_reset (s : MeanAbsoluteDeviation F) (h : MeanAbsoluteDeviation.WF s) :
    ∃ r, s.reset = some r ∧ (MeanAbsoluteDeviation.enc tb r).length = (MeanAbsoluteDeviation.enc tb s).length := by
  obtain ⟨r, hr, hw, hp⟩ := MeanAbsoluteDeviation.reset_total s h
  exact ⟨r, hr, mad_enc_length_congr tb s r h hw hp⟩

/-- same parameters ⇒ same size, whatever the contents of the two states -/
theorem er_enc_length_congr (s s' : EfficiencyRatio F) (h : EfficiencyRatio.WF s) (h' : EfficiencyRatio.WF s')
    (hp : s'.period = s.period) : (EfficiencyRatio.enc tb s').length = (EfficiencyRatio.enc tb s).length := by
  rw [er_enc_length tb s' h', er_enc_length tb s h, hp]

theorem er_enc_length_next (s : EfficiencyRatio F) (h : EfficiencyRatio.WF s) (x : F) :
    ∃ r, s.next x = some r ∧ (EfficiencyRatio.enc tb r.1).length = (EfficiencyRatio.enc tb s).length := by
  obtain ⟨r, hr, hw, hp⟩ := EfficiencyRatio.next_total s x h
  exact ⟨r, hr, er_enc_length_congr tb s r.1 h hw hp⟩

theorem er_enc_length_nextBar (s : EfficiencyRatio F) (h : EfficiencyRatio.WF s) (b : Bar F) :
    ∃ r, s.nextBar b = some r ∧ (EfficiencyRatio.enc tb r.1).length = (EfficiencyRatio.enc tb s).length := by
  obtain ⟨r, hr, hw, hp⟩ := EfficiencyRatio.nextBar_total s b h
  exact ⟨r, hr, er_enc_length_congr tb s r.1 h hw hp⟩

theorem er_enc_length_reset (s : EfficiencyRatio F) (h : EfficiencyRatio.WF s) :
    ∃ r, s.reset = some r ∧ (EfficiencyRatio.enc tb r).length = (EfficiencyRatio.enc tb s).length := by
  obtain ⟨r, hr, hw, hp⟩ := EfficiencyRatio.reset_total s h
  exact ⟨r, hr, er_enc_length_congr tb s r h hw hp⟩

/-- same parameters ⇒ same size, whatever the contents of the two states -/
theorem roc_enc_length_congr (s s' : RateOfChange F) (h : RateOfChange.WF s) (h' : RateOfChange.WF s')
    (hp : s'.period = s.period) : (RateOfChange.enc tb s').length = (RateOfChange.enc tb s).length := by
  rw [roc_enc_length tb s' h', roc_enc_length tb s h, hp]

theorem roc_enc_length_next (s : RateOfChange F) (h : RateOfChange.WF s) (x : F) :
    ∃ r, s.next x = some r ∧ (RateOfChange.enc tb r.1).length = (RateOfChange.enc tb s).length := by
  obtain ⟨r, hr, hw, hp⟩ := RateOfChange.next_total s x h
  exact ⟨r, hr, roc_enc_length_congr tb s r.1 h hw hp⟩

theorem roc_enc_length_nextBar (s : RateOfChange F) (h : RateOfChange.WF s) (b : Bar F) :
    ∃ r, s.nextBar b = some r ∧ (RateOfChange.enc tb r.1).length = (RateOfChange.enc tb s).length := by
  obtain ⟨r, hr, hw, hp⟩ := RateOfChange.nextBar_total s b h
  exact ⟨r, hr, roc_enc_length_congr tb s r.1 h hw hp⟩

theorem roc_enc_length_reset (s : RateOfChange F) (h : RateOfChange.WF s) :
    ∃ r, s.reset = some r ∧ (RateOfChange.enc tb r).length = (RateOfChange.enc tb s).length := by
  obtain ⟨r, hr, hw, hp⟩ := RateOfChange.reset_total s h
  exact ⟨r, hr, roc_enc_length_congr tb s r h hw hp⟩

/-- same parameters ⇒ same size, whatever the contents of the two states -/
theorem minimum_enc_length_congr (s s' : Minimum F) (h : Minimum.WF s) (h' : Minimum.WF s')
    (hp : s'.period = s.period) : (Minimum.enc tb s').length = (Minimum.enc tb s).length := by
  rw [minimum_enc_length tb s' h', minimum_enc_length tb s h, hp]

theorem minimum_enc_length_next (s : Minimum F) (h : Minimum.WF s) (x : F) :
    ∃ r, s.next x = some r ∧ (Minimum.enc tb r.1).length = (Minimum.enc tb s).length := by
  obtain ⟨r, hr, hw, hp⟩ := Minimum.next_total s x h
  exact ⟨r, hr, minimum_enc_length_congr tb s r.1 h hw hp⟩

theorem minimum_enc_length_nextBar (s : Minimum F) (h : Minimum.WF s) (b : Bar F) :
    ∃ r, s.nextBar b = some r ∧ (Minimum.enc tb r.1).length = (Minimum.enc tb s).length := by
  obtain ⟨r, hr, hw, hp⟩ := Minimum.nextBar_total s b h
  exact ⟨r, hr, minimum_enc_length_congr tb s r.1 h hw hp⟩

theorem minimum_enc_length_reset (s : Minimum F) (h : Minimum.WF s) :
    ∃ r, s.reset = some r ∧ (Minimum.enc tb r).length = (Minimum.enc tb s).length := by
  obtain ⟨r, hr, hw, hp⟩ := Minimum.reset_total s h
  exact ⟨r, hr, minimum_enc_length_congr tb s r h hw hp⟩

/-- same parameters ⇒ same size, whatever the contents of the two states -/
theorem maximum_enc_length_congr (s s' : Maximum F) (h : Maximum.WF s) (h' : Maximum.WF s')
    (hp : s'.period = s.period) : (Maximum.enc tb s').length = (Maximum.enc tb s).length := by
  rw [maximum_enc_length tb s' h', maximum_enc_length tb s h, hp]

theorem maximum_enc_length_next (s : Maximum F) (h : Maximum.WF s) (x : F) :
    ∃ r, s.next x = some r ∧ (Maximum.enc tb r.1).length = (Maximum.enc tb s).length := by
  obtain ⟨r, hr, hw, hp⟩ := Maximum.next_total s x h
  exact ⟨r, hr, maximum_enc_length_congr tb s r.1 h hw hp⟩

theorem maximum_enc_length_nextBar (s : Maximum F) (h : Maximum.WF s) (b : Bar F) :
    ∃ r, s.nextBar b = some r ∧ (Maximum.enc tb r.1).length = (Maximum.enc tb s).length := by
  obtain ⟨r, hr, hw, hp⟩ := Maximum.nextBar_total s b h
  exact ⟨r, hr, maximum_enc_length_congr tb s r.1 h hw hp⟩

theorem maximum_enc_length_reset (s : Maximum F) (h : Maximum.WF s) :
    ∃ r, s.reset = some r ∧ (Maximum.enc tb r).length = (Maximum.enc tb s).length := by
  obtain ⟨r, hr, hw, hp⟩ := Maximum.reset_total s h
  exact ⟨r, hr, maximum_enc_length_congr tb s r h hw hp⟩

/-- same parameters ⇒ same size, whatever the contents of the two states -/
theorem fastStoch_enc_length_congr (s s' : FastStochastic F) (h : FastStochastic.WF s) (h' : FastStochastic.WF s')
    (hp : s'.period = s.period) : (FastStochastic.enc tb s').length = (FastStochastic.enc tb s).length := by
  rw [fastStoch_enc_length tb s' h', fastStoch_enc_length tb s h, hp]

theorem fastStoch_enc_length_next (s : FastStochastic F) (h : FastStochastic.WF s) (x : F) :
    ∃ r, s.next x = some r ∧ (FastStochastic.enc tb r.1).length = (FastStochastic.enc tb s).length := by
  obtain ⟨r, hr, hw, hp⟩ := FastStochastic.next_total s x h
  exact ⟨r, hr, fastStoch_enc_length_congr tb s r.1 h hw hp⟩

theorem fastStoch_enc_length_nextBar (s : FastStochastic F) (h : FastStochastic.WF s) (b : Bar F) :
    ∃ r, s.nextBar b = some r ∧ (FastStochastic.enc tb r.1).length = (FastStochastic.enc tb s).length := by
  obtain ⟨r, hr, hw, hp⟩ := FastStochastic.nextBar_total s b h
  exact ⟨r, hr, fastStoch_enc_length_congr tb s r.1 h hw hp⟩

theorem fastStoch_enc_length_reset (s : FastStochastic F) (h : FastStochastic.WF s) :
    ∃ r, s.reset = some r ∧ (FastStochastic.enc tb r).length = (FastStochastic.enc tb s).length := by
  obtain ⟨r, hr, hw, hp⟩ := FastStochastic.reset_wf s h
  exact ⟨r, hr, fastStoch_enc_length_congr tb s r h hw hp⟩

/-- same parameters ⇒ same size, whatever the contents of the two states -/
theorem slowStoch_enc_length_congr (s s' : SlowStochastic F) (h : SlowStochastic.WF s) (h' : SlowStochastic.WF s')
    (hp : s'.fast_stochastic.period = s.fast_stochastic.period) : (SlowStochastic.enc tb s').length = (SlowStochastic.enc tb s).length := by
  rw [slowStoch_enc_length tb s' h', slowStoch_enc_length tb s h, hp]

theorem slowStoch_enc_length_next (s : SlowStochastic F) (h : SlowStochastic.WF s) (x : F) :
    ∃ r, s.next x = some r ∧ (SlowStochastic.enc tb r.1).length = (SlowStochastic.enc tb s).length := by
  obtain ⟨r, hr, hw, hp, _⟩ := SlowStochastic.next_total s x h
  exact ⟨r, hr, slowStoch_enc_length_congr tb s r.1 h hw hp⟩

theorem slowStoch_enc_length_nextBar (s : SlowStochastic F) (h : SlowStochastic.WF s) (b : Bar F) :
    ∃ r, s.nextBar b = some r ∧ (SlowStochastic.enc tb r.1).length = (SlowStochastic.enc tb s).length := by
  obtain ⟨r, hr, hw, hp, _⟩ := SlowStochastic.nextBar_total s b h
  exact ⟨r, hr, slowStoch_enc_length_congr tb s r.1 h hw hp⟩

theorem slowStoch_enc_length_reset (s : SlowStochastic F) (h : SlowStochastic.WF s) :
    ∃ r, s.reset = some r ∧ (SlowStochastic.enc tb r).length = (SlowStochastic.enc tb s).length := by
  obtain ⟨r, hr, hw, hp, _⟩ := SlowStochastic.reset_wf s h
  exact ⟨r, hr, slowStoch_enc_length_congr tb s r h hw hp⟩

/-- same parameters ⇒ same size, whatever the contents of the two states -/
theorem bb_enc_length_congr (s s' : BollingerBands F) (h : BollingerBands.WF s) (h' : BollingerBands.WF s')
    (hp : s'.period = s.period) : (BollingerBands.enc tb s').length = (BollingerBands.enc tb s).length := by
  rw [bb_enc_length tb s' h', bb_enc_length tb s h, hp]

theorem bb_enc_length_next (s : BollingerBands F) (h : BollingerBands.WF s) (x : F) :
    ∃ r, s.next x = some r ∧ (BollingerBands.enc tb r.1).length = (BollingerBands.enc tb s).length := by
  obtain ⟨r, hr, hw, hp, _⟩ := BollingerBands.next_total s x h
  exact ⟨r, hr, bb_enc_length_congr tb s r.1 h hw hp⟩

theorem bb_enc_length_nextBar (s : BollingerBands F) (h : BollingerBands.WF s) (b : Bar F) :
    ∃ r, s.nextBar b = some r ∧ (BollingerBands.enc tb r.1).length = (BollingerBands.enc tb s).length := by
  obtain ⟨r, hr, hw, hp, _⟩ := BollingerBands.nextBar_total s b h
  exact ⟨r, hr, bb_enc_length_congr tb s r.1 h hw hp⟩

theorem bb_enc_length_reset (s : BollingerBands F) (h : BollingerBands.WF s) :
    ∃ r, s.reset = some r ∧ (BollingerBands.enc tb r).length = (BollingerBands.enc tb s).length := by
  obtain ⟨r, hr, hw, hp, _⟩ := BollingerBands.reset_total s h
  exact ⟨r, hr, bb_enc_length_congr tb s r h hw hp⟩

/-- same parameters ⇒ same size, whatever the contents of the two states -/
theorem mfi_enc_length_congr (s s' : MoneyFlowIndex F) (h : MoneyFlowIndex.WF s) (h' : MoneyFlowIndex.WF s')
    (hp : s'.period = s.period) : (MoneyFlowIndex.enc tb s').length = (MoneyFlowIndex.enc tb s).length := by
  rw [mfi_enc_length tb s' h', mfi_enc_length tb s h, hp]

theorem mfi_enc_length_nextBar (s : MoneyFlowIndex F) (h : MoneyFlowIndex.WF s) (b : Bar F) :
    ∃ r, s.nextBar b = some r ∧ (MoneyFlowIndex.enc tb r.1).length = (MoneyFlowIndex.enc tb s).length := by
  obtain ⟨r, hr, hw, hp⟩ := MoneyFlowIndex.nextBar_total s b h
  exact ⟨r, hr, mfi_enc_length_congr tb s r.1 h hw hp⟩

theorem mfi_enc_length_reset (s : MoneyFlowIndex F) (h : MoneyFlowIndex.WF s) :
    ∃ r, s.reset = some r ∧ (MoneyFlowIndex.enc tb r).length = (MoneyFlowIndex.enc tb s).length := by
  obtain ⟨r, hr, hw, hp⟩ := MoneyFlowIndex.reset_total s h
  exact ⟨r, hr, mfi_enc_length_congr tb s r h hw hp⟩

/-- same parameters ⇒ same size, whatever the contents of the two states -/
theorem cci_enc_length_congr (s s' : CommodityChannelIndex F) (h : CommodityChannelIndex.WF s) (h' : CommodityChannelIndex.WF s')
    (hp : s'.sma.period = s.sma.period) : (CommodityChannelIndex.enc tb s').length = (CommodityChannelIndex.enc tb s).length := by
  rw [cci_enc_length tb s' h', cci_enc_length tb s h, hp]

theorem cci_enc_length_nextBar (s : CommodityChannelIndex F) (h : CommodityChannelIndex.WF s) (b : Bar F) :
    ∃ r, s.nextBar b = some r ∧ (CommodityChannelIndex.enc tb r.1).length = (CommodityChannelIndex.enc tb s).length := by
  obtain ⟨r, hr, hw, hp⟩ := CommodityChannelIndex.nextBar_total s b h
  exact ⟨r, hr, cci_enc_length_congr tb s r.1 h hw hp⟩

theorem cci_enc_length_reset (s : CommodityChannelIndex F) (h : CommodityChannelIndex.WF s) :
    ∃ r, s.reset = some r ∧ (CommodityChannelIndex.enc tb r).length = (CommodityChannelIndex.enc tb s).length := by
  obtain ⟨r, hr, hw, hp⟩ := CommodityChannelIndex.reset_total s h
  exact ⟨r, hr, cci_enc_length_congr tb s r h hw hp⟩

/-- constant size: any two states (in particular the states before and after any call) -/
theorem ema_enc_length_stable (s s' : ExponentialMovingAverage F) : (ExponentialMovingAverage.enc tb s').length = (ExponentialMovingAverage.enc tb s).length := by
  rw [ema_enc_length, ema_enc_length]

/-- constant size: any two states (in particular the states before and after any call) -/
theorem rsi_enc_length_stable (s s' : RelativeStrengthIndex F) : (RelativeStrengthIndex.enc tb s').length = (RelativeStrengthIndex.enc tb s).length := by
  rw [rsi_enc_length, rsi_enc_length]

/-- constant size: any two states (in particular the states before and after any call) -/
theorem macd_enc_length_stable (s s' : MovingAverageConvergenceDivergence F) : (MovingAverageConvergenceDivergence.enc tb s').length = (MovingAverageConvergenceDivergence.enc tb s).length := by
  rw [macd_enc_length, macd_enc_length]

/-- constant size: any two states (in particular the states before and after any call) -/
theorem ppo_enc_length_stable (s s' : PercentagePriceOscillator F) : (PercentagePriceOscillator.enc tb s').length = (PercentagePriceOscillator.enc tb s).length := by
  rw [ppo_enc_length, ppo_enc_length]

/-- constant size: any two states (in particular the states before and after any call) -/
theorem obv_enc_length_stable (s s' : OnBalanceVolume F) : (OnBalanceVolume.enc tb s').length = (OnBalanceVolume.enc tb s).length := by
  rw [obv_enc_length, obv_enc_length]

/-- constant size: any two states (in particular the states before and after any call) -/
theorem dataItem_enc_length_stable (s s' : DataItem F) : (DataItem.enc tb s').length = (DataItem.enc tb s).length := by
  rw [dataItem_enc_length, dataItem_enc_length]

/-! #### Indicators carrying a TrueRange: 1 → 9 bytes at the first input, then constant -/

theorem tr_enc_length_next (s : TrueRange F) (x : F) :
    ∃ r, s.next x = some r ∧ (TrueRange.enc tb r.1).length = 9 := by
  obtain ⟨r, hr, hs⟩ := TrueRange.next_total s x
  exact ⟨r, hr, by rw [tr_enc_length, trLen_of_isSome hs]⟩

theorem tr_enc_length_nextBar (s : TrueRange F) (b : Bar F) :
    ∃ r, s.nextBar b = some r ∧ (TrueRange.enc tb r.1).length = 9 := by
  obtain ⟨r, hr, hs⟩ := TrueRange.nextBar_total s b
  exact ⟨r, hr, by rw [tr_enc_length, trLen_of_isSome hs]⟩

theorem tr_enc_length_reset (s : TrueRange F) :
    ∃ r, s.reset = some r ∧ (TrueRange.enc tb r).length = 1 := by
  obtain ⟨r, hr, hn⟩ := TrueRange.reset_shape s
  exact ⟨r, hr, by rw [tr_enc_length, trLen_of_none hn]⟩

/-- once an input has been seen the size no longer changes under `next`/`next(&bar)` -/
theorem tr_enc_length_stable (s : TrueRange F) (hs : s.prev_close ≠ none) :
    (∀ x, ∃ r, s.next x = some r ∧ (TrueRange.enc tb r.1).length = (TrueRange.enc tb s).length) ∧
    (∀ b, ∃ r, s.nextBar b = some r ∧ (TrueRange.enc tb r.1).length = (TrueRange.enc tb s).length) := by
  have h9 : (TrueRange.enc tb s).length = 9 := by
    rw [tr_enc_length]; obtain ⟨pc⟩ := s; cases pc with
    | none => exact absurd rfl hs
    | some v => rfl
  refine ⟨fun x => ?_, fun b => ?_⟩
  · obtain ⟨r, hr, hl⟩ := tr_enc_length_next tb s x; exact ⟨r, hr, hl.trans h9.symm⟩
  · obtain ⟨r, hr, hl⟩ := tr_enc_length_nextBar tb s b; exact ⟨r, hr, hl.trans h9.symm⟩

theorem atr_enc_length_next (s : AverageTrueRange F) (x : F) :
    ∃ r, s.next x = some r ∧ (AverageTrueRange.enc tb r.1).length = 25 + 9 := by
  obtain ⟨r, hr, hs⟩ := AverageTrueRange.next_some_shape s x
  exact ⟨r, hr, by rw [atr_enc_length, trLen_of_isSome hs]⟩

theorem atr_enc_length_nextBar (s : AverageTrueRange F) (b : Bar F) :
    ∃ r, s.nextBar b = some r ∧ (AverageTrueRange.enc tb r.1).length = 25 + 9 := by
  obtain ⟨r, hr, hs⟩ := AverageTrueRange.nextBar_some_shape s b
  exact ⟨r, hr, by rw [atr_enc_length, trLen_of_isSome hs]⟩

theorem atr_enc_length_reset (s : AverageTrueRange F) (h : AverageTrueRange.WF s) :
    ∃ r, s.reset = some r ∧ (AverageTrueRange.enc tb r).length = 25 + 1 := by
  obtain ⟨r, hr, _, _, hn⟩ := AverageTrueRange.reset_shape s h
  exact ⟨r, hr, by rw [atr_enc_length, trLen_of_none hn]⟩

theorem kc_enc_length_next (s : KeltnerChannel F) (x : F) :
    ∃ r, s.next x = some r ∧ (KeltnerChannel.enc tb r.1).length = 66 + 9 := by
  obtain ⟨r, hr, hs⟩ := KeltnerChannel.next_some_shape s x
  exact ⟨r, hr, by rw [kc_enc_length, trLen_of_isSome hs]⟩

theorem kc_enc_length_nextBar (s : KeltnerChannel F) (b : Bar F) :
    ∃ r, s.nextBar b = some r ∧ (KeltnerChannel.enc tb r.1).length = 66 + 9 := by
  obtain ⟨r, hr, hs⟩ := KeltnerChannel.nextBar_some_shape s b
  exact ⟨r, hr, by rw [kc_enc_length, trLen_of_isSome hs]⟩

theorem kc_enc_length_reset (s : KeltnerChannel F) (h : KeltnerChannel.WF s) :
    ∃ r, s.reset = some r ∧ (KeltnerChannel.enc tb r).length = 66 + 1 := by
  obtain ⟨r, hr, _, _, _, hn⟩ := KeltnerChannel.reset_shape s h
  exact ⟨r, hr, by rw [kc_enc_length, trLen_of_none hn]⟩

/-- ChandelierExit = ATR (TrueRange + EMA) + two windows of the same period + multiplier -/
theorem ce_enc_length_nextBar (s : ChandelierExit F) (h : ChandelierExit.WF s) (b : Bar F) :
    ∃ r, s.nextBar b = some r ∧
      (ChandelierExit.enc tb r.1).length = 9 + 25 + 2 * (8 * 3 + 8 + 8 * s.atr.ema.period) + 8 := by
  obtain ⟨r, hr, hw, hp, _, hs⟩ := ChandelierExit.nextBar_shape s b h
  have hp' : r.1.atr.ema.period = s.atr.ema.period := hp
  exact ⟨r, hr, by rw [ce_enc_length tb r.1 hw, trLen_of_isSome hs, hp']⟩

theorem ce_enc_length_reset (s : ChandelierExit F) (h : ChandelierExit.WF s) :
    ∃ r, s.reset = some r ∧
      (ChandelierExit.enc tb r).length = 1 + 25 + 2 * (8 * 3 + 8 + 8 * s.atr.ema.period) + 8 := by
  obtain ⟨r, hr, hw, hp, _, hn⟩ := ChandelierExit.reset_shape s h
  have hp' : r.atr.ema.period = s.atr.ema.period := hp
  exact ⟨r, hr, by rw [ce_enc_length tb r hw, trLen_of_none hn, hp']⟩

/-- once the first bar has been seen, `next(&bar)` no longer changes the size -/
theorem ce_enc_length_stable (s : ChandelierExit F) (h : ChandelierExit.WF s)
    (hs : s.atr.true_range.prev_close ≠ none) (b : Bar F) :
    ∃ r, s.nextBar b = some r ∧
      (ChandelierExit.enc tb r.1).length = (ChandelierExit.enc tb s).length := by
  obtain ⟨r, hr, hl⟩ := ce_enc_length_nextBar tb s h b
  refine ⟨r, hr, ?_⟩
  rw [hl, ce_enc_length tb s h]
  have : trLen s.atr.true_range = 9 := by
    unfold trLen; split
    · rename_i hn; exact absurd hn hs
    · rfl
  omega

/-- ATR / KeltnerChannel: same statement -/
theorem atr_enc_length_stable (s : AverageTrueRange F) (hs : s.true_range.prev_close ≠ none) :
    (∀ x, ∃ r, s.next x = some r ∧
      (AverageTrueRange.enc tb r.1).length = (AverageTrueRange.enc tb s).length) ∧
    (∀ b, ∃ r, s.nextBar b = some r ∧
      (AverageTrueRange.enc tb r.1).length = (AverageTrueRange.enc tb s).length) := by
  have h9 : (AverageTrueRange.enc tb s).length = 25 + 9 := by
    rw [atr_enc_length]
    have : trLen s.true_range = 9 := by
      unfold trLen; split
      · rename_i hn; exact absurd hn hs
      · rfl
    omega
  refine ⟨fun x => ?_, fun b => ?_⟩
  · obtain ⟨r, hr, hl⟩ := atr_enc_length_next tb s x; exact ⟨r, hr, hl.trans h9.symm⟩
  · obtain ⟨r, hr, hl⟩ := atr_enc_length_nextBar tb s b; exact ⟨r, hr, hl.trans h9.symm⟩

theorem kc_enc_length_stable (s : KeltnerChannel F) (hs : s.atr.true_range.prev_close ≠ none) :
    (∀ x, ∃ r, s.next x = some r ∧
      (KeltnerChannel.enc tb r.1).length = (KeltnerChannel.enc tb s).length) ∧
    (∀ b, ∃ r, s.nextBar b = some r ∧
      (KeltnerChannel.enc tb r.1).length = (KeltnerChannel.enc tb s).length) := by
  have h9 : (KeltnerChannel.enc tb s).length = 66 + 9 := by
    rw [kc_enc_length]
    have : trLen s.atr.true_range = 9 := by
      unfold trLen; split
      · rename_i hn; exact absurd hn hs
      · rfl
    omega
  refine ⟨fun x => ?_, fun b => ?_⟩
  · obtain ⟨r, hr, hl⟩ := kc_enc_length_next tb s x; exact ⟨r, hr, hl.trans h9.symm⟩
  · obtain ⟨r, hr, hl⟩ := kc_enc_length_nextBar tb s b; exact ⟨r, hr, hl.trans h9.symm⟩

end Stable

end TaRs.Props.C18
