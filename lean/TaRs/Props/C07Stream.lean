/-
  C07 (whole streams) — bounded oscillators stay inside their documented range, for EVERY
  output of EVERY stream.

  L2 (exact arithmetic at `X K`).  `TaRs/Props/C07.lean` has the one-step algebra (`pct_range`,
  `ema_step_hull`, `rsi_value_range`); this file lifts it to whole streams:

    for every accepted period, every stream of finite inputs of ANY length (the empty stream
    included), the run from the constructor's state never panics and EVERY output is a finite
    value `X.fin v` with `0 ≤ v ≤ 100` (`≤ 1` for EfficiencyRatio).

  Route.  RSI and SlowStochastic are compositions with an EMA; their whole-stream formulas are
  the L0 theorems `C03.rsi_stream` / `C03.slowstoch_stream` (valid for every `[Scalar F]`), so
  what is left at `X K` is: (1) the lists fed to the EMAs consist of finite values inside a
  convex set (`[0, ∞)` for RSI's gains/losses, `[0, 100]` for the `%K` values), (2) an EMA with
  `α = 2/(n+1) ∈ (0, 1]` maps such a list to such a list (`emaSeq_closed`), (3) the one-step
  range lemma per element.  ER, MFI and FastStochastic restate the exact window theorems of
  `Lemmas/Exact/*` in the same `∀ y ∈ outs` form.

  Every theorem comes in two forms: `X_stream_range` (the `∀ y ∈ outs` statement alone) and
  `X_stream_range_full` (additionally `outs.length = inputs.length`, so the statement is not
  vacuous: there is one output per input).

  Float-only effects (the 1e-9 rounding slack at the 0/100 boundary, underflow of RSI's 0.1
  seeds) are outside `X K` and are sampled by the differential harness.
-/
import TaRs.Props.C07
import TaRs.Props.C03a
import TaRs.Lemmas.Exact.FastStochastic
import TaRs.Lemmas.Exact.EfficiencyRatio
import TaRs.Lemmas.Exact.MoneyFlowIndex
set_option linter.unusedSectionVars false
namespace TaRs.Props.C07
open TaRs TaRs.Gen TaRs.Rs TaRs.Spec

variable {K : Type} [Field K] [LinearOrder K] [IsStrictOrderedRing K] [HasSqrt K]

/-! ## Generic list facts -/

/-- an element of a `zipWith` comes from one element of each list -/
theorem mem_zipWith {α β γ : Type} (f : α → β → γ) (A : List α) (B : List β) (o : γ)
    (h : o ∈ List.zipWith f A B) : ∃ a ∈ A, ∃ b ∈ B, o = f a b := by
  induction A generalizing B with
  | nil => simp at h
  | cons a t ih =>
    cases B with
    | nil => simp at h
    | cons b u =>
      simp only [List.zipWith_cons_cons, List.mem_cons] at h
      rcases h with rfl | h
      · exact ⟨a, by simp, b, by simp, rfl⟩
      · obtain ⟨a', ha, b', hb, e⟩ := ih u h
        exact ⟨a', by simp [ha], b', by simp [hb], e⟩

/-- from the indexed form used by `Lemmas/Exact/*` to the membership form used here -/
theorem mem_of_index (outs : List (X K)) (m : Nat) (hi : K) (hl : outs.length = m)
    (h : ∀ i, i < m → ∃ v : K, outs[i]? = some (X.fin v) ∧ 0 ≤ v ∧ v ≤ hi) :
    ∀ y ∈ outs, ∃ v : K, y = X.fin v ∧ 0 ≤ v ∧ v ≤ hi := by
  intro y hy
  obtain ⟨i, hlt, rfl⟩ := List.mem_iff_getElem.mp hy
  obtain ⟨v, hv, h0, h1⟩ := h i (hl ▸ hlt)
  rw [List.getElem?_eq_getElem hlt] at hv
  exact ⟨v, Option.some.inj hv, h0, h1⟩

/-! ## EMA preserves every α-convex set of finite values -/

theorem emaFrom_closed (P : K → Prop) (α : K)
    (hP : ∀ x y, P x → P y → P (α * x + (1 - α) * y)) (L : List (X K))
    (hL : ∀ o ∈ L, ∃ v, o = X.fin v ∧ P v) (prev : K) (hp : P prev) :
    ∀ o ∈ C02.emaFrom (X.fin α) (X.fin prev) L, ∃ v, o = X.fin v ∧ P v := by
  induction L generalizing prev with
  | nil => intro o ho; simp [C02.emaFrom] at ho
  | cons a t ih =>
    obtain ⟨x, rfl, hx⟩ := hL a (by simp)
    have e : Scalar.add (Scalar.mul (X.fin α) (X.fin x))
        (Scalar.mul (Scalar.sub (Scalar.lit 1 0) (X.fin α)) (X.fin prev))
          = X.fin (α * x + (1 - α) * prev) := by simp
    intro o ho
    simp only [C02.emaFrom, e, List.mem_cons] at ho
    rcases ho with rfl | ho
    · exact ⟨_, rfl, hP _ _ hx hp⟩
    · exact ih (fun o ho => hL o (by simp [ho])) _ (hP _ _ hx hp) o ho

/-- a set of finite values closed under `(x, y) ↦ α·x + (1−α)·y` that contains every input
    contains every EMA output (the first output is the first input) -/
theorem emaSeq_closed (P : K → Prop) (α : K)
    (hP : ∀ x y, P x → P y → P (α * x + (1 - α) * y)) (L : List (X K))
    (hL : ∀ o ∈ L, ∃ v, o = X.fin v ∧ P v) :
    ∀ o ∈ C02.emaSeq (X.fin α) L, ∃ v, o = X.fin v ∧ P v := by
  cases L with
  | nil => intro o ho; simp [C02.emaSeq] at ho
  | cons a t =>
    obtain ⟨x, rfl, hx⟩ := hL a (by simp)
    intro o ho
    simp only [C02.emaSeq, List.mem_cons] at ho
    rcases ho with rfl | ho
    · exact ⟨_, rfl, hx⟩
    · exact emaFrom_closed P α hP t (fun o ho => hL o (by simp [ho])) x hx o ho

/-- EMA(n), `n ≥ 1`, of finite non-negative values: finite non-negative values -/
theorem emaSeq_fin_nonneg (n : Nat) (hn : 0 < n) (L : List (X K))
    (hL : ∀ o ∈ L, ∃ v : K, o = X.fin v ∧ 0 ≤ v) :
    ∀ o ∈ C02.emaSeq (C02.alpha n) L, ∃ v : K, o = X.fin v ∧ 0 ≤ v := by
  obtain ⟨a0, a1⟩ := alpha_range (K := K) n hn
  rw [C02.alpha_eq, alpha_fin]
  exact emaSeq_closed (fun v => 0 ≤ v) _
    (fun x y hx hy => add_nonneg (mul_nonneg a0.le hx) (mul_nonneg (by linarith) hy)) L hL

/-- EMA(n), `n ≥ 1`, of finite values in `[lo, hi]`: finite values in `[lo, hi]` -/
theorem emaSeq_fin_hull (n : Nat) (hn : 0 < n) (lo hi : K) (L : List (X K))
    (hL : ∀ o ∈ L, ∃ v : K, o = X.fin v ∧ lo ≤ v ∧ v ≤ hi) :
    ∀ o ∈ C02.emaSeq (C02.alpha n) L, ∃ v : K, o = X.fin v ∧ lo ≤ v ∧ v ≤ hi := by
  obtain ⟨a0, a1⟩ := alpha_range (K := K) n hn
  rw [C02.alpha_eq, alpha_fin]
  exact emaSeq_closed (fun v => lo ≤ v ∧ v ≤ hi) _
    (fun x y hx hy => ema_step_hull _ x y lo hi a0.le a1 hx hy) L hL

/-! ## RSI -/

theorem gainsFrom_fin_nonneg (p : K) (xs : List K) :
    ∀ o ∈ C03.gainsFrom (X.fin p) (xs.map X.fin), ∃ v : K, o = X.fin v ∧ 0 ≤ v := by
  induction xs generalizing p with
  | nil => intro o ho; simp [C03.gainsFrom] at ho
  | cons x t ih =>
    intro o ho
    simp only [List.map_cons, C03.gainsFrom, List.mem_cons] at ho
    rcases ho with rfl | ho
    · by_cases h : p < x
      · exact ⟨x - p, by simp [h], by linarith⟩
      · exact ⟨0, by simp [h], le_refl _⟩
    · exact ih x o ho

theorem lossesFrom_fin_nonneg (p : K) (xs : List K) :
    ∀ o ∈ C03.lossesFrom (X.fin p) (xs.map X.fin), ∃ v : K, o = X.fin v ∧ 0 ≤ v := by
  induction xs generalizing p with
  | nil => intro o ho; simp [C03.lossesFrom] at ho
  | cons x t ih =>
    intro o ho
    simp only [List.map_cons, C03.lossesFrom, List.mem_cons] at ho
    rcases ho with rfl | ho
    · by_cases h : p < x
      · exact ⟨0, by simp [h], le_refl _⟩
      · exact ⟨p - x, by simp [h], by linarith [not_lt.mp h]⟩
    · exact ih x o ho

/-- the seed `0.1` at `X K` is the finite positive value `1/10` -/
theorem seed_fin : (Scalar.lit 1 1 : X K) = X.fin (1 / 10) := by
  rw [X.lit_fin]; norm_num

/-- the values RSI feeds to its up-EMA on a finite stream: `0.1`, then `max (xₜ − xₜ₋₁) 0` -/
theorem gains_fin_nonneg (xs : List K) :
    ∀ o ∈ C03.gains (xs.map X.fin), ∃ v : K, o = X.fin v ∧ 0 ≤ v := by
  cases xs with
  | nil => intro o ho; simp [C03.gains] at ho
  | cons x t =>
    intro o ho
    simp only [List.map_cons, C03.gains, List.mem_cons] at ho
    rcases ho with rfl | ho
    · exact ⟨1 / 10, seed_fin, by norm_num⟩
    · exact gainsFrom_fin_nonneg x t o ho

/-- the values RSI feeds to its down-EMA on a finite stream: `0.1`, then `max (xₜ₋₁ − xₜ) 0` -/
theorem losses_fin_nonneg (xs : List K) :
    ∀ o ∈ C03.losses (xs.map X.fin), ∃ v : K, o = X.fin v ∧ 0 ≤ v := by
  cases xs with
  | nil => intro o ho; simp [C03.losses] at ho
  | cons x t =>
    intro o ho
    simp only [List.map_cons, C03.losses, List.mem_cons] at ho
    rcases ho with rfl | ho
    · exact ⟨1 / 10, seed_fin, by norm_num⟩
    · exact lossesFrom_fin_nonneg x t o ho

/-- RSI(n), `n ≥ 1`, on ANY finite stream: no call panics, one output per input, and every
    output is a finite value in `[0, 100]`. -/
theorem rsi_stream_range_full (n : Nat) (hn : 0 < n) (xs : List K) :
    ∃ s' outs,
      runOut RelativeStrengthIndex.next (RelativeStrengthIndex.fresh n : RelativeStrengthIndex (X K))
        (xs.map X.fin) = some (s', outs) ∧
      outs.length = xs.length ∧
      ∀ y ∈ outs, ∃ v : K, y = X.fin v ∧ 0 ≤ v ∧ v ≤ 100 := by
  obtain ⟨s', e⟩ := C03.rsi_stream (F := X K) n (xs.map X.fin)
  refine ⟨s', _, e, by rw [C03.rsiSeq_length, List.length_map], ?_⟩
  intro y hy
  obtain ⟨u, hu, d, hd, rfl⟩ := mem_zipWith _ _ _ _ hy
  obtain ⟨u', rfl, hu'⟩ := emaSeq_fin_nonneg n hn _ (gains_fin_nonneg xs) u hu
  obtain ⟨d', rfl, hd'⟩ := emaSeq_fin_nonneg n hn _ (losses_fin_nonneg xs) d hd
  exact rsi_value_range u' d' hu' hd'

/-- C07 for RSI over whole streams: for every period `n ≥ 1` and every stream of finite inputs
    of any length, EVERY output is `X.fin v` with `0 ≤ v ≤ 100`.
    (U and D are EMAs, α ∈ (0, 1], of non-negative finite values seeded with 0.1, hence
    non-negative and finite; the output is 50 by the guard or `100·U/(U+D)`.) -/
theorem rsi_stream_range (n : Nat) (hn : 0 < n) (xs : List K) :
    ∃ s' outs,
      runOut RelativeStrengthIndex.next (RelativeStrengthIndex.fresh n : RelativeStrengthIndex (X K))
        (xs.map X.fin) = some (s', outs) ∧
      ∀ y ∈ outs, ∃ v : K, y = X.fin v ∧ 0 ≤ v ∧ v ≤ 100 := by
  obtain ⟨s', outs, e, _, h⟩ := rsi_stream_range_full n hn xs
  exact ⟨s', outs, e, h⟩

/-- Corollary for C08 (flat stretches).  On ANY finite stream — in particular arbitrary
    activity `pre` followed by a flat stretch `c, c, …, c` of ANY length `k` — RSI never
    panics and no output is NaN or ±∞: every output is a finite value in `[0, 100]`.

    Immediate from `rsi_stream_range_full`: nothing about the shape of the stream is used.  In
    exact arithmetic the two EMAs, seeded with 0.1, decay geometrically on a flat stretch but
    never reach 0, so the division `100·U/(U+D)` is always defined; the guard
    `up + down == 0 → 50` is only reachable here when U = D = 0 exactly, and matters for f64,
    where the decaying sums underflow to 0 after enough flat inputs (float-only, sampled by the
    harness; the guard turns the would-be `0/0 = NaN` into 50). -/
theorem rsi_flat_finite (n : Nat) (hn : 0 < n) (pre : List K) (c : K) (k : Nat) :
    ∃ s' outs,
      runOut RelativeStrengthIndex.next (RelativeStrengthIndex.fresh n : RelativeStrengthIndex (X K))
        ((pre ++ List.replicate k c).map X.fin) = some (s', outs) ∧
      outs.length = pre.length + k ∧
      ∀ y ∈ outs, y ≠ X.nan ∧ y ≠ X.pinf ∧ y ≠ X.ninf ∧
        ∃ v : K, y = X.fin v ∧ 0 ≤ v ∧ v ≤ 100 := by
  obtain ⟨s', outs, e, hl, h⟩ := rsi_stream_range_full n hn (pre ++ List.replicate k c)
  refine ⟨s', outs, e, by simpa using hl, ?_⟩
  intro y hy
  obtain ⟨v, rfl, h0, h1⟩ := h y hy
  exact ⟨by simp, by simp, by simp, v, rfl, h0, h1⟩

/-! ## FastStochastic / SlowStochastic -/

/-- FastStochastic(n), scalar path, on ANY finite stream: one output per input, every output a
    finite value in `[0, 100]` (membership form of `FastStochastic.stream_range`). -/
theorem faststoch_stream_range_full (n : Nat) (hn : 0 < n) (h8 : n * 8 ≤ isizeMax) (xs : List K) :
    ∃ s' outs,
      runOut FastStochastic.next (FastStochastic.fresh n : FastStochastic (X K)) (xs.map X.fin)
        = some (s', outs) ∧
      outs.length = xs.length ∧
      ∀ y ∈ outs, ∃ v : K, y = X.fin v ∧ 0 ≤ v ∧ v ≤ 100 := by
  obtain ⟨s', outs, e, hl, h⟩ := FastStochastic.stream_range n hn h8 xs
  exact ⟨s', outs, e, hl, mem_of_index outs _ 100 hl h⟩

theorem faststoch_stream_range (n : Nat) (hn : 0 < n) (h8 : n * 8 ≤ isizeMax) (xs : List K) :
    ∃ s' outs,
      runOut FastStochastic.next (FastStochastic.fresh n : FastStochastic (X K)) (xs.map X.fin)
        = some (s', outs) ∧
      ∀ y ∈ outs, ∃ v : K, y = X.fin v ∧ 0 ≤ v ∧ v ≤ 100 := by
  obtain ⟨s', outs, e, _, h⟩ := faststoch_stream_range_full n hn h8 xs
  exact ⟨s', outs, e, h⟩

/-- FastStochastic(n), bar path, on any stream of finite bars with `low ≤ close ≤ high`. -/
theorem faststoch_bar_stream_range_full (n : Nat) (hn : 0 < n) (h8 : n * 8 ≤ isizeMax)
    (bs : List (Bar K)) (hb : ∀ b ∈ bs, b.low ≤ b.close ∧ b.close ≤ b.high) :
    ∃ s' outs,
      runOut FastStochastic.nextBar (FastStochastic.fresh n : FastStochastic (X K))
        (bs.map FastStochastic.finBar) = some (s', outs) ∧
      outs.length = bs.length ∧
      ∀ y ∈ outs, ∃ v : K, y = X.fin v ∧ 0 ≤ v ∧ v ≤ 100 := by
  obtain ⟨s', outs, e, hl, h⟩ := FastStochastic.stream_bar_range n hn h8 bs hb
  exact ⟨s', outs, e, hl, mem_of_index outs _ 100 hl h⟩

/-- SlowStochastic(sp, ep), scalar path, on ANY finite stream: one output per input, every
    output a finite value in `[0, 100]`. -/
theorem slowstoch_stream_range_full (sp ep : Nat) (hs : 0 < sp) (h8 : sp * 8 ≤ isizeMax)
    (he : 0 < ep) (xs : List K) :
    ∃ s' outs,
      runOut SlowStochastic.next (SlowStochastic.fresh sp ep : SlowStochastic (X K)) (xs.map X.fin)
        = some (s', outs) ∧
      outs.length = xs.length ∧
      ∀ y ∈ outs, ∃ v : K, y = X.fin v ∧ 0 ≤ v ∧ v ≤ 100 := by
  obtain ⟨sf, ks, ek, hl, hk⟩ := faststoch_stream_range_full sp hs h8 xs
  obtain ⟨s', e⟩ := C03.slowstoch_stream_of sp ep (xs.map X.fin) sf ks ek
  exact ⟨s', _, e, by rw [C02.emaSeq_length, hl], emaSeq_fin_hull ep he 0 100 ks hk⟩

/-- C07 for SlowStochastic over whole streams: for every accepted `sp`, every `ep ≥ 1` and every
    stream of finite inputs of any length, EVERY output is `X.fin v` with `0 ≤ v ≤ 100`: the
    outputs are the EMA (a convex combination, α ∈ (0, 1]) of the FastStochastic outputs
    (`C03.slowstoch_stream`), which lie in `[0, 100]` (`FastStochastic.stream_range`). -/
theorem slowstoch_stream_range (sp ep : Nat) (hs : 0 < sp) (h8 : sp * 8 ≤ isizeMax)
    (he : 0 < ep) (xs : List K) :
    ∃ s' outs,
      runOut SlowStochastic.next (SlowStochastic.fresh sp ep : SlowStochastic (X K)) (xs.map X.fin)
        = some (s', outs) ∧
      ∀ y ∈ outs, ∃ v : K, y = X.fin v ∧ 0 ≤ v ∧ v ≤ 100 := by
  obtain ⟨s', outs, e, _, h⟩ := slowstoch_stream_range_full sp ep hs h8 he xs
  exact ⟨s', outs, e, h⟩

/-- SlowStochastic(sp, ep), bar path, on any stream of finite bars with `low ≤ close ≤ high`. -/
theorem slowstoch_bar_stream_range_full (sp ep : Nat) (hs : 0 < sp) (h8 : sp * 8 ≤ isizeMax)
    (he : 0 < ep) (bs : List (Bar K)) (hb : ∀ b ∈ bs, b.low ≤ b.close ∧ b.close ≤ b.high) :
    ∃ s' outs,
      runOut SlowStochastic.nextBar (SlowStochastic.fresh sp ep : SlowStochastic (X K))
        (bs.map FastStochastic.finBar) = some (s', outs) ∧
      outs.length = bs.length ∧
      ∀ y ∈ outs, ∃ v : K, y = X.fin v ∧ 0 ≤ v ∧ v ≤ 100 := by
  obtain ⟨sf, ks, ek, hl, hk⟩ := faststoch_bar_stream_range_full sp hs h8 bs hb
  obtain ⟨s', e⟩ := C03.slowstoch_bar_stream_of sp ep (bs.map FastStochastic.finBar) sf ks ek
  exact ⟨s', _, e, by rw [C02.emaSeq_length, hl], emaSeq_fin_hull ep he 0 100 ks hk⟩

/-! ## EfficiencyRatio -/

/-- the spec value lies in `[0, 1]` for every prefix (0 on the never-used empty prefix) -/
theorem erSpec_range (n : Nat) (hn : 0 < n) (p : List K) :
    0 ≤ EfficiencyRatio.erSpec n p ∧ EfficiencyRatio.erSpec n p ≤ 1 := by
  rcases List.eq_nil_or_concat p with rfl | ⟨h, x, rfl⟩
  · simp [EfficiencyRatio.erSpec]
  · rw [List.concat_eq_append, EfficiencyRatio.erSpec_snoc]
    exact EfficiencyRatio.erOut_range n hn h x

/-- EfficiencyRatio(n) on ANY finite stream (no condition on the inputs): one output per input,
    every output a finite value in `[0, 1]`. -/
theorem er_stream_range_full (n : Nat) (hn : 0 < n) (h8 : n * 8 ≤ isizeMax) (xs : List K) :
    ∃ s' outs,
      runOut EfficiencyRatio.next (EfficiencyRatio.fresh n : EfficiencyRatio (X K)) (xs.map X.fin)
        = some (s', outs) ∧
      outs.length = xs.length ∧
      ∀ y ∈ outs, ∃ v : K, y = X.fin v ∧ 0 ≤ v ∧ v ≤ 1 := by
  obtain ⟨s', e⟩ := EfficiencyRatio.stream n hn h8 xs
  refine ⟨s', _, e, by rw [List.length_map, prefixes_length], ?_⟩
  intro y hy
  obtain ⟨p, _, rfl⟩ := List.mem_map.mp hy
  exact ⟨_, rfl, (erSpec_range n hn p).1, (erSpec_range n hn p).2⟩

theorem er_stream_range (n : Nat) (hn : 0 < n) (h8 : n * 8 ≤ isizeMax) (xs : List K) :
    ∃ s' outs,
      runOut EfficiencyRatio.next (EfficiencyRatio.fresh n : EfficiencyRatio (X K)) (xs.map X.fin)
        = some (s', outs) ∧
      ∀ y ∈ outs, ∃ v : K, y = X.fin v ∧ 0 ≤ v ∧ v ≤ 1 := by
  obtain ⟨s', outs, e, _, h⟩ := er_stream_range_full n hn h8 xs
  exact ⟨s', outs, e, h⟩

/-! ## MoneyFlowIndex -/

/-- MoneyFlowIndex(n) on any stream of bars with finite fields and non-negative raw money flow
    `typical price · volume` (only needed from the second bar on): one output per bar, every
    output a finite value in `[0, 100]`. -/
theorem mfi_stream_range_full (n : Nat) (hn : 0 < n) (h8 : n * 8 ≤ isizeMax) (bs : List (Bar K))
    (hv : ∀ b ∈ bs.tail, 0 ≤ CommodityChannelIndex.tpBar b * b.volume) :
    ∃ s' outs,
      runOut MoneyFlowIndex.nextBar (MoneyFlowIndex.fresh n : MoneyFlowIndex (X K))
        (bs.map CommodityChannelIndex.finBar) = some (s', outs) ∧
      outs.length = bs.length ∧
      ∀ y ∈ outs, ∃ v : K, y = X.fin v ∧ 0 ≤ v ∧ v ≤ 100 := by
  cases bs with
  | nil => exact ⟨_, [], rfl, rfl, by intro y hy; simp at hy⟩
  | cons b0 t =>
    obtain ⟨s', e⟩ := MoneyFlowIndex.stream n hn h8 b0 t (by simpa using hv)
    refine ⟨s', _, e, ?_, ?_⟩
    · simp [prefixes_length, MoneyFlowIndex.flows, MoneyFlowIndex.flowsFrom_length]
    · intro y hy
      simp only [List.mem_cons, List.mem_map] at hy
      rcases hy with rfl | ⟨q, _, rfl⟩
      · exact ⟨50, rfl, by norm_num, by norm_num⟩
      · exact MoneyFlowIndex.mfiW_range _

theorem mfi_stream_range (n : Nat) (hn : 0 < n) (h8 : n * 8 ≤ isizeMax) (bs : List (Bar K))
    (hv : ∀ b ∈ bs, 0 ≤ CommodityChannelIndex.tpBar b * b.volume) :
    ∃ s' outs,
      runOut MoneyFlowIndex.nextBar (MoneyFlowIndex.fresh n : MoneyFlowIndex (X K))
        (bs.map CommodityChannelIndex.finBar) = some (s', outs) ∧
      ∀ y ∈ outs, ∃ v : K, y = X.fin v ∧ 0 ≤ v ∧ v ≤ 100 := by
  obtain ⟨s', outs, e, _, h⟩ :=
    mfi_stream_range_full n hn h8 bs (fun b hb => hv b (List.mem_of_mem_tail hb))
  exact ⟨s', outs, e, h⟩

end TaRs.Props.C07
