/-
  C13 — incremental accumulators do not drift from recomputation over long streams.

  EXACT HALF (L2, theorem): after EVERY number of consecutive inputs without reset — the
  statement is by induction over the stream, with no bound on its length — the running
  accumulators of the generated code (SMA `sum`, WMA `sum`/`sum_flat`/`weight`, SD/BB `m`/`m2`,
  MAD `sum`, and the cursor/counter/ring contents) EQUAL the corresponding statistic of the
  current window recomputed from scratch.  In exact arithmetic there is nothing to drift: an
  update that fails to evict, or applies updates in an order that is not algebraically the
  window statistic, breaks the `step` lemma of Lemmas/Exact/*.  Variance ≥ 0 at every step.

  FLOAT HALF (runtime behaviour, NOT a theorem): the drift of the f64 accumulators themselves
  (2·10^6-step runs vs a from-scratch double-double evaluation of the window) is measured on the
  implementation by the harness; that is what "partial" means for this property.
  CCI and MFI accumulators: harness only (their exact specs belong to C03).
-/
import TaRs.Props.C01
set_option linter.unusedSectionVars false
namespace TaRs.Props.C13
open TaRs TaRs.Gen TaRs.Rs TaRs.Spec

variable {K : Type} [Field K] [LinearOrder K] [IsStrictOrderedRing K] [HasSqrt K]

/-- generic lift: a history-indexed invariant preserved by every step holds after every stream -/
private theorem lift {S O : Type} (next : S → X K → Option (S × O)) (Inv : S → List K → Prop)
    (hstep : ∀ s h x, Inv s h → ∃ s' y, next s (X.fin x) = some (s', y) ∧ Inv s' (h ++ [x]))
    (s0 : S) (h0 : List K) (i0 : Inv s0 h0) (xs : List K) :
    ∃ s' ys, runOut next s0 (xs.map X.fin) = some (s', ys) ∧ Inv s' (h0 ++ xs) := by
  induction xs generalizing s0 h0 with
  | nil => exact ⟨s0, [], rfl, by simpa using i0⟩
  | cons x xs ih =>
    obtain ⟨s1, y, e1, i1⟩ := hstep s0 h0 x i0
    obtain ⟨s2, ys, e2, i2⟩ := ih s1 (h0 ++ [x]) i1
    refine ⟨s2, y :: ys, ?_, by simpa using i2⟩
    rw [List.map_cons, runOut_cons next s0 (X.fin x) _ s1 y e1, e2]; rfl

/-- SMA: after any stream, `sum` is the sum of exactly the current window (and the ring is in step) -/
theorem sma_accumulator_exact (n : Nat) (hn : 0 < n) (h8 : n * 8 ≤ isizeMax) (xs : List K) :
    ∃ s' ys, runOut SimpleMovingAverage.next (SimpleMovingAverage.fresh n : SimpleMovingAverage (X K)) (xs.map X.fin) = some (s', ys) ∧
      s'.sum = X.fin (lastN n xs).sum ∧ s'.count = min xs.length n ∧ s'.index = xs.length % n := by
  obtain ⟨s', ys, e, i⟩ := lift SimpleMovingAverage.next (SimpleMovingAverage.Inv n)
    (fun s h x i => by obtain ⟨s', e, i'⟩ := SimpleMovingAverage.step i x; exact ⟨s', _, e, i'⟩)
    _ [] (SimpleMovingAverage.inv_fresh n hn h8) xs
  simp only [List.nil_append] at i
  exact ⟨s', ys, e, i.sum, by simpa using i.ring.cnt, by simpa using i.ring.idx⟩

/-- WMA: weighted sum, flat sum and weight all equal their from-scratch values -/
theorem wma_accumulators_exact (n : Nat) (hn : 0 < n) (h8 : n * 8 ≤ isizeMax) (xs : List K) :
    ∃ s' ys, runOut WeightedMovingAverage.next (WeightedMovingAverage.fresh n : WeightedMovingAverage (X K)) (xs.map X.fin) = some (s', ys) ∧
      s'.sum = X.fin (wsum (lastN n xs)) ∧ s'.sum_flat = X.fin (lastN n xs).sum ∧
      s'.weight = X.fin ((min xs.length n : Nat) : K) := by
  obtain ⟨s', ys, e, i⟩ := lift WeightedMovingAverage.next (WeightedMovingAverage.Inv n)
    (fun s h x i => by obtain ⟨s', e, i'⟩ := WeightedMovingAverage.step i x; exact ⟨s', _, e, i'⟩)
    _ [] (WeightedMovingAverage.inv_fresh n hn h8) xs
  simp only [List.nil_append] at i
  exact ⟨s', ys, e, i.sum, i.sum_flat, i.weight⟩

/-- SD (Welford): `m` is the window mean and `m2` the window's sum of squared deviations — in
    particular the variance is never negative — after any stream -/
theorem sd_accumulators_exact (n : Nat) (hn : 0 < n) (h8 : n * 8 ≤ isizeMax) (xs : List K) :
    ∃ s' ys, runOut StandardDeviation.next (StandardDeviation.fresh n : StandardDeviation (X K)) (xs.map X.fin) = some (s', ys) ∧
      s'.m = X.fin (Spec.mean (lastN n xs)) ∧
      s'.m2 = X.fin (((lastN n xs).length : K) * var (lastN n xs)) ∧ 0 ≤ ((lastN n xs).length : K) * var (lastN n xs) := by
  obtain ⟨s', e, i⟩ := StandardDeviation.stream_inv (K := K) n hn h8 xs
  refine ⟨s', _, e, i.m, i.m2_eq_var, ?_⟩
  exact mul_nonneg (Nat.cast_nonneg _) (StandardDeviation.var_nonneg _)

/-- MAD: the running sum is the sum of exactly the current window -/
theorem mad_accumulator_exact (n : Nat) (hn : 0 < n) (h8 : n * 8 ≤ isizeMax) (xs : List K) :
    ∃ s' ys, runOut MeanAbsoluteDeviation.next (MeanAbsoluteDeviation.fresh n : MeanAbsoluteDeviation (X K)) (xs.map X.fin) = some (s', ys) ∧
      s'.sum = X.fin (lastN n xs).sum := by
  obtain ⟨s', ys, e, i⟩ := lift MeanAbsoluteDeviation.next (MeanAbsoluteDeviation.Inv n)
    (fun s h x i => by obtain ⟨s', e, i'⟩ := MeanAbsoluteDeviation.step i x; exact ⟨s', _, e, i'⟩)
    _ [] (MeanAbsoluteDeviation.inv_fresh n hn h8) xs
  simp only [List.nil_append] at i
  exact ⟨s', ys, e, i.sum⟩

/-- BollingerBands carries the same Welford accumulators -/
theorem bb_accumulators_exact (n : Nat) (hn : 0 < n) (h8 : n * 8 ≤ isizeMax) (m : K) (xs : List K) :
    ∃ s', (∃ ys, runOut BollingerBands.next (BollingerBands.fresh n (X.fin m) : BollingerBands (X K)) (xs.map X.fin) = some (s', ys)) ∧
      s'.sd.m = X.fin (Spec.mean (lastN n xs)) ∧ s'.sd.m2 = X.fin (((lastN n xs).length : K) * var (lastN n xs)) := by
  obtain ⟨s', e, i⟩ := BollingerBands.stream_inv (K := K) n hn h8 m xs
  exact ⟨s', ⟨_, e⟩, i.sd.m, i.sd.m2_eq_var⟩

end TaRs.Props.C13
