/-
  C14 — scale and shift equivariance.

  "Multiplying every price by a constant c > 0 multiplies the price-valued outputs (SMA, EMA,
   WMA, Minimum, Maximum, SD, MAD, …) by c …; adding a constant shifts SMA/EMA/WMA/Minimum/
   Maximum/band levels by it and leaves SD, MAD, … unchanged, and Maximum(x) = −Minimum(−x)
   exactly."

  L2 (exact arithmetic, `X K`, `K` any linearly ordered field).  By the window theorems of C01
  the outputs of the GENERATED code over any finite stream are the textbook statistic of
  `lastN n prefix`; `prefixes` and `lastN` commute with `List.map`, so the property reduces to
  homogeneity / translation laws of the list functions `mean`, `var`, `mad`, `wma` (section
  "list lemmas") and, for Minimum / Maximum, to "a monotone map sends the least element of a
  list to the least element of the image" (order only).

  Shape of the stream theorems: ONE initial state `s0 = new(n)`, two runs — over `xs` and over
  the transformed stream — and the second output list is the first with every `X.fin v`
  replaced by `X.fin (c * v)` (resp. `v + d`, resp. unchanged).  Scaling holds for EVERY `c`
  for SMA/WMA/EMA (and `0 ≤ c` for MAD, Minimum, Maximum), not only `c > 0`.  EMA has no
  window: it is handled through the exact-field recursion `emaSeqK` (`ema_exact`), which is
  linear in the stream.  For SD the scaled
  output is stated as `sqrtK (c² · var W)` so that no law about `sqrtK` is needed
  (`sqrtK (c² v) = c · sqrtK v` for `c ≥ 0` is a property of the real square root).

  NOT carried: in f64 the laws hold only up to rounding (exactly for `c` a power of two barring
  overflow/underflow); that is sampled by the harness.
-/
import TaRs.Props.C01
import TaRs.Props.C02
set_option linter.unusedSectionVars false
namespace TaRs.Props.C14
open TaRs TaRs.Gen TaRs.Rs TaRs.Spec

variable {K : Type} [Field K] [LinearOrder K] [IsStrictOrderedRing K] [HasSqrt K]

/-! ## list lemmas -/

theorem lastN_map {α β : Type} (f : α → β) (n : Nat) (h : List α) :
    lastN n (h.map f) = (lastN n h).map f := by
  simp [lastN, List.map_drop]

theorem prefixes_map {α β : Type} (f : α → β) (xs : List α) :
    prefixes (xs.map f) = (prefixes xs).map (List.map f) := by
  simp [prefixes, List.map_take]

private theorem sum_map_mul (c : K) (w : List K) : (w.map (fun x => c * x)).sum = c * w.sum := by
  induction w with
  | nil => simp
  | cons a t ih => simp only [List.map_cons, List.sum_cons, ih]; ring

private theorem sum_map_add (d : K) (w : List K) :
    (w.map (fun x => x + d)).sum = w.sum + (w.length : K) * d := by
  induction w with
  | nil => simp
  | cons a t ih => simp only [List.map_cons, List.sum_cons, List.length_cons, ih]; push_cast; ring

private theorem length_ne_zero (w : List K) (hw : w ≠ []) : (w.length : K) ≠ 0 := by
  exact_mod_cast (List.length_pos_iff.mpr hw).ne'

/-- the mean is homogeneous (every `c`, every list) -/
theorem mean_scale (c : K) (w : List K) : mean (w.map (fun x => c * x)) = c * mean w := by
  unfold mean
  rw [sum_map_mul, List.length_map, mul_div_assoc]

/-- the mean is translation-equivariant (non-empty list: `mean [] = 0`) -/
theorem mean_shift (d : K) (w : List K) (hw : w ≠ []) : mean (w.map (fun x => x + d)) = mean w + d := by
  have hk := length_ne_zero w hw
  unfold mean
  rw [sum_map_add, List.length_map]
  field_simp

/-- the population variance is homogeneous of degree 2 -/
theorem var_scale (c : K) (w : List K) : var (w.map (fun x => c * x)) = c ^ 2 * var w := by
  unfold var
  rw [mean_scale, List.map_map, List.length_map]
  have e : ((fun x => (x - c * mean w) ^ 2) ∘ (fun x => c * x))
      = (fun y => c ^ 2 * y) ∘ (fun x => (x - mean w) ^ 2) := by
    funext x; simp only [Function.comp]; ring
  rw [e, ← List.map_map, sum_map_mul, mul_div_assoc]

/-- the population variance is translation-invariant -/
theorem var_shift (d : K) (w : List K) : var (w.map (fun x => x + d)) = var w := by
  by_cases hw : w = []
  · subst hw; rfl
  · unfold var
    rw [mean_shift d w hw, List.map_map, List.length_map]
    have e : ((fun x => (x - (mean w + d)) ^ 2) ∘ (fun x => x + d)) = (fun x => (x - mean w) ^ 2) := by
      funext x; simp only [Function.comp]; ring
    rw [e]

/-- the mean absolute deviation scales with `|c|` -/
theorem mad_scale_abs (c : K) (w : List K) : mad (w.map (fun x => c * x)) = |c| * mad w := by
  unfold mad
  rw [mean_scale, List.map_map, List.length_map]
  have e : ((fun x => |x - c * mean w|) ∘ (fun x => c * x))
      = (fun y => |c| * y) ∘ (fun x => |x - mean w|) := by
    funext x; simp only [Function.comp]; rw [← abs_mul]; congr 1; ring
  rw [e, ← List.map_map, sum_map_mul, mul_div_assoc]

theorem mad_scale (c : K) (hc : 0 ≤ c) (w : List K) : mad (w.map (fun x => c * x)) = c * mad w := by
  rw [mad_scale_abs, abs_of_nonneg hc]

/-- the mean absolute deviation is translation-invariant -/
theorem mad_shift (d : K) (w : List K) : mad (w.map (fun x => x + d)) = mad w := by
  by_cases hw : w = []
  · subst hw; rfl
  · unfold mad
    rw [mean_shift d w hw, List.map_map, List.length_map]
    have e : ((fun x => |x - (mean w + d)|) ∘ (fun x => x + d)) = (fun x => |x - mean w|) := by
      funext x; simp only [Function.comp]; congr 1; ring
    rw [e]

theorem wsum_scale (c : K) (w : List K) : wsum (w.map (fun x => c * x)) = c * wsum w := by
  induction w using List.reverseRecOn with
  | nil => simp [wsum]
  | append_singleton t a ih =>
    rw [List.map_append, List.map_cons, List.map_nil, WeightedMovingAverage.wsum_append_one,
      WeightedMovingAverage.wsum_append_one, ih, List.length_map]
    ring

theorem wsum_shift (d : K) (w : List K) :
    wsum (w.map (fun x => x + d)) = wsum w + d * ((w.length : K) * ((w.length : K) + 1) / 2) := by
  induction w using List.reverseRecOn with
  | nil => simp [wsum]
  | append_singleton t a ih =>
    rw [List.map_append, List.map_cons, List.map_nil, WeightedMovingAverage.wsum_append_one,
      WeightedMovingAverage.wsum_append_one, ih, List.length_map]
    simp only [List.length_append, List.length_singleton]
    push_cast
    ring

/-- the linearly weighted mean is homogeneous -/
theorem wma_scale (c : K) (w : List K) : wma (w.map (fun x => c * x)) = c * wma w := by
  unfold wma
  rw [wsum_scale, List.length_map, mul_div_assoc]

/-- the linearly weighted mean is translation-equivariant (weights sum to 1; non-empty list) -/
theorem wma_shift (d : K) (w : List K) (hw : w ≠ []) : wma (w.map (fun x => x + d)) = wma w + d := by
  have ht := WeightedMovingAverage.tri_ne_zero (K := K) w.length (List.length_pos_iff.mpr hw)
  unfold wma
  rw [wsum_shift, List.length_map]
  generalize (w.length : K) * ((w.length : K) + 1) / 2 = T at ht ⊢
  rw [add_div, mul_div_assoc, div_self ht, mul_one]

/-! ## from lists to streams -/

private theorem mem_prefixes_ne_nil {α : Type} {xs h : List α} (hh : h ∈ prefixes xs) : h ≠ [] := by
  simp only [prefixes, List.mem_map, List.mem_range] at hh
  obtain ⟨i, hi, rfl⟩ := hh
  intro e
  have := congrArg List.length e
  rw [List.length_take, List.length_nil] at this
  omega

private theorem lastN_ne_nil {α : Type} (n : Nat) (hn : 0 < n) (h : List α) (hh : h ≠ []) :
    lastN n h ≠ [] := by
  intro e
  have h1 := lastN_length n h
  rw [e] at h1
  have := List.length_pos_iff.mpr hh
  simp at h1
  omega

/-- a window statistic that transforms by `g` under the pointwise map `f` (on non-empty windows)
    gives output lists that transform by `g` -/
private theorem spec_map {O : Type} (out : K → O) (stat : List K → K) (f g : K → K) (n : Nat) (hn : 0 < n)
    (hs : ∀ w : List K, w ≠ [] → stat (w.map f) = g (stat w)) (xs : List K) :
    (prefixes (xs.map f)).map (fun h => out (stat (lastN n h)))
      = (prefixes xs).map (fun h => out (g (stat (lastN n h)))) := by
  rw [prefixes_map, List.map_map]
  apply List.map_congr_left
  intro h hh
  simp only [Function.comp, lastN_map]
  rw [hs _ (lastN_ne_nil n hn h (mem_prefixes_ne_nil hh))]

/-- two runs from the same initial state: the original stream and the transformed one -/
private theorem two_runs {S O : Type} (new : Res S) (next : S → X K → Option (S × O)) (spec : List K → List O)
    (hw : ∀ xs : List K, ∃ s0 s', new = .ok s0 ∧ runOut next s0 (xs.map X.fin) = some (s', spec xs))
    (f : K → K) (xs : List K) (outs' : List O) (h : spec (xs.map f) = outs') :
    ∃ s0 s1 s2, new = .ok s0 ∧ runOut next s0 (xs.map X.fin) = some (s1, spec xs) ∧
      runOut next s0 ((xs.map f).map X.fin) = some (s2, outs') := by
  obtain ⟨s0, s1, e0, e1⟩ := hw xs
  obtain ⟨s0', s2, e0', e2⟩ := hw (xs.map f)
  have : s0' = s0 := by
    rw [e0] at e0'
    exact (Res.ok.inj e0').symm
  subst this
  exact ⟨s0', s1, s2, e0, e1, by rw [e2, h]⟩

/-! ## SMA -/

/-- SMA(c·x) = c·SMA(x), at every prefix, for every `c` -/
theorem sma_scale (c : K) (n : Nat) (hn : 0 < n) (h8 : n * 8 ≤ isizeMax) (xs : List K) :
    ∃ s0 s1 s2, (SimpleMovingAverage.new n : Res (SimpleMovingAverage (X K))) = .ok s0 ∧
      runOut SimpleMovingAverage.next s0 (xs.map X.fin)
        = some (s1, (prefixes xs).map (fun h => X.fin (mean (lastN n h)))) ∧
      runOut SimpleMovingAverage.next s0 ((xs.map (fun x => c * x)).map X.fin)
        = some (s2, (prefixes xs).map (fun h => X.fin (c * mean (lastN n h)))) :=
  two_runs _ _ _ (C01.sma_window n hn h8) _ xs _
    (spec_map X.fin mean _ (fun v => c * v) n hn (fun w _ => mean_scale c w) xs)

/-- SMA(x + d) = SMA(x) + d -/
theorem sma_shift (d : K) (n : Nat) (hn : 0 < n) (h8 : n * 8 ≤ isizeMax) (xs : List K) :
    ∃ s0 s1 s2, (SimpleMovingAverage.new n : Res (SimpleMovingAverage (X K))) = .ok s0 ∧
      runOut SimpleMovingAverage.next s0 (xs.map X.fin)
        = some (s1, (prefixes xs).map (fun h => X.fin (mean (lastN n h)))) ∧
      runOut SimpleMovingAverage.next s0 ((xs.map (fun x => x + d)).map X.fin)
        = some (s2, (prefixes xs).map (fun h => X.fin (mean (lastN n h) + d))) :=
  two_runs _ _ _ (C01.sma_window n hn h8) _ xs _
    (spec_map X.fin mean _ (fun v => v + d) n hn (fun w hw => mean_shift d w hw) xs)

/-! ## WMA -/

theorem wma_scale_stream (c : K) (n : Nat) (hn : 0 < n) (h8 : n * 8 ≤ isizeMax) (xs : List K) :
    ∃ s0 s1 s2, (WeightedMovingAverage.new n : Res (WeightedMovingAverage (X K))) = .ok s0 ∧
      runOut WeightedMovingAverage.next s0 (xs.map X.fin)
        = some (s1, (prefixes xs).map (fun h => X.fin (wma (lastN n h)))) ∧
      runOut WeightedMovingAverage.next s0 ((xs.map (fun x => c * x)).map X.fin)
        = some (s2, (prefixes xs).map (fun h => X.fin (c * wma (lastN n h)))) :=
  two_runs _ _ _ (C01.wma_window n hn h8) _ xs _
    (spec_map X.fin wma _ (fun v => c * v) n hn (fun w _ => wma_scale c w) xs)

theorem wma_shift_stream (d : K) (n : Nat) (hn : 0 < n) (h8 : n * 8 ≤ isizeMax) (xs : List K) :
    ∃ s0 s1 s2, (WeightedMovingAverage.new n : Res (WeightedMovingAverage (X K))) = .ok s0 ∧
      runOut WeightedMovingAverage.next s0 (xs.map X.fin)
        = some (s1, (prefixes xs).map (fun h => X.fin (wma (lastN n h)))) ∧
      runOut WeightedMovingAverage.next s0 ((xs.map (fun x => x + d)).map X.fin)
        = some (s2, (prefixes xs).map (fun h => X.fin (wma (lastN n h) + d))) :=
  two_runs _ _ _ (C01.wma_window n hn h8) _ xs _
    (spec_map X.fin wma _ (fun v => v + d) n hn (fun w hw => wma_shift d w hw) xs)

/-! ## MAD -/

/-- MAD(c·x) = c·MAD(x) for `c ≥ 0` (in general `|c|·MAD(x)`, `mad_scale_abs`) -/
theorem mad_scale_stream (c : K) (hc : 0 ≤ c) (n : Nat) (hn : 0 < n) (h8 : n * 8 ≤ isizeMax) (xs : List K) :
    ∃ s0 s1 s2, (MeanAbsoluteDeviation.new n : Res (MeanAbsoluteDeviation (X K))) = .ok s0 ∧
      runOut MeanAbsoluteDeviation.next s0 (xs.map X.fin)
        = some (s1, (prefixes xs).map (fun h => X.fin (mad (lastN n h)))) ∧
      runOut MeanAbsoluteDeviation.next s0 ((xs.map (fun x => c * x)).map X.fin)
        = some (s2, (prefixes xs).map (fun h => X.fin (c * mad (lastN n h)))) :=
  two_runs _ _ _ (C01.mad_window n hn h8) _ xs _
    (spec_map X.fin mad _ (fun v => c * v) n hn (fun w _ => mad_scale c hc w) xs)

/-- MAD(x + d) = MAD(x): the two output lists are EQUAL -/
theorem mad_shift_stream (d : K) (n : Nat) (hn : 0 < n) (h8 : n * 8 ≤ isizeMax) (xs : List K) :
    ∃ s0 s1 s2 outs, (MeanAbsoluteDeviation.new n : Res (MeanAbsoluteDeviation (X K))) = .ok s0 ∧
      runOut MeanAbsoluteDeviation.next s0 (xs.map X.fin) = some (s1, outs) ∧
      runOut MeanAbsoluteDeviation.next s0 ((xs.map (fun x => x + d)).map X.fin) = some (s2, outs) := by
  obtain ⟨s0, s1, s2, e0, e1, e2⟩ := two_runs _ _ _ (C01.mad_window (K := K) n hn h8) _ xs _
    (spec_map X.fin mad _ (fun v => v) n hn (fun w _ => mad_shift d w) xs)
  exact ⟨s0, s1, s2, _, e0, e1, e2⟩

/-! ## SD -/

/-- SD(c·x) = sqrt(c² · var W) — the variance form, no law about `sqrtK` needed; with
    `sqrtK (c² v) = c · sqrtK v` (`c ≥ 0`) this is `c · SD(x)` (`sd_scale_of_sqrt`) -/
theorem sd_scale (c : K) (n : Nat) (hn : 0 < n) (h8 : n * 8 ≤ isizeMax) (xs : List K) :
    ∃ s0 s1 s2, (StandardDeviation.new n : Res (StandardDeviation (X K))) = .ok s0 ∧
      runOut StandardDeviation.next s0 (xs.map X.fin)
        = some (s1, (prefixes xs).map (fun h => X.fin (HasSqrt.sqrtK (var (lastN n h))))) ∧
      runOut StandardDeviation.next s0 ((xs.map (fun x => c * x)).map X.fin)
        = some (s2, (prefixes xs).map (fun h => X.fin (HasSqrt.sqrtK (c ^ 2 * var (lastN n h))))) :=
  two_runs _ _ _ (C01.sd_window n hn h8) _ xs _
    (spec_map (fun v => X.fin (HasSqrt.sqrtK v)) var _ (fun v => c ^ 2 * v) n hn (fun w _ => var_scale c w) xs)

/-- … hence `c · SD(x)` under the square-root law `sqrtK (c² v) = c · sqrtK v` for `0 ≤ v` -/
theorem sd_scale_of_sqrt (c : K) (hsq : ∀ v : K, 0 ≤ v → HasSqrt.sqrtK (c ^ 2 * v) = c * HasSqrt.sqrtK v)
    (n : Nat) (hn : 0 < n) (h8 : n * 8 ≤ isizeMax) (xs : List K) :
    ∃ s0 s1 s2, (StandardDeviation.new n : Res (StandardDeviation (X K))) = .ok s0 ∧
      runOut StandardDeviation.next s0 (xs.map X.fin)
        = some (s1, (prefixes xs).map (fun h => X.fin (HasSqrt.sqrtK (var (lastN n h))))) ∧
      runOut StandardDeviation.next s0 ((xs.map (fun x => c * x)).map X.fin)
        = some (s2, (prefixes xs).map (fun h => X.fin (c * HasSqrt.sqrtK (var (lastN n h))))) := by
  obtain ⟨s0, s1, s2, e0, e1, e2⟩ := sd_scale c n hn h8 xs
  refine ⟨s0, s1, s2, e0, e1, ?_⟩
  rw [e2]
  congr 2
  apply List.map_congr_left
  intro h _
  rw [hsq _ (StandardDeviation.var_nonneg _)]

/-- SD(x + d) = SD(x): the two output lists are EQUAL -/
theorem sd_shift (d : K) (n : Nat) (hn : 0 < n) (h8 : n * 8 ≤ isizeMax) (xs : List K) :
    ∃ s0 s1 s2 outs, (StandardDeviation.new n : Res (StandardDeviation (X K))) = .ok s0 ∧
      runOut StandardDeviation.next s0 (xs.map X.fin) = some (s1, outs) ∧
      runOut StandardDeviation.next s0 ((xs.map (fun x => x + d)).map X.fin) = some (s2, outs) := by
  obtain ⟨s0, s1, s2, e0, e1, e2⟩ := two_runs _ _ _ (C01.sd_window (K := K) n hn h8) _ xs _
    (spec_map (fun v => X.fin (HasSqrt.sqrtK v)) var _ (fun v => v) n hn (fun w _ => var_shift d w) xs)
  exact ⟨s0, s1, s2, _, e0, e1, e2⟩

/-! ## BollingerBands: the three levels shift, the band width does not -/

theorem bb_shift (d : K) (n : Nat) (hn : 0 < n) (h8 : n * 8 ≤ isizeMax) (m : K) (xs : List K) :
    ∃ s0 s1 s2, (BollingerBands.new n (X.fin m) : Res (BollingerBands (X K))) = .ok s0 ∧
      runOut BollingerBands.next s0 (xs.map X.fin)
        = some (s1, (prefixes xs).map (fun h =>
            ({ average := X.fin (mean (lastN n h)),
               upper := X.fin (mean (lastN n h) + HasSqrt.sqrtK (var (lastN n h)) * m),
               lower := X.fin (mean (lastN n h) - HasSqrt.sqrtK (var (lastN n h)) * m) }
              : BollingerBandsOutput (X K)))) ∧
      runOut BollingerBands.next s0 ((xs.map (fun x => x + d)).map X.fin)
        = some (s2, (prefixes xs).map (fun h =>
            ({ average := X.fin (mean (lastN n h) + d),
               upper := X.fin (mean (lastN n h) + d + HasSqrt.sqrtK (var (lastN n h)) * m),
               lower := X.fin (mean (lastN n h) + d - HasSqrt.sqrtK (var (lastN n h)) * m) }
              : BollingerBandsOutput (X K)))) := by
  refine two_runs _ _ _ (C01.bb_window n hn h8 m) _ xs _ ?_
  rw [prefixes_map, List.map_map]
  apply List.map_congr_left
  intro h hh
  have hne := lastN_ne_nil n hn h (mem_prefixes_ne_nil hh)
  simp only [Function.comp, lastN_map, mean_shift d _ hne, var_shift]

/-- scaling by `c`: levels `c·mean ± sqrt(c²·var)·m` (variance form, as for SD) -/
theorem bb_scale (c : K) (n : Nat) (hn : 0 < n) (h8 : n * 8 ≤ isizeMax) (m : K) (xs : List K) :
    ∃ s0 s1 s2, (BollingerBands.new n (X.fin m) : Res (BollingerBands (X K))) = .ok s0 ∧
      runOut BollingerBands.next s0 (xs.map X.fin)
        = some (s1, (prefixes xs).map (fun h =>
            ({ average := X.fin (mean (lastN n h)),
               upper := X.fin (mean (lastN n h) + HasSqrt.sqrtK (var (lastN n h)) * m),
               lower := X.fin (mean (lastN n h) - HasSqrt.sqrtK (var (lastN n h)) * m) }
              : BollingerBandsOutput (X K)))) ∧
      runOut BollingerBands.next s0 ((xs.map (fun x => c * x)).map X.fin)
        = some (s2, (prefixes xs).map (fun h =>
            ({ average := X.fin (c * mean (lastN n h)),
               upper := X.fin (c * mean (lastN n h) + HasSqrt.sqrtK (c ^ 2 * var (lastN n h)) * m),
               lower := X.fin (c * mean (lastN n h) - HasSqrt.sqrtK (c ^ 2 * var (lastN n h)) * m) }
              : BollingerBandsOutput (X K)))) := by
  refine two_runs _ _ _ (C01.bb_window n hn h8 m) _ xs _ ?_
  rw [prefixes_map, List.map_map]
  apply List.map_congr_left
  intro h hh
  simp only [Function.comp, lastN_map, mean_scale, var_scale]

/-! ## Minimum / Maximum: order-preserving maps commute with the extreme element -/

/-- a monotone map sends THE least element of a list to THE least element of the image -/
theorem least_map_mono (f : K → K) (hf : Monotone f) (W : List K) (m m' : K)
    (hm : m ∈ W) (hle : ∀ y ∈ W, m ≤ y) (hm' : m' ∈ W.map f) (hle' : ∀ y ∈ W.map f, m' ≤ y) :
    m' = f m := by
  obtain ⟨y, hy, rfl⟩ := List.mem_map.mp hm'
  exact le_antisymm (hle' _ (List.mem_map_of_mem hm)) (hf (hle y hy))

theorem greatest_map_mono (f : K → K) (hf : Monotone f) (W : List K) (m m' : K)
    (hm : m ∈ W) (hle : ∀ y ∈ W, y ≤ m) (hm' : m' ∈ W.map f) (hle' : ∀ y ∈ W.map f, y ≤ m') :
    m' = f m := by
  obtain ⟨y, hy, rfl⟩ := List.mem_map.mp hm'
  exact le_antisymm (hf (hle y hy)) (hle' _ (List.mem_map_of_mem hm))

/-- an antitone map sends the GREATEST element to the LEAST element of the image -/
theorem least_map_anti (f : K → K) (hf : Antitone f) (W : List K) (m m' : K)
    (hm : m ∈ W) (hle : ∀ y ∈ W, y ≤ m) (hm' : m' ∈ W.map f) (hle' : ∀ y ∈ W.map f, m' ≤ y) :
    m' = f m := by
  obtain ⟨y, hy, rfl⟩ := List.mem_map.mp hm'
  exact le_antisymm (hle' _ (List.mem_map_of_mem hm)) (hf (hle y hy))

private theorem window_map (f : K → K) (n : Nat) (xs : List K) (i : Nat) :
    lastN n ((xs.map f).take (i + 1)) = (lastN n (xs.take (i + 1))).map f := by
  rw [← List.map_take, lastN_map]

/-- Minimum(f ∘ x) = f ∘ Minimum(x) for every monotone `f`: same initial state, two runs, at
    every index the second output is `f` of the first (which is the least element of the window) -/
theorem min_map_mono (f : K → K) (hf : Monotone f) (n : Nat) (hn : 0 < n) (h8 : n * 8 ≤ isizeMax)
    (xs : List K) :
    ∃ s0 s1 outs s2 outs', (Minimum.new n : Res (Minimum (X K))) = .ok s0 ∧
      runOut Minimum.next s0 (xs.map X.fin) = some (s1, outs) ∧
      runOut Minimum.next s0 ((xs.map f).map X.fin) = some (s2, outs') ∧
      outs.length = xs.length ∧ outs'.length = xs.length ∧
      ∀ i, i < xs.length → ∃ m, outs[i]? = some (X.fin m) ∧ outs'[i]? = some (X.fin (f m)) ∧
        m ∈ lastN n (xs.take (i + 1)) ∧ ∀ y ∈ lastN n (xs.take (i + 1)), m ≤ y := by
  obtain ⟨s0, s1, outs, e0, e1, l1, h1⟩ := C01.minimum_window n hn h8 xs
  obtain ⟨s0', s2, outs', e0', e2, l2, h2⟩ := C01.minimum_window n hn h8 (xs.map f)
  have : s0' = s0 := by
    rw [e0] at e0'
    exact (Res.ok.inj e0').symm
  subst this
  rw [List.length_map] at l2
  refine ⟨s0', s1, outs, s2, outs', e0, e1, e2, l1, l2, ?_⟩
  intro i hi
  obtain ⟨m, a1, a2, a3⟩ := h1 i hi
  obtain ⟨m', b1, b2, b3⟩ := h2 i (by rw [List.length_map]; exact hi)
  rw [window_map] at b2 b3
  have := least_map_mono f hf _ m m' a2 a3 b2 b3
  subst this
  exact ⟨m, a1, b1, a2, a3⟩

/-- Maximum(f ∘ x) = f ∘ Maximum(x) for every monotone `f` -/
theorem max_map_mono (f : K → K) (hf : Monotone f) (n : Nat) (hn : 0 < n) (h8 : n * 8 ≤ isizeMax)
    (xs : List K) :
    ∃ s0 s1 outs s2 outs', (Maximum.new n : Res (Maximum (X K))) = .ok s0 ∧
      runOut Maximum.next s0 (xs.map X.fin) = some (s1, outs) ∧
      runOut Maximum.next s0 ((xs.map f).map X.fin) = some (s2, outs') ∧
      outs.length = xs.length ∧ outs'.length = xs.length ∧
      ∀ i, i < xs.length → ∃ m, outs[i]? = some (X.fin m) ∧ outs'[i]? = some (X.fin (f m)) ∧
        m ∈ lastN n (xs.take (i + 1)) ∧ ∀ y ∈ lastN n (xs.take (i + 1)), y ≤ m := by
  obtain ⟨s0, s1, outs, e0, e1, l1, h1⟩ := C01.maximum_window n hn h8 xs
  obtain ⟨s0', s2, outs', e0', e2, l2, h2⟩ := C01.maximum_window n hn h8 (xs.map f)
  have : s0' = s0 := by
    rw [e0] at e0'
    exact (Res.ok.inj e0').symm
  subst this
  rw [List.length_map] at l2
  refine ⟨s0', s1, outs, s2, outs', e0, e1, e2, l1, l2, ?_⟩
  intro i hi
  obtain ⟨m, a1, a2, a3⟩ := h1 i hi
  obtain ⟨m', b1, b2, b3⟩ := h2 i (by rw [List.length_map]; exact hi)
  rw [window_map] at b2 b3
  have := greatest_map_mono f hf _ m m' a2 a3 b2 b3
  subst this
  exact ⟨m, a1, b1, a2, a3⟩

private theorem mono_scale (c : K) (hc : 0 ≤ c) : Monotone (fun x : K => c * x) :=
  fun _ _ h => mul_le_mul_of_nonneg_left h hc

private theorem mono_shift (d : K) : Monotone (fun x : K => x + d) :=
  fun _ _ h => by dsimp only; linarith

/-- Minimum(c·x) = c·Minimum(x) for `c > 0` (`0 ≤ c` suffices: `min_map_mono`) -/
theorem min_scale (c : K) (hc : 0 < c) (n : Nat) (hn : 0 < n) (h8 : n * 8 ≤ isizeMax) (xs : List K) :
    ∃ s0 s1 outs s2 outs', (Minimum.new n : Res (Minimum (X K))) = .ok s0 ∧
      runOut Minimum.next s0 (xs.map X.fin) = some (s1, outs) ∧
      runOut Minimum.next s0 ((xs.map (fun x => c * x)).map X.fin) = some (s2, outs') ∧
      outs.length = xs.length ∧ outs'.length = xs.length ∧
      ∀ i, i < xs.length → ∃ m, outs[i]? = some (X.fin m) ∧ outs'[i]? = some (X.fin (c * m)) ∧
        m ∈ lastN n (xs.take (i + 1)) ∧ ∀ y ∈ lastN n (xs.take (i + 1)), m ≤ y :=
  min_map_mono _ (mono_scale c (le_of_lt hc)) n hn h8 xs

/-- Minimum(x + d) = Minimum(x) + d -/
theorem min_shift (d : K) (n : Nat) (hn : 0 < n) (h8 : n * 8 ≤ isizeMax) (xs : List K) :
    ∃ s0 s1 outs s2 outs', (Minimum.new n : Res (Minimum (X K))) = .ok s0 ∧
      runOut Minimum.next s0 (xs.map X.fin) = some (s1, outs) ∧
      runOut Minimum.next s0 ((xs.map (fun x => x + d)).map X.fin) = some (s2, outs') ∧
      outs.length = xs.length ∧ outs'.length = xs.length ∧
      ∀ i, i < xs.length → ∃ m, outs[i]? = some (X.fin m) ∧ outs'[i]? = some (X.fin (m + d)) ∧
        m ∈ lastN n (xs.take (i + 1)) ∧ ∀ y ∈ lastN n (xs.take (i + 1)), m ≤ y :=
  min_map_mono _ (mono_shift d) n hn h8 xs

/-- Maximum(c·x) = c·Maximum(x) for `c > 0` -/
theorem max_scale (c : K) (hc : 0 < c) (n : Nat) (hn : 0 < n) (h8 : n * 8 ≤ isizeMax) (xs : List K) :
    ∃ s0 s1 outs s2 outs', (Maximum.new n : Res (Maximum (X K))) = .ok s0 ∧
      runOut Maximum.next s0 (xs.map X.fin) = some (s1, outs) ∧
      runOut Maximum.next s0 ((xs.map (fun x => c * x)).map X.fin) = some (s2, outs') ∧
      outs.length = xs.length ∧ outs'.length = xs.length ∧
      ∀ i, i < xs.length → ∃ m, outs[i]? = some (X.fin m) ∧ outs'[i]? = some (X.fin (c * m)) ∧
        m ∈ lastN n (xs.take (i + 1)) ∧ ∀ y ∈ lastN n (xs.take (i + 1)), y ≤ m :=
  max_map_mono _ (mono_scale c (le_of_lt hc)) n hn h8 xs

/-- Maximum(x + d) = Maximum(x) + d -/
theorem max_shift (d : K) (n : Nat) (hn : 0 < n) (h8 : n * 8 ≤ isizeMax) (xs : List K) :
    ∃ s0 s1 outs s2 outs', (Maximum.new n : Res (Maximum (X K))) = .ok s0 ∧
      runOut Maximum.next s0 (xs.map X.fin) = some (s1, outs) ∧
      runOut Maximum.next s0 ((xs.map (fun x => x + d)).map X.fin) = some (s2, outs') ∧
      outs.length = xs.length ∧ outs'.length = xs.length ∧
      ∀ i, i < xs.length → ∃ m, outs[i]? = some (X.fin m) ∧ outs'[i]? = some (X.fin (m + d)) ∧
        m ∈ lastN n (xs.take (i + 1)) ∧ ∀ y ∈ lastN n (xs.take (i + 1)), y ≤ m :=
  max_map_mono _ (mono_shift d) n hn h8 xs

/-- Maximum(x) = −Minimum(−x), exactly, at every index: the i-th Maximum output over `xs` is
    `X.fin M` (the greatest of the window) and the i-th Minimum output over `−xs` is `X.fin (−M)` -/
theorem max_is_neg_min (n : Nat) (hn : 0 < n) (h8 : n * 8 ≤ isizeMax) (xs : List K) :
    ∃ a0 a1 maxs b0 b1 mins,
      (Maximum.new n : Res (Maximum (X K))) = .ok a0 ∧ (Minimum.new n : Res (Minimum (X K))) = .ok b0 ∧
      runOut Maximum.next a0 (xs.map X.fin) = some (a1, maxs) ∧
      runOut Minimum.next b0 ((xs.map (fun x => -x)).map X.fin) = some (b1, mins) ∧
      maxs.length = xs.length ∧ mins.length = xs.length ∧
      ∀ i, i < xs.length → ∃ M, maxs[i]? = some (X.fin M) ∧ mins[i]? = some (X.fin (-M)) ∧
        M ∈ lastN n (xs.take (i + 1)) ∧ ∀ y ∈ lastN n (xs.take (i + 1)), y ≤ M := by
  obtain ⟨a0, a1, maxs, e0, e1, l1, h1⟩ := C01.maximum_window n hn h8 xs
  obtain ⟨b0, b1, mins, f0, f1, l2, h2⟩ := C01.minimum_window n hn h8 (xs.map (fun x => -x))
  rw [List.length_map] at l2
  refine ⟨a0, a1, maxs, b0, b1, mins, e0, f0, e1, f1, l1, l2, ?_⟩
  intro i hi
  obtain ⟨M, a1, a2, a3⟩ := h1 i hi
  obtain ⟨m', b1, b2, b3⟩ := h2 i (by rw [List.length_map]; exact hi)
  rw [window_map] at b2 b3
  have := least_map_anti (fun x : K => -x) (fun _ _ h => neg_le_neg h) _ M m' a2 a3 b2 b3
  subst this
  exact ⟨M, a1, b1, a2, a3⟩

/-! ## EMA: linear in the input stream (every `c`, every `d`; no window involved) -/

/-- the EMA recursion on the exact field, continued from a previous output -/
def emaFromK (α prev : K) : List K → List K
  | [] => []
  | x :: xs => (α * x + (1 - α) * prev) :: emaFromK α (α * x + (1 - α) * prev) xs

/-- EMA with smoothing factor `α` of a whole history, on the exact field -/
def emaSeqK (α : K) : List K → List K
  | [] => []
  | x :: xs => x :: emaFromK α x xs

private theorem emaFrom_fin (α prev : K) (xs : List K) :
    C02.emaFrom (X.fin α) (X.fin prev) (xs.map X.fin) = (emaFromK α prev xs).map X.fin := by
  induction xs generalizing prev with
  | nil => rfl
  | cons x t ih =>
    have e : Scalar.add (Scalar.mul (X.fin α) (X.fin x))
        (Scalar.mul (Scalar.sub (Scalar.lit 1 0) (X.fin α)) (X.fin prev))
          = X.fin (α * x + (1 - α) * prev) := by simp
    simp only [List.map_cons, C02.emaFrom, emaFromK, e, ih]

private theorem emaSeq_fin (α : K) (xs : List K) :
    C02.emaSeq (X.fin α) (xs.map X.fin) = (emaSeqK α xs).map X.fin := by
  cases xs with
  | nil => rfl
  | cons x t => simp only [List.map_cons, C02.emaSeq, emaSeqK, emaFrom_fin]

private theorem alpha_fin (n : Nat) : (C02.alpha n : X K) = X.fin (2 / ((n : K) + 1)) := by
  have h1 : ((n : K) + 1) ≠ 0 := by positivity
  unfold C02.alpha
  simp [X.div_fin _ _ h1]

/-- the generated EMA over a finite stream computes the exact-field recursion with
    `α = 2/(n+1)`; every output is finite -/
theorem ema_exact (n : Nat) (hn : 0 < n) (xs : List K) :
    ∃ s0 s', (ExponentialMovingAverage.new n : Res (ExponentialMovingAverage (X K))) = .ok s0 ∧
      runOut ExponentialMovingAverage.next s0 (xs.map X.fin)
        = some (s', (emaSeqK (2 / ((n : K) + 1)) xs).map X.fin) := by
  obtain ⟨s', e⟩ := C02.ema_stream (F := X K) n (xs.map X.fin)
  refine ⟨ExponentialMovingAverage.fresh n, s',
    by rw [ExponentialMovingAverage.new_eq]; simp [Nat.ne_of_gt hn], ?_⟩
  rw [e, alpha_fin, emaSeq_fin]

private theorem emaFromK_scale (α c prev : K) (xs : List K) :
    emaFromK α (c * prev) (xs.map (fun x => c * x)) = (emaFromK α prev xs).map (fun x => c * x) := by
  induction xs generalizing prev with
  | nil => rfl
  | cons x t ih =>
    have e : α * (c * x) + (1 - α) * (c * prev) = c * (α * x + (1 - α) * prev) := by ring
    simp only [List.map_cons, emaFromK, e, ih]

private theorem emaFromK_shift (α d prev : K) (xs : List K) :
    emaFromK α (prev + d) (xs.map (fun x => x + d)) = (emaFromK α prev xs).map (fun x => x + d) := by
  induction xs generalizing prev with
  | nil => rfl
  | cons x t ih =>
    have e : α * (x + d) + (1 - α) * (prev + d) = (α * x + (1 - α) * prev) + d := by ring
    simp only [List.map_cons, emaFromK, e, ih]

theorem emaSeqK_scale (α c : K) (xs : List K) :
    emaSeqK α (xs.map (fun x => c * x)) = (emaSeqK α xs).map (fun x => c * x) := by
  cases xs with
  | nil => rfl
  | cons x t => simp only [List.map_cons, emaSeqK, emaFromK_scale]

theorem emaSeqK_shift (α d : K) (xs : List K) :
    emaSeqK α (xs.map (fun x => x + d)) = (emaSeqK α xs).map (fun x => x + d) := by
  cases xs with
  | nil => rfl
  | cons x t => simp only [List.map_cons, emaSeqK, emaFromK_shift]

/-- EMA(c·x) = c·EMA(x), for every `c` -/
theorem ema_scale (c : K) (n : Nat) (hn : 0 < n) (xs : List K) :
    ∃ s0 s1 s2, ∃ outs : List K, (ExponentialMovingAverage.new n : Res (ExponentialMovingAverage (X K))) = .ok s0 ∧
      runOut ExponentialMovingAverage.next s0 (xs.map X.fin) = some (s1, outs.map X.fin) ∧
      runOut ExponentialMovingAverage.next s0 ((xs.map (fun x => c * x)).map X.fin)
        = some (s2, (outs.map (fun v => c * v)).map X.fin) := by
  obtain ⟨s0, s1, s2, e0, e1, e2⟩ := two_runs _ _ (fun xs => (emaSeqK (2 / ((n : K) + 1)) xs).map X.fin)
    (ema_exact (K := K) n hn) (fun x => c * x) xs _ rfl
  exact ⟨s0, s1, s2, _, e0, e1, by rw [e2, emaSeqK_scale]⟩

/-- EMA(x + d) = EMA(x) + d -/
theorem ema_shift (d : K) (n : Nat) (hn : 0 < n) (xs : List K) :
    ∃ s0 s1 s2, ∃ outs : List K, (ExponentialMovingAverage.new n : Res (ExponentialMovingAverage (X K))) = .ok s0 ∧
      runOut ExponentialMovingAverage.next s0 (xs.map X.fin) = some (s1, outs.map X.fin) ∧
      runOut ExponentialMovingAverage.next s0 ((xs.map (fun x => x + d)).map X.fin)
        = some (s2, (outs.map (fun v => v + d)).map X.fin) := by
  obtain ⟨s0, s1, s2, e0, e1, e2⟩ := two_runs _ _ (fun xs => (emaSeqK (2 / ((n : K) + 1)) xs).map X.fin)
    (ema_exact (K := K) n hn) (fun x => x + d) xs _ rfl
  exact ⟨s0, s1, s2, _, e0, e1, by rw [e2, emaSeqK_shift]⟩

end TaRs.Props.C14
