/-
  C19 — every indicator has the documented trait surface and is thread-safe plain data.

  The property is decided by Rust's type checker (the static-assertion crate /verif/surface
  is compiled against /repo with and without the serde feature on every run).  What Lean
  checks is the finite FACT BASE the type checker works from, extracted from the source on
  every run by rs2lean (`Gen/Surface.lean`: derive lists, serde cfg_attr, impl headers with
  their generic bounds, field types): each statement below is decided over the whole table
  by kernel evaluation (`decide +kernel`; no `native_decide`).  Rust's auto-trait rules
  (a struct of Send + Sync + Unpin + 'static fields is Send + Sync + Unpin + 'static) are
  MODELLED by `plainData`, not verified.  Weak level, labelled as such in the manifest.
-/
import TaRs.Gen.Surface
namespace TaRs.Props.C19
open TaRs.Gen.Surface

def hasImpl (ty tr : String) : Bool := impls.any (fun r => r.ty == ty && r.trait_ == tr)
def hasImplArg (ty tr arg : String) : Bool := impls.any (fun r => r.ty == ty && r.trait_ == tr && r.arg == arg)
def hasDerive (ty d : String) : Bool := types.any (fun r => r.name == ty && r.derives.contains d)
def hasSerde (ty : String) : Bool := types.any (fun r => r.name == ty && r.serde)

def priceTraits : List String := ["Open", "High", "Low", "Close", "Volume"]

/-- there is an `impl<T: …> Next<&T>` whose bounds are all price traits (which DataItem provides) -/
def hasNextBar (ty : String) : Bool :=
  impls.any (fun r => r.ty == ty && r.trait_ == "Next" && r.arg == "&T" && r.bounds.all (fun b => priceTraits.contains b))

def leafTypes : List String := ["usize", "f64", "bool", "Option<f64>", "Box<[f64]>"]

/-- owned plain data, closed under nesting (fuel = nesting depth bound) -/
def plainData : Nat → String → Bool
  | 0, t => leafTypes.contains t
  | k + 1, t =>
    leafTypes.contains t ||
      types.any (fun r => r.name == t && !r.fields.isEmpty && r.fields.all (fun f => plainData k f.2))

def noNextF64 : List String := ["CommodityChannelIndex", "ChandelierExit", "MoneyFlowIndex", "OnBalanceVolume"]
def singlePeriod : List String :=
  ["SimpleMovingAverage", "ExponentialMovingAverage", "WeightedMovingAverage", "StandardDeviation", "MeanAbsoluteDeviation",
   "RelativeStrengthIndex", "Minimum", "Maximum", "FastStochastic", "AverageTrueRange", "CommodityChannelIndex", "EfficiencyRatio",
   "BollingerBands", "ChandelierExit", "KeltnerChannel", "RateOfChange", "MoneyFlowIndex"]
def outputs : List String :=
  ["MovingAverageConvergenceDivergenceOutput", "PercentagePriceOscillatorOutput", "BollingerBandsOutput", "KeltnerChannelOutput", "ChandelierExitOutput"]

theorem twenty_two_indicators : indicators.length = 22 := by decide

theorem every_indicator_core_traits :
    indicators.all (fun i => hasDerive i "Clone" && hasDerive i "Debug" && hasImpl i "Display" && hasImpl i "Default" && hasImpl i "Reset") = true := by
  decide +kernel

theorem every_indicator_next_bar : indicators.all hasNextBar = true := by decide +kernel

theorem next_f64_exactly :
    indicators.all (fun i => hasImplArg i "Next" "f64" == !noNextF64.contains i) = true := by decide +kernel

theorem single_period_have_period : singlePeriod.all (fun i => indicators.contains i && hasImpl i "Period") = true := by
  decide +kernel

theorem serde_behind_feature : (indicators ++ ["DataItem"]).all hasSerde = true := by decide +kernel

/-- every indicator (and DataItem) is owned plain data: no Rc/RefCell/raw pointer/reference field -/
theorem every_indicator_plain_data : (indicators ++ ["DataItem"]).all (plainData 4) = true := by decide +kernel

theorem outputs_surface :
    outputs.all (fun o => hasDerive o "Clone" && hasDerive o "Debug" && hasDerive o "PartialEq" && plainData 1 o) = true := by
  decide +kernel

theorem tuple_conversions :
    (hasImplArg "(f64,f64,f64)" "From" "MovingAverageConvergenceDivergenceOutput" &&
     hasImplArg "(f64,f64,f64)" "From" "PercentagePriceOscillatorOutput" &&
     hasImplArg "(f64,f64)" "From" "ChandelierExitOutput") = true := by decide +kernel

theorem taerror_surface :
    (hasDerive "TaError" "Clone" && hasDerive "TaError" "Eq" && hasDerive "TaError" "PartialEq" && hasDerive "TaError" "Debug" &&
     hasImpl "TaError" "Error" && hasImpl "TaError" "Display") = true := by decide +kernel

theorem dataitem_price_traits : priceTraits.all (fun t => hasImpl "DataItem" t) = true := by decide +kernel

/-- the purity gate of the translator found nothing outside the plain-data subset
    (no unsafe, static, thread_local, Rc/Arc/Cell/RefCell/Mutex, hand-written Clone/Drop/Serialize, …) -/
theorem purity_gate_clean : gateRejects = [] := by decide

end TaRs.Props.C19
