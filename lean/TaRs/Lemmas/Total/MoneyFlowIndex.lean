/-
  VALUE-AGNOSTIC totality facts about the GENERATED model of MoneyFlowIndex: on a well-formed
  state `nextBar` / `reset` do not panic, keep `WF` and keep the period.  Nothing here says which
  scalar VALUES are computed, so a change of the Rust code that only alters arithmetic leaves this
  file (and C11 / C12 / C18, which need nothing more) intact.
-/
import TaRs.Lemmas.Core.MoneyFlowIndex
import TaRs.Gen.MoneyFlowIndex
import TaRs.Lemmas.RsLemmas
namespace TaRs.Gen.MoneyFlowIndex
open TaRs TaRs.Rs

variable {F : Type} [Scalar F]

/-! field projections commute with `if` (rewrite rules for `rs_exec_lazy` / `rs_exec_prune`) -/
theorem ite_period (c : Prop) [Decidable c] (a b : MoneyFlowIndex F) :
    (if c then a else b).period = if c then a.period else b.period := ite_proj _ c a b
theorem ite_index (c : Prop) [Decidable c] (a b : MoneyFlowIndex F) :
    (if c then a else b).index = if c then a.index else b.index := ite_proj _ c a b
theorem ite_count (c : Prop) [Decidable c] (a b : MoneyFlowIndex F) :
    (if c then a else b).count = if c then a.count else b.count := ite_proj _ c a b
theorem ite_prev (c : Prop) [Decidable c] (a b : MoneyFlowIndex F) :
    (if c then a else b).previous_typical_price
      = if c then a.previous_typical_price else b.previous_typical_price := ite_proj _ c a b
theorem ite_pos (c : Prop) [Decidable c] (a b : MoneyFlowIndex F) :
    (if c then a else b).total_positive_money_flow
      = if c then a.total_positive_money_flow else b.total_positive_money_flow := ite_proj _ c a b
theorem ite_neg (c : Prop) [Decidable c] (a b : MoneyFlowIndex F) :
    (if c then a else b).total_negative_money_flow
      = if c then a.total_negative_money_flow else b.total_negative_money_flow := ite_proj _ c a b
theorem ite_deque (c : Prop) [Decidable c] (a b : MoneyFlowIndex F) :
    (if c then a else b).deque = if c then a.deque else b.deque := ite_proj _ c a b

/-- `nextBar` never panics on a well-formed state, keeps it well-formed and keeps the period -/
theorem nextBar_total (s : MoneyFlowIndex F) (b : Bar F) (h : WF s) :
    ∃ r, s.nextBar b = some r ∧ WF r.1 ∧ r.1.period_fn = s.period_fn := by
  obtain ⟨hp, hs, hsz, hi, hc⟩ := h
  have hm : isizeMax < usizeMax := by decide
  unfold nextBar
  try simp only [gen_helper]
  simp only [Option.bind_eq_bind, Option.pure_def]
  -- decide the Nat tests the body can make (cursor wrap-around; first bar / warm-up / full window)
  -- through my own spelling, then evaluate; the tests on scalars are never split (they do not
  -- influence what can panic)
  by_cases c1 : s.index + 1 < s.period <;>
    rcases (by omega : s.count = 0 ∨ (0 < s.count ∧ s.count < s.period) ∨ s.count = s.period)
      with c2 | c2 | c2
  all_goals rs_exec_lazy [ite_period, ite_index, ite_count, ite_prev, ite_pos, ite_neg, ite_deque]
  all_goals (first
    | omega
    | (refine ⟨_, rfl, ?_, ?_⟩
       · constructor <;>
           simp only [ite_period, ite_index, ite_count, ite_deque, apply_ite Array.size,
             Array.size_setIfInBounds, ite_self] <;> omega
       · simp only [period_fn, ite_period, ite_self]))

/-- `reset` never panics on a well-formed state, yields a well-formed state with the same period
    (whatever values it writes) -/
theorem reset_total (s : MoneyFlowIndex F) (h : WF s) :
    ∃ r, s.reset = some r ∧ WF r ∧ r.period_fn = s.period_fn := by
  obtain ⟨hp, hs, hsz, hi, hc⟩ := h
  unfold reset
  try simp only [gen_helper]
  simp (disch := omega) only [fill_eq_pure, Option.bind_eq_bind, Option.bind_some, Option.pure_def]
  refine ⟨_, rfl, ?_, ?_⟩
  · constructor <;> simp only [fillPure_size] <;> omega
  · rfl

end TaRs.Gen.MoneyFlowIndex
