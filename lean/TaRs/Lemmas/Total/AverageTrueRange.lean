/-
  VALUE-AGNOSTIC totality facts about the GENERATED model of AverageTrueRange (TrueRange feeding an
  ExponentialMovingAverage): on a well-formed state `next` / `nextBar` / `reset` do not panic, keep
  `WF` and keep the period (which `period()` reads from the EMA).  Everything is derived from the
  totality lemmas of the two components; the proofs never name the value that is passed from the
  TrueRange to the EMA nor the output (the component lemmas are used in their functional form
  `∀ input, …`, the inputs and the witness are found by rewriting / unification), so a change of the
  Rust code that only alters arithmetic leaves this file (and C11 / C12 / C18) intact, whereas a
  change that can panic or lose a component's invariant does not.
-/
import TaRs.Lemmas.Core.AverageTrueRange
import TaRs.Gen.AverageTrueRange
import TaRs.Lemmas.RsLemmas
import TaRs.Lemmas.Total.TrueRange
import TaRs.Lemmas.Total.ExponentialMovingAverage
set_option linter.unusedSectionVars false
namespace TaRs.Gen.AverageTrueRange
open TaRs TaRs.Rs
variable {F : Type} [Scalar F]

/-- `next` never panics on a well-formed state, keeps it well-formed, keeps the period, and
    afterwards the TrueRange remembers a previous close (shape of the state only) -/
theorem next_shape (s : AverageTrueRange F) (x : F) (h : WF s) :
    ∃ r, s.next x = some r ∧ WF r.1 ∧ r.1.period_fn = s.period_fn ∧
      r.1.true_range.prev_close.isSome = true := by
  obtain ⟨ft, ht⟩ := Classical.axiomOfChoice (fun y => TrueRange.next_total s.true_range y)
  obtain ⟨fe, he⟩ := Classical.axiomOfChoice (fun y => ExponentialMovingAverage.next_total s.ema y h.ema)
  unfold next
  try simp only [gen_helper]
  simp only [fun y => (ht y).1, fun y => (he y).1, Option.bind_eq_bind, Option.bind_some, Option.pure_def]
  exact ⟨_, rfl, ⟨(he _).2.1⟩, (he _).2.2, (ht _).2⟩

/-- the same on the bar path -/
theorem nextBar_shape (s : AverageTrueRange F) (b : Bar F) (h : WF s) :
    ∃ r, s.nextBar b = some r ∧ WF r.1 ∧ r.1.period_fn = s.period_fn ∧
      r.1.true_range.prev_close.isSome = true := by
  obtain ⟨ft, ht⟩ := Classical.axiomOfChoice (fun y => TrueRange.nextBar_total s.true_range y)
  obtain ⟨fe, he⟩ := Classical.axiomOfChoice (fun y => ExponentialMovingAverage.next_total s.ema y h.ema)
  unfold nextBar
  try simp only [gen_helper]
  simp only [fun y => (ht y).1, fun y => (he y).1, Option.bind_eq_bind, Option.bind_some, Option.pure_def]
  exact ⟨_, rfl, ⟨(he _).2.1⟩, (he _).2.2, (ht _).2⟩

/-- `next` never panics on a well-formed state, keeps it well-formed and keeps the period -/
theorem next_total (s : AverageTrueRange F) (x : F) (h : WF s) :
    ∃ r, s.next x = some r ∧ WF r.1 ∧ r.1.period_fn = s.period_fn := by
  obtain ⟨r, e, w, p, _⟩ := next_shape s x h
  exact ⟨r, e, w, p⟩

/-- `nextBar` never panics on a well-formed state, keeps it well-formed and keeps the period -/
theorem nextBar_total (s : AverageTrueRange F) (b : Bar F) (h : WF s) :
    ∃ r, s.nextBar b = some r ∧ WF r.1 ∧ r.1.period_fn = s.period_fn := by
  obtain ⟨r, e, w, p, _⟩ := nextBar_shape s b h
  exact ⟨r, e, w, p⟩

/-- `reset` never panics on a well-formed state, yields a well-formed state with the same period,
    and the TrueRange has forgotten the previous close (shape only; nothing is said about the
    value the EMA is cleared to) -/
theorem reset_shape (s : AverageTrueRange F) (h : WF s) :
    ∃ r, s.reset = some r ∧ WF r ∧ r.period_fn = s.period_fn ∧ r.true_range.prev_close = none := by
  obtain ⟨t, et, st⟩ := TrueRange.reset_shape s.true_range
  obtain ⟨e, ee, we, pe⟩ := ExponentialMovingAverage.reset_total s.ema h.ema
  unfold reset
  try simp only [gen_helper]
  simp only [et, ee, Option.bind_eq_bind, Option.bind_some, Option.pure_def]
  exact ⟨_, rfl, ⟨we⟩, pe, st⟩

/-- `reset` never panics on a well-formed state and yields a well-formed state with the same period -/
theorem reset_total (s : AverageTrueRange F) (h : WF s) :
    ∃ r, s.reset = some r ∧ WF r ∧ r.period_fn = s.period_fn := by
  obtain ⟨r, e, w, p, _⟩ := reset_shape s h
  exact ⟨r, e, w, p⟩

/-- `next` never panics on ANY state (no hypothesis), and afterwards the TrueRange remembers a previous
    close (shape of the state only): what C18 needs, whose ATR statements carry no `WF` -/
theorem next_some_shape (s : AverageTrueRange F) (x : F) :
    ∃ r, s.next x = some r ∧ r.1.true_range.prev_close.isSome = true := by
  obtain ⟨ft, ht⟩ := Classical.axiomOfChoice (fun y => TrueRange.next_total s.true_range y)
  obtain ⟨fe, he⟩ := Classical.axiomOfChoice (fun y => ExponentialMovingAverage.next_some s.ema y)
  unfold next
  try simp only [gen_helper]
  simp only [fun y => (ht y).1, fun y => he y, Option.bind_eq_bind, Option.bind_some, Option.pure_def]
  exact ⟨_, rfl, (ht _).2⟩

/-- the same on the bar path -/
theorem nextBar_some_shape (s : AverageTrueRange F) (b : Bar F) :
    ∃ r, s.nextBar b = some r ∧ r.1.true_range.prev_close.isSome = true := by
  obtain ⟨ft, ht⟩ := Classical.axiomOfChoice (fun y => TrueRange.nextBar_total s.true_range y)
  obtain ⟨fe, he⟩ := Classical.axiomOfChoice (fun y => ExponentialMovingAverage.next_some s.ema y)
  unfold nextBar
  try simp only [gen_helper]
  simp only [fun y => (ht y).1, fun y => he y, Option.bind_eq_bind, Option.bind_some, Option.pure_def]
  exact ⟨_, rfl, (ht _).2⟩

end TaRs.Gen.AverageTrueRange
