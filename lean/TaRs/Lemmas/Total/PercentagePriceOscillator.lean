/-
  VALUE-AGNOSTIC totality facts about the GENERATED model of PercentagePriceOscillator (three
  ExponentialMovingAverages: fast, slow, signal): on a well-formed state `next` / `nextBar` / `reset`
  do not panic, keep `WF` and keep the three periods.  Everything is derived from the totality
  lemmas of the EMA, used in their functional form `∀ input, …`: the proofs never name the value
  that is fed into the signal EMA nor the outputs (inputs and witness are found by rewriting /
  unification), so a change of the Rust code that only alters arithmetic leaves this file (and
  C11 / C12 / C18) intact, whereas a change that can panic or lose a component's invariant does not.
-/
import TaRs.Lemmas.Core.PercentagePriceOscillator
import TaRs.Gen.PercentagePriceOscillator
import TaRs.Lemmas.RsLemmas
import TaRs.Lemmas.Total.ExponentialMovingAverage
set_option linter.unusedSectionVars false
namespace TaRs.Gen.PercentagePriceOscillator
open TaRs TaRs.Rs
variable {F : Type} [Scalar F]

/-- `next` never panics on a well-formed state, keeps it well-formed and keeps the three periods -/
theorem next_total (s : PercentagePriceOscillator F) (x : F) (h : WF s) :
    ∃ r, s.next x = some r ∧ WF r.1 ∧ r.1.fast_ema.period = s.fast_ema.period ∧
      r.1.slow_ema.period = s.slow_ema.period ∧ r.1.signal_ema.period = s.signal_ema.period := by
  obtain ⟨f1, h1⟩ := Classical.axiomOfChoice (fun y => ExponentialMovingAverage.next_total s.fast_ema y h.fast)
  obtain ⟨f2, h2⟩ := Classical.axiomOfChoice (fun y => ExponentialMovingAverage.next_total s.slow_ema y h.slow)
  obtain ⟨f3, h3⟩ := Classical.axiomOfChoice (fun y => ExponentialMovingAverage.next_total s.signal_ema y h.signal)
  unfold next
  try simp only [gen_helper]
  simp only [fun y => (h1 y).1, fun y => (h2 y).1, fun y => (h3 y).1,
    Option.bind_eq_bind, Option.bind_some, Option.pure_def]
  exact ⟨_, rfl, ⟨(h1 _).2.1, (h2 _).2.1, (h3 _).2.1⟩, (h1 _).2.2, (h2 _).2.2, (h3 _).2.2⟩

/-- `nextBar` never panics on a well-formed state, keeps it well-formed and keeps the three periods -/
theorem nextBar_total (s : PercentagePriceOscillator F) (b : Bar F) (h : WF s) :
    ∃ r, s.nextBar b = some r ∧ WF r.1 ∧ r.1.fast_ema.period = s.fast_ema.period ∧
      r.1.slow_ema.period = s.slow_ema.period ∧ r.1.signal_ema.period = s.signal_ema.period := by
  unfold nextBar
  try simp only [gen_helper]
  simp only [Option.bind_eq_bind, Option.pure_def]
  -- one `next` step on whichever scalar the bar path feeds to it (found by unification)
  refine bind_total (next_total _ _ h) ?_
  rintro ⟨s', o⟩ ⟨w, p⟩
  exact ⟨_, rfl, w, p⟩

/-- `reset` never panics on a well-formed state and yields a well-formed state with the same three
    periods (nothing is said about the values the EMAs are cleared to) -/
theorem reset_total (s : PercentagePriceOscillator F) (h : WF s) :
    ∃ r, s.reset = some r ∧ WF r ∧ r.fast_ema.period = s.fast_ema.period ∧
      r.slow_ema.period = s.slow_ema.period ∧ r.signal_ema.period = s.signal_ema.period := by
  obtain ⟨r1, e1, w1, p1⟩ := ExponentialMovingAverage.reset_total s.fast_ema h.fast
  obtain ⟨r2, e2, w2, p2⟩ := ExponentialMovingAverage.reset_total s.slow_ema h.slow
  obtain ⟨r3, e3, w3, p3⟩ := ExponentialMovingAverage.reset_total s.signal_ema h.signal
  unfold reset
  try simp only [gen_helper]
  simp only [e1, e2, e3, Option.bind_eq_bind, Option.bind_some, Option.pure_def]
  exact ⟨_, rfl, ⟨w1, w2, w3⟩, p1, p2, p3⟩

end TaRs.Gen.PercentagePriceOscillator
