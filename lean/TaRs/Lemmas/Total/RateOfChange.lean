/-
  VALUE-AGNOSTIC totality facts about the GENERATED model of RateOfChange: on a well-formed state
  `next` / `nextBar` / `reset` do not panic, keep `WF` and keep the period.  Nothing here says
  which VALUES are computed (no normal form of the output or of the stored values): a change of
  the Rust code that only alters the arithmetic leaves these proofs intact, a change that can
  panic or break the structural invariant does not.
-/
import TaRs.Lemmas.Core.RateOfChange
import TaRs.Gen.RateOfChange
import TaRs.Lemmas.RsLemmas
set_option linter.unusedSectionVars false
namespace TaRs.Gen.RateOfChange
open TaRs TaRs.Rs

variable {F : Type} [Scalar F]

/-- `next` never panics on a well-formed state, keeps it well-formed and keeps the period -/
theorem next_total (s : RateOfChange F) (x : F) (h : WF s) :
    ∃ r, s.next x = some r ∧ WF r.1 ∧ r.1.period = s.period := by
  obtain ⟨hp, hs, hsz, hi, hc⟩ := h
  have hm : isizeMax < usizeMax := by decide
  unfold next
  try simp only [gen_helper]
  rs_exec
  all_goals (first
    | omega
    | (refine ⟨_, rfl, ?_, ?_⟩
       · constructor <;> (try simp only [Array.size_setIfInBounds]) <;> (try intro) <;>
           (first | omega | trivial)
       · rfl))

theorem nextBar_total (s : RateOfChange F) (b : Bar F) (h : WF s) :
    ∃ r, s.nextBar b = some r ∧ WF r.1 ∧ r.1.period = s.period := by
  unfold nextBar
  try simp only [gen_helper]
  simp only [Option.bind_eq_bind, Option.pure_def]
  -- one `next` step on whichever scalar the bar path feeds to it (found by unification)
  refine bind_total (next_total _ _ h) ?_
  rintro ⟨s', o⟩ ⟨w, p⟩
  exact ⟨_, rfl, w, p⟩

/-- `reset` never panics on a well-formed state, yields a well-formed state and keeps the period
    (nothing is said about the cleared values) -/
theorem reset_total (s : RateOfChange F) (h : WF s) :
    ∃ r, s.reset = some r ∧ WF r ∧ r.period = s.period := by
  obtain ⟨hp, hs, hsz, hi, hc⟩ := h
  unfold reset
  try simp only [gen_helper]
  simp (disch := omega) only [fill_eq_pure, Option.bind_eq_bind, Option.bind_some, Option.pure_def]
  refine ⟨_, rfl, ?_, ?_⟩
  · constructor <;> (try simp only [fillPure_size]) <;> (try intro) <;> (first | omega | trivial)
  · rfl

end TaRs.Gen.RateOfChange
