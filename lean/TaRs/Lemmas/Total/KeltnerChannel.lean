/-
  VALUE-AGNOSTIC totality facts about the GENERATED model of KeltnerChannel (an AverageTrueRange and
  an ExponentialMovingAverage over the same period, plus the stored `period` and `multiplier`): on
  a well-formed state `next` / `nextBar` / `reset` do not panic, keep `WF` (component invariants and
  agreement of the three copies of the period) and keep `period()` and `multiplier()`.  Everything
  is derived from the totality lemmas of the two components, used in their functional form
  `∀ input, …`: the proofs never name the typical price fed into the EMA nor the three outputs
  (inputs and witness are found by rewriting / unification), so a change of the Rust code that only
  alters arithmetic leaves this file (and C11 / C12 / C18) intact, whereas a change that can panic,
  loses a component's invariant or touches a parameter does not.
-/
import TaRs.Lemmas.Core.KeltnerChannel
import TaRs.Gen.KeltnerChannel
import TaRs.Lemmas.RsLemmas
import TaRs.Lemmas.Total.ExponentialMovingAverage
import TaRs.Lemmas.Total.AverageTrueRange
set_option linter.unusedSectionVars false
namespace TaRs.Gen.KeltnerChannel
open TaRs TaRs.Rs
variable {F : Type} [Scalar F]

/-- `next` never panics on a well-formed state, keeps it well-formed, keeps the parameters, and
    afterwards the TrueRange inside the ATR remembers a previous close (shape of the state only) -/
theorem next_shape (s : KeltnerChannel F) (x : F) (h : WF s) :
    ∃ r, s.next x = some r ∧ WF r.1 ∧ r.1.period_fn = s.period_fn ∧
      r.1.multiplier_fn = s.multiplier_fn ∧ r.1.atr.true_range.prev_close.isSome = true := by
  obtain ⟨fa, ha⟩ := Classical.axiomOfChoice (fun y => AverageTrueRange.next_shape s.atr y h.atr)
  obtain ⟨fe, he⟩ := Classical.axiomOfChoice (fun y => ExponentialMovingAverage.next_total s.ema y h.ema)
  unfold next
  try simp only [gen_helper]
  simp only [fun y => (ha y).1, fun y => (he y).1, Option.bind_eq_bind, Option.bind_some, Option.pure_def]
  exact ⟨_, rfl, ⟨(ha _).2.1, (he _).2.1, (he _).2.2.trans h.ema_period,
    (ha _).2.2.1.trans h.atr_period⟩, rfl, rfl, (ha _).2.2.2⟩

/-- the same on the bar path -/
theorem nextBar_shape (s : KeltnerChannel F) (b : Bar F) (h : WF s) :
    ∃ r, s.nextBar b = some r ∧ WF r.1 ∧ r.1.period_fn = s.period_fn ∧
      r.1.multiplier_fn = s.multiplier_fn ∧ r.1.atr.true_range.prev_close.isSome = true := by
  obtain ⟨fa, ha⟩ := Classical.axiomOfChoice (fun y => AverageTrueRange.nextBar_shape s.atr y h.atr)
  obtain ⟨fe, he⟩ := Classical.axiomOfChoice (fun y => ExponentialMovingAverage.next_total s.ema y h.ema)
  unfold nextBar
  try simp only [gen_helper]
  simp only [fun y => (ha y).1, fun y => (he y).1, Option.bind_eq_bind, Option.bind_some, Option.pure_def]
  exact ⟨_, rfl, ⟨(ha _).2.1, (he _).2.1, (he _).2.2.trans h.ema_period,
    (ha _).2.2.1.trans h.atr_period⟩, rfl, rfl, (ha _).2.2.2⟩

/-- `next` never panics on a well-formed state, keeps it well-formed and keeps the parameters -/
theorem next_total (s : KeltnerChannel F) (x : F) (h : WF s) :
    ∃ r, s.next x = some r ∧ WF r.1 ∧ r.1.period_fn = s.period_fn ∧
      r.1.multiplier_fn = s.multiplier_fn := by
  obtain ⟨r, e, w, p, m, _⟩ := next_shape s x h
  exact ⟨r, e, w, p, m⟩

/-- `nextBar` never panics on a well-formed state, keeps it well-formed and keeps the parameters -/
theorem nextBar_total (s : KeltnerChannel F) (b : Bar F) (h : WF s) :
    ∃ r, s.nextBar b = some r ∧ WF r.1 ∧ r.1.period_fn = s.period_fn ∧
      r.1.multiplier_fn = s.multiplier_fn := by
  obtain ⟨r, e, w, p, m, _⟩ := nextBar_shape s b h
  exact ⟨r, e, w, p, m⟩

/-- `reset` never panics on a well-formed state, yields a well-formed state with the same
    parameters, and the TrueRange inside the ATR has forgotten the previous close (shape only;
    nothing is said about the values the EMAs are cleared to) -/
theorem reset_shape (s : KeltnerChannel F) (h : WF s) :
    ∃ r, s.reset = some r ∧ WF r ∧ r.period_fn = s.period_fn ∧ r.multiplier_fn = s.multiplier_fn ∧
      r.atr.true_range.prev_close = none := by
  obtain ⟨a, ea, wa, pa, sa⟩ := AverageTrueRange.reset_shape s.atr h.atr
  obtain ⟨e, ee, we, pe⟩ := ExponentialMovingAverage.reset_total s.ema h.ema
  unfold reset
  try simp only [gen_helper]
  simp only [ea, ee, Option.bind_eq_bind, Option.bind_some, Option.pure_def]
  exact ⟨_, rfl, ⟨wa, we, pe.trans h.ema_period, pa.trans h.atr_period⟩, rfl, rfl, sa⟩

/-- `reset` never panics on a well-formed state and yields a well-formed state with the same
    parameters -/
theorem reset_total (s : KeltnerChannel F) (h : WF s) :
    ∃ r, s.reset = some r ∧ WF r ∧ r.period_fn = s.period_fn ∧ r.multiplier_fn = s.multiplier_fn := by
  obtain ⟨r, e, w, p, m, _⟩ := reset_shape s h
  exact ⟨r, e, w, p, m⟩

/-- `next` never panics on ANY state (no hypothesis), and afterwards the TrueRange inside the ATR
    remembers a previous close (shape of the state only): what C18 needs, whose KeltnerChannel
    statements carry no `WF` -/
theorem next_some_shape (s : KeltnerChannel F) (x : F) :
    ∃ r, s.next x = some r ∧ r.1.atr.true_range.prev_close.isSome = true := by
  obtain ⟨fa, ha⟩ := Classical.axiomOfChoice (fun y => AverageTrueRange.next_some_shape s.atr y)
  obtain ⟨fe, he⟩ := Classical.axiomOfChoice (fun y => ExponentialMovingAverage.next_some s.ema y)
  unfold next
  try simp only [gen_helper]
  simp only [fun y => (ha y).1, fun y => he y, Option.bind_eq_bind, Option.bind_some, Option.pure_def]
  exact ⟨_, rfl, (ha _).2⟩

/-- the same on the bar path -/
theorem nextBar_some_shape (s : KeltnerChannel F) (b : Bar F) :
    ∃ r, s.nextBar b = some r ∧ r.1.atr.true_range.prev_close.isSome = true := by
  obtain ⟨fa, ha⟩ := Classical.axiomOfChoice (fun y => AverageTrueRange.nextBar_some_shape s.atr y)
  obtain ⟨fe, he⟩ := Classical.axiomOfChoice (fun y => ExponentialMovingAverage.next_some s.ema y)
  unfold nextBar
  try simp only [gen_helper]
  simp only [fun y => (ha y).1, fun y => he y, Option.bind_eq_bind, Option.bind_some, Option.pure_def]
  exact ⟨_, rfl, (ha _).2⟩

end TaRs.Gen.KeltnerChannel
