/-
  VALUE-AGNOSTIC totality facts about the GENERATED model of TrueRange (no parameters, no panicking
  operation, hence no `WF`): `next`, `nextBar` and `reset` always return.  The only thing said about
  the new state is the SHAPE of the `Option` it holds (`Some` after an input, `None` after `reset`),
  which is what the state size of C18 depends on; nothing here says which scalar VALUES are
  computed, so a change of the Rust code that only alters arithmetic leaves this file intact.
-/
import TaRs.Lemmas.Core.TrueRange
import TaRs.Gen.TrueRange
import TaRs.Lemmas.RsLemmas
namespace TaRs.Gen.TrueRange
open TaRs TaRs.Rs
variable {F : Type} [Scalar F]

/-- `next` never panics, and afterwards a previous close is remembered -/
theorem next_total (s : TrueRange F) (x : F) : ∃ r, s.next x = some r ∧ r.1.prev_close.isSome = true := by
  unfold next
  try simp only [gen_helper]
  rs_exec
  all_goals exact ⟨_, rfl, rfl⟩

/-- `nextBar` never panics, and afterwards a previous close is remembered -/
theorem nextBar_total (s : TrueRange F) (b : Bar F) :
    ∃ r, s.nextBar b = some r ∧ r.1.prev_close.isSome = true := by
  unfold nextBar
  try simp only [gen_helper]
  rs_exec
  all_goals exact ⟨_, rfl, rfl⟩

/-- `reset` never panics -/
theorem reset_total (s : TrueRange F) : ∃ r, s.reset = some r := by
  unfold reset
  try simp only [gen_helper]
  rs_exec
  all_goals exact ⟨_, rfl⟩

/-- `reset` never panics and forgets the previous close (shape of the state only) -/
theorem reset_shape (s : TrueRange F) : ∃ r, s.reset = some r ∧ r.prev_close = none := by
  unfold reset
  try simp only [gen_helper]
  rs_exec
  all_goals exact ⟨_, rfl, rfl⟩

end TaRs.Gen.TrueRange
