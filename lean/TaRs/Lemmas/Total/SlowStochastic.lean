/-
  VALUE-AGNOSTIC totality facts about the GENERATED model of SlowStochastic (an
  ExponentialMovingAverage fed with a FastStochastic): on a well-formed state `next` / `nextBar` /
  `reset` do not panic, keep `WF` and keep both component periods (SlowStochastic has no `period`
  field / `period_fn`: its parameters ARE the two component periods).  Everything is inherited from
  the totality of the two components (`TaRs.Lemmas.Total.FastStochastic` /
  `ExponentialMovingAverage`), which holds for EVERY input: nothing here says what is fed to the
  EMA nor what it answers, so a change of the Rust code that only alters arithmetic leaves this
  file (and C11 / C12 / C18, which need nothing more) intact.
-/
import TaRs.Lemmas.Core.SlowStochastic
import TaRs.Gen.SlowStochastic
import TaRs.Lemmas.RsLemmas
import TaRs.Lemmas.Total.FastStochastic
import TaRs.Lemmas.Total.ExponentialMovingAverage
namespace TaRs.Gen.SlowStochastic
open TaRs TaRs.Rs
variable {F : Type} [Scalar F]

/-- SlowStochastic has no `period` field / `period_fn`: "parameters unchanged" = both component periods -/
theorem next_total (s : SlowStochastic F) (x : F) (h : WF s) :
    ∃ r, s.next x = some r ∧ WF r.1 ∧
      r.1.fast_stochastic.period = s.fast_stochastic.period ∧ r.1.ema.period = s.ema.period := by
  unfold next
  try simp only [gen_helper]
  simp only [Option.bind_eq_bind, Option.pure_def]
  -- the FastStochastic step, then the EMA step on whatever it is fed
  refine bind_total (FastStochastic.next_total _ _ h.fast) ?_
  rintro ⟨fs', k⟩ ⟨w1, p1⟩
  refine bind_total (ExponentialMovingAverage.next_total _ _ h.ema) ?_
  rintro ⟨em', v⟩ ⟨w2, p2⟩
  exact ⟨_, rfl, ⟨w1, w2⟩, p1, p2⟩

theorem nextBar_total (s : SlowStochastic F) (b : Bar F) (h : WF s) :
    ∃ r, s.nextBar b = some r ∧ WF r.1 ∧
      r.1.fast_stochastic.period = s.fast_stochastic.period ∧ r.1.ema.period = s.ema.period := by
  unfold nextBar
  try simp only [gen_helper]
  simp only [Option.bind_eq_bind, Option.pure_def]
  refine bind_total (FastStochastic.nextBar_total _ _ h.fast) ?_
  rintro ⟨fs', k⟩ ⟨w1, p1⟩
  refine bind_total (ExponentialMovingAverage.next_total _ _ h.ema) ?_
  rintro ⟨em', v⟩ ⟨w2, p2⟩
  exact ⟨_, rfl, ⟨w1, w2⟩, p1, p2⟩

/-- `reset` never panics on a well-formed state and yields a well-formed state with the same two
    component periods (whatever the components' resets write) -/
theorem reset_total (s : SlowStochastic F) (h : WF s) :
    ∃ r, s.reset = some r ∧ WF r ∧
      r.fast_stochastic.period = s.fast_stochastic.period ∧ r.ema.period = s.ema.period := by
  obtain ⟨fs', e1, w1, p1⟩ := FastStochastic.reset_total s.fast_stochastic h.fast
  obtain ⟨em', e2, w2, p2⟩ := ExponentialMovingAverage.reset_total s.ema h.ema
  unfold reset
  try simp only [gen_helper]
  simp only [e1, e2, Option.bind_eq_bind, Option.bind_some, Option.pure_def]
  exact ⟨_, rfl, ⟨w1, w2⟩, p1, p2⟩

/-- the name under which C11 / C12 / C18 use `reset_total` -/
theorem reset_wf (s : SlowStochastic F) (h : WF s) :
    ∃ r, s.reset = some r ∧ WF r ∧
      r.fast_stochastic.period = s.fast_stochastic.period ∧ r.ema.period = s.ema.period :=
  reset_total s h

end TaRs.Gen.SlowStochastic
