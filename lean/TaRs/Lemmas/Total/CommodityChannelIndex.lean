/-
  VALUE-AGNOSTIC totality facts about the GENERATED model of CommodityChannelIndex (a
  SimpleMovingAverage and a MeanAbsoluteDeviation): on a well-formed state `nextBar` / `reset` do
  not panic, keep `WF` and keep `period()`.  Everything is inherited from the totality of the two
  components, which holds for EVERY input: nothing here says what the typical price fed to them is,
  nor what the output is, so a change of the Rust code that only alters arithmetic leaves this file
  (and C11 / C12 / C18, which need nothing more) intact.
-/
import TaRs.Lemmas.Core.CommodityChannelIndex
import TaRs.Gen.CommodityChannelIndex
import TaRs.Lemmas.RsLemmas
import TaRs.Lemmas.Total.SimpleMovingAverage
import TaRs.Lemmas.Total.MeanAbsoluteDeviation
namespace TaRs.Gen.CommodityChannelIndex
open TaRs TaRs.Rs
variable {F : Type} [Scalar F]

theorem nextBar_total (s : CommodityChannelIndex F) (b : Bar F) (h : WF s) :
    ∃ r, s.nextBar b = some r ∧ WF r.1 ∧ r.1.period_fn = s.period_fn := by
  unfold nextBar
  try simp only [gen_helper]
  simp only [Option.bind_eq_bind, Option.pure_def]
  -- the two component steps, in whatever order and whatever is fed to them
  repeat (first
    | (refine bind_total (SimpleMovingAverage.next_total _ _ h.sma) ?_; rintro ⟨sma', a⟩ ⟨w1, p1⟩)
    | (refine bind_total (MeanAbsoluteDeviation.next_total _ _ h.mad) ?_; rintro ⟨mad', d⟩ ⟨w2, p2⟩))
  have hw : WF ({ sma := sma', mad := mad' } : CommodityChannelIndex F) :=
    ⟨w1, w2, p2.trans (h.per.trans p1.symm)⟩
  have hp : ({ sma := sma', mad := mad' } : CommodityChannelIndex F).period_fn = s.period_fn := p1
  -- the output (and the test that selects it) is irrelevant
  repeat' split
  all_goals exact ⟨_, rfl, hw, hp⟩

/-- `reset` never panics on a well-formed state and yields a well-formed state with the same
    `period()` (whatever the components' resets write) -/
theorem reset_total (s : CommodityChannelIndex F) (h : WF s) :
    ∃ r, s.reset = some r ∧ WF r ∧ r.period_fn = s.period_fn := by
  obtain ⟨sma', e1, w1, p1⟩ := SimpleMovingAverage.reset_total s.sma h.sma
  obtain ⟨mad', e2, w2, p2⟩ := MeanAbsoluteDeviation.reset_total s.mad h.mad
  unfold reset
  try simp only [gen_helper]
  simp only [e1, e2, Option.bind_eq_bind, Option.bind_some, Option.pure_def]
  exact ⟨_, rfl, ⟨w1, w2, p2.trans (h.per.trans p1.symm)⟩, p1⟩

end TaRs.Gen.CommodityChannelIndex
