/-
  VALUE-AGNOSTIC totality facts about the GENERATED model of FastStochastic (a Minimum and a
  Maximum window plus the recorded period): on a well-formed state `next` / `nextBar` / `reset` do
  not panic, keep `WF` and keep the period.  Everything is inherited from the totality of the two
  components (`TaRs.Lemmas.Total.Minimum` / `Maximum`); nothing here says which scalar VALUE the
  oscillator outputs, so a change of the Rust code that only alters arithmetic leaves this file
  (and C11 / C12 / C18, which need nothing more) intact.
-/
import TaRs.Lemmas.Core.FastStochastic
import TaRs.Gen.FastStochastic
import TaRs.Lemmas.RsLemmas
import TaRs.Lemmas.Total.Minimum
import TaRs.Lemmas.Total.Maximum
namespace TaRs.Gen.FastStochastic
open TaRs TaRs.Rs
variable {F : Type} [Scalar F]

omit [Scalar F] in
theorem WF.pos {s : FastStochastic F} (h : WF s) : 0 < s.period := h.pmin ▸ h.min.pos

theorem next_total (s : FastStochastic F) (x : F) (h : WF s) :
    ∃ r, s.next x = some r ∧ WF r.1 ∧ r.1.period = s.period := by
  unfold next
  try simp only [gen_helper]
  simp only [Option.bind_eq_bind, Option.pure_def]
  -- the two windows, in whatever order and whatever is fed to them
  repeat (first
    | (refine bind_total (Minimum.next_total _ _ h.min) ?_; rintro ⟨mn', lo⟩ ⟨w1, p1⟩)
    | (refine bind_total (Maximum.next_total _ _ h.max) ?_; rintro ⟨mx', hi⟩ ⟨w2, p2⟩))
  exact ⟨_, rfl, ⟨w1, w2, p1.trans h.pmin, p2.trans h.pmax⟩, rfl⟩

theorem nextBar_total (s : FastStochastic F) (b : Bar F) (h : WF s) :
    ∃ r, s.nextBar b = some r ∧ WF r.1 ∧ r.1.period = s.period := by
  unfold nextBar
  try simp only [gen_helper]
  simp only [Option.bind_eq_bind, Option.pure_def]
  repeat (first
    | (refine bind_total (Minimum.next_total _ _ h.min) ?_; rintro ⟨mn', lo⟩ ⟨w1, p1⟩)
    | (refine bind_total (Maximum.next_total _ _ h.max) ?_; rintro ⟨mx', hi⟩ ⟨w2, p2⟩))
  exact ⟨_, rfl, ⟨w1, w2, p1.trans h.pmin, p2.trans h.pmax⟩, rfl⟩

/-- `reset` never panics on a well-formed state and yields a well-formed state with the same
    period (whatever the windows' resets write) -/
theorem reset_total (s : FastStochastic F) (h : WF s) :
    ∃ r, s.reset = some r ∧ WF r ∧ r.period = s.period := by
  obtain ⟨mn', e1, w1, p1⟩ := Minimum.reset_total s.minimum h.min
  obtain ⟨mx', e2, w2, p2⟩ := Maximum.reset_total s.maximum h.max
  unfold reset
  try simp only [gen_helper]
  simp only [e1, e2, Option.bind_eq_bind, Option.bind_some, Option.pure_def]
  exact ⟨_, rfl, ⟨w1, w2, p1.trans h.pmin, p2.trans h.pmax⟩, rfl⟩

/-- the name under which C12 / C18 use `reset_total` -/
theorem reset_wf (s : FastStochastic F) (h : WF s) :
    ∃ r, s.reset = some r ∧ WF r ∧ r.period = s.period :=
  reset_total s h

end TaRs.Gen.FastStochastic
