/-
  VALUE-AGNOSTIC totality facts about the GENERATED model of ExponentialMovingAverage: on a
  well-formed state `next` / `nextBar` / `reset` do not panic, keep `WF` (the parameters `period`
  and `k = 2 / (period + 1)` are untouched) and keep the period.  Nothing here says which scalar
  VALUES are computed for `current`, so a change of the Rust code that only alters arithmetic
  leaves this file (and C11 / C12 / C18, which need nothing more) intact.
-/
import TaRs.Lemmas.Core.ExponentialMovingAverage
import TaRs.Gen.ExponentialMovingAverage
import TaRs.Lemmas.RsLemmas
namespace TaRs.Gen.ExponentialMovingAverage
open TaRs TaRs.Rs
variable {F : Type} [Scalar F]

/-- `next` never panics on a well-formed state, keeps it well-formed and keeps the period -/
theorem next_total (s : ExponentialMovingAverage F) (x : F) (h : WF s) :
    ∃ r, s.next x = some r ∧ WF r.1 ∧ r.1.period = s.period := by
  obtain ⟨hp, hk⟩ := h
  unfold next
  try simp only [gen_helper]
  rs_exec
  all_goals (refine ⟨_, rfl, ⟨?_, ?_⟩, ?_⟩ <;> first | exact hp | exact hk | rfl)

/-- `nextBar` never panics on a well-formed state, keeps it well-formed and keeps the period -/
theorem nextBar_total (s : ExponentialMovingAverage F) (b : Bar F) (h : WF s) :
    ∃ r, s.nextBar b = some r ∧ WF r.1 ∧ r.1.period = s.period := by
  unfold nextBar
  try simp only [gen_helper]
  simp only [Option.bind_eq_bind, Option.pure_def]
  -- one `next` step on whichever scalar the bar path feeds to it (found by unification)
  refine bind_total (next_total _ _ h) ?_
  rintro ⟨s', o⟩ ⟨w, p⟩
  exact ⟨_, rfl, w, p⟩

/-- `reset` never panics on a well-formed state and yields a well-formed state with the same
    period (whatever value it writes into `current`) -/
theorem reset_total (s : ExponentialMovingAverage F) (h : WF s) :
    ∃ r, s.reset = some r ∧ WF r ∧ r.period = s.period := by
  obtain ⟨hp, hk⟩ := h
  unfold reset
  try simp only [gen_helper]
  rs_exec
  all_goals (refine ⟨_, rfl, ⟨?_, ?_⟩, ?_⟩ <;> first | exact hp | exact hk | rfl)

/-- `next` never panics, on ANY state (no `usize` arithmetic, no indexing): used where a composite's
    statement carries no well-formedness hypothesis (C18 for ATR / KeltnerChannel) -/
theorem next_some (s : ExponentialMovingAverage F) (x : F) : ∃ r, s.next x = some r := by
  unfold next
  try simp only [gen_helper]
  rs_exec
  all_goals exact ⟨_, rfl⟩

end TaRs.Gen.ExponentialMovingAverage
