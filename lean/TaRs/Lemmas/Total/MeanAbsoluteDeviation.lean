/-
  VALUE-AGNOSTIC totality facts about the GENERATED model of MeanAbsoluteDeviation: on a well-formed
  state `next` / `nextBar` / `reset` do not panic, keep `WF` and keep the parameters.  Nothing here
  says which scalar VALUES are computed, so a change of the Rust code that only alters arithmetic
  leaves this file (and C11 / C12 / C18, which need nothing more) intact.
-/
import TaRs.Lemmas.Core.MeanAbsoluteDeviation
import TaRs.Gen.MeanAbsoluteDeviation
import TaRs.Lemmas.RsLemmas
namespace TaRs.Gen.MeanAbsoluteDeviation
open TaRs TaRs.Rs

variable {F : Type} [Scalar F]

/-- `next` never panics on a well-formed state, keeps it well-formed and keeps the period. -/
theorem next_total (s : MeanAbsoluteDeviation F) (x : F) (h : WF s) :
    ∃ r, s.next x = some r ∧ WF r.1 ∧ r.1.period = s.period := by
  obtain ⟨hp, hs, hsz, hi, hc⟩ := h
  have hm : isizeMax < usizeMax := by decide
  unfold next
  try simp only [gen_helper]
  rs_exec
  all_goals try omega
  all_goals try
    simp (disch := first | omega | (simp only [Array.size_setIfInBounds]; omega)) only
      [slice_eq, Option.bind_eq_bind, Option.bind_some, Option.pure_def]
  all_goals (first
    | omega
    | (refine ⟨_, rfl, ?_, ?_⟩
       · constructor <;> (try simp only [Array.size_setIfInBounds]) <;> omega
       · rfl))

/-- `nextBar` never panics on a well-formed state, keeps it well-formed and keeps the period -/
theorem nextBar_total (s : MeanAbsoluteDeviation F) (b : Bar F) (h : WF s) :
    ∃ r, s.nextBar b = some r ∧ WF r.1 ∧ r.1.period = s.period := by
  unfold nextBar
  try simp only [gen_helper]
  simp only [Option.bind_eq_bind, Option.pure_def]
  -- one `next` step on whichever scalar the bar path feeds to it (found by unification)
  refine bind_total (next_total _ _ h) ?_
  rintro ⟨s', o⟩ ⟨w, p⟩
  exact ⟨_, rfl, w, p⟩

/-- `reset` never panics on a well-formed state, yields a well-formed state with the same period
    (whatever values it writes) -/
theorem reset_total (s : MeanAbsoluteDeviation F) (h : WF s) :
    ∃ r, s.reset = some r ∧ WF r ∧ r.period = s.period := by
  obtain ⟨hp, hs, hsz, hi, hc⟩ := h
  unfold reset
  try simp only [gen_helper]
  simp (disch := omega) only [fill_eq_pure, Option.bind_eq_bind, Option.bind_some, Option.pure_def]
  refine ⟨_, rfl, ?_, ?_⟩
  · constructor <;> (try simp only [fillPure_size]) <;> omega
  · rfl

end TaRs.Gen.MeanAbsoluteDeviation
