/-
  VALUE-AGNOSTIC totality facts about the GENERATED model of RelativeStrengthIndex (two
  ExponentialMovingAverages, the previous input and a flag): on a well-formed state `next` /
  `nextBar` / `reset` do not panic, keep `WF` and keep the period.  Everything is inherited from
  the totality of the two components (`TaRs.Lemmas.Total.ExponentialMovingAverage`), which holds
  for EVERY input: nothing here says what gains / losses are fed to the EMAs, nor what the output
  is, so a change of the Rust code that only alters arithmetic or a comparison of scalars leaves
  this file (and C11 / C12 / C18, which need nothing more) intact.
-/
import TaRs.Lemmas.Core.RelativeStrengthIndex
import TaRs.Gen.RelativeStrengthIndex
import TaRs.Lemmas.RsLemmas
import TaRs.Lemmas.Total.ExponentialMovingAverage
namespace TaRs.Gen.RelativeStrengthIndex
open TaRs TaRs.Rs
variable {F : Type} [Scalar F]

theorem next_total (s : RelativeStrengthIndex F) (x : F) (h : WF s) :
    ∃ r, s.next x = some r ∧ WF r.1 ∧ r.1.period_fn = s.period_fn := by
  obtain ⟨hu, hd, hpu, hpd⟩ := h
  unfold next
  try simp only [gen_helper]
  -- the tests (first input? rising?) only select what is fed to the EMAs
  rs_exec
  all_goals (
    -- the two EMA steps, in whatever order and whatever is fed to them
    repeat (first
      | (refine bind_total (ExponentialMovingAverage.next_total _ _ hu) ?_; rintro ⟨u', a⟩ ⟨wu, pu⟩)
      | (refine bind_total (ExponentialMovingAverage.next_total _ _ hd) ?_; rintro ⟨d', c⟩ ⟨wd, pd⟩))
    -- the output (and the test that selects it) is irrelevant
    repeat' split
    all_goals exact ⟨_, rfl, ⟨wu, wd, pu.trans hpu, pd.trans hpd⟩, rfl⟩)

theorem nextBar_total (s : RelativeStrengthIndex F) (b : Bar F) (h : WF s) :
    ∃ r, s.nextBar b = some r ∧ WF r.1 ∧ r.1.period_fn = s.period_fn := by
  unfold nextBar
  try simp only [gen_helper]
  simp only [Option.bind_eq_bind, Option.pure_def]
  -- one `next` step on whichever field of the bar is read
  refine bind_total (next_total _ _ h) ?_
  rintro ⟨s', o⟩ ⟨w, p⟩
  exact ⟨_, rfl, w, p⟩

/-- `reset` never panics on a well-formed state and yields a well-formed state with the same
    period (whatever it writes into `prev_val` and whatever the components' resets write) -/
theorem reset_total (s : RelativeStrengthIndex F) (h : WF s) :
    ∃ r, s.reset = some r ∧ WF r ∧ r.period_fn = s.period_fn := by
  obtain ⟨hu, hd, hpu, hpd⟩ := h
  obtain ⟨u', e1, wu, pu⟩ := ExponentialMovingAverage.reset_total s.up_ema_indicator hu
  obtain ⟨d', e2, wd, pd⟩ := ExponentialMovingAverage.reset_total s.down_ema_indicator hd
  unfold reset
  try simp only [gen_helper]
  simp only [e1, e2, Option.bind_eq_bind, Option.bind_some, Option.pure_def]
  exact ⟨_, rfl, ⟨wu, wd, pu.trans hpu, pd.trans hpd⟩, rfl⟩

end TaRs.Gen.RelativeStrengthIndex
