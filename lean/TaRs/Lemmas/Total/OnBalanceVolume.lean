/-
  VALUE-AGNOSTIC totality facts about the GENERATED model of OnBalanceVolume (no parameters, no
  panicking operation, hence no `WF`): `nextBar` and `reset` always return.  Nothing here says
  which scalar VALUES are computed, so a change of the Rust code that only alters arithmetic
  leaves this file (and C11 / C12 / C18, which need nothing more) intact.
-/
import TaRs.Lemmas.Core.OnBalanceVolume
import TaRs.Gen.OnBalanceVolume
import TaRs.Lemmas.RsLemmas
namespace TaRs.Gen.OnBalanceVolume
open TaRs TaRs.Rs
variable {F : Type} [Scalar F]

/-- `nextBar` never panics (nothing else is claimed).  The pre-existing `nextBar_total` also says which
    field the output is read from, so it is NOT value-agnostic and stays in `Lemmas/OnBalanceVolume.lean`. -/
theorem nextBar_some (s : OnBalanceVolume F) (b : Bar F) : ∃ r, s.nextBar b = some r := by
  unfold nextBar
  try simp only [gen_helper]
  rs_exec
  all_goals exact ⟨_, rfl⟩

/-- `reset` never panics (whatever values it writes) -/
theorem reset_total (s : OnBalanceVolume F) : ∃ r, s.reset = some r := by
  unfold reset
  try simp only [gen_helper]
  rs_exec
  all_goals exact ⟨_, rfl⟩

end TaRs.Gen.OnBalanceVolume
