/-
  VALUE-AGNOSTIC totality facts about the GENERATED model of BollingerBands (a StandardDeviation
  plus two parameters): on a well-formed state `next` / `nextBar` / `reset` do not panic, keep `WF`
  and keep `period` and `multiplier`.  Everything is inherited from the totality of the component
  (`TaRs.Lemmas.Total.StandardDeviation`); nothing here says which scalar VALUES the bands are, so a
  change of the Rust code that only alters arithmetic leaves this file (and C11 / C12 / C18, which
  need nothing more) intact.
-/
import TaRs.Lemmas.Core.BollingerBands
import TaRs.Gen.BollingerBands
import TaRs.Lemmas.RsLemmas
import TaRs.Lemmas.Total.StandardDeviation
namespace TaRs.Gen.BollingerBands
open TaRs TaRs.Rs
variable {F : Type} [Scalar F]

theorem next_total (s : BollingerBands F) (x : F) (h : WF s) :
    ∃ r, s.next x = some r ∧ WF r.1 ∧ r.1.period = s.period ∧ r.1.multiplier = s.multiplier := by
  unfold next
  try simp only [gen_helper]
  simp only [Option.bind_eq_bind, Option.pure_def]
  -- the StandardDeviation step, on whatever it is fed; the bands computed from it are irrelevant
  refine bind_total (StandardDeviation.next_total _ _ h.sd) ?_
  rintro ⟨sd', v⟩ ⟨w, p⟩
  exact ⟨_, rfl, ⟨w, p.trans h.per⟩, rfl, rfl⟩

/-- `nextBar` never panics on a well-formed state, keeps it well-formed and keeps the parameters -/
theorem nextBar_total (s : BollingerBands F) (b : Bar F) (h : WF s) :
    ∃ r, s.nextBar b = some r ∧ WF r.1 ∧ r.1.period = s.period ∧ r.1.multiplier = s.multiplier := by
  unfold nextBar
  try simp only [gen_helper]
  simp only [Option.bind_eq_bind, Option.pure_def]
  -- one `next` step on whichever field of the bar is read
  refine bind_total (next_total _ _ h) ?_
  rintro ⟨s', o⟩ ⟨w, p⟩
  exact ⟨_, rfl, w, p⟩

/-- `reset` never panics on a well-formed state and yields a well-formed state with the same
    parameters (whatever the component's reset writes) -/
theorem reset_total (s : BollingerBands F) (h : WF s) :
    ∃ r, s.reset = some r ∧ WF r ∧ r.period = s.period ∧ r.multiplier = s.multiplier := by
  obtain ⟨sd', e, w, p⟩ := StandardDeviation.reset_total s.sd h.sd
  unfold reset
  try simp only [gen_helper]
  simp only [e, Option.bind_eq_bind, Option.bind_some, Option.pure_def]
  exact ⟨_, rfl, ⟨w, p.trans h.per⟩, rfl, rfl⟩

end TaRs.Gen.BollingerBands
