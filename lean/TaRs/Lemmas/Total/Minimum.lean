/-
  VALUE-AGNOSTIC totality facts about the GENERATED model of Minimum: on a well-formed state
  `next` / `nextBar` / `reset` do not panic, keep `WF` and keep the period.  Nothing here says
  which VALUES are computed (no normal form of the new state, no law about `Scalar.lt`): a change
  of the Rust code that only alters a value or a comparison leaves these proofs intact, a change
  that can panic or break the structural invariant does not.
-/
import TaRs.Lemmas.Core.Minimum
import TaRs.Gen.Minimum
import TaRs.Lemmas.RsLemmas
set_option linter.unusedSectionVars false
namespace TaRs.Gen.Minimum
open TaRs TaRs.Rs

variable {F : Type} [Scalar F]

/-- a scan loop `for (i, v) in d.iter().enumerate()` whose accumulator carries an index: if every
    iteration keeps the index or replaces it by one within bounds, the result is within bounds —
    whatever is compared, whatever the other components of the accumulator are -/
theorem foldl_index_lt {α β : Type} (n : Nat) (f : α × Nat → Nat × β → α × Nat)
    (hf : ∀ acc x, x.1 < n → acc.2 < n → (f acc x).2 < n) :
    ∀ (l : List (Nat × β)) (acc : α × Nat), (∀ x ∈ l, x.1 < n) → acc.2 < n →
      (List.foldl f acc l).2 < n := by
  intro l
  induction l with
  | nil => intro acc _ h2; simpa using h2
  | cons a l ih =>
    intro acc h1 h2
    simp only [List.foldl_cons]
    exact ih _ (fun x hx => h1 x (List.mem_cons_of_mem _ hx)) (hf _ _ (h1 a List.mem_cons_self) h2)

omit [Scalar F] in
theorem enumerate_fst_lt (d : Array F) : ∀ x ∈ enumerate d, x.1 < d.size := by
  intro x hx
  unfold enumerate at hx
  have := (List.of_mem_zip (a := x.1) (b := x.2) hx).1
  simpa using this

/-- the rescan only ever yields `0` (its start value) or an index produced by `enumerate`:
    whatever `Scalar.lt` answers, the result is in bounds of a non-empty buffer. -/
theorem find_min_index_lt (s : Minimum F) (h : 0 < s.deque.size) :
    s.find_min_index < s.deque.size := by
  unfold find_min_index
  try simp only [gen_helper]
  refine foldl_index_lt _ _ ?_ _ _ (enumerate_fst_lt _) h
  intro acc x h1 h2
  dsimp only
  repeat' split
  all_goals assumption

theorem find_min_index_lt_of (t : Minimum F) (n : Nat) (h : t.deque.size = n) (hn : 0 < n) :
    t.find_min_index < n := by
  subst h; exact find_min_index_lt t hn

/-- `next` never panics on a well-formed state, keeps it well-formed and keeps the period -/
theorem next_total (s : Minimum F) (x : F) (h : WF s) :
    ∃ r, s.next x = some r ∧ WF r.1 ∧ r.1.period = s.period := by
  obtain ⟨hp, hs, hsz, hc, hmn⟩ := h
  have hm : isizeMax < usizeMax := by decide
  have hsz' : (s.deque.setIfInBounds s.cur_index x).size = s.period := by simpa using hsz
  unfold next
  try simp only [gen_helper]
  rs_exec
  -- the rescan result is only known to be an index of the buffer
  all_goals (try (
    generalize hg : find_min_index (F := F) _ = g
    have hgl : g < s.period := by
      rw [← hg]; exact find_min_index_lt_of _ _ hsz' hp
    rs_exec))
  all_goals (first
    | omega
    | (refine ⟨_, rfl, ?_, ?_⟩
       · constructor <;> (try simp only [Array.size_setIfInBounds]) <;> (try intro) <;>
           (first | omega | trivial)
       · rfl))

theorem nextBar_total (s : Minimum F) (b : Bar F) (h : WF s) :
    ∃ r, s.nextBar b = some r ∧ WF r.1 ∧ r.1.period = s.period := by
  unfold nextBar
  try simp only [gen_helper]
  simp only [Option.bind_eq_bind, Option.pure_def]
  -- one `next` step on whichever scalar the bar path feeds to it (found by unification)
  refine bind_total (next_total _ _ h) ?_
  rintro ⟨s', o⟩ ⟨w, p⟩
  exact ⟨_, rfl, w, p⟩

/-- `reset` never panics on a well-formed state, yields a well-formed state and keeps the period
    (nothing is said about the cleared values) -/
theorem reset_total (s : Minimum F) (h : WF s) :
    ∃ r, s.reset = some r ∧ WF r ∧ r.period = s.period := by
  obtain ⟨hp, hs, hsz, hc, hmn⟩ := h
  unfold reset
  try simp only [gen_helper]
  simp (disch := omega) only [fill_eq_pure, Option.bind_eq_bind, Option.bind_some, Option.pure_def]
  refine ⟨_, rfl, ?_, ?_⟩
  · constructor <;> (try simp only [fillPure_size]) <;> (try intro) <;> (first | omega | trivial)
  · rfl

end TaRs.Gen.Minimum
