/-
  VALUE-AGNOSTIC totality facts about the GENERATED model of ChandelierExit (an AverageTrueRange, a
  Minimum window and a Maximum window over the same period, plus the stored `multiplier`; bar input
  only): on a well-formed state `nextBar` / `reset` do not panic, keep `WF` (component invariants
  and agreement of the three periods) and keep `period()` and `multiplier()`.  Everything is derived
  from the totality lemmas of the three components, used in their functional form `∀ input, …`: the
  proofs never name the two outputs nor what the components compute (inputs and witness are found
  by rewriting / unification), so a change of the Rust code that only alters arithmetic leaves this
  file (and C11 / C12 / C18) intact, whereas a change that can panic, loses a component's invariant
  or touches a parameter does not.
-/
import TaRs.Lemmas.Core.ChandelierExit
import TaRs.Gen.ChandelierExit
import TaRs.Lemmas.RsLemmas
import TaRs.Lemmas.Total.AverageTrueRange
import TaRs.Lemmas.Total.Minimum
import TaRs.Lemmas.Total.Maximum
set_option linter.unusedSectionVars false
namespace TaRs.Gen.ChandelierExit
open TaRs TaRs.Rs
variable {F : Type} [Scalar F]

/-- `nextBar` never panics on a well-formed state, keeps it well-formed, keeps the parameters, and
    afterwards the TrueRange inside the ATR remembers a previous close (shape of the state only) -/
theorem nextBar_shape (s : ChandelierExit F) (b : Bar F) (h : WF s) :
    ∃ r, s.nextBar b = some r ∧ WF r.1 ∧ r.1.period_fn = s.period_fn ∧
      r.1.multiplier = s.multiplier ∧ r.1.atr.true_range.prev_close.isSome = true := by
  obtain ⟨fa, ha⟩ := Classical.axiomOfChoice (fun y => AverageTrueRange.nextBar_shape s.atr y h.atr)
  obtain ⟨fn, hn⟩ := Classical.axiomOfChoice (fun y => Minimum.nextBar_total s.min y h.min)
  obtain ⟨fx, hx⟩ := Classical.axiomOfChoice (fun y => Maximum.nextBar_total s.max y h.max)
  unfold nextBar
  try simp only [gen_helper]
  simp only [fun y => (ha y).1, fun y => (hn y).1, fun y => (hx y).1,
    Option.bind_eq_bind, Option.bind_some, Option.pure_def]
  exact ⟨_, rfl, ⟨(ha _).2.1, (hn _).2.1, (hx _).2.1,
    ((hn _).2.2.trans h.pmin).trans (ha _).2.2.1.symm,
    ((hx _).2.2.trans h.pmax).trans (ha _).2.2.1.symm⟩, (ha _).2.2.1, rfl, (ha _).2.2.2⟩

/-- `nextBar` never panics on a well-formed state, keeps it well-formed and keeps the parameters -/
theorem nextBar_total (s : ChandelierExit F) (b : Bar F) (h : WF s) :
    ∃ r, s.nextBar b = some r ∧ WF r.1 ∧ r.1.period_fn = s.period_fn ∧
      r.1.multiplier = s.multiplier := by
  obtain ⟨r, e, w, p, m, _⟩ := nextBar_shape s b h
  exact ⟨r, e, w, p, m⟩

/-- `reset` never panics on a well-formed state, yields a well-formed state with the same
    parameters, and the TrueRange inside the ATR has forgotten the previous close (shape only;
    nothing is said about the cleared values) -/
theorem reset_shape (s : ChandelierExit F) (h : WF s) :
    ∃ r, s.reset = some r ∧ WF r ∧ r.period_fn = s.period_fn ∧ r.multiplier_fn = s.multiplier_fn ∧
      r.atr.true_range.prev_close = none := by
  obtain ⟨a, ea, wa, pa, sa⟩ := AverageTrueRange.reset_shape s.atr h.atr
  obtain ⟨n, en, wn, pn⟩ := Minimum.reset_total s.min h.min
  obtain ⟨x, ex, wx, px⟩ := Maximum.reset_total s.max h.max
  unfold reset
  try simp only [gen_helper]
  simp only [ea, en, ex, Option.bind_eq_bind, Option.bind_some, Option.pure_def]
  exact ⟨_, rfl, ⟨wa, wn, wx, (pn.trans h.pmin).trans pa.symm, (px.trans h.pmax).trans pa.symm⟩,
    pa, rfl, sa⟩

/-- `reset` never panics on a well-formed state and yields a well-formed state with the same
    parameters -/
theorem reset_total (s : ChandelierExit F) (h : WF s) :
    ∃ r, s.reset = some r ∧ WF r ∧ r.period_fn = s.period_fn ∧ r.multiplier_fn = s.multiplier_fn := by
  obtain ⟨r, e, w, p, m, _⟩ := reset_shape s h
  exact ⟨r, e, w, p, m⟩

/-- `reset_total` with the multiplier read as a field (the statement C12 uses) -/
theorem reset_wf (s : ChandelierExit F) (h : WF s) :
    ∃ r, s.reset = some r ∧ WF r ∧ r.period_fn = s.period_fn ∧ r.multiplier = s.multiplier :=
  reset_total s h

end TaRs.Gen.ChandelierExit
