/- L0 facts about the generated MovingAverageConvergenceDivergence (any `[Scalar F]`). -/
import TaRs.Lemmas.Core.MovingAverageConvergenceDivergence
import TaRs.Gen.MovingAverageConvergenceDivergence
import TaRs.Lemmas.ExponentialMovingAverage
import TaRs.Lemmas.Total.MovingAverageConvergenceDivergence
import TaRs.Lemmas.Bar.MovingAverageConvergenceDivergence
namespace TaRs.Gen.MovingAverageConvergenceDivergence
open TaRs TaRs.Rs
variable {F : Type} [Scalar F]

/-- MACD wiring: `macd = EMA_fast(x) − EMA_slow(x)`, `signal = EMA_signal(macd)`,
    `histogram = macd − signal`, in the code's operation order. -/
theorem next_eq (s : MovingAverageConvergenceDivergence F) (x : F) :
    s.next x =
      some ({ fast_ema := ExponentialMovingAverage.step s.fast_ema x,
              slow_ema := ExponentialMovingAverage.step s.slow_ema x,
              signal_ema := ExponentialMovingAverage.step s.signal_ema
                (Scalar.sub (ExponentialMovingAverage.step s.fast_ema x).current
                            (ExponentialMovingAverage.step s.slow_ema x).current) },
            { macd := Scalar.sub (ExponentialMovingAverage.step s.fast_ema x).current
                                 (ExponentialMovingAverage.step s.slow_ema x).current,
              signal := (ExponentialMovingAverage.step s.signal_ema
                (Scalar.sub (ExponentialMovingAverage.step s.fast_ema x).current
                            (ExponentialMovingAverage.step s.slow_ema x).current)).current,
              histogram := Scalar.sub
                (Scalar.sub (ExponentialMovingAverage.step s.fast_ema x).current
                            (ExponentialMovingAverage.step s.slow_ema x).current)
                (ExponentialMovingAverage.step s.signal_ema
                  (Scalar.sub (ExponentialMovingAverage.step s.fast_ema x).current
                              (ExponentialMovingAverage.step s.slow_ema x).current)).current }) := by
  unfold next
  try simp only [gen_helper]
  simp [ExponentialMovingAverage.next_eq]

/-- the same statement with the intermediate values named -/
theorem next_eq_let (s : MovingAverageConvergenceDivergence F) (x : F) :
    s.next x =
      (let f := ExponentialMovingAverage.step s.fast_ema x
       let sl := ExponentialMovingAverage.step s.slow_ema x
       let m := Scalar.sub f.current sl.current
       let sg := ExponentialMovingAverage.step s.signal_ema m
       some ({ fast_ema := f, slow_ema := sl, signal_ema := sg },
             { macd := m, signal := sg.current, histogram := Scalar.sub m sg.current })) :=
  next_eq s x

end TaRs.Gen.MovingAverageConvergenceDivergence
