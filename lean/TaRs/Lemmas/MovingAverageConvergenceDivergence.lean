/- L0 facts about the generated MovingAverageConvergenceDivergence (any `[Scalar F]`). -/
import TaRs.Lemmas.Core.MovingAverageConvergenceDivergence
import TaRs.Gen.MovingAverageConvergenceDivergence
import TaRs.Lemmas.ExponentialMovingAverage
namespace TaRs.Gen.MovingAverageConvergenceDivergence
open TaRs TaRs.Rs
variable {F : Type} [Scalar F]

/-- MACD wiring: `macd = EMA_fast(x) − EMA_slow(x)`, `signal = EMA_signal(macd)`,
    `histogram = macd − signal`, in the code's operation order. -/
theorem next_eq (s : MovingAverageConvergenceDivergence F) (x : F) :
    s.next x =
      some ({ fast_ema := ExponentialMovingAverage.step s.fast_ema x,
              slow_ema := ExponentialMovingAverage.step s.slow_ema x,
              signal_ema := ExponentialMovingAverage.step s.signal_ema
                (Scalar.sub (ExponentialMovingAverage.step s.fast_ema x).current
                            (ExponentialMovingAverage.step s.slow_ema x).current) },
            { macd := Scalar.sub (ExponentialMovingAverage.step s.fast_ema x).current
                                 (ExponentialMovingAverage.step s.slow_ema x).current,
              signal := (ExponentialMovingAverage.step s.signal_ema
                (Scalar.sub (ExponentialMovingAverage.step s.fast_ema x).current
                            (ExponentialMovingAverage.step s.slow_ema x).current)).current,
              histogram := Scalar.sub
                (Scalar.sub (ExponentialMovingAverage.step s.fast_ema x).current
                            (ExponentialMovingAverage.step s.slow_ema x).current)
                (ExponentialMovingAverage.step s.signal_ema
                  (Scalar.sub (ExponentialMovingAverage.step s.fast_ema x).current
                              (ExponentialMovingAverage.step s.slow_ema x).current)).current }) := by
  unfold next
  try simp only [gen_helper]
  simp [ExponentialMovingAverage.next_eq]

/-- the same statement with the intermediate values named -/
theorem next_eq_let (s : MovingAverageConvergenceDivergence F) (x : F) :
    s.next x =
      (let f := ExponentialMovingAverage.step s.fast_ema x
       let sl := ExponentialMovingAverage.step s.slow_ema x
       let m := Scalar.sub f.current sl.current
       let sg := ExponentialMovingAverage.step s.signal_ema m
       some ({ fast_ema := f, slow_ema := sl, signal_ema := sg },
             { macd := m, signal := sg.current, histogram := Scalar.sub m sg.current })) :=
  next_eq s x

theorem nextBar_eq (s : MovingAverageConvergenceDivergence F) (b : Bar F) :
    s.nextBar b = s.next b.close := by
  unfold nextBar
  try simp only [gen_helper]
  cases h : s.next b.close <;> simp [h]

theorem next_total (s : MovingAverageConvergenceDivergence F) (x : F) (h : WF s) :
    ∃ r, s.next x = some r ∧ WF r.1 ∧ r.1.fast_ema.period = s.fast_ema.period ∧
      r.1.slow_ema.period = s.slow_ema.period ∧ r.1.signal_ema.period = s.signal_ema.period := by
  refine ⟨_, next_eq s x, ⟨?_, ?_, ?_⟩, ?_, ?_, ?_⟩
  · obtain ⟨r, hr, hw, _⟩ := ExponentialMovingAverage.next_total s.fast_ema x h.fast
    rw [ExponentialMovingAverage.next_eq] at hr; cases hr; exact hw
  · obtain ⟨r, hr, hw, _⟩ := ExponentialMovingAverage.next_total s.slow_ema x h.slow
    rw [ExponentialMovingAverage.next_eq] at hr; cases hr; exact hw
  · obtain ⟨r, hr, hw, _⟩ := ExponentialMovingAverage.next_total s.signal_ema
      (Scalar.sub (ExponentialMovingAverage.step s.fast_ema x).current
                  (ExponentialMovingAverage.step s.slow_ema x).current) h.signal
    rw [ExponentialMovingAverage.next_eq] at hr; cases hr; exact hw
  · exact ExponentialMovingAverage.step_period _ _
  · exact ExponentialMovingAverage.step_period _ _
  · exact ExponentialMovingAverage.step_period _ _

theorem nextBar_total (s : MovingAverageConvergenceDivergence F) (b : Bar F) (h : WF s) :
    ∃ r, s.nextBar b = some r ∧ WF r.1 ∧ r.1.fast_ema.period = s.fast_ema.period ∧
      r.1.slow_ema.period = s.slow_ema.period ∧ r.1.signal_ema.period = s.signal_ema.period := by
  rw [nextBar_eq]; exact next_total s b.close h

end TaRs.Gen.MovingAverageConvergenceDivergence
