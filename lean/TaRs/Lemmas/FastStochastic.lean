/- L0 facts about the generated FastStochastic (any `[Scalar F]`): Minimum + Maximum wiring. -/
import TaRs.Lemmas.Core.FastStochastic
import TaRs.Gen.FastStochastic
import TaRs.Lemmas.Minimum
import TaRs.Lemmas.Maximum
import TaRs.Lemmas.Total.FastStochastic
namespace TaRs.Gen.FastStochastic
open TaRs TaRs.Rs
variable {F : Type} [Scalar F]

/-- scalar path: the same input feeds the lowest-low and highest-high windows (minimum first);
    output `50` when `lowest == highest`, else `(x − lo) / (hi − lo) * 100` -/
theorem next_wiring (s : FastStochastic F) (x : F) (mn' : Minimum F) (lo : F) (mx' : Maximum F) (hi : F)
    (h1 : s.minimum.next x = some (mn', lo)) (h2 : s.maximum.next x = some (mx', hi)) :
    s.next x = some ({ s with minimum := mn', maximum := mx' },
      if Scalar.beq lo hi then Scalar.lit 50 0
      else Scalar.mul (Scalar.div (Scalar.sub x lo) (Scalar.sub hi lo)) (Scalar.lit 100 0)) := by
  unfold next
  try simp only [gen_helper]
  simp [h1, h2]

/-- bar path: `high` feeds the maximum (first), `low` feeds the minimum, `close` is the numerator;
    note the guard is `highest == lowest` (operands in the opposite order to the scalar path) -/
theorem nextBar_wiring (s : FastStochastic F) (b : Bar F) (mn' : Minimum F) (lo : F) (mx' : Maximum F) (hi : F)
    (h1 : s.minimum.next b.low = some (mn', lo)) (h2 : s.maximum.next b.high = some (mx', hi)) :
    s.nextBar b = some ({ s with minimum := mn', maximum := mx' },
      if Scalar.beq hi lo then Scalar.lit 50 0
      else Scalar.mul (Scalar.div (Scalar.sub b.close lo) (Scalar.sub hi lo)) (Scalar.lit 100 0)) := by
  unfold nextBar
  try simp only [gen_helper]
  simp [h1, h2]

/-- panic propagation: `next` panics iff one of the two windows does -/
theorem next_none_iff (s : FastStochastic F) (x : F) :
    s.next x = none ↔ s.minimum.next x = none ∨ s.maximum.next x = none := by
  unfold next
  try simp only [gen_helper]
  cases h1 : s.minimum.next x <;> cases h2 : s.maximum.next x <;> simp [h2]

theorem nextBar_none_iff (s : FastStochastic F) (b : Bar F) :
    s.nextBar b = none ↔ s.minimum.next b.low = none ∨ s.maximum.next b.high = none := by
  unfold nextBar
  try simp only [gen_helper]
  cases h1 : s.minimum.next b.low <;> cases h2 : s.maximum.next b.high <;> simp [h1]

end TaRs.Gen.FastStochastic
