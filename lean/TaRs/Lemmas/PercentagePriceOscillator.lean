/- L0 facts about the generated PercentagePriceOscillator (any `[Scalar F]`). -/
import TaRs.Lemmas.Core.PercentagePriceOscillator
import TaRs.Gen.PercentagePriceOscillator
import TaRs.Lemmas.ExponentialMovingAverage
import TaRs.Lemmas.Total.PercentagePriceOscillator
import TaRs.Lemmas.Bar.PercentagePriceOscillator
namespace TaRs.Gen.PercentagePriceOscillator
open TaRs TaRs.Rs
variable {F : Type} [Scalar F]

/-- the oscillator value as the code computes it: `(fast − slow) / slow * 100.0` -/
def ppoVal (fast slow : F) : F :=
  Scalar.mul (Scalar.div (Scalar.sub fast slow) slow) (Scalar.lit 100 0)

/-- PPO wiring: `ppo = (EMA_fast(x) − EMA_slow(x)) / EMA_slow(x) * 100`, `signal = EMA_signal(ppo)`,
    `histogram = ppo − signal`, in the code's operation order. -/
theorem next_eq (s : PercentagePriceOscillator F) (x : F) :
    s.next x =
      some ({ fast_ema := ExponentialMovingAverage.step s.fast_ema x,
              slow_ema := ExponentialMovingAverage.step s.slow_ema x,
              signal_ema := ExponentialMovingAverage.step s.signal_ema
                (ppoVal (ExponentialMovingAverage.step s.fast_ema x).current
                        (ExponentialMovingAverage.step s.slow_ema x).current) },
            { ppo := ppoVal (ExponentialMovingAverage.step s.fast_ema x).current
                            (ExponentialMovingAverage.step s.slow_ema x).current,
              signal := (ExponentialMovingAverage.step s.signal_ema
                (ppoVal (ExponentialMovingAverage.step s.fast_ema x).current
                        (ExponentialMovingAverage.step s.slow_ema x).current)).current,
              histogram := Scalar.sub
                (ppoVal (ExponentialMovingAverage.step s.fast_ema x).current
                        (ExponentialMovingAverage.step s.slow_ema x).current)
                (ExponentialMovingAverage.step s.signal_ema
                  (ppoVal (ExponentialMovingAverage.step s.fast_ema x).current
                          (ExponentialMovingAverage.step s.slow_ema x).current)).current }) := by
  unfold next
  try simp only [gen_helper]
  simp [ExponentialMovingAverage.next_eq, ppoVal]

/-- the same statement with the intermediate values named and `ppoVal` spelled out -/
theorem next_eq_let (s : PercentagePriceOscillator F) (x : F) :
    s.next x =
      (let f := ExponentialMovingAverage.step s.fast_ema x
       let sl := ExponentialMovingAverage.step s.slow_ema x
       let p := Scalar.mul (Scalar.div (Scalar.sub f.current sl.current) sl.current) (Scalar.lit 100 0)
       let sg := ExponentialMovingAverage.step s.signal_ema p
       some ({ fast_ema := f, slow_ema := sl, signal_ema := sg },
             { ppo := p, signal := sg.current, histogram := Scalar.sub p sg.current })) :=
  next_eq s x

end TaRs.Gen.PercentagePriceOscillator
