/-
  L0 (structural) facts about the GENERATED model of RateOfChange, valid for every
  `[Scalar F]` (no law about the arithmetic is used).  Unlike SMA the warm-up counter runs up to
  `period + 1` (the window holds `period` PREVIOUS values), hence `cnt : count ≤ period + 1`.
-/
import TaRs.Lemmas.Core.RateOfChange
import TaRs.Gen.RateOfChange
import TaRs.Lemmas.RsLemmas
namespace TaRs.Gen.RateOfChange
open TaRs TaRs.Rs

variable {F : Type} [Scalar F]

/-- `next` never panics on a well-formed state, keeps it well-formed and keeps the period -/
theorem next_total (s : RateOfChange F) (x : F) (h : WF s) :
    ∃ r, s.next x = some r ∧ WF r.1 ∧ r.1.period = s.period := by
  obtain ⟨hp, hs, hsz, hi, hc⟩ := h
  have hm : isizeMax < usizeMax := by decide
  unfold next
  by_cases c0 : s.period < s.count <;> by_cases c1 : s.index + 1 < s.period <;>
    by_cases c2 : s.count = 0 <;>
    simp (disch := omega) [index_eq, setIndex_eq, uadd_eq, c0, c1, c2] <;>
    constructor <;> simp_all <;> omega

theorem nextBar_eq (s : RateOfChange F) (b : Bar F) : s.nextBar b = s.next b.close := by
  unfold nextBar
  cases h : s.next b.close <;> simp [h]

end TaRs.Gen.RateOfChange
