/-
  L0 (structural) facts about the GENERATED model of RateOfChange, valid for every
  `[Scalar F]` (no law about the arithmetic is used).  Unlike SMA the warm-up counter runs up to
  `period + 1` (the window holds `period` PREVIOUS values), hence `cnt : count ≤ period + 1`.
-/
import TaRs.Lemmas.Core.RateOfChange
import TaRs.Gen.RateOfChange
import TaRs.Lemmas.RsLemmas
import TaRs.Lemmas.Total.RateOfChange
import TaRs.Lemmas.Bar.RateOfChange
namespace TaRs.Gen.RateOfChange
open TaRs TaRs.Rs

variable {F : Type} [Scalar F]

/-- Normal form of one `next` on a well-formed state (`v` = the slot under the cursor, `v0` =
    slot 0).  This is the ONLY fact about `next` proved by executing the generated body; it does
    so with `rs_exec`, which does not depend on how the wrap-around and warm-up tests are spelled.
    Everything else is derived from it. -/
theorem next_eq (s : RateOfChange F) (x v v0 : F) (h : WF s)
    (hv : s.deque[s.index]? = some v) (hv0 : s.deque[0]? = some v0) :
    s.next x = some (
      { period := s.period,
        index := if s.index + 1 < s.period then s.index + 1 else 0,
        count := if s.period < s.count then s.count else s.count + 1,
        deque := s.deque.setIfInBounds s.index x },
      Scalar.mul
        (Scalar.div (Scalar.sub x (if s.period < s.count then v else if s.count = 0 then x else v0))
          (if s.period < s.count then v else if s.count = 0 then x else v0))
        (Scalar.lit 100 0)) := by
  obtain ⟨hp, hs, hsz, hi, hc⟩ := h
  have hm : isizeMax < usizeMax := by decide
  have hix : s.index < s.deque.size := by omega
  have h0 : 0 < s.deque.size := by omega
  rw [Array.getElem?_eq_getElem hix] at hv
  rw [Array.getElem?_eq_getElem h0] at hv0
  have hv := Option.some.inj hv
  have hv0 := Option.some.inj hv0
  unfold next
  try simp only [gen_helper]
  rs_exec
  all_goals (first | omega | (subst hv; subst hv0; rfl))

end TaRs.Gen.RateOfChange
