/-
  L0 (structural) facts about the GENERATED model of StandardDeviation, valid for every
  `[Scalar F]` (no law about the arithmetic is used).
-/
import TaRs.Lemmas.Core.StandardDeviation
import TaRs.Gen.StandardDeviation
import TaRs.Lemmas.RsLemmas
import TaRs.Lemmas.Total.StandardDeviation
import TaRs.Lemmas.Bar.StandardDeviation
namespace TaRs.Gen.StandardDeviation
open TaRs TaRs.Rs

variable {F : Type} [Scalar F]

/-- running mean after one `next` (Welford update while warming up, sliding update afterwards);
    `v` is the value the new input evicts from the ring -/
def nextM (s : StandardDeviation F) (x v : F) : F :=
  if s.count < s.period then Scalar.add s.m (Scalar.div (Scalar.sub x s.m) (Scalar.ofNat (s.count + 1)))
  else Scalar.add s.m (Scalar.div (Scalar.sub x v) (Scalar.ofNat s.period))

/-- the `m2` accumulator after one `next`, BEFORE the clamp -/
def nextM2Raw (s : StandardDeviation F) (x v : F) : F :=
  if s.count < s.period then
    Scalar.add s.m2 (Scalar.mul (Scalar.sub x s.m) (Scalar.sub x (nextM s x v)))
  else
    Scalar.add s.m2 (Scalar.mul (Scalar.sub x v)
      (Scalar.sub (Scalar.add (Scalar.sub x (nextM s x v)) v) s.m))

/-- the `m2` accumulator after one `next` (clamped at zero) -/
def nextM2 (s : StandardDeviation F) (x v : F) : F :=
  if Scalar.lt (nextM2Raw s x v) (Scalar.lit 0 0) then Scalar.lit 0 0 else nextM2Raw s x v

/-- Normal form of one `next` on a well-formed state.  This is the ONLY fact about `next` proved
    by executing the generated body; it does so with `rs_exec`, which does not depend on how the
    wrap-around and warm-up tests are spelled.  Everything else is derived from it. -/
theorem next_eq (s : StandardDeviation F) (x v : F) (h : WF s) (hv : s.deque[s.index]? = some v) :
    s.next x = some (
      { period := s.period,
        index := if s.index + 1 < s.period then s.index + 1 else 0,
        count := if s.count < s.period then s.count + 1 else s.count,
        m := nextM s x v,
        m2 := nextM2 s x v,
        deque := s.deque.setIfInBounds s.index x },
      Scalar.sqrt (Scalar.div (nextM2 s x v)
        (Scalar.ofNat (if s.count < s.period then s.count + 1 else s.count)))) := by
  obtain ⟨hp, hs, hsz, hi, hc⟩ := h
  have hm : isizeMax < usizeMax := by decide
  have hix : s.index < s.deque.size := by omega
  rw [Array.getElem?_eq_getElem hix] at hv
  have hv := Option.some.inj hv
  unfold next nextM2 nextM2Raw nextM
  rs_exec
  all_goals (first | omega | contradiction | (subst hv; rfl) | (subst hv; simp_all))

/-! Two facts that need NO well-formedness (any state, any scalar): whatever `next` returns went
    through the clamp.  They peel the `Option` binds off one by one, however many there are, and
    never look at the tests. -/

/-- the stored accumulator is never `< 0` (given only that `0 < 0` is false) -/
theorem next_m2_not_negative (hirr : Scalar.lt (Scalar.lit 0 0 : F) (Scalar.lit 0 0) = false)
    (s : StandardDeviation F) (x : F) (r : StandardDeviation F × F) (h : s.next x = some r) :
    Scalar.lt r.1.m2 (Scalar.lit 0 0 : F) = false := by
  unfold next at h
  simp only [Option.bind_eq_bind, Option.bind_eq_some_iff, Option.pure_def, Option.some.injEq] at h
  repeat (obtain ⟨_, -, h⟩ := h)
  subst_vars
  dsimp only
  split
  · exact hirr
  · exact Bool.eq_false_iff.mpr ‹¬ _›

/-- the value returned is computed from the stored (clamped) accumulator and the stored count -/
theorem next_out_eq (s : StandardDeviation F) (x : F) (r : StandardDeviation F × F) (h : s.next x = some r) :
    r.2 = Scalar.sqrt (Scalar.div r.1.m2 (Scalar.ofNat r.1.count : F)) := by
  unfold next at h
  simp only [Option.bind_eq_bind, Option.bind_eq_some_iff, Option.pure_def, Option.some.injEq] at h
  repeat (obtain ⟨_, -, h⟩ := h)
  subst_vars
  rfl

/-- the `mean()` accessor reads the running mean field -/
theorem mean_eq (s : StandardDeviation F) : s.mean = s.m := rfl

end TaRs.Gen.StandardDeviation
