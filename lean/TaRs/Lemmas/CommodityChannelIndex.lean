/- L0 facts about the generated CommodityChannelIndex (any `[Scalar F]`). -/
import TaRs.Lemmas.Core.CommodityChannelIndex
import TaRs.Gen.CommodityChannelIndex
import TaRs.Lemmas.SimpleMovingAverage
import TaRs.Lemmas.MeanAbsoluteDeviation
import TaRs.Lemmas.Total.CommodityChannelIndex
namespace TaRs.Gen.CommodityChannelIndex
open TaRs TaRs.Rs
variable {F : Type} [Scalar F]

/-- the typical price the generated code computes from a bar -/
def tp (b : Bar F) : F :=
  Scalar.div (Scalar.add (Scalar.add b.close b.high) b.low) (Scalar.lit 3 0)

/-- Wiring of the generated code (after the repair of `self.mad.next(input)` into
    `self.mad.next(tp)`): BOTH components are fed the typical price. -/
theorem nextBar_wiring (s : CommodityChannelIndex F) (b : Bar F)
    (sma' : SimpleMovingAverage F) (a : F) (mad' : MeanAbsoluteDeviation F) (d : F)
    (h1 : s.sma.next (tp b) = some (sma', a)) (h2 : s.mad.next (tp b) = some (mad', d)) :
    s.nextBar b =
      some ({ sma := sma', mad := mad' },
            if Scalar.beq d (Scalar.lit 0 0) then Scalar.lit 0 0
            else Scalar.div (Scalar.sub (tp b) a) (Scalar.mul d (Scalar.lit 15 3))) := by
  unfold nextBar
  try simp only [gen_helper]
  unfold tp at h1 h2 ⊢
  simp only [h1, h2]
  by_cases c : Scalar.beq d (Scalar.lit 0 0 : F) = true <;> simp [c]

/-- a component panic is a panic of the whole -/
theorem nextBar_none_of_sma (s : CommodityChannelIndex F) (b : Bar F)
    (h1 : s.sma.next (tp b) = none) : s.nextBar b = none := by
  unfold nextBar
  try simp only [gen_helper]
  unfold tp at h1
  simp [h1]

theorem nextBar_none_of_mad (s : CommodityChannelIndex F) (b : Bar F)
    (h2 : s.mad.next (tp b) = none) : s.nextBar b = none := by
  unfold nextBar
  try simp only [gen_helper]
  unfold tp at h2
  cases h1 : s.sma.next (Scalar.div (Scalar.add (Scalar.add b.close b.high) b.low) (Scalar.lit 3 0 : F)) <;>
    simp [h2]

end TaRs.Gen.CommodityChannelIndex
