/-
  Facts about the Rust run-time helpers of `Prelude/Rs.lean` (hand-written, core Lean only).
  Conditional rewrite lemmas are meant for `simp (disch := omega) [...]`.
-/
import TaRs.Prelude.Rs
namespace TaRs.Rs

theorem index_eq {F} (d : Array F) (i : Nat) (h : i < d.size) : index d i = some d[i] := by
  simp [index, h]

theorem setIndex_eq {F} (d : Array F) (i : Nat) (v : F) (h : i < d.size) :
    setIndex d i v = some (d.setIfInBounds i v) := by
  simp [setIndex, h]

theorem uadd_eq (a b : Nat) (h : a + b ≤ usizeMax) : uadd a b = some (a + b) := by
  simp [uadd, h]

theorem uadd_none (a b : Nat) (h : usizeMax < a + b) : uadd a b = none := by
  simp [uadd]; omega

theorem slice_eq {F} (d : Array F) (a b : Nat) (h1 : a ≤ b) (h2 : b ≤ d.size) :
    slice d a b = some ((d.toList.drop a).take (b - a)) := by
  simp [slice, h1, h2]

theorem vecNew_eq {F} (c : F) (n : Nat) (h : n * 8 ≤ isizeMax) : vecNew c n = some (Array.replicate n c) := by
  simp [vecNew, h]

theorem vecNew_none {F} (c : F) (n : Nat) (h : isizeMax < n * 8) : vecNew c n = (none : Option (Array F)) := by
  simp [vecNew]; omega

/-- pure version of the fill loop -/
def fillPure {F} (d : Array F) (a k : Nat) (c : F) : Array F :=
  (List.range' a k).foldl (fun d i => d.setIfInBounds i c) d

theorem fillPure_size {F} (d : Array F) (a k : Nat) (c : F) : (fillPure d a k c).size = d.size := by
  unfold fillPure
  induction k generalizing d a with
  | zero => simp
  | succ k ih => simp [List.range'_succ, ih]

theorem fillPure_getElem {F} (d : Array F) (a k : Nat) (c : F) (i : Nat) (h : i < d.size) :
    (fillPure d a k c)[i]'(by simpa [fillPure_size] using h) = if a ≤ i ∧ i < a + k then c else d[i] := by
  unfold fillPure
  induction k generalizing d a with
  | zero => simp; intro _; omega
  | succ k ih =>
    simp only [List.range'_succ, List.foldl_cons]
    have hs : i < (d.setIfInBounds a c).size := by simpa using h
    rw [ih (d.setIfInBounds a c) (a + 1) hs]
    by_cases h1 : a = i
    · subst h1; simp
    · by_cases h2 : a + 1 ≤ i ∧ i < a + 1 + k
      · have : a ≤ i ∧ i < a + (k + 1) := by omega
        simp [h2, this]
      · have : ¬ (a ≤ i ∧ i < a + (k + 1)) := by omega
        simp only [h2, this, if_false]
        rw [Array.getElem_setIfInBounds (by simpa using h)]
        simp [h1]

theorem fill_eq_pure {F} (d : Array F) (a b : Nat) (c : F) (h : b ≤ d.size) :
    fill d a b c = some (fillPure d a (b - a) c) := by
  unfold fill fillPure
  generalize hk : b - a = k
  induction k generalizing d a with
  | zero => simp
  | succ k ih =>
    have ha : a < d.size := by omega
    simp only [List.range'_succ, List.foldlM_cons, List.foldl_cons, setIndex_eq _ _ _ ha]
    simp only [Option.bind_eq_bind, Option.bind_some]
    exact ih (d.setIfInBounds a c) (a + 1) (by simpa using h) (by omega)

/-- `for i in 0..n { d[i] = c }` on a slice of length `n` yields `[c; n]`. -/
theorem fill_all {F} (d : Array F) (n : Nat) (c : F) (h : d.size = n) :
    fill d 0 n c = some (Array.replicate n c) := by
  rw [fill_eq_pure d 0 n c (by omega)]
  congr 1
  apply Array.ext
  · simp [fillPure_size, h]
  · intro i h1 h2
    have hi : i < d.size := by simpa [fillPure_size] using h1
    rw [fillPure_getElem d 0 (n - 0) c i hi]
    have : i < n := by omega
    simp [this]

/-- the fill loop panics iff it runs past the end -/
theorem fill_none {F} (d : Array F) (a b : Nat) (c : F) (h1 : a < b) (h2 : d.size < b) :
    fill d a b c = none := by
  unfold fill
  generalize hk : b - a = k
  induction k generalizing d a with
  | zero => omega
  | succ k ih =>
    simp only [List.range'_succ, List.foldlM_cons]
    by_cases ha : a < d.size
    · simp only [setIndex_eq _ _ _ ha, Option.bind_eq_bind, Option.bind_some]
      exact ih (d.setIfInBounds a c) (a + 1) (by omega) (by simpa using h2) (by omega)
    · simp [setIndex, ha]

theorem enumerate_length {F} (d : Array F) : (enumerate d).length = d.size := by
  simp [enumerate]

theorem usub_eq (a b : Nat) (h : b ≤ a) : usub a b = some (a - b) := by
  simp [usub, h]

theorem umod_eq (a b : Nat) (h : 0 < b) : umod a b = some (a % b) := by
  simp [umod]; omega

theorem udiv_eq (a b : Nat) (h : 0 < b) : udiv a b = some (a / b) := by
  simp [udiv]; omega

/-- Symbolic execution of a generated `next`/`reset` body that is *independent of the syntactic
    shape of its tests*: the checked operations are rewritten to their values (side conditions by
    `omega`), every `if` of the goal is split, and the loop repeats until nothing moves.  The
    surviving goals are either contradictory (closed by `omega`) or equalities of normal forms.
    A harmless rewrite of a test (`a + 1 < p` into `a + 1 != p`, swapped branches, …) therefore
    leaves the proofs that use it intact. -/
macro "rs_exec" : tactic => `(tactic|
  repeat' (first
    | split
    | (simp (disch := omega) only [index_eq, setIndex_eq, uadd_eq, usub_eq, umod_eq, udiv_eq,
        Option.bind_eq_bind, Option.bind_some, Option.pure_def, decide_eq_true_eq,
        decide_eq_false_iff_not, Bool.not_eq_true', Bool.and_eq_true, Bool.or_eq_true] at *)))

end TaRs.Rs
