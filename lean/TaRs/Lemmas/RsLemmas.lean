/-
  Facts about the Rust run-time helpers of `Prelude/Rs.lean` (hand-written, core Lean only).
  Conditional rewrite lemmas are meant for `simp (disch := omega) [...]`.
-/
import TaRs.Prelude.Rs
namespace TaRs.Rs

theorem index_eq {F} (d : Array F) (i : Nat) (h : i < d.size) : index d i = some d[i] := by
  simp [index, h]

theorem setIndex_eq {F} (d : Array F) (i : Nat) (v : F) (h : i < d.size) :
    setIndex d i v = some (d.setIfInBounds i v) := by
  simp [setIndex, h]

theorem uadd_eq (a b : Nat) (h : a + b ≤ usizeMax) : uadd a b = some (a + b) := by
  simp [uadd, h]

theorem uadd_none (a b : Nat) (h : usizeMax < a + b) : uadd a b = none := by
  simp [uadd]; omega

theorem slice_eq {F} (d : Array F) (a b : Nat) (h1 : a ≤ b) (h2 : b ≤ d.size) :
    slice d a b = some ((d.toList.drop a).take (b - a)) := by
  simp [slice, h1, h2]

theorem vecNew_eq {F} (c : F) (n : Nat) (h : n * 8 ≤ isizeMax) : vecNew c n = some (Array.replicate n c) := by
  simp [vecNew, h]

theorem vecNew_none {F} (c : F) (n : Nat) (h : isizeMax < n * 8) : vecNew c n = (none : Option (Array F)) := by
  simp [vecNew]; omega

/-- pure version of the fill loop -/
def fillPure {F} (d : Array F) (a k : Nat) (c : F) : Array F :=
  (List.range' a k).foldl (fun d i => d.setIfInBounds i c) d

theorem fillPure_size {F} (d : Array F) (a k : Nat) (c : F) : (fillPure d a k c).size = d.size := by
  unfold fillPure
  induction k generalizing d a with
  | zero => simp
  | succ k ih => simp [List.range'_succ, ih]

theorem fillPure_getElem {F} (d : Array F) (a k : Nat) (c : F) (i : Nat) (h : i < d.size) :
    (fillPure d a k c)[i]'(by simpa [fillPure_size] using h) = if a ≤ i ∧ i < a + k then c else d[i] := by
  unfold fillPure
  induction k generalizing d a with
  | zero => simp; intro _; omega
  | succ k ih =>
    simp only [List.range'_succ, List.foldl_cons]
    have hs : i < (d.setIfInBounds a c).size := by simpa using h
    rw [ih (d.setIfInBounds a c) (a + 1) hs]
    by_cases h1 : a = i
    · subst h1; simp
    · by_cases h2 : a + 1 ≤ i ∧ i < a + 1 + k
      · have : a ≤ i ∧ i < a + (k + 1) := by omega
        simp [h2, this]
      · have : ¬ (a ≤ i ∧ i < a + (k + 1)) := by omega
        simp only [h2, this, if_false]
        rw [Array.getElem_setIfInBounds (by simpa using h)]
        simp [h1]

theorem fill_eq_pure {F} (d : Array F) (a b : Nat) (c : F) (h : b ≤ d.size) :
    fill d a b c = some (fillPure d a (b - a) c) := by
  unfold fill fillPure
  generalize hk : b - a = k
  induction k generalizing d a with
  | zero => simp
  | succ k ih =>
    have ha : a < d.size := by omega
    simp only [List.range'_succ, List.foldlM_cons, List.foldl_cons, setIndex_eq _ _ _ ha]
    simp only [Option.bind_eq_bind, Option.bind_some]
    exact ih (d.setIfInBounds a c) (a + 1) (by simpa using h) (by omega)

/-- `for i in 0..n { d[i] = c }` on a slice of length `n` yields `[c; n]`. -/
theorem fill_all {F} (d : Array F) (n : Nat) (c : F) (h : d.size = n) :
    fill d 0 n c = some (Array.replicate n c) := by
  rw [fill_eq_pure d 0 n c (by omega)]
  congr 1
  apply Array.ext
  · simp [fillPure_size, h]
  · intro i h1 h2
    have hi : i < d.size := by simpa [fillPure_size] using h1
    rw [fillPure_getElem d 0 (n - 0) c i hi]
    have : i < n := by omega
    simp [this]

/-- the fill loop panics iff it runs past the end -/
theorem fill_none {F} (d : Array F) (a b : Nat) (c : F) (h1 : a < b) (h2 : d.size < b) :
    fill d a b c = none := by
  unfold fill
  generalize hk : b - a = k
  induction k generalizing d a with
  | zero => omega
  | succ k ih =>
    simp only [List.range'_succ, List.foldlM_cons]
    by_cases ha : a < d.size
    · simp only [setIndex_eq _ _ _ ha, Option.bind_eq_bind, Option.bind_some]
      exact ih (d.setIfInBounds a c) (a + 1) (by omega) (by simpa using h2) (by omega)
    · simp [setIndex, ha]

theorem enumerate_length {F} (d : Array F) : (enumerate d).length = d.size := by
  simp [enumerate]

theorem usub_eq (a b : Nat) (h : b ≤ a) : usub a b = some (a - b) := by
  simp [usub, h]

theorem umod_eq (a b : Nat) (h : 0 < b) : umod a b = some (a % b) := by
  simp [umod]; omega

theorem udiv_eq (a b : Nat) (h : 0 < b) : udiv a b = some (a / b) := by
  simp [udiv]; omega

/-- `slice_eq` for a deque that was just written (side conditions stay within `omega`'s reach) -/
theorem slice_set_eq {F} (d : Array F) (i : Nat) (v : F) (a b : Nat) (h1 : a ≤ b) (h2 : b ≤ d.size) :
    slice (d.setIfInBounds i v) a b = some (((d.setIfInBounds i v).toList.drop a).take (b - a)) :=
  slice_eq _ a b h1 (by simpa using h2)

theorem slice_none {F} (d : Array F) (a b : Nat) (h : b < a) : slice d a b = none := by
  simp [slice]; omega

/-- the ring cursor written with `%`: `(i + 1) % n` is the same wrap-around as `if i + 1 < n then i + 1 else 0`
    when `i < n` (a conditional rewrite rule of `rs_exec`, side condition by `omega`) -/
theorem mod_wrap (i n : Nat) (h : i < n) : (i + 1) % n = if i + 1 < n then i + 1 else 0 := by
  split
  · exact Nat.mod_eq_of_lt (by assumption)
  · have : i + 1 = n := by omega
    rw [this, Nat.mod_self]

/-- Symbolic execution of a generated `next`/`reset` body that is *independent of the syntactic
    shape of its tests*: the checked operations are rewritten to their values (side conditions by
    `omega`), every `if` of the goal is split, and the loop repeats until nothing moves.  The
    surviving goals are either contradictory (closed by `omega`) or equalities of normal forms.
    A harmless rewrite of a test (`a + 1 < p` into `a + 1 != p`, swapped branches, …) therefore
    leaves the proofs that use it intact. -/
macro "rs_exec" : tactic => `(tactic|
  repeat' (first
    | split
    | (simp (disch := omega) only [index_eq, setIndex_eq, uadd_eq, usub_eq, umod_eq, udiv_eq, mod_wrap,
        gen_helper, Option.bind_eq_bind, Option.bind_some, Option.pure_def, decide_eq_true_eq, imp_false,
        decide_eq_false_iff_not, Bool.not_eq_true', Bool.and_eq_true, Bool.or_eq_true] at *)))

theorem ite_some_some {α : Type} (c : Prop) [Decidable c] (a b : α) :
    (if c then some a else some b) = some (if c then a else b) := by
  split <;> rfl

theorem ite_prod_left {α β : Type} (c : Prop) [Decidable c] (a : α) (b b' : β) :
    (if c then (a, b) else (a, b')) = (a, if c then b else b') := by
  split <;> rfl

/-- `f (if c then a else b) = if c then f a else f b`; instantiate `f` with the field projections
    of a state structure to get rewrite rules for `rs_exec_prune [..]` -/
theorem ite_proj {α β : Type} (f : α → β) (c : Prop) [Decidable c] (a b : α) :
    f (if c then a else b) = if c then f a else f b := by
  split <;> rfl

/-- decide a Nat test of generated code semantically (with `disch := omega`), whatever its spelling -/
theorem ite_decide_pos {α} (p : Prop) [Decidable p] (a b : α) (h : p) :
    (if decide p = true then a else b) = a := by simp [h]

theorem ite_decide_neg {α} (p : Prop) [Decidable p] (a b : α) (h : ¬ p) :
    (if decide p = true then a else b) = b := by simp [h]

/-- Variant of `rs_exec` for bodies with many tests, in particular tests on scalars that occur
    both in the generated code (one `if` per statement) and in a normal form (one `if` per field).
    Like `rs_exec` it never looks at how a test is spelled.
    * The goal is normalised BEFORE it is split: besides the rules of `rs_exec` (and `Rs.slice`),
      an `if` between two `some`s / two pairs with the same first component / two equal values
      is pushed inwards, so that a test that does not influence control flow need not be split;
      extra rules (typically `ite_proj` instances for the fields of the state) can be given in
      brackets.
    * A branch whose hypotheses are contradictory is closed (`omega`, `contradiction`) as soon as
      it appears instead of being split further, which keeps the number of leaves linear in the
      number of tests when the same test occurs several times (spelled differently or not). -/
syntax "rs_exec_prune" (" [" Lean.Parser.Tactic.simpLemma,* "]")? : tactic
macro_rules
  | `(tactic| rs_exec_prune) => `(tactic| rs_exec_prune [])
  | `(tactic| rs_exec_prune [$ts,*]) => `(tactic|
      repeat' (first
        | omega
        | contradiction
        | (simp (maxSteps := 1000000) (disch := omega) only [index_eq, setIndex_eq, uadd_eq, usub_eq,
            umod_eq, udiv_eq, slice_eq, slice_set_eq, ite_some_some, ite_prod_left, ite_self,
            gen_helper, Option.bind_eq_bind, Option.bind_some, Option.pure_def, decide_eq_true_eq, imp_false,
            decide_eq_false_iff_not, Bool.not_eq_true', Bool.and_eq_true, Bool.or_eq_true, $ts,*])
        | split))

/-- Staged evaluation of a generated body WITHOUT case splits, for bodies that are too big for
    `rs_exec_prune` (many tests on scalars, record-valued `if`s).  Three groups of rewrite rules are
    applied in separate cheap passes until nothing moves:
    1. notation (`bind`, `pure`);
    2. checked operations (side conditions by `omega`), and every test `if decide p` of the generated
       code that `omega` can decide from the hypotheses, WHATEVER ITS SPELLING (`ite_decide_pos/neg`;
       tests on scalars are not of the form `decide p`, so `omega` is only called on Nat tests);
    3. `bind` of a value, and `if`s pushed inwards (between two `some`s / two pairs with the same
       first component / two equal values, plus the rules given in brackets, typically `ite_proj`
       instances for the fields of the state).
    The usage pattern is: `rs_exec_lazy`, then `by_cases` on MY OWN canonical spelling of the next
    undecided Nat test, `rs_exec_lazy` again, …, and finally `rs_exec_prune` on the (now small)
    goals to compare with the normal form.  A dead branch is dropped as soon as its test is closed,
    before it is evaluated. -/
syntax "rs_exec_lazy" (" [" Lean.Parser.Tactic.simpLemma,* "]")? : tactic
macro_rules
  | `(tactic| rs_exec_lazy) => `(tactic| rs_exec_lazy [])
  | `(tactic| rs_exec_lazy [$ts,*]) => `(tactic|
      repeat' (first
        | (simp only [gen_helper, Option.bind_eq_bind, Option.pure_def])
        | (simp (disch := omega) only [index_eq, setIndex_eq, uadd_eq, usub_eq, umod_eq, udiv_eq, mod_wrap,
            slice_eq, slice_set_eq, ite_decide_pos, ite_decide_neg])
        | (simp only [Option.bind_some, ite_some_some, ite_prod_left, ite_self, $ts,*])))

/-- sequencing of two steps that cannot fail: if the first step succeeds with a result satisfying
    `P` and the continuation succeeds on every such result, the whole succeeds.  Used with the
    components' `next_total`, whose input is found by unification: it is never written down. -/
theorem bind_total {α β : Type} {o : Option α} {f : α → Option β} {P : α → Prop} {Q : β → Prop}
    (h : ∃ r, o = some r ∧ P r) (k : ∀ r, P r → ∃ q, f r = some q ∧ Q q) :
    ∃ q, o.bind f = some q ∧ Q q := by
  obtain ⟨r, e, hp⟩ := h
  subst e
  exact k r hp

end TaRs.Rs
