/- L0 facts about PercentagePriceOscillator::reset (split from Lemmas/PercentagePriceOscillator.lean so that a change to one method only invalidates the facts about that method) -/
import TaRs.Lemmas.Core.PercentagePriceOscillator
import TaRs.Lemmas.Reset.ExponentialMovingAverage
set_option linter.unusedSectionVars false
namespace TaRs.Gen.PercentagePriceOscillator
open TaRs TaRs.Rs
variable {F : Type} [Scalar F]

theorem reset_eq (s : PercentagePriceOscillator F) (h : WF s) :
    s.reset = some (fresh s.fast_ema.period s.slow_ema.period s.signal_ema.period) := by
  unfold reset
  try simp only [gen_helper]
  simp [ExponentialMovingAverage.reset_eq _ h.fast, ExponentialMovingAverage.reset_eq _ h.slow,
    ExponentialMovingAverage.reset_eq _ h.signal, fresh]

end TaRs.Gen.PercentagePriceOscillator
