/- L0 facts about WeightedMovingAverage::reset (split from Lemmas/WeightedMovingAverage.lean so that a change to one method only invalidates the facts about that method) -/
import TaRs.Lemmas.Core.WeightedMovingAverage
set_option linter.unusedSectionVars false
namespace TaRs.Gen.WeightedMovingAverage
open TaRs TaRs.Rs
variable {F : Type} [Scalar F]

/-- `reset` rebuilds exactly the state `new` builds (state equality: any history, any values) -/
theorem reset_eq (s : WeightedMovingAverage F) (h : WF s) : s.reset = some (fresh s.period) := by
  unfold reset
  try simp only [gen_helper]
  simp [fill_all _ _ _ h.size, fresh]

end TaRs.Gen.WeightedMovingAverage
