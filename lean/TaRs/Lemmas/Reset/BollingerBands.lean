/- L0 facts about BollingerBands::reset (split from Lemmas/BollingerBands.lean so that a change to one method only invalidates the facts about that method) -/
import TaRs.Lemmas.Core.BollingerBands
import TaRs.Lemmas.Reset.StandardDeviation
set_option linter.unusedSectionVars false
namespace TaRs.Gen.BollingerBands
open TaRs TaRs.Rs
variable {F : Type} [Scalar F]

theorem reset_eq (s : BollingerBands F) (h : WF s) : s.reset = some (fresh s.period s.multiplier) := by
  unfold reset
  try simp only [gen_helper]
  simp [StandardDeviation.reset_eq _ h.sd, fresh, h.per]

end TaRs.Gen.BollingerBands
