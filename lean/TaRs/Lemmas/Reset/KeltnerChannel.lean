/- L0 facts about KeltnerChannel::reset (split from Lemmas/KeltnerChannel.lean so that a change to one method only invalidates the facts about that method) -/
import TaRs.Lemmas.Core.KeltnerChannel
import TaRs.Lemmas.Reset.ExponentialMovingAverage
import TaRs.Lemmas.Reset.AverageTrueRange
set_option linter.unusedSectionVars false
namespace TaRs.Gen.KeltnerChannel
open TaRs TaRs.Rs
variable {F : Type} [Scalar F]

theorem reset_eq (s : KeltnerChannel F) (h : WF s) : s.reset = some (fresh s.period s.multiplier) := by
  unfold reset
  try simp only [gen_helper]
  simp [AverageTrueRange.reset_eq _ h.atr, ExponentialMovingAverage.reset_eq _ h.ema, fresh,
    AverageTrueRange.period_fn_eq, h.ema_period, h.atr_period]

end TaRs.Gen.KeltnerChannel
