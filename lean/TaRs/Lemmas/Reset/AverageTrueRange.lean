/- L0 facts about AverageTrueRange::reset (split from Lemmas/AverageTrueRange.lean so that a change to one method only invalidates the facts about that method) -/
import TaRs.Lemmas.Core.AverageTrueRange
import TaRs.Lemmas.Reset.ExponentialMovingAverage
import TaRs.Lemmas.Reset.TrueRange
set_option linter.unusedSectionVars false
namespace TaRs.Gen.AverageTrueRange
open TaRs TaRs.Rs
variable {F : Type} [Scalar F]

theorem reset_eq (s : AverageTrueRange F) (h : WF s) : s.reset = some (fresh s.period_fn) := by
  unfold reset
  try simp only [gen_helper]
  simp [TrueRange.reset_eq, ExponentialMovingAverage.reset_eq _ h.ema, fresh, period_fn,
    ExponentialMovingAverage.period_fn_eq]

end TaRs.Gen.AverageTrueRange
