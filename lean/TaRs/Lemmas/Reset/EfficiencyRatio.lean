/- L0 facts about EfficiencyRatio::reset (split from Lemmas/EfficiencyRatio.lean so that a change to one method only invalidates the facts about that method) -/
import TaRs.Lemmas.Core.EfficiencyRatio
set_option linter.unusedSectionVars false
namespace TaRs.Gen.EfficiencyRatio
open TaRs TaRs.Rs
variable {F : Type} [Scalar F]

/-- `reset` rebuilds exactly the state `new` builds (state equality: any history, any values) -/
theorem reset_eq (s : EfficiencyRatio F) (h : WF s) : s.reset = some (fresh s.period) := by
  unfold reset
  try simp only [gen_helper]
  simp [fill_all _ _ _ h.size, fresh]

end TaRs.Gen.EfficiencyRatio
