/- L0 facts about TrueRange::reset (split from Lemmas/TrueRange.lean so that a change to one method only invalidates the facts about that method) -/
import TaRs.Lemmas.Core.TrueRange
set_option linter.unusedSectionVars false
namespace TaRs.Gen.TrueRange
open TaRs TaRs.Rs
variable {F : Type} [Scalar F]

theorem reset_eq (s : TrueRange F) : s.reset = some fresh := rfl

end TaRs.Gen.TrueRange
