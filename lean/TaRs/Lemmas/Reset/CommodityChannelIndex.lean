/- L0 facts about CommodityChannelIndex::reset (split from Lemmas/CommodityChannelIndex.lean so that a change to one method only invalidates the facts about that method) -/
import TaRs.Lemmas.Core.CommodityChannelIndex
import TaRs.Lemmas.Reset.SimpleMovingAverage
import TaRs.Lemmas.Reset.MeanAbsoluteDeviation
set_option linter.unusedSectionVars false
namespace TaRs.Gen.CommodityChannelIndex
open TaRs TaRs.Rs
variable {F : Type} [Scalar F]

theorem reset_eq (s : CommodityChannelIndex F) (h : WF s) : s.reset = some (fresh s.period_fn) := by
  unfold reset
  try simp only [gen_helper]
  simp [SimpleMovingAverage.reset_eq _ h.sma, MeanAbsoluteDeviation.reset_eq _ h.mad, fresh, period_fn,
    SimpleMovingAverage.period_fn_eq, h.per]

end TaRs.Gen.CommodityChannelIndex
