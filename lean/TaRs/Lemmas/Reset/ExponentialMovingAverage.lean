/- L0 facts about ExponentialMovingAverage::reset (split from Lemmas/ExponentialMovingAverage.lean so that a change to one method only invalidates the facts about that method) -/
import TaRs.Lemmas.Core.ExponentialMovingAverage
set_option linter.unusedSectionVars false
namespace TaRs.Gen.ExponentialMovingAverage
open TaRs TaRs.Rs
variable {F : Type} [Scalar F]

theorem reset_eq' (s : ExponentialMovingAverage F) :
    s.reset = some { s with current := Scalar.lit 0 0, is_new := true } := rfl

theorem reset_eq (s : ExponentialMovingAverage F) (h : WF s) : s.reset = some (fresh s.period) := by
  rw [reset_eq']
  obtain ⟨p, k, c, n⟩ := s
  simp [fresh] at *
  exact h.kdef

end TaRs.Gen.ExponentialMovingAverage
