/- L0 facts about Maximum::reset (split from Lemmas/Maximum.lean so that a change to one method only invalidates the facts about that method) -/
import TaRs.Lemmas.Core.Maximum
set_option linter.unusedSectionVars false
namespace TaRs.Gen.Maximum
open TaRs TaRs.Rs
variable {F : Type} [Scalar F]

/-- `reset` rewinds both cursors and refills the buffer: it rebuilds exactly the state `new`
    builds (state equality: any history, any values) -/
theorem reset_eq (s : Maximum F) (h : WF s) : s.reset = some (fresh s.period) := by
  unfold reset
  try simp only [gen_helper]
  simp [fill_all _ _ _ h.size, fresh]

theorem reset_wf (s : Maximum F) (h : WF s) : ∃ r, s.reset = some r ∧ WF r ∧ r.period = s.period :=
  ⟨_, reset_eq s h, fresh_wf _ h.pos h.small, rfl⟩

end TaRs.Gen.Maximum
