/- L0 facts about ChandelierExit::reset (split from Lemmas/ChandelierExit.lean so that a change to one method only invalidates the facts about that method) -/
import TaRs.Lemmas.Core.ChandelierExit
import TaRs.Lemmas.Reset.Minimum
import TaRs.Lemmas.Reset.Maximum
import TaRs.Lemmas.Reset.AverageTrueRange
set_option linter.unusedSectionVars false
namespace TaRs.Gen.ChandelierExit
open TaRs TaRs.Rs
variable {F : Type} [Scalar F]

/-- `reset` = component resets (ATR, Minimum, Maximum in that order); the multiplier is kept -/
theorem reset_wiring (s : ChandelierExit F) (atr' : AverageTrueRange F) (mn' : Minimum F) (mx' : Maximum F)
    (h1 : s.atr.reset = some atr') (h2 : s.min.reset = some mn') (h3 : s.max.reset = some mx') :
    s.reset = some { atr := atr', min := mn', max := mx', multiplier := s.multiplier } := by
  unfold reset
  try simp only [gen_helper]
  simp [h1, h2, h3]

/-- `reset` rebuilds exactly the state `new` builds (with the same multiplier) -/
theorem reset_eq (s : ChandelierExit F) (h : WF s) :
    s.reset = some (fresh s.period_fn s.multiplier) := by
  rw [reset_wiring s _ _ _ (AverageTrueRange.reset_eq _ h.atr)
    (Minimum.reset_eq _ h.min) (Maximum.reset_eq _ h.max), h.pmin, h.pmax]
  rfl

end TaRs.Gen.ChandelierExit
