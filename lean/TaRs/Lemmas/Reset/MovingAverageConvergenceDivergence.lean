/- L0 facts about MovingAverageConvergenceDivergence::reset (split from Lemmas/MovingAverageConvergenceDivergence.lean so that a change to one method only invalidates the facts about that method) -/
import TaRs.Lemmas.Core.MovingAverageConvergenceDivergence
import TaRs.Lemmas.Reset.ExponentialMovingAverage
set_option linter.unusedSectionVars false
namespace TaRs.Gen.MovingAverageConvergenceDivergence
open TaRs TaRs.Rs
variable {F : Type} [Scalar F]

theorem reset_eq (s : MovingAverageConvergenceDivergence F) (h : WF s) :
    s.reset = some (fresh s.fast_ema.period s.slow_ema.period s.signal_ema.period) := by
  unfold reset
  try simp only [gen_helper]
  simp [ExponentialMovingAverage.reset_eq _ h.fast, ExponentialMovingAverage.reset_eq _ h.slow,
    ExponentialMovingAverage.reset_eq _ h.signal, fresh]

end TaRs.Gen.MovingAverageConvergenceDivergence
