/- L0 facts about SlowStochastic::reset (split from Lemmas/SlowStochastic.lean so that a change to one method only invalidates the facts about that method) -/
import TaRs.Lemmas.Core.SlowStochastic
import TaRs.Lemmas.Total.SlowStochastic
import TaRs.Lemmas.Reset.FastStochastic
import TaRs.Lemmas.Reset.ExponentialMovingAverage
set_option linter.unusedSectionVars false
namespace TaRs.Gen.SlowStochastic
open TaRs TaRs.Rs
variable {F : Type} [Scalar F]

/-- `reset` = FastStochastic reset, then EMA reset -/
theorem reset_wiring (s : SlowStochastic F) (fs' : FastStochastic F)
    (h : s.fast_stochastic.reset = some fs') :
    s.reset = some { fast_stochastic := fs',
                     ema := { s.ema with current := Scalar.lit 0 0, is_new := true } } := by
  unfold reset
  try simp only [gen_helper]
  simp [h, ExponentialMovingAverage.reset_eq']

/-- `reset` rebuilds exactly the state `new` builds -/
theorem reset_eq (s : SlowStochastic F) (h : WF s) :
    s.reset = some (fresh s.fast_stochastic.period s.ema.period) := by
  unfold reset
  try simp only [gen_helper]
  simp [FastStochastic.reset_eq _ h.fast, ExponentialMovingAverage.reset_eq _ h.ema, fresh]

end TaRs.Gen.SlowStochastic
