/- L0 facts about SlowStochastic::reset (split from Lemmas/SlowStochastic.lean so that a change to one method only invalidates the facts about that method) -/
import TaRs.Lemmas.Core.SlowStochastic
import TaRs.Lemmas.Reset.FastStochastic
import TaRs.Lemmas.Reset.ExponentialMovingAverage
set_option linter.unusedSectionVars false
namespace TaRs.Gen.SlowStochastic
open TaRs TaRs.Rs
variable {F : Type} [Scalar F]

/-- `reset` = FastStochastic reset, then EMA reset -/
theorem reset_wiring (s : SlowStochastic F) (fs' : FastStochastic F)
    (h : s.fast_stochastic.reset = some fs') :
    s.reset = some { fast_stochastic := fs',
                     ema := { s.ema with current := Scalar.lit 0 0, is_new := true } } := by
  unfold reset
  try simp only [gen_helper]
  simp [h, ExponentialMovingAverage.reset_eq']

/-- `reset` rebuilds exactly the state `new` builds -/
theorem reset_eq (s : SlowStochastic F) (h : WF s) :
    s.reset = some (fresh s.fast_stochastic.period s.ema.period) := by
  unfold reset
  try simp only [gen_helper]
  simp [FastStochastic.reset_eq _ h.fast, ExponentialMovingAverage.reset_eq _ h.ema, fresh]

theorem reset_wf (s : SlowStochastic F) (h : WF s) :
    ∃ r, s.reset = some r ∧ WF r ∧
      r.fast_stochastic.period = s.fast_stochastic.period ∧ r.ema.period = s.ema.period := by
  have h8 : s.fast_stochastic.period * 8 ≤ isizeMax := h.fast.pmin ▸ h.fast.min.small
  exact ⟨_, reset_eq s h, fresh_wf _ _ h.fast.pos h8 h.ema.pos, rfl, rfl⟩

end TaRs.Gen.SlowStochastic
