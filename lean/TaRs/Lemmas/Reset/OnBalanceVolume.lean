/- L0 facts about OnBalanceVolume::reset (split from Lemmas/OnBalanceVolume.lean so that a change to one method only invalidates the facts about that method) -/
import TaRs.Lemmas.Core.OnBalanceVolume
set_option linter.unusedSectionVars false
namespace TaRs.Gen.OnBalanceVolume
open TaRs TaRs.Rs
variable {F : Type} [Scalar F]

/-- `reset` rebuilds exactly the state `new` builds -/
theorem reset_eq (s : OnBalanceVolume F) : s.reset = some fresh := rfl

end TaRs.Gen.OnBalanceVolume
