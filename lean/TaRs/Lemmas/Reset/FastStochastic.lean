/- L0 facts about FastStochastic::reset (split from Lemmas/FastStochastic.lean so that a change to one method only invalidates the facts about that method) -/
import TaRs.Lemmas.Core.FastStochastic
import TaRs.Lemmas.Total.FastStochastic
import TaRs.Lemmas.Reset.Minimum
import TaRs.Lemmas.Reset.Maximum
set_option linter.unusedSectionVars false
namespace TaRs.Gen.FastStochastic
open TaRs TaRs.Rs
variable {F : Type} [Scalar F]

/-- `reset` = component resets (minimum first).  -/
theorem reset_wiring (s : FastStochastic F) (mn' : Minimum F) (mx' : Maximum F)
    (h1 : s.minimum.reset = some mn') (h2 : s.maximum.reset = some mx') :
    s.reset = some { s with minimum := mn', maximum := mx' } := by
  unfold reset
  try simp only [gen_helper]
  simp [h1, h2]

/-- `reset` rebuilds exactly the state `new` builds -/
theorem reset_eq (s : FastStochastic F) (h : WF s) : s.reset = some (fresh s.period) := by
  rw [reset_wiring s _ _ (Minimum.reset_eq _ h.min) (Maximum.reset_eq _ h.max), h.pmin, h.pmax]
  rfl

end TaRs.Gen.FastStochastic
