/- L0 facts about RelativeStrengthIndex::reset (split from Lemmas/RelativeStrengthIndex.lean so that a change to one method only invalidates the facts about that method) -/
import TaRs.Lemmas.Core.RelativeStrengthIndex
import TaRs.Lemmas.Reset.ExponentialMovingAverage
set_option linter.unusedSectionVars false
namespace TaRs.Gen.RelativeStrengthIndex
open TaRs TaRs.Rs
variable {F : Type} [Scalar F]

theorem reset_eq (s : RelativeStrengthIndex F) (h : WF s) : s.reset = some (fresh s.period) := by
  unfold reset
  try simp only [gen_helper]
  simp [ExponentialMovingAverage.reset_eq _ h.up, ExponentialMovingAverage.reset_eq _ h.down, fresh,
    h.up_period, h.down_period]

end TaRs.Gen.RelativeStrengthIndex
