/- L0 facts about StandardDeviation::reset (split from Lemmas/StandardDeviation.lean so that a change to one method only invalidates the facts about that method) -/
import TaRs.Lemmas.Core.StandardDeviation
set_option linter.unusedSectionVars false
namespace TaRs.Gen.StandardDeviation
open TaRs TaRs.Rs
variable {F : Type} [Scalar F]

/-- `reset` rebuilds exactly the state `new` builds (state equality: any history, any values) -/
theorem reset_eq (s : StandardDeviation F) (h : WF s) : s.reset = some (fresh s.period) := by
  unfold reset
  try simp only [gen_helper]
  simp [fill_all _ _ _ h.size, fresh]

end TaRs.Gen.StandardDeviation
