/- L0 facts about SimpleMovingAverage::reset (split from Lemmas/SimpleMovingAverage.lean so that a change to one method only invalidates the facts about that method) -/
import TaRs.Lemmas.Core.SimpleMovingAverage
set_option linter.unusedSectionVars false
namespace TaRs.Gen.SimpleMovingAverage
open TaRs TaRs.Rs
variable {F : Type} [Scalar F]

/-- `reset` rebuilds exactly the state `new` builds (state equality: any history, any values) -/
theorem reset_eq (s : SimpleMovingAverage F) (h : WF s) : s.reset = some (fresh s.period) := by
  unfold reset
  try simp only [gen_helper]
  simp [fill_all _ _ _ h.size, fresh]

end TaRs.Gen.SimpleMovingAverage
