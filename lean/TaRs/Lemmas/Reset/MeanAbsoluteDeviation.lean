/- L0 facts about MeanAbsoluteDeviation::reset (split from Lemmas/MeanAbsoluteDeviation.lean so that a change to one method only invalidates the facts about that method) -/
import TaRs.Lemmas.Core.MeanAbsoluteDeviation
set_option linter.unusedSectionVars false
namespace TaRs.Gen.MeanAbsoluteDeviation
open TaRs TaRs.Rs
variable {F : Type} [Scalar F]

/-- `reset` rebuilds exactly the state `new` builds (state equality: any history, any values) -/
theorem reset_eq (s : MeanAbsoluteDeviation F) (h : WF s) : s.reset = some (fresh s.period) := by
  unfold reset
  try simp only [gen_helper]
  simp [fill_all _ _ _ h.size, fresh]

end TaRs.Gen.MeanAbsoluteDeviation
