/-
  Bar-path wiring of Minimum: WHICH field of the bar `next(&bar)` hands to the scalar `next`.
  The proof never looks into `next` (it only unfolds `nextBar`), so this module depends on
  `TaRs.Gen.Minimum` alone: a change of the arithmetic of `next` leaves it intact, a change of
  the field read breaks it.
-/
import TaRs.Gen.Minimum
import TaRs.Lemmas.RsLemmas
namespace TaRs.Gen.Minimum
open TaRs TaRs.Rs

variable {F : Type} [Scalar F]

/-- wiring of the bar path: WHICH field of the bar `next(&bar)` reads (a value-level fact, hence
    here and not among the value-agnostic totality lemmas) -/
theorem nextBar_eq (s : Minimum F) (b : Bar F) : s.nextBar b = s.next b.low := by
  unfold nextBar
  try simp only [gen_helper]
  cases s.next b.low <;> rfl

end TaRs.Gen.Minimum
