/-
  Bar-path wiring of RelativeStrengthIndex: WHICH field of the bar `next(&bar)` hands to the scalar `next`.
  The proof never looks into `next` (it only unfolds `nextBar`), so this module depends on
  `TaRs.Gen.RelativeStrengthIndex` alone: a change of the arithmetic of `next` leaves it intact, a change of
  the field read breaks it.
-/
import TaRs.Gen.RelativeStrengthIndex
import TaRs.Lemmas.RsLemmas
namespace TaRs.Gen.RelativeStrengthIndex
open TaRs TaRs.Rs

variable {F : Type} [Scalar F]

/-- wiring of the bar path: WHICH field of the bar `next(&bar)` reads (a value-level fact, hence
    here and not among the value-agnostic totality lemmas) -/
theorem nextBar_eq (s : RelativeStrengthIndex F) (b : Bar F) : s.nextBar b = s.next b.close := by
  unfold nextBar
  try simp only [gen_helper]
  cases h : s.next b.close <;> simp [h]

end TaRs.Gen.RelativeStrengthIndex
