/-
  L0 (structural) facts about the GENERATED model of MoneyFlowIndex, valid for every
  `[Scalar F]` (no law about the arithmetic is used).
-/
import TaRs.Lemmas.Core.MoneyFlowIndex
import TaRs.Gen.MoneyFlowIndex
import TaRs.Lemmas.RsLemmas
namespace TaRs.Gen.MoneyFlowIndex
open TaRs TaRs.Rs

variable {F : Type} [Scalar F]

private theorem ite_pair {α β : Type} (c : Prop) [Decidable c] (a : α) (b b' : β) :
    (if c then (a, b) else (a, b')) = (a, if c then b else b') := by
  split <;> rfl

/-- `nextBar` never panics on a well-formed state, keeps it well-formed and keeps the period -/
theorem nextBar_total (s : MoneyFlowIndex F) (b : Bar F) (h : WF s) :
    ∃ r, s.nextBar b = some r ∧ WF r.1 ∧ r.1.period_fn = s.period_fn := by
  obtain ⟨hp, hs, hsz, hi, hc⟩ := h
  have hm : isizeMax < usizeMax := by decide
  unfold nextBar period_fn
  generalize Scalar.div (Scalar.add (Scalar.add b.close b.high) b.low) (Scalar.lit 3 0 : F) = tp
  have hu : uadd s.index 1 = some (s.index + 1) := uadd_eq _ _ (by omega)
  have hite : ∀ (c : Prop) [Decidable c] (a b : Nat), (if c then (some a : Option Nat) else some b) = some (if c then a else b) := by
    intro c _ a b; split <;> rfl
  simp only [hu, Option.bind_eq_bind, Option.bind_some, Option.pure_def, hite]
  have hj : (if decide (s.index + 1 < s.period) = true then s.index + 1 else 0) < s.period := by
    by_cases c1 : s.index + 1 < s.period <;> simp [c1] <;> omega
  generalize (if decide (s.index + 1 < s.period) = true then s.index + 1 else 0) = j at hj ⊢
  have hjs : j < s.deque.size := by omega
  have hx : Rs.index s.deque j = some s.deque[j] := index_eq _ _ hjs
  generalize s.deque[j] = v at hx
  have hset : ∀ w, setIndex s.deque j w = some (s.deque.setIfInBounds j w) :=
    fun w => setIndex_eq _ _ _ hjs
  simp only [hx, hset, Option.bind_some]
  by_cases c2 : s.count < s.period
  · have hu2 : uadd s.count 1 = some (s.count + 1) := uadd_eq _ _ (by omega)
    simp only [c2, hu2, decide_true, if_true, Option.bind_some]
    by_cases c3 : s.count + 1 = 1
    · simp only [c3, decide_true, if_true]
      exact ⟨_, rfl, ⟨hp, hs, hsz, hj, by dsimp only; omega⟩, rfl⟩
    · simp only [c3, decide_false, if_false, Bool.false_eq_true]
      by_cases c4 : Scalar.lt s.previous_typical_price tp = true <;>
      by_cases c5 : Scalar.lt tp s.previous_typical_price = true <;>
        simp only [c4, c5, if_true, if_false, Option.bind_some, Bool.false_eq_true, ite_pair] <;>
        exact ⟨_, rfl, ⟨hp, hs, by simpa using hsz, hj, by dsimp only; omega⟩, rfl⟩
  · simp only [c2, decide_false, if_false, Bool.false_eq_true]
    by_cases c6 : Scalar.isSignPositive v = true <;>
    by_cases c4 : Scalar.lt s.previous_typical_price tp = true <;>
    by_cases c5 : Scalar.lt tp s.previous_typical_price = true <;>
      simp only [c6, c4, c5, hset, if_true, if_false, Option.bind_some, Bool.false_eq_true, ite_pair] <;>
      exact ⟨_, rfl, ⟨hp, hs, by simpa using hsz, hj, hc⟩, rfl⟩

/-- The zero-total-flow guard (no well-formedness needed): whenever `nextBar` returns, the
    output is either the literal `50` or the ratio formula evaluated on the NEW totals, and the
    latter (the division) is only reached when the denominator tested `!= 0`. -/
theorem nextBar_guard (s s' : MoneyFlowIndex F) (b : Bar F) (y : F)
    (h : s.nextBar b = some (s', y)) :
    y = Scalar.lit 50 0 ∨
      (Scalar.beq (Scalar.add s'.total_positive_money_flow s'.total_negative_money_flow)
          (Scalar.lit 0 0) = false ∧
        y = Scalar.mul (Scalar.div s'.total_positive_money_flow
              (Scalar.add s'.total_positive_money_flow s'.total_negative_money_flow))
            (Scalar.lit 100 0)) := by
  unfold nextBar at h
  generalize Scalar.div (Scalar.add (Scalar.add b.close b.high) b.low) (Scalar.lit 3 0 : F) = tp at h
  have hite : ∀ (c : Prop) [Decidable c] (a b : Nat),
      (if c then (some a : Option Nat) else some b) = some (if c then a else b) := by
    intro c _ a b; split <;> rfl
  cases hu : uadd s.index 1 with
  | none => simp [hu] at h
  | some i1 =>
    simp only [hu, Option.bind_eq_bind, Option.bind_some, Option.pure_def, hite] at h
    generalize (if decide (i1 < s.period) = true then i1 else 0) = j at h
    -- every leaf: `h : some (st, if c then 50 else ratio) = some (s', y)` or `h : none = some _`
    have leaf : ∀ (st : MoneyFlowIndex F),
        some (st, if Scalar.beq (Scalar.add st.total_positive_money_flow st.total_negative_money_flow)
                      (Scalar.lit 0 0) = true then (Scalar.lit 50 0 : F)
                  else Scalar.mul (Scalar.div st.total_positive_money_flow
                        (Scalar.add st.total_positive_money_flow st.total_negative_money_flow))
                      (Scalar.lit 100 0)) = some (s', y) →
        y = Scalar.lit 50 0 ∨
          (Scalar.beq (Scalar.add s'.total_positive_money_flow s'.total_negative_money_flow)
              (Scalar.lit 0 0) = false ∧
            y = Scalar.mul (Scalar.div s'.total_positive_money_flow
                  (Scalar.add s'.total_positive_money_flow s'.total_negative_money_flow))
                (Scalar.lit 100 0)) := by
      intro st hst
      obtain ⟨rfl, rfl⟩ := Prod.mk.inj (Option.some.inj hst)
      by_cases c : Scalar.beq (Scalar.add st.total_positive_money_flow st.total_negative_money_flow)
          (Scalar.lit 0 0) = true
      · left; simp [c]
      · right; simp [c]
    have hset : ∀ w, setIndex s.deque j w =
        if j < s.deque.size then some (s.deque.setIfInBounds j w) else none := fun w => rfl
    by_cases hjs : j < s.deque.size
    · simp only [hset, hjs, if_true, Option.bind_some] at h
      by_cases c2 : s.count < s.period
      · simp only [c2, decide_true, if_true] at h
        cases hu2 : uadd s.count 1 with
        | none => simp [hu2] at h
        | some c' =>
          simp only [hu2, Option.bind_some] at h
          by_cases c3 : c' = 1
          · simp only [c3, decide_true, if_true] at h
            left; exact (Prod.mk.inj (Option.some.inj h)).2.symm
          · simp only [c3, decide_false, if_false, Bool.false_eq_true] at h
            by_cases c4 : Scalar.lt s.previous_typical_price tp = true <;>
            by_cases c5 : Scalar.lt tp s.previous_typical_price = true <;>
              simp only [c4, c5, if_true, if_false, Option.bind_some, Bool.false_eq_true,
                ite_pair] at h <;>
              exact leaf _ h
      · simp only [c2, decide_false, if_false, Bool.false_eq_true] at h
        cases hx : Rs.index s.deque j with
        | none => simp [hx] at h
        | some v =>
          simp only [hx, Option.bind_some] at h
          by_cases c6 : Scalar.isSignPositive v = true <;>
          by_cases c4 : Scalar.lt s.previous_typical_price tp = true <;>
          by_cases c5 : Scalar.lt tp s.previous_typical_price = true <;>
            simp only [c6, c4, c5, hset, hjs, if_true, if_false, Option.bind_some,
              Bool.false_eq_true, ite_pair] at h <;>
            exact leaf _ h
    · -- cursor out of bounds: only the very first bar (no deque access) can return
      simp only [hset, hjs, if_false, Option.bind_none] at h
      by_cases c2 : s.count < s.period
      · simp only [c2, decide_true, if_true] at h
        cases hu2 : uadd s.count 1 with
        | none => simp [hu2] at h
        | some c' =>
          simp only [hu2, Option.bind_some] at h
          by_cases c3 : c' = 1
          · simp only [c3, decide_true, if_true] at h
            left; exact (Prod.mk.inj (Option.some.inj h)).2.symm
          · simp only [c3, decide_false, if_false, Bool.false_eq_true] at h
            by_cases c4 : Scalar.lt s.previous_typical_price tp = true <;>
            by_cases c5 : Scalar.lt tp s.previous_typical_price = true <;>
              simp [c4, c5] at h
      · have hx : Rs.index s.deque j = none := by simp [Rs.index]; omega
        simp [c2, hx] at h

end TaRs.Gen.MoneyFlowIndex
