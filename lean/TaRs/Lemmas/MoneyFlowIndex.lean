/-
  L0 (structural) facts about the GENERATED model of MoneyFlowIndex, valid for every
  `[Scalar F]` (no law about the arithmetic is used).
-/
import TaRs.Lemmas.Core.MoneyFlowIndex
import TaRs.Gen.MoneyFlowIndex
import TaRs.Lemmas.RsLemmas
import TaRs.Lemmas.Total.MoneyFlowIndex
namespace TaRs.Gen.MoneyFlowIndex
open TaRs TaRs.Rs

variable {F : Type} [Scalar F]

/-! ### normal form of `nextBar`

The pieces are hand-written functions with a canonical spelling of their tests; `next_eq_first`
and `next_eq` are the ONLY facts proved by executing the generated body (with `rs_exec_prune`,
which does not depend on how the wrap-around / warm-up / first-bar tests are spelled). -/

/-- the typical price `(close + high + low) / 3` of a bar -/
def typical (b : Bar F) : F :=
  Scalar.div (Scalar.add (Scalar.add b.close b.high) b.low) (Scalar.lit 3 0)

/-- the cursor is advanced BEFORE it is used: the slot this call reads and writes -/
def cursor (s : MoneyFlowIndex F) : Nat := if s.index + 1 < s.period then s.index + 1 else 0

/-- positive total after the pop of the value `ev` under the cursor (no pop while warming up) -/
def popPos (s : MoneyFlowIndex F) (ev : F) : F :=
  if s.count < s.period then s.total_positive_money_flow
  else if Scalar.isSignPositive ev then Scalar.sub s.total_positive_money_flow ev
  else s.total_positive_money_flow

/-- negative total after the pop of the value `ev` under the cursor -/
def popNeg (s : MoneyFlowIndex F) (ev : F) : F :=
  if s.count < s.period then s.total_negative_money_flow
  else if Scalar.isSignPositive ev then s.total_negative_money_flow
  else Scalar.add s.total_negative_money_flow ev

/-- positive total after the push of the move `p → t` with volume `vol` -/
def pushPos (p t vol P : F) : F := if Scalar.lt p t then Scalar.add P (Scalar.mul t vol) else P

/-- negative total after the push of the move `p → t` with volume `vol` -/
def pushNeg (p t vol N : F) : F :=
  if Scalar.lt p t then N else if Scalar.lt t p then Scalar.add N (Scalar.mul t vol) else N

/-- the signed flow stored in the deque for the move `p → t` with volume `vol` -/
def stored (p t vol : F) : F :=
  if Scalar.lt p t then Scalar.mul t vol
  else if Scalar.lt t p then Scalar.neg (Scalar.mul t vol) else Scalar.lit 0 0

/-- the output formula with its zero-total-flow guard -/
def out (P N : F) : F :=
  if Scalar.beq (Scalar.add P N) (Scalar.lit 0 0) then Scalar.lit 50 0
  else Scalar.mul (Scalar.div P (Scalar.add P N)) (Scalar.lit 100 0)

/-! the field projections commute with `if`: `ite_period` … `ite_deque` are in `Total/MoneyFlowIndex.lean` -/

theorem cursor_lt (s : MoneyFlowIndex F) (h : WF s) : cursor s < s.period := by
  have := h.pos
  unfold cursor
  split <;> omega

/-- the FIRST bar (`count = 0`): only the cursor, the counter and the remembered typical price
    change, the output is the literal 50 -/
theorem next_eq_first (s : MoneyFlowIndex F) (b : Bar F) (h : WF s) (h0 : s.count = 0) :
    s.nextBar b = some (
      { period := s.period, index := cursor s, count := 1,
        previous_typical_price := typical b,
        total_positive_money_flow := s.total_positive_money_flow,
        total_negative_money_flow := s.total_negative_money_flow,
        deque := s.deque },
      Scalar.lit 50 0) := by
  obtain ⟨hp, hs, hsz, hi, hc⟩ := h
  have hm : isizeMax < usizeMax := by decide
  unfold nextBar typical
  try simp only [gen_helper]
  generalize Scalar.div (Scalar.add (Scalar.add b.close b.high) b.low) (Scalar.lit 3 0 : F) = t
  rs_exec_lazy
  unfold cursor
  rs_exec_prune
  all_goals (first | rfl | (simp only [h0]; done))

/-- every LATER bar (`0 < count`), `ev` being the value under the advanced cursor -/
theorem next_eq (s : MoneyFlowIndex F) (b : Bar F) (ev : F) (h : WF s) (h0 : 0 < s.count)
    (hev : s.deque[cursor s]? = some ev) :
    s.nextBar b = some (
      { period := s.period, index := cursor s,
        count := if s.count < s.period then s.count + 1 else s.count,
        previous_typical_price := typical b,
        total_positive_money_flow :=
          pushPos s.previous_typical_price (typical b) b.volume (popPos s ev),
        total_negative_money_flow :=
          pushNeg s.previous_typical_price (typical b) b.volume (popNeg s ev),
        deque := s.deque.setIfInBounds (cursor s)
          (stored s.previous_typical_price (typical b) b.volume) },
      out (pushPos s.previous_typical_price (typical b) b.volume (popPos s ev))
          (pushNeg s.previous_typical_price (typical b) b.volume (popNeg s ev))) := by
  have hcur := cursor_lt s h
  obtain ⟨hp, hs, hsz, hi, hc⟩ := h
  have hm : isizeMax < usizeMax := by decide
  have hix : cursor s < s.deque.size := by omega
  rw [Array.getElem?_eq_getElem hix] at hev
  have hev := Option.some.inj hev
  subst hev
  unfold nextBar typical
  try simp only [gen_helper]
  generalize Scalar.div (Scalar.add (Scalar.add b.close b.high) b.low) (Scalar.lit 3 0 : F) = t
  -- evaluate up to the first test, decide it through my own spelling, go on
  rs_exec_lazy [ite_period, ite_index, ite_count, ite_prev, ite_pos, ite_neg, ite_deque]
  by_cases c1 : s.index + 1 < s.period
  all_goals rs_exec_lazy [ite_period, ite_index, ite_count, ite_prev, ite_pos, ite_neg, ite_deque]
  all_goals by_cases c2 : s.count < s.period
  all_goals rs_exec_lazy [ite_period, ite_index, ite_count, ite_prev, ite_pos, ite_neg, ite_deque]
  -- compare with the normal form
  all_goals unfold cursor popPos popNeg pushPos pushNeg stored out
  rs_exec_prune [ite_period, ite_index, ite_count, ite_prev, ite_pos, ite_neg, ite_deque]
  all_goals (first | rfl | contradiction)

/-! ### the zero-total-flow guard (no well-formedness needed) -/

/-- every value an `Option` computation can return satisfies `P` -/
private def OptAll {α : Type} (P : α → Prop) (m : Option α) : Prop := ∀ r, m = some r → P r

private theorem optAll_bind {α β : Type} {P : β → Prop} {m : Option α} {f : α → Option β}
    (h : ∀ a, OptAll P (f a)) : OptAll P (m.bind f) := by
  intro r hr
  cases m with
  | none => simp at hr
  | some a => exact h a r hr

private theorem optAll_ite {α : Type} {P : α → Prop} {c : Prop} [Decidable c] {x y : Option α}
    (hx : OptAll P x) (hy : OptAll P y) : OptAll P (if c then x else y) := by
  split <;> assumption

private theorem optAll_some {α : Type} {P : α → Prop} {a : α} (h : P a) : OptAll P (some a) := by
  intro r hr
  cases hr
  exact h

/-- what the guard guarantees about a returned pair (state, output) -/
private def Guarded (r : MoneyFlowIndex F × F) : Prop :=
  r.2 = Scalar.lit 50 0 ∨
    (Scalar.beq (Scalar.add r.1.total_positive_money_flow r.1.total_negative_money_flow)
        (Scalar.lit 0 0) = false ∧
      r.2 = Scalar.mul (Scalar.div r.1.total_positive_money_flow
              (Scalar.add r.1.total_positive_money_flow r.1.total_negative_money_flow))
            (Scalar.lit 100 0))


/-- The zero-total-flow guard (no well-formedness needed): whenever `nextBar` returns, the
    output is either the literal `50` or the ratio formula evaluated on the NEW totals, and the
    latter (the division) is only reached when the denominator tested `!= 0`. -/
theorem nextBar_guard (s s' : MoneyFlowIndex F) (b : Bar F) (y : F)
    (h : s.nextBar b = some (s', y)) :
    y = Scalar.lit 50 0 ∨
      (Scalar.beq (Scalar.add s'.total_positive_money_flow s'.total_negative_money_flow)
          (Scalar.lit 0 0) = false ∧
        y = Scalar.mul (Scalar.div s'.total_positive_money_flow
              (Scalar.add s'.total_positive_money_flow s'.total_negative_money_flow))
            (Scalar.lit 100 0)) := by
  -- purely structural: walk through every `bind` and every `if` of the body (whatever their
  -- tests are); each leaf is `pure (self, 50)` or `pure (if total == 0 then (self, 50) else (self, ratio))`
  suffices H : OptAll Guarded (s.nextBar b) from H _ h
  unfold nextBar
  try simp only [gen_helper]
  simp only [Option.bind_eq_bind, Option.pure_def]
  repeat' (first
    | with_reducible apply optAll_ite
    | with_reducible apply optAll_some
    | (with_reducible apply optAll_bind; intro _))
  all_goals (first
    | exact Or.inl rfl
    | (split
       · exact Or.inl rfl
       · exact Or.inr ⟨Bool.eq_false_iff.2 (by assumption), rfl⟩))

end TaRs.Gen.MoneyFlowIndex
