/- L0 facts about the generated KeltnerChannel (any `[Scalar F]`). -/
import TaRs.Lemmas.Core.KeltnerChannel
import TaRs.Gen.KeltnerChannel
import TaRs.Lemmas.ExponentialMovingAverage
import TaRs.Lemmas.AverageTrueRange
import TaRs.Lemmas.Total.KeltnerChannel
namespace TaRs.Gen.KeltnerChannel
open TaRs TaRs.Rs
variable {F : Type} [Scalar F]

/-- the output triple: `average`, `average + atr * multiplier`, `average − atr * multiplier` -/
def mkOut (average atr multiplier : F) : KeltnerChannelOutput F :=
  { average := average,
    upper := Scalar.add average (Scalar.mul atr multiplier),
    lower := Scalar.sub average (Scalar.mul atr multiplier) }

/-- the bar path's EMA input: `(close + high + low) / 3.0`, in the code's operation order -/
def typicalPrice (b : Bar F) : F :=
  Scalar.div (Scalar.add (Scalar.add b.close b.high) b.low) (Scalar.lit 3 0)

/-- scalar path: the ATR is fed `x` (so it averages `|x − previous x|`), the EMA is fed `x` -/
theorem next_eq (s : KeltnerChannel F) (x : F) :
    s.next x =
      some ({ period := s.period, multiplier := s.multiplier,
              atr := { true_range := { prev_close := some x },
                       ema := ExponentialMovingAverage.step s.atr.ema (TrueRange.out s.atr.true_range x) },
              ema := ExponentialMovingAverage.step s.ema x },
            mkOut (ExponentialMovingAverage.step s.ema x).current
                  (ExponentialMovingAverage.step s.atr.ema (TrueRange.out s.atr.true_range x)).current
                  s.multiplier) := by
  unfold next
  try simp only [gen_helper]
  simp [AverageTrueRange.next_eq, ExponentialMovingAverage.next_eq, mkOut]

/-- bar path: the EMA is fed the typical price, the ATR is fed the bar -/
theorem nextBar_eq (s : KeltnerChannel F) (b : Bar F) :
    s.nextBar b =
      some ({ period := s.period, multiplier := s.multiplier,
              atr := { true_range := { prev_close := some b.close },
                       ema := ExponentialMovingAverage.step s.atr.ema (TrueRange.outBar s.atr.true_range b) },
              ema := ExponentialMovingAverage.step s.ema (typicalPrice b) },
            mkOut (ExponentialMovingAverage.step s.ema (typicalPrice b)).current
                  (ExponentialMovingAverage.step s.atr.ema (TrueRange.outBar s.atr.true_range b)).current
                  s.multiplier) := by
  unfold nextBar
  try simp only [gen_helper]
  simp [AverageTrueRange.nextBar_eq, ExponentialMovingAverage.next_eq, mkOut, typicalPrice]

/-- the outputs spelled out (scalar path) -/
theorem next_out (s : KeltnerChannel F) (x : F) (r) (h : s.next x = some r) :
    r.2.average = (ExponentialMovingAverage.step s.ema x).current ∧
    r.2.upper = Scalar.add r.2.average
      (Scalar.mul (ExponentialMovingAverage.step s.atr.ema (TrueRange.out s.atr.true_range x)).current
        s.multiplier) ∧
    r.2.lower = Scalar.sub r.2.average
      (Scalar.mul (ExponentialMovingAverage.step s.atr.ema (TrueRange.out s.atr.true_range x)).current
        s.multiplier) := by
  rw [next_eq] at h; cases h; exact ⟨rfl, rfl, rfl⟩

/-- the outputs spelled out (bar path) -/
theorem nextBar_out (s : KeltnerChannel F) (b : Bar F) (r) (h : s.nextBar b = some r) :
    r.2.average = (ExponentialMovingAverage.step s.ema
      (Scalar.div (Scalar.add (Scalar.add b.close b.high) b.low) (Scalar.lit 3 0))).current ∧
    r.2.upper = Scalar.add r.2.average
      (Scalar.mul (ExponentialMovingAverage.step s.atr.ema (TrueRange.outBar s.atr.true_range b)).current
        s.multiplier) ∧
    r.2.lower = Scalar.sub r.2.average
      (Scalar.mul (ExponentialMovingAverage.step s.atr.ema (TrueRange.outBar s.atr.true_range b)).current
        s.multiplier) := by
  rw [nextBar_eq] at h; cases h; exact ⟨rfl, rfl, rfl⟩

end TaRs.Gen.KeltnerChannel
