/- L0 facts about the generated OnBalanceVolume (any `[Scalar F]`).
   OBV has no parameters and no panicking operation, hence no `WF`. -/
import TaRs.Lemmas.Core.OnBalanceVolume
import TaRs.Gen.OnBalanceVolume
import TaRs.Lemmas.RsLemmas
import TaRs.Lemmas.Total.OnBalanceVolume
namespace TaRs.Gen.OnBalanceVolume
open TaRs TaRs.Rs
variable {F : Type} [Scalar F]

/-- the running total after bar `b`: `+ volume` when `close > prev_close`, `− volume` when
    `close < prev_close`, unchanged otherwise (equal closes, or any NaN comparison) -/
def out (s : OnBalanceVolume F) (b : Bar F) : F :=
  if Scalar.lt s.prev_close b.close then Scalar.add s.obv b.volume
  else if Scalar.lt b.close s.prev_close then Scalar.sub s.obv b.volume
  else s.obv

theorem nextBar_eq (s : OnBalanceVolume F) (b : Bar F) :
    s.nextBar b = some ({ obv := out s b, prev_close := b.close }, out s b) := by
  unfold nextBar out
  try simp only [gen_helper]
  cases Scalar.lt s.prev_close b.close <;> cases Scalar.lt b.close s.prev_close <;> rfl

theorem nextBar_up (s : OnBalanceVolume F) (b : Bar F) (h : Scalar.lt s.prev_close b.close = true) :
    s.nextBar b = some ({ obv := Scalar.add s.obv b.volume, prev_close := b.close },
                        Scalar.add s.obv b.volume) := by
  simp [nextBar_eq, out, h]

theorem nextBar_down (s : OnBalanceVolume F) (b : Bar F)
    (h1 : Scalar.lt s.prev_close b.close = false) (h2 : Scalar.lt b.close s.prev_close = true) :
    s.nextBar b = some ({ obv := Scalar.sub s.obv b.volume, prev_close := b.close },
                        Scalar.sub s.obv b.volume) := by
  simp [nextBar_eq, out, h1, h2]

theorem nextBar_flat (s : OnBalanceVolume F) (b : Bar F)
    (h1 : Scalar.lt s.prev_close b.close = false) (h2 : Scalar.lt b.close s.prev_close = false) :
    s.nextBar b = some ({ obv := s.obv, prev_close := b.close }, s.obv) := by
  simp [nextBar_eq, out, h1, h2]

/-- `nextBar` never panics; the output is the new running total and `prev_close` is the bar's close -/
theorem nextBar_total (s : OnBalanceVolume F) (b : Bar F) :
    ∃ r, s.nextBar b = some r ∧ r.2 = r.1.obv ∧ r.1.prev_close = b.close :=
  ⟨_, nextBar_eq s b, rfl, rfl⟩

end TaRs.Gen.OnBalanceVolume
