/- L0 facts about the generated RelativeStrengthIndex (any `[Scalar F]`). -/
import TaRs.Lemmas.Core.RelativeStrengthIndex
import TaRs.Gen.RelativeStrengthIndex
import TaRs.Lemmas.ExponentialMovingAverage
import TaRs.Lemmas.Total.RelativeStrengthIndex
import TaRs.Lemmas.Bar.RelativeStrengthIndex
namespace TaRs.Gen.RelativeStrengthIndex
open TaRs TaRs.Rs
variable {F : Type} [Scalar F]

/-- the value fed to the "up" EMA: `0.1` on the first input, then `x − prev` when `x > prev`
    (`Scalar.lt prev x`), else `0.0` (this includes `x = prev` and every NaN comparison) -/
def gain (s : RelativeStrengthIndex F) (x : F) : F :=
  if s.is_new then Scalar.lit 1 1
  else if Scalar.lt s.prev_val x then Scalar.sub x s.prev_val else Scalar.lit 0 0

/-- the value fed to the "down" EMA: `0.1` on the first input, then `0.0` when `x > prev`,
    else `prev − x` (this includes `x = prev` and every NaN comparison) -/
def loss (s : RelativeStrengthIndex F) (x : F) : F :=
  if s.is_new then Scalar.lit 1 1
  else if Scalar.lt s.prev_val x then Scalar.lit 0 0 else Scalar.sub s.prev_val x

/-- `if up + down == 0.0 { 50.0 } else { 100.0 * up / (up + down) }`, in the code's operation
    order (the guard was added by the repair; a NaN sum compares `false` and takes the division) -/
def rsiVal (up down : F) : F :=
  if Scalar.beq (Scalar.add up down) (Scalar.lit 0 0) then Scalar.lit 50 0
  else Scalar.div (Scalar.mul (Scalar.lit 100 0) up) (Scalar.add up down)

/-- RSI wiring: gains go to the up-EMA, losses to the down-EMA (up first, then down),
    `prev_val` becomes the input, `is_new` is cleared. -/
theorem next_eq (s : RelativeStrengthIndex F) (x : F) :
    s.next x =
      some ({ period := s.period,
              up_ema_indicator := ExponentialMovingAverage.step s.up_ema_indicator (gain s x),
              down_ema_indicator := ExponentialMovingAverage.step s.down_ema_indicator (loss s x),
              prev_val := x, is_new := false },
            rsiVal (ExponentialMovingAverage.step s.up_ema_indicator (gain s x)).current
                   (ExponentialMovingAverage.step s.down_ema_indicator (loss s x)).current) := by
  obtain ⟨p, u, d, pv, n⟩ := s
  unfold next gain loss rsiVal
  try simp only [gen_helper]
  cases n
  · cases hlt : Scalar.lt pv x <;> simp [ExponentialMovingAverage.next_eq, hlt] <;> split <;> rfl
  · simp [ExponentialMovingAverage.next_eq]; split <;> rfl

/-- first input: both EMAs are seeded with `0.1`, so the output is `rsiVal 0.1 0.1` computed in `F`
    whatever the input is.  Since the repair this goes through the `== 0.0` guard, which an
    arbitrary `Scalar` cannot decide: see `next_first_of_ne` for the unguarded value. -/
theorem next_first (s : RelativeStrengthIndex F) (x : F) (hn : s.is_new = true)
    (hu : s.up_ema_indicator.is_new = true) (hd : s.down_ema_indicator.is_new = true) :
    ∃ r, s.next x = some r ∧
      r.2 = (if Scalar.beq (Scalar.add (Scalar.lit 1 1) (Scalar.lit 1 1)) (Scalar.lit 0 0 : F)
             then Scalar.lit 50 0
             else Scalar.div (Scalar.mul (Scalar.lit 100 0) (Scalar.lit 1 1))
                    (Scalar.add (Scalar.lit 1 1) (Scalar.lit 1 1))) := by
  refine ⟨_, next_eq s x, ?_⟩
  simp [rsiVal, gain, loss, hn, ExponentialMovingAverage.step, hu, hd]

/-- first input, when `0.1 + 0.1 == 0.0` is false in `F` (true of f64 and of any exact field):
    the output is `100·0.1 / (0.1 + 0.1)` -/
theorem next_first_of_ne (s : RelativeStrengthIndex F) (x : F) (hn : s.is_new = true)
    (hu : s.up_ema_indicator.is_new = true) (hd : s.down_ema_indicator.is_new = true)
    (hne : Scalar.beq (Scalar.add (Scalar.lit 1 1) (Scalar.lit 1 1)) (Scalar.lit 0 0 : F) = false) :
    ∃ r, s.next x = some r ∧
      r.2 = Scalar.div (Scalar.mul (Scalar.lit 100 0) (Scalar.lit 1 1))
              (Scalar.add (Scalar.lit 1 1) (Scalar.lit 1 1)) := by
  obtain ⟨r, hr, h2⟩ := next_first s x hn hu hd
  exact ⟨r, hr, by simpa [hne] using h2⟩

/-- the guard: when the two averages sum to (something `==`) zero the output is `50.0` -/
theorem rsiVal_zero (up down : F) (h : Scalar.beq (Scalar.add up down) (Scalar.lit 0 0) = true) :
    rsiVal up down = Scalar.lit 50 0 := by simp [rsiVal, h]

theorem rsiVal_nonzero (up down : F) (h : Scalar.beq (Scalar.add up down) (Scalar.lit 0 0) = false) :
    rsiVal up down = Scalar.div (Scalar.mul (Scalar.lit 100 0) up) (Scalar.add up down) := by
  simp [rsiVal, h]

end TaRs.Gen.RelativeStrengthIndex
