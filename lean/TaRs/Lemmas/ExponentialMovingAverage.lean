/- L0 facts about the generated ExponentialMovingAverage (any `[Scalar F]`). -/
import TaRs.Lemmas.Core.ExponentialMovingAverage
import TaRs.Gen.ExponentialMovingAverage
import TaRs.Lemmas.RsLemmas
import TaRs.Lemmas.Total.ExponentialMovingAverage
import TaRs.Lemmas.Bar.ExponentialMovingAverage
namespace TaRs.Gen.ExponentialMovingAverage
open TaRs TaRs.Rs
variable {F : Type} [Scalar F]

/-- the documented recursion, in the code's operation order -/
def step (s : ExponentialMovingAverage F) (x : F) : ExponentialMovingAverage F :=
  if s.is_new then { s with is_new := false, current := x }
  else { s with current := Scalar.add (Scalar.mul s.k x) (Scalar.mul (Scalar.sub (Scalar.lit 1 0) s.k) s.current) }

theorem next_eq (s : ExponentialMovingAverage F) (x : F) : s.next x = some (step s x, (step s x).current) := by
  unfold next step
  try simp only [gen_helper]
  cases s.is_new <;> rfl

theorem step_period (s : ExponentialMovingAverage F) (x : F) : (step s x).period = s.period := by
  unfold step; split <;> rfl
theorem step_k (s : ExponentialMovingAverage F) (x : F) : (step s x).k = s.k := by
  unfold step; split <;> rfl

end TaRs.Gen.ExponentialMovingAverage
