/- L0 facts about the generated ExponentialMovingAverage (any `[Scalar F]`). -/
import TaRs.Gen.ExponentialMovingAverage
import TaRs.Lemmas.RsLemmas
namespace TaRs.Gen.ExponentialMovingAverage
open TaRs TaRs.Rs
variable {F : Type} [Scalar F]

/-- smoothing factor as the code computes it: `2.0 / (period as f64 + 1.0)` -/
def alpha (p : Nat) : F := Scalar.div (Scalar.lit 2 0) (Scalar.add (Scalar.ofNat p) (Scalar.lit 1 0))

def fresh (p : Nat) : ExponentialMovingAverage F :=
  { period := p, k := alpha p, current := Scalar.lit 0 0, is_new := true }

/-- EMA has no cursor/array state: the only structural facts are about the parameters. -/
structure WF (s : ExponentialMovingAverage F) : Prop where
  pos : 0 < s.period
  kdef : s.k = alpha s.period

/-- `new` rejects exactly period 0 and never panics: no `usize` arithmetic is left in it
    (before the repair `period + 1` overflowed for `usize::MAX`). -/
theorem new_eq (p : Nat) :
    (new p : Res (ExponentialMovingAverage F)) =
      if p = 0 then .err .InvalidParameter else .ok (fresh p) := by
  unfold new
  cases p with
  | zero => rfl
  | succ n => simp [fresh, alpha, bind, Res.bind]

theorem fresh_wf (p : Nat) (hp : 0 < p) : WF (fresh p : ExponentialMovingAverage F) := ⟨hp, rfl⟩

/-- the documented recursion, in the code's operation order -/
def step (s : ExponentialMovingAverage F) (x : F) : ExponentialMovingAverage F :=
  if s.is_new then { s with is_new := false, current := x }
  else { s with current := Scalar.add (Scalar.mul s.k x) (Scalar.mul (Scalar.sub (Scalar.lit 1 0) s.k) s.current) }

theorem next_eq (s : ExponentialMovingAverage F) (x : F) : s.next x = some (step s x, (step s x).current) := by
  unfold next step
  cases s.is_new <;> rfl

theorem step_period (s : ExponentialMovingAverage F) (x : F) : (step s x).period = s.period := by
  unfold step; split <;> rfl
theorem step_k (s : ExponentialMovingAverage F) (x : F) : (step s x).k = s.k := by
  unfold step; split <;> rfl

theorem next_total (s : ExponentialMovingAverage F) (x : F) (h : WF s) :
    ∃ r, s.next x = some r ∧ WF r.1 ∧ r.1.period = s.period := by
  refine ⟨_, next_eq s x, ⟨?_, ?_⟩, step_period s x⟩
  · rw [step_period]; exact h.pos
  · rw [step_k, step_period]; exact h.kdef

theorem nextBar_eq (s : ExponentialMovingAverage F) (b : Bar F) : s.nextBar b = s.next b.close := by
  unfold nextBar
  cases h : s.next b.close <;> simp [h]

theorem period_fn_eq (s : ExponentialMovingAverage F) : s.period_fn = s.period := rfl

end TaRs.Gen.ExponentialMovingAverage
