/-
  L0 (structural) facts about the GENERATED model of MeanAbsoluteDeviation, valid for every
  `[Scalar F]` (no law about the arithmetic is used).
-/
import TaRs.Lemmas.Core.MeanAbsoluteDeviation
import TaRs.Gen.MeanAbsoluteDeviation
import TaRs.Lemmas.RsLemmas
import TaRs.Lemmas.Total.MeanAbsoluteDeviation
import TaRs.Lemmas.Bar.MeanAbsoluteDeviation
namespace TaRs.Gen.MeanAbsoluteDeviation
open TaRs TaRs.Rs

variable {F : Type} [Scalar F]

/-- the deviation loop of `next`: mean absolute deviation of the first `c` slots of `d` about
    the running mean `sm / c` -/
def madOut (sm : F) (c : Nat) (d : Array F) : F :=
  Scalar.div
    (List.foldl (fun mad v => Scalar.add mad (Scalar.abs (Scalar.sub v (Scalar.div sm (Scalar.ofNat c)))))
      (Scalar.lit 0 0) ((d.toList.drop 0).take (c - 0)))
    (Scalar.ofNat c)

/-- Normal form of one `next` on a well-formed state.  This is the ONLY fact about `next` proved
    by executing the generated body; it does so with `rs_exec`, which does not depend on how the
    wrap-around and warm-up tests are spelled.  Everything else is derived from it.
    (The `for` loop over `&self.deque[..self.count]` is a pure fold; only the slice bound
    `count ≤ deque.len()` matters.) -/
theorem next_eq (s : MeanAbsoluteDeviation F) (x v : F) (h : WF s) (hv : s.deque[s.index]? = some v) :
    s.next x = some (
      { period := s.period,
        index := if s.index + 1 < s.period then s.index + 1 else 0,
        count := if s.count < s.period then s.count + 1 else s.count,
        sum := if s.count < s.period then Scalar.add s.sum x else Scalar.sub (Scalar.add s.sum x) v,
        deque := s.deque.setIfInBounds s.index x },
      madOut (if s.count < s.period then Scalar.add s.sum x else Scalar.sub (Scalar.add s.sum x) v)
        (if s.count < s.period then s.count + 1 else s.count)
        (s.deque.setIfInBounds s.index x)) := by
  obtain ⟨hp, hs, hsz, hi, hc⟩ := h
  have hm : isizeMax < usizeMax := by decide
  have hix : s.index < s.deque.size := by omega
  rw [Array.getElem?_eq_getElem hix] at hv
  have hv := Option.some.inj hv
  unfold next madOut
  try simp only [gen_helper]
  rs_exec
  all_goals try omega
  all_goals
    simp (disch := first | omega | (simp only [Array.size_setIfInBounds]; omega)) only
      [slice_eq, Option.bind_eq_bind, Option.bind_some, Option.pure_def]
  all_goals (first | omega | (subst hv; rfl))

end TaRs.Gen.MeanAbsoluteDeviation
