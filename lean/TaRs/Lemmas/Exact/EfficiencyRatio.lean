/-
  L2 (exact arithmetic, `X K`): the generated (repaired) EfficiencyRatio computes
  `|x_t − x_{t−n}| / Σ|Δx|` over the last `n` steps, and `1` when that path length is 0,
  for every period, every finite stream, every prefix.

  Precisely, after the earlier prices `h` (oldest first) and the new price `x`:
  * `f = erFirst n h` is the reference price: `h[h.length − n]` once `n` earlier prices exist,
    else the first price `h[0]`, and on the very first call the INITIAL BUFFER CONTENT `0`
    (the code reads `deque[0]` before storing anything);
  * `W = lastN n (h ++ [x])` is the window after the push, oldest first (the code reads it as
    `deque[index..count]` followed by `deque[..index]`: `RingInv.chrono`);
  * volatility `= pathLen (f :: W)`, the sum of `|a − b|` over consecutive pairs;
  * output `= if volatility = 0 then 1 else |f − x| / volatility` (`erOut`).
  The first output is 1 for EVERY first input (`er_first`), a flat window gives 1 by the guard
  (`er_flat`), and every output lies in `[0, 1]` by the triangle inequality (`er_range`).

  Names: `first`, `step`, `volatility` are already taken by the L0 file (concrete-state
  functions), so the spec functions are `erFirst`/`erOut`/`erSpec` and the one-call theorem is
  `step_exact`.
-/
import TaRs.Lemmas.EfficiencyRatio
import TaRs.Lemmas.Ring
import TaRs.Lemmas.XLemmas
import TaRs.Lemmas.Machine
import TaRs.Spec.Window
import Mathlib.Tactic.NormNum
set_option linter.unusedSectionVars false
namespace TaRs.Gen.EfficiencyRatio
open TaRs TaRs.Rs TaRs.Spec

variable {K : Type} [Field K] [LinearOrder K] [IsStrictOrderedRing K] [HasSqrt K]

/-! ### specification -/

/-- length of the path through the points of a list: Σ |a − b| over consecutive pairs -/
def pathLen : List K → K
  | [] => 0
  | [_] => 0
  | a :: b :: t => |a - b| + pathLen (b :: t)

@[simp] theorem pathLen_nil : pathLen ([] : List K) = 0 := rfl
@[simp] theorem pathLen_singleton (a : K) : pathLen [a] = 0 := rfl
@[simp] theorem pathLen_cons_cons (a b : K) (t : List K) :
    pathLen (a :: b :: t) = |a - b| + pathLen (b :: t) := rfl

/-- the reference price for the new input after the earlier prices `h`: the price `n` steps
    before the new one once `n` earlier prices exist, else the first price; `0` (the initial
    buffer content) on the very first call -/
def erFirst (n : Nat) (h : List K) : K :=
  if n ≤ h.length then h[h.length - n]?.getD 0 else h.head?.getD 0

/-- the output for the new price `x` after the earlier prices `h` -/
def erOut (n : Nat) (h : List K) (x : K) : K :=
  let f := erFirst n h
  let v := pathLen (f :: lastN n (h ++ [x]))
  if v = 0 then 1 else |f - x| / v

/-- the output on the last price of a non-empty prefix `p` (0 on the empty prefix, never used) -/
def erSpec (n : Nat) (p : List K) : K :=
  match p.getLast? with
  | none => 0
  | some x => erOut n p.dropLast x

theorem erSpec_snoc (n : Nat) (h : List K) (x : K) : erSpec n (h ++ [x]) = erOut n h x := by
  simp [erSpec]

/-! ### path length facts -/

/-- triangle inequality: the straight distance from the first to the last point is at most
    the path length -/
theorem abs_sub_le_pathLen (a : K) (l : List K) : |a - l.getLastD a| ≤ pathLen (a :: l) := by
  induction l generalizing a with
  | nil => simp
  | cons b t ih =>
    rw [List.getLastD_cons, pathLen_cons_cons]
    calc |a - t.getLastD b| ≤ |a - b| + |b - t.getLastD b| := abs_sub_le a b _
      _ ≤ |a - b| + pathLen (b :: t) := by have := ih b; linarith

theorem pathLen_nonneg (l : List K) : 0 ≤ pathLen l := by
  cases l with
  | nil => simp
  | cons a t => exact le_trans (abs_nonneg _) (abs_sub_le_pathLen a t)

/-- a constant list has path length 0 -/
theorem pathLen_const (a : K) (l : List K) (hl : ∀ y ∈ l, y = a) : pathLen l = 0 := by
  induction l with
  | nil => rfl
  | cons b t ih =>
    cases t with
    | nil => rfl
    | cons c t =>
      have hb : b = a := hl b (by simp)
      have hc : c = a := hl c (by simp)
      rw [pathLen_cons_cons, ih (fun y hy => hl y (by simp [hy])), hb, hc]
      simp

private theorem lastN_map {α β : Type} (f : α → β) (n : Nat) (h : List α) :
    lastN n (h.map f) = (lastN n h).map f := by
  simp [lastN, List.map_drop]

/-- the window after a push ends in the new price -/
theorem lastN_snoc (n : Nat) (hn : 0 < n) (h : List K) (x : K) :
    lastN n (h ++ [x]) = lastN (n - 1) h ++ [x] := by
  unfold lastN
  have e : (h ++ [x]).length - n = h.length - (n - 1) := by simp; omega
  rw [e, List.drop_append_of_le_length (by omega)]

/-! ### the two loops -/

/-- both `for n in ..` loops: from `(volatility, previous) = (v, p)` over finite values `W` they
    add the path length of `p :: W` and leave `previous` at the last value -/
theorem foldl_vol (W : List K) (v p : K) :
    List.foldl volStep (X.fin v, X.fin p) (W.map X.fin)
      = (X.fin (v + pathLen (p :: W)), X.fin (W.getLastD p)) := by
  induction W generalizing v p with
  | nil => simp
  | cons b t ih =>
    rw [List.map_cons, List.foldl_cons]
    have e : volStep (X.fin v, X.fin p) (X.fin b) = (X.fin (v + |p - b|), X.fin b) := by
      simp [volStep]
    rw [e, ih, pathLen_cons_cons, List.getLastD_cons, add_assoc]

/-- the volatility computed on a ring that follows the history `H` (after the push), started
    from `previous = f`: the path length of `f` followed by the chronological window -/
theorem volatility_eq {d : Array (X K)} {n i c : Nat} {H : List K}
    (r : RingInv (X.fin (0 : K)) d n i c (H.map X.fin)) (f : K) :
    volatility d i c (X.fin f) = some (X.fin (pathLen (f :: lastN n H))) := by
  have hsz := r.size
  have hi := r.idx_lt
  have hc := r.cnt_le
  have hic : i ≤ c := by
    by_cases hl : (H.map X.fin).length < n
    · obtain ⟨e1, e2⟩ := r.idx_eq_cnt_of_partial hl
      omega
    · have := r.cnt
      omega
  have hch := r.chrono
  rw [lastN_map] at hch
  unfold volatility
  rw [slice_eq d i c hic (by omega), slice_eq d 0 i (by omega) (by omega)]
  simp only [Option.bind_eq_bind, Option.bind_some, Option.pure_def, List.drop_zero, Nat.sub_zero]
  rw [← List.foldl_append, hch, X.lit_zero, foldl_vol, zero_add]

/-! ### the invariant -/

/-- abstraction relation between a concrete state and the history of finite inputs -/
structure Inv (n : Nat) (s : EfficiencyRatio (X K)) (h : List K) : Prop where
  period : s.period = n
  small : n * 8 ≤ isizeMax
  ring : RingInv (X.fin (0 : K)) s.deque n s.index s.count (h.map X.fin)

theorem inv_fresh (n : Nat) (hn : 0 < n) (h8 : n * 8 ≤ isizeMax) :
    Inv n (fresh n : EfficiencyRatio (X K)) [] := by
  refine ⟨rfl, h8, ?_⟩
  simpa [fresh, X.lit_zero] using RingInv.fresh (X.fin (0 : K)) n hn

theorem inv_wf {n : Nat} {s : EfficiencyRatio (X K)} {h : List K} (i : Inv n s h) : WF s := by
  refine ⟨by rw [i.period]; exact i.ring.npos, by rw [i.period]; exact i.small,
    by rw [i.period]; exact i.ring.size, by rw [i.period]; exact i.ring.idx_lt,
    by rw [i.period]; exact i.ring.cnt_le, ?_⟩
  intro hlt
  rw [i.period] at hlt
  have hc := i.ring.cnt
  have hl : (h.map X.fin).length < n := by omega
  obtain ⟨e1, e2⟩ := i.ring.idx_eq_cnt_of_partial hl
  omega

/-- the reference value the code reads before storing the new input -/
theorem first_eq {n : Nat} {s : EfficiencyRatio (X K)} {h : List K} (i : Inv n s h) :
    first s = some (X.fin (erFirst n h)) := by
  have hn := i.ring.npos
  have hidx := i.ring.idx_lt
  have hsz := i.ring.size
  have hcur := i.ring.at_cursor
  have hcnt := i.ring.cnt
  have hpart := i.ring.partial_
  obtain ⟨p, ix, c, d⟩ := s
  have hp : p = n := i.period
  subst hp
  simp only [List.length_map] at hidx hsz hcur hcnt hpart
  have hix : ix < d.size := by omega
  have h0 : 0 < d.size := by omega
  unfold first erFirst
  by_cases c0 : p ≤ c
  · have hl : ¬ h.length < p := by omega
    have hl' : p ≤ h.length := by omega
    have hlt : h.length - p < h.length := by omega
    simp only [c0, hl', if_true]
    rw [index_eq _ _ hix, ← Array.getElem?_eq_getElem hix, hcur]
    simp only [hl, if_false, List.getElem?_map, List.getElem?_eq_getElem hlt, Option.map_some,
      Option.getD_some]
  · have hl : h.length < p := by omega
    have hl' : ¬ p ≤ h.length := by omega
    simp only [c0, hl', if_false]
    rw [index_eq _ _ h0, ← Array.getElem?_eq_getElem h0, ← Array.getElem?_toList, hpart hl]
    cases h with
    | nil =>
      have : p - ([] : List K).length = (p - 1) + 1 := by simp; omega
      rw [this, List.replicate_succ]
      simp
    | cons a t => simp

/-- one call of `next`: the state follows the history and the output is `erOut` -/
theorem step_exact {n : Nat} {s : EfficiencyRatio (X K)} {h : List K} (i : Inv n s h) (x : K) :
    ∃ s', s.next (X.fin x) = some (s', X.fin (erOut n h x)) ∧ Inv n s' (h ++ [x]) := by
  have hwf := inv_wf i
  have hf := first_eq i
  have hpush := i.ring.push (X.fin x)
  have hper := i.period
  have hsmall := i.small
  -- the state after the call follows the extended history
  have hcnt : (if n ≤ s.count then s.count else s.count + 1)
      = (if s.count < n then s.count + 1 else s.count) := by
    split <;> split <;> omega
  have hring : RingInv (X.fin (0 : K)) (step s (X.fin x)).deque n (step s (X.fin x)).index
      (step s (X.fin x)).count ((h ++ [x]).map X.fin) := by
    simp only [step, hcnt, hper, List.map_append, List.map_cons, List.map_nil]
    exact hpush
  have hv := volatility_eq hring (erFirst n h)
  refine ⟨step s (X.fin x), ?_, ⟨hper, hsmall, hring⟩⟩
  rw [next_guard s (X.fin x) hwf _ _ hf hv]
  congr 2
  unfold erOut
  simp only [X.lit_zero, X.beq_fin, decide_eq_true_eq]
  by_cases hz : pathLen (erFirst n h :: lastN n (h ++ [x])) = 0
  · simp [hz]
  · simp only [hz, if_false]
    rw [X.sub_fin, X.abs_fin, X.div_fin _ _ hz]

/-- EfficiencyRatio at `X K`: every output is `|f − x_t| / pathLen (f :: window)` (1 if the
    path length is 0), for every stream -/
theorem stream (n : Nat) (hn : 0 < n) (h8 : n * 8 ≤ isizeMax) (xs : List K) :
    ∃ s', runOut next (fresh n : EfficiencyRatio (X K)) (xs.map X.fin)
      = some (s', (prefixes xs).map (fun p => X.fin (erSpec n p))) := by
  suffices H : ∀ (h : List K) (s : EfficiencyRatio (X K)), Inv n s h → ∀ ys : List K,
      ∃ s', runOut next s (ys.map X.fin)
        = some (s', (prefixes ys).map (fun p => X.fin (erSpec n (h ++ p)))) ∧ Inv n s' (h ++ ys) by
    obtain ⟨s', h1, _⟩ := H [] _ (inv_fresh n hn h8) xs
    exact ⟨s', by simpa using h1⟩
  intro h s i ys
  induction ys generalizing h s with
  | nil => exact ⟨s, by simp [runOut, prefixes], by simpa using i⟩
  | cons y ys ih =>
    obtain ⟨s1, e1, i1⟩ := step_exact i y
    obtain ⟨s2, e2, i2⟩ := ih (h ++ [y]) s1 i1
    refine ⟨s2, ?_, by simpa using i2⟩
    rw [List.map_cons, runOut_cons next s (X.fin y) _ s1 _ e1, e2]
    simp [prefixes, List.range_succ_eq_map, List.map_map, Function.comp_def, erSpec_snoc]

/-! ### corollaries -/

/-- the first output is 1 whatever the first price is: the reference is the initial buffer
    content 0, so the output is `|0 − x| / |0 − x|`, or the guard's 1 when `x = 0` -/
theorem erOut_first (n : Nat) (hn : 0 < n) (x : K) : erOut n [] x = 1 := by
  have hf : erFirst n ([] : List K) = 0 := by unfold erFirst; split <;> simp
  have hw : lastN n ([] ++ [x]) = [x] := by rw [lastN_of_le _ _ (by simp; omega)]; simp
  unfold erOut
  simp only [hf, hw, pathLen_cons_cons, pathLen_singleton, add_zero]
  by_cases hz : |(0 : K) - x| = 0
  · simp
  · simp only [hz, if_false]; exact div_self hz

theorem er_first {n : Nat} {s : EfficiencyRatio (X K)} (i : Inv n s []) (x : K) :
    ∃ s', s.next (X.fin x) = some (s', X.fin 1) ∧ Inv n s' [x] := by
  obtain ⟨s', e, i'⟩ := step_exact i x
  exact ⟨s', by rw [e, erOut_first n i.ring.npos], by simpa using i'⟩

/-- a flat window: if the last `n` earlier prices all equal the new price the volatility is 0
    and the guard returns 1 -/
theorem erOut_flat (n : Nat) (hn : 0 < n) (h : List K) (x : K) (hl : n ≤ h.length)
    (hflat : ∀ y ∈ lastN n h, y = x) : erOut n h x = 1 := by
  have hf : erFirst n h = x := by
    unfold erFirst
    simp only [hl, if_true]
    have hlt : h.length - n < h.length := by omega
    rw [List.getElem?_eq_getElem hlt, Option.getD_some]
    apply hflat
    unfold lastN
    rw [List.mem_drop_iff_getElem]
    exact ⟨0, by simpa using hlt, by simp⟩
  have hv : pathLen (erFirst n h :: lastN n (h ++ [x])) = 0 := by
    apply pathLen_const x
    intro y hy
    rw [lastN_append_one n h x hn hl] at hy
    simp only [List.mem_cons, List.mem_append, List.not_mem_nil, or_false] at hy
    rcases hy with hy | hy | hy
    · rw [hy, hf]
    · exact hflat y (List.mem_of_mem_tail hy)
    · exact hy
  unfold erOut
  simp [hv]

theorem er_flat {n : Nat} {s : EfficiencyRatio (X K)} {h : List K} (i : Inv n s h) (x : K)
    (hl : n ≤ h.length) (hflat : ∀ y ∈ lastN n h, y = x) :
    ∃ s', s.next (X.fin x) = some (s', X.fin 1) ∧ Inv n s' (h ++ [x]) := by
  obtain ⟨s', e, i'⟩ := step_exact i x
  exact ⟨s', by rw [e, erOut_flat n i.ring.npos h x hl hflat], i'⟩

/-- every output lies in `[0, 1]`: the straight move `|f − x|` is at most the path length,
    because the window ends in `x` -/
theorem erOut_range (n : Nat) (hn : 0 < n) (h : List K) (x : K) :
    0 ≤ erOut n h x ∧ erOut n h x ≤ 1 := by
  unfold erOut
  simp only
  by_cases hz : pathLen (erFirst n h :: lastN n (h ++ [x])) = 0
  · simp [hz]
  · simp only [hz, if_false]
    have hnn := pathLen_nonneg (erFirst n h :: lastN n (h ++ [x]))
    have hpos : 0 < pathLen (erFirst n h :: lastN n (h ++ [x])) := lt_of_le_of_ne hnn (Ne.symm hz)
    have htri := abs_sub_le_pathLen (erFirst n h) (lastN n (h ++ [x]))
    rw [lastN_snoc n hn h x] at htri
    simp only [List.getLastD_concat] at htri
    rw [← lastN_snoc n hn h x] at htri
    exact ⟨div_nonneg (abs_nonneg _) hnn, (div_le_one hpos).2 htri⟩

theorem er_range {n : Nat} {s : EfficiencyRatio (X K)} {h : List K} (i : Inv n s h) (x : K) :
    ∃ s' r, s.next (X.fin x) = some (s', X.fin r) ∧ 0 ≤ r ∧ r ≤ 1 ∧ Inv n s' (h ++ [x]) := by
  obtain ⟨s', e, i'⟩ := step_exact i x
  obtain ⟨h0, h1⟩ := erOut_range n i.ring.npos h x
  exact ⟨s', _, e, h0, h1, i'⟩

/-- ER has memory `n + 1`: once `n` earlier prices exist the output only depends on the last
    `n` of them and the new price -/
theorem er_lookback (n : Nat) (p h : List K) (x : K) (hl : n ≤ h.length) :
    erOut n (p ++ h) x = erOut n h x := by
  have hf : erFirst n (p ++ h) = erFirst n h := by
    unfold erFirst
    have h1 : n ≤ (p ++ h).length := by simp; omega
    simp only [h1, hl, if_true]
    have e : (p ++ h).length - n = p.length + (h.length - n) := by simp; omega
    rw [e, List.getElem?_append_right (by omega)]
    congr 2
    omega
  unfold erOut
  simp only [hf]
  rw [List.append_assoc, lastN_append n p (h ++ [x]) (by simp; omega)]

end TaRs.Gen.EfficiencyRatio
