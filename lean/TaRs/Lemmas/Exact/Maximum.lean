/-
  L2 (exact arithmetic, `X K`): the generated Maximum returns exactly the greatest element of
  exactly the last min(t, n) inputs, for every period, every finite stream, every prefix.
  Only the linear order of `K` is used.
-/
import TaRs.Lemmas.Maximum
import TaRs.Lemmas.Ring
import TaRs.Lemmas.XLemmas
import TaRs.Lemmas.Machine
set_option linter.unusedSectionVars false
namespace TaRs.Gen.Maximum
open TaRs TaRs.Rs

/-! ### generic facts (any scalar, any element type) -/

section generic
variable {F : Type} [Scalar F]

-- (`next_eq`, the normal form of one step, lives in `TaRs.Lemmas.Maximum`)

omit [Scalar F] in
theorem mem_enumerate (d : Array F) (j : Nat) (v : F) : (j, v) ∈ enumerate d ↔ d[j]? = some v := by
  unfold enumerate
  constructor
  · intro hmem
    obtain ⟨i, hi⟩ := List.mem_iff_getElem?.mp hmem
    rw [List.getElem?_zip_eq_some] at hi
    obtain ⟨h1, h2⟩ := hi
    obtain ⟨hlt, e⟩ := List.getElem?_eq_some_iff.mp h1
    simp only [List.getElem_range] at e
    subst e
    rw [← Array.getElem?_toList]; exact h2
  · intro hj
    have hlt : j < d.size := by
      rcases Nat.lt_or_ge j d.size with h | h
      · exact h
      · rw [Array.getElem?_eq_none h] at hj; cases hj
    refine List.mem_iff_getElem?.mpr ⟨j, ?_⟩
    rw [List.getElem?_zip_eq_some]
    refine ⟨?_, by rw [Array.getElem?_toList]; exact hj⟩
    rw [List.getElem?_range hlt]

end generic

theorem lastN_map {α β : Type} (f : α → β) (n : Nat) (h : List α) :
    lastN n (h.map f) = (lastN n h).map f := by
  simp [lastN, List.map_drop]

/-- the window after a push only contains old window elements and the new value -/
theorem lastN_push_subset {α : Type} (n : Nat) (hn : 0 < n) (h : List α) (x y : α)
    (hy : y ∈ lastN n (h ++ [x])) : y ∈ lastN n h ∨ y = x := by
  by_cases hl : h.length < n
  · rw [lastN_of_le n (h ++ [x]) (by simp; omega)] at hy
    rw [lastN_of_le n h (by omega)]
    simpa using hy
  · rw [lastN_append_one n h x hn (by omega)] at hy
    rcases List.mem_append.mp hy with h1 | h1
    · exact Or.inl (List.mem_of_mem_tail h1)
    · exact Or.inr (by simpa using h1)

/-! ### exact scalar -/

variable {K : Type} [Field K] [LinearOrder K] [IsStrictOrderedRing K] [HasSqrt K]

/-- every slot of the ring is a sentinel or a finite value of the window -/
theorem slot_cases {d : Array (X K)} {n i c : Nat} {h : List K}
    (r : RingInv X.ninf d n i c (h.map X.fin)) {j : Nat} {v : X K} (hj : d[j]? = some v) :
    v = X.ninf ∨ ∃ k, v = X.fin k ∧ k ∈ lastN n h := by
  have hm : v ∈ d.toList := by
    rw [← Array.getElem?_toList] at hj
    exact List.mem_of_getElem? hj
  have := r.all_perm.mem_iff.mp hm
  rw [lastN_map] at this
  rcases List.mem_append.mp this with h1 | h1
  · obtain ⟨k, hk, e⟩ := List.mem_map.mp h1
    exact Or.inr ⟨k, e.symm, hk⟩
  · exact Or.inl (List.eq_of_mem_replicate h1)

/-- a finite slot holds a value of the window -/
theorem mem_window {d : Array (X K)} {n i c : Nat} {h : List K}
    (r : RingInv X.ninf d n i c (h.map X.fin)) {j : Nat} {m : K} (hj : d[j]? = some (X.fin m)) :
    m ∈ lastN n h := by
  rcases slot_cases r hj with e | ⟨k, e, hk⟩
  · cases e
  · cases e; exact hk

/-- every value of the window sits in some slot -/
theorem slot_of_mem {d : Array (X K)} {n i c : Nat} {h : List K}
    (r : RingInv X.ninf d n i c (h.map X.fin)) {y : K} (hy : y ∈ lastN n h) :
    ∃ j : Nat, d[j]? = some (X.fin y) := by
  have : X.fin y ∈ d.toList :=
    r.all_perm.mem_iff.mpr (List.mem_append_left _ (by rw [lastN_map]; exact List.mem_map_of_mem hy))
  obtain ⟨j, hj⟩ := List.mem_iff_getElem?.mp this
  exact ⟨j, by rw [← Array.getElem?_toList]; exact hj⟩

/-- the scan loop over sentinels and finite values: the accumulator ends on a finite value above
    every finite value seen (and above the finite start value, if any), and it is the start
    value or a pair of the list -/
theorem scan_fold (l : List (Nat × X K)) (acc : X K × Nat)
    (hl : ∀ p ∈ l, p.2 = X.ninf ∨ ∃ k, p.2 = X.fin k)
    (ha : acc.1 = X.ninf ∨ ∃ a, acc.1 = X.fin a) :
    (∀ p ∈ l, ∀ k, p.2 = X.fin k → ∃ m, (List.foldl (fun (acc : X K × Nat) (x : Nat × X K) =>
        if Scalar.lt acc.1 x.2 then (x.2, x.1) else (acc.1, acc.2)) acc l).1 = X.fin m ∧ k ≤ m) ∧
    (∀ a, acc.1 = X.fin a → ∃ m, (List.foldl (fun (acc : X K × Nat) (x : Nat × X K) =>
        if Scalar.lt acc.1 x.2 then (x.2, x.1) else (acc.1, acc.2)) acc l).1 = X.fin m ∧ a ≤ m) ∧
    ((List.foldl (fun (acc : X K × Nat) (x : Nat × X K) =>
        if Scalar.lt acc.1 x.2 then (x.2, x.1) else (acc.1, acc.2)) acc l) = acc ∨
      ((List.foldl (fun (acc : X K × Nat) (x : Nat × X K) =>
        if Scalar.lt acc.1 x.2 then (x.2, x.1) else (acc.1, acc.2)) acc l).2,
       (List.foldl (fun (acc : X K × Nat) (x : Nat × X K) =>
        if Scalar.lt acc.1 x.2 then (x.2, x.1) else (acc.1, acc.2)) acc l).1) ∈ l) := by
  induction l generalizing acc with
  | nil =>
    refine ⟨by simp, ?_, Or.inl rfl⟩
    intro a e; exact ⟨a, e, le_refl _⟩
  | cons p l ih =>
    obtain ⟨pi, pv⟩ := p
    obtain ⟨av, aj⟩ := acc
    simp only [List.foldl_cons]
    -- the accumulator after the head
    have hacc : ∃ acc' : X K × Nat,
        (if Scalar.lt av pv then (pv, pi) else (av, aj)) = acc' ∧
        (acc'.1 = X.ninf ∨ ∃ a, acc'.1 = X.fin a) ∧
        (∀ a, av = X.fin a → ∃ a', acc'.1 = X.fin a' ∧ a ≤ a') ∧
        (∀ k, pv = X.fin k → ∃ a', acc'.1 = X.fin a' ∧ k ≤ a') ∧
        (acc' = (av, aj) ∨ acc' = (pv, pi)) := by
      refine ⟨_, rfl, ?_⟩
      have hp := hl (pi, pv) List.mem_cons_self
      simp only at hp ha
      rcases hp with hp | ⟨k, hp⟩ <;> rcases ha with ha | ⟨a, ha⟩ <;> subst hp <;> subst ha
      · simp
      · simp
      · simp
      · by_cases hka : a < k
        · simp [hka, le_of_lt hka]
        · simp [hka, not_lt.mp hka]
    obtain ⟨acc', e, ha', hB, hA, hC⟩ := hacc
    rw [e]
    obtain ⟨ihA, ihB, ihC⟩ := ih acc' (fun q hq => hl q (List.mem_cons_of_mem _ hq)) ha'
    refine ⟨?_, ?_, ?_⟩
    · intro q hq k hk
      rcases List.mem_cons.mp hq with rfl | hq
      · obtain ⟨a', e1, h1⟩ := hA k hk
        obtain ⟨m, e2, h2⟩ := ihB a' e1
        exact ⟨m, e2, le_trans h1 h2⟩
      · exact ihA q hq k hk
    · intro a ea
      obtain ⟨a', e1, h1⟩ := hB a ea
      obtain ⟨m, e2, h2⟩ := ihB a' e1
      exact ⟨m, e2, le_trans h1 h2⟩
    · rcases ihC with e1 | e1
      · rw [e1]
        rcases hC with e2 | e2
        · exact Or.inl e2
        · right; rw [e2]; exact List.mem_cons_self
      · exact Or.inr (List.mem_cons_of_mem _ e1)

/-- THE RESCAN: over a buffer of sentinels and finite values with at least one finite slot,
    `scan` returns the slot of a greatest finite value -/
theorem scan_greatest (d : Array (X K))
    (hall : ∀ (j : Nat) (v : X K), d[j]? = some v → v = X.ninf ∨ ∃ k, v = X.fin k)
    (hex : ∃ (j : Nat) (k : K), d[j]? = some (X.fin k)) :
    ∃ m, d[scan d]? = some (X.fin m) ∧ ∀ (j : Nat) (k : K), d[j]? = some (X.fin k) → k ≤ m := by
  obtain ⟨hA, _, hC⟩ := scan_fold (enumerate d) (Scalar.negInf, 0)
    (fun p hp => hall p.1 p.2 ((mem_enumerate d p.1 p.2).mp hp)) (Or.inl rfl)
  obtain ⟨j0, k0, h0⟩ := hex
  obtain ⟨m, em, _⟩ := hA (j0, X.fin k0) ((mem_enumerate d _ _).mpr h0) k0 rfl
  refine ⟨m, ?_, ?_⟩
  · rcases hC with e | e
    · rw [e] at em; cases em
    · have := (mem_enumerate d _ _).mp e
      rw [em] at this
      exact this
  · intro j k hj
    obtain ⟨m', em', hm'⟩ := hA (j, X.fin k) ((mem_enumerate d _ _).mpr hj) k rfl
    rw [em] at em'
    cases em'
    exact hm'

/-! ### the abstraction relation and the step -/

/-- abstraction relation between a concrete state and the history of finite inputs -/
structure Inv (n : Nat) (s : Maximum (X K)) (h : List K) : Prop where
  period : s.period = n
  small : n * 8 ≤ isizeMax
  ring : RingInv (X.ninf) s.deque n s.cur_index (min h.length n) (h.map X.fin)
  mx : s.max_index < n
  /-- the cached slot holds a greatest element of the window -/
  greatest : h ≠ [] → ∃ m, s.deque[s.max_index]? = some (X.fin m) ∧ m ∈ lastN n h ∧ ∀ y ∈ lastN n h, y ≤ m
  empty : h = [] → s.max_index = 0

theorem inv_fresh (n : Nat) (hn : 0 < n) (h8 : n * 8 ≤ isizeMax) :
    Inv n (fresh n : Maximum (X K)) [] := by
  refine ⟨rfl, h8, ?_, hn, by intro h; exact absurd rfl h, fun _ => rfl⟩
  simpa [fresh] using RingInv.fresh (X.ninf : X K) n hn

theorem inv_wf {n : Nat} {s : Maximum (X K)} {h : List K} (i : Inv n s h) : WF s :=
  ⟨by rw [i.period]; exact i.ring.npos, by rw [i.period]; exact i.small, by rw [i.period]; exact i.ring.size,
   by rw [i.period]; exact i.ring.idx_lt, by rw [i.period]; exact i.mx⟩

/-- one step: the output is a greatest element of the new window, and the relation is kept -/
theorem step {n : Nat} {s : Maximum (X K)} {h : List K} (i : Inv n s h) (x : K) :
    ∃ s' m, s.next (X.fin x) = some (s', X.fin m) ∧ m ∈ lastN n (h ++ [x]) ∧
      (∀ y ∈ lastN n (h ++ [x]), y ≤ m) ∧ Inv n s' (h ++ [x]) := by
  have hwf := inv_wf i
  have hn := i.ring.npos
  have hidx := i.ring.idx_lt
  have hsz := i.ring.size
  have hsmall := i.small
  have hmx := i.mx
  have hgreatest := i.greatest
  have hempty := i.empty
  have hcidx := i.ring.idx
  have hpush0 := i.ring.push (X.fin x)
  obtain ⟨p, mi, ci, d⟩ := s
  have hp : p = n := i.period
  subst hp
  simp only at hidx hsz hmx hgreatest hempty hcidx hpush0 hwf
  -- the ring after the push, with the ghost counter of the extended history
  have hpush : RingInv X.ninf (d.setIfInBounds ci (X.fin x)) p (if ci + 1 < p then ci + 1 else 0)
      (min (h ++ [x]).length p) ((h ++ [x]).map X.fin) := by
    have e : List.map X.fin (h ++ [x]) = List.map X.fin h ++ [X.fin x] := by simp
    rw [e]
    exact ⟨hpush0.npos, hpush0.size, hpush0.idx, by simp, hpush0.partial_, hpush0.full⟩
  have hsz' : (d.setIfInBounds ci (X.fin x)).size = p := by simpa using hsz
  -- the new value sits under the old cursor
  have hcur : (d.setIfInBounds ci (X.fin x))[ci]? = some (X.fin x) := by
    rw [Array.getElem?_setIfInBounds_self_of_lt (by omega)]
  have hxmem : x ∈ lastN p (h ++ [x]) := mem_window hpush hcur
  -- what the comparison reads
  have hread : ∃ v, (d.setIfInBounds ci (X.fin x))[mi]? = some v ∧
      ∃ m, (d.setIfInBounds ci (X.fin x))[
        if Scalar.lt v (X.fin x) then ci
        else if mi = ci then scan (d.setIfInBounds ci (X.fin x)) else mi]? = some (X.fin m) ∧
        ∀ y ∈ lastN p (h ++ [x]), y ≤ m := by
    by_cases hmc : mi = ci
    · -- the cached slot was overwritten: rescan
      subst hmc
      refine ⟨X.fin x, hcur, ?_⟩
      simp only [X.lt_fin, lt_irrefl, decide_false, if_true, Bool.false_eq_true, if_false]
      obtain ⟨m, hm1, hm2⟩ := scan_greatest (d.setIfInBounds mi (X.fin x))
        (fun j v hj => by
          rcases slot_cases hpush hj with e | ⟨k, e, _⟩
          · exact Or.inl e
          · exact Or.inr ⟨k, e⟩)
        ⟨mi, x, hcur⟩
      refine ⟨m, hm1, ?_⟩
      intro y hy
      obtain ⟨j, hj⟩ := slot_of_mem hpush hy
      exact hm2 j y hj
    · -- the cached slot survives the write
      have hne : h ≠ [] := by
        intro e
        have := hempty e
        subst e
        simp at hcidx
        omega
      obtain ⟨m, hm1, hm2, hm3⟩ := hgreatest hne
      have hkeep : (d.setIfInBounds ci (X.fin x))[mi]? = some (X.fin m) := by
        rw [Array.getElem?_setIfInBounds_ne (by omega)]; exact hm1
      refine ⟨X.fin m, hkeep, ?_⟩
      simp only [X.lt_fin, decide_eq_true_eq, hmc, if_false]
      by_cases hlt : m < x
      · simp only [hlt, if_true]
        refine ⟨x, hcur, ?_⟩
        intro y hy
        rcases lastN_push_subset p hn h x y hy with h1 | h1
        · exact le_trans (hm3 y h1) (le_of_lt hlt)
        · rw [h1]
      · simp only [hlt, if_false]
        refine ⟨m, hkeep, ?_⟩
        intro y hy
        rcases lastN_push_subset p hn h x y hy with h1 | h1
        · exact hm3 y h1
        · rw [h1]; exact not_lt.mp hlt
  obtain ⟨v, hv, m, hm1, hm2⟩ := hread
  obtain ⟨o, ho1, ho2⟩ := next_eq _ (X.fin x) v hwf hv
  simp only at ho1 ho2
  rw [hm1] at ho2
  have ho : o = X.fin m := (Option.some.inj ho2).symm
  subst ho
  have hmw : m ∈ lastN p (h ++ [x]) := mem_window hpush hm1
  refine ⟨_, m, ho1, hmw, hm2, ⟨rfl, hsmall, hpush, ?_, fun _ => ⟨m, hm1, hmw, hm2⟩, fun e => by simp at e⟩⟩
  -- the new index is in bounds because the slot exists
  simp only
  rcases Nat.lt_or_ge (if Scalar.lt v (X.fin x) then ci
        else if mi = ci then scan (d.setIfInBounds ci (X.fin x)) else mi) (d.setIfInBounds ci (X.fin x)).size with hlt | hge
  · omega
  · rw [Array.getElem?_eq_none hge] at hm1; cases hm1

/-- C0x for Maximum at `X K`: every output is the greatest element of exactly the last
    min(t, n) inputs -/
theorem stream (n : Nat) (hn : 0 < n) (h8 : n * 8 ≤ isizeMax) (xs : List K) :
    ∃ s' outs, runOut next (fresh n : Maximum (X K)) (xs.map X.fin) = some (s', outs) ∧
      outs.length = xs.length ∧
      ∀ i, i < xs.length → ∃ m, outs[i]? = some (X.fin m) ∧
        m ∈ lastN n (xs.take (i + 1)) ∧ ∀ y ∈ lastN n (xs.take (i + 1)), y ≤ m := by
  suffices H : ∀ (ys : List K) (h : List K) (s : Maximum (X K)), Inv n s h →
      ∃ s' outs, runOut next s (ys.map X.fin) = some (s', outs) ∧ outs.length = ys.length ∧
        (∀ i, i < ys.length → ∃ m, outs[i]? = some (X.fin m) ∧
          m ∈ lastN n (h ++ ys.take (i + 1)) ∧ ∀ y ∈ lastN n (h ++ ys.take (i + 1)), y ≤ m) ∧
        Inv n s' (h ++ ys) by
    obtain ⟨s', outs, h1, h2, h3, _⟩ := H xs [] _ (inv_fresh n hn h8)
    exact ⟨s', outs, h1, h2, by simpa using h3⟩
  intro ys
  induction ys with
  | nil =>
    intro h s i
    exact ⟨s, [], by simp [runOut], rfl, by intro i hi; simp at hi, by simpa using i⟩
  | cons y ys ih =>
    intro h s i
    obtain ⟨s1, m, e1, hm1, hm2, i1⟩ := step i y
    obtain ⟨s2, outs, e2, hl2, h2, i2⟩ := ih (h ++ [y]) s1 i1
    refine ⟨s2, X.fin m :: outs, ?_, by simp [hl2], ?_, by simpa using i2⟩
    · rw [List.map_cons, runOut_cons next s (X.fin y) _ s1 _ e1, e2]
      rfl
    · intro k hk
      cases k with
      | zero => exact ⟨m, by simp, by simpa using hm1, by simpa using hm2⟩
      | succ k =>
        obtain ⟨m', a1, a2, a3⟩ := h2 k (by simpa using hk)
        exact ⟨m', by simpa using a1, by simpa using a2, by simpa using a3⟩

/-- the same, phrased with core's `List.max?` -/
theorem stream_max? (n : Nat) (hn : 0 < n) (h8 : n * 8 ≤ isizeMax) (xs : List K) :
    ∃ s' outs, runOut next (fresh n : Maximum (X K)) (xs.map X.fin) = some (s', outs) ∧
      outs.length = xs.length ∧
      ∀ i, i < xs.length → outs[i]? = (lastN n (xs.take (i + 1))).max?.map X.fin := by
  obtain ⟨s', outs, h1, h2, h3⟩ := stream n hn h8 xs
  refine ⟨s', outs, h1, h2, ?_⟩
  intro i hi
  obtain ⟨m, e, hm1, hm2⟩ := h3 i hi
  rw [e, List.max?_eq_some_iff.mpr ⟨hm1, hm2⟩]
  rfl

end TaRs.Gen.Maximum
