/-
  L2 (exact arithmetic, `X K`): the generated FastStochastic returns exactly
  `(x − lowest) / (highest − lowest) · 100` (`50` when `lowest = highest`), where `lowest` /
  `highest` are the least / greatest element of exactly the last min(t, n) inputs (bar path:
  of the last min(t, n) lows / highs, with the bar's close in the numerator); hence the output
  lies in [0, 100] (bar path: whenever the CURRENT bar has `low ≤ close ≤ high`).

  Combines `Exact/Minimum.step` and `Exact/Maximum.step` through `FastStochastic.next_wiring` /
  `nextBar_wiring`.  The division is by `highest − lowest`, which is `≠ 0` exactly on the branch
  where it is evaluated, so `X.div_fin` applies: no `x/0` convention is used anywhere.
-/
import TaRs.Lemmas.FastStochastic
import TaRs.Lemmas.Exact.Minimum
import TaRs.Lemmas.Exact.Maximum
set_option linter.unusedSectionVars false
namespace TaRs.Gen.FastStochastic
open TaRs TaRs.Rs

variable {K : Type} [Field K] [LinearOrder K] [IsStrictOrderedRing K] [HasSqrt K]

/-! ### the output expression at finite arguments -/

theorem lit50 : (Scalar.lit 50 0 : X K) = X.fin 50 := by
  rw [X.lit_fin]; norm_num

theorem lit100 : (Scalar.lit 100 0 : X K) = X.fin 100 := by
  rw [X.lit_fin]; norm_num

/-- the documented value over the exact field: `50` on a flat window, else
    `(x − lo) / (hi − lo) · 100` -/
def pct (x lo hi : K) : K := if lo = hi then 50 else (x - lo) / (hi - lo) * 100

/-- scalar-path output expression (guard `lo == hi`) at finite arguments -/
theorem out_fin (x lo hi : K) :
    (if Scalar.beq (X.fin lo) (X.fin hi) then (Scalar.lit 50 0 : X K)
     else Scalar.mul (Scalar.div (Scalar.sub (X.fin x) (X.fin lo)) (Scalar.sub (X.fin hi) (X.fin lo)))
            (Scalar.lit 100 0)) =
    if lo = hi then X.fin 50 else X.fin ((x - lo) / (hi - lo) * 100) := by
  by_cases e : lo = hi
  · simp [e]
  · have hne : hi - lo ≠ 0 := sub_ne_zero.mpr (Ne.symm e)
    simp only [X.beq_fin, e, decide_false, Bool.false_eq_true, if_false, X.sub_fin,
      X.div_fin _ _ hne, lit100, X.mul_fin]

/-- bar-path output expression (guard `hi == lo`, operands swapped) at finite arguments -/
theorem out_fin_bar (x lo hi : K) :
    (if Scalar.beq (X.fin hi) (X.fin lo) then (Scalar.lit 50 0 : X K)
     else Scalar.mul (Scalar.div (Scalar.sub (X.fin x) (X.fin lo)) (Scalar.sub (X.fin hi) (X.fin lo)))
            (Scalar.lit 100 0)) =
    if lo = hi then X.fin 50 else X.fin ((x - lo) / (hi - lo) * 100) := by
  rw [← out_fin x lo hi]
  by_cases e : lo = hi
  · simp [e]
  · simp [e, Ne.symm e]

theorem ite_fin_pct (x lo hi : K) :
    (if lo = hi then X.fin 50 else X.fin ((x - lo) / (hi - lo) * 100) : X K) = X.fin (pct x lo hi) := by
  unfold pct; split <;> rfl

/-- `lo ≤ x ≤ hi` puts the value in `[0, 100]` -/
theorem pct_range (x lo hi : K) (h1 : lo ≤ x) (h2 : x ≤ hi) :
    0 ≤ pct x lo hi ∧ pct x lo hi ≤ 100 := by
  unfold pct
  by_cases e : lo = hi
  · simp only [e, if_true]; constructor <;> norm_num
  · simp only [e, if_false]
    have hlt : 0 < hi - lo := sub_pos.mpr (lt_of_le_of_ne (le_trans h1 h2) e)
    have hq0 : 0 ≤ (x - lo) / (hi - lo) := div_nonneg (sub_nonneg.mpr h1) (le_of_lt hlt)
    have hq1 : (x - lo) / (hi - lo) ≤ 1 := (div_le_one hlt).mpr (by linarith)
    constructor
    · exact mul_nonneg hq0 (by norm_num)
    · linarith

/-- the newest input is in the window (for a positive period) -/
theorem mem_lastN_push {α : Type} (n : Nat) (hn : 0 < n) (h : List α) (x : α) :
    x ∈ lastN n (h ++ [x]) := by
  by_cases hl : h.length < n
  · rw [lastN_of_le n (h ++ [x]) (by simp; omega)]; simp
  · rw [lastN_append_one n h x hn (by omega)]; simp

/-! ### the abstraction relation -/

/-- bar path: the minimum window abstracts the history `hl` of lows, the maximum window the
    history `hh` of highs (same number of bars) -/
structure InvBar (n : Nat) (s : FastStochastic (X K)) (hl hh : List K) : Prop where
  period : s.period = n
  min : Minimum.Inv n s.minimum hl
  max : Maximum.Inv n s.maximum hh
  len : hl.length = hh.length

/-- scalar path: both windows abstract the same history of finite inputs -/
structure Inv (n : Nat) (s : FastStochastic (X K)) (h : List K) : Prop where
  period : s.period = n
  min : Minimum.Inv n s.minimum h
  max : Maximum.Inv n s.maximum h

theorem Inv.toBar {n : Nat} {s : FastStochastic (X K)} {h : List K} (i : Inv n s h) :
    InvBar n s h h := ⟨i.period, i.min, i.max, rfl⟩

theorem InvBar.toInv {n : Nat} {s : FastStochastic (X K)} {h : List K} (i : InvBar n s h h) :
    Inv n s h := ⟨i.period, i.min, i.max⟩

theorem inv_fresh (n : Nat) (hn : 0 < n) (h8 : n * 8 ≤ isizeMax) :
    Inv n (fresh n : FastStochastic (X K)) [] :=
  ⟨rfl, Minimum.inv_fresh n hn h8, Maximum.inv_fresh n hn h8⟩

theorem Inv.pos {n : Nat} {s : FastStochastic (X K)} {h : List K} (i : Inv n s h) : 0 < n :=
  i.min.ring.npos

theorem InvBar.pos {n : Nat} {s : FastStochastic (X K)} {hl hh : List K} (i : InvBar n s hl hh) :
    0 < n := i.min.ring.npos

theorem inv_wf {n : Nat} {s : FastStochastic (X K)} {hl hh : List K} (i : InvBar n s hl hh) : WF s :=
  ⟨Minimum.inv_wf i.min, Maximum.inv_wf i.max, i.min.period.trans i.period.symm,
   i.max.period.trans i.period.symm⟩

/-! ### scalar path -/

/-- one step: with `lo` / `hi` the least / greatest element of the new window
    `W = lastN n (h ++ [x])`, the output is `50` if `lo = hi`, else `(x − lo) / (hi − lo) · 100` -/
theorem step {n : Nat} {s : FastStochastic (X K)} {h : List K} (i : Inv n s h) (x : K) :
    ∃ s' lo hi,
      (lo ∈ lastN n (h ++ [x]) ∧ ∀ y ∈ lastN n (h ++ [x]), lo ≤ y) ∧
      (hi ∈ lastN n (h ++ [x]) ∧ ∀ y ∈ lastN n (h ++ [x]), y ≤ hi) ∧
      s.next (X.fin x) =
        some (s', if lo = hi then X.fin 50 else X.fin ((x - lo) / (hi - lo) * 100)) ∧
      Inv n s' (h ++ [x]) := by
  obtain ⟨mn', lo, e1, l1, l2, i1⟩ := Minimum.step i.min x
  obtain ⟨mx', hi, e2, g1, g2, i2⟩ := Maximum.step i.max x
  refine ⟨{ s with minimum := mn', maximum := mx' }, lo, hi, ⟨l1, l2⟩, ⟨g1, g2⟩, ?_,
    ⟨i.period, i1, i2⟩⟩
  rw [next_wiring s (X.fin x) mn' (X.fin lo) mx' (X.fin hi) e1 e2, out_fin]

/-- range: every output is a finite value in `[0, 100]` -/
theorem fs_range {n : Nat} {s : FastStochastic (X K)} {h : List K} (i : Inv n s h) (x : K) :
    ∃ s' v, s.next (X.fin x) = some (s', X.fin v) ∧ 0 ≤ v ∧ v ≤ 100 ∧ Inv n s' (h ++ [x]) := by
  obtain ⟨s', lo, hi, ⟨_, l2⟩, ⟨_, g2⟩, e, i'⟩ := step i x
  have hx := mem_lastN_push n i.pos h x
  obtain ⟨r0, r1⟩ := pct_range x lo hi (l2 x hx) (g2 x hx)
  exact ⟨s', pct x lo hi, by rw [e, ite_fin_pct], r0, r1, i'⟩

/-- flat window: if all elements of the new window are equal, the output is exactly `50`
    (no `0/0`) -/
theorem fs_flat {n : Nat} {s : FastStochastic (X K)} {h : List K} (i : Inv n s h) (x : K)
    (hflat : ∀ y ∈ lastN n (h ++ [x]), y = x) :
    ∃ s', s.next (X.fin x) = some (s', X.fin 50) ∧ Inv n s' (h ++ [x]) := by
  obtain ⟨s', lo, hi, ⟨l1, _⟩, ⟨g1, _⟩, e, i'⟩ := step i x
  have : lo = hi := (hflat lo l1).trans (hflat hi g1).symm
  exact ⟨s', by rw [e, if_pos this], i'⟩

/-- conversely the `50` branch is taken ONLY on a flat window (elsewhere the formula applies) -/
theorem fs_nonflat {n : Nat} {s : FastStochastic (X K)} {h : List K} (i : Inv n s h) (x : K)
    (y z : K) (hy : y ∈ lastN n (h ++ [x])) (hz : z ∈ lastN n (h ++ [x])) (hyz : y < z) :
    ∃ s' lo hi,
      (lo ∈ lastN n (h ++ [x]) ∧ ∀ y ∈ lastN n (h ++ [x]), lo ≤ y) ∧
      (hi ∈ lastN n (h ++ [x]) ∧ ∀ y ∈ lastN n (h ++ [x]), y ≤ hi) ∧ lo < hi ∧
      s.next (X.fin x) = some (s', X.fin ((x - lo) / (hi - lo) * 100)) ∧
      Inv n s' (h ++ [x]) := by
  obtain ⟨s', lo, hi, ⟨l1, l2⟩, ⟨g1, g2⟩, e, i'⟩ := step i x
  have hlt : lo < hi := lt_of_le_of_lt (l2 y hy) (lt_of_lt_of_le hyz (g2 z hz))
  exact ⟨s', lo, hi, ⟨l1, l2⟩, ⟨g1, g2⟩, hlt, by rw [e, if_neg (ne_of_lt hlt)], i'⟩

/-- whole streams from an arbitrary related state -/
theorem run {n : Nat} (ys : List K) : ∀ (h : List K) (s : FastStochastic (X K)), Inv n s h →
    ∃ s' outs, runOut next s (ys.map X.fin) = some (s', outs) ∧ outs.length = ys.length ∧
      (∀ i, i < ys.length → ∃ x lo hi, ys[i]? = some x ∧
        (lo ∈ lastN n (h ++ ys.take (i + 1)) ∧ ∀ y ∈ lastN n (h ++ ys.take (i + 1)), lo ≤ y) ∧
        (hi ∈ lastN n (h ++ ys.take (i + 1)) ∧ ∀ y ∈ lastN n (h ++ ys.take (i + 1)), y ≤ hi) ∧
        outs[i]? = some (if lo = hi then X.fin 50 else X.fin ((x - lo) / (hi - lo) * 100))) ∧
      Inv n s' (h ++ ys) := by
  induction ys with
  | nil =>
    intro h s i
    exact ⟨s, [], by simp [runOut], rfl, by intro i hi; simp at hi, by simpa using i⟩
  | cons y ys ih =>
    intro h s i
    obtain ⟨s1, lo, hi, hlo, hhi, e1, i1⟩ := step i y
    obtain ⟨s2, outs, e2, hl2, h2, i2⟩ := ih (h ++ [y]) s1 i1
    refine ⟨s2, (if lo = hi then X.fin 50 else X.fin ((y - lo) / (hi - lo) * 100)) :: outs, ?_,
      by simp [hl2], ?_, by simpa using i2⟩
    · rw [List.map_cons, runOut_cons next s (X.fin y) _ s1 _ e1, e2]
      rfl
    · intro k hk
      cases k with
      | zero => exact ⟨y, lo, hi, by simp, by simpa using hlo, by simpa using hhi, by simp⟩
      | succ k =>
        obtain ⟨x', lo', hi', a0, a1, a2, a3⟩ := h2 k (by simpa using hk)
        exact ⟨x', lo', hi', by simpa using a0, by simpa using a1, by simpa using a2,
          by simpa using a3⟩

/-- C03 for FastStochastic at `X K`, scalar path: no call panics and the `i`-th output is
    `50` if `lo = hi`, else `(xᵢ − lo) / (hi − lo) · 100`, with `lo` / `hi` the least / greatest
    element of exactly the last min(i+1, n) inputs -/
theorem stream (n : Nat) (hn : 0 < n) (h8 : n * 8 ≤ isizeMax) (xs : List K) :
    ∃ s' outs, runOut next (fresh n : FastStochastic (X K)) (xs.map X.fin) = some (s', outs) ∧
      outs.length = xs.length ∧
      ∀ i, i < xs.length → ∃ x lo hi, xs[i]? = some x ∧
        (lo ∈ lastN n (xs.take (i + 1)) ∧ ∀ y ∈ lastN n (xs.take (i + 1)), lo ≤ y) ∧
        (hi ∈ lastN n (xs.take (i + 1)) ∧ ∀ y ∈ lastN n (xs.take (i + 1)), y ≤ hi) ∧
        outs[i]? = some (if lo = hi then X.fin 50 else X.fin ((x - lo) / (hi - lo) * 100)) := by
  obtain ⟨s', outs, h1, h2, h3, _⟩ := run (n := n) xs [] _ (inv_fresh n hn h8)
  exact ⟨s', outs, h1, h2, by simpa using h3⟩

/-- every output of a finite stream is a finite value in `[0, 100]` -/
theorem stream_range (n : Nat) (hn : 0 < n) (h8 : n * 8 ≤ isizeMax) (xs : List K) :
    ∃ s' outs, runOut next (fresh n : FastStochastic (X K)) (xs.map X.fin) = some (s', outs) ∧
      outs.length = xs.length ∧
      ∀ i, i < xs.length → ∃ v, outs[i]? = some (X.fin v) ∧ 0 ≤ v ∧ v ≤ 100 := by
  obtain ⟨s', outs, h1, h2, h3⟩ := stream n hn h8 xs
  refine ⟨s', outs, h1, h2, ?_⟩
  intro i hi
  obtain ⟨x, lo, hi', ex, ⟨_, l2⟩, ⟨_, g2⟩, eo⟩ := h3 i hi
  have hx : x ∈ lastN n (xs.take (i + 1)) := by
    have e : xs.take (i + 1) = xs.take i ++ [x] := by
      rw [List.take_add_one, ex]; rfl
    rw [e]; exact mem_lastN_push n hn _ x
  obtain ⟨r0, r1⟩ := pct_range x lo hi' (l2 x hx) (g2 x hx)
  exact ⟨pct x lo hi', by rw [eo, ite_fin_pct], r0, r1⟩

/-! ### bar path -/

/-- a bar of finite values -/
def finBar (b : Bar K) : Bar (X K) :=
  { open_ := X.fin b.open_, high := X.fin b.high, low := X.fin b.low, close := X.fin b.close,
    volume := X.fin b.volume }

/-- one bar step: `lo` = least of the last `n` lows, `hi` = greatest of the last `n` highs
    (current bar included), output `50` if `lo = hi`, else `(close − lo) / (hi − lo) · 100`.
    (`open_` and `volume` are not read and may be anything, NaN included.) -/
theorem step_bar {n : Nat} {s : FastStochastic (X K)} {hl hh : List K} (i : InvBar n s hl hh)
    (b : Bar (X K)) (high low close : K)
    (eh : b.high = X.fin high) (el : b.low = X.fin low) (ec : b.close = X.fin close) :
    ∃ s' lo hi,
      (lo ∈ lastN n (hl ++ [low]) ∧ ∀ y ∈ lastN n (hl ++ [low]), lo ≤ y) ∧
      (hi ∈ lastN n (hh ++ [high]) ∧ ∀ y ∈ lastN n (hh ++ [high]), y ≤ hi) ∧
      s.nextBar b =
        some (s', if lo = hi then X.fin 50 else X.fin ((close - lo) / (hi - lo) * 100)) ∧
      InvBar n s' (hl ++ [low]) (hh ++ [high]) := by
  obtain ⟨mn', lo, e1, l1, l2, i1⟩ := Minimum.step i.min low
  obtain ⟨mx', hi, e2, g1, g2, i2⟩ := Maximum.step i.max high
  refine ⟨{ s with minimum := mn', maximum := mx' }, lo, hi, ⟨l1, l2⟩, ⟨g1, g2⟩, ?_,
    ⟨i.period, i1, i2, by simp [i.len]⟩⟩
  rw [nextBar_wiring s b mn' (X.fin lo) mx' (X.fin hi) (el ▸ e1) (eh ▸ e2), ec, out_fin_bar]

/-- range on the bar path: only the CURRENT bar needs `low ≤ close ≤ high`
    (`lowest ≤ low_t ≤ close_t ≤ high_t ≤ highest`) -/
theorem fs_bar_range {n : Nat} {s : FastStochastic (X K)} {hl hh : List K} (i : InvBar n s hl hh)
    (b : Bar (X K)) (high low close : K)
    (eh : b.high = X.fin high) (el : b.low = X.fin low) (ec : b.close = X.fin close)
    (h1 : low ≤ close) (h2 : close ≤ high) :
    ∃ s' v, s.nextBar b = some (s', X.fin v) ∧ 0 ≤ v ∧ v ≤ 100 ∧
      InvBar n s' (hl ++ [low]) (hh ++ [high]) := by
  obtain ⟨s', lo, hi, ⟨_, l2⟩, ⟨_, g2⟩, e, i'⟩ := step_bar i b high low close eh el ec
  have hlo := l2 low (mem_lastN_push n i.pos hl low)
  have hhi := g2 high (mem_lastN_push n i.pos hh high)
  obtain ⟨r0, r1⟩ := pct_range close lo hi (le_trans hlo h1) (le_trans h2 hhi)
  exact ⟨s', pct close lo hi, by rw [e, ite_fin_pct], r0, r1, i'⟩

/-- without the bar-consistency hypothesis the value is still finite, but may leave `[0, 100]`:
    it is `(close − lo)/(hi − lo)·100` whatever `close` is -/
theorem fs_bar_fin {n : Nat} {s : FastStochastic (X K)} {hl hh : List K} (i : InvBar n s hl hh)
    (b : Bar (X K)) (high low close : K)
    (eh : b.high = X.fin high) (el : b.low = X.fin low) (ec : b.close = X.fin close) :
    ∃ s' v, s.nextBar b = some (s', X.fin v) ∧ InvBar n s' (hl ++ [low]) (hh ++ [high]) := by
  obtain ⟨s', lo, hi, _, _, e, i'⟩ := step_bar i b high low close eh el ec
  exact ⟨s', pct close lo hi, by rw [e, ite_fin_pct], i'⟩

/-- whole bar streams from an arbitrary related state -/
theorem run_bar {n : Nat} (bs : List (Bar K)) :
    ∀ (hl hh : List K) (s : FastStochastic (X K)), InvBar n s hl hh →
    ∃ s' outs, runOut nextBar s (bs.map finBar) = some (s', outs) ∧ outs.length = bs.length ∧
      (∀ i, i < bs.length → ∃ b lo hi, bs[i]? = some b ∧
        (lo ∈ lastN n (hl ++ (bs.take (i + 1)).map Bar.low) ∧
          ∀ y ∈ lastN n (hl ++ (bs.take (i + 1)).map Bar.low), lo ≤ y) ∧
        (hi ∈ lastN n (hh ++ (bs.take (i + 1)).map Bar.high) ∧
          ∀ y ∈ lastN n (hh ++ (bs.take (i + 1)).map Bar.high), y ≤ hi) ∧
        outs[i]? = some (if lo = hi then X.fin 50
                         else X.fin ((b.close - lo) / (hi - lo) * 100))) ∧
      InvBar n s' (hl ++ bs.map Bar.low) (hh ++ bs.map Bar.high) := by
  induction bs with
  | nil =>
    intro hl hh s i
    exact ⟨s, [], by simp [runOut], rfl, by intro i hi; simp at hi, by simpa using i⟩
  | cons b bs ih =>
    intro hl hh s i
    obtain ⟨s1, lo, hi, hlo, hhi, e1, i1⟩ :=
      step_bar i (finBar b) b.high b.low b.close rfl rfl rfl
    obtain ⟨s2, outs, e2, hl2, h2, i2⟩ := ih (hl ++ [b.low]) (hh ++ [b.high]) s1 i1
    refine ⟨s2, (if lo = hi then X.fin 50 else X.fin ((b.close - lo) / (hi - lo) * 100)) :: outs,
      ?_, by simp [hl2], ?_, by simpa using i2⟩
    · rw [List.map_cons, runOut_cons nextBar s (finBar b) _ s1 _ e1, e2]
      rfl
    · intro k hk
      cases k with
      | zero => exact ⟨b, lo, hi, by simp, by simpa using hlo, by simpa using hhi, by simp⟩
      | succ k =>
        obtain ⟨b', lo', hi', a0, a1, a2, a3⟩ := h2 k (by simpa using hk)
        exact ⟨b', lo', hi', by simpa using a0, by simpa using a1, by simpa using a2,
          by simpa using a3⟩

/-- C03 for FastStochastic at `X K`, bar path: the `i`-th output is `50` if `lo = hi`, else
    `(closeᵢ − lo) / (hi − lo) · 100`, with `lo` the least of the last min(i+1, n) lows and `hi`
    the greatest of the last min(i+1, n) highs -/
theorem stream_bar (n : Nat) (hn : 0 < n) (h8 : n * 8 ≤ isizeMax) (bs : List (Bar K)) :
    ∃ s' outs, runOut nextBar (fresh n : FastStochastic (X K)) (bs.map finBar) = some (s', outs) ∧
      outs.length = bs.length ∧
      ∀ i, i < bs.length → ∃ b lo hi, bs[i]? = some b ∧
        (lo ∈ lastN n ((bs.take (i + 1)).map Bar.low) ∧
          ∀ y ∈ lastN n ((bs.take (i + 1)).map Bar.low), lo ≤ y) ∧
        (hi ∈ lastN n ((bs.take (i + 1)).map Bar.high) ∧
          ∀ y ∈ lastN n ((bs.take (i + 1)).map Bar.high), y ≤ hi) ∧
        outs[i]? = some (if lo = hi then X.fin 50
                         else X.fin ((b.close - lo) / (hi - lo) * 100)) := by
  obtain ⟨s', outs, h1, h2, h3, _⟩ :=
    run_bar (n := n) bs [] [] _ (inv_fresh n hn h8).toBar
  exact ⟨s', outs, h1, h2, by simpa using h3⟩

/-- every output of a stream of consistent bars (`low ≤ close ≤ high` for each bar) is a finite
    value in `[0, 100]` -/
theorem stream_bar_range (n : Nat) (hn : 0 < n) (h8 : n * 8 ≤ isizeMax) (bs : List (Bar K))
    (hb : ∀ b ∈ bs, b.low ≤ b.close ∧ b.close ≤ b.high) :
    ∃ s' outs, runOut nextBar (fresh n : FastStochastic (X K)) (bs.map finBar) = some (s', outs) ∧
      outs.length = bs.length ∧
      ∀ i, i < bs.length → ∃ v, outs[i]? = some (X.fin v) ∧ 0 ≤ v ∧ v ≤ 100 := by
  obtain ⟨s', outs, h1, h2, h3⟩ := stream_bar n hn h8 bs
  refine ⟨s', outs, h1, h2, ?_⟩
  intro i hi
  obtain ⟨b, lo, hi', eb, ⟨_, l2⟩, ⟨_, g2⟩, eo⟩ := h3 i hi
  have e : bs.take (i + 1) = bs.take i ++ [b] := by
    rw [List.take_add_one, eb]; rfl
  have hlow : b.low ∈ lastN n ((bs.take (i + 1)).map Bar.low) := by
    rw [e, List.map_append]; exact mem_lastN_push n hn _ b.low
  have hhigh : b.high ∈ lastN n ((bs.take (i + 1)).map Bar.high) := by
    rw [e, List.map_append]; exact mem_lastN_push n hn _ b.high
  obtain ⟨c1, c2⟩ := hb b (List.mem_of_getElem? eb)
  obtain ⟨r0, r1⟩ := pct_range b.close lo hi' (le_trans (l2 _ hlow) c1) (le_trans c2 (g2 _ hhigh))
  exact ⟨pct b.close lo hi', by rw [eo, ite_fin_pct], r0, r1⟩

end TaRs.Gen.FastStochastic
