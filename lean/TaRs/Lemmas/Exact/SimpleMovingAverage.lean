/-
  L2 (exact arithmetic, `X K`): the generated SimpleMovingAverage computes the mean of
  exactly the last min(t, n) inputs, for every period, every finite stream, every prefix.
  Template for the other windowed indicators.
-/
import TaRs.Lemmas.SimpleMovingAverage
import TaRs.Lemmas.Ring
import TaRs.Lemmas.XLemmas
import TaRs.Lemmas.Machine
import TaRs.Spec.Window
import Mathlib.Tactic.NormNum
set_option linter.unusedSectionVars false
namespace TaRs.Gen.SimpleMovingAverage
open TaRs TaRs.Rs TaRs.Spec

variable {K : Type} [Field K] [LinearOrder K] [IsStrictOrderedRing K] [HasSqrt K]

/-- abstraction relation between a concrete state and the history of finite inputs -/
structure Inv (n : Nat) (s : SimpleMovingAverage (X K)) (h : List K) : Prop where
  period : s.period = n
  small : n * 8 ≤ isizeMax
  ring : RingInv (X.fin (0 : K)) s.deque n s.index s.count (h.map X.fin)
  sum : s.sum = X.fin (lastN n h).sum

theorem inv_fresh (n : Nat) (hn : 0 < n) (h8 : n * 8 ≤ isizeMax) :
    Inv n (fresh n : SimpleMovingAverage (X K)) [] := by
  refine ⟨rfl, h8, ?_, ?_⟩
  · simpa [fresh, X.lit_zero] using RingInv.fresh (X.fin (0 : K)) n hn
  · simp [fresh, lastN]

theorem inv_wf {n : Nat} {s : SimpleMovingAverage (X K)} {h : List K} (i : Inv n s h) : WF s :=
  ⟨by rw [i.period]; exact i.ring.npos, by rw [i.period]; exact i.small, by rw [i.period]; exact i.ring.size,
   by rw [i.period]; exact i.ring.idx_lt, by rw [i.period]; exact i.ring.cnt_le⟩

/-- sum of the window after one more input: subtract the evicted value (if any), add the new one -/
theorem lastN_sum_push (n : Nat) (hn : 0 < n) (h : List K) (x : K) :
    (lastN n (h ++ [x])).sum = (lastN n h).sum - (if h.length < n then 0 else h[h.length - n]?.getD 0) + x := by
  by_cases hl : h.length < n
  · simp only [hl, if_true, sub_zero]
    rw [lastN_of_le n (h ++ [x]) (by simp; omega), lastN_of_le n h (by omega)]
    simp
  · simp only [hl, if_false]
    have hge : n ≤ h.length := by omega
    rw [lastN_append_one n h x hn hge]
    have hne : lastN n h ≠ [] := by
      intro e; have hlen := lastN_length n h; rw [e, List.length_nil] at hlen; omega
    have hd : (lastN n h).head? = h[h.length - n]? := by simp [lastN]
    cases hw : lastN n h with
    | nil => exact absurd hw hne
    | cons a t =>
      rw [hw] at hd
      simp only [List.head?_cons] at hd
      rw [← hd]
      simp

theorem step {n : Nat} {s : SimpleMovingAverage (X K)} {h : List K} (i : Inv n s h) (x : K) :
    ∃ s', s.next (X.fin x) = some (s', X.fin (mean (lastN n (h ++ [x])))) ∧ Inv n s' (h ++ [x]) := by
  have hn := i.ring.npos
  have hidx := i.ring.idx_lt
  have hsz := i.ring.size
  have hcur := i.ring.at_cursor
  have hcnt := i.ring.cnt_le
  have hm : isizeMax < usizeMax := by decide
  have hsmall := i.small
  have hpush := i.ring.push (X.fin x)
  obtain ⟨p, ix, c, sm, d⟩ := s
  have hp : p = n := i.period
  subst hp
  simp only at hidx hsz hcur hcnt hpush
  have hsum : sm = X.fin (lastN p h).sum := i.sum
  -- the evicted value
  have hold : d[ix]? = some (X.fin (if h.length < p then (0 : K) else h[h.length - p]?.getD 0)) := by
    rw [hcur]
    by_cases hl : h.length < p
    · simp [hl]
    · simp only [hl, if_false, List.length_map]
      have : h.length - p < h.length := by omega
      simp [List.getElem?_map, List.getElem?_eq_getElem this]
  have hix : ix < d.size := by omega
  have hold' : d[ix]'hix = X.fin (if h.length < p then (0 : K) else h[h.length - p]?.getD 0) := by
    have := hold
    rw [Array.getElem?_eq_getElem hix] at this
    exact Option.some.inj this
  -- count after the push
  have hc' : (if c < p then c + 1 else c) = min (h.length + 1) p := by
    have := hpush.cnt
    simpa using this
  have hcpos : (0 : K) < ((if c < p then c + 1 else c : Nat) : K) := by
    rw [hc']; exact_mod_cast (by omega : 0 < min (h.length + 1) p)
  have hlen : (lastN p (h ++ [x])).length = (if c < p then c + 1 else c) := by
    rw [lastN_length, hc']; simp
  refine ⟨{ period := p, index := if ix + 1 < p then ix + 1 else 0, count := if c < p then c + 1 else c,
            sum := X.fin (lastN p (h ++ [x])).sum, deque := d.setIfInBounds ix (X.fin x) }, ?_, ⟨rfl, hsmall, ?_, rfl⟩⟩
  · have e1 : (lastN p (h ++ [x])).sum = (lastN p h).sum - (if h.length < p then 0 else h[h.length - p]?.getD 0) + x :=
      lastN_sum_push p hn h x
    have hcK : ((if c < p then c + 1 else c : Nat) : K) ≠ 0 := ne_of_gt hcpos
    rw [next_eq _ _ _ (inv_wf i) hold]
    by_cases c1 : ix + 1 < p <;> by_cases c2 : c < p <;>
      simp only [c2, if_true, if_false] at hcK hlen <;> (try push_cast at hcK) <;>
      simp (disch := omega) [c1, c2, hsum, e1, mean, hlen, X.div_fin _ _ hcK]
  · simpa using hpush

/-- C01 for SMA at `X K`: every output is the mean of exactly the last min(t, n) inputs -/
theorem stream (n : Nat) (hn : 0 < n) (h8 : n * 8 ≤ isizeMax) (xs : List K) :
    ∃ s', runOut next (fresh n : SimpleMovingAverage (X K)) (xs.map X.fin)
      = some (s', (prefixes xs).map (fun h => X.fin (mean (lastN n h)))) := by
  suffices H : ∀ (h : List K) (s : SimpleMovingAverage (X K)), Inv n s h → ∀ ys : List K,
      ∃ s', runOut next s (ys.map X.fin) = some (s', (prefixes ys).map (fun p => X.fin (mean (lastN n (h ++ p))))) ∧ Inv n s' (h ++ ys) by
    obtain ⟨s', h1, _⟩ := H [] _ (inv_fresh n hn h8) xs
    exact ⟨s', by simpa using h1⟩
  intro h s i ys
  induction ys generalizing h s with
  | nil => exact ⟨s, by simp [runOut, prefixes], by simpa using i⟩
  | cons y ys ih =>
    obtain ⟨s1, e1, i1⟩ := step i y
    obtain ⟨s2, e2, i2⟩ := ih (h ++ [y]) s1 i1
    refine ⟨s2, ?_, by simpa using i2⟩
    rw [List.map_cons, runOut_cons next s (X.fin y) _ s1 _ e1, e2]
    simp [prefixes, List.range_succ_eq_map, List.map_map, Function.comp_def]

end TaRs.Gen.SimpleMovingAverage
