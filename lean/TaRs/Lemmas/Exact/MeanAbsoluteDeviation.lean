/-
  L2 (exact arithmetic, `X K`): the generated MeanAbsoluteDeviation computes the mean absolute
  deviation (about the window mean) of exactly the last min(t, n) inputs, for every period,
  every finite stream, every prefix.  Follows the SimpleMovingAverage template.  The deviation
  loop reads the written slots `deque[..count]` in STORAGE order, which is a permutation of
  the chronological window; the sum of deviations is permutation-invariant.
-/
import TaRs.Lemmas.MeanAbsoluteDeviation
import TaRs.Lemmas.Ring
import TaRs.Lemmas.XLemmas
import TaRs.Lemmas.Machine
import TaRs.Spec.Window
import TaRs.Lemmas.Exact.SimpleMovingAverage
import Mathlib.Tactic.NormNum
set_option linter.unusedSectionVars false
namespace TaRs.Gen.MeanAbsoluteDeviation
open TaRs TaRs.Rs TaRs.Spec

variable {K : Type} [Field K] [LinearOrder K] [IsStrictOrderedRing K] [HasSqrt K]

/-! ### the deviation loop -/

/-- the finite payload (0 for the special values; only ever applied to finite values) -/
def toK : X K → K
  | X.fin k => k
  | _ => 0

@[simp] theorem toK_fin (k : K) : toK (X.fin k) = k := rfl

theorem lastN_map {α β : Type} (f : α → β) (n : Nat) (h : List α) : lastN n (h.map f) = (lastN n h).map f := by
  simp [lastN, List.map_drop]

/-- the accumulation loop over finite slots is the exact sum of the absolute deviations -/
theorem foldl_dev (m : K) (L : List (X K)) (hL : ∀ v ∈ L, ∃ k, v = X.fin k) (a : K) :
    List.foldl (fun mad v => Scalar.add mad (Scalar.abs (Scalar.sub v (X.fin m)))) (X.fin a) L
      = X.fin (a + (L.map (fun v => |toK v - m|)).sum) := by
  induction L generalizing a with
  | nil => simp
  | cons v t ih =>
    obtain ⟨k, rfl⟩ := hL v (by simp)
    rw [List.foldl_cons]
    simp only [X.sub_fin, X.abs_fin, X.add_fin]
    rw [ih (fun u hu => hL u (by simp [hu]))]
    simp [add_assoc]

/-- … and over any storage order of a window `W` it is the sum over `W` -/
theorem foldl_dev_perm (m : K) (L : List (X K)) (W : List K) (hp : L.Perm (W.map X.fin)) :
    List.foldl (fun mad v => Scalar.add mad (Scalar.abs (Scalar.sub v (X.fin m)))) (X.fin 0) L
      = X.fin (W.map (fun k => |k - m|)).sum := by
  have hL : ∀ v ∈ L, ∃ k, v = X.fin k := by
    intro v hv
    have := (hp.mem_iff).1 hv
    simp only [List.mem_map] at this
    obtain ⟨k, _, e⟩ := this
    exact ⟨k, e.symm⟩
  rw [foldl_dev m L hL 0, zero_add]
  congr 1
  rw [(hp.map (fun v => |toK v - m|)).sum_eq, List.map_map]
  rfl

/-! ### the invariant -/

/-- abstraction relation between a concrete state and the history of finite inputs -/
structure Inv (n : Nat) (s : MeanAbsoluteDeviation (X K)) (h : List K) : Prop where
  period : s.period = n
  small : n * 8 ≤ isizeMax
  ring : RingInv (X.fin (0 : K)) s.deque n s.index s.count (h.map X.fin)
  sum : s.sum = X.fin (lastN n h).sum

theorem inv_fresh (n : Nat) (hn : 0 < n) (h8 : n * 8 ≤ isizeMax) :
    Inv n (fresh n : MeanAbsoluteDeviation (X K)) [] := by
  refine ⟨rfl, h8, ?_, ?_⟩
  · simpa [fresh, X.lit_zero] using RingInv.fresh (X.fin (0 : K)) n hn
  · simp [fresh, lastN]

theorem inv_wf {n : Nat} {s : MeanAbsoluteDeviation (X K)} {h : List K} (i : Inv n s h) : WF s :=
  ⟨by rw [i.period]; exact i.ring.npos, by rw [i.period]; exact i.small, by rw [i.period]; exact i.ring.size,
   by rw [i.period]; exact i.ring.idx_lt, by rw [i.period]; exact i.ring.cnt_le⟩

theorem step {n : Nat} {s : MeanAbsoluteDeviation (X K)} {h : List K} (i : Inv n s h) (x : K) :
    ∃ s', s.next (X.fin x) = some (s', X.fin (mad (lastN n (h ++ [x])))) ∧ Inv n s' (h ++ [x]) := by
  have hn := i.ring.npos
  have hidx := i.ring.idx_lt
  have hsz := i.ring.size
  have hcur := i.ring.at_cursor
  have hcnt := i.ring.cnt_le
  have hceq := i.ring.cnt
  have hm : isizeMax < usizeMax := by decide
  have hsmall := i.small
  have hpush := i.ring.push (X.fin x)
  obtain ⟨p, ix, c, sm, d⟩ := s
  have hp : p = n := i.period
  subst hp
  simp only [List.length_map] at hidx hsz hcur hcnt hpush hceq
  have hsum : sm = X.fin (lastN p h).sum := i.sum
  have hix : ix < d.size := by omega
  -- count after the push
  have hc' : (if c < p then c + 1 else c) = min (h.length + 1) p := by
    have := hpush.cnt
    simpa using this
  have hcK : ((if c < p then c + 1 else c : Nat) : K) ≠ 0 := by
    rw [hc']; exact_mod_cast (by omega : min (h.length + 1) p ≠ 0)
  have hlen : (lastN p (h ++ [x])).length = (if c < p then c + 1 else c) := by
    rw [lastN_length, hc']; simp
  -- the written slots after the push are a permutation of the new window
  have hperm : ((d.setIfInBounds ix (X.fin x)).toList.take (if c < p then c + 1 else c)).Perm
      ((lastN p (h ++ [x])).map X.fin) := by
    have := hpush.take_cnt_perm
    rwa [← List.map_singleton (f := X.fin), ← List.map_append, lastN_map] at this
  have hfold := foldl_dev_perm (mean (lastN p (h ++ [x]))) _ _ hperm
  have e1 := SimpleMovingAverage.lastN_sum_push p hn h x
  refine ⟨{ period := p, index := if ix + 1 < p then ix + 1 else 0, count := if c < p then c + 1 else c,
            sum := X.fin (lastN p (h ++ [x])).sum, deque := d.setIfInBounds ix (X.fin x) }, ?_, ⟨rfl, hsmall, ?_, rfl⟩⟩
  · -- the slot under the cursor: the evicted (oldest) value once the window is full
    have hold : d[ix]? = some (X.fin (if h.length < p then (0 : K) else h[h.length - p]?.getD 0)) := by
      rw [hcur]
      by_cases hl : h.length < p
      · simp [hl]
      · simp only [hl, if_false]
        have : h.length - p < h.length := by omega
        simp [List.getElem?_map, List.getElem?_eq_getElem this]
    rw [next_eq _ _ _ (inv_wf i) hold]
    unfold madOut
    simp only [List.drop_zero, Nat.sub_zero]
    by_cases c2 : c < p
    · -- warming up: nothing is evicted
      have hl : h.length < p := by omega
      simp only [c2, hl, if_true, sub_zero, Array.toList_setIfInBounds] at hcK hlen hfold e1 ⊢
      have hmean : (lastN p (h ++ [x])).sum / ((c : K) + 1) = mean (lastN p (h ++ [x])) := by
        simp [mean, hlen]
      have hmad : mad (lastN p (h ++ [x])) =
          ((lastN p (h ++ [x])).map (fun k => |k - mean (lastN p (h ++ [x]))|)).sum / ((c : K) + 1) := by
        simp [mad, hlen]
      push_cast at hcK
      simp [hsum, ← e1, hmean, hfold, hmad, X.div_fin _ _ hcK]
    · -- full window
      have hl : ¬ h.length < p := by omega
      simp only [c2, hl, if_false, Array.toList_setIfInBounds] at hcK hlen hfold e1 ⊢
      generalize h[h.length - p]?.getD 0 = ev at e1 ⊢
      have e1' : (lastN p h).sum + x - ev = (lastN p (h ++ [x])).sum := by rw [e1]; ring
      have hmean : (lastN p (h ++ [x])).sum / (c : K) = mean (lastN p (h ++ [x])) := by
        simp [mean, hlen]
      have hmad : mad (lastN p (h ++ [x])) =
          ((lastN p (h ++ [x])).map (fun k => |k - mean (lastN p (h ++ [x]))|)).sum / (c : K) := by
        simp [mad, hlen]
      simp [hsum, e1', hmean, hfold, hmad, X.div_fin _ _ hcK]
  · simpa using hpush

/-- C01 for MAD at `X K`: every output is the mean absolute deviation of exactly the last
    min(t, n) inputs -/
theorem stream (n : Nat) (hn : 0 < n) (h8 : n * 8 ≤ isizeMax) (xs : List K) :
    ∃ s', runOut next (fresh n : MeanAbsoluteDeviation (X K)) (xs.map X.fin)
      = some (s', (prefixes xs).map (fun h => X.fin (mad (lastN n h)))) := by
  suffices H : ∀ (h : List K) (s : MeanAbsoluteDeviation (X K)), Inv n s h → ∀ ys : List K,
      ∃ s', runOut next s (ys.map X.fin) = some (s', (prefixes ys).map (fun p => X.fin (mad (lastN n (h ++ p))))) ∧ Inv n s' (h ++ ys) by
    obtain ⟨s', h1, _⟩ := H [] _ (inv_fresh n hn h8) xs
    exact ⟨s', by simpa using h1⟩
  intro h s i ys
  induction ys generalizing h s with
  | nil => exact ⟨s, by simp [runOut, prefixes], by simpa using i⟩
  | cons y ys ih =>
    obtain ⟨s1, e1, i1⟩ := step i y
    obtain ⟨s2, e2, i2⟩ := ih (h ++ [y]) s1 i1
    refine ⟨s2, ?_, by simpa using i2⟩
    rw [List.map_cons, runOut_cons next s (X.fin y) _ s1 _ e1, e2]
    simp [prefixes, List.range_succ_eq_map, List.map_map, Function.comp_def]

end TaRs.Gen.MeanAbsoluteDeviation
