/-
  L2 (exact arithmetic, `X K`): the generated CommodityChannelIndex outputs, for every period,
  every stream of finite bars and every prefix,
      (tp − mean W) / (mad W · 0.015)        (0 when mad W = 0)
  where `tp = (close + high + low) / 3` is the typical price of the current bar and `W` is the
  window of the last min(t, n) typical prices.  Everything is inherited from the exact
  SimpleMovingAverage and MeanAbsoluteDeviation theorems through `nextBar_wiring`.
-/
import TaRs.Lemmas.CommodityChannelIndex
import TaRs.Lemmas.Exact.SimpleMovingAverage
import TaRs.Lemmas.Exact.MeanAbsoluteDeviation
set_option linter.unusedSectionVars false
namespace TaRs.Gen.CommodityChannelIndex
open TaRs TaRs.Rs TaRs.Spec

variable {K : Type} [Field K] [LinearOrder K] [IsStrictOrderedRing K] [HasSqrt K]

/-- typical price on the exact field, in the order the code adds: `(close + high + low) / 3` -/
def tpK (h l c : K) : K := (c + h + l) / 3

/-- typical price of a bar with finite fields (0 for a bar with a special value) -/
def tpBar (b : Bar K) : K := tpK b.high b.low b.close

/-- embedding of an exact bar -/
def finBar (b : Bar K) : Bar (X K) :=
  ⟨X.fin b.open_, X.fin b.high, X.fin b.low, X.fin b.close, X.fin b.volume⟩

/-- the exact CCI value of a window `W` whose newest element is `t` -/
def cciK (t : K) (W : List K) : K :=
  if Spec.mad W = 0 then 0 else (t - mean W) / (Spec.mad W * (15 / 1000))

theorem tp_fin (o h l c v : K) :
    tp (⟨X.fin o, X.fin h, X.fin l, X.fin c, X.fin v⟩ : Bar (X K)) = X.fin (tpK h l c) := by
  have h3 : ((3 : Nat) : K) / ((10 ^ 0 : Nat) : K) ≠ 0 := by norm_num
  unfold tp tpK
  simp only [X.add_fin, X.lit_fin]
  rw [X.div_fin _ _ h3]
  norm_num

theorem lit_15_3 : (Scalar.lit 15 3 : X K) = X.fin (15 / 1000) := by
  rw [X.lit_fin]; norm_num

/-- abstraction relation: both components abstract the same history of typical prices -/
structure Inv (n : Nat) (s : CommodityChannelIndex (X K)) (ts : List K) : Prop where
  sma : SimpleMovingAverage.Inv n s.sma ts
  mad : MeanAbsoluteDeviation.Inv n s.mad ts

theorem inv_fresh (n : Nat) (hn : 0 < n) (h8 : n * 8 ≤ isizeMax) :
    Inv n (fresh n : CommodityChannelIndex (X K)) [] :=
  ⟨SimpleMovingAverage.inv_fresh n hn h8, MeanAbsoluteDeviation.inv_fresh n hn h8⟩

theorem inv_wf {n : Nat} {s : CommodityChannelIndex (X K)} {ts : List K} (i : Inv n s ts) : WF s :=
  ⟨SimpleMovingAverage.inv_wf i.sma, MeanAbsoluteDeviation.inv_wf i.mad, by rw [i.mad.period, i.sma.period]⟩

/-- one step on a bar with finite fields -/
theorem step {n : Nat} {s : CommodityChannelIndex (X K)} {ts : List K} (i : Inv n s ts) (o h l c v : K) :
    ∃ s', s.nextBar ⟨X.fin o, X.fin h, X.fin l, X.fin c, X.fin v⟩
        = some (s', if Spec.mad (lastN n (ts ++ [tpK h l c])) = 0 then X.fin 0
                    else X.fin ((tpK h l c - mean (lastN n (ts ++ [tpK h l c])))
                                  / (Spec.mad (lastN n (ts ++ [tpK h l c])) * (15 / 1000))))
      ∧ Inv n s' (ts ++ [tpK h l c]) := by
  obtain ⟨sma', e1, i1⟩ := SimpleMovingAverage.step i.sma (tpK h l c)
  obtain ⟨mad', e2, i2⟩ := MeanAbsoluteDeviation.step i.mad (tpK h l c)
  refine ⟨{ sma := sma', mad := mad' }, ?_, ⟨i1, i2⟩⟩
  rw [← tp_fin o h l c v] at e1 e2
  rw [nextBar_wiring s _ sma' _ mad' _ e1 e2, tp_fin, lit_15_3, X.lit_zero]
  by_cases hz : Spec.mad (lastN n (ts ++ [tpK h l c])) = 0
  · simp [hz]
  · have hd : Spec.mad (lastN n (ts ++ [tpK h l c])) * (15 / 1000) ≠ 0 :=
      mul_ne_zero hz (by norm_num)
    simp only [X.beq_fin, hz, decide_false, Bool.false_eq_true, if_false, X.sub_fin, X.mul_fin]
    rw [X.div_fin _ _ hd]

/-- the same step in terms of `cciK` (always a finite output) -/
theorem step_cciK {n : Nat} {s : CommodityChannelIndex (X K)} {ts : List K} (i : Inv n s ts) (b : Bar K) :
    ∃ s', s.nextBar (finBar b) = some (s', X.fin (cciK (tpBar b) (lastN n (ts ++ [tpBar b]))))
      ∧ Inv n s' (ts ++ [tpBar b]) := by
  obtain ⟨s', e, i'⟩ := step i b.open_ b.high b.low b.close b.volume
  refine ⟨s', ?_, i'⟩
  unfold finBar tpBar cciK
  rw [e]
  split <;> rfl

/-- `stream` together with the invariant of the final state -/
theorem stream_inv (n : Nat) (hn : 0 < n) (h8 : n * 8 ≤ isizeMax) (bs : List (Bar K)) :
    ∃ s', runOut nextBar (fresh n : CommodityChannelIndex (X K)) (bs.map finBar)
      = some (s', (prefixes (bs.map tpBar)).map (fun p => X.fin (cciK (p.getLast?.getD 0) (lastN n p))))
      ∧ Inv n s' (bs.map tpBar) := by
  suffices H : ∀ (ts : List K) (s : CommodityChannelIndex (X K)), Inv n s ts → ∀ ys : List (Bar K),
      ∃ s', runOut nextBar s (ys.map finBar)
        = some (s', (prefixes (ys.map tpBar)).map
            (fun p => X.fin (cciK (p.getLast?.getD 0) (lastN n (ts ++ p)))))
        ∧ Inv n s' (ts ++ ys.map tpBar) by
    obtain ⟨s', h1, h2⟩ := H [] _ (inv_fresh n hn h8) bs
    exact ⟨s', by simpa using h1, by simpa using h2⟩
  intro ts s i ys
  induction ys generalizing ts s with
  | nil => exact ⟨s, by simp [runOut, prefixes], by simpa using i⟩
  | cons y ys ih =>
    obtain ⟨s1, e1, i1⟩ := step_cciK i y
    obtain ⟨s2, e2, i2⟩ := ih (ts ++ [tpBar y]) s1 i1
    refine ⟨s2, ?_, by simpa using i2⟩
    rw [List.map_cons, runOut_cons nextBar s (finBar y) _ s1 _ e1, e2]
    simp only [prefixes, List.range_succ_eq_map, List.map_map, Function.comp_def, Option.map_some,
      List.length_cons, List.length_map, List.map_cons, List.take_succ_cons, List.take_zero,
      List.append_assoc, List.singleton_append, List.getLast?_singleton,
      Option.getD_some, Option.some.injEq, Prod.mk.injEq, List.cons.injEq, true_and]
    apply List.map_congr_left
    intro a ha
    have hne : List.take (a + 1) (List.map tpBar ys) ≠ [] := by
      have ha' : a < ys.length := by simpa using ha
      intro e
      have h2 := congrArg List.length e
      simp only [List.length_take, List.length_map, List.length_nil] at h2
      omega
    rw [List.getLast?_cons_of_ne_nil hne]

/-- C01 for CCI at `X K`: the output after each bar is the CCI formula of the current typical
    price (the last element of the prefix) against the window of the last min(t, n) typical
    prices -/
theorem stream (n : Nat) (hn : 0 < n) (h8 : n * 8 ≤ isizeMax) (bs : List (Bar K)) :
    ∃ s', runOut nextBar (fresh n : CommodityChannelIndex (X K)) (bs.map finBar)
      = some (s', (prefixes (bs.map tpBar)).map (fun p => X.fin (cciK (p.getLast?.getD 0) (lastN n p)))) := by
  obtain ⟨s', h1, _⟩ := stream_inv n hn h8 bs
  exact ⟨s', h1⟩

/-! ### C08: a flat window is neutral -/

/-- a window whose elements are all equal has zero mean absolute deviation -/
theorem mad_flat (W : List K) (a : K) (hW : ∀ x ∈ W, x = a) : Spec.mad W = 0 := by
  cases W with
  | nil => simp [Spec.mad]
  | cons w t =>
    have hrep : (w :: t) = List.replicate (t.length + 1) a := by
      apply List.eq_replicate_iff.2
      exact ⟨by simp, hW⟩
    have hlen : (((w :: t).length : Nat) : K) ≠ 0 := by
      simp only [List.length_cons]
      exact_mod_cast Nat.succ_ne_zero t.length
    have hmean : mean (w :: t) = a := by
      unfold mean
      rw [div_eq_iff hlen]
      conv => lhs; rw [hrep]
      simp [List.sum_replicate, mul_comm]
    unfold Spec.mad
    rw [hmean]
    have : ((w :: t).map (fun x => |x - a|)) = List.replicate (t.length + 1) 0 := by
      apply List.eq_replicate_iff.2
      refine ⟨by simp, ?_⟩
      intro y hy
      simp only [List.mem_map] at hy
      obtain ⟨x, hx, rfl⟩ := hy
      rw [hW x hx]; simp
    rw [this]
    simp [List.sum_replicate]

/-- C08 in exact arithmetic: when all typical prices in the window are equal the deviation is
    zero and the generated code returns the neutral value 0 (no division is performed) -/
theorem cci_flat {n : Nat} {s : CommodityChannelIndex (X K)} {ts : List K} (i : Inv n s ts) (o h l c v : K)
    (a : K) (hW : ∀ x ∈ lastN n (ts ++ [tpK h l c]), x = a) :
    Spec.mad (lastN n (ts ++ [tpK h l c])) = 0 ∧
    ∃ s', s.nextBar ⟨X.fin o, X.fin h, X.fin l, X.fin c, X.fin v⟩ = some (s', X.fin 0)
      ∧ Inv n s' (ts ++ [tpK h l c]) := by
  have hz := mad_flat _ a hW
  refine ⟨hz, ?_⟩
  obtain ⟨s', e, i'⟩ := step i o h l c v
  exact ⟨s', by rw [e, if_pos hz], i'⟩

end TaRs.Gen.CommodityChannelIndex
