/-
  L2 (exact arithmetic, `X K`): the generated WeightedMovingAverage computes the linearly
  weighted mean (weights 1..k, newest heaviest) of exactly the last k = min(t, n) inputs, for
  every period, every finite stream, every prefix.  Follows the SimpleMovingAverage template.
-/
import TaRs.Lemmas.WeightedMovingAverage
import TaRs.Lemmas.Ring
import TaRs.Lemmas.XLemmas
import TaRs.Lemmas.Machine
import TaRs.Spec.Window
import Mathlib.Tactic.NormNum
set_option linter.unusedSectionVars false
namespace TaRs.Gen.WeightedMovingAverage
open TaRs TaRs.Rs TaRs.Spec

variable {K : Type} [Field K] [LinearOrder K] [IsStrictOrderedRing K] [HasSqrt K]

/-! ### recursive characterisation of `Spec.wsum` -/

/-- `wsum` with the weights starting at `k + 1` -/
def wsumFrom (k : Nat) (w : List K) : K := ((w.zipIdx k).map (fun p => p.1 * ((p.2 : K) + 1))).sum

theorem wsum_eq_from (w : List K) : wsum w = wsumFrom 0 w := by
  cases w <;> simp [wsum, wsumFrom]

theorem wsumFrom_nil (k : Nat) : wsumFrom k ([] : List K) = 0 := by simp [wsumFrom]

theorem wsumFrom_cons (k : Nat) (a : K) (t : List K) :
    wsumFrom k (a :: t) = a * ((k : K) + 1) + wsumFrom (k + 1) t := by
  simp [wsumFrom]

theorem wsumFrom_succ (k : Nat) (t : List K) : wsumFrom (k + 1) t = wsumFrom k t + t.sum := by
  induction t generalizing k with
  | nil => simp [wsumFrom_nil]
  | cons a t ih =>
    rw [wsumFrom_cons, wsumFrom_cons, ih (k + 1), List.sum_cons]
    push_cast
    ring

theorem wsumFrom_append_one (k : Nat) (w : List K) (x : K) :
    wsumFrom k (w ++ [x]) = wsumFrom k w + x * (((k + w.length : Nat) : K) + 1) := by
  induction w generalizing k with
  | nil => simp [wsumFrom]
  | cons a t ih =>
    rw [List.cons_append, wsumFrom_cons, wsumFrom_cons, ih (k + 1), List.length_cons]
    have : k + 1 + t.length = k + (t.length + 1) := by omega
    rw [this]
    ring

/-- every weight of the tail is one more than in the tail alone -/
theorem wsum_cons (a : K) (t : List K) : wsum (a :: t) = a + wsum t + t.sum := by
  rw [wsum_eq_from, wsum_eq_from, wsumFrom_cons, wsumFrom_succ]
  push_cast
  ring

/-- warming up: the new value enters with the heaviest weight -/
theorem wsum_append_one (w : List K) (x : K) : wsum (w ++ [x]) = wsum w + x * ((w.length : K) + 1) := by
  rw [wsum_eq_from, wsum_eq_from, wsumFrom_append_one]
  simp

/-- full window: every weight drops by one (the evicted value had weight 1), the new value
    enters with weight `|w|` -/
theorem wsum_tail_append_one (w : List K) (x : K) (hw : w ≠ []) :
    wsum (w.tail ++ [x]) = wsum w - w.sum + x * (w.length : K) := by
  cases w with
  | nil => exact absurd rfl hw
  | cons a t =>
    rw [List.tail_cons, wsum_append_one, wsum_cons, List.sum_cons, List.length_cons]
    push_cast
    ring

/-! ### the invariant -/

/-- abstraction relation between a concrete state and the history of finite inputs -/
structure Inv (n : Nat) (s : WeightedMovingAverage (X K)) (h : List K) : Prop where
  period : s.period = n
  small : n * 8 ≤ isizeMax
  ring : RingInv (X.fin (0 : K)) s.deque n s.index s.count (h.map X.fin)
  weight : s.weight = X.fin ((min h.length n : Nat) : K)
  sum_flat : s.sum_flat = X.fin (lastN n h).sum
  sum : s.sum = X.fin (wsum (lastN n h))

theorem inv_fresh (n : Nat) (hn : 0 < n) (h8 : n * 8 ≤ isizeMax) :
    Inv n (fresh n : WeightedMovingAverage (X K)) [] := by
  refine ⟨rfl, h8, ?_, ?_, ?_, ?_⟩
  · simpa [fresh, X.lit_zero] using RingInv.fresh (X.fin (0 : K)) n hn
  · simp [fresh]
  · simp [fresh, lastN]
  · simp [fresh, lastN, wsum]

theorem inv_wf {n : Nat} {s : WeightedMovingAverage (X K)} {h : List K} (i : Inv n s h) : WF s :=
  ⟨by rw [i.period]; exact i.ring.npos, by rw [i.period]; exact i.small, by rw [i.period]; exact i.ring.size,
   by rw [i.period]; exact i.ring.idx_lt, by rw [i.period]; exact i.ring.cnt_le⟩

/-- the triangular denominator `k (k + 1) / 2` is non-zero for `k ≥ 1` -/
theorem tri_ne_zero (k : Nat) (hk : 0 < k) : ((k : K) * ((k : K) + 1) / 2) ≠ 0 := by
  have h1 : (0 : K) < (k : K) := by exact_mod_cast hk
  have : (0 : K) < (k : K) * ((k : K) + 1) / 2 := by positivity
  exact ne_of_gt this

theorem step {n : Nat} {s : WeightedMovingAverage (X K)} {h : List K} (i : Inv n s h) (x : K) :
    ∃ s', s.next (X.fin x) = some (s', X.fin (wma (lastN n (h ++ [x])))) ∧ Inv n s' (h ++ [x]) := by
  have hn := i.ring.npos
  have hidx := i.ring.idx_lt
  have hsz := i.ring.size
  have hcur := i.ring.at_cursor
  have hcnt := i.ring.cnt_le
  have hceq := i.ring.cnt
  have hm : isizeMax < usizeMax := by decide
  have hsmall := i.small
  have hpush := i.ring.push (X.fin x)
  obtain ⟨p, ix, c, wt, sm, sf, d⟩ := s
  have hp : p = n := i.period
  subst hp
  simp only [List.length_map] at hidx hsz hcur hcnt hpush hceq
  have hsum : sm = X.fin (wsum (lastN p h)) := i.sum
  have hsf : sf = X.fin (lastN p h).sum := i.sum_flat
  have hwt : wt = X.fin ((min h.length p : Nat) : K) := i.weight
  have hix : ix < d.size := by omega
  have h2 : (2 : K) ≠ 0 := ne_of_gt (by positivity)
  by_cases hl : h.length < p
  · -- warming up
    have hc : c = h.length := by omega
    have hcp : c < p := by omega
    have hold : d[ix]? = some (X.fin (0 : K)) := by simpa [hl] using hcur
    have hw : lastN p h = h := lastN_of_le p h (by omega)
    have hw' : lastN p (h ++ [x]) = h ++ [x] := lastN_of_le p _ (by simp; omega)
    have hmin : min (h.length + 1) p = h.length + 1 := by omega
    have hden := tri_ne_zero (K := K) (h.length + 1) (by omega)
    refine ⟨{ period := p, index := if ix + 1 < p then ix + 1 else 0, count := c + 1,
              weight := X.fin ((c + 1 : Nat) : K),
              sum := X.fin (wsum (lastN p (h ++ [x]))), sum_flat := X.fin (lastN p (h ++ [x])).sum,
              deque := d.setIfInBounds ix (X.fin x) }, ?_, ⟨rfl, hsmall, ?_, ?_, rfl, rfl⟩⟩
    · rw [next_eq _ _ _ (inv_wf i) hold]
      rw [hw] at hsum hsf
      push_cast at hden
      by_cases c1 : ix + 1 < p <;>
        simp (disch := omega) [c1, hl, hsum, hsf, hw', wsum_append_one, wma, hc,
          X.div_fin _ _ h2, X.div_fin _ _ hden]
    · simpa [hcp] using hpush
    · simp [hc, hmin]
  · -- full window
    have hc : c = p := by omega
    have hcp : ¬ c < p := by omega
    have hge : p ≤ h.length := by omega
    have hold : d[ix]? = some (X.fin (h[h.length - p]?.getD 0)) := by
      have hlt : h.length - p < h.length := by omega
      simpa [hl, List.getElem?_map, List.getElem?_eq_getElem hlt] using hcur
    have hne : lastN p h ≠ [] := by
      intro e; have hlen := lastN_length p h; rw [e, List.length_nil] at hlen; omega
    have hlen : (lastN p h).length = p := by rw [lastN_length]; omega
    have hw' : lastN p (h ++ [x]) = (lastN p h).tail ++ [x] := lastN_append_one p h x hn hge
    have hlen' : (lastN p (h ++ [x])).length = p := by rw [lastN_length]; simp; omega
    have hmin : min h.length p = p := by omega
    have hmin' : min (h.length + 1) p = p := by omega
    have hden := tri_ne_zero (K := K) p hn
    -- the evicted value is the head of the window
    have hsum' : (lastN p (h ++ [x])).sum = (lastN p h).sum - h[h.length - p]?.getD 0 + x := by
      rw [hw']
      have hd : (lastN p h).head? = h[h.length - p]? := by simp [lastN]
      cases hq : lastN p h with
      | nil => exact absurd hq hne
      | cons a t =>
        rw [hq] at hd
        simp only [List.head?_cons] at hd
        rw [← hd]
        simp
    have hws' : wsum (lastN p (h ++ [x])) = wsum (lastN p h) - (lastN p h).sum + x * (p : K) := by
      rw [hw', wsum_tail_append_one _ _ hne, hlen]
    refine ⟨{ period := p, index := if ix + 1 < p then ix + 1 else 0, count := c,
              weight := X.fin ((p : Nat) : K),
              sum := X.fin (wsum (lastN p (h ++ [x]))), sum_flat := X.fin (lastN p (h ++ [x])).sum,
              deque := d.setIfInBounds ix (X.fin x) }, ?_, ⟨rfl, hsmall, ?_, ?_, rfl, rfl⟩⟩
    · rw [next_eq _ _ _ (inv_wf i) hold]
      rw [hmin] at hwt
      by_cases c1 : ix + 1 < p <;>
        simp (disch := omega) [c1, hc, hsum, hsf, hwt, hsum', hws', wma, hlen',
          X.div_fin _ _ h2, X.div_fin _ _ hden]
    · simpa [hcp] using hpush
    · simp [hmin']

/-- C01 for WMA at `X K`: every output is the linearly weighted mean (weights 1..k, newest
    heaviest) of exactly the last k = min(t, n) inputs -/
theorem stream (n : Nat) (hn : 0 < n) (h8 : n * 8 ≤ isizeMax) (xs : List K) :
    ∃ s', runOut next (fresh n : WeightedMovingAverage (X K)) (xs.map X.fin)
      = some (s', (prefixes xs).map (fun h => X.fin (wma (lastN n h)))) := by
  suffices H : ∀ (h : List K) (s : WeightedMovingAverage (X K)), Inv n s h → ∀ ys : List K,
      ∃ s', runOut next s (ys.map X.fin) = some (s', (prefixes ys).map (fun p => X.fin (wma (lastN n (h ++ p))))) ∧ Inv n s' (h ++ ys) by
    obtain ⟨s', h1, _⟩ := H [] _ (inv_fresh n hn h8) xs
    exact ⟨s', by simpa using h1⟩
  intro h s i ys
  induction ys generalizing h s with
  | nil => exact ⟨s, by simp [runOut, prefixes], by simpa using i⟩
  | cons y ys ih =>
    obtain ⟨s1, e1, i1⟩ := step i y
    obtain ⟨s2, e2, i2⟩ := ih (h ++ [y]) s1 i1
    refine ⟨s2, ?_, by simpa using i2⟩
    rw [List.map_cons, runOut_cons next s (X.fin y) _ s1 _ e1, e2]
    simp [prefixes, List.range_succ_eq_map, List.map_map, Function.comp_def]

end TaRs.Gen.WeightedMovingAverage
