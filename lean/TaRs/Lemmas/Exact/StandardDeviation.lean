/-
  L2 (exact arithmetic, `X K`): the generated StandardDeviation (sliding Welford update with a
  clamp) outputs `sqrt` of the POPULATION VARIANCE of exactly the last min(t, n) inputs, for
  every period, every finite stream, every prefix; its running mean is the window mean and its
  `m2` accumulator is the (non-negative) sum of squared deviations, so the clamp never fires.
-/
import TaRs.Lemmas.StandardDeviation
import TaRs.Lemmas.Ring
import TaRs.Lemmas.XLemmas
import TaRs.Lemmas.Machine
import TaRs.Spec.Window
import Mathlib.Tactic.NormNum
set_option linter.unusedSectionVars false
namespace TaRs.Gen.StandardDeviation
open TaRs TaRs.Rs TaRs.Spec

variable {K : Type} [Field K] [LinearOrder K] [IsStrictOrderedRing K] [HasSqrt K]

/-! ### Pure algebra: sums of squared deviations -/

/-- Σ (xᵢ − Spec.mean w)² : the quantity the `m2` field tracks (`= |w| · var w`) -/
def ssq (w : List K) : K := (w.map (fun x => (x - Spec.mean w) ^ 2)).sum

theorem var_eq_ssq (w : List K) : var w = ssq w / (w.length : K) := rfl

theorem mean_nil : Spec.mean ([] : List K) = 0 := by simp [Spec.mean]

theorem ssq_nil : ssq ([] : List K) = 0 := by simp [ssq]

theorem sum_sq_sub_nonneg (w : List K) (μ : K) : 0 ≤ (w.map (fun x => (x - μ) ^ 2)).sum := by
  induction w with
  | nil => simp
  | cons a t ih =>
    simp only [List.map_cons, List.sum_cons]
    exact add_nonneg (sq_nonneg _) ih

theorem ssq_nonneg (w : List K) : 0 ≤ ssq w := sum_sq_sub_nonneg w (Spec.mean w)

/-- the population variance is non-negative (a sum of squares over a count) -/
theorem var_nonneg (w : List K) : 0 ≤ var w :=
  div_nonneg (ssq_nonneg w) (Nat.cast_nonneg _)

/-- Σ (xᵢ − μ)² = Σ xᵢ² − 2μ Σ xᵢ + kμ², for ANY centre μ -/
theorem sum_sq_sub (w : List K) (μ : K) :
    (w.map (fun x => (x - μ) ^ 2)).sum
      = (w.map (fun x => x ^ 2)).sum - 2 * μ * w.sum + (w.length : K) * μ ^ 2 := by
  induction w with
  | nil => simp
  | cons a t ih =>
    simp only [List.map_cons, List.sum_cons, List.length_cons, ih]
    push_cast
    ring

theorem ssq_eq (w : List K) :
    ssq w = (w.map (fun x => x ^ 2)).sum - 2 * Spec.mean w * w.sum + (w.length : K) * Spec.mean w ^ 2 :=
  sum_sq_sub w (Spec.mean w)

/-- scalar identity behind the growing-phase mean update -/
theorem grow_mean_aux (S k x : K) (hk : 0 < k) :
    (S + x) / (k + 1) = S / k + (x - S / k) / (k + 1) := by
  have h0 : k ≠ 0 := ne_of_gt hk
  have h1 : k + 1 ≠ 0 := by positivity
  field_simp
  ring

/-- scalar identity behind the growing-phase `m2` update -/
theorem grow_ssq_aux (S Q k x : K) (hk : 0 < k) :
    (Q + x ^ 2) - 2 * ((S + x) / (k + 1)) * (S + x) + (k + 1) * ((S + x) / (k + 1)) ^ 2
      = (Q - 2 * (S / k) * S + k * (S / k) ^ 2) + (x - S / k) * (x - (S + x) / (k + 1)) := by
  have h0 : k ≠ 0 := ne_of_gt hk
  have h1 : k + 1 ≠ 0 := by positivity
  field_simp
  ring

/-- scalar identity behind the sliding-phase `m2` update -/
theorem slide_ssq_aux (T Q k x o : K) (hk : 0 < k) :
    (Q + x ^ 2) - 2 * ((T + x) / k) * (T + x) + k * ((T + x) / k) ^ 2
      = ((o ^ 2 + Q) - 2 * ((o + T) / k) * (o + T) + k * ((o + T) / k) ^ 2)
        + (x - o) * (x - (T + x) / k + o - (o + T) / k) := by
  have h0 : k ≠ 0 := ne_of_gt hk
  field_simp
  ring

/-- (a) appending `x` to a window: Welford's mean update -/
theorem mean_append (w : List K) (x : K) :
    Spec.mean (w ++ [x]) = Spec.mean w + (x - Spec.mean w) / ((w.length : K) + 1) := by
  by_cases hw : w = []
  · subst hw; simp [Spec.mean]
  · have hk : (0 : K) < (w.length : K) := by
      exact_mod_cast List.length_pos_iff.mpr hw
    have := grow_mean_aux w.sum (w.length : K) x hk
    simp only [Spec.mean, List.sum_append, List.sum_singleton, List.length_append,
      List.length_singleton]
    push_cast
    exact this

/-- (a) appending `x` to a window: Welford's `m2` update -/
theorem ssq_append (w : List K) (x : K) :
    ssq (w ++ [x]) = ssq w + (x - Spec.mean w) * (x - Spec.mean (w ++ [x])) := by
  by_cases hw : w = []
  · subst hw; simp [ssq, Spec.mean]
  · have hk : (0 : K) < (w.length : K) := by
      exact_mod_cast List.length_pos_iff.mpr hw
    have := grow_ssq_aux w.sum ((w.map (fun x => x ^ 2)).sum) (w.length : K) x hk
    rw [ssq_eq, ssq_eq]
    simp only [Spec.mean, List.sum_append, List.sum_singleton, List.length_append,
      List.length_singleton, List.map_append, List.map_cons, List.map_nil]
    push_cast
    exact this

/-- (b) replacing the oldest element `o` of a full window by `x`: mean update -/
theorem mean_slide (o : K) (t : List K) (x : K) :
    Spec.mean (t ++ [x]) = Spec.mean (o :: t) + (x - o) / (((o :: t).length : Nat) : K) := by
  simp only [Spec.mean, List.sum_append, List.sum_cons, List.sum_nil, List.length_append,
    List.length_cons, List.length_nil, add_zero]
  ring

/-- (b) replacing the oldest element `o` of a full window by `x`: `m2` update -/
theorem ssq_slide (o : K) (t : List K) (x : K) :
    ssq (t ++ [x]) = ssq (o :: t) + (x - o) * (x - Spec.mean (t ++ [x]) + o - Spec.mean (o :: t)) := by
  have hk : (0 : K) < ((t.length : K) + 1) := by positivity
  have := slide_ssq_aux t.sum ((t.map (fun x => x ^ 2)).sum) ((t.length : K) + 1) x o hk
  rw [ssq_eq, ssq_eq]
  simpa [Spec.mean, List.sum_append] using this

/-! ### The window under one more input -/

theorem lastN_grow (n : Nat) (h : List K) (x : K) (hl : h.length < n) :
    lastN n h = h ∧ lastN n (h ++ [x]) = h ++ [x] :=
  ⟨lastN_of_le n h (by omega), lastN_of_le n (h ++ [x]) (by simp; omega)⟩

/-- a full window is `o :: t` with `o` the value `n` steps back; the next window is `t ++ [x]` -/
theorem lastN_slide (n : Nat) (hn : 0 < n) (h : List K) (x : K) (hl : n ≤ h.length) :
    ∃ o t, lastN n h = o :: t ∧ h[h.length - n]? = some o ∧ lastN n (h ++ [x]) = t ++ [x]
      ∧ (o :: t).length = n := by
  have hlen := lastN_length n h
  have hd : (lastN n h).head? = h[h.length - n]? := by simp [lastN]
  have hpush := lastN_append_one n h x hn hl
  cases hw : lastN n h with
  | nil => rw [hw, List.length_nil] at hlen; omega
  | cons o t =>
    rw [hw] at hd hpush hlen
    refine ⟨o, t, rfl, ?_, by simpa using hpush, by rw [hlen]; omega⟩
    rw [← hd]; rfl

/-! ### The invariant -/

/-- abstraction relation between a concrete state and the history of finite inputs:
    `m` is the window mean, `m2` the window's sum of squared deviations (`= k · var`) -/
structure Inv (n : Nat) (s : StandardDeviation (X K)) (h : List K) : Prop where
  period : s.period = n
  small : n * 8 ≤ isizeMax
  ring : RingInv (X.fin (0 : K)) s.deque n s.index s.count (h.map X.fin)
  m : s.m = X.fin (Spec.mean (lastN n h))
  m2 : s.m2 = X.fin ((lastN n h).map (fun x => (x - Spec.mean (lastN n h)) ^ 2)).sum

theorem inv_fresh (n : Nat) (hn : 0 < n) (h8 : n * 8 ≤ isizeMax) :
    Inv n (fresh n : StandardDeviation (X K)) [] := by
  refine ⟨rfl, h8, ?_, ?_, ?_⟩
  · simpa [fresh, X.lit_zero] using RingInv.fresh (X.fin (0 : K)) n hn
  · simp [fresh, lastN, Spec.mean]
  · simp [fresh, lastN]

theorem inv_wf {n : Nat} {s : StandardDeviation (X K)} {h : List K} (i : Inv n s h) : WF s :=
  ⟨by rw [i.period]; exact i.ring.npos, by rw [i.period]; exact i.small, by rw [i.period]; exact i.ring.size,
   by rw [i.period]; exact i.ring.idx_lt, by rw [i.period]; exact i.ring.cnt_le⟩

theorem step {n : Nat} {s : StandardDeviation (X K)} {h : List K} (i : Inv n s h) (x : K) :
    ∃ s', s.next (X.fin x) = some (s', Scalar.sqrt (X.fin (var (lastN n (h ++ [x]))))) ∧ Inv n s' (h ++ [x]) := by
  have hn := i.ring.npos
  have hidx := i.ring.idx_lt
  have hsz := i.ring.size
  have hcur := i.ring.at_cursor
  have hcnt := i.ring.cnt
  have hm : isizeMax < usizeMax := by decide
  have hsmall := i.small
  have hpush := i.ring.push (X.fin x)
  obtain ⟨p, ix, c, sm, sq, d⟩ := s
  have hp : p = n := i.period
  subst hp
  simp only [List.length_map] at hidx hsz hcur hcnt hpush
  have hsm : sm = X.fin (Spec.mean (lastN p h)) := i.m
  have hsq : sq = X.fin (ssq (lastN p h)) := i.m2
  have hix : ix < d.size := by omega
  have hnn : ¬ ssq (lastN p (h ++ [x])) < 0 := not_lt.mpr (ssq_nonneg _)
  refine ⟨{ period := p, index := if ix + 1 < p then ix + 1 else 0, count := if c < p then c + 1 else c,
            m := X.fin (Spec.mean (lastN p (h ++ [x]))), m2 := X.fin (ssq (lastN p (h ++ [x]))),
            deque := d.setIfInBounds ix (X.fin x) }, ?_, ⟨rfl, hsmall, ?_, rfl, rfl⟩⟩
  · by_cases hl : h.length < p
    · -- growing phase
      obtain ⟨w0, w1⟩ := lastN_grow p h x hl
      have hc : c = h.length := by omega
      subst hc
      have hold : d[ix]? = some (X.fin (0 : K)) := by simpa [hl] using hcur
      have hk1 : ((h.length : K) + 1) ≠ 0 := by positivity
      have e1 := mean_append h x
      have e2 := ssq_append h x
      rw [w0] at hsm hsq
      rw [w1] at hnn ⊢
      rw [next_eq _ _ _ (inv_wf i) hold]
      by_cases c1 : ix + 1 < p <;>
        simp (disch := omega) [nextM, nextM2, nextM2Raw, c1, hl, hsm, hsq, X.div_fin _ _ hk1,
          ← e1, ← e2, hnn, var_eq_ssq]
    · -- sliding phase
      have hge : p ≤ h.length := by omega
      obtain ⟨o, t, w0, wo, w1, wl⟩ := lastN_slide p hn h x hge
      have hc : c = p := by omega
      subst hc
      have hold : d[ix]? = some (X.fin o) := by
        have e := hcur
        rw [if_neg hl, List.getElem?_map, wo] at e
        exact e
      have hk : ((c : K)) ≠ 0 := by
        have : (0 : K) < (c : K) := by exact_mod_cast hn
        exact ne_of_gt this
      have e1 := mean_slide o t x
      have e2 := ssq_slide o t x
      rw [wl] at e1
      rw [w0] at hsm hsq
      rw [w1] at hnn ⊢
      have hlen : (t.length : K) + 1 = (c : K) := by
        have : t.length + 1 = c := by simpa using wl
        exact_mod_cast this
      rw [next_eq _ _ _ (inv_wf i) hold]
      by_cases c1 : ix + 1 < c <;>
        simp (disch := omega) [nextM, nextM2, nextM2Raw, c1, hsm, hsq, X.div_fin _ _ hk,
          ← e1, ← e2, hnn, var_eq_ssq, hlen]
  · simpa using hpush

/-- the same step with the square root evaluated on the exact field (`0 ≤ var`, so `X.sqrt`
    never produces NaN) -/
theorem step_sqrtK {n : Nat} {s : StandardDeviation (X K)} {h : List K} (i : Inv n s h) (x : K) :
    ∃ s', s.next (X.fin x) = some (s', X.fin (HasSqrt.sqrtK (var (lastN n (h ++ [x]))))) ∧ Inv n s' (h ++ [x]) := by
  obtain ⟨s', e, i'⟩ := step i x
  exact ⟨s', by rw [e, X.sqrt_fin _ (var_nonneg _)], i'⟩

/-- in every `Inv`-state the accumulator `m2` is a finite NON-NEGATIVE value (C09) -/
theorem Inv.m2_nonneg {n : Nat} {s : StandardDeviation (X K)} {h : List K} (i : Inv n s h) :
    ∃ q : K, s.m2 = X.fin q ∧ 0 ≤ q :=
  ⟨_, i.m2, sum_sq_sub_nonneg _ _⟩

/-- `m2 = k · var` over the current window -/
theorem Inv.m2_eq_var {n : Nat} {s : StandardDeviation (X K)} {h : List K} (i : Inv n s h) :
    s.m2 = X.fin (((lastN n h).length : K) * var (lastN n h)) := by
  rw [i.m2]
  congr 1
  by_cases hw : lastN n h = []
  · rw [hw]; simp
  · have hk : ((lastN n h).length : K) ≠ 0 := by
      exact_mod_cast (List.length_pos_iff.mpr hw).ne'
    unfold var
    field_simp

/-- after every step the accumulator is finite and non-negative, and the output is the square
    root of a non-negative finite value (C09) -/
theorem step_m2_nonneg {n : Nat} {s : StandardDeviation (X K)} {h : List K} (i : Inv n s h) (x : K) :
    ∃ s' v q, s.next (X.fin x) = some (s', Scalar.sqrt (X.fin v)) ∧ 0 ≤ v ∧ s'.m2 = X.fin q ∧ 0 ≤ q := by
  obtain ⟨s', e, i'⟩ := step i x
  obtain ⟨q, hq, hq0⟩ := i'.m2_nonneg
  exact ⟨s', _, q, e, var_nonneg _, hq, hq0⟩

/-- `stream` together with the invariant of the final state -/
theorem stream_inv (n : Nat) (hn : 0 < n) (h8 : n * 8 ≤ isizeMax) (xs : List K) :
    ∃ s', runOut next (fresh n : StandardDeviation (X K)) (xs.map X.fin)
      = some (s', (prefixes xs).map (fun h => Scalar.sqrt (X.fin (var (lastN n h))))) ∧ Inv n s' xs := by
  suffices H : ∀ (h : List K) (s : StandardDeviation (X K)), Inv n s h → ∀ ys : List K,
      ∃ s', runOut next s (ys.map X.fin)
        = some (s', (prefixes ys).map (fun p => Scalar.sqrt (X.fin (var (lastN n (h ++ p)))))) ∧ Inv n s' (h ++ ys) by
    obtain ⟨s', h1, h2⟩ := H [] _ (inv_fresh n hn h8) xs
    exact ⟨s', by simpa using h1, by simpa using h2⟩
  intro h s i ys
  induction ys generalizing h s with
  | nil => exact ⟨s, by simp [runOut, prefixes], by simpa using i⟩
  | cons y ys ih =>
    obtain ⟨s1, e1, i1⟩ := step i y
    obtain ⟨s2, e2, i2⟩ := ih (h ++ [y]) s1 i1
    refine ⟨s2, ?_, by simpa using i2⟩
    rw [List.map_cons, runOut_cons next s (X.fin y) _ s1 _ e1, e2]
    simp [prefixes, List.range_succ_eq_map, List.map_map, Function.comp_def]

/-- C01/C02 for SD at `X K`: every output is `sqrt` of the population variance of exactly the
    last min(t, n) inputs -/
theorem stream (n : Nat) (hn : 0 < n) (h8 : n * 8 ≤ isizeMax) (xs : List K) :
    ∃ s', runOut next (fresh n : StandardDeviation (X K)) (xs.map X.fin)
      = some (s', (prefixes xs).map (fun h => Scalar.sqrt (X.fin (var (lastN n h))))) := by
  obtain ⟨s', e, _⟩ := stream_inv n hn h8 xs
  exact ⟨s', e⟩

/-- `stream` with the square roots evaluated on the exact field -/
theorem stream_sqrtK (n : Nat) (hn : 0 < n) (h8 : n * 8 ≤ isizeMax) (xs : List K) :
    ∃ s', runOut next (fresh n : StandardDeviation (X K)) (xs.map X.fin)
      = some (s', (prefixes xs).map (fun h => X.fin (HasSqrt.sqrtK (var (lastN n h))))) := by
  obtain ⟨s', e⟩ := stream n hn h8 xs
  refine ⟨s', ?_⟩
  rw [e]
  congr 3
  funext h
  exact X.sqrt_fin _ (var_nonneg _)

/-- after any finite stream the accumulator `m2` is finite and non-negative (C09) -/
theorem stream_m2_nonneg (n : Nat) (hn : 0 < n) (h8 : n * 8 ≤ isizeMax) (xs : List K) :
    ∃ s' ys q, runOut next (fresh n : StandardDeviation (X K)) (xs.map X.fin) = some (s', ys)
      ∧ s'.m2 = X.fin q ∧ 0 ≤ q := by
  obtain ⟨s', e, i⟩ := stream_inv n hn h8 xs
  obtain ⟨q, hq, hq0⟩ := i.m2_nonneg
  exact ⟨s', _, q, e, hq, hq0⟩

end TaRs.Gen.StandardDeviation
