/-
  L2 (exact arithmetic, `X K`): the generated MoneyFlowIndex outputs 50 on the first bar and,
  on every later bar, `100 · PMF / (PMF + NMF)` (50 when `PMF + NMF = 0`) where PMF / NMF are
  the sums of the positive flows / of the magnitudes of the negative flows among exactly the
  last min(t − 1, n) SIGNED flows (one per typical-price move; `tp · volume` when the typical
  price rose, `−tp · volume` when it fell, `0` otherwise).  For every period, every stream of
  bars with finite fields and NON-NEGATIVE raw flow `tp · volume` (that hypothesis is what makes
  the code's `is_sign_positive` test on the stored value recover the direction of the move).

  Layout.  The cursor is advanced BEFORE it is used and the first bar advances it without
  writing, so flow number `f` (0-based) lands in slot `(f + 2) % n`.  `Ring.lean` is reused
  as is by padding the history with two phantom zeros: the deque is a `RingInv` ring for the
  history `0, 0, fl` whose cursor is the NEXT slot `(index + 1) % n` (`Inv.ring`).  The
  counter saturates one bar earlier than that ring fills, so the very first pop (bar n + 1)
  reads a slot that was never written: it removes `+0`, a no-op (`evK_full`).

  `Inv` describes states that have seen at least one bar; `step_first` establishes it from
  `fresh n` (it plays the role of `inv_fresh`).
-/
import TaRs.Lemmas.MoneyFlowIndex
import TaRs.Lemmas.Ring
import TaRs.Lemmas.XLemmas
import TaRs.Lemmas.Machine
import TaRs.Spec.Window
import TaRs.Lemmas.Exact.CommodityChannelIndex
import Mathlib.Tactic.NormNum
set_option linter.unusedSectionVars false
set_option linter.unusedSimpArgs false
namespace TaRs.Gen.MoneyFlowIndex
open TaRs TaRs.Rs TaRs.Spec
open TaRs.Gen.CommodityChannelIndex (tpK tpBar finBar tp tp_fin)

variable {K : Type} [Field K] [LinearOrder K] [IsStrictOrderedRing K] [HasSqrt K]

/-- signed money flow of one move -/
def flowK (p t v : K) : K := if p < t then t * v else if t < p then -(t * v) else 0

/-- the output formula -/
def mfiOut (P N : K) : X K := if P + N = 0 then X.fin 50 else X.fin (P / (P + N) * 100)

theorem lit_50 : (Scalar.lit 50 0 : X K) = X.fin 50 := by rw [X.lit_fin]; norm_num
theorem lit_100 : (Scalar.lit 100 0 : X K) = X.fin 100 := by rw [X.lit_fin]; norm_num

theorem out_eq (P N : K) :
    (if Scalar.beq (Scalar.add (X.fin P) (X.fin N)) (Scalar.lit 0 0) = true then (Scalar.lit 50 0 : X K)
     else Scalar.mul (Scalar.div (X.fin P) (Scalar.add (X.fin P) (X.fin N))) (Scalar.lit 100 0))
      = mfiOut P N := by
  rw [lit_50, lit_100, X.lit_zero]
  unfold mfiOut
  by_cases hz : P + N = 0
  · simp [hz]
  · simp only [X.add_fin, X.beq_fin, hz, decide_false, Bool.false_eq_true, if_false]
    rw [X.div_fin _ _ hz]
    simp

/-- the same, in `simp` normal form -/
theorem out_eq' (P N : K) :
    (if P + N = 0 then (X.fin 50 : X K)
     else Scalar.mul (Scalar.div (X.fin P) (X.fin (P + N))) (X.fin 100)) = mfiOut P N := by
  rw [← out_eq, lit_50, lit_100, X.lit_zero]
  simp

/-- closed form of one NON-FIRST call on a state with finite fields (code level, no history);
    derived from the L0 normal form `next_eq`, the generated body is not looked at -/
theorem nextBar_fin (n ix ct : Nat) (p P N : K) (d : Array (X K)) (o h l c v ev : K)
    (hn : 0 < n) (h8 : n * 8 ≤ isizeMax) (hix : ix < n) (hct1 : 1 ≤ ct) (hctn : ct ≤ n)
    (hsz : d.size = n)
    (hev : d[if ix + 1 < n then ix + 1 else 0]? = some (X.fin ev)) :
    nextBar (⟨n, ix, ct, X.fin p, X.fin P, X.fin N, d⟩ : MoneyFlowIndex (X K))
        ⟨X.fin o, X.fin h, X.fin l, X.fin c, X.fin v⟩
      = some (⟨n, if ix + 1 < n then ix + 1 else 0, if ct < n then ct + 1 else ct, X.fin (tpK h l c),
               X.fin ((if ct < n then P else if 0 ≤ ev then P - ev else P)
                        + (if p < tpK h l c then tpK h l c * v else 0)),
               X.fin ((if ct < n then N else if 0 ≤ ev then N else N + ev)
                        + (if p < tpK h l c then 0 else if tpK h l c < p then tpK h l c * v else 0)),
               d.setIfInBounds (if ix + 1 < n then ix + 1 else 0) (X.fin (flowK p (tpK h l c) v))⟩,
              mfiOut ((if ct < n then P else if 0 ≤ ev then P - ev else P)
                        + (if p < tpK h l c then tpK h l c * v else 0))
                     ((if ct < n then N else if 0 ≤ ev then N else N + ev)
                        + (if p < tpK h l c then 0 else if tpK h l c < p then tpK h l c * v else 0))) := by
  have htp := tp_fin o h l c v
  unfold tp at htp
  simp only at htp
  have wf : WF (⟨n, ix, ct, X.fin p, X.fin P, X.fin N, d⟩ : MoneyFlowIndex (X K)) :=
    ⟨hn, h8, hsz, hix, hctn⟩
  rw [next_eq _ _ (X.fin ev) wf hct1 hev]
  unfold flowK
  simp only [cursor, typical, popPos, popNeg, pushPos, pushNeg, stored, out, htp, X.lt_fin,
    X.isSignPositive_fin, decide_eq_true_eq]
  generalize tpK h l c = t
  by_cases c2 : ct < n
  · by_cases c4 : p < t <;> by_cases c5 : t < p <;>
      simp [c2, c4, c5, out_eq']
  · by_cases c0 : 0 ≤ ev <;> by_cases c4 : p < t <;> by_cases c5 : t < p <;>
      simp [c2, c0, c4, c5, out_eq']

/-! ### specification: signed flows, positive / negative flow sums -/

/-- positive part of a signed flow -/
def pp (x : K) : K := max x 0
/-- magnitude of the negative part of a signed flow -/
def np (x : K) : K := max (-x) 0

/-- PMF of a window of signed flows: the sum of the positive ones -/
def posFlow (w : List K) : K := (w.map pp).sum
/-- NMF of a window of signed flows: the sum of the magnitudes of the negative ones -/
def negFlow (w : List K) : K := (w.map np).sum

@[simp] theorem pp_zero : pp (0 : K) = 0 := by simp [pp]
@[simp] theorem np_zero : np (0 : K) = 0 := by simp [np]
theorem pp_nonneg (x : K) : 0 ≤ pp x := le_max_right _ _
theorem np_nonneg (x : K) : 0 ≤ np x := le_max_right _ _

theorem posFlow_nonneg (w : List K) : 0 ≤ posFlow w := by
  unfold posFlow
  induction w with
  | nil => simp
  | cons a t ih => simp only [List.map_cons, List.sum_cons]; exact add_nonneg (pp_nonneg a) ih

theorem negFlow_nonneg (w : List K) : 0 ≤ negFlow w := by
  unfold negFlow
  induction w with
  | nil => simp
  | cons a t ih => simp only [List.map_cons, List.sum_cons]; exact add_nonneg (np_nonneg a) ih

/-- `posFlow` is literally "the sum of the positive elements" -/
theorem posFlow_eq_filter (w : List K) : posFlow w = (w.filter (fun x => decide (0 < x))).sum := by
  unfold posFlow
  induction w with
  | nil => simp
  | cons a t ih =>
    by_cases ha : 0 < a
    · simp [ha, ih, pp, max_eq_left (le_of_lt ha)]
    · simp [ha, ih, pp, max_eq_right (not_lt.mp ha)]

/-- `negFlow` is literally "the sum of the magnitudes of the negative elements" -/
theorem negFlow_eq_filter (w : List K) :
    negFlow w = ((w.filter (fun x => decide (x < 0))).map (fun x => -x)).sum := by
  unfold negFlow
  induction w with
  | nil => simp
  | cons a t ih =>
    by_cases ha : a < 0
    · have : 0 ≤ -a := by linarith
      simp [ha, ih, np, max_eq_left this]
    · have : -a ≤ 0 := by linarith [not_lt.mp ha]
      simp [ha, ih, np, max_eq_right this]

theorem pp_flow (p t v : K) (hv : 0 ≤ t * v) : pp (flowK p t v) = if p < t then t * v else 0 := by
  unfold flowK pp
  by_cases c4 : p < t
  · simp [c4, hv]
  · by_cases c5 : t < p <;> simp [c4, c5, hv]

theorem np_flow (p t v : K) (hv : 0 ≤ t * v) :
    np (flowK p t v) = if p < t then 0 else if t < p then t * v else 0 := by
  unfold flowK np
  by_cases c4 : p < t
  · simp [c4, hv]
  · by_cases c5 : t < p <;> simp [c4, c5, hv]

/-- the pop `if popped.is_sign_positive() { pos -= popped }` subtracts the positive part -/
theorem pop_pos (P e : K) : (if 0 ≤ e then P - e else P) = P - pp e := by
  unfold pp
  by_cases c : 0 ≤ e
  · simp [c]
  · simp [c, max_eq_right (le_of_lt (not_le.mp c))]

/-- the pop `else { neg += popped }` subtracts the magnitude of a (negated) negative flow -/
theorem pop_neg (N e : K) : (if 0 ≤ e then N else N + e) = N - np e := by
  unfold np
  by_cases c : 0 ≤ e
  · simp [c]
  · have : 0 ≤ -e := by linarith [not_le.mp c]
    simp [c, max_eq_left this]

/-- sliding a window sum of `f`-images (`f 0 = 0`): subtract the evicted image, add the new one -/
theorem flow_push (f : K → K) (hf : f 0 = 0) (n : Nat) (hn : 0 < n) (fl : List K) (x : K) :
    ((lastN n (fl ++ [x])).map f).sum
      = ((lastN n fl).map f).sum - f (if fl.length < n then 0 else fl[fl.length - n]?.getD 0) + f x := by
  rw [← MeanAbsoluteDeviation.lastN_map, ← MeanAbsoluteDeviation.lastN_map, List.map_append, List.map_singleton,
    SimpleMovingAverage.lastN_sum_push n hn (fl.map f) (f x), List.length_map]
  by_cases hl : fl.length < n
  · simp [hl, hf]
  · simp only [hl, if_false, List.getElem?_map]
    cases fl[fl.length - n]? <;> simp [hf]

/-! ### the ring: slot layout shifted by the pre-incremented cursor -/

/-- the value under the (pre-incremented) cursor: the ring behaves like a `Ring.lean` ring whose
    history is the flow history behind TWO phantom zero pushes (the first bar advances the
    cursor without writing; the cursor is advanced before use) -/
def evK (n : Nat) (fl : List K) : K :=
  if fl.length + 2 < n then 0 else ((0 : K) :: 0 :: fl)[fl.length + 2 - n]?.getD 0

theorem ring_ev {n j c' : Nat} {d : Array (X K)} {fl : List K}
    (hr : RingInv (X.fin (0 : K)) d n j c' (((0 : K) :: 0 :: fl).map X.fin)) :
    d[j]? = some (X.fin (evK n fl)) := by
  have hn := hr.npos
  rw [hr.at_cursor]
  unfold evK
  simp only [List.length_map, List.length_cons]
  by_cases hl : fl.length + 1 + 1 < n
  · simp [hl]
  · have hl' : ¬ fl.length + 2 < n := hl
    simp only [hl, if_false, List.getElem?_map]
    have hlt : fl.length + 1 + 1 - n < ((0 : K) :: 0 :: fl).length := by simp; omega
    rw [show fl.length + 2 - n = fl.length + 1 + 1 - n from rfl, List.getElem?_eq_getElem hlt]
    simp

/-- once the counter is saturated the value under the cursor is the flow that leaves the window
    (`0` the first time: the slot was never written) -/
theorem evK_full (n : Nat) (fl : List K) (hfull : n ≤ fl.length + 1) :
    evK n fl = if fl.length < n then 0 else fl[fl.length - n]?.getD 0 := by
  unfold evK
  have h1 : ¬ fl.length + 2 < n := by omega
  simp only [h1, if_false]
  by_cases hl : fl.length < n
  · have : fl.length + 2 - n = 1 := by omega
    simp [hl, this]
  · have : fl.length + 2 - n = (fl.length - n) + 1 + 1 := by omega
    simp [hl, this]

theorem pos_step (n : Nat) (hn : 0 < n) (fl : List K) (p t v : K) (hv : 0 ≤ t * v) (ct : Nat)
    (hct : ct = min (fl.length + 1) n) :
    (if ct < n then posFlow (lastN n fl)
      else if 0 ≤ evK n fl then posFlow (lastN n fl) - evK n fl else posFlow (lastN n fl))
        + (if p < t then t * v else 0) = posFlow (lastN n (fl ++ [flowK p t v])) := by
  unfold posFlow
  rw [flow_push pp pp_zero n hn, pp_flow p t v hv, ← posFlow]
  by_cases c2 : ct < n
  · have hl : fl.length < n := by omega
    simp [c2, hl]
  · rw [if_neg c2, pop_pos, evK_full n fl (by omega)]

theorem neg_step (n : Nat) (hn : 0 < n) (fl : List K) (p t v : K) (hv : 0 ≤ t * v) (ct : Nat)
    (hct : ct = min (fl.length + 1) n) :
    (if ct < n then negFlow (lastN n fl)
      else if 0 ≤ evK n fl then negFlow (lastN n fl) else negFlow (lastN n fl) + evK n fl)
        + (if p < t then 0 else if t < p then t * v else 0) = negFlow (lastN n (fl ++ [flowK p t v])) := by
  unfold negFlow
  rw [flow_push np np_zero n hn, np_flow p t v hv, ← negFlow]
  by_cases c2 : ct < n
  · have hl : fl.length < n := by omega
    simp [c2, hl]
  · rw [if_neg c2, pop_neg, evK_full n fl (by omega)]

/-! ### the invariant -/

/-- abstraction relation between a concrete state that has seen at least one bar, the previous
    typical price `p` and the history `fl` of SIGNED flows (one per bar after the first) -/
structure Inv (n : Nat) (s : MoneyFlowIndex (X K)) (p : K) (fl : List K) : Prop where
  period : s.period = n
  small : n * 8 ≤ isizeMax
  idx_lt : s.index < n
  cnt : s.count = min (fl.length + 1) n
  prev : s.previous_typical_price = X.fin p
  pos : s.total_positive_money_flow = X.fin (posFlow (lastN n fl))
  neg : s.total_negative_money_flow = X.fin (negFlow (lastN n fl))
  /-- the NEXT slot to be used (`index + 1`, wrapped) is the cursor of a `Ring.lean` ring whose
      history is `0, 0, fl` -/
  ring : ∃ c', RingInv (X.fin (0 : K)) s.deque n (if s.index + 1 < n then s.index + 1 else 0) c'
            (((0 : K) :: 0 :: fl).map X.fin)

theorem inv_wf {n : Nat} {s : MoneyFlowIndex (X K)} {p : K} {fl : List K} (i : Inv n s p fl) : WF s := by
  obtain ⟨c', hr⟩ := i.ring
  exact ⟨by rw [i.period]; exact hr.npos, by rw [i.period]; exact i.small, by rw [i.period]; exact hr.size,
    by rw [i.period]; exact i.idx_lt, by rw [i.period, i.cnt]; omega⟩

theorem setIfInBounds_replicate_self {α : Type} (n i : Nat) (a : α) :
    (Array.replicate n a).setIfInBounds i a = Array.replicate n a := by
  apply Array.ext
  · simp
  · intro k h1 h2
    simp

/-- the FIRST bar: output 50, ring and totals untouched, typical price remembered -/
theorem step_first (n : Nat) (hn : 0 < n) (h8 : n * 8 ≤ isizeMax) (o h l c v : K) :
    ∃ s', (fresh n : MoneyFlowIndex (X K)).nextBar ⟨X.fin o, X.fin h, X.fin l, X.fin c, X.fin v⟩
        = some (s', X.fin 50) ∧ Inv n s' (tpK h l c) [] := by
  have htp := tp_fin o h l c v
  unfold tp at htp
  simp only at htp
  have hr0 := ((RingInv.fresh (X.fin (0 : K)) n hn).push (X.fin 0)).push (X.fin 0)
  rw [setIfInBounds_replicate_self, setIfInBounds_replicate_self] at hr0
  refine ⟨{ period := n, index := if 0 + 1 < n then 0 + 1 else 0, count := 1,
            previous_typical_price := X.fin (tpK h l c), total_positive_money_flow := X.fin 0,
            total_negative_money_flow := X.fin 0, deque := Array.replicate n (X.fin 0) }, ?_, ?_⟩
  · rw [next_eq_first _ _ (fresh_wf n hn h8) rfl]
    simp only [typical, htp]
    simp [fresh, cursor, lit_50, X.lit_zero]
  · refine ⟨rfl, h8, by dsimp only; split <;> omega, by simp; omega, rfl, by simp [posFlow, lastN],
      by simp [negFlow, lastN], ⟨_, by simpa using hr0⟩⟩

/-- every later bar (finite fields, non-negative raw flow `tp · volume`): the output is
    `100 · PMF / (PMF + NMF)` over the last `n` signed flows including the new one, 50 when
    `PMF + NMF = 0` -/
theorem step {n : Nat} {s : MoneyFlowIndex (X K)} {p : K} {fl : List K} (i : Inv n s p fl)
    (o h l c v : K) (hv : 0 ≤ tpK h l c * v) :
    ∃ s', s.nextBar ⟨X.fin o, X.fin h, X.fin l, X.fin c, X.fin v⟩
        = some (s',
            if posFlow (lastN n (fl ++ [flowK p (tpK h l c) v])) + negFlow (lastN n (fl ++ [flowK p (tpK h l c) v])) = 0
            then X.fin 50
            else X.fin (posFlow (lastN n (fl ++ [flowK p (tpK h l c) v]))
                          / (posFlow (lastN n (fl ++ [flowK p (tpK h l c) v]))
                              + negFlow (lastN n (fl ++ [flowK p (tpK h l c) v]))) * 100))
      ∧ Inv n s' (tpK h l c) (fl ++ [flowK p (tpK h l c) v]) := by
  obtain ⟨c', hr⟩ := i.ring
  have hn := hr.npos
  have hsz := hr.size
  have hj := hr.idx_lt
  have hev := ring_ev hr
  have hpush := hr.push (X.fin (flowK p (tpK h l c) v))
  have hix := i.idx_lt
  have hct := i.cnt
  have hsmall := i.small
  obtain ⟨pd, ix, ct, pv, ps, ng, d⟩ := s
  have hp : pd = n := i.period
  subst hp
  have hpv : pv = X.fin p := i.prev
  have hps : ps = X.fin (posFlow (lastN pd fl)) := i.pos
  have hng : ng = X.fin (negFlow (lastN pd fl)) := i.neg
  subst hpv hps hng
  simp only at hsz hj hev hpush hix hct
  rw [nextBar_fin pd ix ct p _ _ d o h l c v (evK pd fl) hn hsmall hix (by omega) (by omega) hsz hev,
    pos_step pd hn fl p (tpK h l c) v hv ct hct, neg_step pd hn fl p (tpK h l c) v hv ct hct]
  refine ⟨_, rfl, ⟨rfl, hsmall, hj, ?_, rfl, rfl, rfl, ⟨_, by simpa using hpush⟩⟩⟩
  simp only [List.length_append, List.length_singleton]
  split <;> omega

/-! ### whole streams -/

/-- the signed flows of a run of bars, given the typical price before the first of them -/
def flowsFrom (p : K) : List (Bar K) → List K
  | [] => []
  | b :: bs => flowK p (tpBar b) b.volume :: flowsFrom (tpBar b) bs

/-- the signed flows of a bar stream: one per bar after the first -/
def flows : List (Bar K) → List K
  | [] => []
  | b :: bs => flowsFrom (tpBar b) bs

theorem flowsFrom_length (p : K) (bs : List (Bar K)) : (flowsFrom p bs).length = bs.length := by
  induction bs generalizing p with
  | nil => rfl
  | cons b bs ih => simp [flowsFrom, ih]

/-- the MFI value of a window of signed flows -/
def mfiW (w : List K) : X K := mfiOut (posFlow w) (negFlow w)

theorem step_bar {n : Nat} {s : MoneyFlowIndex (X K)} {p : K} {fl : List K} (i : Inv n s p fl)
    (b : Bar K) (hv : 0 ≤ tpBar b * b.volume) :
    ∃ s', s.nextBar (finBar b) = some (s', mfiW (lastN n (fl ++ [flowK p (tpBar b) b.volume])))
      ∧ Inv n s' (tpBar b) (fl ++ [flowK p (tpBar b) b.volume]) :=
  step i b.open_ b.high b.low b.close b.volume hv

theorem stream_from {n : Nat} (bs : List (Bar K)) (hv : ∀ b ∈ bs, 0 ≤ tpBar b * b.volume) :
    ∀ (s : MoneyFlowIndex (X K)) (p : K) (fl : List K), Inv n s p fl →
    ∃ s' p', runOut nextBar s (bs.map finBar)
        = some (s', (prefixes (flowsFrom p bs)).map (fun q => mfiW (lastN n (fl ++ q))))
      ∧ Inv n s' p' (fl ++ flowsFrom p bs) := by
  induction bs with
  | nil => intro s p fl i; exact ⟨s, p, by simp [runOut, prefixes, flowsFrom], by simpa [flowsFrom] using i⟩
  | cons y ys ih =>
    intro s p fl i
    obtain ⟨s1, e1, i1⟩ := step_bar i y (hv y (by simp))
    obtain ⟨s2, p2, e2, i2⟩ := ih (fun b hb => hv b (by simp [hb])) s1 _ _ i1
    refine ⟨s2, p2, ?_, by simpa [flowsFrom] using i2⟩
    rw [List.map_cons, runOut_cons nextBar s (finBar y) _ s1 _ e1, e2]
    simp [prefixes, flowsFrom, List.range_succ_eq_map, List.map_map, Function.comp_def]

/-- `stream` together with the invariant of the final state -/
theorem stream_inv (n : Nat) (hn : 0 < n) (h8 : n * 8 ≤ isizeMax) (b0 : Bar K) (bs : List (Bar K))
    (hv : ∀ b ∈ bs, 0 ≤ tpBar b * b.volume) :
    ∃ s' p', runOut nextBar (fresh n : MoneyFlowIndex (X K)) ((b0 :: bs).map finBar)
        = some (s', X.fin 50 :: (prefixes (flows (b0 :: bs))).map (fun q => mfiW (lastN n q)))
      ∧ Inv n s' p' (flows (b0 :: bs)) := by
  obtain ⟨s1, e1, i1⟩ := step_first n hn h8 b0.open_ b0.high b0.low b0.close b0.volume
  obtain ⟨s2, p2, e2, i2⟩ := stream_from bs hv s1 _ _ i1
  refine ⟨s2, p2, ?_, by simpa [flows, tpBar] using i2⟩
  rw [List.map_cons, runOut_cons nextBar _ (finBar b0) _ s1 _ e1, e2]
  simp [flows, tpBar]

/-- C01-style statement for MFI at `X K`: on a stream of bars with finite fields and
    non-negative raw flows the first output is 50 and the output after each later bar is
    `100 · PMF / (PMF + NMF)` (50 when the denominator is 0) over exactly the last
    min(t − 1, n) signed flows -/
theorem stream (n : Nat) (hn : 0 < n) (h8 : n * 8 ≤ isizeMax) (b0 : Bar K) (bs : List (Bar K))
    (hv : ∀ b ∈ bs, 0 ≤ tpBar b * b.volume) :
    ∃ s', runOut nextBar (fresh n : MoneyFlowIndex (X K)) ((b0 :: bs).map finBar)
      = some (s', X.fin 50 :: (prefixes (flows (b0 :: bs))).map (fun q => mfiW (lastN n q))) := by
  obtain ⟨s', _, e, _⟩ := stream_inv n hn h8 b0 bs hv
  exact ⟨s', e⟩

/-! ### corollaries -/

/-- range: with non-negative flow sums and a non-zero total the output is finite, in [0, 100] -/
theorem mfi_range (P N : K) (hP : 0 ≤ P) (hN : 0 ≤ N) (hne : P + N ≠ 0) :
    ∃ v, mfiOut P N = X.fin v ∧ 0 ≤ v ∧ v ≤ 100 := by
  have hpos : 0 < P + N := lt_of_le_of_ne (add_nonneg hP hN) (Ne.symm hne)
  refine ⟨P / (P + N) * 100, by simp [mfiOut, hne], ?_, ?_⟩
  · exact mul_nonneg (div_nonneg hP (le_of_lt hpos)) (by norm_num)
  · have : P / (P + N) ≤ 1 := by rw [div_le_one hpos]; linarith
    linarith

/-- range of the output over ANY window of signed flows (no side condition: the guard value 50
    is in range too) -/
theorem mfiW_range (w : List K) : ∃ v, mfiW w = X.fin v ∧ 0 ≤ v ∧ v ≤ 100 := by
  unfold mfiW
  by_cases hne : posFlow w + negFlow w = 0
  · exact ⟨50, by simp [mfiOut, hne], by norm_num, by norm_num⟩
  · exact mfi_range _ _ (posFlow_nonneg w) (negFlow_nonneg w) hne

/-- the step-level form of the range statement: every non-first output is finite, in [0, 100] -/
theorem step_range {n : Nat} {s : MoneyFlowIndex (X K)} {p : K} {fl : List K} (i : Inv n s p fl)
    (b : Bar K) (hv : 0 ≤ tpBar b * b.volume) :
    ∃ s' y, s.nextBar (finBar b) = some (s', X.fin y) ∧ 0 ≤ y ∧ y ≤ 100 := by
  obtain ⟨s', e, _⟩ := step_bar i b hv
  obtain ⟨y, hy, h0, h1⟩ := mfiW_range (lastN n (fl ++ [flowK p (tpBar b) b.volume]))
  exact ⟨s', y, by rw [e, hy], h0, h1⟩

/-- all flows in the window zero ⇒ the neutral value 50 (the repaired zero-total-flow guard) -/
theorem mfi_zero_flow (w : List K) (hw : ∀ x ∈ w, x = 0) : mfiW w = X.fin 50 := by
  have hP : posFlow w = 0 := by
    unfold posFlow
    apply List.sum_eq_zero
    intro y hy
    simp only [List.mem_map] at hy
    obtain ⟨x, hx, rfl⟩ := hy
    rw [hw x hx, pp_zero]
  have hN : negFlow w = 0 := by
    unfold negFlow
    apply List.sum_eq_zero
    intro y hy
    simp only [List.mem_map] at hy
    obtain ⟨x, hx, rfl⟩ := hy
    rw [hw x hx, np_zero]
  simp [mfiW, mfiOut, hP, hN]

end TaRs.Gen.MoneyFlowIndex
