/-
  L2 (exact arithmetic, `X K`): the generated RateOfChange computes
  `100 · (x_t − x_{t−n}) / x_{t−n}`, using the FIRST price as reference until `n` earlier
  prices exist, for every period, every finite stream of non-zero prices, every prefix.
  The reference price is `base n h x` (history `h` = the earlier prices, `x` = the new one);
  equivalently it is the oldest of the last `n + 1` prices including `x` (`base_eq_head`).

  The generated warm-up counter `count` runs to `period + 1` and does NOT saturate at
  `period`, so the ring library's counter is carried as a ghost (`min h.length n`) and the
  concrete counter is tied to the history separately (`Inv.cnt`).

  A zero reference price is handled honestly: the quotient is then `nan` (x = 0) or `±inf`
  (`step_zero`); `step_total` states that `next` never panics whatever the prices are.
-/
import TaRs.Lemmas.RateOfChange
import TaRs.Lemmas.Ring
import TaRs.Lemmas.XLemmas
import TaRs.Lemmas.Machine
import TaRs.Spec.Window
import Mathlib.Tactic.NormNum
set_option linter.unusedSectionVars false
namespace TaRs.Gen.RateOfChange
open TaRs TaRs.Rs TaRs.Spec

variable {K : Type} [Field K] [LinearOrder K] [IsStrictOrderedRing K] [HasSqrt K]

/-! ### specification -/

/-- the reference price for the new input `x` after the earlier prices `h` (oldest first):
    the price `n` steps before `x` once `n` earlier prices exist, else the very first price
    (which is `x` itself on the first call) -/
def base (n : Nat) (h : List K) (x : K) : K :=
  if n ≤ h.length then h[h.length - n]?.getD x else h.head?.getD x

/-- rate of change of the last price of a non-empty prefix `p` (0 on the empty prefix, never used) -/
def rocSpec (n : Nat) (p : List K) : K :=
  match p.getLast? with
  | none => 0
  | some x => (x - base n p.dropLast x) / base n p.dropLast x * 100

theorem rocSpec_snoc (n : Nat) (h : List K) (x : K) :
    rocSpec n (h ++ [x]) = (x - base n h x) / base n h x * 100 := by
  simp [rocSpec]

/-- `base` is the oldest of the last `n + 1` prices, the new one included -/
theorem base_eq_head (n : Nat) (h : List K) (x : K) :
    base n h x = (lastN (n + 1) (h ++ [x])).head?.getD x := by
  unfold base lastN
  have e : (h ++ [x]).length - (n + 1) = h.length - n := by simp
  rw [e, List.head?_drop]
  by_cases hl : n ≤ h.length
  · simp only [hl, if_true]
    by_cases hn : n = 0
    · subst hn; simp
    · rw [List.getElem?_append_left (by omega)]
  · simp only [hl, if_false]
    have : h.length - n = 0 := by omega
    rw [this]
    cases h <;> simp

/-- the reference price is one of the prices seen so far -/
theorem base_mem (n : Nat) (h : List K) (x : K) : base n h x = x ∨ base n h x ∈ h := by
  unfold base
  split
  · cases e : h[h.length - n]? with
    | none => left; rfl
    | some v => right; exact List.mem_of_getElem? e
  · cases h with
    | nil => left; rfl
    | cons a t => right; simp

theorem base_ne_zero (n : Nat) (h : List K) (x : K) (hh : ∀ y ∈ h, y ≠ 0) (hx : x ≠ 0) :
    base n h x ≠ 0 := by
  rcases base_mem n h x with e | e
  · rw [e]; exact hx
  · exact hh _ e

theorem base_nil (n : Nat) (x : K) : base n [] x = x := by
  unfold base; split <;> simp

/-- ROC has memory `n + 1`: once `n` earlier prices exist the reference price only depends on
    the last `n` of them (and the output on those and the new price) -/
theorem roc_lookback (n : Nat) (p h : List K) (x : K) (hl : n ≤ h.length) :
    base n (p ++ h) x = base n h x := by
  unfold base
  have h1 : n ≤ (p ++ h).length := by simp; omega
  simp only [h1, hl, if_true]
  have e : (p ++ h).length - n = p.length + (h.length - n) := by simp; omega
  rw [e, List.getElem?_append_right (by omega)]
  congr 2
  omega

theorem roc_lookback_lastN (n : Nat) (h : List K) (x : K) (hl : n ≤ h.length) :
    base n h x = base n (lastN n h) x := by
  have e : h = h.take (h.length - n) ++ lastN n h := by simp [lastN]
  have hl' : n ≤ (lastN n h).length := by rw [lastN_length]; omega
  conv => lhs; rw [e]
  exact roc_lookback n _ _ x hl'

theorem rocSpec_lookback (n : Nat) (p h : List K) (x : K) (hl : n ≤ h.length) :
    rocSpec n (p ++ (h ++ [x])) = rocSpec n (h ++ [x]) := by
  rw [← List.append_assoc, rocSpec_snoc, rocSpec_snoc, roc_lookback n p h x hl]

/-- if the last `n` earlier prices all equal the new price `x ≠ 0`, the rate of change is 0 -/
theorem base_flat (n : Nat) (hn : 0 < n) (h : List K) (x : K) (hl : n ≤ h.length)
    (hflat : ∀ y ∈ lastN n h, y = x) : base n h x = x := by
  unfold base
  simp only [hl, if_true]
  have hlt : h.length - n < h.length := by omega
  rw [List.getElem?_eq_getElem hlt, Option.getD_some]
  apply hflat
  unfold lastN
  rw [List.mem_drop_iff_getElem]
  exact ⟨0, by simpa using hlt, by simp⟩

theorem rocSpec_flat (n : Nat) (hn : 0 < n) (h : List K) (x : K) (hl : n ≤ h.length)
    (hflat : ∀ y ∈ lastN n h, y = x) : rocSpec n (h ++ [x]) = 0 := by
  rw [rocSpec_snoc, base_flat n hn h x hl hflat]
  simp

/-! ### the invariant -/

/-- abstraction relation between a concrete state and the history of finite inputs; the ring
    counter is a ghost, the concrete counter runs one further -/
structure Inv (n : Nat) (s : RateOfChange (X K)) (h : List K) : Prop where
  period : s.period = n
  small : n * 8 ≤ isizeMax
  ring : RingInv (X.fin (0 : K)) s.deque n s.index (min h.length n) (h.map X.fin)
  cnt : s.count = min h.length (n + 1)

theorem inv_fresh (n : Nat) (hn : 0 < n) (h8 : n * 8 ≤ isizeMax) :
    Inv n (fresh n : RateOfChange (X K)) [] := by
  refine ⟨rfl, h8, ?_, ?_⟩
  · simpa [fresh, X.lit_zero] using RingInv.fresh (X.fin (0 : K)) n hn
  · simp [fresh]

theorem inv_wf {n : Nat} {s : RateOfChange (X K)} {h : List K} (i : Inv n s h) : WF s :=
  ⟨by rw [i.period]; exact i.ring.npos, by rw [i.period]; exact i.small, by rw [i.period]; exact i.ring.size,
   by rw [i.period]; exact i.ring.idx_lt, by rw [i.period, i.cnt]; omega⟩

/-- the output expression of the generated code, on a new price `a` and a reference price `b` -/
def rocX (a b : X K) : X K :=
  Scalar.mul (Scalar.div (Scalar.sub a b) b) (Scalar.lit 100 0)

theorem rocX_fin (x b : K) (hb : b ≠ 0) : rocX (X.fin x) (X.fin b) = X.fin ((x - b) / b * 100) := by
  unfold rocX
  rw [X.sub_fin, X.div_fin _ _ hb, X.lit_fin, X.mul_fin]
  norm_num

/-- a zero reference price: `0/0 = nan`, otherwise the infinity with the sign of `x` -/
theorem rocX_zero (x : K) :
    rocX (X.fin x) (X.fin (0 : K)) = if x = 0 then X.nan else if x < 0 then X.ninf else X.pinf := by
  unfold rocX
  rw [X.sub_fin, sub_zero, X.lit_fin]
  show X.mul (X.div (X.fin x) (X.fin 0)) (X.fin _) = _
  have h100 : ¬ ((100 : K) < 0) := by norm_num
  have h100' : (100 : K) ≠ 0 := by norm_num
  by_cases h0 : x = 0
  · simp [X.div, X.ofSign, X.sgn, X.mul, h0]
  · by_cases h1 : x < 0
    · simp [X.div, X.ofSign, X.sgn, X.mul, X.sgnX, h0, h1, h100, h100']
    · simp [X.div, X.ofSign, X.sgn, X.mul, X.sgnX, h0, h1, h100, h100']

/-- one call of `next`, whatever the reference price is: the state follows the history and the
    output is the generated expression on `x` and `base n h x` -/
theorem step_gen {n : Nat} {s : RateOfChange (X K)} {h : List K} (i : Inv n s h) (x : K) :
    ∃ s', s.next (X.fin x) = some (s', rocX (X.fin x) (X.fin (base n h x))) ∧ Inv n s' (h ++ [x]) := by
  have hn := i.ring.npos
  have hidx := i.ring.idx_lt
  have hsz := i.ring.size
  have hcur := i.ring.at_cursor
  have hm : isizeMax < usizeMax := by decide
  have hsmall := i.small
  have hpush := i.ring.push (X.fin x)
  have hpart := i.ring.partial_
  have hfull := i.ring.full
  have hidxeq := i.ring.idx
  obtain ⟨p, ix, c, d⟩ := s
  have hp : p = n := i.period
  subst hp
  have hc : c = min h.length (p + 1) := i.cnt
  simp only [List.length_map] at hidx hsz hcur hpush hpart hfull hidxeq
  have hix : ix < d.size := by omega
  have h0 : 0 < d.size := by omega
  -- the reference price as read by the code
  have hprev : (if p < c then d[ix]'hix else if c = 0 then X.fin x else d[0]'h0) = X.fin (base p h x) := by
    unfold base
    by_cases c0 : p < c
    · -- more than `p` earlier prices: the slot under the cursor is the oldest
      have hl : ¬ h.length < p := by omega
      have hl' : p ≤ h.length := by omega
      have hlt : h.length - p < h.length := by omega
      simp only [c0, hl', if_true]
      have := hcur
      rw [Array.getElem?_eq_getElem hix] at this
      simp only [hl, if_false, List.getElem?_map, List.getElem?_eq_getElem hlt, Option.map_some] at this
      rw [List.getElem?_eq_getElem hlt, Option.getD_some]
      exact Option.some.inj this
    · simp only [c0, if_false]
      have hle : h.length ≤ p := by omega
      have hch : c = h.length := by omega
      cases h with
      | nil => simp [hch, hn.ne']
      | cons a t =>
        have hc1 : ¬ (c = 0) := by simp [hch]
        simp only [hc1, if_false]
        -- slot 0 holds the first price
        have hd0 : d.toList[0]? = some (X.fin a) := by
          by_cases hlt : (a :: t).length < p
          · rw [hpart hlt]; simp
          · have heq : p = (a :: t).length := by omega
            have hi0 : ix = 0 := by rw [hidxeq, ← heq, Nat.mod_self]
            have := hfull (by omega)
            rw [hi0, List.drop_zero, List.take_zero, List.append_nil,
              lastN_of_le _ _ (by simp only [List.length_map]; omega)] at this
            rw [this]; simp
        rw [Array.getElem?_toList, Array.getElem?_eq_getElem h0] at hd0
        rw [Option.some.inj hd0]
        by_cases hlt : p ≤ (a :: t).length
        · have heq : (a :: t).length - p = 0 := by omega
          rw [if_pos hlt, heq]; rfl
        · rw [if_neg hlt]; rfl
  refine ⟨{ period := p, index := if ix + 1 < p then ix + 1 else 0,
            count := if p < c then c else c + 1,
            deque := d.setIfInBounds ix (X.fin x) }, ?_, ⟨rfl, hsmall, ?_, ?_⟩⟩
  · rw [next_eq _ (X.fin x) _ _ (inv_wf i) (Array.getElem?_eq_getElem hix) (Array.getElem?_eq_getElem h0)]
    simp only [hprev, rocX]
  · simp only [List.map_append, List.map_cons, List.map_nil]
    exact ⟨hpush.npos, hpush.size, hpush.idx, by simp, hpush.partial_, hpush.full⟩
  · simp only [List.length_append, List.length_singleton]
    split <;> omega

/-- `next` never panics on a state that follows a history, whatever the prices are -/
theorem step_total {n : Nat} {s : RateOfChange (X K)} {h : List K} (i : Inv n s h) (x : K) :
    ∃ s' y, s.next (X.fin x) = some (s', y) ∧ Inv n s' (h ++ [x]) := by
  obtain ⟨s', e, i'⟩ := step_gen i x
  exact ⟨s', _, e, i'⟩

/-- the documented formula, whenever the reference price is not 0 -/
theorem step {n : Nat} {s : RateOfChange (X K)} {h : List K} (i : Inv n s h) (x : K)
    (hb : base n h x ≠ 0) :
    ∃ s', s.next (X.fin x) = some (s', X.fin ((x - base n h x) / base n h x * 100)) ∧
      Inv n s' (h ++ [x]) := by
  obtain ⟨s', e, i'⟩ := step_gen i x
  exact ⟨s', by rw [e, rocX_fin _ _ hb], i'⟩

/-- a zero reference price: the output is `nan` if the new price is 0 as well, else `±inf` -/
theorem step_zero {n : Nat} {s : RateOfChange (X K)} {h : List K} (i : Inv n s h) (x : K)
    (hb : base n h x = 0) :
    ∃ s', s.next (X.fin x) = some (s', if x = 0 then X.nan else if x < 0 then X.ninf else X.pinf) ∧
      Inv n s' (h ++ [x]) := by
  obtain ⟨s', e, i'⟩ := step_gen i x
  exact ⟨s', by rw [e, hb, rocX_zero], i'⟩

private theorem prefixes_cons {α : Type} (y : α) (ys : List α) :
    prefixes (y :: ys) = [y] :: (prefixes ys).map (fun p => y :: p) := by
  simp [prefixes, List.range_succ_eq_map, List.map_map, Function.comp_def]

/-- ROC at `X K`: on every stream of non-zero (in particular: positive) prices every output is
    `100·(x_t − b)/b`, `b` the price `n` steps earlier, or the first price while fewer exist -/
theorem stream (n : Nat) (hn : 0 < n) (h8 : n * 8 ≤ isizeMax) (xs : List K) (hxs : ∀ x ∈ xs, x ≠ 0) :
    ∃ s', runOut next (fresh n : RateOfChange (X K)) (xs.map X.fin)
      = some (s', (prefixes xs).map (fun p => X.fin (rocSpec n p))) := by
  suffices H : ∀ (h : List K) (s : RateOfChange (X K)), Inv n s h → (∀ y ∈ h, y ≠ 0) →
      ∀ ys : List K, (∀ y ∈ ys, y ≠ 0) →
      ∃ s', runOut next s (ys.map X.fin)
        = some (s', (prefixes ys).map (fun p => X.fin (rocSpec n (h ++ p)))) ∧ Inv n s' (h ++ ys) by
    obtain ⟨s', h1, _⟩ := H [] _ (inv_fresh n hn h8) (by simp) xs hxs
    exact ⟨s', by simpa using h1⟩
  intro h s i hh ys
  induction ys generalizing h s with
  | nil => intro _; exact ⟨s, by simp [runOut, prefixes], by simpa using i⟩
  | cons y ys ih =>
    intro hys
    have hy : y ≠ 0 := hys y (by simp)
    obtain ⟨s1, e1, i1⟩ := step i y (base_ne_zero n h y hh hy)
    have hh1 : ∀ z ∈ h ++ [y], z ≠ 0 := by
      intro z hz
      rcases List.mem_append.1 hz with hz | hz
      · exact hh z hz
      · rw [List.mem_singleton.1 hz]; exact hy
    obtain ⟨s2, e2, i2⟩ := ih (h ++ [y]) s1 i1 hh1 (fun z hz => hys z (by simp [hz]))
    refine ⟨s2, ?_, by simpa using i2⟩
    rw [List.map_cons, runOut_cons next s (X.fin y) _ s1 _ e1, e2, prefixes_cons]
    simp [rocSpec_snoc, List.map_map, Function.comp_def]

/-- `roc_flat`: once the last `n + 1` prices (the new one included) are equal and non-zero,
    the output is exactly 0 -/
theorem roc_flat {n : Nat} {s : RateOfChange (X K)} {h : List K} (i : Inv n s h) (x : K)
    (hx : x ≠ 0) (hl : n ≤ h.length) (hflat : ∀ y ∈ lastN n h, y = x) :
    ∃ s', s.next (X.fin x) = some (s', X.fin 0) ∧ Inv n s' (h ++ [x]) := by
  have hb := base_flat n i.ring.npos h x hl hflat
  obtain ⟨s', e, i'⟩ := step i x (by rw [hb]; exact hx)
  refine ⟨s', ?_, i'⟩
  rw [e, hb]; simp

end TaRs.Gen.RateOfChange
