/-
  L2 (exact arithmetic, `X K`): the generated BollingerBands outputs, for every period, every
  finite multiplier, every finite stream and every prefix, the window mean and
  `mean ± sqrt(population variance) · multiplier` over exactly the last min(t, n) inputs.
  Everything is inherited from the exact StandardDeviation theorem through `next_eq_sd`.
-/
import TaRs.Lemmas.BollingerBands
import TaRs.Lemmas.Exact.StandardDeviation
set_option linter.unusedSectionVars false
namespace TaRs.Gen.BollingerBands
open TaRs TaRs.Rs TaRs.Spec

variable {K : Type} [Field K] [LinearOrder K] [IsStrictOrderedRing K] [HasSqrt K]

/-- abstraction relation: a finite multiplier and the component's invariant -/
structure Inv (n : Nat) (m : K) (s : BollingerBands (X K)) (h : List K) : Prop where
  period : s.period = n
  mult : s.multiplier = X.fin m
  sd : StandardDeviation.Inv n s.sd h

theorem inv_fresh (n : Nat) (m : K) (hn : 0 < n) (h8 : n * 8 ≤ isizeMax) :
    Inv n m (fresh n (X.fin m) : BollingerBands (X K)) [] :=
  ⟨rfl, rfl, StandardDeviation.inv_fresh n hn h8⟩

theorem inv_wf {n : Nat} {m : K} {s : BollingerBands (X K)} {h : List K} (i : Inv n m s h) : WF s :=
  ⟨StandardDeviation.inv_wf i.sd, by rw [i.sd.period, i.period]⟩

/-- one step: average = window mean, bands = mean ± sd · multiplier with
    `sd = Scalar.sqrt (X.fin (var W))` kept un-normalised (no law about `sqrtK` needed) -/
theorem step {n : Nat} {m : K} {s : BollingerBands (X K)} {h : List K} (i : Inv n m s h) (x : K) :
    ∃ s', s.next (X.fin x) = some (s',
        { average := X.fin (Spec.mean (lastN n (h ++ [x]))),
          upper := Scalar.add (X.fin (Spec.mean (lastN n (h ++ [x]))))
                     (Scalar.mul (Scalar.sqrt (X.fin (var (lastN n (h ++ [x]))))) (X.fin m)),
          lower := Scalar.sub (X.fin (Spec.mean (lastN n (h ++ [x]))))
                     (Scalar.mul (Scalar.sqrt (X.fin (var (lastN n (h ++ [x]))))) (X.fin m)) })
      ∧ Inv n m s' (h ++ [x]) := by
  obtain ⟨sd', e, i'⟩ := StandardDeviation.step i.sd x
  refine ⟨{ s with sd := sd' }, ?_, ⟨i.period, i.mult, i'⟩⟩
  rw [next_eq_sd s (X.fin x) sd' _ e, i'.m, i.mult]

/-- the same step with everything evaluated on the exact field: the three outputs are FINITE,
    `mean`, `mean + sqrtK(var) · m`, `mean − sqrtK(var) · m`.  (No law about `sqrtK` is needed
    for this: `0 ≤ var` alone makes `X.sqrt` finite.) -/
theorem step_sqrtK {n : Nat} {m : K} {s : BollingerBands (X K)} {h : List K} (i : Inv n m s h) (x : K) :
    ∃ s', s.next (X.fin x) = some (s',
        { average := X.fin (Spec.mean (lastN n (h ++ [x]))),
          upper := X.fin (Spec.mean (lastN n (h ++ [x])) + HasSqrt.sqrtK (var (lastN n (h ++ [x]))) * m),
          lower := X.fin (Spec.mean (lastN n (h ++ [x])) - HasSqrt.sqrtK (var (lastN n (h ++ [x]))) * m) })
      ∧ Inv n m s' (h ++ [x]) := by
  obtain ⟨s', e, i'⟩ := step i x
  refine ⟨s', ?_, i'⟩
  rw [e, X.sqrt_fin _ (StandardDeviation.var_nonneg _)]
  simp

set_option linter.unusedVariables false in
/-- the corollary as specified, under the square-root law `hsq` (which turns out not to be
    needed for the equalities; it is what makes the bands ordered, see `bands_order`) -/
theorem step_hsq (hsq : ∀ a : K, 0 ≤ a → 0 ≤ HasSqrt.sqrtK a ∧ HasSqrt.sqrtK a * HasSqrt.sqrtK a = a)
    {n : Nat} {m : K} {s : BollingerBands (X K)} {h : List K} (i : Inv n m s h) (x : K) :
    ∃ s', s.next (X.fin x) = some (s',
        { average := X.fin (Spec.mean (lastN n (h ++ [x]))),
          upper := X.fin (Spec.mean (lastN n (h ++ [x])) + HasSqrt.sqrtK (var (lastN n (h ++ [x]))) * m),
          lower := X.fin (Spec.mean (lastN n (h ++ [x])) - HasSqrt.sqrtK (var (lastN n (h ++ [x]))) * m) })
      ∧ Inv n m s' (h ++ [x]) :=
  step_sqrtK i x

/-- under the square-root law and a non-negative multiplier: lower ≤ average ≤ upper, and the
    half-width squared is `var · m²` -/
theorem bands_order (hsq : ∀ a : K, 0 ≤ a → 0 ≤ HasSqrt.sqrtK a ∧ HasSqrt.sqrtK a * HasSqrt.sqrtK a = a)
    (w : List K) (m : K) (hm : 0 ≤ m) :
    Spec.mean w - HasSqrt.sqrtK (var w) * m ≤ Spec.mean w
      ∧ Spec.mean w ≤ Spec.mean w + HasSqrt.sqrtK (var w) * m
      ∧ (HasSqrt.sqrtK (var w) * m) * (HasSqrt.sqrtK (var w) * m) = var w * (m * m) := by
  obtain ⟨h0, h1⟩ := hsq (var w) (StandardDeviation.var_nonneg w)
  have hp : 0 ≤ HasSqrt.sqrtK (var w) * m := mul_nonneg h0 hm
  refine ⟨by linarith, by linarith, ?_⟩
  have e : (HasSqrt.sqrtK (var w) * m) * (HasSqrt.sqrtK (var w) * m)
      = (HasSqrt.sqrtK (var w) * HasSqrt.sqrtK (var w)) * (m * m) := by ring
  rw [e, h1]

/-- `stream` together with the invariant of the final state -/
theorem stream_inv (n : Nat) (hn : 0 < n) (h8 : n * 8 ≤ isizeMax) (m : K) (xs : List K) :
    ∃ s', runOut next (fresh n (X.fin m) : BollingerBands (X K)) (xs.map X.fin)
      = some (s', (prefixes xs).map (fun h =>
          ({ average := X.fin (Spec.mean (lastN n h)),
             upper := Scalar.add (X.fin (Spec.mean (lastN n h)))
                        (Scalar.mul (Scalar.sqrt (X.fin (var (lastN n h)))) (X.fin m)),
             lower := Scalar.sub (X.fin (Spec.mean (lastN n h)))
                        (Scalar.mul (Scalar.sqrt (X.fin (var (lastN n h)))) (X.fin m)) }
            : BollingerBandsOutput (X K))))
      ∧ Inv n m s' xs := by
  suffices H : ∀ (h : List K) (s : BollingerBands (X K)), Inv n m s h → ∀ ys : List K,
      ∃ s', runOut next s (ys.map X.fin)
        = some (s', (prefixes ys).map (fun p =>
            ({ average := X.fin (Spec.mean (lastN n (h ++ p))),
               upper := Scalar.add (X.fin (Spec.mean (lastN n (h ++ p))))
                          (Scalar.mul (Scalar.sqrt (X.fin (var (lastN n (h ++ p))))) (X.fin m)),
               lower := Scalar.sub (X.fin (Spec.mean (lastN n (h ++ p))))
                          (Scalar.mul (Scalar.sqrt (X.fin (var (lastN n (h ++ p))))) (X.fin m)) }
              : BollingerBandsOutput (X K))))
        ∧ Inv n m s' (h ++ ys) by
    obtain ⟨s', h1, h2⟩ := H [] _ (inv_fresh n m hn h8) xs
    exact ⟨s', by simpa using h1, by simpa using h2⟩
  intro h s i ys
  induction ys generalizing h s with
  | nil => exact ⟨s, by simp [runOut, prefixes], by simpa using i⟩
  | cons y ys ih =>
    obtain ⟨s1, e1, i1⟩ := step i y
    obtain ⟨s2, e2, i2⟩ := ih (h ++ [y]) s1 i1
    refine ⟨s2, ?_, by simpa using i2⟩
    rw [List.map_cons, runOut_cons next s (X.fin y) _ s1 _ e1, e2]
    simp [prefixes, List.range_succ_eq_map, List.map_map, Function.comp_def]

/-- C01/C02 for BollingerBands at `X K`: every output is (mean, mean ± sd · m) of exactly the
    last min(t, n) inputs, `sd = sqrt (population variance)` -/
theorem stream (n : Nat) (hn : 0 < n) (h8 : n * 8 ≤ isizeMax) (m : K) (xs : List K) :
    ∃ s', runOut next (fresh n (X.fin m) : BollingerBands (X K)) (xs.map X.fin)
      = some (s', (prefixes xs).map (fun h =>
          ({ average := X.fin (Spec.mean (lastN n h)),
             upper := Scalar.add (X.fin (Spec.mean (lastN n h)))
                        (Scalar.mul (Scalar.sqrt (X.fin (var (lastN n h)))) (X.fin m)),
             lower := Scalar.sub (X.fin (Spec.mean (lastN n h)))
                        (Scalar.mul (Scalar.sqrt (X.fin (var (lastN n h)))) (X.fin m)) }
            : BollingerBandsOutput (X K)))) := by
  obtain ⟨s', e, _⟩ := stream_inv n hn h8 m xs
  exact ⟨s', e⟩

/-- `stream` with everything evaluated on the exact field: all three outputs are finite -/
theorem stream_sqrtK (n : Nat) (hn : 0 < n) (h8 : n * 8 ≤ isizeMax) (m : K) (xs : List K) :
    ∃ s', runOut next (fresh n (X.fin m) : BollingerBands (X K)) (xs.map X.fin)
      = some (s', (prefixes xs).map (fun h =>
          ({ average := X.fin (Spec.mean (lastN n h)),
             upper := X.fin (Spec.mean (lastN n h) + HasSqrt.sqrtK (var (lastN n h)) * m),
             lower := X.fin (Spec.mean (lastN n h) - HasSqrt.sqrtK (var (lastN n h)) * m) }
            : BollingerBandsOutput (X K)))) := by
  obtain ⟨s', e⟩ := stream n hn h8 m xs
  refine ⟨s', ?_⟩
  rw [e]
  congr 3
  funext h
  rw [X.sqrt_fin _ (StandardDeviation.var_nonneg _)]
  simp

end TaRs.Gen.BollingerBands
