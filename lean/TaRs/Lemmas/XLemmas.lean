/-
  `X K` over a linearly ordered field: rewrite lemmas for finite values (hand-written;
  imports single Mathlib modules).  Every division lemma carries an explicit `≠ 0`
  hypothesis: at `X K` a zero denominator yields `nan`/`±inf`, never Lean's `x/0 = 0`.
-/
import TaRs.Prelude.X
import Mathlib.Algebra.Order.Field.Basic
import Mathlib.Tactic.Ring
import Mathlib.Tactic.FieldSimp
import Mathlib.Tactic.Linarith
import Mathlib.Tactic.Positivity
set_option linter.unusedSectionVars false
namespace TaRs.X
open TaRs

variable {K : Type} [Field K] [LinearOrder K] [IsStrictOrderedRing K] [HasSqrt K]

@[simp] theorem zero_eq : (X.zero : K) = 0 := by simp [X.zero]

@[simp] theorem add_fin (a b : K) : Scalar.add (fin a) (fin b) = fin (a + b) := rfl
@[simp] theorem neg_fin (a : K) : Scalar.neg (fin a) = fin (-a) := rfl
@[simp] theorem sub_fin (a b : K) : Scalar.sub (fin a) (fin b) = fin (a - b) := by
  show X.add (fin a) (X.neg (fin b)) = _
  simp [X.add, X.neg, sub_eq_add_neg]
@[simp] theorem mul_fin (a b : K) : Scalar.mul (fin a) (fin b) = fin (a * b) := rfl
theorem div_fin (a b : K) (h : b ≠ 0) : Scalar.div (fin a) (fin b) = fin (a / b) := by
  show X.div (fin a) (fin b) = _
  simp [X.div, h]
theorem div_fin_zero_zero : Scalar.div (fin (0 : K)) (fin 0) = nan := by
  show X.div (fin 0) (fin 0) = _
  simp [X.div, X.ofSign, X.sgn]
@[simp] theorem abs_fin (a : K) : Scalar.abs (fin a) = fin |a| := by
  show X.abs (fin a) = _
  simp only [X.abs, zero_eq]
  by_cases h : a < 0
  · simp [h, abs_of_neg h]
  · simp [h, abs_of_nonneg (not_lt.mp h)]
@[simp] theorem ofNat_fin (n : Nat) : (Scalar.ofNat n : X K) = fin (n : K) := rfl
@[simp] theorem lit_fin (m e : Nat) : (Scalar.lit m e : X K) = fin ((m : K) / ((10 ^ e : Nat) : K)) := rfl
theorem lit_zero : (Scalar.lit 0 0 : X K) = fin 0 := by simp
theorem lit_int (m : Nat) : (Scalar.lit m 0 : X K) = fin (m : K) := by simp
@[simp] theorem posInf_eq : (Scalar.posInf : X K) = pinf := rfl
@[simp] theorem negInf_eq : (Scalar.negInf : X K) = ninf := rfl

@[simp] theorem lt_fin (a b : K) : Scalar.lt (fin a) (fin b) = decide (a < b) := rfl
@[simp] theorem le_fin (a b : K) : Scalar.le (fin a) (fin b) = decide (a ≤ b) := rfl
@[simp] theorem beq_fin (a b : K) : Scalar.beq (fin a) (fin b) = decide (a = b) := rfl
@[simp] theorem lt_fin_pinf (a : K) : Scalar.lt (fin a) (pinf : X K) = true := rfl
@[simp] theorem lt_pinf_fin (a : K) : Scalar.lt (pinf : X K) (fin a) = false := rfl
@[simp] theorem lt_ninf_fin (a : K) : Scalar.lt (ninf : X K) (fin a) = true := rfl
@[simp] theorem lt_fin_ninf (a : K) : Scalar.lt (fin a) (ninf : X K) = false := rfl
@[simp] theorem lt_pinf_pinf : Scalar.lt (pinf : X K) pinf = false := rfl
@[simp] theorem lt_ninf_ninf : Scalar.lt (ninf : X K) ninf = false := rfl

theorem sqrt_fin (a : K) (h : 0 ≤ a) : Scalar.sqrt (fin a) = fin (HasSqrt.sqrtK a) := by
  show X.sqrt (fin a) = _
  simp [X.sqrt, not_lt.mpr h]

@[simp] theorem max_fin (a b : K) : Scalar.max (fin a) (fin b) = fin (Max.max a b) := by
  show X.max (fin a) (fin b) = _
  simp only [X.max, X.lt]
  by_cases h : a < b
  · simp [h, max_eq_right (le_of_lt h)]
  · simp [h, max_eq_left (not_lt.mp h)]

@[simp] theorem isSignPositive_fin (a : K) : Scalar.isSignPositive (fin a) = decide (0 ≤ a) := by
  show X.isSignPositive (fin a) = _
  simp only [X.isSignPositive, zero_eq]
  by_cases h : a < 0
  · simp [h, not_le.mpr h]
  · simp [h, not_lt.mp h]

end TaRs.X
