/-
  L0 (structural) facts about the GENERATED model of WeightedMovingAverage, valid for every
  `[Scalar F]` (no law about the arithmetic is used).
-/
import TaRs.Lemmas.Core.WeightedMovingAverage
import TaRs.Gen.WeightedMovingAverage
import TaRs.Lemmas.RsLemmas
namespace TaRs.Gen.WeightedMovingAverage
open TaRs TaRs.Rs

variable {F : Type} [Scalar F]

/-- `next` never panics on a well-formed state, keeps it well-formed and keeps the period -/
theorem next_total (s : WeightedMovingAverage F) (x : F) (h : WF s) :
    ∃ r, s.next x = some r ∧ WF r.1 ∧ r.1.period = s.period := by
  obtain ⟨hp, hs, hsz, hi, hc⟩ := h
  have hm : isizeMax < usizeMax := by decide
  unfold next
  by_cases c1 : s.index + 1 < s.period <;> by_cases c2 : s.count < s.period <;>
    simp (disch := omega) [index_eq, setIndex_eq, uadd_eq, c1, c2] <;>
    constructor <;> simp_all <;> omega

theorem nextBar_eq (s : WeightedMovingAverage F) (b : Bar F) : s.nextBar b = s.next b.close := by
  unfold nextBar
  cases h : s.next b.close <;> simp [h]

end TaRs.Gen.WeightedMovingAverage
