/-
  L0 (structural) facts about the GENERATED model of WeightedMovingAverage, valid for every
  `[Scalar F]` (no law about the arithmetic is used).
-/
import TaRs.Lemmas.Core.WeightedMovingAverage
import TaRs.Gen.WeightedMovingAverage
import TaRs.Lemmas.RsLemmas
import TaRs.Lemmas.Total.WeightedMovingAverage
import TaRs.Lemmas.Bar.WeightedMovingAverage
namespace TaRs.Gen.WeightedMovingAverage
open TaRs TaRs.Rs

variable {F : Type} [Scalar F]

/-- Normal form of one `next` on a well-formed state.  This is the ONLY fact about `next` proved
    by executing the generated body; it does so with `rs_exec`, which does not depend on how the
    wrap-around and warm-up tests are spelled.  Everything else is derived from it. -/
theorem next_eq (s : WeightedMovingAverage F) (x v : F) (h : WF s) (hv : s.deque[s.index]? = some v) :
    s.next x = some (
      { period := s.period,
        index := if s.index + 1 < s.period then s.index + 1 else 0,
        count := if s.count < s.period then s.count + 1 else s.count,
        weight := if s.count < s.period then Scalar.ofNat (s.count + 1) else s.weight,
        sum := if s.count < s.period then Scalar.add s.sum (Scalar.mul x (Scalar.ofNat (s.count + 1)))
               else Scalar.add (Scalar.sub s.sum s.sum_flat) (Scalar.mul x s.weight),
        sum_flat := Scalar.add (Scalar.sub s.sum_flat v) x,
        deque := s.deque.setIfInBounds s.index x },
      Scalar.div
        (if s.count < s.period then Scalar.add s.sum (Scalar.mul x (Scalar.ofNat (s.count + 1)))
         else Scalar.add (Scalar.sub s.sum s.sum_flat) (Scalar.mul x s.weight))
        (Scalar.div
          (Scalar.mul (if s.count < s.period then Scalar.ofNat (s.count + 1) else s.weight)
            (Scalar.add (if s.count < s.period then Scalar.ofNat (s.count + 1) else s.weight) (Scalar.lit 1 0)))
          (Scalar.lit 2 0))) := by
  obtain ⟨hp, hs, hsz, hi, hc⟩ := h
  have hm : isizeMax < usizeMax := by decide
  have hix : s.index < s.deque.size := by omega
  rw [Array.getElem?_eq_getElem hix] at hv
  have hv := Option.some.inj hv
  unfold next
  try simp only [gen_helper]
  rs_exec
  all_goals (first | omega | (subst hv; rfl))

end TaRs.Gen.WeightedMovingAverage
