/-
  L0 (structural) facts about the GENERATED model of Maximum, valid for every `[Scalar F]`
  (no law about the comparison `Scalar.lt` is used: they hold for the f64 semantics, NaN included).  Mirror image of Minimum.
-/
import TaRs.Lemmas.Core.Maximum
import TaRs.Gen.Maximum
import TaRs.Lemmas.RsLemmas
import TaRs.Lemmas.Total.Maximum
import TaRs.Lemmas.Bar.Maximum
namespace TaRs.Gen.Maximum
open TaRs TaRs.Rs

variable {F : Type} [Scalar F]

/-- `find_max_index` only looks at the buffer: first index holding a value `>` every earlier
    candidate (and `> −∞`), `0` when there is none -/
def scan (d : Array F) : Nat :=
  (List.foldl (fun (acc : F × Nat) (x : Nat × F) =>
    if Scalar.lt acc.1 x.2 then (x.2, x.1) else (acc.1, acc.2)) (Scalar.negInf, 0) (enumerate d)).2

theorem find_max_index_eq (s : Maximum F) : s.find_max_index = scan s.deque := rfl

/-- the scan loop only ever yields `0` (its start value) or an index produced by `enumerate`:
    whatever `Scalar.lt` answers, the result is in bounds of a non-empty buffer. -/
theorem scan_lt (d : Array F) (h : 0 < d.size) : scan d < d.size := by
  unfold scan
  have key : ∀ (l : List (Nat × F)) (acc : F × Nat),
      (∀ x ∈ l, x.1 < d.size) → acc.2 < d.size →
      (List.foldl (fun (acc : F × Nat) (x : Nat × F) =>
        (if Scalar.lt acc.1 x.2 then (x.2, x.1) else (acc.1, acc.2))) acc l).2 < d.size := by
    intro l
    induction l with
    | nil => intro acc _ h2; simpa using h2
    | cons a l ih =>
      intro acc h1 h2
      simp only [List.foldl_cons]
      apply ih
      · intro x hx; exact h1 x (List.mem_cons_of_mem _ hx)
      · split
        · exact h1 a List.mem_cons_self
        · exact h2
  apply key
  · intro x hx
    unfold enumerate at hx
    have := (List.of_mem_zip (a := x.1) (b := x.2) hx).1
    simpa using this
  · exact h

/-- Normal form of one `next` on a well-formed state: which branch is taken as a function of the
    comparison with the cached slot `v` (read AFTER the write at the cursor).  This is the ONLY
    fact about `next` proved by executing the generated body; it does so with `rs_exec`, which
    does not depend on how the wrap-around test is spelled.  Everything else is derived from it. -/
theorem next_eq (s : Maximum F) (x v : F) (h : WF s)
    (hv : (s.deque.setIfInBounds s.cur_index x)[s.max_index]? = some v) :
    ∃ o, s.next x = some
      ({ period := s.period,
         max_index := if Scalar.lt v x then s.cur_index
                      else if s.max_index = s.cur_index then scan (s.deque.setIfInBounds s.cur_index x)
                      else s.max_index,
         cur_index := if s.cur_index + 1 < s.period then s.cur_index + 1 else 0,
         deque := s.deque.setIfInBounds s.cur_index x }, o) ∧
      (s.deque.setIfInBounds s.cur_index x)[if Scalar.lt v x then s.cur_index
                      else if s.max_index = s.cur_index then scan (s.deque.setIfInBounds s.cur_index x)
                      else s.max_index]? = some o := by
  obtain ⟨hp, hs, hsz, hc, hmx⟩ := h
  have hm : isizeMax < usizeMax := by decide
  have hsz' : (s.deque.setIfInBounds s.cur_index x).size = s.period := by simpa using hsz
  have hf : scan (s.deque.setIfInBounds s.cur_index x) < (s.deque.setIfInBounds s.cur_index x).size :=
    scan_lt _ (by omega)
  have hi : s.max_index < (s.deque.setIfInBounds s.cur_index x).size := by omega
  rw [Array.getElem?_eq_getElem hi] at hv
  have hv := Option.some.inj hv
  subst hv
  unfold next
  try simp only [gen_helper]
  simp only [find_max_index_eq]
  rs_exec
  all_goals (first | omega | contradiction | exact ⟨_, rfl, Array.getElem?_eq_getElem _⟩)

/-- shape of the step: the input is written at the cursor, the cursor advances cyclically, the
    new `max_index` is the cursor, the rescan result, or unchanged, and the output is the buffer
    entry at the new `max_index` -/
theorem next_shape (s : Maximum F) (x : F) (h : WF s) :
    ∃ r, s.next x = some r ∧
      r.1.deque = s.deque.setIfInBounds s.cur_index x ∧
      r.1.cur_index = (if s.cur_index + 1 < s.period then s.cur_index + 1 else 0) ∧
      (r.1.max_index = s.cur_index ∨ r.1.max_index = s.max_index ∨
        (s.max_index = s.cur_index ∧ r.1.max_index = scan r.1.deque)) ∧
      r.1.deque[r.1.max_index]? = some r.2 := by
  have hi : s.max_index < (s.deque.setIfInBounds s.cur_index x).size := by
    have := h.size; have := h.mx; simp only [Array.size_setIfInBounds]; omega
  obtain ⟨o, e, ho⟩ := next_eq s x _ h (Array.getElem?_eq_getElem hi)
  refine ⟨_, e, rfl, rfl, ?_, ho⟩
  dsimp only
  split
  · exact Or.inl rfl
  · split
    · exact Or.inr (Or.inr ⟨‹_›, rfl⟩)
    · exact Or.inr (Or.inl rfl)

end TaRs.Gen.Maximum
